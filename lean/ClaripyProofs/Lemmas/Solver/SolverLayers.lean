import ClaripyProofs.Lemmas.Solver.SolverSimplify
/-!
The query methods through the layers of the class `Solver` that sit between FullFrontend and ModelCacheMixin:
SimplifyHelperMixin (`self.simplify()` first) and ConstraintExpansionMixin (`self.add(...)` of what was learnt afterwards).
-/
namespace Claripy.Solver

variable {R : Con → Prop} {RE : Exp → Prop} {E : Env} {G : St → Prop} {U : List Con}

/-! ### SimplifyHelperMixin -/

theorem helper_batchEval_spec {self sup : Ops} (hsimp : SimplifySpec R RE E G self.simplify) (asts : List Exp) (n : Nat)
    (extra : List Con) (hsup : BatchSpec R RE E G U asts n extra (sup.batchEval asts n extra)) :
    BatchSpec R RE E G U asts n extra ((helperLayer self sup).batchEval asts n extra) := by
  intro s h
  show match (do
      if n > 1 then let _ ← self.simplify
      sup.batchEval asts n extra : M (List (List Nat))) s with
    | (.ok ts, s') => _ | (.error e, s') => _
  by_cases hn : n > 1
  · simp only [hn, ↓reduceIte, bind, M.bind]
    obtain ⟨out, s1, hrun, h1, hk1⟩ := hsimp U s h
    rw [hrun]
    simp only
    have := hsup s1 h1
    revert this
    generalize sup.batchEval asts n extra s1 = res
    rcases res with ⟨r, s2⟩
    cases r with
    | ok ts => exact fun ⟨a, b, c, d, e⟩ => ⟨a, b, c, d, hk1.trans e⟩
    | error e => exact fun ⟨a, b, c⟩ => ⟨a, b, hk1.trans c⟩
  · simp only [hn, ↓reduceIte]
    exact hsup s h

theorem helper_opt_spec {self sup : Ops} (hsimp : SimplifySpec R RE E G self.simplify) (isMax : Bool) (e : Exp)
    (extra : List Con) (signed : Bool)
    (hsup : OptSpec R RE E G U isMax e extra signed (if isMax then sup.max e extra signed else sup.min e extra signed)) :
    OptSpec R RE E G U isMax e extra signed
      (if isMax then (helperLayer self sup).max e extra signed else (helperLayer self sup).min e extra signed) := by
  intro s h
  have hshow : (if isMax then (helperLayer self sup).max e extra signed else (helperLayer self sup).min e extra signed) s =
      (do let _ ← self.simplify; (if isMax then sup.max e extra signed else sup.min e extra signed) : M Int) s := by
    cases isMax <;> rfl
  rw [hshow]
  simp only [bind, M.bind]
  obtain ⟨out, s1, hrun, h1, hk1⟩ := hsimp U s h
  rw [hrun]
  simp only
  have := hsup s1 h1
  revert this
  generalize (if isMax then sup.max e extra signed else sup.min e extra signed) s1 = res
  rcases res with ⟨r, s2⟩
  cases r with
  | ok i => exact fun ⟨a, b, c, d⟩ => ⟨a, fun hv => b (fun x hx => hk1.vars x (hv x hx)), c, hk1.trans d⟩
  | error e => exact fun ⟨a, b, c⟩ => ⟨a, b, hk1.trans c⟩

/-! ### ConstraintExpansionMixin -/

/-- **BuildOn** (C01, on the registry): the constraints claripy builds from a registered expression are registered, mean
what was written, and mention variables of the expression only -/
def BuildOn (R : Con → Prop) (RE : Exp → Prop) (E : Env) : Prop :=
  ∀ key : BuildKey, RE key.exp → R (E.build key) ∧ (∀ a, (E.build key).sem a = key.sem a) ∧
    ∀ v ∈ (E.build key).vars, v ∈ key.exp.vars

/-- adding a constraint the constraints imply: nothing changes for the user, no cached model is lost -/
theorem add_implied {self : Ops} (hadd : AddSpec R RE E G self.add) (s : St) (h : SI R RE E G U s) (c : Con) (hc : R c)
    (himp : ∀ a, Models U a → c.sem a = true) :
    ∃ added s', publicAdd self [c] false s = (.ok added, s') ∧ SI R RE E G U s' ∧ Keep U s s' ∧
      ∀ m ∈ s.fe.models, m ∈ s'.fe.models := by
  have himp' : ∀ a, Models U a → Models [c] a := fun a ha c' hc' => by simp at hc'; subst hc'; exact himp a ha
  obtain ⟨added, s', hrun, hsi, hkeep, hvars⟩ := hadd U s [c] false h (by simpa using hc) (fun _ => himp')
  have hmods : ∀ m ∈ s.fe.models, m ∈ s'.fe.models := fun m hm => hkeep m hm (himp' _ (h.mc.valid m hm))
  refine ⟨added, s', by simpa [publicAdd] using hrun, hsi.congr fun a => ?_, ⟨hvars, fun _ => hmods⟩, hmods⟩
  rw [holdsAll_append]
  cases hU : holdsAll U a
  · rfl
  · have := himp' a ((models_iff_holdsAll U a).mpr hU)
    rw [models_iff_holdsAll] at this
    simp [this]

/-- the constraint ConstraintExpansionMixin adds after `max` / `min` -/
def optKey (isMax signed : Bool) (e : Exp) (m : Int) : BuildKey :=
  if isMax then (if signed then .sle e m else .ule e m) else (if signed then .sge e m else .uge e m)

theorem optKey_exp (isMax signed : Bool) (e : Exp) (m : Int) : (optKey isMax signed e m).exp = e := by
  cases isMax <;> cases signed <;> rfl

theorem optKey_implied (isMax signed : Bool) (e : Exp) (he : ExpWf e) (i : Int) (hopt : IsOpt isMax signed U e i) (a : Asg)
    (ha : Models U a) : (optKey isMax signed e i).sem a = true := by
  have h := hopt.2 (e.val a) ⟨a, ha, rfl⟩
  have hv := he.2 a
  have hw := wrap_lt e.bits i
  cases isMax <;> cases signed <;>
    simp only [optKey, BuildKey.sem, Bool.false_eq_true, ↓reduceIte, decide_eq_true_eq, ge_iff_le, key,
      Nat.mod_eq_of_lt hv, Nat.mod_eq_of_lt hw] at h ⊢ <;> omega

theorem expansion_opt_spec (hB : BuildOn R RE E) (hRE : ExpReg RE) {self sup : Ops} (hadd : AddSpec R RE E G self.add)
    (isMax : Bool) (e : Exp) (he : RE e) (extra : List Con) (signed : Bool)
    (hsup : OptSpec R RE E G U isMax e extra signed (if isMax then sup.max e extra signed else sup.min e extra signed)) :
    OptSpec R RE E G U isMax e extra signed
      (if isMax then (expansionLayer E self sup).max e extra signed else (expansionLayer E self sup).min e extra signed) := by
  intro s h
  have hshow : (if isMax then (expansionLayer E self sup).max e extra signed else (expansionLayer E self sup).min e extra signed) s =
      (do
        let m ← (if isMax then sup.max e extra signed else sup.min e extra signed)
        if extra.isEmpty then
          let _ ← publicAdd self [E.build (optKey isMax signed e m)] false
        pure m : M Int) s := by
    cases isMax <;> rfl
  rw [hshow]
  simp only [bind, M.bind]
  have hspec := hsup s h
  rcases hq : (if isMax then sup.max e extra signed else sup.min e extra signed) s with ⟨res, s1⟩
  rw [hq] at hspec
  cases res with
  | error err => exact hspec
  | ok i =>
    obtain ⟨hopt, hcached, h1, hk1⟩ := hspec
    simp only
    by_cases hex : extra.isEmpty = true
    · have hnil : extra = [] := by simpa using hex
      subst hnil
      simp only [List.isEmpty_nil, ↓reduceIte, M.bind]
      obtain ⟨hbR, hbsem, _⟩ := hB (optKey isMax signed e i) (by rw [optKey_exp]; exact he)
      obtain ⟨added, s2, hrun, h2, hk2, hmods⟩ := add_implied hadd s1 h1 (E.build (optKey isMax signed e i)) hbR
        (fun a ha => by rw [hbsem]; exact optKey_implied isMax signed e (hRE.wf e he) i (by simpa using hopt) a ha)
      rw [hrun]
      simp only [pure, M.pure]
      refine ⟨hopt, fun hv => ?_, h2, hk1.trans hk2⟩
      obtain ⟨m, hm, hmv⟩ := hcached hv
      exact ⟨m, hmods m hm, hmv⟩
    · simp only [hex, Bool.false_eq_true, ↓reduceIte, pure, M.pure]
      exact ⟨hopt, hcached, h1, hk1⟩

theorem expansion_solution_spec (hB : BuildOn R RE E) {self sup : Ops} (hadd : AddSpec R RE E G self.add)
    (e : Exp) (he : RE e) (v : Nat) (hv : v < 2 ^ e.bits) (extra : List Con)
    (hsup : SolSpec R RE E G U e v extra (sup.solution e v extra)) :
    SolSpec R RE E G U e v extra ((expansionLayer E self sup).solution e v extra) := by
  intro s h
  show match (do
      let b ← sup.solution e v extra
      if !b && extra.isEmpty then
        let _ ← publicAdd self [E.build (.ne e v)] false
      pure b : M Bool) s with
    | (.ok b, s') => _ | (.error err, s') => _
  simp only [bind, M.bind]
  have hspec := hsup s h
  rcases hq : sup.solution e v extra s with ⟨res, s1⟩
  rw [hq] at hspec
  cases res with
  | error err => exact hspec
  | ok b =>
    obtain ⟨hb, h1, hk1⟩ := hspec
    simp only
    by_cases hcond : (!b && extra.isEmpty) = true
    · simp only [hcond, ↓reduceIte, M.bind]
      simp only [Bool.and_eq_true, Bool.not_eq_eq_eq_not, Bool.not_true, List.isEmpty_iff] at hcond
      obtain ⟨hbf, hnil⟩ := hcond
      subst hnil
      obtain ⟨hbR, hbsem, _⟩ := hB (.ne e v) he
      have hnf : ¬ Feasible U e v := by
        intro hf
        have := hb.mpr (by simpa using hf)
        rw [hbf] at this; cases this
      obtain ⟨added, s2, hrun, h2, hk2, _⟩ := add_implied hadd s1 h1 (E.build (.ne e v)) hbR (fun a ha => by
        rw [hbsem]
        simp only [BuildKey.sem, Nat.mod_eq_of_lt hv, ne_eq, decide_eq_true_eq]
        exact fun heq => hnf ⟨a, ha, heq⟩)
      rw [hrun]
      simp only [pure, M.pure]
      exact ⟨hb, h2, hk1.trans hk2⟩
    · simp only [hcond, Bool.false_eq_true, ↓reduceIte, pure, M.pure]
      exact ⟨hb, h1, hk1⟩

end Claripy.Solver
