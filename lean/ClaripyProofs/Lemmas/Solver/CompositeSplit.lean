import ClaripyProofs.Lemmas.Solver.CompositeKeep
/-!
Towards `ReabsorbKeeps`: what `add` on a BLANK copy (the parts of `split()`, the combined child of `combine`) leaves in the five
exhausted-marker sets — nothing, or the markers of `_trivial_model_optimization` for the sole constraint `BVS == BVV`
(`TrivMarks`, `child_add_marks`); such markers are `ConstUnder` the constraint (`trivMarks_const`), whatever models the record
holds afterwards: `ModelCacheMixin.split` may replace the part's models by any valid ones (`mcInv_of_trivMarks`).
-/
namespace Claripy.Solver

variable {R : Con → Prop} {RE : Exp → Prop} {E : Env}

/-- the id is in one of the five exhausted-marker sets -/
def Marked (fe : Frontend) (i : Nat) : Prop :=
  i ∈ fe.evalExh ∨ i ∈ fe.maxExh ∨ i ∈ fe.minExh ∨ i ∈ fe.maxSExh ∨ i ∈ fe.minSExh

def NoMarks (fe : Frontend) : Prop :=
  fe.evalExh = [] ∧ fe.maxExh = [] ∧ fe.minExh = [] ∧ fe.maxSExh = [] ∧ fe.minSExh = []

/-- every marker is the one `_trivial_model_optimization` sets for the sole constraint of the record -/
def TrivMarks (fe : Frontend) : Prop := ∀ i, Marked fe i → ∃ c v x, fe.constraints = [c] ∧ c.triv = some (v, x, i)

/-- same constraint list, same markers -/
def SameMC (fe fe' : Frontend) : Prop :=
  fe'.constraints = fe.constraints ∧ fe'.evalExh = fe.evalExh ∧ fe'.maxExh = fe.maxExh ∧ fe'.minExh = fe.minExh ∧
  fe'.maxSExh = fe.maxSExh ∧ fe'.minSExh = fe.minSExh

theorem SameMC.refl (fe : Frontend) : SameMC fe fe := ⟨rfl, rfl, rfl, rfl, rfl, rfl⟩

theorem SameMC.trans {a b c : Frontend} (h1 : SameMC a b) (h2 : SameMC b c) : SameMC a c :=
  ⟨h2.1.trans h1.1, h2.2.1.trans h1.2.1, h2.2.2.1.trans h1.2.2.1, h2.2.2.2.1.trans h1.2.2.2.1,
   h2.2.2.2.2.1.trans h1.2.2.2.2.1, h2.2.2.2.2.2.trans h1.2.2.2.2.2⟩

theorem TrivMarks.congr {fe fe' : Frontend} (h : SameMC fe fe') (ht : TrivMarks fe) : TrivMarks fe' := by
  obtain ⟨h0, h1, h2, h3, h4, h5⟩ := h
  intro i hi
  unfold Marked at hi
  rw [h1, h2, h3, h4, h5] at hi
  rw [h0]
  exact ht i hi

theorem NoMarks.trivMarks {fe : Frontend} (h : NoMarks fe) : TrivMarks fe := by
  obtain ⟨h1, h2, h3, h4, h5⟩ := h
  intro i hi
  unfold Marked at hi
  rw [h1, h2, h3, h4, h5] at hi
  simp at hi

/-! ### a small calculus: monadic code that leaves constraints and markers alone -/

def TrM {α : Type} (m : M α) : Prop := ∀ s, SameMC s.fe (m s).2.fe

theorem trM_pure {α : Type} (a : α) : TrM (pure a : M α) := fun _ => SameMC.refl _
theorem trM_throw {α : Type} (e : Err) : TrM (M.throw e : M α) := fun _ => SameMC.refl _
theorem trM_getFe : TrM M.getFe := fun _ => SameMC.refl _

theorem trM_modifyFe (f : Frontend → Frontend) (hf : ∀ fe, SameMC fe (f fe)) : TrM (M.modifyFe f) := fun s => by
  rw [M.modifyFe_apply]; exact hf s.fe

theorem sameMC_bind {α β : Type} {m : M α} {f : α → M β} {s : St} {fe0 : Frontend} (h1 : SameMC fe0 (m s).2.fe)
    (h2 : ∀ a, TrM (f a)) : SameMC fe0 ((m >>= f) s).2.fe := by
  show SameMC fe0 (M.bind m f s).2.fe
  unfold M.bind
  revert h1
  generalize m s = res
  obtain ⟨r, s1⟩ := res
  cases r with
  | ok a => exact fun h1 => h1.trans (h2 a s1)
  | error e => exact id

theorem trM_bind {α β : Type} {m : M α} {f : α → M β} (h1 : TrM m) (h2 : ∀ a, TrM (f a)) : TrM (m >>= f) :=
  fun s => sameMC_bind (h1 s) h2

theorem trM_ite {α : Type} (c : Prop) [Decidable c] {a b : M α} (ha : TrM a) (hb : TrM b) : TrM (if c then a else b) := by
  split
  · exact ha
  · exact hb

theorem marks_bind {α β : Type} {m : M α} {f : α → M β} {s : St} (h1 : TrivMarks (m s).2.fe) (h2 : ∀ a, TrM (f a)) :
    TrivMarks ((m >>= f) s).2.fe := by
  show TrivMarks (M.bind m f s).2.fe
  unfold M.bind
  revert h1
  generalize m s = res
  obtain ⟨r, s1⟩ := res
  cases r with
  | ok a => exact fun h1 => h1.congr (h2 a s1)
  | error e => exact id

theorem cheapScan_trM (E : Env) (a : Con) : ∀ l : List Con, TrM (cheapScan E a l)
  | [] => trM_pure _
  | c :: rest => by
    unfold cheapScan
    refine trM_bind (fun s => SameMC.refl _) fun s0 => trM_bind (fun s => SameMC.refl _) fun _ => ?_
    exact trM_ite _ (trM_pure _) (cheapScan_trM E a rest)

theorem satCacheAddScan_trM (E : Env) (added : List Con) : TrM (satCacheAddScan E added) := by
  unfold satCacheAddScan
  refine trM_ite _ (trM_pure _) (trM_ite _ (trM_pure _) ?_)
  split
  · refine trM_bind trM_getFe fun fe => trM_ite _ ?_ (trM_pure _)
    refine trM_bind (cheapScan_trM E _ _) fun r => ?_
    cases r with
    | none => exact trM_pure _
    | some con => exact trM_bind (trM_modifyFe _ fun _ => ⟨rfl, rfl, rfl, rfl, rfl, rfl⟩) fun _ => trM_pure _
  · exact trM_pure _

/-! ### ModelCacheMixin._add on a record without markers -/

theorem trivMarks_trivOptFe (fe : Frontend) (h : NoMarks fe) : TrivMarks (trivOptFe fe) := by
  obtain ⟨h1, h2, h3, h4, h5⟩ := h
  unfold trivOptFe
  split
  · rename_i hc
    split
    · rename_i v x eid htr
      have hlen : fe.constraints.length = 1 := by
        simp only [Bool.and_eq_true, beq_iff_eq] at hc; exact hc.1
      obtain ⟨c, hcons⟩ : ∃ c, fe.constraints = [c] := by
        match hx : fe.constraints, hlen with
        | [c], _ => exact ⟨c, rfl⟩
      rw [hcons] at htr
      simp only [List.headD_cons] at htr
      intro i hi
      unfold Marked at hi
      simp only [h1, h2, h3, h4, h5, mem_listInsert, List.not_mem_nil, false_or, or_self] at hi
      subst hi
      exact ⟨c, v, x, hcons, htr⟩
    · exact NoMarks.trivMarks ⟨h1, h2, h3, h4, h5⟩
  · exact NoMarks.trivMarks ⟨h1, h2, h3, h4, h5⟩

theorem trivMarks_invalFe (E : Env) (cs added : List Con) (fe : Frontend) (h : TrivMarks fe) :
    TrivMarks (invalFe E cs added fe) := by
  unfold invalFe
  have h1 : TrivMarks (if cs.any (·.isFalse) then { fe with models := [] } else fe) := by
    split
    · exact h.congr ⟨rfl, rfl, rfl, rfl, rfl, rfl⟩
    · exact h
  revert h1
  generalize (if cs.any (·.isFalse) then { fe with models := [] } else fe) = fe1
  intro h1
  dsimp only
  split
  · exact NoMarks.trivMarks ⟨rfl, rfl, rfl, rfl, rfl⟩
  · exact h1

section
variable (H : SolverHyps R RE E)
include H

omit H in
/-- **`_add` of SolverCompositeChild on a record without markers** leaves the markers of the trivial-model optimisation at most -/
theorem cL4_add_marks (self : Ops) (cs : List Con) (inv : Bool) (s : St) (h0 : NoMarks s.fe) :
    TrivMarks ((cL4 E self).add cs inv s).2.fe := by
  have hmc : ∀ cs', TrivMarks ((cL1 E self).add cs' inv s).2.fe := by
    intro cs'
    show TrivMarks ((modelCacheLayer E self (cL0 E self)).add cs' inv s).2.fe
    rw [mcAdd_eq]
    split
    · exact h0.trivMarks
    · obtain ⟨new, s1, hrun, hrel, hmcf, _, _⟩ := fc_add_low E self self frontendBase s cs' inv
      have hrun' : (cL0 E self).add cs' inv s = (.ok new, s1) := hrun
      rw [hrun']
      dsimp only
      obtain ⟨_, f1, f2, f3, f4, f5⟩ := mcFields_eq hmcf
      have hno1 : NoMarks s1.fe := by
        obtain ⟨g1, g2, g3, g4, g5⟩ := h0
        exact ⟨f1.trans g1, f2.trans g2, f3.trans g3, f4.trans g4, f5.trans g5⟩
      split
      · exact hno1.trivMarks
      · show TrivMarks (mcAfterAddFe E s.fe.variables cs' inv new s1.fe)
        unfold mcAfterAddFe
        split
        · exact trivMarks_invalFe E cs' new _ (trivMarks_trivOptFe s1.fe hno1)
        · exact trivMarks_trivOptFe s1.fe hno1
  have hsk : ∀ cs', TrivMarks ((cL3 E self).add cs' inv s).2.fe := by
    intro cs'
    show TrivMarks ((do
        let added ← (do
          let added ← (cL1 E self).add cs' inv
          if !added.isEmpty then M.modifyFe fun fe => { fe with simplified := false }
          pure added : M (List Con))
        let foundUnsat ← satCacheAddScan E added
        if foundUnsat then M.modifyFe fun fe => { fe with cachedSat := some false }
        else M.modifyFe fun fe => if fe.cachedSat == some true then { fe with cachedSat := none } else fe
        pure added : M (List Con)) s).2.fe
    refine marks_bind (marks_bind (hmc cs') fun added => ?_) fun added => ?_
    · exact trM_ite _ (trM_bind (trM_modifyFe _ fun _ => ⟨rfl, rfl, rfl, rfl, rfl, rfl⟩) fun _ => trM_pure _) (trM_pure _)
    · refine trM_bind (satCacheAddScan_trM E added) fun found => trM_ite _
        (trM_bind (trM_modifyFe _ fun _ => ⟨rfl, rfl, rfl, rfl, rfl, rfl⟩) fun _ => trM_pure _)
        (trM_bind (trM_modifyFe _ fun fe => ?_) fun _ => trM_pure _)
      split
      · exact ⟨rfl, rfl, rfl, rfl, rfl, rfl⟩
      · exact SameMC.refl fe
  show TrivMarks ((do
      let fe ← M.getFe
      let filtered := cs.filter fun c => !fe.hashes.contains c.id
      if filtered.isEmpty then pure filtered
      else do
        let added ← (cL3 E self).add filtered inv
        M.modifyFe fun fe => { fe with hashes := listUnion fe.hashes (added.map (·.id)) }
        pure added : M (List Con)) s).2.fe
  simp only [bind, M.bind, M.getFe_apply]
  split
  · exact h0.trivMarks
  · refine marks_bind (m := (cL3 E self).add (cs.filter fun c => !s.fe.hashes.contains c.id) inv) (hsk _) fun added => ?_
    exact trM_bind (trM_modifyFe _ fun _ => ⟨rfl, rfl, rfl, rfl, rfl, rfl⟩) fun _ => trM_pure _

omit H in
/-- the public `add` -/
theorem child_add_marks (cs : List Con) (s : St) (h0 : NoMarks s.fe) :
    TrivMarks (publicAdd (childOps E) cs true s).2.fe := by
  unfold publicAdd
  split
  · exact h0.trivMarks
  · exact cL4_add_marks (chStage E 3) cs true s h0

/-- a marker of the trivial-model optimisation: the marked expression has one value under the constraint -/
theorem trivMarks_const {fe : Frontend} (ht : TrivMarks fe) (hcR : ∀ c ∈ fe.constraints, R c) {U : List Con}
    (hU : ∀ a, Models U a → Models fe.constraints a) (e : Exp) (he : RE e) (hi : Marked fe e.id) : ConstUnder U e := by
  obtain ⟨c, v, x, hcons, htr⟩ := ht e.id hi
  have hc : c ∈ fe.constraints := by rw [hcons]; simp
  obtain ⟨_, h2⟩ := H.triv c (hcR c hc) v x e.id htr
  obtain ⟨h3, _⟩ := h2 e he rfl
  intro a b ⟨aa, ha, hva⟩ ⟨bb, hb, hvb⟩
  rw [← hva, ← hvb, h3 aa (hU aa ha c hc), h3 bb (hU bb hb c hc)]

/-- **a record whose markers are the trivial ones satisfies the cache invariant with ANY valid models** -/
theorem mcInv_of_trivMarks {fe : Frontend} (ht : TrivMarks fe) (hcR : ∀ c ∈ fe.constraints, R c) {U : List Con}
    (hU : ∀ a, Models U a → Models fe.constraints a) (hv : ∀ m ∈ fe.models, Models U (m.complete E.dflt)) :
    MCInv RE E U fe := by
  refine ⟨hv, fun e he hi => Or.inl (trivMarks_const H ht hcR hU e he (Or.inl hi)), fun isMax signed e he hi => Or.inl ?_⟩
  refine trivMarks_const H ht hcR hU e he ?_
  unfold Marked
  cases isMax <;> cases signed <;> simp only [optFlags, Bool.false_eq_true, ↓reduceIte] at hi
  · exact Or.inr (Or.inr (Or.inl hi))
  · exact Or.inr (Or.inr (Or.inr (Or.inr hi)))
  · exact Or.inr (Or.inl hi)
  · exact Or.inr (Or.inr (Or.inr (Or.inl hi)))

/-! ### `split()`: the parts join the world of children -/

/-- the part made from the constraint list `cl`: it answers for `cl` and knows exactly the variables of `cl` -/
def ListOk (Us' : List (List Con)) (w' : World) (p : Nat) (cl : List Con) : Prop :=
  (∀ a, Models (Us'.getD p []) a ↔ Models cl a) ∧ (∀ c ∈ cl, ∀ v ∈ c.vars, v ∈ (w'.fes.getD p {}).variables) ∧
  (∀ v ∈ (w'.fes.getD p {}).variables, ∃ c ∈ cl, v ∈ c.vars)

/-- what `split()` of the record `fs` leaves in a part -/
structure PartOk (fs fe : Frontend) : Prop where
  keys : KeysInv fe
  exact : ExactVars fe
  marks : TrivMarks fe
  cons : ∀ c ∈ fe.constraints, c ∈ fs.constraints
  models : ∀ m' ∈ fe.models, ∃ m ∈ fs.models, m' = m.restrict fe.variables

omit H in
theorem complete_restrict_agree (dflt : Var → Nat) (m : PModel) (vars : List Var) (v : Var) (hv : v ∈ vars) :
    (m.restrict vars).complete dflt v = m.complete dflt v := by
  simp only [PModel.complete_apply, PModel.get?_restrict, hv, ↓reduceIte]

/-- **the loop of `ConstrainedFrontend.split` / `ModelCacheMixin.split`**: every part is a new child satisfying the C11 invariant
for its own constraints (blank copy, `add`, then the models of the whole restricted to the part's variables), the old children
are untouched -/
theorem split_go_spec (F : ChildFoot R RE E) (fs : Frontend)
    (hfv : ∀ m ∈ fs.models, Models fs.constraints (m.complete E.dflt)) (hfs : ∀ m ∈ fs.models, m.Sorted) :
    ∀ (lists : List (List Con)) (w : World) (Us : List (List Con)) (acc : List Nat), TInvS R RE E Us w → w.reuse = false →
    (∀ cl ∈ lists, ∀ c ∈ cl, R c ∧ c ∈ fs.constraints) →
    ∃ parts w' Us', childSplitWith.go E fs lists w acc = (.ok parts, w') ∧ TInvS R RE E Us' w' ∧ w'.reuse = false ∧
      w.fes.length ≤ w'.fes.length ∧
      (∀ i, i < w.fes.length → w'.fes.getD i {} = w.fes.getD i {} ∧ Us'.getD i [] = Us.getD i []) ∧
      (∀ i, w.fes.length ≤ i → i < w'.fes.length → PartOk fs (w'.fes.getD i {})) ∧
      (∀ p ∈ parts, p ∈ acc ∨ (w.fes.length ≤ p ∧ p < w'.fes.length)) ∧
      ∃ newParts, parts = acc ++ newParts ∧ List.Forall₂ (ListOk Us' w') newParts lists ∧
        ∀ p ∈ newParts, w.fes.length ≤ p ∧ p < w'.fes.length
  | [], w, Us, acc, hw, hre, _ =>
    ⟨acc, w, Us, by simp [childSplitWith.go], hw, hre, Nat.le_refl _, fun _ _ => ⟨rfl, rfl⟩,
      fun i h1 h2 => absurd h2 (by omega), fun p hp => Or.inl hp, [], by simp, List.Forall₂.nil, fun _ hp => by cases hp⟩
  | cl :: rest, w, Us, acc, hw, hre, hl => by
    have hclR : ∀ c ∈ cl, R c := fun c hc => (hl cl (by simp) c hc).1
    have hb : TInvS R RE E (Us ++ [[]]) { w with fes := w.fes ++ [childBlank E fs] } := by
      rw [childBlank_eq]; exact child_blank_spec w Us hw hre fs.track
    have hk : w.fes.length < ({ w with fes := w.fes ++ [childBlank E fs] } : World).fes.length := by simp
    have hblank : ({ w with fes := w.fes ++ [childBlank E fs] } : World).fes.getD w.fes.length {} = { track := fs.track } := by
      rw [childBlank_eq]; exact getD_append_last _ _ _
    obtain ⟨added, w1, hrun, h1, hlen1, hoth1, hcons1, hadd1, hvars1, hself1, hre1, hcover1, _⟩ :=
      child_add_spec_ids H _ (Us ++ [[]]) hb w.fes.length hk cl hclR
    have hk1 : w.fes.length < w1.fes.length := by rw [hlen1]; exact hk
    rw [hblank] at hcons1 hvars1 hcover1
    -- the part after `add`
    have hkeys : KeysInv (w1.fes.getD w.fes.length {}) := by
      rw [hself1]
      refine F.add _ _ cl _ hclR (hb.each _ hk) ?_
      intro m hm
      have : (stOfI ({ w with fes := w.fes ++ [childBlank E fs] } : World) w.fes.length).fe = { track := fs.track } := hblank
      rw [this] at hm; cases hm
    have hexact : ExactVars (w1.fes.getD w.fes.length {}) := by
      intro v hv
      rcases (hvars1 v).mp hv with hv | ⟨c, hc, hvc⟩
      · cases hv
      · exact ⟨c, by rw [hcons1]; exact List.mem_append_right _ hc, hvc⟩
    have hmarks : TrivMarks (w1.fes.getD w.fes.length {}) := by
      rw [hself1]
      refine child_add_marks cl _ ?_
      have : (stOfI ({ w with fes := w.fes ++ [childBlank E fs] } : World) w.fes.length).fe = { track := fs.track } := hblank
      rw [this]; exact ⟨rfl, rfl, rfl, rfl, rfl⟩
    have hconsIn : ∀ c ∈ (w1.fes.getD w.fes.length {}).constraints, c ∈ fs.constraints := by
      intro c hc
      rw [hcons1] at hc
      rcases List.mem_append.mp hc with hc | hc
      · cases hc
      · exact (hl cl (by simp) c (hadd1 c hc)).2
    have hsi1 := h1.each w.fes.length hk1
    have hfe1 : (stOfI w1 w.fes.length).fe = w1.fes.getD w.fes.length {} := rfl
    -- the models of the whole, restricted
    have hmem : ∀ m', m' ∈ (fs.models.map fun m => m.restrict (w1.fes.getD w.fes.length {}).variables).foldl listInsert [] ↔
        ∃ m ∈ fs.models, m' = m.restrict (w1.fes.getD w.fes.length {}).variables := by
      intro m'
      rw [mem_foldl_listInsert]
      simp only [List.not_mem_nil, false_or, List.mem_map]
      constructor
      · rintro ⟨m, hm, rfl⟩; exact ⟨m, hm, rfl⟩
      · rintro ⟨m, hm, rfl⟩; exact ⟨m, hm, rfl⟩
    have hvalid : ∀ m ∈ fs.models, Models (w1.fes.getD w.fes.length {}).constraints
        ((m.restrict (w1.fes.getD w.fes.length {}).variables).complete E.dflt) := by
      intro m hm c hc
      have hcw : ConWf c := H.reg.wf c (hsi1.base.dinv.consR c hc)
      have hag : c.sem ((m.restrict (w1.fes.getD w.fes.length {}).variables).complete E.dflt) = c.sem (m.complete E.dflt) :=
        hcw.1 _ _ (fun v hv => complete_restrict_agree E.dflt m _ v (hsi1.base.vars c hc v hv))
      rw [hag]
      exact hfv m hm c (hconsIn c hc)
    have hmarks' : TrivMarks { (w1.fes.getD w.fes.length {}) with
          models := (fs.models.map fun m => m.restrict (w1.fes.getD w.fes.length {}).variables).foldl listInsert [] } :=
      hmarks.congr ⟨rfl, rfl, rfl, rfl, rfl, rfl⟩
    have hmc : MCInv RE E (((Us ++ [[]]).set w.fes.length ((Us ++ [[]]).getD w.fes.length [] ++ cl)).getD w.fes.length [])
        { (w1.fes.getD w.fes.length {}) with
          models := (fs.models.map fun m => m.restrict (w1.fes.getD w.fes.length {}).variables).foldl listInsert [] } := by
      refine mcInv_of_trivMarks H hmarks' hsi1.base.dinv.consR
        (fun a ha => (hsi1.base.models_iff a).mpr ha) ?_
      intro m' hm'
      obtain ⟨m, hm, rfl⟩ := (hmem m').mp hm'
      exact (hsi1.base.models_iff _).mp (hvalid m hm)
    have h2 := tinvS_set_cache h1 hk1 { (w1.fes.getD w.fes.length {}) with
          models := (fs.models.map fun m => m.restrict (w1.fes.getD w.fes.length {}).variables).foldl listInsert [] }
      rfl rfl rfl rfl rfl rfl rfl rfl hmc hsi1.sc
    have hpart : PartOk fs { (w1.fes.getD w.fes.length {}) with
          models := (fs.models.map fun m => m.restrict (w1.fes.getD w.fes.length {}).variables).foldl listInsert [] } := by
      refine ⟨?_, exactVars_congr rfl rfl hexact, hmarks', hconsIn, fun m' hm' => (hmem m').mp hm'⟩
      intro m' hm'
      obtain ⟨m, hm, rfl⟩ := (hmem m').mp hm'
      exact ⟨fun kv hkv => mem_restrict hkv, PModel.sorted_restrict (hfs m hm) _⟩
    obtain ⟨parts, w3, Us3, hgo, h3, hre3, hlen3, hfr3, hparts3, hp3, newParts, hnp, hfa, hnr⟩ := split_go_spec F fs hfv hfs rest
      { w1 with fes := w1.fes.set w.fes.length { (w1.fes.getD w.fes.length {}) with
          models := (fs.models.map fun m => m.restrict (w1.fes.getD w.fes.length {}).variables).foldl listInsert [] } }
      _ (acc ++ [w.fes.length]) h2 (by rw [hre1]; exact hre) (fun cl' hcl' => hl cl' (List.mem_cons_of_mem _ hcl'))
    have hlen2 : ({ w1 with fes := w1.fes.set w.fes.length { (w1.fes.getD w.fes.length {}) with
          models := (fs.models.map fun m => m.restrict (w1.fes.getD w.fes.length {}).variables).foldl listInsert [] } } : World).fes.length
        = w.fes.length + 1 := by simp [hlen1]
    -- the part made from `cl`
    have hlistOk : ListOk Us3 w3 w.fes.length cl := by
      obtain ⟨g1, g2⟩ := hfr3 w.fes.length (by rw [hlen2]; omega)
      have hrec : w3.fes.getD w.fes.length {} = { (w1.fes.getD w.fes.length {}) with
          models := (fs.models.map fun m => m.restrict (w1.fes.getD w.fes.length {}).variables).foldl listInsert [] } := by
        rw [g1]
        show (w1.fes.set w.fes.length _).getD w.fes.length {} = _
        rw [getD_set_self _ _ _ _ hk1]
      have hUs : Us3.getD w.fes.length [] = [] ++ cl := by
        rw [g2, getD_set_self _ _ _ _ (by rw [List.length_append, hw.len]; simp)]
        congr 1
        rw [← hw.len]; exact getD_append_last _ _ _
      refine ⟨fun a => by rw [hUs, List.nil_append], ?_, ?_⟩
      · intro c hc v hv
        rw [hrec]
        show v ∈ (w1.fes.getD w.fes.length {}).variables
        rcases hcover1 c hc with hin | hseen | ⟨c', hc', hid⟩
        · exact (hvars1 v).mpr (Or.inr ⟨c, hin, hv⟩)
        · rcases hseen with hseen | hseen <;> cases hseen
        · have hveq := H.reg.varsId c' c (hclR c' (hadd1 c' hc')) (hclR c hc) hid
          exact (hvars1 v).mpr (Or.inr ⟨c', hc', by rw [hveq]; exact hv⟩)
      · intro v hv
        rw [hrec] at hv
        have hv' : v ∈ (w1.fes.getD w.fes.length {}).variables := hv
        rcases (hvars1 v).mp hv' with hv' | ⟨c, hc, hvc⟩
        · cases hv'
        · exact ⟨c, hadd1 c hc, hvc⟩
    refine ⟨parts, w3, Us3, ?_, h3, hre3, by omega, ?_, ?_, ?_, w.fes.length :: newParts, ?_, List.Forall₂.cons hlistOk hfa, ?_⟩
    rotate_left 4
    · rw [hnp]; simp
    · intro p hp
      rcases List.mem_cons.mp hp with rfl | hp
      · exact ⟨Nat.le_refl _, by omega⟩
      · obtain ⟨q1, q2⟩ := hnr p hp
        exact ⟨by rw [hlen2] at q1; omega, q2⟩
    · rw [childSplitWith.go]
      simp only [hrun]
      exact hgo
    · intro i hi
      obtain ⟨g1, g2⟩ := hfr3 i (by rw [hlen2]; omega)
      refine ⟨g1.trans ?_, g2.trans ?_⟩
      · show (w1.fes.set w.fes.length _).getD i {} = _
        rw [getD_set_ne _ _ _ _ _ (Nat.ne_of_gt hi), hoth1 i (Nat.ne_of_lt hi)]
        exact getD_append_left' _ _ _ _ hi
      · rw [getD_set_ne _ _ _ _ _ (Nat.ne_of_gt hi)]
        exact getD_append_left' _ _ _ _ (by rw [hw.len]; exact hi)
    · intro i h1' h2'
      by_cases hik : i = w.fes.length
      · subst hik
        rw [(hfr3 _ (by rw [hlen2]; omega)).1]
        show PartOk fs ((w1.fes.set w.fes.length _).getD w.fes.length {})
        rw [getD_set_self _ _ _ _ hk1]
        exact hpart
      · exact hparts3 i (by rw [hlen2]; omega) h2'
    · intro p hp
      rcases hp3 p hp with hpa | ⟨hp1, hp2⟩
      · rcases List.mem_append.mp hpa with hpa | hpk
        · exact Or.inl hpa
        · simp only [List.mem_singleton] at hpk
          subst hpk
          exact Or.inr ⟨Nat.le_refl _, by omega⟩
      · exact Or.inr ⟨by rw [hlen2] at hp1; omega, hp2⟩

end

end Claripy.Solver
