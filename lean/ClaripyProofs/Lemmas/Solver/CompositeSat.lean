import ClaripyProofs.Lemmas.Solver.CompositeAdd
/-!
`CompositeFrontend.check_satisfiability` / `satisfiable` without extra constraints: the children listed as unchecked are asked one
by one (`check_satisfiability` of the child class: cached verdict, the trivial-constraint shortcut, the backend); the composite is
satisfiable iff all of them are, because their constraint sets share no variable.
-/
namespace Claripy.Solver

variable {R : Con → Prop} {RE : Exp → Prop} {E : Env}

section
variable (H : SolverHyps R RE E)
include H

/-- `check_satisfiability(extra)` of a child: the verdict is right, the invariant of the child is kept, also on a give-up -/
theorem childCheckSat_spec {G : St → Prop} {U : List Con} (extra : List Con) :
    SatSpec R RE E G U extra (childCheckSat E extra) := by
  intro s h
  unfold childCheckSat
  simp only [bind, M.bind, M.getFe_apply]
  by_cases h1 : (s.fe.cachedSat == some false) = true
  · simp only [h1, ↓reduceIte, pure, M.pure]
    have hc : s.fe.cachedSat = some false := by simpa using h1
    refine ⟨⟨fun hb => (by cases hb), fun ⟨a, ha⟩ => (h.sc.2 hc ⟨a, (models_append.mp ha).1⟩).elim⟩, h, Keep.refl U s⟩
  · simp only [h1, Bool.false_eq_true, ↓reduceIte]
    by_cases h2 : (s.fe.cachedSat == some true && extra.isEmpty) = true
    · simp only [h2, ↓reduceIte, pure, M.pure]
      simp only [Bool.and_eq_true, beq_iff_eq, List.isEmpty_iff] at h2
      obtain ⟨hc, rfl⟩ := h2
      refine ⟨⟨fun _ => (by simpa using h.sc.1 hc), fun _ => trivial⟩, h, Keep.refl U s⟩
    · simp only [h2, Bool.false_eq_true, ↓reduceIte]
      have hmh : (childOps E).modelHook = mcHook := chStage_hook E 4
      rw [hmh]
      cases hsc : checkSatShortcut s.fe extra with
      | none =>
        simp only
        -- the backend path is FullFrontend.satisfiable with `_model_hook` as callback
        have hfull := full_satisfiable_spec (R := R) (RE := RE) (G := G) (U := U)
          (self := { frontendBase with modelHook := mcHook }) (sup := frontendBase) H.oracle H.reg H.zid rfl extra s h
        exact hfull
      | some m =>
        simp only
        -- the shortcut
        unfold checkSatShortcut at hsc
        split at hsc
        · rename_i hcond
          simp only [Bool.and_eq_true, List.isEmpty_iff, beq_iff_eq] at hcond
          obtain ⟨rfl, hlen⟩ := hcond
          obtain ⟨c, hcons⟩ : ∃ c, s.fe.constraints = [c] := by
            match hx : s.fe.constraints, hlen with
            | [c], _ => exact ⟨c, rfl⟩
          have hcR : R c := h.base.dinv.consR c (by rw [hcons]; simp)
          cases htr : c.triv with
          | none => simp [hcons, htr, Con.trivNe] at hsc
          | some t =>
            obtain ⟨v, x, eid⟩ := t
            simp only [hcons, List.headD_cons, htr, Option.some.injEq] at hsc
            subst hsc
            simp only [M.bind, mcHook_apply, pure, M.pure]
            have htriv := H.triv c hcR v x eid htr
            have hsat : Satisfiable (U ++ []) := by
              refine ⟨fun _ => x, ?_⟩
              rw [List.append_nil, ← h.base.models_iff, hcons]
              intro c' hc'
              simp only [List.mem_singleton] at hc'
              subst hc'
              exact htriv.1 _ rfl
            have hmc : MCInv RE E U (mcHookFe [(v, x)] s.fe) := by
              refine mcHookFe_inv h.mc [(v, x)] s.fe.constraints (h.base.cons_wf H.reg) h.base.vars h.base.models_iff ?_
              intro a ha
              rw [hcons]
              intro c' hc'
              simp only [List.mem_singleton] at hc'
              subst hc'
              exact htriv.1 a (ha v x (by simp [PModel.get?]))
            have hfe := mcHookFe_fields [(v, x)] s.fe
            refine ⟨⟨fun _ => hsat, fun _ => trivial⟩, ?_, ?_⟩
            · refine h.set_fe (mcHookFe [(v, x)] s.fe) ?_ ?_ ?_ ?_ ?_ ?_ ?_ ?_ hmc ?_ <;> (try (rw [hfe]))
              exact h.sc
            · exact ⟨fun v hv => by rw [hfe]; exact hv, fun _ m hm => mcHookFe_models_mono _ _ m hm⟩
        · cases hsc

omit H in
/-- a child call that keeps the child's invariant and footprint keeps the invariant of the composite -/
theorem cinv_query {U : List Con} {Us : List (List Con)} {s : CSt} (h : CInv R RE E U Us s) (j : Nat)
    (hj : j < s.w.fes.length) {α : Type} (m : M α)
    (hsi : SI R RE E (· = stOfI s.w j) (Us.getD j []) (m (stOfI s.w j)).2)
    (hfoot : FootQ (stOfI s.w j) (m (stOfI s.w j)).2) :
    CInv R RE E U Us { s with w := (runOn s.w j m).2 } := by
  rw [runOn_eq]
  obtain ⟨h1, hq⟩ := hsi.unmark
  have hk := tinvS_step h.kids hj hq h1
  rw [set_getD_self Us j [] (by rw [h.kids.len]; exact hj)] at hk
  have hself : (wOfI s.w j (m (stOfI s.w j)).2).fes.getD j {} = (m (stOfI s.w j)).2.fe := by
    simp only [wOfI]; exact getD_set_self _ _ _ _ hj
  have hother : ∀ i, i ≠ j → (wOfI s.w j (m (stOfI s.w j)).2).fes.getD i {} = s.w.fes.getD i {} := by
    intro i hi; simp only [wOfI]; exact getD_set_ne _ _ _ _ _ (Ne.symm hi)
  have hlen : (wOfI s.w j (m (stOfI s.w j)).2).fes.length = s.w.fes.length := by simp [wOfI]
  have hvars : ∀ i, ((wOfI s.w j (m (stOfI s.w j)).2).fes.getD i {}).variables = (s.child i).variables := by
    intro i
    by_cases hi : i = j
    · subst hi; rw [hself, hfoot.1]; rfl
    · rw [hother i hi]; rfl
  refine ⟨hk, h.reuse, ?_, ?_, h.nodup, ?_, ?_, h.sem, h.unsatOk, h.checked⟩
  · intro i hi
    rw [hlen] at hi
    show KeysInv ((wOfI s.w j (m (stOfI s.w j)).2).fes.getD i {})
    by_cases hij : i = j
    · subst hij; rw [hself]; exact hfoot.2.2 (h.keysOk i hi)
    · rw [hother i hij]; exact h.keysOk i hi
  · intro i hi
    rw [hlen] at hi
    show ExactVars ((wOfI s.w j (m (stOfI s.w j)).2).fes.getD i {})
    by_cases hij : i = j
    · subst hij; rw [hself]; exact exactVars_congr hfoot.2.1 hfoot.1 (h.exact i hi)
    · rw [hother i hij]; exact h.exact i hi
  · intro v t hvt
    show t < (wOfI s.w j (m (stOfI s.w j)).2).fes.length ∧ v ∈ ((wOfI s.w j (m (stOfI s.w j)).2).fes.getD t {}).variables
    rw [hlen, hvars t]; exact h.map v t hvt
  · intro v t hvt u hu
    have hu' : u ∈ ((wOfI s.w j (m (stOfI s.w j)).2).fes.getD t {}).variables := hu
    rw [hvars t] at hu'
    exact h.cover v t hvt u hu'

omit H in
theorem minVar_mem : ∀ (l : List Var), l ≠ [] → minVar l ∈ l
  | [], h => (h rfl).elim
  | v :: rest, _ => by
    have : ∀ (rest : List Var) (v : Var), rest.foldl Nat.min v ∈ v :: rest := by
      intro rest
      induction rest with
      | nil => intro v; simp
      | cons w ws ih =>
        intro v
        simp only [List.foldl_cons]
        rcases List.mem_cons.mp (ih (Nat.min v w)) with h | h
        · rw [h]
          rcases Nat.le_total v w with hvw | hvw
          · have : Nat.min v w = v := Nat.min_eq_left hvw
            rw [this]; simp
          · have : Nat.min v w = w := Nat.min_eq_right hvw
            rw [this]; simp
        · simp [h]
    exact this rest v

omit H in
/-- the liveness test of the loops over `_unchecked_solvers` -/
theorem live_iff {U : List Con} {Us : List (List Con)} {s : CSt} (h : CInv R RE E U Us s) (j : Nat) :
    ((s.child j).variables.isEmpty || alGet? s.c.solvers (minVar (s.child j).variables) != some j) = false ↔
      j ∈ s.c.solverList := by
  rw [mem_solverList' _ h.nodup]
  constructor
  · intro ht
    simp only [Bool.or_eq_false_iff, bne_eq_false_iff_eq] at ht
    exact ⟨_, ht.2⟩
  · rintro ⟨v, hv⟩
    have hvj := (h.map v j hv).2
    have hne : (s.child j).variables ≠ [] := by intro hn; rw [hn] at hvj; cases hvj
    have := h.cover v j hv _ (minVar_mem _ hne)
    simp only [Bool.or_eq_false_iff, bne_eq_false_iff_eq]
    exact ⟨by simpa using hne, this⟩

variable (F : ChildFoot R RE E)
include F

/-- the loop of `check_satisfiability` over the unchecked children -/
theorem checkLoop_spec {U : List Con} {Us : List (List Con)} : ∀ (l : List Nat) (s : CSt), CInv R RE E U Us s →
    match checkLoop E none l s with
    | (.ok b, s') => CInv R RE E U Us s' ∧ s'.c = s.c ∧
        (b = true → ∀ j ∈ l, j ∈ s.c.solverList → Satisfiable (Us.getD j [])) ∧
        (b = false → ∃ j ∈ s.c.solverList, ¬ Satisfiable (Us.getD j []))
    | (.error e, s') => IsGiveUp E e ∧ CInv R RE E U Us s' ∧ s'.c = s.c
  | [], s, h => ⟨h, rfl, fun _ j hj => (by cases hj), fun hb => (by cases hb)⟩
  | j :: rest, s, h => by
    unfold checkLoop
    simp only [bind, CM.bind, CM.get, Bool.false_eq_true, ↓reduceIte]
    by_cases hlive : ((s.child j).variables.isEmpty || alGet? s.c.solvers (minVar (s.child j).variables) != some j) = true
    · simp only [hlive, ↓reduceIte]
      have hnl : j ∉ s.c.solverList := by
        intro hjl; have := (live_iff h j).mpr hjl; rw [hlive] at this; cases this
      have ih := checkLoop_spec rest s h
      revert ih
      generalize checkLoop E none rest s = res
      obtain ⟨r, s'⟩ := res
      cases r with
      | error e => exact id
      | ok b =>
        rintro ⟨h1, h2, h3, h4⟩
        refine ⟨h1, h2, fun hb i hi hil => ?_, h4⟩
        rcases List.mem_cons.mp hi with rfl | hi
        · exact (hnl hil).elim
        · exact h3 hb i hi hil
    · have hlive' : ((s.child j).variables.isEmpty || alGet? s.c.solvers (minVar (s.child j).variables) != some j) = false := by
        simpa using hlive
      simp only [hlive', Bool.false_eq_true, ↓reduceIte]
      have hjl : j ∈ s.c.solverList := (live_iff h j).mp hlive'
      obtain ⟨v, hv⟩ := (mem_solverList' _ h.nodup j).mp hjl
      have hj : j < s.w.fes.length := (h.map v j hv).1
      have hspec := childCheckSat_spec H (G := (· = stOfI s.w j)) (U := Us.getD j []) [] (stOfI s.w j) (h.kids.each j hj).mark
      have hfoot := F.checkSat _ _ [] (stOfI s.w j) (h.kids.each j hj)
      simp only [CM.bind, CM.onChild, runOn_eq]
      have hinv := cinv_query h j hj (childCheckSat E []) (by
        revert hspec; generalize childCheckSat E [] (stOfI s.w j) = res
        obtain ⟨r, s'⟩ := res
        cases r with
        | ok b => exact fun hs => hs.2.1
        | error e => exact fun hs => hs.2.1) hfoot
      rw [runOn_eq] at hinv
      revert hspec hinv
      generalize childCheckSat E [] (stOfI s.w j) = res
      obtain ⟨r, s1⟩ := res
      cases r with
      | error e => exact fun hs hinv => ⟨hs.1, hinv, rfl⟩
      | ok b =>
        intro hs hinv
        simp only [List.append_nil] at hs
        cases b with
        | false =>
          simp only [Bool.not_false, ↓reduceIte, pure, CM.pure]
          refine ⟨hinv, trivial, fun hb => (by cases hb), fun _ => ⟨j, hjl, fun hsat => ?_⟩⟩
          have := hs.1.mpr hsat; cases this
        | true =>
          simp only [Bool.not_true, Bool.false_eq_true, ↓reduceIte]
          have ih := checkLoop_spec rest _ hinv
          revert ih
          generalize checkLoop E none rest _ = res2
          obtain ⟨r2, s2⟩ := res2
          cases r2 with
          | error e => exact id
          | ok b2 =>
            rintro ⟨h1, h2, h3, h4⟩
            refine ⟨h1, h2, fun hb i hi hil => ?_, h4⟩
            rcases List.mem_cons.mp hi with rfl | hi
            · exact hs.1.mp rfl
            · exact h3 hb i hi hil

omit H F in
theorem mem_varsOf_iff {cs : List Con} {v : Var} : v ∈ varsOf cs ↔ ∃ c ∈ cs, v ∈ c.vars := by
  simp [varsOf, List.mem_flatMap]

omit H F in
/-- **independent children have a joint model**: the constraint sets of the children in the list share no variable, so models of
each glue to a model of all -/
theorem children_joint_model (hR : Reg R E) {U : List Con} {Us : List (List Con)} {s : CSt} (h : CInv R RE E U Us s)
    (keep : List Var) (b : Asg) :
    ∀ L : List Nat, L.Nodup → (∀ j ∈ L, j ∈ s.c.solverList) → (∀ j ∈ L, ∀ v ∈ (s.child j).variables, v ∉ keep) →
      (∀ j ∈ L, Satisfiable (Us.getD j [])) →
      ∃ a, (∀ j ∈ L, Models (s.child j).constraints a) ∧ ∀ v ∈ keep, a v = b v := by
  intro L
  induction L with
  | nil => intro _ _ _ _; exact ⟨b, fun j hj => (by cases hj), fun _ _ => rfl⟩
  | cons j L ih =>
    intro hnd hin hkeep hsat
    obtain ⟨hjL, hndL⟩ := List.nodup_cons.mp hnd
    obtain ⟨a', ha', hk'⟩ := ih hndL (fun i hi => hin i (by simp [hi])) (fun i hi => hkeep i (by simp [hi]))
      (fun i hi => hsat i (by simp [hi]))
    have hjl : j ∈ s.c.solverList := hin j (by simp)
    obtain ⟨vj, hvj⟩ := (mem_solverList' _ h.nodup j).mp hjl
    have hjlt := (h.map vj j hvj).1
    obtain ⟨aj, haj⟩ := hsat j (by simp)
    have haj' : Models (s.child j).constraints aj := (h.child_models hjlt aj).mpr haj
    refine ⟨glue (s.child j).variables aj a', ?_, ?_⟩
    · intro i hi
      rcases List.mem_cons.mp hi with rfl | hi
      · refine models_of_agree ((h.kids.each i hjlt).base.cons_wf hR) (fun v hv => ?_) haj'
        obtain ⟨c, hc, hvc⟩ := mem_varsOf_iff.mp hv
        simp [glue, h.child_vars hjlt c hc v hvc]
      · have hil : i ∈ s.c.solverList := hin i (by simp [hi])
        obtain ⟨vi, hvi⟩ := (mem_solverList' _ h.nodup i).mp hil
        have hilt := (h.map vi i hvi).1
        have hij : i ≠ j := fun e => hjL (e ▸ hi)
        refine models_of_agree ((h.kids.each i hilt).base.cons_wf hR) (fun v hv => ?_) (ha' i hi)
        obtain ⟨c, hc, hvc⟩ := mem_varsOf_iff.mp hv
        have hvi' := h.child_vars hilt c hc v hvc
        have : v ∉ (s.child j).variables := h.disjoint hil hjl hij v hvi'
        simp [glue, this]
    · intro v hv
      have : v ∉ (s.child j).variables := fun hvj' => hkeep j (by simp) v hvj' hv
      simp [glue, this, hk' v hv]

omit H F in
theorem solverList_nodup (c : Comp) : c.solverList.Nodup := nodup_foldl_listInsert _ _ List.nodup_nil

/-- **`satisfiable()` of the composite is right** (no extra constraints): the answer is the one `Judge` demands for everything
the user added, the invariant is kept — also when a child's backend gives up -/
theorem compSatisfiable_spec {U : List Con} {Us : List (List Con)} {s : CSt} (h : CInv R RE E U Us s) :
    match compSatisfiable E [] s with
    | (.ok b, s') => (b = true ↔ Satisfiable U) ∧ CInv R RE E U Us s'
    | (.error e, s') => IsGiveUp E e ∧ CInv R RE E U Us s' := by
  unfold compSatisfiable
  simp only [bind, CM.bind, CM.get, List.isEmpty_nil, ↓reduceIte]
  by_cases hun : s.c.unsat = true
  · simp only [hun, ↓reduceIte, pure, CM.pure]
    exact ⟨⟨fun hb => (by cases hb), fun hs => (h.unsatOk hun hs).elim⟩, h⟩
  · have hun' : s.c.unsat = false := by simpa using hun
    simp only [hun', Bool.false_eq_true, ↓reduceIte, CM.bind, orderChildren, orderOracle_run]
    -- the unchecked children in the order the weak set is iterated: the same children
    have hord := mem_reorderBy (fun (j : Nat) k => k == [j])
      (E.pick (s.c.unchecked.map fun j => [j]) (s.c.unchecked.map fun j => [j]).length s.w.tick) s.c.unchecked
    generalize reorderBy (fun (j : Nat) k => k == [j])
      (E.pick (s.c.unchecked.map fun j => [j]) (s.c.unchecked.map fun j => [j]).length s.w.tick) s.c.unchecked = order at hord
    have hl := checkLoop_spec H F order _ (h.set_tick (s.w.tick + 1))
    revert hl
    generalize checkLoop E none order _ = res
    obtain ⟨r, s1⟩ := res
    cases r with
    | error e => exact fun hl => ⟨hl.1, hl.2.1⟩
    | ok b =>
      rintro ⟨h1, hc1, h3, h4⟩
      cases b with
      | false =>
        simp only [Bool.not_false, ↓reduceIte, pure, CM.pure]
        obtain ⟨j, hjl, hns⟩ := h4 rfl
        refine ⟨⟨fun hb => (by cases hb), fun ⟨a, ha⟩ => ?_⟩, h1⟩
        exact (hns ⟨a, (h.sem hun' a).mp ha j hjl⟩).elim
      | true =>
        simp only [Bool.not_true, Bool.false_eq_true, ↓reduceIte, pure]
        have hall : ∀ j ∈ s.c.solverList, Satisfiable (Us.getD j []) := by
          intro j hj
          by_cases hu : j ∈ s.c.unchecked
          · exact h3 rfl j ((hord j).mpr hu) hj
          · exact h.checked j hj hu
        have hsat : Satisfiable U := by
          obtain ⟨a, ha, _⟩ := children_joint_model H.reg h [] (fun _ => 0) s.c.solverList (solverList_nodup _)
            (fun _ hj => hj) (fun _ _ _ _ hk => (by cases hk)) hall
          refine ⟨a, (h.sem hun' a).mpr fun j hj => ?_⟩
          obtain ⟨v, hv⟩ := (mem_solverList' _ h.nodup j).mp hj
          exact (h.child_models (h.map v j hv).1 a).mp (ha j hj)
        refine ⟨⟨fun _ => hsat, fun _ => rfl⟩, ?_⟩
        have hsl : ({ s1.c with unchecked := [] } : Comp).solverList = s.c.solverList := by rw [hc1]; rfl
        exact ⟨h1.kids, h1.reuse, h1.keysOk, h1.exact, h1.nodup, h1.map, h1.cover,
          fun hu a => (by rw [hsl]; rw [hc1] at hu; exact h.sem hu a),
          fun hu => (by rw [hc1] at hu; exact h.unsatOk hu),
          fun j hj _ => (by rw [hsl] at hj; exact hall j hj)⟩

end

end Claripy.Solver