import ClaripyProofs.Lemmas.Solver.CompositeChild
import ClaripyProofs.Lemmas.Solver.SplitOk
import ClaripyProofs.Lemmas.Solver.Independent
/-!
The invariant of a SolverComposite's bookkeeping (`CInv`): the children that `_solvers` points to hold variable-disjoint
constraint sets whose conjunction is what the user added, and `_store_child` re-establishes it (`cinv_install`).
-/
namespace Claripy.Solver

variable {R : Con → Prop} {RE : Exp → Prop} {E : Env}

/-! ### iteration order of sets: whatever the oracle says, `reorderBy` is a permutation -/

theorem reorderFront_spec {α : Type} [BEq α] [LawfulBEq α] (mt : α → List Nat → Bool) (l : List α) :
    ∀ (p : List (List Nat)) (acc : List α), (∀ x ∈ acc, x ∈ l) → acc.Nodup →
      (∀ x ∈ reorderFront mt l p acc, x ∈ l) ∧ (reorderFront mt l p acc).Nodup := by
  intro p
  induction p with
  | nil => intro acc h1 h2; exact ⟨h1, h2⟩
  | cons k ks ih =>
    intro acc h1 h2
    unfold reorderFront
    simp only [List.foldl_cons]
    cases hf : l.find? (fun x => mt x k && !acc.contains x) with
    | none => exact ih acc h1 h2
    | some x =>
      have hx := List.find?_some hf
      have hxl := List.mem_of_find?_eq_some hf
      simp only [Bool.and_eq_true, Bool.not_eq_true', List.contains_eq_mem, decide_eq_false_iff_not] at hx
      refine ih (acc ++ [x]) ?_ ?_
      · intro y hy
        rcases List.mem_append.mp hy with hy | hy
        · exact h1 y hy
        · simp only [List.mem_singleton] at hy; subst hy; exact hxl
      · rw [List.nodup_append]
        refine ⟨h2, by simp, ?_⟩
        intro a ha b hb
        simp only [List.mem_singleton] at hb
        subst hb
        intro e; subst e; exact hx.2 ha

theorem mem_reorderBy {α : Type} [BEq α] [LawfulBEq α] (mt : α → List Nat → Bool) (p : List (List Nat)) (l : List α) (x : α) :
    x ∈ reorderBy mt p l ↔ x ∈ l := by
  obtain ⟨h1, _⟩ := reorderFront_spec mt l p [] (fun _ h => by cases h) List.nodup_nil
  unfold reorderBy
  generalize reorderFront mt l p [] = front at h1
  simp only [List.mem_append, List.mem_filter]
  constructor
  · rintro (h | h)
    · exact h1 x h
    · exact h.1
  · intro hx
    by_cases hf : x ∈ front
    · exact Or.inl hf
    · exact Or.inr ⟨hx, by simpa using hf⟩

theorem nodup_reorderBy {α : Type} [BEq α] [LawfulBEq α] (mt : α → List Nat → Bool) (p : List (List Nat)) (l : List α)
    (hl : l.Nodup) : (reorderBy mt p l).Nodup := by
  obtain ⟨_, h2⟩ := reorderFront_spec mt l p [] (fun _ h => by cases h) List.nodup_nil
  unfold reorderBy
  generalize reorderFront mt l p [] = front at h2
  rw [List.nodup_append]
  refine ⟨h2, hl.sublist List.filter_sublist, ?_⟩
  intro a ha b hb e
  subst e
  have := (List.mem_filter.mp hb).2
  simp only [Bool.not_eq_true', List.contains_eq_mem, decide_eq_false_iff_not] at this
  exact this ha

/-! ### `_solver_list`, `_solvers_for_variables` -/

theorem mem_solverList (c : Comp) (j : Nat) : j ∈ c.solverList ↔ ∃ v, (v, j) ∈ c.solvers := by
  unfold Comp.solverList
  rw [mem_foldl_listInsert]
  simp only [List.not_mem_nil, false_or, List.mem_map]
  constructor
  · rintro ⟨p, hp, rfl⟩; exact ⟨p.1, hp⟩
  · rintro ⟨v, hv⟩; exact ⟨(v, j), hv, rfl⟩

theorem mem_solverList' (c : Comp) (hk : (keys c.solvers).Nodup) (j : Nat) :
    j ∈ c.solverList ↔ ∃ v, alGet? c.solvers v = some j := by
  rw [mem_solverList]
  constructor
  · rintro ⟨v, hv⟩; exact ⟨v, alGet?_of_mem _ hk (v, j) hv⟩
  · rintro ⟨v, hv⟩; exact ⟨v, mem_of_alGet? _ _ _ hv⟩

theorem mem_solversFor_acc (c : Comp) (names : List Var) (acc : List Nat) (j : Nat) :
    j ∈ names.foldl c.solversForStep acc ↔
      j ∈ acc ∨ ∃ n ∈ names, alGet? c.solvers n = some j := by
  induction names generalizing acc with
  | nil => simp
  | cons n ns ih =>
    simp only [List.foldl_cons, ih, List.mem_cons, exists_eq_or_imp, Comp.solversForStep]
    cases hn : alGet? c.solvers n with
    | none => simp
    | some t =>
      simp only [mem_listInsert, Option.some.injEq]
      constructor
      · rintro ((h | rfl) | h)
        · exact Or.inl h
        · exact Or.inr (Or.inl rfl)
        · exact Or.inr (Or.inr h)
      · rintro (h | h | h)
        · exact Or.inl (Or.inl h)
        · exact Or.inl (Or.inr h.symm)
        · exact Or.inr h

theorem mem_solversFor (c : Comp) (names : List Var) (j : Nat) :
    j ∈ c.solversFor names ↔ ∃ n ∈ names, alGet? c.solvers n = some j := by
  unfold Comp.solversFor
  rw [mem_solversFor_acc]
  simp

/-! ### the invariant -/

/-- **the bookkeeping invariant** of a composite whose user has added `U`; `Us j` is the constraint list child `j` answers for -/
structure CInv (R : Con → Prop) (RE : Exp → Prop) (E : Env) (U : List Con) (Us : List (List Con)) (s : CSt) : Prop where
  /-- every child satisfies the invariant of `C11_child_refines` for its own constraints -/
  kids : TInvS R RE E Us s.w
  reuse : s.w.reuse = false
  keysOk : ∀ j, j < s.w.fes.length → KeysInv (s.child j)
  exact : ∀ j, j < s.w.fes.length → ExactVars (s.child j)
  /-- `_solvers` is a dict -/
  nodup : (keys s.c.solvers).Nodup
  /-- a variable is mapped to a child that knows it -/
  map : ∀ v j, alGet? s.c.solvers v = some j → j < s.w.fes.length ∧ v ∈ (s.child j).variables
  /-- a child the dict points to is pointed to by ALL its variables -/
  cover : ∀ v j, alGet? s.c.solvers v = some j → ∀ u ∈ (s.child j).variables, alGet? s.c.solvers u = some j
  /-- the children's constraint sets together are what the user added -/
  sem : s.c.unsat = false → ∀ a, Models U a ↔ ∀ j ∈ s.c.solverList, Models (Us.getD j []) a
  unsatOk : s.c.unsat = true → ¬ Satisfiable U
  /-- a child not listed as unchecked is satisfiable -/
  checked : ∀ j ∈ s.c.solverList, j ∉ s.c.unchecked → Satisfiable (Us.getD j [])

/-- **the children partition the variables**: two different children of the list share no variable -/
theorem CInv.disjoint {U : List Con} {Us : List (List Con)} {s : CSt} (h : CInv R RE E U Us s) {i j : Nat}
    (hi : i ∈ s.c.solverList) (hj : j ∈ s.c.solverList) (hij : i ≠ j) :
    ∀ v ∈ (s.child i).variables, v ∉ (s.child j).variables := by
  obtain ⟨vi, hvi⟩ := (mem_solverList' _ h.nodup i).mp hi
  obtain ⟨vj, hvj⟩ := (mem_solverList' _ h.nodup j).mp hj
  intro v hv hv'
  have h1 := h.cover vi i hvi v hv
  have h2 := h.cover vj j hvj v hv'
  rw [h1] at h2
  exact hij (by simpa using h2)

/-- the constraints a child holds mention its variables only, and mean what its user's constraints mean -/
theorem CInv.child_vars {U : List Con} {Us : List (List Con)} {s : CSt} (h : CInv R RE E U Us s) {j : Nat}
    (hj : j < s.w.fes.length) : ∀ c ∈ (s.child j).constraints, ∀ v ∈ c.vars, v ∈ (s.child j).variables :=
  (h.kids.each j hj).base.vars

theorem CInv.child_models {U : List Con} {Us : List (List Con)} {s : CSt} (h : CInv R RE E U Us s) {j : Nat}
    (hj : j < s.w.fes.length) (a : Asg) : Models (s.child j).constraints a ↔ Models (Us.getD j []) a :=
  (h.kids.each j hj).base.models_iff a

/-- asking the oracle for an iteration order only moves the event counter -/
theorem TInvS.set_tick {Us : List (List Con)} {w : World} (h : TInvS R RE E Us w) (t : Nat) : TInvS R RE E Us { w with tick := t } :=
  ⟨h.len, fun i hi => (h.each i hi).set_tick t, h.share⟩

theorem CInv.set_tick {U : List Con} {Us : List (List Con)} {s : CSt} (h : CInv R RE E U Us s) (t : Nat) :
    CInv R RE E U Us { s with w := { s.w with tick := t } } :=
  ⟨h.kids.set_tick t, h.reuse, h.keysOk, h.exact, h.nodup, h.map, h.cover, h.sem, h.unsatOk, h.checked⟩

theorem orderOracle_run {α : Type} [BEq α] (E : Env) (mt : α → List Nat → Bool) (keys : List (List Nat)) (l : List α) (s : CSt) :
    orderOracle E mt keys l s =
      (.ok (reorderBy mt (E.pick keys keys.length s.w.tick) l), { s with w := { s.w with tick := s.w.tick + 1 } }) := rfl

/-- the empty composite -/
theorem cinv_init (R : Con → Prop) (RE : Exp → Prop) (E : Env) (track : Bool) :
    CInv R RE E [] [] { c := { track := track }, w := { fes := [] } } := by
  refine ⟨⟨rfl, fun i hi => (by cases hi), fun i j r hi => (by cases hi)⟩, rfl, fun j hj => (by cases hj),
    fun j hj => (by cases hj), List.nodup_nil, fun v j h => (by cases h), fun v j h => (by cases h), fun _ a => ?_,
    fun h => (by cases h), fun j hj => (by cases hj)⟩
  simp [Models, Comp.solverList]

/-! ### `_store_child` -/

/-- the composite's record after `_store_child(j)` (and with the `_owned_solvers` of the moment) -/
def Comp.stored (c : Comp) (vars : List Var) (j : Nat) (owned : List Nat) : Comp :=
  { c with solvers := vars.foldl (fun d v => alSet d v j) c.solvers, unchecked := listInsert c.unchecked j, owned := owned }

/-- **`_store_child(j')` re-establishes the invariant** after the children `sol` (those owning one of `names`) were merged into
child `j'` and `cs` was added to it -/
theorem cinv_install {U : List Con} {Us Us2 : List (List Con)} {s : CSt} (h : CInv R RE E U Us s) (names : List Var)
    (cs : List Con) (w2 : World) (owned2 : List Nat) (j' : Nat)
    (hkids : TInvS R RE E Us2 w2) (hre : w2.reuse = false)
    (hkeys : ∀ j, j < w2.fes.length → KeysInv (w2.fes.getD j {}))
    (hexact : ∀ j, j < w2.fes.length → ExactVars (w2.fes.getD j {}))
    (hlen : s.w.fes.length ≤ w2.fes.length) (hj' : j' < w2.fes.length)
    (hsub : ∀ v ∈ (w2.fes.getD j' {}).variables, (∃ t ∈ s.c.solversFor names, v ∈ (s.child t).variables) ∨ v ∈ names)
    (hsup : ∀ t ∈ s.c.solversFor names, ∀ v ∈ (s.child t).variables, v ∈ (w2.fes.getD j' {}).variables)
    (hne : (w2.fes.getD j' {}).variables ≠ [])
    (hsem : ∀ a, Models (Us2.getD j' []) a ↔ (∀ t ∈ s.c.solversFor names, Models (Us.getD t []) a) ∧ Models cs a)
    (hold : j' ∈ s.c.solverList → j' ∈ s.c.solversFor names)
    (hframe : ∀ i ∈ s.c.solverList, i ∉ s.c.solversFor names → w2.fes.getD i {} = s.child i ∧ Us2.getD i [] = Us.getD i []) :
    CInv R RE E (U ++ cs) Us2 { c := s.c.stored (w2.fes.getD j' {}).variables j' owned2, w := w2 } := by
  -- the new dict
  have hget : ∀ v, alGet? (s.c.stored (w2.fes.getD j' {}).variables j' owned2).solvers v =
      if v ∈ (w2.fes.getD j' {}).variables then some j' else alGet? s.c.solvers v := fun v => alGet?_foldl_alSet _ _ _ v
  have hnd : (keys (s.c.stored (w2.fes.getD j' {}).variables j' owned2).solvers).Nodup :=
    keys_foldl_alSet_nodup _ _ _ h.nodup
  have hsolIn : ∀ t ∈ s.c.solversFor names, t ∈ s.c.solverList := by
    intro t ht
    obtain ⟨n, _, hn⟩ := (mem_solversFor _ _ _).mp ht
    exact (mem_solverList' _ h.nodup t).mpr ⟨n, hn⟩
  -- an old entry that survives belongs to a child outside `sol`
  have hsurv : ∀ v t, v ∉ (w2.fes.getD j' {}).variables → alGet? s.c.solvers v = some t → t ∉ s.c.solversFor names := by
    intro v t hv hvt ht
    exact hv (hsup t ht v (h.map v t hvt).2)
  -- a child outside `sol` shares no variable with `j'`
  have hfar : ∀ t, t ∈ s.c.solverList → t ∉ s.c.solversFor names → ∀ u ∈ (s.child t).variables,
      u ∉ (w2.fes.getD j' {}).variables := by
    intro t ht hts u hu hu'
    obtain ⟨vt, hvt⟩ := (mem_solverList' _ h.nodup t).mp ht
    have hut := h.cover vt t hvt u hu
    rcases hsub u hu' with ⟨t', ht', hut'⟩ | hn
    · obtain ⟨n, _, hn⟩ := (mem_solversFor _ _ _).mp ht'
      have := h.cover n t' hn u hut'
      rw [hut] at this
      have : t = t' := by simpa using this
      exact hts (this ▸ ht')
    · exact hts ((mem_solversFor _ _ _).mpr ⟨u, hn, hut⟩)
  -- the new list of children
  have hlist : ∀ t, t ∈ (s.c.stored (w2.fes.getD j' {}).variables j' owned2).solverList ↔
      t = j' ∨ (t ∈ s.c.solverList ∧ t ∉ s.c.solversFor names) := by
    intro t
    rw [mem_solverList' _ hnd]
    constructor
    · rintro ⟨v, hv⟩
      rw [hget] at hv
      by_cases hvj : v ∈ (w2.fes.getD j' {}).variables
      · rw [if_pos hvj] at hv; left; exact (by simpa using hv.symm)
      · rw [if_neg hvj] at hv
        right
        exact ⟨(mem_solverList' _ h.nodup t).mpr ⟨v, hv⟩, hsurv v t hvj hv⟩
    · rintro (rfl | ⟨ht, hts⟩)
      · obtain ⟨v, rest, hv⟩ := List.exists_cons_of_ne_nil hne
        exact ⟨v, by rw [hget, if_pos (by rw [hv]; simp)]⟩
      · obtain ⟨v, hv⟩ := (mem_solverList' _ h.nodup t).mp ht
        refine ⟨v, ?_⟩
        rw [hget, if_neg (hfar t ht hts v (h.map v t hv).2)]
        exact hv
  refine ⟨hkids, hre, hkeys, hexact, hnd, ?_, ?_, ?_, ?_, ?_⟩
  · -- map
    intro v t hvt
    show t < w2.fes.length ∧ v ∈ (w2.fes.getD t {}).variables
    rw [hget] at hvt
    by_cases hvj : v ∈ (w2.fes.getD j' {}).variables
    · rw [if_pos hvj] at hvt
      have : t = j' := by simpa using hvt.symm
      subst this
      exact ⟨hj', hvj⟩
    · rw [if_neg hvj] at hvt
      have hts := hsurv v t hvj hvt
      have htl := (mem_solverList' _ h.nodup t).mpr ⟨v, hvt⟩
      rw [(hframe t htl hts).1]
      exact ⟨Nat.lt_of_lt_of_le (h.map v t hvt).1 hlen, (h.map v t hvt).2⟩
  · -- cover
    intro v t hvt u hu
    have hu' : u ∈ (w2.fes.getD t {}).variables := hu
    show alGet? _ u = some t
    rw [hget] at hvt ⊢
    by_cases hvj : v ∈ (w2.fes.getD j' {}).variables
    · rw [if_pos hvj] at hvt
      have : t = j' := by simpa using hvt.symm
      subst this
      rw [if_pos hu']
    · rw [if_neg hvj] at hvt
      have hts := hsurv v t hvj hvt
      have htl := (mem_solverList' _ h.nodup t).mpr ⟨v, hvt⟩
      rw [(hframe t htl hts).1] at hu'
      rw [if_neg (hfar t htl hts u hu')]
      exact h.cover v t hvt u hu'
  · -- sem
    intro hun a
    have hun' : s.c.unsat = false := hun
    rw [models_append, h.sem hun' a]
    constructor
    · rintro ⟨hall, hcs⟩ t ht
      rcases (hlist t).mp ht with rfl | ⟨htl, hts⟩
      · exact (hsem a).mpr ⟨fun t' ht' => hall t' (hsolIn t' ht'), hcs⟩
      · rw [(hframe t htl hts).2]; exact hall t htl
    · intro hall
      have hj := (hsem a).mp (hall j' ((hlist j').mpr (Or.inl rfl)))
      refine ⟨fun t ht => ?_, hj.2⟩
      by_cases hts : t ∈ s.c.solversFor names
      · exact hj.1 t hts
      · have := hall t ((hlist t).mpr (Or.inr ⟨ht, hts⟩))
        rwa [(hframe t ht hts).2] at this
  · -- unsat
    intro hun ⟨a, ha⟩
    exact h.unsatOk hun ⟨a, (models_append.mp ha).1⟩
  · -- checked
    intro t ht hnu
    have hnu' : t ∉ listInsert s.c.unchecked j' := hnu
    rw [mem_listInsert] at hnu'
    rcases (hlist t).mp ht with rfl | ⟨htl, hts⟩
    · exact (hnu' (Or.inr rfl)).elim
    · rw [(hframe t htl hts).2]
      exact h.checked t htl (fun hc => hnu' (Or.inl hc))

end Claripy.Solver
