import ClaripyProofs.Lemmas.Solver.CompositeStepFrame
/-!
**The query methods of class SolverCompositeChild never write `constraints` / `variables`** (`ChildKeeps`): a syntactic walk through
the Z3 algorithms (`z3_solver_sat`, `_satisfiable`, `_batch_eval`, `_extrema`, `_solution`, `solver()`, `clone_solver`, `_add` of the
backend), `FullFrontend._get_solver` and the query methods of FullFrontend, ModelCacheMixin, SatCacheMixin (SimplifySkipperMixin and
ConstraintDeduplicatorMixin inherit them), late binding by induction on the unrolling depth.  No invariant is involved.
-/
namespace Claripy.Solver

variable {E : Env}

theorem keeps_pure {α : Type} (a : α) : KeepsCV (pure a : M α) := fun _ => ⟨rfl, rfl⟩
theorem keeps_throw {α : Type} (e : Err) : KeepsCV (M.throw e : M α) := fun _ => ⟨rfl, rfl⟩
theorem keeps_get : KeepsCV M.get := fun _ => ⟨rfl, rfl⟩
theorem keeps_getFe : KeepsCV M.getFe := fun _ => ⟨rfl, rfl⟩
theorem keeps_modify (f : St → St) (hf : ∀ s, (f s).fe.constraints = s.fe.constraints ∧ (f s).fe.variables = s.fe.variables) :
    KeepsCV (M.modify f) := fun s => hf s
theorem keeps_modifyFe (f : Frontend → Frontend) (hf : ∀ fe, (f fe).constraints = fe.constraints ∧ (f fe).variables = fe.variables) :
    KeepsCV (M.modifyFe f) := fun s => hf s.fe

theorem keeps_bind {α β : Type} {m : M α} {f : α → M β} (h1 : KeepsCV m) (h2 : ∀ a, KeepsCV (f a)) : KeepsCV (m >>= f) := by
  intro s
  show _ = _ ∧ _ = _
  have a := h1 s
  show ((M.bind m f s).2.fe.constraints = _) ∧ ((M.bind m f s).2.fe.variables = _)
  unfold M.bind
  cases hr : m s with
  | mk r s1 =>
    rw [hr] at a
    cases r with
    | ok x =>
      have b := h2 x s1
      exact ⟨b.1.trans a.1, b.2.trans a.2⟩
    | error e => exact a

theorem keeps_ite {α : Type} (c : Prop) [Decidable c] {a b : M α} (ha : KeepsCV a) (hb : KeepsCV b) :
    KeepsCV (if c then a else b) := by
  split
  · exact ha
  · exact hb

theorem keeps_tryCatch {α : Type} {m : M α} {p : Err → Bool} {hd : M α} (h1 : KeepsCV m) (h2 : KeepsCV hd) :
    KeepsCV (M.tryCatch m p hd) := by
  intro s
  have a := h1 s
  unfold M.tryCatch
  cases hr : m s with
  | mk r s1 =>
    rw [hr] at a
    cases r with
    | ok x => exact a
    | error e =>
      simp only
      split
      · have b := h2 s1
        exact ⟨b.1.trans a.1, b.2.trans a.2⟩
      · exact a

theorem keeps_tryFinally {α : Type} {m : M α} {fin : M Unit} (h1 : KeepsCV m) (h2 : KeepsCV fin) :
    KeepsCV (M.tryFinally m fin) := by
  intro s
  have a := h1 s
  unfold M.tryFinally
  cases hr : m s with
  | mk r s1 =>
    rw [hr] at a
    have b := h2 s1
    cases r with
    | ok x =>
      simp only
      cases hf : fin s1 with
      | mk r2 s2 =>
        rw [hf] at b
        cases r2 <;> exact ⟨b.1.trans a.1, b.2.trans a.2⟩
    | error e =>
      simp only
      cases hf : fin s1 with
      | mk r2 s2 =>
        rw [hf] at b
        exact ⟨b.1.trans a.1, b.2.trans a.2⟩

/-- the query methods (and `_model_hook`) of a method table keep `constraints` / `variables` -/
structure OpsKeeps (o : Ops) : Prop where
  satisfiable : ∀ ex, KeepsCV (o.satisfiable ex)
  eval : ∀ e n ex, KeepsCV (o.eval e n ex)
  batchEval : ∀ es n ex, KeepsCV (o.batchEval es n ex)
  max : ∀ e ex sg, KeepsCV (o.max e ex sg)
  min : ∀ e ex sg, KeepsCV (o.min e ex sg)
  solution : ∀ e v ex, KeepsCV (o.solution e v ex)
  isTrue : ∀ c ex, KeepsCV (o.isTrue c ex)
  isFalse : ∀ c ex, KeepsCV (o.isFalse c ex)
  modelHook : ∀ m, KeepsCV (o.modelHook m)

/-- a record update that writes neither `constraints` nor `variables` -/
macro "keeps_fe" : tactic =>
  `(tactic| first
    | exact ⟨rfl, rfl⟩
    | (split <;> first | exact ⟨rfl, rfl⟩ | (split <;> first | exact ⟨rfl, rfl⟩ | (split <;> exact ⟨rfl, rfl⟩))))

/-- the walk: one constructor of the `do` block at a time -/
macro "keeps" : tactic =>
  `(tactic| repeat' (first
    | exact keeps_pure _ | exact keeps_throw _ | exact keeps_get | exact keeps_getFe
    | apply_assumption
    | (apply OpsKeeps.satisfiable; assumption) | (apply OpsKeeps.eval; assumption) | (apply OpsKeeps.batchEval; assumption)
    | (apply OpsKeeps.max; assumption) | (apply OpsKeeps.min; assumption) | (apply OpsKeeps.solution; assumption)
    | (apply OpsKeeps.isTrue; assumption) | (apply OpsKeeps.isFalse; assumption) | (apply OpsKeeps.modelHook; assumption)
    | refine keeps_bind ?_ (fun _ => ?_) | apply keeps_ite | apply keeps_tryCatch | apply keeps_tryFinally
    | (apply keeps_modifyFe; intro _; keeps_fe)
    | (apply keeps_modify; intro _; exact ⟨rfl, rfl⟩)
    | split
    | dsimp only))

/-! ### the backend -/

theorem keeps_getObj (r : Nat) : KeepsCV (getObj r) := fun _ => ⟨rfl, rfl⟩
theorem keeps_setObj (r : Nat) (o : Z3Obj) : KeepsCV (setObj r o) := fun _ => ⟨rfl, rfl⟩
theorem keeps_newObj : KeepsCV newObj := fun _ => ⟨rfl, rfl⟩

theorem keeps_backendSolver : KeepsCV backendSolver := by
  have := keeps_newObj
  have := keeps_setObj
  unfold backendSolver
  keeps

theorem keeps_cloneSolver (r : Nat) : KeepsCV (cloneSolver r) := by
  unfold cloneSolver
  refine keeps_bind (keeps_getObj r) (fun o => ?_)
  exact fun _ => ⟨rfl, rfl⟩

theorem keeps_z3Add (r : Nat) (cs : List ZCon) (track : Bool) : KeepsCV (z3Add r cs track) := by
  have := keeps_getObj
  have := keeps_setObj
  unfold z3Add
  keeps

theorem keeps_z3Push (r : Nat) : KeepsCV (z3Push r) := by
  have := keeps_getObj
  have := keeps_setObj
  unfold z3Push
  keeps

theorem keeps_z3Pop (r : Nat) : KeepsCV (z3Pop r) := by
  have := keeps_getObj
  have := keeps_setObj
  unfold z3Pop
  keeps

theorem keeps_z3Check (E : Env) (r : Nat) (as : List ZCon) : KeepsCV (z3Check E r as) := by
  have := keeps_getObj
  have := keeps_setObj
  unfold z3Check
  keeps

theorem keeps_z3Satisfiable (E : Env) (r : Nat) (extra : List ZCon) (hook : PModel → M Unit) (hh : ∀ m, KeepsCV (hook m)) :
    KeepsCV (z3Satisfiable E r extra hook) := by
  have := keeps_z3Check E
  unfold z3Satisfiable
  keeps

theorem keeps_batchEvalLoop (E : Env) (r : Nat) (exprs : List Exp) (extra : List ZCon) (hook : PModel → M Unit)
    (hh : ∀ m, KeepsCV (hook m)) : ∀ (rem : Nat) (acc : List (List Nat)), KeepsCV (batchEvalLoop E r exprs extra hook rem acc)
  | 0, acc => by unfold batchEvalLoop; exact keeps_pure _
  | rem + 1, acc => by
    have := keeps_z3Check E
    have := keeps_getObj
    have := keeps_setObj
    have ih := keeps_batchEvalLoop E r exprs extra hook hh rem
    unfold batchEvalLoop
    keeps

theorem keeps_z3BatchEval (E : Env) (r : Nat) (exprs : List Exp) (n : Nat) (extra : List ZCon) (hook : PModel → M Unit)
    (hh : ∀ m, KeepsCV (hook m)) : KeepsCV (z3BatchEval E r exprs n extra hook) := by
  have := keeps_z3Push
  have := keeps_z3Pop
  have := keeps_batchEvalLoop E r exprs extra hook hh
  unfold z3BatchEval
  keeps

theorem keeps_extremaLoop (E : Env) (r : Nat) (isMax : Bool) (e : Exp) (extra : List ZCon) (signed : Bool)
    (hook : PModel → M Unit) (hh : ∀ m, KeepsCV (hook m)) :
    ∀ (fuel : Nat) (lo hi : Int), KeepsCV (extremaLoop E r isMax e extra signed hook fuel lo hi)
  | 0, lo, hi => by unfold extremaLoop; exact keeps_pure _
  | fuel + 1, lo, hi => by
    have := keeps_z3Check E
    have ih := keeps_extremaLoop E r isMax e extra signed hook hh fuel
    unfold extremaLoop
    keeps

theorem keeps_z3Extrema (E : Env) (r : Nat) (isMax : Bool) (e : Exp) (extra : List ZCon) (signed : Bool)
    (hook : PModel → M Unit) (hh : ∀ m, KeepsCV (hook m)) : KeepsCV (z3Extrema E r isMax e extra signed hook) := by
  have := keeps_z3Check E
  have := keeps_extremaLoop E r isMax e extra signed hook hh
  unfold z3Extrema
  keeps

theorem keeps_z3Solution (E : Env) (r : Nat) (e : Exp) (v : Nat) (extra : List ZCon) (hook : PModel → M Unit)
    (hh : ∀ m, KeepsCV (hook m)) : KeepsCV (z3Solution E r e v extra hook) :=
  keeps_z3Satisfiable E r _ hook hh

/-! ### FullFrontend -/

theorem keeps_addConstraints : KeepsCV addConstraints := by
  have := keeps_z3Add
  unfold addConstraints
  keeps

theorem keeps_getSolver : KeepsCV getSolver := by
  have := keeps_backendSolver
  have := keeps_cloneSolver
  have := keeps_addConstraints
  unfold getSolver
  keeps

theorem keeps_fullExtremum (E : Env) (self : Ops) (hself : OpsKeeps self) (isMax : Bool) (e : Exp) (extra : List Con) (signed : Bool) :
    KeepsCV (fullExtremum E self isMax e extra signed) := by
  have := keeps_getSolver
  have := fun r ex => keeps_z3Extrema E r isMax e ex signed self.modelHook hself.modelHook
  unfold fullExtremum
  keeps

theorem opsKeeps_full (E : Env) (self sup : Ops) (hself : OpsKeeps self) : OpsKeeps (fullLayer E self sup) := by
  have := keeps_getSolver
  have := fun r ex => keeps_z3Satisfiable E r ex self.modelHook hself.modelHook
  have := fun r es n ex => keeps_z3BatchEval E r es n ex self.modelHook hself.modelHook
  have := fun r e v ex => keeps_z3Solution E r e v ex self.modelHook hself.modelHook
  have := keeps_fullExtremum E self hself
  refine ⟨?_, ?_, ?_, ?_, ?_, ?_, ?_, ?_, ?_⟩ <;> intros <;> unfold fullLayer <;> dsimp only <;> keeps

/-! ### ModelCacheMixin -/

theorem keeps_getBatchSolutions (E : Env) (asts : List Exp) (n : Nat) (extra : List Con) :
    KeepsCV (getBatchSolutions E asts n extra) := by
  unfold getBatchSolutions
  keeps

theorem keeps_evalExhFold (asts : List Exp) :
    KeepsCV (M.modifyFe fun fe => asts.foldl (fun fe e =>
      if subsetB e.vars fe.variables then { fe with evalExh := listInsert fe.evalExh e.id } else fe) fe) :=
  keeps_modifyFe _ (fun fe => ⟨(evalExh_fold_mv asts fe).2.2, (evalExh_fold_mv asts fe).2.1⟩)

theorem keeps_modelCacheBatchEval (E : Env) (sup : Ops) (hsup : OpsKeeps sup) (asts : List Exp) (n : Nat) (extra : List Con) :
    KeepsCV (modelCacheBatchEval E sup asts n extra) := by
  have := keeps_getBatchSolutions E
  have := keeps_evalExhFold
  unfold modelCacheBatchEval
  keeps

theorem keeps_modelCacheExtremum (E : Env) (sup : Ops) (hsup : OpsKeeps sup) (isMax : Bool) (e : Exp) (extra : List Con)
    (signed : Bool) : KeepsCV (modelCacheExtremum E sup isMax e extra signed) := by
  have hflag : KeepsCV (M.modifyFe fun fe =>
      if isMax then (if signed then { fe with maxSExh := listInsert fe.maxSExh e.id }
                     else { fe with maxExh := listInsert fe.maxExh e.id })
      else (if signed then { fe with minSExh := listInsert fe.minSExh e.id }
            else { fe with minExh := listInsert fe.minExh e.id })) := by
    apply keeps_modifyFe
    intro fe
    cases isMax <;> cases signed <;> exact ⟨rfl, rfl⟩
  unfold modelCacheExtremum
  refine keeps_bind keeps_getFe (fun fe => ?_)
  dsimp only
  split
  · exact keeps_pure _
  · refine keeps_ite _ ?_ ?_
    · refine keeps_bind (hsup.max _ _ _) (fun m => ?_)
      exact keeps_ite _ (keeps_bind hflag (fun _ => keeps_pure _)) (keeps_pure _)
    · refine keeps_bind (hsup.min _ _ _) (fun m => ?_)
      exact keeps_ite _ (keeps_bind hflag (fun _ => keeps_pure _)) (keeps_pure _)

theorem opsKeeps_modelCache (E : Env) (self sup : Ops) (hsup : OpsKeeps sup) : OpsKeeps (modelCacheLayer E self sup) := by
  have := keeps_modelCacheBatchEval E sup hsup
  have := keeps_modelCacheExtremum E sup hsup
  refine ⟨?_, ?_, ?_, ?_, ?_, ?_, ?_, ?_, ?_⟩ <;> intros <;> unfold modelCacheLayer <;> dsimp only <;> keeps

/-! ### SatCacheMixin; SimplifySkipperMixin and ConstraintDeduplicatorMixin inherit the queries -/

theorem keeps_satCacheQuery {α : Type} (m : M α) (hm : KeepsCV m) (b : Bool) : KeepsCV (satCacheQuery m b) := by
  unfold satCacheQuery
  keeps

theorem opsKeeps_satCache (E : Env) (self sup : Ops) (hsup : OpsKeeps sup) : OpsKeeps (satCacheLayer E self sup) := by
  have := @keeps_satCacheQuery
  refine ⟨?_, ?_, ?_, ?_, ?_, ?_, ?_, ?_, ?_⟩ <;> intros <;> unfold satCacheLayer <;> dsimp only <;> keeps

theorem opsKeeps_skipper (self sup : Ops) (hsup : OpsKeeps sup) : OpsKeeps (skipperLayer self sup) :=
  ⟨hsup.satisfiable, hsup.eval, hsup.batchEval, hsup.max, hsup.min, hsup.solution, hsup.isTrue, hsup.isFalse, hsup.modelHook⟩

theorem opsKeeps_dedup (self sup : Ops) (hsup : OpsKeeps sup) : OpsKeeps (dedupLayer self sup) :=
  ⟨hsup.satisfiable, hsup.eval, hsup.batchEval, hsup.max, hsup.min, hsup.solution, hsup.isTrue, hsup.isFalse, hsup.modelHook⟩

/-! ### class SolverCompositeChild (late binding: induction on the unrolling depth) -/

theorem opsKeeps_base : OpsKeeps frontendBase :=
  ⟨fun _ => keeps_throw _, fun _ _ _ => keeps_throw _, fun _ _ _ => keeps_throw _, fun _ _ _ => keeps_throw _,
   fun _ _ _ => keeps_throw _, fun _ _ _ => keeps_throw _, fun _ _ => keeps_throw _, fun _ _ => keeps_throw _, fun _ => keeps_pure _⟩

theorem opsKeeps_cL4 (E : Env) (self : Ops) (h : OpsKeeps self) : OpsKeeps (cL4 E self) :=
  opsKeeps_dedup _ _ (opsKeeps_satCache E _ _ (opsKeeps_skipper _ _ (opsKeeps_modelCache E _ _ (opsKeeps_full E self _ h))))

theorem opsKeeps_chStage (E : Env) : ∀ k, OpsKeeps (chStage E k)
  | 0 => by rw [chStage_zero]; exact opsKeeps_cL4 E _ opsKeeps_base
  | k + 1 => by rw [chStage_eq]; exact opsKeeps_cL4 E _ (opsKeeps_chStage E k)

theorem opsKeeps_childOps (E : Env) : OpsKeeps (childOps E) := opsKeeps_chStage E 4

theorem keeps_childCheckSat (E : Env) (extra : List Con) : KeepsCV (childCheckSat E extra) := by
  have hO := opsKeeps_childOps E
  have := keeps_getSolver
  have := fun r ex => keeps_z3Satisfiable E r ex (childOps E).modelHook hO.modelHook
  unfold childCheckSat
  keeps

/-- **the query methods of class SolverCompositeChild never write `constraints` / `variables` of their record** -/
theorem childKeeps (E : Env) : ChildKeeps E :=
  have hO := opsKeeps_childOps E
  ⟨keeps_childCheckSat E, hO.eval, hO.batchEval, hO.max, hO.min, hO.solution, hO.isTrue, hO.isFalse⟩

/-- **the footprint of every call in scope** (`CompFrames` of CompositeBranch.lean; in fact from ANY state and for any arguments) -/
theorem compFrames (R : Con → Prop) (RE : Exp → Prop) (E : Env) : CompFrames R RE E := by
  intro U Us s op _ hop _
  refine stepFrame_compStep (childKeeps E) s op ?_
  refine ⟨?_, ?_, ?_⟩ <;> rintro rfl <;> exact hop

end Claripy.Solver
