import Claripy.Solver.Composite
import ClaripyProofs.Lemmas.Solver.SolverPickle
import ClaripyProofs.Lemmas.Solver.World
/-!
What SolverComposite's bookkeeping needs of its children, at the level of the world of children: `add` (with what it does to
`constraints` / `variables`: `AddRel`), `branch` (the copy-on-write `_claim`), a blank copy of the template, on top of the
invariant `TInvS` of `C11_child_step`.
-/
namespace Claripy.Solver
open Claripy.Gen.SolverMro

variable {R : Con → Prop} {RE : Exp → Prop} {E : Env}

/-- the cached models of a frontend mention variables of that frontend only (`_model_hook` restricts the Z3 model to
`self.variables`; the trivial model is about the variable of the constraint), and they are dicts: one entry per variable
(`PModel.Sorted`; the models come from `_generic_model` through `_model_hook`, from the trivial-constraint shortcut, from
`ModelCache.combine`, or are restrictions / selections of cached ones) -/
def KeysInv (fe : Frontend) : Prop := ∀ m ∈ fe.models, (∀ kv ∈ m, kv.1 ∈ fe.variables) ∧ m.Sorted

/-- every known variable occurs in a constraint (true as long as nothing was simplified away) -/
def ExactVars (fe : Frontend) : Prop := ∀ v ∈ fe.variables, ∃ c ∈ fe.constraints, v ∈ c.vars

theorem childOps_eq (E : Env) : childOps E = chStage E 4 := rfl

theorem childBlank_eq (E : Env) (self : Frontend) : childBlank E self = { track := self.track } := rfl

theorem runOn_getD_ne {α : Type} (w : World) (i : Nat) (m : M α) (j : Nat) (hj : j ≠ i) :
    (runOn w i m).2.fes.getD j {} = w.fes.getD j {} := by
  simp only [runOn]; exact getD_set_ne _ _ _ _ _ (Ne.symm hj)

theorem runOn_getD_self {α : Type} (w : World) (i : Nat) (m : M α) (hi : i < w.fes.length) :
    (runOn w i m).2.fes.getD i {} = (m (stOfI w i)).2.fe := by
  simp only [runOn]; exact getD_set_self _ _ _ _ hi

section
variable (H : SolverHyps R RE E)
include H

/-- `_add` of the child class with what it does to the record -/
theorem cL4_add_rel {G : St → Prop} (self : Ops) : LowAdd3 R RE E G (cL4 E self).add := by
  have h0 : LowAdd0 (cL0 E self).add := fc_add_low E self self frontendBase
  have h1 : LowAdd1 R RE E G (cL1 E self).add := mc_add_low (self := self) (sup := cL0 E self) H.reg H.triv h0
  have h1' : LowAdd1 R RE E G (cL2 E self).add := skipper_add_low1 (self := self) (sup := cL1 E self) h1
  have h2 : LowAdd2 R RE E G (cL3 E self).add := satCache_add_low (self := self) (sup := cL2 E self) H.reg H.cheap h1'
  exact dedup_add_low (self := self) (sup := cL3 E self) h2

/-- `child.add(cs)` in the world of children -/
theorem child_add_spec (w : World) (Us : List (List Con)) (hw : TInvS R RE E Us w) (j : Nat) (hj : j < w.fes.length)
    (cs : List Con) (hcs : ∀ c ∈ cs, R c) :
    ∃ added w', runOn w j (publicAdd (childOps E) cs) = (.ok added, w') ∧
      TInvS R RE E (Us.set j (Us.getD j [] ++ cs)) w' ∧ w'.fes.length = w.fes.length ∧
      (∀ i, i ≠ j → w'.fes.getD i {} = w.fes.getD i {}) ∧
      (w'.fes.getD j {}).constraints = (w.fes.getD j {}).constraints ++ added ∧ (∀ c ∈ added, c ∈ cs) ∧
      (∀ v, v ∈ (w'.fes.getD j {}).variables ↔ v ∈ (w.fes.getD j {}).variables ∨ ∃ c ∈ added, v ∈ c.vars) ∧
      (w'.fes.getD j {}) = (publicAdd (childOps E) cs true (stOfI w j)).2.fe ∧ w'.reuse = w.reuse ∧
      (∀ c ∈ cs, c ∈ added ∨ (c.id ∈ (w.fes.getD j {}).hashes ∨ c.id ∈ (w.fes.getD j {}).woAnnot) ∨ ∃ c' ∈ added, c'.id = c.id) := by
  have h0 := hw.each j hj
  have hother : ∀ i, i ≠ j → (runOn w j (publicAdd (childOps E) cs)).2.fes.getD i {} = w.fes.getD i {} :=
    fun i hi => runOn_getD_ne w j _ i hi
  have hself := runOn_getD_self w j (publicAdd (childOps E) cs) hj
  have hlen := runOn_fes_length w j (publicAdd (childOps E) cs)
  rw [runOn_eq] at hother hself hlen ⊢
  by_cases hemp : cs.isEmpty = true
  · have hnil : cs = [] := by simpa using hemp
    subst hnil
    have hrun : publicAdd (childOps E) [] true (stOfI w j) = (.ok [], stOfI w j) := rfl
    rw [hrun] at hother hself hlen ⊢
    obtain ⟨h1, hq⟩ := h0.mark.unmark
    have := tinvS_step hw hj hq (U' := Us.getD j [] ++ []) (by simpa using h1)
    refine ⟨[], _, rfl, this, hlen, hother, ?_, by simp, ?_, hself, rfl, by simp⟩
    · rw [hself]; simp [stOfI]
    · intro v; rw [hself]; simp [stOfI]
  · have hrun0 : publicAdd (childOps E) cs true (stOfI w j) = (cL4 E (chStage E 3)).add cs true (stOfI w j) := by
      simp [publicAdd, hemp, childOps_eq, chStage_eq]
    obtain ⟨new, s1, hrun, hrel, hmc1, hsc1, _⟩ := cL4_add_rel H (chStage E 3) (Us.getD j []) (stOfI w j) cs true
      h0.mark hcs (fun hf => by cases hf)
    have hsi := si_of_added H.reg h0.mark hcs (fun _ => rfl) hrel hmc1 hsc1
    rw [hrun0, hrun] at hother hself hlen ⊢
    obtain ⟨h1, hq⟩ := hsi.unmark
    refine ⟨new, _, rfl, tinvS_step hw hj hq h1, hlen, hother, ?_, hrel.sub, ?_, hself, rfl, hrel.cover⟩
    · rw [hself, hrel.cons]; rfl
    · intro v; rw [hself]; exact hrel.vars v

end

/-- `child.branch()` in the world of children: the copy is the next child; it has the constraints, variables and caches of
the original, which is now finalized; nobody else changes -/
theorem child_branch_spec (w : World) (Us : List (List Con)) (hw : TInvS R RE E Us w) (j : Nat) (hj : j < w.fes.length) :
    ∃ w', step E .SolverCompositeChild w j .branch = (.newSolver w.fes.length, w') ∧
      TInvS R RE E (Us ++ [Us.getD j []]) w' ∧ w'.fes.length = w.fes.length + 1 ∧
      (∀ i, i < w.fes.length → i ≠ j → w'.fes.getD i {} = w.fes.getD i {}) ∧
      w'.fes.getD j {} = { w.fes.getD j {} with finalized := true } ∧
      (w'.fes.getD w.fes.length {}).constraints = (w.fes.getD j {}).constraints ∧
      (w'.fes.getD w.fes.length {}).variables = (w.fes.getD j {}).variables ∧
      (w'.fes.getD w.fes.length {}).models = (w.fes.getD j {}).models ∧
      (w'.fes.getD w.fes.length {}).hashes = (w.fes.getD j {}).hashes ∧
      (w'.fes.getD w.fes.length {}).woAnnot = (w.fes.getD j {}).woAnnot ∧ w'.reuse = w.reuse := by
  obtain ⟨h1, h2⟩ := ch_step_branch (E := E) w Us hw j hj
  obtain ⟨c, hrun, hcons, _, _, _, hhash, hwo, _, hvar, hmc, _⟩ := branchC_spec E (stOfI w j)
  have hstep : step E .SolverCompositeChild w j .branch =
      (match runOn w j (branchC E) with
       | (.ok c, w') => (.newSolver w'.fes.length, { w' with fes := w'.fes ++ [c] })
       | (.error e, w') => (.err e, w')) := rfl
  rw [hstep, runOn_eq, hrun] at h1 h2 ⊢
  simp only at h1 h2 ⊢
  have hlen1 : (wOfI w j { stOfI w j with fe := { (stOfI w j).fe with finalized := true } }).fes.length = w.fes.length := by
    simp [wOfI]
  refine ⟨_, by rw [hlen1], h2, by simp [wOfI], ?_, ?_, ?_, ?_, ?_, ?_, ?_, rfl⟩
  · intro i hi hij
    simp only [wOfI]
    rw [getD_append_left' _ _ _ _ (by simpa using hi), getD_set_ne _ _ _ _ _ (Ne.symm hij)]
  · simp only [wOfI]
    rw [getD_append_left' _ _ _ _ (by simpa using hj), getD_set_self _ _ _ _ hj]
    rfl
  · have : (wOfI w j { stOfI w j with fe := { (stOfI w j).fe with finalized := true } }).fes.length = w.fes.length := hlen1
    simp only [wOfI] at this ⊢
    rw [← this, getD_append_last]; exact hcons
  · have : (wOfI w j { stOfI w j with fe := { (stOfI w j).fe with finalized := true } }).fes.length = w.fes.length := hlen1
    simp only [wOfI] at this ⊢
    rw [← this, getD_append_last]; exact hvar
  · have : (wOfI w j { stOfI w j with fe := { (stOfI w j).fe with finalized := true } }).fes.length = w.fes.length := hlen1
    simp only [wOfI] at this ⊢
    rw [← this, getD_append_last]
    exact (mcFields_eq hmc).1
  · have : (wOfI w j { stOfI w j with fe := { (stOfI w j).fe with finalized := true } }).fes.length = w.fes.length := hlen1
    simp only [wOfI] at this ⊢
    rw [← this, getD_append_last]; exact hhash
  · have : (wOfI w j { stOfI w j with fe := { (stOfI w j).fe with finalized := true } }).fes.length = w.fes.length := hlen1
    simp only [wOfI] at this ⊢
    rw [← this, getD_append_last]; exact hwo

/-- a blank child (`template.blank_copy()`, or the start of `combine` / `split`) joins the world -/
theorem child_blank_spec (w : World) (Us : List (List Con)) (hw : TInvS R RE E Us w) (hre : w.reuse = false) (track : Bool) :
    TInvS R RE E (Us ++ [[]]) { w with fes := w.fes ++ [({ track := track } : Frontend)] } := by
  refine tinvS_append_fresh hw _ [] ?_ rfl
  refine ⟨⟨⟨fun _ _ => rfl, fun r hr => ?_, hre⟩, fun _ => rfl, ⟨fun c hc => ?_, fun c _ hi => ?_⟩,
      fun c hc => ?_, ⟨_, trivial, WStep.refl _⟩, fun _ r hr => ?_⟩,
      mcInv_init RE E _ _ rfl rfl rfl rfl rfl rfl, ⟨fun hc => ?_, fun hc => ?_⟩⟩
  · cases hr
  · cases hc
  · rcases hi with hi | hi <;> cases hi
  · cases hc
  · cases hr
  · cases hc
  · cases hc

end Claripy.Solver
