import Claripy.Solver.Structure
/-! `sortDedup`: same members, strictly increasing (hence no duplicates). -/
namespace Claripy.Solver

theorem mem_insertSorted (x y : Nat) (l : List Nat) : y ∈ insertSorted x l ↔ y = x ∨ y ∈ l := by
  induction l with
  | nil => simp [insertSorted]
  | cons z zs ih =>
    simp only [insertSorted]
    split
    · simp
    · split
      · rename_i h; subst h; simp
      · simp only [List.mem_cons, ih]
        constructor
        · rintro (h | h | h)
          · exact Or.inr (Or.inl h)
          · exact Or.inl h
          · exact Or.inr (Or.inr h)
        · rintro (h | h | h)
          · exact Or.inr (Or.inl h)
          · exact Or.inl h
          · exact Or.inr (Or.inr h)

theorem insertSorted_sorted (x : Nat) (l : List Nat) (h : l.Pairwise (· < ·)) : (insertSorted x l).Pairwise (· < ·) := by
  induction l with
  | nil => simp [insertSorted]
  | cons z zs ih =>
    simp only [insertSorted]
    have hz := List.pairwise_cons.mp h
    split
    · rename_i hxz
      refine List.pairwise_cons.mpr ⟨?_, h⟩
      intro a ha
      rcases List.mem_cons.mp ha with rfl | ha
      · exact hxz
      · exact Nat.lt_trans hxz (hz.1 a ha)
    · split
      · exact h
      · rename_i h1 h2
        refine List.pairwise_cons.mpr ⟨?_, ih hz.2⟩
        intro a ha
        rcases (mem_insertSorted x a zs).mp ha with rfl | ha
        · omega
        · exact hz.1 a ha

theorem sortDedup_spec (l : List Nat) : (∀ y, y ∈ sortDedup l ↔ y ∈ l) ∧ (sortDedup l).Pairwise (· < ·) := by
  unfold sortDedup
  suffices h : ∀ (acc : List Nat), acc.Pairwise (· < ·) →
      (∀ y, y ∈ l.foldl (fun acc x => insertSorted x acc) acc ↔ y ∈ acc ∨ y ∈ l) ∧
      (l.foldl (fun acc x => insertSorted x acc) acc).Pairwise (· < ·) by
    have := h [] List.Pairwise.nil
    exact ⟨fun y => by simpa using this.1 y, this.2⟩
  induction l with
  | nil => intro acc h; exact ⟨fun y => by simp, h⟩
  | cons x xs ih =>
    intro acc h
    simp only [List.foldl_cons]
    obtain ⟨i1, i2⟩ := ih (insertSorted x acc) (insertSorted_sorted x acc h)
    refine ⟨fun y => ?_, i2⟩
    rw [i1, mem_insertSorted, List.mem_cons]
    constructor
    · rintro ((h | h) | h)
      · exact Or.inr (Or.inl h)
      · exact Or.inl h
      · exact Or.inr (Or.inr h)
    · rintro (h | h | h)
      · exact Or.inl (Or.inr h)
      · exact Or.inl (Or.inl h)
      · exact Or.inr h

theorem mem_sortDedup (l : List Nat) (y : Nat) : y ∈ sortDedup l ↔ y ∈ l := (sortDedup_spec l).1 y

theorem sortDedup_nodup (l : List Nat) : (sortDedup l).Nodup :=
  (sortDedup_spec l).2.imp (fun h => Nat.ne_of_lt h)

end Claripy.Solver
