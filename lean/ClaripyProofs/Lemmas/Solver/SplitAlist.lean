import Claripy.Solver.Structure
/-!
Association lists as `_split_constraints` uses its two dicts, list-sets, and the sorted de-duplication of the result.
-/
namespace Claripy.Solver

/-! ### list-sets -/
theorem mem_listInsertN (l : List Nat) (x y : Nat) : y ∈ listInsert l x ↔ y ∈ l ∨ y = x := by
  unfold listInsert
  split
  · rename_i h
    have : x ∈ l := by simpa using h
    constructor
    · exact Or.inl
    · rintro (h | rfl)
      · exact h
      · exact this
  · simp

theorem mem_listUnionN (l r : List Nat) (y : Nat) : y ∈ listUnion l r ↔ y ∈ l ∨ y ∈ r := by
  unfold listUnion
  induction r generalizing l with
  | nil => simp
  | cons x xs ih =>
    simp only [List.foldl_cons, ih, mem_listInsertN, List.mem_cons]
    constructor
    · rintro ((h | h) | h)
      · exact Or.inl h
      · exact Or.inr (Or.inl h)
      · exact Or.inr (Or.inr h)
    · rintro (h | h | h)
      · exact Or.inl (Or.inl h)
      · exact Or.inl (Or.inr h)
      · exact Or.inr h

theorem mem_foldl_listInsertN (vars : List Nat) (y : Nat) : y ∈ vars.foldl listInsert [] ↔ y ∈ vars := by
  have := mem_listUnionN [] vars y
  simpa [listUnion] using this

/-! ### association lists -/
variable {β : Type}

theorem alGet?_nil (k : Var) : alGet? ([] : List (Var × β)) k = none := rfl

theorem alGet?_cons (p : Var × β) (d : List (Var × β)) (k : Var) :
    alGet? (p :: d) k = if p.1 == k then some p.2 else alGet? d k := by
  unfold alGet?
  simp only [List.find?_cons]
  split <;> simp_all

theorem alGet?_append_none (d e : List (Var × β)) (k : Var) (h : alGet? d k = none) : alGet? (d ++ e) k = alGet? e k := by
  induction d with
  | nil => rfl
  | cons p d ih =>
    rw [alGet?_cons] at h
    simp only [List.cons_append, alGet?_cons]
    split at h
    · cases h
    · rename_i hp; simp only [hp, Bool.false_eq_true, if_false]; exact ih h

theorem alGet?_append_some (d e : List (Var × β)) (k : Var) (x : β) (h : alGet? d k = some x) : alGet? (d ++ e) k = some x := by
  induction d with
  | nil => simp [alGet?_nil] at h
  | cons p d ih =>
    rw [alGet?_cons] at h
    simp only [List.cons_append, alGet?_cons]
    split at h
    · rename_i hp; simp only [hp, if_true]; exact h
    · rename_i hp; simp only [hp, Bool.false_eq_true, if_false]; exact ih h

theorem any_key_iff (d : List (Var × β)) (k : Var) : (d.any fun p => p.1 == k) = true ↔ (alGet? d k).isSome = true := by
  induction d with
  | nil => simp [alGet?_nil]
  | cons p d ih =>
    simp only [List.any_cons, Bool.or_eq_true, alGet?_cons]
    by_cases hp : (p.1 == k) = true
    · simp [hp]
    · simp [hp, ih]

theorem alGet?_map_set (d : List (Var × β)) (k : Var) (x : β) (k' : Var) :
    alGet? (d.map fun p => if p.1 == k then (k, x) else p) k' =
      if k' = k then (alGet? d k).map (fun _ => x) else alGet? d k' := by
  induction d with
  | nil => simp [alGet?_nil]
  | cons p d ih =>
    simp only [List.map_cons, alGet?_cons, ih]
    by_cases hp : (p.1 == k) = true
    · have hpk : p.1 = k := by simpa using hp
      simp only [hp, if_true]
      by_cases hk : k' = k
      · subst hk; simp
      · have : (k == k') = false := by simp; exact fun h => hk h.symm
        have h2 : (p.1 == k') = false := by rw [hpk]; exact this
        simp [hk, this, h2]
    · simp only [hp, Bool.false_eq_true, if_false]
      by_cases hk : k' = k
      · subst hk
        simp [hp]
      · simp only [hk, if_false]

theorem alGet?_alSet (d : List (Var × β)) (k : Var) (x : β) (k' : Var) :
    alGet? (alSet d k x) k' = if k' = k then some x else alGet? d k' := by
  unfold alSet
  split
  · rename_i h
    rw [alGet?_map_set]
    have hs := (any_key_iff d k).mp h
    by_cases hk : k' = k
    · simp only [hk, if_true]
      cases hg : alGet? d k with
      | none => simp [hg] at hs
      | some _ => rfl
    · simp [hk]
  · rename_i h
    have hn : alGet? d k = none := by
      cases hg : alGet? d k with
      | none => rfl
      | some _ => exact absurd ((any_key_iff d k).mpr (by simp [hg])) h
    by_cases hk : k' = k
    · subst hk
      rw [alGet?_append_none d _ k' hn]
      simp [alGet?_cons, alGet?_nil]
    · simp only [hk, if_false]
      cases hg : alGet? d k' with
      | none =>
        rw [alGet?_append_none d _ k' hg]
        have : (k == k') = false := by simp; exact fun h => hk h.symm
        simp [alGet?_cons, alGet?_nil, this]
      | some y => exact alGet?_append_some d _ k' y hg

/-- setting the same value for a whole list of keys -/
theorem alGet?_foldl_alSet (cv : List Var) (x : β) (d : List (Var × β)) (k' : Var) :
    alGet? (cv.foldl (fun d v => alSet d v x) d) k' = if k' ∈ cv then some x else alGet? d k' := by
  induction cv generalizing d with
  | nil => simp
  | cons v vs ih =>
    simp only [List.foldl_cons, ih, alGet?_alSet, List.mem_cons]
    by_cases h1 : k' ∈ vs
    · simp [h1]
    · by_cases h2 : k' = v
      · simp [h1, h2]
      · simp [h1, h2]

/-- keys of an association list -/
def keys (d : List (Var × β)) : List Var := d.map (·.1)

theorem keys_alSet_nodup (d : List (Var × β)) (k : Var) (x : β) (h : (keys d).Nodup) : (keys (alSet d k x)).Nodup := by
  unfold alSet
  split
  · have : keys (d.map fun p => if p.1 == k then (k, x) else p) = keys d := by
      unfold keys
      rw [List.map_map]
      apply List.map_congr_left
      intro p _
      simp only [Function.comp]
      split
      · rename_i hp
        have : p.1 = k := by simpa using hp
        exact this.symm
      · rfl
    rw [this]; exact h
  · rename_i hk
    unfold keys at *
    rw [List.map_append, List.nodup_append]
    refine ⟨h, by simp, ?_⟩
    intro a ha b hb
    simp only [List.map_cons, List.map_nil, List.mem_singleton] at hb
    subst hb
    intro hab
    subst hab
    apply hk
    simp only [List.any_eq_true]
    obtain ⟨p, hp, rfl⟩ := List.mem_map.mp ha
    exact ⟨p, hp, by simp⟩

theorem keys_foldl_alSet_nodup (cv : List Var) (x : β) (d : List (Var × β)) (h : (keys d).Nodup) :
    (keys (cv.foldl (fun d v => alSet d v x) d)).Nodup := by
  induction cv generalizing d with
  | nil => exact h
  | cons v vs ih => exact ih _ (keys_alSet_nodup d v x h)

/-- with distinct keys, an entry is what lookup returns -/
theorem alGet?_of_mem (d : List (Var × β)) (h : (keys d).Nodup) (p : Var × β) (hp : p ∈ d) : alGet? d p.1 = some p.2 := by
  induction d with
  | nil => simp at hp
  | cons q d ih =>
    simp only [keys, List.map_cons, List.nodup_cons] at h
    rw [alGet?_cons]
    rcases List.mem_cons.mp hp with rfl | hp
    · simp
    · have hne : (q.1 == p.1) = false := by
        simp only [beq_eq_false_iff_ne, ne_eq]
        intro he
        apply h.1
        rw [he]
        exact List.mem_map.mpr ⟨p, hp, rfl⟩
      simp only [hne, Bool.false_eq_true, if_false]
      exact ih h.2 hp

theorem mem_of_alGet? (d : List (Var × β)) (k : Var) (x : β) (h : alGet? d k = some x) : (k, x) ∈ d := by
  induction d with
  | nil => simp [alGet?_nil] at h
  | cons q d ih =>
    rw [alGet?_cons] at h
    split at h
    · rename_i hq
      have : q.1 = k := by simpa using hq
      cases h
      simp [← this]
    · exact List.mem_cons_of_mem _ (ih h)

end Claripy.Solver
