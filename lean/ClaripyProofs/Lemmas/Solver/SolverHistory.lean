import ClaripyProofs.Lemmas.Solver.SolverBatch
/-!
The caching class `Solver`, whole histories over a TREE of branched solvers (not tracking, `reuse_z3_solver` off): any
sequence of add / satisfiable / eval / min / max / solution / is_true / is_false / simplify / downsize / branch on any of the
solvers alive.  Every answer the MODEL gives — the complete mixin stack composed from the generated MRO (ConcreteHandler,
EagerResolution, ConstraintFilter, ConstraintDeduplicator, SimplifySkipper, SatCache, ModelCache, ConstraintExpansion,
SimplifyHelper, FullFrontend, ConstrainedFrontend) with all its caches — is one `Judge` allows for the constraints the user
has added to THAT solver, or an honest give-up.
-/
namespace Claripy.Solver

variable {R : Con → Prop} {RE : Exp → Prop} {E : Env} {U : List Con}

/-! ### the invariant only looks at the record and at the frames of the Z3 object referred to -/

theorem SI.heap {G : St → Prop} {s s' : St} (h : SI R RE E G U s)
    (hcons : s'.fe.constraints = s.fe.constraints) (htoadd : s'.fe.toAdd = s.fe.toAdd) (hsol : s'.fe.solver = s.fe.solver)
    (htrack : s'.fe.track = s.fe.track) (hhash : s'.fe.hashes = s.fe.hashes) (hwo : s'.fe.woAnnot = s.fe.woAnnot)
    (hvar : s'.fe.variables = s.fe.variables) (hmc : mcFields s'.fe = mcFields s.fe) (hcs : s'.fe.cachedSat = s.fe.cachedSat)
    (hre : s'.reuse = s.reuse)
    (hobj : ∀ r, s.fe.solver = some r → r < s'.objs.length ∧ (objAt s' r).frames = (objAt s r).frames) :
    SI R RE E (fun _ => True) U s' := by
  obtain ⟨f1, f2, f3, f4, f5, f6⟩ := mcFields_eq hmc
  refine ⟨⟨⟨?_, ?_, ?_⟩, ?_, ⟨?_, ?_⟩, ?_, ⟨s', trivial, WStep.refl s'⟩, ?_⟩, h.mc.of_fields f1 f2 f3 f4 f5 f6, ?_⟩
  · rw [hcons, htoadd]; exact h.base.core.toAdd_sub
  · intro r hr
    rw [hsol] at hr
    obtain ⟨_, ⟨f, hf⟩, hsem⟩ := h.base.core.obj r hr
    obtain ⟨hlt, hfr⟩ := hobj r hr
    refine ⟨hlt, ⟨f, by rw [hfr, hf]⟩, fun a => ?_⟩
    have has : (objAt s' r).asserted = (objAt s r).asserted := by simp only [Z3Obj.asserted, hfr]
    rw [has, htoadd, hcons]
    exact hsem a
  · rw [hre]; exact h.base.core.noReuse
  · rw [hcons]; exact h.base.equiv
  · rw [hcons]; exact h.base.dinv.consR
  · rw [hhash, hwo]; exact h.base.dinv.seen
  · rw [hcons, hvar]; exact h.base.vars
  · intro ht r hr z hz
    rw [htrack] at ht
    rw [hsol] at hr
    obtain ⟨_, hfr⟩ := hobj r hr
    have has : (objAt s' r).asserted = (objAt s r).asserted := by simp only [Z3Obj.asserted, hfr]
    rw [has] at hz
    exact h.base.areg ht r hr z hz
  · rw [SCInv, hcs]; exact h.sc

theorem SI.unmark {s s' : St} (h : SI R RE E (· = s) U s') : SI R RE E (fun _ => True) U s' ∧ WStep s s' := by
  obtain ⟨s0, rfl, hw⟩ := h.base.ghost
  exact ⟨⟨⟨h.base.core, h.base.equiv, h.base.dinv, h.base.vars, ⟨s', trivial, WStep.refl s'⟩, h.base.areg⟩, h.mc, h.sc⟩, hw⟩

theorem SI.mark {s : St} (h : SI R RE E (fun _ => True) U s) : SI R RE E (· = s) U s :=
  ⟨⟨h.base.core, h.base.equiv, h.base.dinv, h.base.vars, ⟨s, rfl, WStep.refl s⟩, h.base.areg⟩, h.mc, h.sc⟩

/-! ### the world -/

/-- invariant of the world: every frontend satisfies `SI` for ITS user's constraints; a Z3 object referred to by two
frontends is referred to by finalized frontends only -/
structure TInvS (R : Con → Prop) (RE : Exp → Prop) (E : Env) (Us : List (List Con)) (w : World) : Prop where
  len : Us.length = w.fes.length
  each : ∀ i, i < w.fes.length → SI R RE E (fun _ => True) (Us.getD i []) (stOfI w i)
  share : ∀ i j r, i < w.fes.length → j < w.fes.length → i ≠ j →
    (w.fes.getD i {}).solver = some r → (w.fes.getD j {}).solver = some r → (w.fes.getD i {}).finalized = true

theorem TInvS.solver_lt {Us : List (List Con)} {w : World} (hw : TInvS R RE E Us w) {j r : Nat}
    (hj : j < w.fes.length) (hr : (w.fes.getD j {}).solver = some r) : r < w.objs.length :=
  ((hw.each j hj).base.core.obj r hr).1

/-- the frame rule: a call on frontend `i` that is a `WStep` for it and re-establishes its invariant keeps the invariant of
the world -/
theorem tinvS_step {Us : List (List Con)} {w : World} (hw : TInvS R RE E Us w) {i : Nat} (hi : i < w.fes.length)
    {s' : St} {U' : List Con} (hws : WStep (stOfI w i) s') (hf : SI R RE E (fun _ => True) U' s') :
    TInvS R RE E (Us.set i U') (wOfI w i s') := by
  have hre : s'.reuse = w.reuse := hws.reuse
  have hlen : (wOfI w i s').fes.length = w.fes.length := by simp [wOfI]
  refine ⟨by simp [wOfI, hw.len], ?_, ?_⟩
  · intro j hj
    rw [hlen] at hj
    by_cases hji : j = i
    · subst hji
      rw [stOfI_wOfI_self w j s' hi hre, getD_set_self _ _ _ _ (by rw [hw.len]; exact hi)]
      exact hf
    · rw [getD_set_ne _ _ _ _ _ (Ne.symm hji)]
      have hfe : (stOfI (wOfI w i s') j).fe = (stOfI w j).fe := by
        simp only [stOfI, wOfI]; exact getD_set_ne _ _ _ _ _ (Ne.symm hji)
      refine (hw.each j hj).heap (by rw [hfe]) (by rw [hfe]) (by rw [hfe]) (by rw [hfe]) (by rw [hfe]) (by rw [hfe])
        (by rw [hfe]) (by rw [hfe]) (by rw [hfe]) rfl ?_
      intro r hr
      have hlt : r < w.objs.length := hw.solver_lt hj hr
      refine ⟨Nat.lt_of_lt_of_le hlt hws.grow, ?_⟩
      exact hws.foreign r hlt (fun hir => hw.share i j r hi hj (Ne.symm hji) hir hr)
  · intro a b r ha hb hab hra hrb
    rw [hlen] at ha hb
    simp only [wOfI] at hra hrb ⊢
    by_cases hai : a = i
    · subst hai
      have hbi : b ≠ a := Ne.symm hab
      rw [getD_set_self _ _ _ _ ha] at hra ⊢
      rw [getD_set_ne _ _ _ _ _ (Ne.symm hbi)] at hrb
      have hlt : r < w.objs.length := hw.solver_lt hb hrb
      rcases hws.solver3 with e | e | ⟨r', e, hge⟩
      · exact hws.fin (hw.share a b r ha hb hab (e ▸ hra) hrb)
      · rw [e] at hra; cases hra
      · rw [e] at hra
        have : r' = r := by simpa using hra
        subst this
        exact absurd hlt (Nat.not_lt.mpr hge)
    · rw [getD_set_ne _ _ _ _ _ (Ne.symm hai)] at hra ⊢
      by_cases hbi : b = i
      · subst hbi
        rw [getD_set_self _ _ _ _ hb] at hrb
        have hlt : r < w.objs.length := hw.solver_lt ha hra
        rcases hws.solver3 with e | e | ⟨r', e, hge⟩
        · exact hw.share a b r ha hb hab hra (e ▸ hrb)
        · rw [e] at hrb; cases hrb
        · rw [e] at hrb
          have : r' = r := by simpa using hrb
          subst this
          exact absurd hlt (Nat.not_lt.mpr hge)
      · rw [getD_set_ne _ _ _ _ _ (Ne.symm hbi)] at hrb
        exact hw.share a b r ha hb hab hra hrb

theorem tinvS_init (R : Con → Prop) (RE : Exp → Prop) (E : Env) (track : Bool) :
    TInvS R RE E [[]] (World.init track false) := by
  refine ⟨rfl, ?_, ?_⟩
  · intro i hi
    have : i = 0 := by simp [World.init] at hi; exact hi
    subst this
    exact ⟨⟨⟨fun _ _ => rfl, fun r hr => by simp [stOfI, World.init] at hr, rfl⟩, fun _ => rfl,
      ⟨fun c hc => by simp [stOfI, World.init] at hc, fun c _ hi => by simp [stOfI, World.init] at hi⟩,
      fun c hc => by simp [stOfI, World.init] at hc, ⟨_, trivial, WStep.refl _⟩,
      fun _ r hr => by simp [stOfI, World.init] at hr⟩,
      mcInv_init RE E _ _ rfl rfl rfl rfl rfl rfl, ⟨fun hc => by simp [stOfI, World.init] at hc, fun hc => by simp [stOfI, World.init] at hc⟩⟩
  · intro i j r hi hj hij
    simp [World.init] at hi hj
    omega

/-- the copy made by `branch` joins the world: it refers to the same Z3 object as its (finalized) parent and carries the
parent's caches -/
theorem tinvS_append {Us : List (List Con)} {w : World} (hw : TInvS R RE E Us w) {i : Nat} (hi : i < w.fes.length)
    (hfin : (w.fes.getD i {}).finalized = true) (c : Frontend)
    (hcons : c.constraints = (w.fes.getD i {}).constraints) (htoadd : c.toAdd = (w.fes.getD i {}).toAdd)
    (hsol : c.solver = (w.fes.getD i {}).solver) (htrack : c.track = (w.fes.getD i {}).track)
    (hhash : c.hashes = (w.fes.getD i {}).hashes) (hwo : c.woAnnot = (w.fes.getD i {}).woAnnot)
    (hvar : c.variables = (w.fes.getD i {}).variables) (hmc : mcFields c = mcFields (w.fes.getD i {}))
    (hcs : c.cachedSat = (w.fes.getD i {}).cachedSat) (hcfin : c.finalized = true) :
    TInvS R RE E (Us ++ [Us.getD i []]) { w with fes := w.fes ++ [c] } := by
  refine ⟨by simp [hw.len], ?_, ?_⟩
  · intro j hj
    simp only [List.length_append, List.length_singleton] at hj
    by_cases hjl : j < w.fes.length
    · have e1 : stOfI { w with fes := w.fes ++ [c] } j = stOfI w j := by
        simp only [stOfI, getD_append_left' _ _ _ _ hjl]
      rw [e1, getD_append_left' _ _ _ _ (by rw [hw.len]; exact hjl)]
      exact hw.each j hjl
    · have hjeq : j = w.fes.length := by omega
      subst hjeq
      have e2 : (Us ++ [Us.getD i []]).getD w.fes.length [] = Us.getD i [] := by
        rw [← hw.len]; exact getD_append_last _ _ _
      rw [e2]
      have hfe : (stOfI { w with fes := w.fes ++ [c] } w.fes.length).fe = c := by
        simp only [stOfI]; exact getD_append_last _ _ _
      refine (hw.each i hi).heap (by rw [hfe]; exact hcons) (by rw [hfe]; exact htoadd) (by rw [hfe]; exact hsol)
        (by rw [hfe]; exact htrack) (by rw [hfe]; exact hhash) (by rw [hfe]; exact hwo) (by rw [hfe]; exact hvar)
        (by rw [hfe]; exact hmc) (by rw [hfe]; exact hcs) rfl ?_
      intro r hr
      exact ⟨hw.solver_lt hi hr, rfl⟩
  · intro a b r ha hb hab hra hrb
    simp only [List.length_append, List.length_singleton] at ha hb
    simp only at hra hrb ⊢
    by_cases hal : a < w.fes.length
    · rw [getD_append_left' _ _ _ _ hal] at hra ⊢
      by_cases hbl : b < w.fes.length
      · rw [getD_append_left' _ _ _ _ hbl] at hrb
        exact hw.share a b r hal hbl hab hra hrb
      · have hbeq : b = w.fes.length := by omega
        subst hbeq
        rw [getD_append_last] at hrb
        rw [hsol] at hrb
        by_cases hai : a = i
        · subst hai; exact hfin
        · exact hw.share a i r hal hi hai hra hrb
    · have haeq : a = w.fes.length := by omega
      subst haeq
      rw [getD_append_last]
      exact hcfin

end Claripy.Solver

namespace Claripy.Solver

variable {R : Con → Prop} {RE : Exp → Prop} {E : Env}

/-! ### calls in scope -/

/-- the calls the theorem covers and what is assumed of their arguments: added constraints come from the registry `R`,
queried expressions from the registry `RE`, extra constraints are well formed, `eval` asks for at least one value,
`solution` gets a value in range -/
def InScopeS (R : Con → Prop) (RE : Exp → Prop) : Op → Prop
  | .add cs => ∀ c ∈ cs, R c
  | .satisfiable ex => ∀ c ∈ ex, ConWf c
  | .eval e n ex => RE e ∧ 1 ≤ n ∧ ∀ c ∈ ex, ConWf c
  | .batchEval es n ex => (∀ e ∈ es, (e.conc = none → RE e) ∧ ∀ c, e.conc = some c → ∀ a, e.val a = c) ∧ 1 ≤ n ∧
      ∀ c ∈ ex, ConWf c
  | .min e ex _ | .max e ex _ => RE e ∧ ∀ c ∈ ex, ConWf c
  | .solution e v ex => RE e ∧ v < 2 ^ e.bits ∧ ∀ c ∈ ex, ConWf c
  | .isTrue c ex | .isFalse c ex => ConWf c ∧ ∀ c ∈ ex, ConWf c
  | .simplify | .downsize | .branch | .pickle => True
  | _ => False

/-- `__getstate__` / `__setstate__` of this class, layer by layer -/
theorem pickleS_spec (fe : Frontend) :
    ∃ c, pickleRestore (Claripy.Gen.SolverMro.mro .Solver) fe = c ∧
      c.constraints = fe.constraints ∧ c.toAdd = [] ∧ c.solver = none ∧ c.track = fe.track ∧ c.hashes = fe.hashes ∧
      c.woAnnot = fe.constraints.foldl (fun acc c => listInsert acc c.id) [] ∧ c.finalized = fe.finalized ∧
      c.variables = fe.variables ∧ c.models = [] ∧ c.evalExh = [] ∧ c.maxExh = [] ∧ c.minExh = [] ∧ c.maxSExh = [] ∧
      c.minSExh = [] ∧ c.cachedSat = fe.cachedSat :=
  ⟨_, rfl, rfl, rfl, rfl, rfl, rfl, rfl, rfl, rfl, rfl, rfl, rfl, rfl, rfl, rfl, rfl⟩

theorem mem_foldl_ids (cs : List Con) (acc : List Nat) (i : Nat) :
    i ∈ cs.foldl (fun acc c => listInsert acc c.id) acc ↔ i ∈ acc ∨ ∃ c ∈ cs, c.id = i := by
  induction cs generalizing acc with
  | nil => simp
  | cons c cs ih =>
    simp only [List.foldl_cons, ih, mem_listInsert, List.mem_cons, exists_eq_or_imp]
    constructor
    · rintro ((h | rfl) | h)
      · exact Or.inl h
      · exact Or.inr (Or.inl rfl)
      · exact Or.inr (Or.inr h)
    · rintro (h | h | h)
      · exact Or.inl (Or.inl h)
      · exact Or.inl (Or.inr h.symm)
      · exact Or.inr h

/-- a pickle round trip keeps the invariant: the Z3 object is dropped, the model cache starts empty, the rest survives -/
theorem si_pickle {G : St → Prop} {U : List Con} (hR : Reg R E) {s : St} (h : SI R RE E G U s) (c : Frontend)
    (hcons : c.constraints = s.fe.constraints) (htoadd : c.toAdd = []) (hsol : c.solver = none)
    (_htrack : c.track = s.fe.track) (hhash : c.hashes = s.fe.hashes)
    (hwo : c.woAnnot = s.fe.constraints.foldl (fun acc c => listInsert acc c.id) []) (hfin : c.finalized = s.fe.finalized)
    (hvar : c.variables = s.fe.variables) (hm : c.models = []) (h1 : c.evalExh = []) (h2 : c.maxExh = [])
    (h3 : c.minExh = []) (h4 : c.maxSExh = []) (h5 : c.minSExh = []) (hcs : c.cachedSat = s.fe.cachedSat) :
    SI R RE E G U { s with fe := c } := by
  refine ⟨⟨⟨?_, ?_, h.base.core.noReuse⟩, ?_, ⟨?_, ?_⟩, ?_, ?_, ?_⟩, mcInv_init RE E U c hm h1 h2 h3 h4 h5, ?_⟩
  · intro a _; show holdsAll c.toAdd a = true; rw [htoadd]; rfl
  · intro r hr
    have : c.solver = some r := hr
    rw [hsol] at this; cases this
  · intro a; show holdsAll c.constraints a = _; rw [hcons]; exact h.base.equiv a
  · intro x hx
    have : x ∈ c.constraints := hx
    rw [hcons] at this; exact h.base.dinv.consR x this
  · intro x hx hi a ha
    have hi' : x.id ∈ c.hashes ∨ x.id ∈ c.woAnnot := hi
    rw [hhash, hwo] at hi'
    rcases hi' with hi' | hi'
    · exact h.base.dinv.seen x hx (Or.inl hi') a ha
    · rcases (mem_foldl_ids _ _ _).mp hi' with hi' | ⟨x', hx', hid⟩
      · simp at hi'
      · rw [hR.faithful x x' hx (h.base.dinv.consR x' hx') hid.symm a]
        have : holdsAll s.fe.constraints a = true := by rw [h.base.equiv a]; exact ha
        exact (models_iff_holdsAll _ a).mpr this x' hx'
  · intro x hx v hv
    have hx' : x ∈ c.constraints := hx
    rw [hcons] at hx'
    show v ∈ c.variables
    rw [hvar]; exact h.base.vars x hx' v hv
  · obtain ⟨s0, hg, hw⟩ := h.base.ghost
    refine ⟨s0, hg, hw.trans ⟨Nat.le_refl _, Or.inr (Or.inl hsol), fun _ _ _ => rfl, rfl, fun hf => ?_⟩⟩
    show c.finalized = true; rw [hfin]; exact hf
  · intro _ r hr
    have : c.solver = some r := hr
    rw [hsol] at this; cases this
  · show SCInv U c
    rw [SCInv, hcs]; exact h.sc

/-- `Frontend.branch` of this class: `blank_copy` and `_copy` through all layers -/
def branchS (E : Env) : M Frontend := do let fe ← M.getFe; (solStage E 4).copy ((solStage E 4).blankCopy fe {})

theorem branchS_spec (E : Env) (s : St) :
    ∃ c, branchS E s = (.ok c, { s with fe := { s.fe with finalized := true } }) ∧
      c.constraints = s.fe.constraints ∧ c.toAdd = s.fe.toAdd ∧ c.solver = s.fe.solver ∧ c.track = s.fe.track ∧
      c.hashes = s.fe.hashes ∧ c.woAnnot = s.fe.woAnnot ∧ c.finalized = true ∧ c.variables = s.fe.variables ∧
      mcFields c = mcFields s.fe ∧ c.cachedSat = s.fe.cachedSat :=
  ⟨_, rfl, rfl, rfl, rfl, rfl, rfl, rfl, rfl, rfl, rfl, rfl⟩

theorem errOk_judge {U : List Con} {op : Op} {err : Err} (h : ErrOk E (U ++ op.extra) err)
    (hj : ¬ Satisfiable (U ++ op.extra) → Judge U op (.err .unsat)) : JudgeOrGiveUp E U op (.err err) := by
  rcases h with ⟨rfl, hns⟩ | hg
  · exact Or.inl (hj hns)
  · exact Or.inr ⟨err, rfl, hg⟩

section
variable (H : SolverHyps R RE E)
include H

/-- a query-like or mutating call on solver `i` (everything but `branch`) -/
theorem sol_step_nb (w : World) (Us : List (List Con)) (hw : TInvS R RE E Us w) (i : Nat) (hi : i < w.fes.length)
    (op : Op) (hop : InScopeS R RE op) (hnb : op ≠ .branch) :
    JudgeOrGiveUp E (usersAfter (Us.getD i []) op) op (step E .Solver w i op).1 ∧
    TInvS R RE E (usersAll Us i op) (step E .Solver w i op).2 := by
  have h0 := hw.each i hi
  have hUs : Us.set i (Us.getD i []) = Us := set_getD_self Us i [] (by rw [hw.len]; exact hi)
  -- from the marked invariant read off the step
  have query : ∀ {s' : St}, SI R RE E (· = stOfI w i) (Us.getD i []) s' → TInvS R RE E Us (wOfI w i s') := by
    intro s' h'
    obtain ⟨h1, hq⟩ := h'.unmark
    have := tinvS_step hw hi hq h1
    rwa [hUs] at this
  cases op with
  | add cs =>
    show JudgeOrGiveUp E (Us.getD i [] ++ cs) _ (outOf _ (runOn w i (publicAdd (classOps E .Solver) cs))).1 ∧
         TInvS R RE E (Us.set i (Us.getD i [] ++ cs)) (outOf _ (runOn w i (publicAdd (classOps E .Solver) cs))).2
    rw [classOps_solver, runOn_eq]
    by_cases hemp : cs.isEmpty = true
    · have hnil : cs = [] := by simpa using hemp
      subst hnil
      have : publicAdd (solStage E 4) [] true (stOfI w i) = (.ok [], stOfI w i) := rfl
      rw [this]
      obtain ⟨h1, hq⟩ := h0.mark.unmark
      have := tinvS_step hw hi hq (U' := Us.getD i [] ++ []) (by simpa using h1)
      exact ⟨Or.inl trivial, this⟩
    · have : publicAdd (solStage E 4) cs true (stOfI w i) = (solStage E 4).add cs true (stOfI w i) := by
        simp [publicAdd, hemp]
      rw [this]
      obtain ⟨added, s', hrun, hsi, _, _⟩ := (solStage_ok3 H 3).add (Us.getD i []) (stOfI w i) cs true h0.mark hop
        (fun hf => by cases hf)
      rw [hrun]
      obtain ⟨h1, hq⟩ := hsi.unmark
      exact ⟨Or.inl trivial, tinvS_step hw hi hq h1⟩
  | satisfiable extra =>
    show JudgeOrGiveUp E (Us.getD i []) _ (outOf .bool (runOn w i ((classOps E .Solver).satisfiable extra))).1 ∧
         TInvS R RE E Us (outOf .bool (runOn w i ((classOps E .Solver).satisfiable extra))).2
    rw [classOps_solver, runOn_eq]
    have hspec := sol_satisfiable_top H 3 extra hop (stOfI w i) h0.mark
    revert hspec
    generalize (solStage E (3 + 1)).satisfiable extra (stOfI w i) = res
    obtain ⟨r, s'⟩ := res
    cases r with
    | ok b => exact fun hspec => ⟨Or.inl hspec.1, query hspec.2.1⟩
    | error e => exact fun hspec => ⟨Or.inr ⟨e, rfl, hspec.1⟩, query hspec.2.1⟩
  | eval e n extra =>
    show JudgeOrGiveUp E (Us.getD i []) _ (outOf .vals (runOn w i ((classOps E .Solver).eval e n extra))).1 ∧
         TInvS R RE E Us (outOf .vals (runOn w i ((classOps E .Solver).eval e n extra))).2
    rw [classOps_solver, runOn_eq]
    have hspec := sol_eval_top H 3 e hop.1 n hop.2.1 extra hop.2.2 (stOfI w i) h0.mark
    revert hspec
    generalize (solStage E (3 + 1)).eval e n extra (stOfI w i) = res
    obtain ⟨r, s'⟩ := res
    cases r with
    | ok vs => exact fun hspec => ⟨Or.inl hspec.1, query hspec.2⟩
    | error err => exact fun hspec => ⟨errOk_judge (op := .eval e n extra) hspec.1 id, query hspec.2⟩
  | batchEval es n extra =>
    show JudgeOrGiveUp E (Us.getD i []) _ (outOf .tuples (runOn w i ((classOps E .Solver).batchEval es n extra))).1 ∧
         TInvS R RE E Us (outOf .tuples (runOn w i ((classOps E .Solver).batchEval es n extra))).2
    rw [classOps_solver, runOn_eq]
    have hspec := sol_batchEval_top H 3 es (fun e he => (hop.1 e he).1) (fun e he => (hop.1 e he).2) n hop.2.1 extra hop.2.2
      (stOfI w i) h0.mark
    revert hspec
    generalize (solStage E (3 + 1)).batchEval es n extra (stOfI w i) = res
    obtain ⟨r, s'⟩ := res
    cases r with
    | ok ts => exact fun hspec => ⟨Or.inl hspec.1, query hspec.2⟩
    | error err => exact fun hspec => ⟨errOk_judge (op := .batchEval es n extra) hspec.1 id, query hspec.2⟩
  | min e extra signed =>
    show JudgeOrGiveUp E (Us.getD i []) _ (outOf .int (runOn w i ((classOps E .Solver).min e extra signed))).1 ∧
         TInvS R RE E Us (outOf .int (runOn w i ((classOps E .Solver).min e extra signed))).2
    rw [classOps_solver, runOn_eq]
    have hspec := sol_opt_top H 2 false e hop.1 extra signed hop.2 (stOfI w i) h0.mark
    simp only [Bool.false_eq_true, ↓reduceIte] at hspec
    revert hspec
    generalize (solStage E (2 + 2)).min e extra signed (stOfI w i) = res
    obtain ⟨r, s'⟩ := res
    cases r with
    | ok v => exact fun hspec => ⟨Or.inl hspec.1, query hspec.2⟩
    | error err => exact fun hspec => ⟨errOk_judge (op := .min e extra signed) hspec.1 id, query hspec.2⟩
  | max e extra signed =>
    show JudgeOrGiveUp E (Us.getD i []) _ (outOf .int (runOn w i ((classOps E .Solver).max e extra signed))).1 ∧
         TInvS R RE E Us (outOf .int (runOn w i ((classOps E .Solver).max e extra signed))).2
    rw [classOps_solver, runOn_eq]
    have hspec := sol_opt_top H 2 true e hop.1 extra signed hop.2 (stOfI w i) h0.mark
    simp only [↓reduceIte] at hspec
    revert hspec
    generalize (solStage E (2 + 2)).max e extra signed (stOfI w i) = res
    obtain ⟨r, s'⟩ := res
    cases r with
    | ok v => exact fun hspec => ⟨Or.inl hspec.1, query hspec.2⟩
    | error err => exact fun hspec => ⟨errOk_judge (op := .max e extra signed) hspec.1 id, query hspec.2⟩
  | solution e v extra =>
    show JudgeOrGiveUp E (Us.getD i []) _ (outOf .bool (runOn w i ((classOps E .Solver).solution e v extra))).1 ∧
         TInvS R RE E Us (outOf .bool (runOn w i ((classOps E .Solver).solution e v extra))).2
    rw [classOps_solver, runOn_eq]
    have hspec := sol_solution_top H 2 e hop.1 v hop.2.1 extra hop.2.2 (stOfI w i) h0.mark
    revert hspec
    generalize (solStage E (2 + 2)).solution e v extra (stOfI w i) = res
    obtain ⟨r, s'⟩ := res
    cases r with
    | ok b => exact fun hspec => ⟨Or.inl hspec.1, query hspec.2⟩
    | error err => exact fun hspec => ⟨errOk_judge (op := .solution e v extra) hspec.1 id, query hspec.2⟩
  | isTrue c extra =>
    show JudgeOrGiveUp E (Us.getD i []) _ (outOf .bool (runOn w i ((classOps E .Solver).isTrue c extra))).1 ∧
         TInvS R RE E Us (outOf .bool (runOn w i ((classOps E .Solver).isTrue c extra))).2
    rw [classOps_solver, runOn_eq]
    have hspec := sol_truth_top H 3 true c hop.1 extra hop.2 (stOfI w i) h0.mark
    simp only [↓reduceIte] at hspec
    revert hspec
    generalize (solStage E (3 + 1)).isTrue c extra (stOfI w i) = res
    obtain ⟨r, s'⟩ := res
    cases r with
    | ok b => exact fun hspec => ⟨Or.inl hspec.1, query hspec.2⟩
    | error err => exact fun hspec => ⟨errOk_judge (op := .isTrue c extra) hspec.1 id, query hspec.2⟩
  | isFalse c extra =>
    show JudgeOrGiveUp E (Us.getD i []) _ (outOf .bool (runOn w i ((classOps E .Solver).isFalse c extra))).1 ∧
         TInvS R RE E Us (outOf .bool (runOn w i ((classOps E .Solver).isFalse c extra))).2
    rw [classOps_solver, runOn_eq]
    have hspec := sol_truth_top H 3 false c hop.1 extra hop.2 (stOfI w i) h0.mark
    simp only [Bool.false_eq_true, ↓reduceIte] at hspec
    revert hspec
    generalize (solStage E (3 + 1)).isFalse c extra (stOfI w i) = res
    obtain ⟨r, s'⟩ := res
    cases r with
    | ok b => exact fun hspec => ⟨Or.inl hspec.1, query hspec.2⟩
    | error err => exact fun hspec => ⟨errOk_judge (op := .isFalse c extra) hspec.1 id, query hspec.2⟩
  | unsatCore extra => exact hop.elim
  | simplify =>
    show JudgeOrGiveUp E (Us.getD i []) _ (outOf _ (runOn w i (classOps E .Solver).simplify)).1 ∧
         TInvS R RE E Us (outOf _ (runOn w i (classOps E .Solver).simplify)).2
    rw [classOps_solver, runOn_eq]
    obtain ⟨out, s', hrun, hsi, _⟩ := (solStage_ok1 H 4).simp (Us.getD i []) (stOfI w i) h0.mark
    rw [hrun]
    exact ⟨Or.inl trivial, query hsi⟩
  | downsize =>
    show JudgeOrGiveUp E (Us.getD i []) _ (outOf _ (runOn w i (classOps E .Solver).downsize)).1 ∧
         TInvS R RE E Us (outOf _ (runOn w i (classOps E .Solver).downsize)).2
    rw [classOps_solver, runOn_eq]
    have hrun : (solStage E 4).downsize (stOfI w i) = (.ok (), clDownsizeSt (stOfI w i)) := rfl
    rw [hrun]
    exact ⟨Or.inl trivial, query (solDownsize_spec (stOfI w i) h0.mark).1⟩
  | branch => exact (hnb rfl).elim
  | pickle =>
    obtain ⟨c, hc, e1, e2, e3, e4, e5, e6, e7, e8, e9, e10, e11, e12, e13, e14, e15⟩ := pickleS_spec (w.fes.getD i {})
    have hstep : step E .Solver w i .pickle = (.unit, wOfI w i { stOfI w i with fe := c }) := by
      show (Out.unit, { w with fes := w.fes.set i (pickleRestore (Claripy.Gen.SolverMro.mro .Solver) (w.fes.getD i {})) }) = _
      rw [hc]; rfl
    rw [hstep]
    exact ⟨Or.inl trivial,
      query (si_pickle H.reg h0.mark c e1 e2 e3 e4 e5 e6 e7 e8 e9 e10 e11 e12 e13 e14 e15)⟩

omit H in
/-- `branch` on solver `i`: a new solver with index = the number of solvers so far, inheriting the constraint list AND the
caches of its parent -/
theorem sol_step_branch (w : World) (Us : List (List Con)) (hw : TInvS R RE E Us w) (i : Nat) (hi : i < w.fes.length) :
    (step E .Solver w i .branch).1 = .newSolver w.fes.length ∧
    TInvS R RE E (Us ++ [Us.getD i []]) (step E .Solver w i .branch).2 := by
  obtain ⟨c, hrun, hcons, htoadd, hsol, htrack, hhash, hwo, hcfin, hvar, hmc, hcs⟩ := branchS_spec E (stOfI w i)
  have hstep : step E .Solver w i .branch =
      (match runOn w i (branchS E) with
       | (.ok c, w') => (.newSolver w'.fes.length, { w' with fes := w'.fes ++ [c] })
       | (.error e, w') => (.err e, w')) := rfl
  rw [hstep, runOn_eq, hrun]
  simp only
  -- the parent, now finalized
  have hf1 : SI R RE E (fun _ => True) (Us.getD i []) { stOfI w i with fe := { (stOfI w i).fe with finalized := true } } :=
    (hw.each i hi).heap rfl rfl rfl rfl rfl rfl rfl rfl rfl rfl (fun r hr => ⟨hw.solver_lt hi hr, rfl⟩)
  have hws : WStep (stOfI w i) { stOfI w i with fe := { (stOfI w i).fe with finalized := true } } :=
    ⟨Nat.le_refl _, Or.inl rfl, fun _ _ _ => rfl, rfl, fun _ => rfl⟩
  have hw1 := tinvS_step hw hi hws hf1
  rw [set_getD_self Us i [] (by rw [hw.len]; exact hi)] at hw1
  have hlen1 : (wOfI w i { stOfI w i with fe := { (stOfI w i).fe with finalized := true } }).fes.length = w.fes.length := by
    simp [wOfI]
  have hi1 : i < (wOfI w i { stOfI w i with fe := { (stOfI w i).fe with finalized := true } }).fes.length := by
    rw [hlen1]; exact hi
  have hfe1 : (wOfI w i { stOfI w i with fe := { (stOfI w i).fe with finalized := true } }).fes.getD i {} =
      { (stOfI w i).fe with finalized := true } := by
    simp only [wOfI]; exact getD_set_self _ _ _ _ hi
  refine ⟨by rw [hlen1], ?_⟩
  exact tinvS_append hw1 hi1 (by rw [hfe1]) c (by rw [hfe1]; exact hcons) (by rw [hfe1]; exact htoadd)
    (by rw [hfe1]; exact hsol) (by rw [hfe1]; exact htrack) (by rw [hfe1]; exact hhash) (by rw [hfe1]; exact hwo)
    (by rw [hfe1]; exact hvar) (by rw [hfe1]; exact hmc) (by rw [hfe1]; exact hcs) hcfin

/-- any call in scope on any solver alive -/
theorem sol_step (w : World) (Us : List (List Con)) (hw : TInvS R RE E Us w) (i : Nat) (hi : i < w.fes.length)
    (op : Op) (hop : InScopeS R RE op) :
    JudgeOrGiveUp E (usersAfter (Us.getD i []) op) op (step E .Solver w i op).1 ∧
    TInvS R RE E (usersAll Us i op) (step E .Solver w i op).2 := by
  by_cases hb : op = .branch
  · subst hb
    obtain ⟨h1, h2⟩ := sol_step_branch (E := E) w Us hw i hi
    refine ⟨Or.inl ?_, h2⟩
    rw [h1]
    trivial
  · exact sol_step_nb H w Us hw i hi op hop hb

end

end Claripy.Solver

namespace Claripy.Solver

variable {R : Con → Prop} {RE : Exp → Prop} {E : Env}

/-- a history is in scope: every call is made on a solver that exists at that moment, with arguments in scope -/
def HistOkS (R : Con → Prop) (RE : Exp → Prop) : Nat → List (Nat × Op) → Prop
  | _, [] => True
  | n, (i, op) :: rest => i < n ∧ InScopeS R RE op ∧ HistOkS R RE (match op with | .branch => n + 1 | _ => n) rest

theorem runHist_cons' (E : Env) (cls : SolverClass) (w : World) (Us : List (List Con)) (i : Nat) (op : Op)
    (rest : List (Nat × Op)) :
    runHist E cls w Us ((i, op) :: rest) =
      (usersAfter (Us.getD i []) op, op, (step E cls w i op).1) ::
        runHist E cls (step E cls w i op).2 (usersAll Us i op) rest := by
  cases op <;> rfl

section
variable (H : SolverHyps R RE E)
include H

/-- **trees of branched caching solvers**: every answer of every solver is allowed for that solver's own constraints, or is
an honest give-up -/
theorem sol_hist_giveup (hist : List (Nat × Op)) : ∀ (w : World) (Us : List (List Con)), TInvS R RE E Us w →
    HistOkS R RE w.fes.length hist →
    ∀ x ∈ runHist E .Solver w Us hist, JudgeOrGiveUp E x.1 x.2.1 x.2.2 := by
  induction hist with
  | nil => intro w Us _ _ x hx; simp [runHist] at hx
  | cons io rest ih =>
    obtain ⟨i, op⟩ := io
    intro w Us hw hok x hx
    obtain ⟨hi, hop, hrest⟩ := hok
    obtain ⟨hj, hw'⟩ := sol_step H w Us hw i hi op hop
    rw [runHist_cons'] at hx
    rcases List.mem_cons.mp hx with rfl | hx
    · exact hj
    · refine ih _ _ hw' ?_ x hx
      have hl := hw'.len
      rw [usersAll_length, hw.len] at hl
      rw [← hl]
      exact hrest

/-- every answer other than a give-up error is allowed -/
theorem sol_hist (hist : List (Nat × Op)) (w : World) (Us : List (List Con)) (hw : TInvS R RE E Us w)
    (hok : HistOkS R RE w.fes.length hist) :
    ∀ x ∈ runHist E .Solver w Us hist, x.2.2 ≠ .err .giveUp → Judge x.1 x.2.1 x.2.2 := by
  intro x hx hne
  rcases sol_hist_giveup H hist w Us hw hok x hx with h | hg
  · exact h
  · exact (hne hg.eq).elim

end

end Claripy.Solver
