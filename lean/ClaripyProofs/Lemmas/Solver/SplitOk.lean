import ClaripyProofs.Lemmas.Solver.SplitGroups
import Mathlib.Data.List.Nodup
/-! The three facts about the result of `_split_constraints`, as propositions. -/
namespace Claripy.Solver

/-- distinct groups have no variable in common -/
theorem groups_disjoint (varss : List (List Var)) (g h : List Var × List Nat) (hg : g ∈ groupsOf varss) (hh : h ∈ groupsOf varss)
    (hne : g ≠ h) : ∀ v ∈ g.1, v ∉ h.1 := by
  obtain ⟨p, hp, rfl⟩ := (groupsOf_spec varss).1 g |>.mp hg
  obtain ⟨q, hq, rfl⟩ := (groupsOf_spec varss).1 h |>.mp hh
  intro v hv hv'
  simp only [groupOf, mem_sortDedup] at hv hv'
  exact hne (same_group varss p q hp hq v hv hv')

/-- each conjunct of a group has all its variables in the group -/
theorem groups_cover_vars (varss : List (List Var)) (g : List Var × List Nat) (hg : g ∈ groupsOf varss) (i : Nat) (hi : i ∈ g.2) :
    ∀ w ∈ varss.getD i [], w ∈ g.1 := by
  obtain ⟨p, hp, rfl⟩ := (groupsOf_spec varss).1 g |>.mp hg
  obtain ⟨_, vs, hvs, _, hall⟩ := group_index varss p hp i hi
  intro w hw
  simp only [List.getD_eq_getElem?_getD, hvs, Option.getD_some] at hw
  simp only [groupOf, mem_sortDedup]
  exact hall w hw

/-- all indices listed: those of the groups, then the CONCRETE ones -/
def allIdx (varss : List (List Var)) : List Nat := ((groupsOf varss).map (·.2)).flatten ++ concreteOf varss

theorem mem_allIdx (varss : List (List Var)) (i : Nat) : i ∈ allIdx varss ↔ i < varss.length := by
  have inv := splitInv_final varss
  unfold allIdx
  simp only [List.mem_append, List.mem_flatten, List.mem_map]
  constructor
  · rintro (⟨l, ⟨g, hg, rfl⟩, hi⟩ | hc)
    · obtain ⟨p, hp, rfl⟩ := (groupsOf_spec varss).1 g |>.mp hg
      exact (group_index varss p hp i hi).1
    · have := (mem_concreteOf varss i).mp hc
      exact (List.getElem?_eq_some_iff.mp this).1
  · intro hi
    have hvs : varss[i]? = some varss[i] := List.getElem?_eq_getElem hi
    cases hv : varss[i] with
    | nil => right; rw [mem_concreteOf, hvs, hv]
    | cons w rest =>
      left
      obtain ⟨C, hC, hiC⟩ := inv.cover i varss[i] hi hvs w (by rw [hv]; simp)
      have hd := inv.dom w
      rw [hC] at hd
      cases hS : alGet? (finalSt varss).vc w with
      | none =>
        have : alGet? ((varss.zipIdx).foldl (fun st p => splitStep st p.2 p.1) {}).vc w = none := hS
        rw [this] at hd; simp at hd
      | some S =>
        have hmem : (w, S) ∈ (finalSt varss).vc := mem_of_alGet? _ w S hS
        refine ⟨(groupOf (finalSt varss) (w, S)).2, ⟨groupOf (finalSt varss) (w, S), ?_, rfl⟩, ?_⟩
        · exact (groupsOf_spec varss).1 _ |>.mpr ⟨(w, S), hmem, rfl⟩
        · have : alGet? (finalSt varss).cc w = some C := hC
          simp only [groupOf, this, Option.getD_some, mem_sortDedup]
          exact hiC

theorem allIdx_nodup (varss : List (List Var)) : (allIdx varss).Nodup := by
  unfold allIdx
  rw [List.nodup_append]
  refine ⟨?_, concreteOf_nodup varss, ?_⟩
  · rw [List.nodup_flatten]
    constructor
    · intro l hl
      obtain ⟨g, hg, rfl⟩ := List.mem_map.mp hl
      obtain ⟨p, _, rfl⟩ := (groupsOf_spec varss).1 g |>.mp hg
      exact sortDedup_nodup _
    · rw [List.pairwise_map]
      refine ((groupsOf_spec varss).2).imp_of_mem ?_
      intro g h hg hh hne
      obtain ⟨p, hp, rfl⟩ := (groupsOf_spec varss).1 g |>.mp hg
      obtain ⟨q, hq, rfl⟩ := (groupsOf_spec varss).1 h |>.mp hh
      intro i hi1 hi2
      obtain ⟨_, vs, hvs, hvne, hall⟩ := group_index varss p hp i hi1
      obtain ⟨_, vs', hvs', _, hall'⟩ := group_index varss q hq i hi2
      rw [hvs] at hvs'
      cases hvs'
      cases vs with
      | nil => exact hvne rfl
      | cons w rest =>
        exact hne (same_group varss p q hp hq w (hall w (by simp)) (hall' w (by simp)))
  · intro i hi j hj hij
    subst hij
    obtain ⟨l, hl, hil⟩ := List.mem_flatten.mp hi
    obtain ⟨g, hg, rfl⟩ := List.mem_map.mp hl
    obtain ⟨p, hp, rfl⟩ := (groupsOf_spec varss).1 g |>.mp hg
    obtain ⟨_, vs, hvs, hvne, _⟩ := group_index varss p hp i hil
    have := (mem_concreteOf varss i).mp hj
    rw [hvs] at this
    exact hvne (Option.some.inj this)

theorem allIdx_length (varss : List (List Var)) : (allIdx varss).length = varss.length := by
  have hperm : (allIdx varss).Perm (List.range varss.length) :=
    (List.perm_ext_iff_of_nodup (allIdx_nodup varss) List.nodup_range).mpr
      (fun i => by rw [mem_allIdx, List.mem_range])
  simpa using hperm.length_eq

/-- every `constraint_connections` entry lists a constraint -/
theorem cc_nonempty_loop : ∀ (l : List (List Var × Nat)) (st : SplitSt), (∀ v C, alGet? st.cc v = some C → C ≠ []) →
    ∀ v C, alGet? (l.foldl (fun st p => splitStep st p.2 p.1) st).cc v = some C → C ≠ []
  | [], _, h => h
  | p :: rest, st, h => by
    simp only [List.foldl_cons]
    refine cc_nonempty_loop rest _ ?_
    intro v C hv
    rw [cc_splitStep] at hv
    split at hv
    · cases hv
      intro hnil
      have : p.2 ∈ stepCs st p.2 p.1 := (mem_stepCs st p.2 p.1 p.2).mpr (Or.inl rfl)
      rw [hnil] at this; cases this
    · exact h v C hv

/-- a group of `_split_constraints` has a constraint -/
theorem groups_nonempty (varss : List (List Var)) (g : List Var × List Nat) (hg : g ∈ groupsOf varss) : g.2 ≠ [] := by
  obtain ⟨p, hp, rfl⟩ := (groupsOf_spec varss).1 g |>.mp hg
  obtain ⟨_, C, hC⟩ := entry_facts varss p hp
  have hne := cc_nonempty_loop (varss.zipIdx) {} (fun v C h => by cases h) p.1 C hC
  obtain ⟨i, rest, rfl⟩ := List.exists_cons_of_ne_nil hne
  intro hnil
  have : i ∈ (groupOf (finalSt varss) p).2 := by
    simp only [groupOf, hC, Option.getD_some, mem_sortDedup]; simp
  rw [hnil] at this; cases this

end Claripy.Solver
