import ClaripyProofs.Lemmas.Solver.SolverStack
/-!
`simplify`, `downsize`, `is_true` / `is_false` of the class `Solver` keep the invariant.
-/
namespace Claripy.Solver

variable {R : Con → Prop} {RE : Exp → Prop} {E : Env} {G : St → Prop} {U : List Con}

/-- **SimpVars** (C09): on constraints of the registry `claripy.simplify` invents no variables -/
def SimpVars (R : Con → Prop) (E : Env) : Prop :=
  ∀ cs k, (∀ c ∈ cs, R c) → ∀ c ∈ E.simp cs k, ∀ v ∈ c.vars, ∃ c' ∈ cs, v ∈ c'.vars

/-- recording the ids of constraints equivalent to `U` keeps the deduplication invariant -/
theorem seen_union (hR : Reg R E) {s : St} (hd : DInv R U s) (cons : List Con) (hcR : ∀ c ∈ cons, R c)
    (heq : ∀ a, holdsAll cons a = holdsAll U a) :
    ∀ c, R c → (c.id ∈ listUnion s.fe.hashes (cons.map (·.id)) ∨ c.id ∈ s.fe.woAnnot) →
      ∀ a, holdsAll U a = true → c.sem a = true := by
  intro c hc hi a ha
  rcases hi with hi | hi
  · rcases (mem_listUnion _ _ _).mp hi with hi | hi
    · exact hd.seen c hc (Or.inl hi) a ha
    · obtain ⟨c', hc', hid⟩ := List.mem_map.mp hi
      rw [hR.faithful c c' hc (hcR c' hc') hid.symm a]
      have : holdsAll cons a = true := by rw [heq a]; exact ha
      exact (models_iff_holdsAll cons a).mpr this c' hc'
  · exact hd.seen c hc (Or.inr hi) a ha

/-- a literally false constraint among constraints that mean `U`: `U` is unsatisfiable -/
theorem unsat_of_false_among (hR : Reg R E) {out : List Con} (hoR : ∀ c ∈ out, R c)
    (heq : ∀ a, holdsAll out a = holdsAll U a) (hF : (!out.isEmpty && out.any (·.isFalse)) = true) : ¬ Satisfiable U := by
  rintro ⟨a, ha⟩
  simp only [Bool.and_eq_true] at hF
  obtain ⟨c, hc, hcf⟩ := List.any_eq_true.mp hF.2
  have h1 : holdsAll out a = true := by rw [heq a]; exact (models_iff_holdsAll U a).mp ha
  have := (models_iff_holdsAll out a).mpr h1 c hc
  rw [(hR.wf c (hoR c hc)).2.1 hcf a] at this
  exact absurd this (by simp)

theorem solSimplify_spec (hR : Reg R E) (hS : SimpOn R E) (hV : SimpVars R E) (s : St) (h : SI R RE E G U s) :
    SI R RE E G U (solSimplifySt E s).2 ∧ Keep U s (solSimplifySt E s).2 := by
  unfold solSimplifySt
  cases hsimp : s.fe.simplified with
  | true =>
    simp only [↓reduceIte]
    refine ⟨⟨⟨⟨h.base.core.toAdd_sub, h.base.core.obj, h.base.core.noReuse⟩, h.base.equiv,
      ⟨h.base.dinv.consR, seen_union hR h.base.dinv s.fe.constraints h.base.dinv.consR h.base.equiv⟩, h.base.vars, ?_,
      h.base.areg⟩,
      h.mc.of_fields rfl rfl rfl rfl rfl rfl, h.sc⟩, Keep.of_fe rfl rfl⟩
    obtain ⟨s0, hg, hw⟩ := h.base.ghost
    exact ⟨s0, hg, hw.trans (WStep.of_fe rfl rfl rfl rfl)⟩
  | false =>
    simp only [Bool.false_eq_true, ↓reduceIte]
    -- the simplified constraints
    generalize hout : (if s.fe.constraints.isEmpty = true then s.fe.constraints else E.simp s.fe.constraints s.tick) = out
    have hoR : ∀ c ∈ out, R c := by
      rw [← hout]; split
      · exact h.base.dinv.consR
      · exact hR.simp_closed _ _ h.base.dinv.consR
    have hoeq : ∀ a, holdsAll out a = holdsAll U a := by
      intro a; rw [← hout, ← h.base.equiv a]; split
      · rfl
      · exact hS _ _ h.base.dinv.consR a
    have hovars : ∀ c ∈ out, ∀ v ∈ c.vars, v ∈ s.fe.variables := by
      rw [← hout]; split
      · exact h.base.vars
      · intro c hc v hv
        obtain ⟨c', hc', hv'⟩ := hV _ _ h.base.dinv.consR c hc v hv
        exact h.base.vars c' hc' v hv'
    -- the record
    generalize hfe2 : (if (!out.isEmpty && out.any (·.isFalse)) = true then
        { s.fe with simplified := true, constraints := out, solver := none, toAdd := [], models := [] }
      else { s.fe with simplified := true, constraints := out, solver := none, toAdd := [] } : Frontend) = fe2
    have hfe2' : fe2 = { s.fe with simplified := true, constraints := out, solver := none, toAdd := [], models := fe2.models } := by
      rw [← hfe2]; split <;> rfl
    have hfields := scSimpFe_fields out fe2
    have hcsat := scSimpFe_cachedSat out fe2
    have hmodels : (scSimpFe out fe2).models = fe2.models := by rw [hfields]
    have hmc : MCInv RE E U fe2 := by
      rw [← hfe2]
      by_cases hF : (!out.isEmpty && out.any (·.isFalse)) = true
      · rw [if_pos hF]
        exact mcInv_unsat RE E U _ (unsat_of_false_among hR hoR hoeq hF) (by simp)
      · rw [if_neg hF]
        exact h.mc.of_fields rfl rfl rfl rfl rfl rfl
    have e_cons : (scSimpFe out fe2).constraints = out := by rw [hfields, hfe2']
    have e_toadd : (scSimpFe out fe2).toAdd = [] := by rw [hfields, hfe2']
    have e_sol : (scSimpFe out fe2).solver = none := by rw [hfields, hfe2']
    have e_track : (scSimpFe out fe2).track = s.fe.track := by rw [hfields, hfe2']
    have e_hash : (scSimpFe out fe2).hashes = s.fe.hashes := by rw [hfields, hfe2']
    have e_wo : (scSimpFe out fe2).woAnnot = s.fe.woAnnot := by rw [hfields, hfe2']
    have e_var : (scSimpFe out fe2).variables = s.fe.variables := by rw [hfields, hfe2']
    have e_fin : (scSimpFe out fe2).finalized = s.fe.finalized := by rw [hfields, hfe2']
    refine ⟨⟨⟨⟨?_, ?_, h.base.core.noReuse⟩, ?_, ⟨?_, ?_⟩, ?_, ?_, ?_⟩, ?_, ?_⟩, ⟨?_, ?_⟩⟩
    · intro a _; show holdsAll (scSimpFe out fe2).toAdd a = true; rw [e_toadd]; rfl
    · intro r hr
      have : (scSimpFe out fe2).solver = some r := hr
      rw [e_sol] at this; cases this
    · intro a; show holdsAll (scSimpFe out fe2).constraints a = _; rw [e_cons]; exact hoeq a
    · intro c hc
      have : c ∈ (scSimpFe out fe2).constraints := hc
      rw [e_cons] at this; exact hoR c this
    · intro c hc hi
      have hi' : c.id ∈ listUnion (scSimpFe out fe2).hashes (out.map (·.id)) ∨ c.id ∈ (scSimpFe out fe2).woAnnot := hi
      rw [e_hash, e_wo] at hi'
      exact seen_union hR h.base.dinv out hoR hoeq c hc hi'
    · intro c hc v hv
      have hc' : c ∈ (scSimpFe out fe2).constraints := hc
      rw [e_cons] at hc'
      show v ∈ (scSimpFe out fe2).variables
      rw [e_var]; exact hovars c hc' v hv
    · obtain ⟨s0, hg, hw⟩ := h.base.ghost
      refine ⟨s0, hg, hw.trans ⟨Nat.le_refl _, Or.inr (Or.inl e_sol), fun _ _ _ => rfl, rfl, fun hf => ?_⟩⟩
      show (scSimpFe out fe2).finalized = true; rw [e_fin]; exact hf
    · intro _ r hr
      have : (scSimpFe out fe2).solver = some r := hr
      rw [e_sol] at this; cases this
    · exact hmc.of_fields hmodels (by rw [hfields]) (by rw [hfields]) (by rw [hfields]) (by rw [hfields]) (by rw [hfields])
    · show SCInv U { scSimpFe out fe2 with hashes := _ }
      unfold SCInv
      show ((scSimpFe out fe2).cachedSat = some true → _) ∧ ((scSimpFe out fe2).cachedSat = some false → _)
      rw [hcsat]
      have hcs2 : fe2.cachedSat = s.fe.cachedSat := by rw [hfe2']
      by_cases hF : (!out.isEmpty && out.any (·.isFalse)) = true
      · rw [if_pos hF]
        exact ⟨fun hc => by simp at hc, fun _ => unsat_of_false_among hR hoR hoeq hF⟩
      · rw [if_neg hF, hcs2]; exact h.sc
    · intro v hv; show v ∈ (scSimpFe out fe2).variables; rw [e_var]; exact hv
    · intro hsat m hm
      show m ∈ (scSimpFe out fe2).models
      rw [hmodels, ← hfe2]
      by_cases hF : (!out.isEmpty && out.any (·.isFalse)) = true
      · exact absurd hsat (unsat_of_false_among hR hoR hoeq hF)
      · rw [if_neg hF]; exact hm

/-- `simplify()` of the class -/
def SimplifySpec (R : Con → Prop) (RE : Exp → Prop) (E : Env) (G : St → Prop) (m : M (List Con)) : Prop :=
  ∀ (U : List Con) s, SI R RE E G U s → ∃ out s', m s = (.ok out, s') ∧ SI R RE E G U s' ∧ Keep U s s'

theorem sL9_simplify_spec (hR : Reg R E) (hS : SimpOn R E) (hV : SimpVars R E) (self : Ops) :
    SimplifySpec R RE E G (sL9 E self).simplify := by
  intro U s h
  obtain ⟨h1, h2⟩ := solSimplify_spec hR hS hV s h
  exact ⟨_, _, sL9_simplify E self s, h1, h2⟩

/-! ### `downsize` -/

theorem solDownsize_spec (s : St) (h : SI R RE E G U s) : SI R RE E G U (clDownsizeSt s) ∧ Keep U s (clDownsizeSt s) := by
  refine ⟨⟨⟨⟨fun a _ => rfl, fun r hr => by simp [clDownsizeSt] at hr, h.base.core.noReuse⟩,
    h.base.equiv, ⟨h.base.dinv.consR, h.base.dinv.seen⟩, h.base.vars, ?_, fun _ r hr => by simp [clDownsizeSt] at hr⟩,
    h.mc.of_fields rfl rfl rfl rfl rfl rfl, h.sc⟩, Keep.of_fe rfl rfl⟩
  obtain ⟨s0, hg, hw⟩ := h.base.ghost
  exact ⟨s0, hg, hw.trans ⟨Nat.le_refl _, Or.inr (Or.inl rfl), fun _ _ _ => rfl, rfl, fun hf => hf⟩⟩

end Claripy.Solver
