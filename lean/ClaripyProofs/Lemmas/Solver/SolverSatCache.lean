import ClaripyProofs.Lemmas.Solver.SolverLayers
/-!
SatCacheMixin (queries), ConstraintFilterMixin (queries) and ConcreteHandlerMixin of the class `Solver`.
-/
namespace Claripy.Solver

variable {R : Con → Prop} {RE : Exp → Prop} {E : Env} {G : St → Prop} {U : List Con}

/-! ### SatCacheMixin -/

theorem SI.set_cachedSat {s : St} (h : SI R RE E G U s) (c : Option Bool) (hc : SCInv U { s.fe with cachedSat := c }) :
    SI R RE E G U { s with fe := { s.fe with cachedSat := c } } :=
  h.set_fe _ rfl rfl rfl rfl rfl rfl rfl rfl (h.mc.of_fields rfl rfl rfl rfl rfl rfl) hc

theorem scInv_true {fe : Frontend} (hs : Satisfiable U) : SCInv U { fe with cachedSat := some true } :=
  ⟨fun _ => hs, fun hc => by simp at hc⟩

theorem scInv_false {fe : Frontend} (hs : ¬ Satisfiable U) : SCInv U { fe with cachedSat := some false } :=
  ⟨fun hc => by simp at hc, fun _ => hs⟩

theorem satisfiable_left {A B : List Con} (h : Satisfiable (A ++ B)) : Satisfiable A := by
  obtain ⟨a, ha⟩ := h; exact ⟨a, (models_append.mp ha).1⟩

/-- the shared shape of SatCacheMixin.eval / batch_eval / max / min: a cached `False` raises at once, an `UnsatError`
from below (without extra constraints) is remembered, success is remembered as `True` -/
theorem satCacheQuery_spec {α : Type} (m : M α) (extra : List Con) (Good : α → St → St → Prop)
    (hm : ∀ s, SI R RE E G U s → match m s with
      | (.ok a, s') => Good a s s' ∧ SI R RE E G U s' ∧ Keep U s s'
      | (.error e, s') => ErrOk E (U ++ extra) e ∧ SI R RE E G U s' ∧ Keep U s s')
    (hsat : ∀ a s s', Good a s s' → Satisfiable (U ++ extra))
    (hmono : ∀ a s s' c, Good a s s' → Good a s { s' with fe := { s'.fe with cachedSat := c } }) :
    ∀ s, SI R RE E G U s → match satCacheQuery m extra.isEmpty s with
      | (.ok a, s') => Good a s s' ∧ SI R RE E G U s' ∧ Keep U s s'
      | (.error e, s') => ErrOk E (U ++ extra) e ∧ SI R RE E G U s' ∧ Keep U s s' := by
  intro s h
  unfold satCacheQuery
  simp only [bind, M.bind, M.getFe_apply]
  by_cases hcf : (s.fe.cachedSat == some false) = true
  · simp only [hcf, ↓reduceIte, M.throw_apply]
    have : s.fe.cachedSat = some false := by simpa using hcf
    exact ⟨Or.inl ⟨rfl, fun hs => h.sc.2 this (satisfiable_left hs)⟩, h, Keep.refl U s⟩
  · simp only [hcf, Bool.false_eq_true, ↓reduceIte, M.bind, M.tryCatch]
    have hspec := hm s h
    rcases hq : m s with ⟨res, s1⟩
    rw [hq] at hspec
    cases res with
    | error err =>
      obtain ⟨herr, h1, hk1⟩ := hspec
      simp only
      by_cases hun : (err == Err.unsat) = true
      · have herr' : err = .unsat := by simpa using hun
        subst herr'
        have hnsat : ¬ Satisfiable (U ++ extra) := by
          rcases herr with ⟨_, hn⟩ | hg
          · exact hn
          · exact absurd hg.1 (by simp)
        simp only [beq_self_eq_true, ↓reduceIte]
        by_cases hex : extra.isEmpty = true
        · have hnil : extra = [] := by simpa using hex
          subst hnil
          simp only [List.isEmpty_nil, ↓reduceIte, M.modifyFe_apply]
          exact ⟨Or.inl ⟨rfl, hnsat⟩, h1.set_cachedSat _ (scInv_false (by simpa using hnsat)), hk1.trans (Keep.of_fe rfl rfl)⟩
        · simp only [hex, Bool.false_eq_true, ↓reduceIte, M.throw_apply]
          exact ⟨Or.inl ⟨rfl, hnsat⟩, h1, hk1⟩
      · simp only [hun, Bool.false_eq_true, ↓reduceIte]
        exact ⟨herr, h1, hk1⟩
    | ok a =>
      obtain ⟨hgood, h1, hk1⟩ := hspec
      simp only [M.modifyFe_apply, pure, M.pure]
      exact ⟨hmono a s s1 _ hgood, h1.set_cachedSat _ (scInv_true (satisfiable_left (hsat a s s1 hgood))),
        hk1.trans (Keep.of_fe rfl rfl)⟩

theorem satCache_eval_spec {self sup : Ops} (e : Exp) (hc : e.conc = none) (n : Nat) (extra : List Con)
    (hsup : EvalSpec R RE E G U e n extra (sup.eval e n extra)) :
    EvalSpec R RE E G U e n extra ((satCacheLayer E self sup).eval e n extra) := by
  have haux := satCacheQuery_spec (R := R) (RE := RE) (E := E) (G := G) (U := U) (sup.eval e n extra) extra
    (fun vs _ s' => EvalOk (U ++ extra) e n vs ∧ vs ≠ [] ∧
      ((∀ x ∈ e.vars, x ∈ s'.fe.variables) → ∀ v ∈ vs, ∃ m ∈ s'.fe.models, e.val (m.complete E.dflt) = v))
    (fun s h => by
      have := hsup s h
      revert this
      generalize sup.eval e n extra s = res
      rcases res with ⟨r, s1⟩
      cases r with
      | ok vs => exact fun ⟨a, b, c, d, e⟩ => ⟨⟨a, b, c⟩, d, e⟩
      | error err => exact fun h => h)
    (by
      rintro vs _ _ ⟨hok, hne, _⟩
      simp only [EvalOk, hc] at hok
      obtain ⟨v, hv⟩ := List.exists_mem_of_ne_nil vs hne
      obtain ⟨a, ha, _⟩ := hok.1 v hv
      exact ⟨a, ha⟩)
    (fun _ _ _ _ hg => hg)
  intro s h
  have := haux s h
  have hshow : (satCacheLayer E self sup).eval e n extra s = satCacheQuery (sup.eval e n extra) extra.isEmpty s := rfl
  rw [hshow]
  revert this
  generalize satCacheQuery (sup.eval e n extra) extra.isEmpty s = res
  rcases res with ⟨r, s1⟩
  cases r with
  | ok vs => exact fun ⟨⟨a, b, c⟩, d, e⟩ => ⟨a, b, c, d, e⟩
  | error err => exact fun h => h

theorem satCache_opt_spec {self sup : Ops} (isMax : Bool) (e : Exp) (extra : List Con) (signed : Bool)
    (hsup : OptSpec R RE E G U isMax e extra signed (if isMax then sup.max e extra signed else sup.min e extra signed)) :
    OptSpec R RE E G U isMax e extra signed
      (if isMax then (satCacheLayer E self sup).max e extra signed else (satCacheLayer E self sup).min e extra signed) := by
  have haux := satCacheQuery_spec (R := R) (RE := RE) (E := E) (G := G) (U := U)
    (if isMax then sup.max e extra signed else sup.min e extra signed) extra
    (fun i s s' => IsOpt isMax signed (U ++ extra) e i ∧
      ((∀ x ∈ e.vars, x ∈ s.fe.variables) → ∃ m ∈ s'.fe.models, e.val (m.complete E.dflt) = wrap e.bits i))
    (fun s h => by
      have := hsup s h
      revert this
      generalize (if isMax then sup.max e extra signed else sup.min e extra signed) s = res
      rcases res with ⟨r, s1⟩
      cases r with
      | ok i => exact fun ⟨a, b, c, d⟩ => ⟨⟨a, b⟩, c, d⟩
      | error err => exact fun h => h)
    (by
      rintro i _ _ ⟨hopt, _⟩
      obtain ⟨a, ha, _⟩ := hopt.1
      exact ⟨a, ha⟩)
    (fun _ _ _ _ hg => hg)
  intro s h
  have := haux s h
  have hshow : (if isMax then (satCacheLayer E self sup).max e extra signed else (satCacheLayer E self sup).min e extra signed) s =
      satCacheQuery (if isMax then sup.max e extra signed else sup.min e extra signed) extra.isEmpty s := by
    cases isMax <;> rfl
  rw [hshow]
  revert this
  generalize satCacheQuery (if isMax then sup.max e extra signed else sup.min e extra signed) extra.isEmpty s = res
  rcases res with ⟨r, s1⟩
  cases r with
  | ok i => exact fun ⟨⟨a, b⟩, c, d⟩ => ⟨a, b, c, d⟩
  | error err => exact fun h => h

/-- SatCacheMixin.satisfiable -/
theorem satCache_satisfiable_spec {self sup : Ops} (extra : List Con)
    (hsup : SatSpec R RE E G U extra (sup.satisfiable extra)) :
    SatSpec R RE E G U extra ((satCacheLayer E self sup).satisfiable extra) := by
  intro s h
  show match (do
      let fe ← M.getFe
      if fe.cachedSat == some false then pure false
      else if fe.cachedSat == some true && extra.isEmpty then pure true
      else do
        let r ← sup.satisfiable extra
        if extra.isEmpty then M.modifyFe fun fe => { fe with cachedSat := some r }
        pure r : M Bool) s with
    | (.ok b, s') => _ | (.error e, s') => _
  simp only [bind, M.bind, M.getFe_apply]
  by_cases hcf : (s.fe.cachedSat == some false) = true
  · simp only [hcf, ↓reduceIte, pure, M.pure]
    have : s.fe.cachedSat = some false := by simpa using hcf
    exact ⟨⟨fun hb => by simp at hb, fun hs => absurd (satisfiable_left hs) (h.sc.2 this)⟩, h, Keep.refl U s⟩
  · simp only [hcf, Bool.false_eq_true, ↓reduceIte]
    by_cases hct : (s.fe.cachedSat == some true && extra.isEmpty) = true
    · simp only [hct, ↓reduceIte, pure, M.pure]
      simp only [Bool.and_eq_true, beq_iff_eq, List.isEmpty_iff] at hct
      obtain ⟨hc, hnil⟩ := hct
      subst hnil
      exact ⟨by simpa using h.sc.1 hc, h, Keep.refl U s⟩
    · simp only [hct, Bool.false_eq_true, ↓reduceIte, M.bind]
      have hspec := hsup s h
      rcases hq : sup.satisfiable extra s with ⟨res, s1⟩
      rw [hq] at hspec
      cases res with
      | error err => exact hspec
      | ok b =>
        obtain ⟨hb, h1, hk1⟩ := hspec
        simp only
        by_cases hex : extra.isEmpty = true
        · have hnil : extra = [] := by simpa using hex
          subst hnil
          simp only [List.isEmpty_nil, ↓reduceIte, M.bind, M.modifyFe_apply, pure, M.pure]
          refine ⟨hb, h1.set_cachedSat _ ?_, hk1.trans (Keep.of_fe rfl rfl)⟩
          cases b
          · exact scInv_false (fun hs => by have := hb.mpr (by simpa using hs); cases this)
          · exact scInv_true (by simpa using hb.mp rfl)
        · simp only [hex, Bool.false_eq_true, ↓reduceIte, pure, M.pure]
          exact ⟨hb, h1, hk1⟩

/-- SatCacheMixin.solution -/
theorem satCache_solution_spec {self sup : Ops} (e : Exp) (v : Nat) (extra : List Con)
    (hsup : SolSpec R RE E G U e v extra (sup.solution e v extra)) :
    SolSpec R RE E G U e v extra ((satCacheLayer E self sup).solution e v extra) := by
  intro s h
  show match (do
      let fe ← M.getFe
      if fe.cachedSat == some false then M.throw .unsat
      else do
        let r ← M.tryCatch (sup.solution e v extra) (· == .unsat) (do
          if extra.isEmpty then M.modifyFe fun fe => { fe with cachedSat := some false }
          M.throw .unsat)
        if r then M.modifyFe fun fe => { fe with cachedSat := some true }
        pure r : M Bool) s with
    | (.ok b, s') => _ | (.error err, s') => _
  simp only [bind, M.bind, M.getFe_apply]
  by_cases hcf : (s.fe.cachedSat == some false) = true
  · simp only [hcf, ↓reduceIte, M.throw_apply]
    have : s.fe.cachedSat = some false := by simpa using hcf
    exact ⟨Or.inl ⟨rfl, fun hs => h.sc.2 this (satisfiable_left hs)⟩, h, Keep.refl U s⟩
  · simp only [hcf, Bool.false_eq_true, ↓reduceIte, M.bind, M.tryCatch]
    have hspec := hsup s h
    rcases hq : sup.solution e v extra s with ⟨res, s1⟩
    rw [hq] at hspec
    cases res with
    | error err =>
      obtain ⟨herr, h1, hk1⟩ := hspec
      simp only
      by_cases hun : (err == Err.unsat) = true
      · have herr' : err = .unsat := by simpa using hun
        subst herr'
        have hnsat : ¬ Satisfiable (U ++ extra) := by
          rcases herr with ⟨_, hn⟩ | hg
          · exact hn
          · exact absurd hg.1 (by simp)
        simp only [beq_self_eq_true, ↓reduceIte]
        by_cases hex : extra.isEmpty = true
        · have hnil : extra = [] := by simpa using hex
          subst hnil
          simp only [List.isEmpty_nil, ↓reduceIte]
          exact ⟨Or.inl ⟨rfl, hnsat⟩, h1.set_cachedSat _ (scInv_false (by simpa using hnsat)), hk1.trans (Keep.of_fe rfl rfl)⟩
        · simp only [hex, Bool.false_eq_true, ↓reduceIte, M.throw_apply]
          exact ⟨Or.inl ⟨rfl, hnsat⟩, h1, hk1⟩
      · simp only [hun, Bool.false_eq_true, ↓reduceIte]
        exact ⟨herr, h1, hk1⟩
    | ok b =>
      obtain ⟨hb, h1, hk1⟩ := hspec
      simp only
      cases b
      · simp only [Bool.false_eq_true, ↓reduceIte, pure, M.pure]
        exact ⟨by simpa using hb, h1, hk1⟩
      · simp only [↓reduceIte, M.bind, M.modifyFe_apply, pure, M.pure]
        obtain ⟨a, ha, _⟩ := hb.mp rfl
        exact ⟨by simpa using hb, h1.set_cachedSat _ (scInv_true ⟨a, (models_append.mp ha).1⟩), hk1.trans (Keep.of_fe rfl rfl)⟩

end Claripy.Solver
