import ClaripyProofs.Lemmas.Solver.SolverHistory
/-!
The class `SolverCompositeChild` (the children of SolverComposite) = ConstraintDeduplicator, SatCache, SimplifySkipper,
ModelCache over FullFrontend (generated MRO): the same caching layers as `Solver` in another order, without constraint filter,
concrete handler, expansion and helper.  Every call keeps the invariant `SI` and answers as the specification demands.
-/
namespace Claripy.Solver
open Claripy.Gen.SolverMro

variable {R : Con → Prop} {RE : Exp → Prop} {E : Env} {G : St → Prop} {U : List Con}

def cL0 (E : Env) (self : Ops) : Ops := fullLayer E self (constrainedLayer E self frontendBase)
def cL1 (E : Env) (self : Ops) : Ops := modelCacheLayer E self (cL0 E self)
def cL2 (E : Env) (self : Ops) : Ops := skipperLayer self (cL1 E self)
def cL3 (E : Env) (self : Ops) : Ops := satCacheLayer E self (cL2 E self)
def cL4 (E : Env) (self : Ops) : Ops := dedupLayer self (cL3 E self)

theorem compose_child (E : Env) (self : Ops) : compose E (mro .SolverCompositeChild) self = cL4 E self := rfl

def chStage (E : Env) (k : Nat) : Ops := stage E (mro .SolverCompositeChild) (k + 1)

theorem chStage_eq (E : Env) (k : Nat) : chStage E (k + 1) = cL4 E (chStage E k) := rfl
theorem chStage_zero (E : Env) : chStage E 0 = cL4 E frontendBase := rfl
theorem classOps_child (E : Env) : classOps E .SolverCompositeChild = chStage E 4 := rfl
theorem cL4_modelHook (E : Env) (self : Ops) : (cL4 E self).modelHook = mcHook := rfl

/-! ### `_add` -/

theorem skipper_add_low1 {self sup : Ops} (hsup : LowAdd1 R RE E G sup.add) : LowAdd1 R RE E G (skipperLayer self sup).add := by
  intro U s cs inv hb hmc hcs himp
  obtain ⟨new, s1, hrun, hrel, hmc1, hkeep, hcsat, hhash⟩ := hsup U s cs inv hb hmc hcs himp
  have hrun2 : (skipperLayer self sup).add cs inv s =
      (.ok new, { s1 with fe := { s1.fe with simplified := if new.isEmpty then s1.fe.simplified else false } }) := by
    show (do
        let added ← sup.add cs inv
        if !added.isEmpty then M.modifyFe fun fe => { fe with simplified := false }
        pure added : M (List Con)) s = _
    simp only [bind, M.bind, hrun]
    by_cases he : new.isEmpty = true
    · simp only [he, Bool.not_true, Bool.false_eq_true, ↓reduceIte, pure, M.pure]
    · simp only [he, Bool.not_false, ↓reduceIte, M.bind, M.modifyFe_apply, pure, M.pure, Bool.false_eq_true]
  exact ⟨new, _, hrun2,
    ⟨hrel.cons, hrel.toAdd, hrel.solver, hrel.track, hrel.fin, hrel.objs, hrel.reuse, hrel.sub, hrel.cover, hrel.vars, hrel.ids⟩,
    hmc1.of_fields rfl rfl rfl rfl rfl rfl, fun m hm hmc' => hkeep m hm hmc', hcsat, hhash⟩

/-- no constraint filter in this class: the deduplicator is the top of `_add` -/
theorem cL4_add_spec (hR : Reg R E) (hT : TrivOk R RE) (hC : CheapSound E) (self : Ops) : AddSpec R RE E G (cL4 E self).add := by
  have h0 : LowAdd0 (cL0 E self).add := fc_add_low E self self frontendBase
  have h1 : LowAdd1 R RE E G (cL1 E self).add := mc_add_low (self := self) (sup := cL0 E self) hR hT h0
  have h1' : LowAdd1 R RE E G (cL2 E self).add := skipper_add_low1 (self := self) (sup := cL1 E self) h1
  have h2 : LowAdd2 R RE E G (cL3 E self).add := satCache_add_low (self := self) (sup := cL2 E self) hR hC h1'
  have h3 : LowAdd3 R RE E G (cL4 E self).add := dedup_add_low (self := self) (sup := cL3 E self) h2
  intro U s cs inv h hcs himp
  obtain ⟨new, s1, hrun, hrel, hmc1, hsc1, hkeep⟩ := h3 U s cs inv h hcs himp
  exact ⟨new, s1, hrun, si_of_added hR h hcs (fun _ => rfl) hrel hmc1 hsc1, hkeep, fun v hv => (hrel.vars v).mpr (Or.inl hv)⟩

/-! ### `simplify` (the satisfiability cache sits ABOVE the skipper here) -/

def chSimplifySt (E : Env) (s : St) : List Con × St :=
  let p : List Con × St :=
    if s.fe.simplified then (s.fe.constraints, s)
    else
      let out := if s.fe.constraints.isEmpty then s.fe.constraints else E.simp s.fe.constraints s.tick
      let fe1 : Frontend := { s.fe with simplified := true, constraints := out, solver := none, toAdd := [] }
      let fe2 : Frontend := if !out.isEmpty && out.any (·.isFalse) then { fe1 with models := [] } else fe1
      (out, { s with tick := if s.fe.constraints.isEmpty then s.tick else s.tick + 1, fe := fe2 })
  let fe3 := scSimpFe p.1 p.2.fe
  (p.1, { p.2 with fe := { fe3 with hashes := listUnion fe3.hashes (p.1.map (·.id)) } })

theorem cL4_simplify (E : Env) (self : Ops) (s : St) :
    (cL4 E self).simplify s = (.ok (chSimplifySt E s).1, (chSimplifySt E s).2) := by
  show (do
    let added ← (do
      let cs ← (do
        let fe ← M.getFe
        if fe.simplified then pure fe.constraints
        else do
          M.modifyFe fun fe => { fe with simplified := true }
          (do
            let results ← (do
              let _ ← (do
                let fe ← M.getFe
                if fe.constraints.isEmpty then pure fe.constraints
                else do
                  let s ← M.get
                  let out := E.simp fe.constraints s.tick
                  M.modify fun s => { s with tick := s.tick + 1, fe := { s.fe with constraints := out } }
                  pure out)
              M.modifyFe fun fe => { fe with solver := none, toAdd := [] }
              let fe ← M.getFe
              pure fe.constraints)
            if !results.isEmpty && results.any (·.isFalse) then
              M.modifyFe fun fe => { fe with models := [] }
            pure results))
      if !cs.isEmpty && cs.any (·.isFalse) then M.modifyFe fun fe => { fe with cachedSat := some false }
      M.modifyFe fun fe =>
        match fe.cachedCore with
        | some core => if core.any (fun c => !(cs.any fun c' => c'.id == c.id)) then { fe with cachedCore := none } else fe
        | none => fe
      pure cs)
    M.modifyFe fun fe => { fe with hashes := listUnion fe.hashes (added.map (·.id)) }
    pure added : M (List Con)) s = _
  unfold chSimplifySt
  simp only [bind, M.bind, M.getFe_apply]
  cases hsimp : s.fe.simplified with
  | true =>
    simp only [↓reduceIte, pure, M.pure]
    by_cases hF : (!s.fe.constraints.isEmpty && s.fe.constraints.any (·.isFalse)) = true
    · simp only [hF, ↓reduceIte, M.bind, M.modifyFe_apply, M.pure_apply', scSimpFe]
      rfl
    · simp only [hF, Bool.false_eq_true, ↓reduceIte, M.bind, M.modifyFe_apply, M.pure_apply', scSimpFe]
      rfl
  | false =>
    simp only [Bool.false_eq_true, ↓reduceIte, M.bind, M.modifyFe_apply, M.getFe_apply]
    by_cases hemp : s.fe.constraints.isEmpty = true
    · have hnil : s.fe.constraints = [] := by simpa using hemp
      simp only [↓reduceIte, pure, M.pure, M.bind, M.modifyFe_apply, hnil, List.isEmpty_nil,
        Bool.not_true, Bool.false_and, Bool.false_eq_true, scSimpFe]
      all_goals rfl
    · simp only [hemp, Bool.false_eq_true, ↓reduceIte, M.bind, M.get_apply, M.modify_apply, pure, M.pure]
      by_cases hF : (!(E.simp s.fe.constraints s.tick).isEmpty && (E.simp s.fe.constraints s.tick).any (·.isFalse)) = true
      · simp only [hF, ↓reduceIte, M.bind, M.modifyFe_apply, M.pure_apply', scSimpFe]
        all_goals rfl
      · simp only [hF, Bool.false_eq_true, ↓reduceIte, M.bind, M.modifyFe_apply, M.pure_apply', scSimpFe]
        all_goals rfl

end Claripy.Solver

namespace Claripy.Solver
open Claripy.Gen.SolverMro

variable {R : Con → Prop} {RE : Exp → Prop} {E : Env} {G : St → Prop} {U : List Con}

theorem chSimplifySt_unsimplified (E : Env) (s : St) (h : s.fe.simplified = false) : chSimplifySt E s = solSimplifySt E s := by
  unfold chSimplifySt solSimplifySt
  simp only [h, Bool.false_eq_true, ↓reduceIte]

theorem chSimplify_spec (hR : Reg R E) (hS : SimpOn R E) (hV : SimpVars R E) (s : St) (h : SI R RE E G U s) :
    SI R RE E G U (chSimplifySt E s).2 ∧ Keep U s (chSimplifySt E s).2 := by
  cases hsimp : s.fe.simplified with
  | false => rw [chSimplifySt_unsimplified E s hsimp]; exact solSimplify_spec hR hS hV s h
  | true =>
    unfold chSimplifySt
    simp only [hsimp, ↓reduceIte]
    have hfields := scSimpFe_fields s.fe.constraints s.fe
    have hcsat := scSimpFe_cachedSat s.fe.constraints s.fe
    have e_cons : (scSimpFe s.fe.constraints s.fe).constraints = s.fe.constraints := by rw [hfields]
    have e_toadd : (scSimpFe s.fe.constraints s.fe).toAdd = s.fe.toAdd := by rw [hfields]
    have e_sol : (scSimpFe s.fe.constraints s.fe).solver = s.fe.solver := by rw [hfields]
    have e_track : (scSimpFe s.fe.constraints s.fe).track = s.fe.track := by rw [hfields]
    have e_hash : (scSimpFe s.fe.constraints s.fe).hashes = s.fe.hashes := by rw [hfields]
    have e_wo : (scSimpFe s.fe.constraints s.fe).woAnnot = s.fe.woAnnot := by rw [hfields]
    have e_var : (scSimpFe s.fe.constraints s.fe).variables = s.fe.variables := by rw [hfields]
    have e_fin : (scSimpFe s.fe.constraints s.fe).finalized = s.fe.finalized := by rw [hfields]
    have e_mod : (scSimpFe s.fe.constraints s.fe).models = s.fe.models := by rw [hfields]
    refine ⟨⟨⟨⟨?_, ?_, h.base.core.noReuse⟩, ?_, ⟨?_, ?_⟩, ?_, ?_, ?_⟩, ?_, ?_⟩, ⟨?_, ?_⟩⟩
    · intro a ha
      show holdsAll (scSimpFe s.fe.constraints s.fe).toAdd a = true
      rw [e_toadd]
      have ha' : holdsAll (scSimpFe s.fe.constraints s.fe).constraints a = true := ha
      rw [e_cons] at ha'
      exact h.base.core.toAdd_sub a ha'
    · intro r hr
      have hr' : (scSimpFe s.fe.constraints s.fe).solver = some r := hr
      rw [e_sol] at hr'
      obtain ⟨hlt, hf, hsem⟩ := h.base.core.obj r hr'
      refine ⟨hlt, hf, fun a => ?_⟩
      show (SatBy (objAt s r).asserted a ∧ holdsAll (scSimpFe s.fe.constraints s.fe).toAdd a = true) ↔
        holdsAll (scSimpFe s.fe.constraints s.fe).constraints a = true
      rw [e_toadd, e_cons]; exact hsem a
    · intro a; show holdsAll (scSimpFe s.fe.constraints s.fe).constraints a = _; rw [e_cons]; exact h.base.equiv a
    · intro c hc
      have : c ∈ (scSimpFe s.fe.constraints s.fe).constraints := hc
      rw [e_cons] at this; exact h.base.dinv.consR c this
    · intro c hc hi
      have hi' : c.id ∈ listUnion (scSimpFe s.fe.constraints s.fe).hashes (s.fe.constraints.map (·.id)) ∨
          c.id ∈ (scSimpFe s.fe.constraints s.fe).woAnnot := hi
      rw [e_hash, e_wo] at hi'
      exact seen_union hR h.base.dinv s.fe.constraints h.base.dinv.consR h.base.equiv c hc hi'
    · intro c hc v hv
      have hc' : c ∈ (scSimpFe s.fe.constraints s.fe).constraints := hc
      rw [e_cons] at hc'
      show v ∈ (scSimpFe s.fe.constraints s.fe).variables
      rw [e_var]; exact h.base.vars c hc' v hv
    · obtain ⟨s0, hg, hw⟩ := h.base.ghost
      exact ⟨s0, hg, hw.trans (WStep.of_fe rfl rfl e_sol e_fin)⟩
    · intro ht r hr z hz
      have ht' : (scSimpFe s.fe.constraints s.fe).track = true := ht
      have hr' : (scSimpFe s.fe.constraints s.fe).solver = some r := hr
      rw [e_track] at ht'
      rw [e_sol] at hr'
      exact h.base.areg ht' r hr' z hz
    · exact h.mc.of_fields e_mod (by rw [hfields]) (by rw [hfields]) (by rw [hfields]) (by rw [hfields]) (by rw [hfields])
    · show SCInv U { scSimpFe s.fe.constraints s.fe with hashes := _ }
      unfold SCInv
      show ((scSimpFe s.fe.constraints s.fe).cachedSat = some true → _) ∧
        ((scSimpFe s.fe.constraints s.fe).cachedSat = some false → _)
      rw [hcsat]
      by_cases hF : (!s.fe.constraints.isEmpty && s.fe.constraints.any (·.isFalse)) = true
      · rw [if_pos hF]
        exact ⟨fun hc => by simp at hc, fun _ => unsat_of_false_among hR h.base.dinv.consR h.base.equiv hF⟩
      · rw [if_neg hF]; exact h.sc
    · intro v hv; show v ∈ (scSimpFe s.fe.constraints s.fe).variables; rw [e_var]; exact hv
    · intro _ m hm; show m ∈ (scSimpFe s.fe.constraints s.fe).models; rw [e_mod]; exact hm

theorem cL4_simplify_spec (hR : Reg R E) (hS : SimpOn R E) (hV : SimpVars R E) (self : Ops) :
    SimplifySpec R RE E G (cL4 E self).simplify := by
  intro U s h
  obtain ⟨h1, h2⟩ := chSimplify_spec hR hS hV s h
  exact ⟨_, _, cL4_simplify E self s, h1, h2⟩

/-! ### queries -/

section
variable (H : SolverHyps R RE E)
include H

theorem cL4_sat_spec {self : Ops} (hh : self.modelHook = mcHook) (extra : List Con) :
    SatSpec R RE E G U extra ((cL4 E self).satisfiable extra) := by
  have h0 : SatSpec R RE E G U extra ((cL0 E self).satisfiable extra) :=
    full_satisfiable_spec (self := self) (sup := constrainedLayer E self frontendBase) H.oracle H.reg H.zid hh extra
  have h1 : SatSpec R RE E G U extra ((cL2 E self).satisfiable extra) :=
    mc_satisfiable_spec (self := self) (sup := cL0 E self) extra h0
  exact satCache_satisfiable_spec (self := self) (sup := cL2 E self) extra h1

theorem cL1_batchEval_spec {self : Ops} (hh : self.modelHook = mcHook) (asts : List Exp) (hre : ∀ e ∈ asts, RE e) (n : Nat)
    (hn : 1 ≤ n) (extra : List Con) : BatchSpec R RE E G U asts n extra ((cL2 E self).batchEval asts n extra) := by
  have h0 : ∀ n' extra', 1 ≤ n' → BatchSpec R RE E G U asts n' extra' ((cL0 E self).batchEval asts n' extra') :=
    fun n' extra' hn' => full_batchEval_spec (self := self) (sup := constrainedLayer E self frontendBase) H.oracle H.reg H.zid
      H.evalComplete H.expReg hh asts n' hn' extra'
  exact mc_batchEval_spec (sup := cL0 E self) H.pick H.expReg asts hre n hn extra h0

theorem cL4_batchEval_spec {self : Ops} (hh : self.modelHook = mcHook) (asts : List Exp) (hre : ∀ e ∈ asts, RE e) (n : Nat)
    (hn : 1 ≤ n) (extra : List Con) : BatchSpec R RE E G U asts n extra ((cL4 E self).batchEval asts n extra) :=
  satCache_batchEval_spec (self := self) (sup := cL2 E self) asts n extra (cL1_batchEval_spec H hh asts hre n hn extra)

theorem cL4_eval_spec {self : Ops} (hh : self.modelHook = mcHook) (e : Exp) (he : RE e) (hc : e.conc = none) (n : Nat)
    (hn : 1 ≤ n) (extra : List Con) : EvalSpec R RE E G U e n extra ((cL4 E self).eval e n extra) := by
  have h0 : ∀ n' extra', 1 ≤ n' → BatchSpec R RE E G U [e] n' extra' ((cL0 E self).batchEval [e] n' extra') :=
    fun n' extra' hn' => full_batchEval_spec (self := self) (sup := constrainedLayer E self frontendBase) H.oracle H.reg H.zid
      H.evalComplete H.expReg hh [e] n' hn' extra'
  have h1 : EvalSpec R RE E G U e n extra ((cL2 E self).eval e n extra) :=
    mc_eval_spec (self := self) (sup := cL0 E self) H.pick H.expReg e he hc n hn extra h0
  exact satCache_eval_spec (self := self) (sup := cL2 E self) e hc n extra h1

/-- what `self` must provide for `min` / `max` -/
structure ChOk (R : Con → Prop) (RE : Exp → Prop) (E : Env) (G : St → Prop) (o : Ops) : Prop where
  hook : o.modelHook = mcHook
  sat : ∀ (U : List Con) extra, SatSpec R RE E G U extra (o.satisfiable extra)
  eval : ∀ (U : List Con) e n extra, RE e → e.conc = none → 1 ≤ n → EvalSpec R RE E G U e n extra (o.eval e n extra)

theorem cL4_chOk {self : Ops} (hh : self.modelHook = mcHook) : ChOk R RE E G (cL4 E self) :=
  ⟨rfl, fun _ extra => cL4_sat_spec H hh extra, fun _ e n extra he hc hn => cL4_eval_spec H hh e he hc n hn extra⟩

theorem cL4_opt_spec {self : Ops} (hs : ChOk R RE E G self) (isMax : Bool) (e : Exp) (he : RE e) (hc : e.conc = none)
    (extra : List Con) (signed : Bool) :
    OptSpec R RE E G U isMax e extra signed
      (if isMax then (cL4 E self).max e extra signed else (cL4 E self).min e extra signed) := by
  have h0 : OptSpec R RE E G U isMax e extra signed
      (if isMax then (cL0 E self).max e extra signed else (cL0 E self).min e extra signed) := by
    have : (if isMax then (cL0 E self).max e extra signed else (cL0 E self).min e extra signed) =
        fullExtremum E self isMax e extra signed := by cases isMax <;> rfl
    rw [this]
    exact full_extremum_spec H.oracle H.reg H.zid H.evalComplete H.expReg hs.hook isMax e he hc extra signed (hs.sat U extra)
      (hs.eval U e 2 extra he hc (by omega))
  have h1 : OptSpec R RE E G U isMax e extra signed
      (if isMax then (cL2 E self).max e extra signed else (cL2 E self).min e extra signed) := by
    have : (if isMax then (cL2 E self).max e extra signed else (cL2 E self).min e extra signed) =
        modelCacheExtremum E (cL0 E self) isMax e extra signed := by cases isMax <;> rfl
    rw [this]
    exact mc_extremum_spec H.expReg isMax e he extra signed h0
  exact satCache_opt_spec (self := self) (sup := cL2 E self) isMax e extra signed h1

theorem cL4_solution_spec {self : Ops} (hh : self.modelHook = mcHook) (e : Exp) (hc : e.conc = none) (v : Nat)
    (hv : v < 2 ^ e.bits) (extra : List Con) : SolSpec R RE E G U e v extra ((cL4 E self).solution e v extra) := by
  have h0 : SolSpec R RE E G U e v extra ((cL0 E self).solution e v extra) :=
    full_solution_spec (self := self) (sup := constrainedLayer E self frontendBase) H.oracle H.reg H.zid hh e v hv extra
  have h1 : SolSpec R RE E G U e v extra ((cL2 E self).solution e v extra) :=
    mc_solution_spec (self := self) (sup := cL0 E self) e hc v extra h0
  exact satCache_solution_spec (self := self) (sup := cL2 E self) e v extra h1

/-- FullFrontend.is_true / is_false (no concrete handler, no filter in this class) -/
theorem cL4_truth_spec (self : Ops) (isTrue : Bool) (c : Con) (extra : List Con) (s : St) (h : SI R RE E G U s) :
    match (if isTrue then (cL4 E self).isTrue c extra else (cL4 E self).isFalse c extra) s with
    | (.ok b, s') => (b = true → ∀ a, Models (U ++ extra) a → c.sem a = isTrue) ∧ SI R RE E G U s'
    | (.error err, s') => ErrOk E (U ++ extra) err ∧ SI R RE E G U s' := by
  have hrun : (if isTrue then (cL4 E self).isTrue c extra else (cL4 E self).isFalse c extra) s =
      (do let _ ← getSolver
          let s ← M.get
          M.modify fun s => { s with tick := s.tick + 1 }
          pure (E.truth isTrue c s.tick) : M Bool) s := by
    cases isTrue <;> rfl
  rw [hrun]
  simp only [bind, M.bind]
  have hgsT := getSolverG_spec H.zid s h.base.core h.base.dinv.consR h.base.areg
  rcases hg : getSolver s with ⟨res, s1⟩
  rw [hg] at hgsT
  cases res with
  | error err => exact absurd hgsT id
  | ok r =>
    have hgs := hgsT.toGotSolver
    simp only [M.get_apply, M.modify_apply, pure, M.pure]
    have hst : ObjStep r s1 { s1 with tick := s1.tick + 1 } := ⟨rfl, fun _ _ => rfl, rfl, rfl⟩
    obtain ⟨h2, _⟩ := si_after_query h hgsT hst rfl (hookP_start h hgs)
    refine ⟨fun hb a _ => ?_, h2⟩
    cases isTrue
    · exact H.cheap.2.2 c _ hb a
    · exact H.cheap.2.1 c _ hb a

end

end Claripy.Solver
