import ClaripyProofs.Lemmas.Solver.Strings
/-!
SolverStrings, whole histories over trees of branched solvers (bit-vector alphabets; untracked, `reuse_z3_solver` off):
the same world invariant `TInv` as SolverCacheless.
-/
namespace Claripy.Solver

theorem publicAdd_strings (E : Env) (cs : List Con) (s : St) :
    publicAdd (stStage E 4) cs true s = (.ok (stAddSt E (stStage E 3) cs s).1, (stAddSt E (stStage E 3) cs s).2) := by
  unfold publicAdd
  by_cases h : cs.isEmpty = true
  · simp [h, stAddSt, pure, M.pure]
  · simp only [h, Bool.false_eq_true, ↓reduceIte]
    exact stStage_add E 3 cs true s

/-- `Frontend.branch` of this class -/
def branchSt (E : Env) : M Frontend := do let fe ← M.getFe; (stStage E 4).copy ((stStage E 4).blankCopy fe {})

theorem branchSt_spec (E : Env) (s : St) :
    ∃ c, branchSt E s = (.ok c, { s with fe := { s.fe with finalized := true } }) ∧
      c.constraints = s.fe.constraints ∧ c.toAdd = s.fe.toAdd ∧ c.solver = s.fe.solver ∧ c.track = s.fe.track ∧
      c.hashes = s.fe.hashes ∧ c.woAnnot = s.fe.woAnnot ∧ c.finalized = true :=
  ⟨_, rfl, rfl, rfl, rfl, rfl, rfl, rfl, rfl⟩

section
variable {E : Env} {R : Con → Prop} (hR : Reg R E) (hE : OracleExact E) (hS : SimpOn R E) (hT : CheapSound E)
include hR hE hS hT

theorem st_step_nb (w : World) (Us : List (List Con)) (hw : TInv R Us w) (i : Nat) (hi : i < w.fes.length)
    (op : Op) (hop : InScope R op) (hnb : op ≠ .branch) :
    JudgeOrGiveUp E (usersAfter (Us.getD i []) op) op (step E .SolverStrings w i op).1 ∧
    TInv R (usersAll Us i op) (step E .SolverStrings w i op).2 := by
  have hs3 := stStage_ok E 3
  have hs2 := stStage_ok E 2
  obtain ⟨h0, hd⟩ := hw.each i hi
  have hUs : Us.set i (Us.getD i []) = Us := set_getD_self Us i [] (by rw [hw.len]; exact hi)
  have query : ∀ {s' : St}, CLInv (· = stOfI w i) (Us.getD i []) s' → TInv R Us (wOfI w i s') := by
    intro s' h'
    obtain ⟨h1, hq⟩ := h'.unmark
    have := tinv_step hw hi hq.toW (U' := Us.getD i []) ⟨h1, hd.qstep hq⟩
    rwa [hUs] at this
  cases op with
  | add cs =>
    show JudgeOrGiveUp E (Us.getD i [] ++ cs) _ (outOf _ (runOn w i (publicAdd (classOps E .SolverStrings) cs))).1 ∧
         TInv R (Us.set i (Us.getD i [] ++ cs)) (outOf _ (runOn w i (publicAdd (classOps E .SolverStrings) cs))).2
    rw [classOps_strings, runOn_eq, publicAdd_strings]
    obtain ⟨h1, h2, hm⟩ := stAdd_spec hR hs3 (Us.getD i []) (stOfI w i) h0 hd cs hop
    exact ⟨Or.inl trivial, tinv_step hw hi hm.toW ⟨h1, h2⟩⟩
  | satisfiable extra =>
    show JudgeOrGiveUp E (Us.getD i []) _ (outOf .bool (runOn w i ((classOps E .SolverStrings).satisfiable extra))).1 ∧
         TInv R Us (outOf .bool (runOn w i ((classOps E .SolverStrings).satisfiable extra))).2
    rw [classOps_strings, stStage_satisfiable, runOn_eq]
    have hspec := clSat_spec hE hs3 (Us.getD i []) (stOfI w i) h0.mark extra hop
    generalize clSat E (stStage E 3) extra (stOfI w i) = res at hspec ⊢
    obtain ⟨r, s'⟩ := res
    cases r with
    | ok b => exact ⟨Or.inl hspec.1, query hspec.2⟩
    | error e => exact ⟨Or.inr ⟨e, rfl, hspec.1⟩, query hspec.2⟩
  | eval e n extra =>
    show JudgeOrGiveUp E (Us.getD i []) _ (outOf .vals (runOn w i ((classOps E .SolverStrings).eval e n extra))).1 ∧
         TInv R Us (outOf .vals (runOn w i ((classOps E .SolverStrings).eval e n extra))).2
    rw [classOps_strings, stStage_eval, runOn_eq]
    have hspec := clEval_spec hE hs3 (Us.getD i []) (stOfI w i) h0.mark e n hop.2.1 extra hop.2.2
    generalize clEval E (stStage E 3) e n extra (stOfI w i) = res at hspec ⊢
    obtain ⟨r, s'⟩ := res
    cases r with
    | ok vs => exact ⟨Or.inl hspec.1, query hspec.2⟩
    | error err =>
      refine ⟨?_, query hspec.2⟩
      rcases hspec.1 with ⟨rfl, hns⟩ | hg
      · exact Or.inl hns
      · exact Or.inr ⟨err, rfl, hg⟩
  | batchEval es n extra => exact hop.elim
  | min e extra signed =>
    show JudgeOrGiveUp E (Us.getD i []) _ (outOf .int (runOn w i ((classOps E .SolverStrings).min e extra signed))).1 ∧
         TInv R Us (outOf .int (runOn w i ((classOps E .SolverStrings).min e extra signed))).2
    rw [classOps_strings, stStage_min, runOn_eq]
    dsimp only
    have hspec := clExtremum_spec hE hs3 hs2 (stStage_satisfiable E 2) (stStage_eval E 2) (Us.getD i []) (stOfI w i) h0.mark
      false e hop.1 extra hop.2 signed
    generalize clExtremum E (stStage E 3) false e extra signed (stOfI w i) = res at hspec ⊢
    obtain ⟨r, s'⟩ := res
    cases r with
    | ok v => exact ⟨Or.inl hspec.1, query hspec.2⟩
    | error err =>
      refine ⟨?_, query hspec.2⟩
      rcases hspec.1 with ⟨rfl, hns⟩ | hg
      · exact Or.inl hns
      · exact Or.inr ⟨err, rfl, hg⟩
  | max e extra signed =>
    show JudgeOrGiveUp E (Us.getD i []) _ (outOf .int (runOn w i ((classOps E .SolverStrings).max e extra signed))).1 ∧
         TInv R Us (outOf .int (runOn w i ((classOps E .SolverStrings).max e extra signed))).2
    rw [classOps_strings, stStage_max, runOn_eq]
    dsimp only
    have hspec := clExtremum_spec hE hs3 hs2 (stStage_satisfiable E 2) (stStage_eval E 2) (Us.getD i []) (stOfI w i) h0.mark
      true e hop.1 extra hop.2 signed
    generalize clExtremum E (stStage E 3) true e extra signed (stOfI w i) = res at hspec ⊢
    obtain ⟨r, s'⟩ := res
    cases r with
    | ok v => exact ⟨Or.inl hspec.1, query hspec.2⟩
    | error err =>
      refine ⟨?_, query hspec.2⟩
      rcases hspec.1 with ⟨rfl, hns⟩ | hg
      · exact Or.inl hns
      · exact Or.inr ⟨err, rfl, hg⟩
  | solution e v extra =>
    show JudgeOrGiveUp E (Us.getD i []) _ (outOf .bool (runOn w i ((classOps E .SolverStrings).solution e v extra))).1 ∧
         TInv R Us (outOf .bool (runOn w i ((classOps E .SolverStrings).solution e v extra))).2
    rw [classOps_strings, stStage_solution, runOn_eq]
    have hspec := clSolution_spec hE hs3 (Us.getD i []) (stOfI w i) h0.mark e v hop.1 extra hop.2
    generalize clSolution E (stStage E 3) e v extra (stOfI w i) = res at hspec ⊢
    obtain ⟨r, s'⟩ := res
    cases r with
    | ok b => exact ⟨Or.inl hspec.1, query hspec.2⟩
    | error err =>
      refine ⟨?_, query hspec.2⟩
      rcases hspec.1 with ⟨rfl, hns⟩ | hg
      · exact Or.inl hns
      · exact Or.inr ⟨err, rfl, hg⟩
  | isTrue c extra =>
    show JudgeOrGiveUp E (Us.getD i []) _ (outOf .bool (runOn w i ((classOps E .SolverStrings).isTrue c extra))).1 ∧
         TInv R Us (outOf .bool (runOn w i ((classOps E .SolverStrings).isTrue c extra))).2
    rw [classOps_strings, stStage_isTrue, runOn_eq]
    have hspec := clTruth_spec hT hs3 (Us.getD i []) (stOfI w i) h0.mark true c hop.1 extra hop.2
    generalize clTruth E (stStage E 3) true c extra (stOfI w i) = res at hspec ⊢
    obtain ⟨r, s'⟩ := res
    cases r with
    | ok b => exact ⟨Or.inl hspec.1, query hspec.2⟩
    | error err =>
      refine ⟨?_, query hspec.2⟩
      rcases hspec.1 with ⟨rfl, hns⟩ | hg
      · exact Or.inl hns
      · exact Or.inr ⟨err, rfl, hg⟩
  | isFalse c extra =>
    show JudgeOrGiveUp E (Us.getD i []) _ (outOf .bool (runOn w i ((classOps E .SolverStrings).isFalse c extra))).1 ∧
         TInv R Us (outOf .bool (runOn w i ((classOps E .SolverStrings).isFalse c extra))).2
    rw [classOps_strings, stStage_isFalse, runOn_eq]
    have hspec := clTruth_spec hT hs3 (Us.getD i []) (stOfI w i) h0.mark false c hop.1 extra hop.2
    generalize clTruth E (stStage E 3) false c extra (stOfI w i) = res at hspec ⊢
    obtain ⟨r, s'⟩ := res
    cases r with
    | ok b => exact ⟨Or.inl hspec.1, query hspec.2⟩
    | error err =>
      refine ⟨?_, query hspec.2⟩
      rcases hspec.1 with ⟨rfl, hns⟩ | hg
      · exact Or.inl hns
      · exact Or.inr ⟨err, rfl, hg⟩
  | unsatCore extra => exact hop.elim
  | simplify =>
    show JudgeOrGiveUp E (Us.getD i []) _ (outOf _ (runOn w i (classOps E .SolverStrings).simplify)).1 ∧
         TInv R Us (outOf _ (runOn w i (classOps E .SolverStrings).simplify)).2
    rw [classOps_strings, runOn_eq, stStage_simplify]
    obtain ⟨h1, h2⟩ := stSimplify_spec hR hS (Us.getD i []) (stOfI w i) h0 hd
    have := tinv_step hw hi (stSimplify_mstep E (stOfI w i)).toW (U' := Us.getD i []) ⟨h1, h2⟩
    rw [hUs] at this
    exact ⟨Or.inl trivial, this⟩
  | downsize =>
    show JudgeOrGiveUp E (Us.getD i []) _ (outOf _ (runOn w i (classOps E .SolverStrings).downsize)).1 ∧
         TInv R Us (outOf _ (runOn w i (classOps E .SolverStrings).downsize)).2
    rw [classOps_strings, runOn_eq, stStage_downsize]
    obtain ⟨h1, h2⟩ := clDownsize_spec (R := R) (Us.getD i []) (stOfI w i) h0 hd
    have := tinv_step hw hi (clDownsize_mstep (stOfI w i)).toW (U' := Us.getD i []) ⟨h1, h2⟩
    rw [hUs] at this
    exact ⟨Or.inl trivial, this⟩
  | branch => exact (hnb rfl).elim
  | pickle => exact hop.elim

omit hR hE hS hT in
theorem st_step_branch (w : World) (Us : List (List Con)) (hw : TInv R Us w) (i : Nat) (hi : i < w.fes.length) :
    (step E .SolverStrings w i .branch).1 = .newSolver w.fes.length ∧
    TInv R (Us ++ [Us.getD i []]) (step E .SolverStrings w i .branch).2 := by
  obtain ⟨c, hrun, hcons, htoadd, hsol, htrack, hhash, hwo, hcfin⟩ := branchSt_spec E (stOfI w i)
  have hstep : step E .SolverStrings w i .branch =
      (match runOn w i (branchSt E) with
       | (.ok c, w') => (.newSolver w'.fes.length, { w' with fes := w'.fes ++ [c] })
       | (.error e, w') => (.err e, w')) := rfl
  rw [hstep, runOn_eq, hrun]
  simp only
  have hf1 : FInv R (Us.getD i []) { stOfI w i with fe := { (stOfI w i).fe with finalized := true } } :=
    (hw.each i hi).transfer rfl rfl rfl rfl rfl rfl rfl (fun r hr => ⟨hw.solver_lt hi hr, rfl⟩)
  have hws : WStep (stOfI w i) { stOfI w i with fe := { (stOfI w i).fe with finalized := true } } :=
    ⟨Nat.le_refl _, Or.inl rfl, fun _ _ _ => rfl, rfl, fun _ => rfl⟩
  have hw1 := tinv_step hw hi hws hf1
  rw [set_getD_self Us i [] (by rw [hw.len]; exact hi)] at hw1
  have hlen1 : (wOfI w i { stOfI w i with fe := { (stOfI w i).fe with finalized := true } }).fes.length = w.fes.length := by
    simp [wOfI]
  have hi1 : i < (wOfI w i { stOfI w i with fe := { (stOfI w i).fe with finalized := true } }).fes.length := by
    rw [hlen1]; exact hi
  have hfe1 : (wOfI w i { stOfI w i with fe := { (stOfI w i).fe with finalized := true } }).fes.getD i {} =
      { (stOfI w i).fe with finalized := true } := by
    simp only [wOfI]; exact getD_set_self _ _ _ _ hi
  refine ⟨by rw [hlen1], ?_⟩
  exact tinv_append hw1 hi1 (by rw [hfe1]) c (by rw [hfe1]; exact hcons) (by rw [hfe1]; exact htoadd)
    (by rw [hfe1]; exact hsol) (by rw [hfe1]; exact htrack) (by rw [hfe1]; exact hhash) (by rw [hfe1]; exact hwo) hcfin

theorem st_step (w : World) (Us : List (List Con)) (hw : TInv R Us w) (i : Nat) (hi : i < w.fes.length)
    (op : Op) (hop : InScope R op) :
    JudgeOrGiveUp E (usersAfter (Us.getD i []) op) op (step E .SolverStrings w i op).1 ∧
    TInv R (usersAll Us i op) (step E .SolverStrings w i op).2 := by
  by_cases hb : op = .branch
  · subst hb
    obtain ⟨h1, h2⟩ := st_step_branch (E := E) w Us hw i hi
    refine ⟨Or.inl ?_, h2⟩
    rw [h1]
    trivial
  · exact st_step_nb hR hE hS hT w Us hw i hi op hop hb

theorem st_hist_giveup (hist : List (Nat × Op)) : ∀ (w : World) (Us : List (List Con)), TInv R Us w →
    HistOk R w.fes.length hist →
    ∀ x ∈ runHist E .SolverStrings w Us hist, JudgeOrGiveUp E x.1 x.2.1 x.2.2 := by
  induction hist with
  | nil => intro w Us _ _ x hx; simp [runHist] at hx
  | cons io rest ih =>
    obtain ⟨i, op⟩ := io
    intro w Us hw hok x hx
    obtain ⟨hi, hop, hrest⟩ := hok
    obtain ⟨hj, hw'⟩ := st_step hR hE hS hT w Us hw i hi op hop
    have hcons : runHist E .SolverStrings w Us ((i, op) :: rest) =
        (usersAfter (Us.getD i []) op, op, (step E .SolverStrings w i op).1) ::
          runHist E .SolverStrings (step E .SolverStrings w i op).2 (usersAll Us i op) rest := by
      cases op <;> rfl
    rw [hcons] at hx
    rcases List.mem_cons.mp hx with rfl | hx
    · exact hj
    · refine ih _ _ hw' ?_ x hx
      have hl := hw'.len
      rw [usersAll_length, hw.len] at hl
      rw [← hl]
      exact hrest

theorem st_hist (hist : List (Nat × Op)) (w : World) (Us : List (List Con)) (hw : TInv R Us w)
    (hok : HistOk R w.fes.length hist) :
    ∀ x ∈ runHist E .SolverStrings w Us hist, x.2.2 ≠ .err .giveUp → Judge x.1 x.2.1 x.2.2 := by
  intro x hx hne
  rcases st_hist_giveup hR hE hS hT hist w Us hw hok x hx with h | hg
  · exact h
  · exact (hne hg.eq).elim

end

end Claripy.Solver
