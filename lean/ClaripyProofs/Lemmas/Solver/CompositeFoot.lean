import ClaripyProofs.Lemmas.Solver.CompositeSat
/-!
The footprint of the class SolverCompositeChild (`ChildFoot`): its queries leave `variables` and `constraints` alone and cache
only models over `variables`; `add` keeps the cached models within the variables.
The L1 algorithms change the record through `_model_hook` only (generic `L1Step.fe` of L1.lean with a predicate of our own);
each mixin above writes fields of its own.
-/
namespace Claripy.Solver

variable {R : Con → Prop} {RE : Exp → Prop} {E : Env}

/-- same cached models, variables and constraints -/
def MV (fe fe' : Frontend) : Prop :=
  fe'.models = fe.models ∧ fe'.variables = fe.variables ∧ fe'.constraints = fe.constraints

theorem FootQ.refl (s : St) : FootQ s s := ⟨rfl, rfl, id⟩

theorem FootQ.trans {s s' s'' : St} (h1 : FootQ s s') (h2 : FootQ s' s'') : FootQ s s'' :=
  ⟨h2.1.trans h1.1, h2.2.1.trans h1.2.1, fun h => h2.2.2 (h1.2.2 h)⟩

theorem FootQ.of_mv {s s' : St} (h : MV s.fe s'.fe) : FootQ s s' :=
  ⟨h.2.1, h.2.2, fun hk => keysInv_congr h.1 h.2.1 hk⟩

theorem mem_restrict {m : PModel} {vars : List Var} {kv : Var × Nat} (h : kv ∈ m.restrict vars) : kv.1 ∈ vars := by
  unfold PModel.restrict at h
  have := (List.mem_filter.mp h).2
  simpa using this

theorem keysInv_mcHookFe (m : PModel) (hd : m.Sorted) (fe : Frontend) (h : KeysInv fe) : KeysInv (mcHookFe m fe) := by
  unfold mcHookFe
  split
  · exact h
  · intro m' hm'
    rcases (mem_listInsert _ _ _).mp hm' with hm' | rfl
    · exact h m' hm'
    · exact ⟨fun kv hkv => mem_restrict hkv, PModel.sorted_restrict hd _⟩

/-- what `_model_hook` preserves during a query that started with the record `fe0` -/
def FootP (fe0 fe : Frontend) : Prop := noModels fe = noModels fe0 ∧ (KeysInv fe0 → KeysInv fe)

theorem FootP.refl (fe0 : Frontend) : FootP fe0 fe0 := ⟨rfl, id⟩

theorem FootP.footQ {s s' : St} (h : FootP s.fe s'.fe) : FootQ s s' := by
  have h1 := congrArg Frontend.variables h.1
  have h2 := congrArg Frontend.constraints h.1
  exact ⟨h1, h2, h.2⟩

theorem hookOk_foot (fe0 : Frontend) : HookOk mcHook [] (FootP fe0) := by
  refine ⟨fun m s => ⟨_, mcHook_apply m s⟩, fun m s hp _ hd => ?_⟩
  rw [mcHook_apply]
  exact ⟨by rw [noModels_mcHookFe]; exact hp.1, fun hk => keysInv_mcHookFe m hd s.fe (hp.2 hk)⟩

section
variable (H : SolverHyps R RE E)
include H

/-- after `_get_solver` the record differs in `_tls.solver` / `_to_add` only -/
theorem getSolver_foot {G : St → Prop} {U : List Con} (s : St) (h : SI R RE E G U s) :
    match getSolver s with
    | (.ok r, s1) => GotSolver s s1 r ∧ FootQ s s1 ∧ FootP s1.fe s1.fe
    | (.error _, _) => False := by
  have hgsT := getSolverG_spec H.zid s h.base.core h.base.dinv.consR h.base.areg
  revert hgsT
  generalize getSolver s = res
  obtain ⟨r, s1⟩ := res
  cases r with
  | error e => exact id
  | ok r =>
    intro hg
    have hfe := hg.toGotSolver.fe
    exact ⟨hg.toGotSolver, ⟨by rw [hfe], by rw [hfe], fun hk => keysInv_congr (by rw [hfe]) (by rw [hfe]) hk⟩, FootP.refl _⟩

/-- FullFrontend.batch_eval -/
theorem full_batchEval_foot {G : St → Prop} {U : List Con} {self sup : Ops} (hmh : self.modelHook = mcHook)
    (es : List Exp) (n : Nat) (extra : List Con) (s : St) (h : SI R RE E G U s) :
    FootQ s ((fullLayer E self sup).batchEval es n extra s).2 := by
  show FootQ s ((do
      let r ← getSolver
      let res ← z3BatchEval E r es n (extra.map ZCon.ofCon) self.modelHook
      if res.isEmpty then M.throw .unsat else pure res : M (List (List Nat))) s).2
  rw [hmh]
  simp only [bind, M.bind]
  have hg := getSolver_foot H s h
  revert hg
  generalize getSolver s = res
  obtain ⟨r, s1⟩ := res
  cases r with
  | error e => exact fun hg => hg.elim
  | ok r =>
    rintro ⟨hgs, hf1, hp1⟩
    dsimp only
    have hl := z3BatchEval_spec H.oracle (hookOk_foot s1.fe) r es n (extra.map ZCon.ofCon) s1 hgs.lt
      (by obtain ⟨f, hf⟩ := hgs.frames; rw [hf]; simp) (fun _ hc => by cases hc)
    revert hl
    generalize z3BatchEval E r es n (extra.map ZCon.ofCon) mcHook s1 = res2
    obtain ⟨r2, s2⟩ := res2
    cases r2 with
    | error e => exact fun hl => hf1.trans (hl.2.1.fe hp1).footQ
    | ok ts =>
      intro hl
      have hf2 : FootQ s1 s2 := (hl.2.2.2.2.1.fe hp1).footQ
      dsimp only
      split
      · exact hf1.trans hf2
      · exact hf1.trans hf2

/-- FullFrontend.satisfiable (also the backend path of `check_satisfiability`) -/
theorem full_satisfiable_foot {G : St → Prop} {U : List Con} (extra : List Con) (s : St) (h : SI R RE E G U s) :
    FootQ s ((do let r ← getSolver; z3Satisfiable E r (extra.map ZCon.ofCon) mcHook : M Bool) s).2 := by
  simp only [bind, M.bind]
  have hg := getSolver_foot H s h
  revert hg
  generalize getSolver s = res
  obtain ⟨r, s1⟩ := res
  cases r with
  | error e => exact fun hg => hg.elim
  | ok r =>
    rintro ⟨hgs, hf1, hp1⟩
    dsimp only
    have hl := z3Satisfiable_spec H.oracle (hookOk_foot s1.fe) r (extra.map ZCon.ofCon) s1 (fun _ hc => by cases hc)
    revert hl
    generalize z3Satisfiable E r (extra.map ZCon.ofCon) mcHook s1 = res2
    obtain ⟨r2, s2⟩ := res2
    cases r2 with
    | error e => exact fun hl => hf1.trans (hl.2.1.fe hp1).footQ
    | ok b => exact fun hl => hf1.trans (hl.2.1.fe hp1).footQ

omit H in
theorem MV.refl (fe : Frontend) : MV fe fe := ⟨rfl, rfl, rfl⟩

omit H in
theorem evalExh_fold_mv (asts : List Exp) : ∀ fe : Frontend,
    MV fe (asts.foldl (fun fe e => if subsetB e.vars fe.variables then { fe with evalExh := listInsert fe.evalExh e.id } else fe) fe) := by
  induction asts with
  | nil => intro fe; exact MV.refl fe
  | cons e es ih =>
    intro fe
    simp only [List.foldl_cons]
    split
    · exact ih _
    · exact ih _

/-! a small calculus: computations that have the footprint from EVERY state -/

omit H in
/-- `m` has the footprint whatever the state -/
def TrQ {α : Type} (m : M α) : Prop := ∀ s, FootQ s (m s).2

omit H in
theorem trQ_pure {α : Type} (a : α) : TrQ (pure a : M α) := fun s => FootQ.refl s
omit H in
theorem trQ_throw {α : Type} (e : Err) : TrQ (M.throw e : M α) := fun s => FootQ.refl s
omit H in
theorem trQ_getFe : TrQ M.getFe := fun s => FootQ.refl s
omit H in
theorem trQ_modifyFe (f : Frontend → Frontend) (hf : ∀ fe, MV fe (f fe)) : TrQ (M.modifyFe f) :=
  fun s => FootQ.of_mv (hf s.fe)
omit H in
theorem footQ_bind {α β : Type} {m : M α} {f : α → M β} {s : St} (h1 : FootQ s (m s).2) (h2 : ∀ a, TrQ (f a)) :
    FootQ s ((m >>= f) s).2 := by
  show FootQ s (M.bind m f s).2
  unfold M.bind
  revert h1
  generalize m s = res
  obtain ⟨r, s1⟩ := res
  cases r with
  | ok a => exact fun h1 => h1.trans (h2 a s1)
  | error e => exact id
omit H in
theorem trQ_bind {α β : Type} {m : M α} {f : α → M β} (h1 : TrQ m) (h2 : ∀ a, TrQ (f a)) : TrQ (m >>= f) :=
  fun s => footQ_bind (h1 s) h2
omit H in
theorem trQ_ite {α : Type} (c : Prop) [Decidable c] {a b : M α} (ha : TrQ a) (hb : TrQ b) : TrQ (if c then a else b) := by
  split
  · exact ha
  · exact hb
omit H in
theorem footQ_tryCatch {α : Type} {m : M α} {p : Err → Bool} {hd : M α} {s : St} (h1 : FootQ s (m s).2) (h2 : TrQ hd) :
    FootQ s (M.tryCatch m p hd s).2 := by
  unfold M.tryCatch
  revert h1
  generalize m s = res
  obtain ⟨r, s1⟩ := res
  cases r with
  | ok a => exact id
  | error e =>
    intro h1
    dsimp only
    split
    · exact h1.trans (h2 s1)
    · exact h1

omit H in
theorem footQ_ite {α : Type} (c : Prop) [Decidable c] {a b : M α} {s0 s : St} (ha : FootQ s0 (a s).2) (hb : FootQ s0 (b s).2) :
    FootQ s0 ((if c then a else b) s).2 := by
  split
  · exact ha
  · exact hb

/-- a query under the invariant has the footprint -/
def FootSpec (R : Con → Prop) (RE : Exp → Prop) (E : Env) (G : St → Prop) (U : List Con) {α : Type} (m : M α) : Prop :=
  ∀ s, SI R RE E G U s → FootQ s (m s).2

/-- ModelCacheMixin.batch_eval -/
theorem mc_batchEval_foot {G : St → Prop} {U : List Con} {sup : Ops} (asts : List Exp) (n : Nat) (extra : List Con)
    (hsup : ∀ n' extra', FootSpec R RE E G U (sup.batchEval asts n' extra')) :
    FootSpec R RE E G U (modelCacheBatchEval E sup asts n extra) := by
  intro s h
  obtain ⟨chosen, hrun, _⟩ := getBatchSolutions_spec H.pick asts n extra s
  have h1 : SI R RE E G U { s with tick := s.tick + 1 } := h.set_tick _
  have hf1 : FootQ s { s with tick := s.tick + 1 } := FootQ.of_mv (MV.refl _)
  unfold modelCacheBatchEval
  simp only [bind, M.bind, hrun, M.getFe_apply]
  refine hf1.trans ?_
  refine footQ_ite _ (FootQ.refl _) ?_
  have hs := hsup (n - chosen.length) (if (!chosen.isEmpty) = true then blockAllCon asts chosen :: extra else extra) _ h1
  have ht := footQ_tryCatch (p := (· == Err.unsat)) (hd := (if chosen.isEmpty then M.throw .unsat else pure [] : M (List (List Nat))))
    hs (trQ_ite _ (trQ_throw _) (trQ_pure _))
  exact footQ_bind ht fun more => trQ_ite _
    (trQ_bind (trQ_modifyFe _ (evalExh_fold_mv asts)) fun _ => trQ_pure _) (trQ_pure _)

omit H in
/-- the shape of SatCacheMixin.eval / batch_eval / … -/
theorem satCacheQuery_foot {G : St → Prop} {U : List Con} {α : Type} (m : M α) (b : Bool) (hm : FootSpec R RE E G U m) :
    FootSpec R RE E G U (satCacheQuery m b) := by
  intro s h
  unfold satCacheQuery
  simp only [bind, M.bind, M.getFe_apply]
  refine footQ_ite _ (FootQ.refl _) ?_
  refine footQ_bind (footQ_tryCatch (hm s h) ?_) fun r => trQ_bind (trQ_modifyFe _ fun _ => ⟨rfl, rfl, rfl⟩) fun _ => trQ_pure _
  exact trQ_ite _ (trQ_bind (trQ_modifyFe _ fun _ => ⟨rfl, rfl, rfl⟩) fun _ => trQ_throw _) (trQ_throw _)

/-- **`eval` of SolverCompositeChild has the footprint** -/
theorem child_eval_foot {G : St → Prop} {U : List Con} (e : Exp) (n : Nat) (extra : List Con) :
    FootSpec R RE E G U ((childOps E).eval e n extra) := by
  have h0 : ∀ n' extra', FootSpec R RE E G U ((cL0 E (chStage E 3)).batchEval [e] n' extra') :=
    fun n' extra' s h => full_batchEval_foot H (chStage_hook E 3) [e] n' extra' s h
  have h1 : FootSpec R RE E G U (modelCacheBatchEval E (cL0 E (chStage E 3)) [e] n extra) := mc_batchEval_foot H [e] n extra h0
  have h2 : FootSpec R RE E G U ((cL1 E (chStage E 3)).eval e n extra) := by
    intro s h
    show FootQ s ((do let rs ← modelCacheBatchEval E (cL0 E (chStage E 3)) [e] n extra
                      pure (rs.map fun t => t.headD 0) : M (List Nat)) s).2
    simp only [bind, M.bind]
    have := h1 s h
    revert this
    generalize modelCacheBatchEval E (cL0 E (chStage E 3)) [e] n extra s = res
    obtain ⟨r, s2⟩ := res
    cases r <;> exact id
  exact satCacheQuery_foot _ _ h2

/-- **`check_satisfiability` of SolverCompositeChild has the footprint** -/
theorem child_checkSat_foot {G : St → Prop} {U : List Con} (extra : List Con) :
    FootSpec R RE E G U (childCheckSat E extra) := by
  intro s h
  unfold childCheckSat
  simp only [bind, M.bind, M.getFe_apply]
  split
  · exact FootQ.refl s
  · split
    · exact FootQ.refl s
    · have hmh : (childOps E).modelHook = mcHook := chStage_hook E 4
      rw [hmh]
      cases hsc : checkSatShortcut s.fe extra with
      | some m =>
        simp only [M.bind, mcHook_apply, pure, M.pure]
        have hd : m.Sorted := by
          unfold checkSatShortcut at hsc
          split at hsc
          · split at hsc
            · simp only [Option.some.injEq] at hsc; subst hsc; exact PModel.sorted_single _ _
            · simp only [Option.some.injEq] at hsc; subst hsc; exact PModel.sorted_single _ _
            · cases hsc
          · cases hsc
        exact FootP.footQ (s := s) (s' := { s with fe := mcHookFe m s.fe }) ⟨by rw [noModels_mcHookFe], fun hk => keysInv_mcHookFe _ hd _ hk⟩
      | none => exact full_satisfiable_foot H extra s h

/-! ### `add` keeps the cached models within the variables -/

omit H in
theorem keysInv_trivOptFe (fe : Frontend) (hwf : ∀ c ∈ fe.constraints, ConWf c)
    (hv : ∀ c ∈ fe.constraints, ∀ v ∈ c.vars, v ∈ fe.variables) (h : KeysInv fe) : KeysInv (trivOptFe fe) := by
  unfold trivOptFe
  split
  · rename_i hc
    split
    · rename_i v x eid htr
      have hlen : fe.constraints.length = 1 := by
        simp only [Bool.and_eq_true, beq_iff_eq] at hc; exact hc.1
      obtain ⟨c, hcons⟩ : ∃ c, fe.constraints = [c] := by
        match hx : fe.constraints, hlen with
        | [c], _ => exact ⟨c, rfl⟩
      rw [hcons] at htr
      simp only [List.headD_cons] at htr
      have hcm : c ∈ fe.constraints := by rw [hcons]; simp
      have hvars := ((hwf c hcm).2.2.2 v x eid htr).1
      have hvin : v ∈ fe.variables := hv c hcm v (by rw [hvars]; simp)
      intro m hm
      rcases (mem_listInsert _ _ _).mp hm with hm | rfl
      · exact h m hm
      · refine ⟨fun kv hkv => ?_, PModel.sorted_single _ _⟩
        simp only [List.mem_singleton] at hkv
        subst hkv
        exact hvin
    · exact h
  · exact h

omit H in
theorem keysInv_reval (E : Env) (added : List Con) (fe1 : Frontend) (h1 : KeysInv fe1) :
    KeysInv (if (getModels E fe1 added).length != fe1.models.length then { clearFlags fe1 with models := getModels E fe1 added }
             else fe1) := by
  split
  · intro m hm
    exact h1 m ((mem_getModels E fe1 added m).mp hm).1
  · exact h1

omit H in
theorem keysInv_invalFe (E : Env) (cs added : List Con) (fe : Frontend) (h : KeysInv fe) : KeysInv (invalFe E cs added fe) := by
  have h1 : KeysInv (if cs.any (·.isFalse) then { fe with models := [] } else fe) := by
    split
    · intro m hm; cases hm
    · exact h
  exact keysInv_reval E added _ h1

omit H in
theorem cheapScan_trQ (E : Env) (a : Con) : ∀ l : List Con, TrQ (cheapScan E a l)
  | [] => trQ_pure _
  | c :: rest => by
    unfold cheapScan
    refine trQ_bind (fun s => FootQ.refl s) fun s0 => trQ_bind (fun s => FootQ.of_mv ⟨rfl, rfl, rfl⟩) fun _ => ?_
    exact trQ_ite _ (trQ_pure _) (cheapScan_trQ E a rest)

omit H in
theorem satCacheAddScan_trQ (E : Env) (added : List Con) : TrQ (satCacheAddScan E added) := by
  unfold satCacheAddScan
  refine trQ_ite _ (trQ_pure _) (trQ_ite _ (trQ_pure _) ?_)
  split
  · refine trQ_bind trQ_getFe fun fe => trQ_ite _ ?_ (trQ_pure _)
    refine trQ_bind (cheapScan_trQ E _ _) fun r => ?_
    cases r with
    | none => exact trQ_pure _
    | some con => exact trQ_bind (trQ_modifyFe _ fun _ => ⟨rfl, rfl, rfl⟩) fun _ => trQ_pure _
  · exact trQ_pure _

omit H in
theorem keys_bind {α β : Type} {m : M α} {f : α → M β} {s : St} (h1 : KeysInv (m s).2.fe) (h2 : ∀ a, TrQ (f a)) :
    KeysInv ((m >>= f) s).2.fe := by
  show KeysInv (M.bind m f s).2.fe
  unfold M.bind
  revert h1
  generalize m s = res
  obtain ⟨r, s1⟩ := res
  cases r with
  | ok a => exact fun h1 => (h2 a s1).2.2 h1
  | error e => exact id

/-- **`_add` of SolverCompositeChild keeps the cached models within the variables** -/
theorem cL4_add_keys {G : St → Prop} {U : List Con} (self : Ops) (cs : List Con) (hcs : ∀ c ∈ cs, R c) (inv : Bool) (s : St)
    (h : SI R RE E G U s) (hk : KeysInv s.fe) : KeysInv ((cL4 E self).add cs inv s).2.fe := by
  -- ModelCacheMixin over FullFrontend / ConstrainedFrontend
  have hmc : ∀ cs', (∀ c ∈ cs', R c) → KeysInv ((cL1 E self).add cs' inv s).2.fe := by
    intro cs' hcs'
    show KeysInv ((modelCacheLayer E self (cL0 E self)).add cs' inv s).2.fe
    rw [mcAdd_eq]
    split
    · exact hk
    · obtain ⟨new, s1, hrun, hrel, hmcf, _, _⟩ := fc_add_low E self self frontendBase s cs' inv
      have hrun' : (cL0 E self).add cs' inv s = (.ok new, s1) := hrun
      rw [hrun']
      dsimp only
      have hk1 : KeysInv s1.fe := by
        intro m hm
        rw [(mcFields_eq hmcf).1] at hm
        exact ⟨fun kv hkv => (hrel.vars kv.1).mpr (Or.inl ((hk m hm).1 kv hkv)), (hk m hm).2⟩
      split
      · exact hk1
      · have hwf : ∀ c ∈ s1.fe.constraints, ConWf c := by
          intro c hc
          rw [hrel.cons] at hc
          rcases List.mem_append.mp hc with hc | hc
          · exact H.reg.wf c (h.base.dinv.consR c hc)
          · exact H.reg.wf c (hcs' c (hrel.sub c hc))
        have hv : ∀ c ∈ s1.fe.constraints, ∀ v ∈ c.vars, v ∈ s1.fe.variables := by
          intro c hc v hvc
          rw [hrel.cons] at hc
          rcases List.mem_append.mp hc with hc | hc
          · exact (hrel.vars v).mpr (Or.inl (h.base.vars c hc v hvc))
          · exact (hrel.vars v).mpr (Or.inr ⟨c, hc, hvc⟩)
        have ht := keysInv_trivOptFe s1.fe hwf hv hk1
        show KeysInv (mcAfterAddFe E s.fe.variables cs' inv new s1.fe)
        unfold mcAfterAddFe
        split
        · exact keysInv_invalFe E cs' new _ ht
        · exact ht
  -- SimplifySkipperMixin, SatCacheMixin
  have hsk : ∀ cs', (∀ c ∈ cs', R c) → KeysInv ((cL3 E self).add cs' inv s).2.fe := by
    intro cs' hcs'
    show KeysInv ((do
        let added ← (do
          let added ← (cL1 E self).add cs' inv
          if !added.isEmpty then M.modifyFe fun fe => { fe with simplified := false }
          pure added : M (List Con))
        let foundUnsat ← satCacheAddScan E added
        if foundUnsat then M.modifyFe fun fe => { fe with cachedSat := some false }
        else M.modifyFe fun fe => if fe.cachedSat == some true then { fe with cachedSat := none } else fe
        pure added : M (List Con)) s).2.fe
    refine keys_bind (keys_bind (hmc cs' hcs') fun added => ?_) fun added => ?_
    · exact trQ_ite _ (trQ_bind (trQ_modifyFe _ fun _ => ⟨rfl, rfl, rfl⟩) fun _ => trQ_pure _) (trQ_pure _)
    · refine trQ_bind (satCacheAddScan_trQ E added) fun found => trQ_ite _
        (trQ_bind (trQ_modifyFe _ fun _ => ⟨rfl, rfl, rfl⟩) fun _ => trQ_pure _)
        (trQ_bind (trQ_modifyFe _ fun fe => ?_) fun _ => trQ_pure _)
      split
      · exact ⟨rfl, rfl, rfl⟩
      · exact MV.refl fe
  -- ConstraintDeduplicatorMixin
  show KeysInv ((do
      let fe ← M.getFe
      let filtered := cs.filter fun c => !fe.hashes.contains c.id
      if filtered.isEmpty then pure filtered
      else do
        let added ← (cL3 E self).add filtered inv
        M.modifyFe fun fe => { fe with hashes := listUnion fe.hashes (added.map (·.id)) }
        pure added : M (List Con)) s).2.fe
  simp only [bind, M.bind, M.getFe_apply]
  split
  · exact hk
  · refine keys_bind (m := (cL3 E self).add (cs.filter fun c => !s.fe.hashes.contains c.id) inv)
      (hsk _ (fun c hc => hcs c (List.mem_filter.mp hc).1)) fun added => ?_
    exact trQ_bind (trQ_modifyFe _ fun _ => ⟨rfl, rfl, rfl⟩) fun _ => trQ_pure _

/-- the public `add` -/
theorem child_add_keys {G : St → Prop} {U : List Con} (cs : List Con) (hcs : ∀ c ∈ cs, R c) (s : St)
    (h : SI R RE E G U s) (hk : KeysInv s.fe) : KeysInv (publicAdd (childOps E) cs true s).2.fe := by
  unfold publicAdd
  split
  · exact hk
  · exact cL4_add_keys H (chStage E 3) cs hcs true s h hk

/-- **the footprint of SolverCompositeChild**, as the composite's bookkeeping uses it -/
theorem childFoot : ChildFoot R RE E :=
  ⟨fun _ _ cs s hcs h hk => child_add_keys H cs hcs s h hk, fun _ _ ex s h => child_checkSat_foot H ex s h,
   fun _ _ e n ex s h => child_eval_foot H e n ex s h⟩

end

end Claripy.Solver