import ClaripyProofs.Lemmas.Solver.CachelessExtrema
/-!
`add`, `simplify`, `downsize` of SolverCacheless, and the deduplication invariant.
-/
namespace Claripy.Solver

/-- the invariant without a carried property -/
abbrev CLInv0 (U : List Con) (s : St) : Prop := CLInv (fun _ => True) U s

/-- **Registry** (hash-consing, C06): among the constraints a run can see — the user's, `false`, the simplifier's
output — equal ids mean equal meaning and equal variable sets (the id is the hash of the AST); all of them are well formed -/
structure Reg (R : Con → Prop) (E : Env) : Prop where
  faithful : ∀ c c', R c → R c' → c.id = c'.id → ∀ a, c.sem a = c'.sem a
  /-- one AST, one variable set (used by the composite: a constraint `combine` drops as a duplicate brings no new variable) -/
  varsId : ∀ c c', R c → R c' → c.id = c'.id → c.vars = c'.vars
  wf : ∀ c, R c → ConWf c
  simp_closed : ∀ cs k, (∀ c ∈ cs, R c) → ∀ c ∈ E.simp cs k, R c
  falseR : R E.falseCon
  falseSem : ∀ a, E.falseCon.sem a = false

/-- deduplication invariant: every constraint whose id was recorded (`_constraint_hashes`,
`constraints_wo_annotations`) is implied by what the user added -/
structure DInv (R : Con → Prop) (U : List Con) (s : St) : Prop where
  consR : ∀ c ∈ s.fe.constraints, R c
  seen : ∀ c, R c → (c.id ∈ s.fe.hashes ∨ c.id ∈ s.fe.woAnnot) → ∀ a, holdsAll U a = true → c.sem a = true

theorem mem_listInsert {α : Type} [BEq α] [LawfulBEq α] (l : List α) (x y : α) :
    y ∈ listInsert l x ↔ y ∈ l ∨ y = x := by
  unfold listInsert
  split
  · rename_i h
    have : x ∈ l := by simpa using h
    constructor
    · exact Or.inl
    · rintro (h | rfl) <;> assumption
  · simp

theorem mem_listUnion {α : Type} [BEq α] [LawfulBEq α] (l r : List α) (y : α) :
    y ∈ listUnion l r ↔ y ∈ l ∨ y ∈ r := by
  unfold listUnion
  induction r generalizing l with
  | nil => simp
  | cons x xs ih =>
    simp only [List.foldl_cons, ih, mem_listInsert, List.mem_cons]
    constructor
    · rintro ((h | rfl) | h)
      · exact Or.inl h
      · exact Or.inr (Or.inl rfl)
      · exact Or.inr (Or.inr h)
    · rintro (h | rfl | h)
      · exact Or.inl (Or.inl h)
      · exact Or.inl (Or.inr rfl)
      · exact Or.inr h

/-- what the `ConstrainedFrontend._add` loop does to the record -/
theorem constrainedAddLoop_spec (cs : List Con) :
    ∀ (fe : Frontend) (added : List Con),
      ∃ new, (constrainedAddLoop cs fe added).2 = added ++ new ∧
        (constrainedAddLoop cs fe added).1 =
          { fe with constraints := fe.constraints ++ new,
                    woAnnot := (constrainedAddLoop cs fe added).1.woAnnot,
                    variables := (constrainedAddLoop cs fe added).1.variables } ∧
        (∀ c ∈ new, c ∈ cs) ∧
        (∀ i, i ∈ (constrainedAddLoop cs fe added).1.woAnnot ↔ i ∈ fe.woAnnot ∨ ∃ c ∈ new, c.id = i) ∧
        (∀ c ∈ cs, c ∈ new ∨ c.id ∈ fe.woAnnot ∨ ∃ c' ∈ new, c'.id = c.id) := by
  induction cs with
  | nil =>
    intro fe added
    exact ⟨[], by simp [constrainedAddLoop], by simp [constrainedAddLoop], by simp, by simp [constrainedAddLoop], by simp⟩
  | cons con rest ih =>
    intro fe added
    unfold constrainedAddLoop
    by_cases hc : fe.woAnnot.contains con.id = true
    · simp only [hc, ↓reduceIte]
      obtain ⟨new, h1, h2, h3, h4, h5⟩ := ih fe added
      refine ⟨new, h1, h2, fun c hc' => List.mem_cons_of_mem _ (h3 c hc'), h4, ?_⟩
      intro c hcm
      rcases List.mem_cons.mp hcm with rfl | hcm
      · exact Or.inr (Or.inl (by simpa using hc))
      · exact h5 c hcm
    · simp only [hc, Bool.false_eq_true, ↓reduceIte]
      obtain ⟨new, h1, h2, h3, h4, h5⟩ := ih
        { fe with woAnnot := listInsert fe.woAnnot con.id, constraints := fe.constraints ++ [con],
                  variables := listUnion fe.variables con.vars } (added ++ [con])
      refine ⟨con :: new, by rw [h1]; simp, ?_, ?_, ?_, ?_⟩
      · rw [h2]; simp
      · intro c hc'
        rcases List.mem_cons.mp hc' with rfl | hc'
        · exact List.mem_cons_self
        · exact List.mem_cons_of_mem _ (h3 c hc')
      · intro i
        rw [h4 i]
        simp only [mem_listInsert, List.mem_cons, exists_eq_or_imp]
        constructor
        · rintro ((h | rfl) | h)
          · exact Or.inl h
          · exact Or.inr (Or.inl rfl)
          · exact Or.inr (Or.inr h)
        · rintro (h | h | h)
          · exact Or.inl (Or.inl h)
          · exact Or.inl (Or.inr h.symm)
          · exact Or.inr h
      · intro c hcm
        rcases List.mem_cons.mp hcm with rfl | hcm
        · exact Or.inl List.mem_cons_self
        · rcases h5 c hcm with h | h | ⟨c', hc', hid⟩
          · exact Or.inl (List.mem_cons_of_mem _ h)
          · rcases (mem_listInsert _ _ _).mp h with h | h
            · exact Or.inr (Or.inl h)
            · exact Or.inr (Or.inr ⟨con, List.mem_cons_self, h.symm⟩)
          · exact Or.inr (Or.inr ⟨c', List.mem_cons_of_mem _ hc', hid⟩)


/-! ### `_add` through ConstraintDeduplicator, SimplifySkipper, FullFrontend, ConstrainedFrontend -/

def dedupAdd (ec : List Con) : M (List Con) := do
  let fe ← M.getFe
  let filtered := ec.filter fun c => !fe.hashes.contains c.id
  if filtered.isEmpty then pure filtered
  else do
    let added ← (do
      let added ← (do
        let toAdd ← (fun s => let (fe', added) := constrainedAddLoop filtered s.fe []; ((.ok added : Except Err (List Con)), { s with fe := fe' }) : M (List Con))
        M.modifyFe fun fe => { fe with toAdd := fe.toAdd ++ toAdd }
        pure toAdd)
      if !added.isEmpty then M.modifyFe fun fe => { fe with simplified := false }
      pure added)
    M.modifyFe fun fe => { fe with hashes := listUnion fe.hashes (added.map (·.id)) }
    pure added

/-- what the record looks like after the deduplicating add of `ec` -/
structure Added (s s' : St) (ec new : List Con) : Prop where
  cons : s'.fe.constraints = s.fe.constraints ++ new
  toAdd : s'.fe.toAdd = s.fe.toAdd ++ new
  solver : s'.fe.solver = s.fe.solver
  track : s'.fe.track = s.fe.track
  objs : s'.objs = s.objs
  reuse : s'.reuse = s.reuse
  fin : s'.fe.finalized = s.fe.finalized
  sub : ∀ c ∈ new, c ∈ ec
  ids : ∀ i, (i ∈ s'.fe.hashes ∨ i ∈ s'.fe.woAnnot) → (i ∈ s.fe.hashes ∨ i ∈ s.fe.woAnnot) ∨ ∃ c ∈ new, c.id = i
  cover : ∀ c ∈ ec, c ∈ new ∨ (c.id ∈ s.fe.hashes ∨ c.id ∈ s.fe.woAnnot) ∨ ∃ c' ∈ new, c'.id = c.id

/-- the same as a plain function on the state -/
def dedupAddSt (ec : List Con) (s : St) : List Con × St :=
  let filtered := ec.filter fun c => !s.fe.hashes.contains c.id
  if filtered.isEmpty then (filtered, s)
  else
    let r := constrainedAddLoop filtered s.fe []
    (r.2, { s with fe := { r.1 with toAdd := r.1.toAdd ++ r.2,
                                     simplified := if r.2.isEmpty then r.1.simplified else false,
                                     hashes := listUnion r.1.hashes (r.2.map (·.id)) } })

theorem dedupAdd_eq (ec : List Con) (s : St) : dedupAdd ec s = (.ok (dedupAddSt ec s).1, (dedupAddSt ec s).2) := by
  unfold dedupAdd dedupAddSt
  simp only [bind, M.bind, M.getFe_apply]
  by_cases hf : (ec.filter fun c => !s.fe.hashes.contains c.id).isEmpty = true
  · simp only [hf, ↓reduceIte, pure, M.pure]
  · simp only [hf, Bool.false_eq_true, ↓reduceIte, M.bind, M.modifyFe_apply, pure, M.pure]
    by_cases hne : (constrainedAddLoop (ec.filter fun c => !s.fe.hashes.contains c.id) s.fe []).2.isEmpty = true
    · simp only [hne, Bool.not_true, Bool.false_eq_true, ↓reduceIte, M.pure, M.modifyFe_apply]
    · simp only [hne, Bool.not_false, ↓reduceIte, M.bind, M.modifyFe_apply, M.pure, Bool.false_eq_true]

theorem dedupAdd_spec (ec : List Con) (s : St) :
    ∃ new s', dedupAdd ec s = (.ok new, s') ∧ Added s s' ec new := by
  refine ⟨(dedupAddSt ec s).1, (dedupAddSt ec s).2, dedupAdd_eq ec s, ?_⟩
  unfold dedupAddSt
  by_cases hf : (ec.filter fun c => !s.fe.hashes.contains c.id).isEmpty = true
  · have hnil : (ec.filter fun c => !s.fe.hashes.contains c.id) = [] := by simpa using hf
    simp only [hf, ↓reduceIte, hnil]
    refine ⟨by simp, by simp, rfl, rfl, rfl, rfl, rfl, by simp, fun i h => Or.inl h, ?_⟩
    intro c hc
    right; left; left
    by_cases hcon : c.id ∈ s.fe.hashes
    · exact hcon
    · have : c ∈ (ec.filter fun c => !s.fe.hashes.contains c.id) := List.mem_filter.mpr ⟨hc, by simpa using hcon⟩
      rw [hnil] at this
      simp at this
  · simp only [hf, Bool.false_eq_true, ↓reduceIte]
    obtain ⟨new, h1, h2, h3, h4, h5⟩ := constrainedAddLoop_spec (ec.filter fun c => !s.fe.hashes.contains c.id) s.fe []
    simp only [List.nil_append] at h1
    rcases hl : constrainedAddLoop (ec.filter fun c => !s.fe.hashes.contains c.id) s.fe [] with ⟨fe', added⟩
    rw [hl] at h1 h2 h4
    simp only at h1 h2 h4 ⊢
    subst h1
    have hcons : fe'.constraints = s.fe.constraints ++ added := by rw [h2]
    have htoadd : fe'.toAdd = s.fe.toAdd := by rw [h2]
    have hsolver : fe'.solver = s.fe.solver := by rw [h2]
    have htrack : fe'.track = s.fe.track := by rw [h2]
    have hhash : fe'.hashes = s.fe.hashes := by rw [h2]
    have hfin : fe'.finalized = s.fe.finalized := by rw [h2]
    refine ⟨by simp [hcons], by simp [htoadd], by simp [hsolver], by simp [htrack], rfl, rfl, by simp [hfin], ?_, ?_, ?_⟩
    · intro c hc; exact (List.mem_filter.mp (h3 c hc)).1
    · intro i hi
      rcases hi with hi | hi
      · rcases (mem_listUnion _ _ i).mp hi with hi | hi
        · left; left; simpa [hhash] using hi
        · right
          obtain ⟨c, hc, rfl⟩ := List.mem_map.mp hi
          exact ⟨c, hc, rfl⟩
      · rcases (h4 i).mp hi with hi | hi
        · exact Or.inl (Or.inr hi)
        · exact Or.inr hi
    · intro c hc
      by_cases hh : c.id ∈ s.fe.hashes
      · exact Or.inr (Or.inl (Or.inl hh))
      · have hm : c ∈ ec.filter fun c => !s.fe.hashes.contains c.id := List.mem_filter.mpr ⟨hc, by simpa using hh⟩
        rcases h5 c hm with h | h | h
        · exact Or.inl h
        · exact Or.inr (Or.inl (Or.inr h))
        · exact Or.inr (Or.inr h)


/-! ### the public `add` -/

/-- what ConstraintFilterMixin._add hands down: the constraints without the concretely true ones, or — when one is
concretely false — everything but literal `false`, and `false` -/
def filteredOf (E : Env) (self : Ops) (cs : List Con) : List Con :=
  match constraintFilter self cs with
  | .ok ec => ec
  | .error _ => (cs.filter fun c => c.id != E.falseCon.id) ++ [E.falseCon]

def clAdd (E : Env) (self : Ops) (cs : List Con) (_inv : Bool) : M (List Con) :=
  if cs.isEmpty then pure [] else if !(filteredOf E self cs).isEmpty then dedupAdd (filteredOf E self cs) else pure []

theorem clStage_add (E : Env) (k : Nat) : (clStage E (k + 1)).add = clAdd E (clStage E k) := rfl

/-- the filtered list handed to the deduplicator stands for the user's constraints `cs` -/
theorem filtered_equiv {E : Env} {R : Con → Prop} (hR : Reg R E) {self : Ops} (hs : SelfOk self) (cs : List Con)
    (hcs : ∀ c ∈ cs, R c) :
    (∀ c ∈ filteredOf E self cs, R c) ∧ ∀ a, holdsAll (filteredOf E self cs) a = holdsAll cs a := by
  have hfs := filter_spec hs cs (fun c hc => hR.wf c (hcs c hc))
  unfold filteredOf
  cases hf : constraintFilter self cs with
  | ok ec =>
    rw [hf] at hfs
    refine ⟨fun c hc => hcs c (hfs.2 c hc), fun a => ?_⟩
    have := hfs.1 a
    rw [models_iff_holdsAll, models_iff_holdsAll] at this
    cases h1 : holdsAll ec a <;> cases h2 : holdsAll cs a <;> simp_all
  | error err =>
    rw [hf] at hfs
    simp only
    refine ⟨?_, fun a => ?_⟩
    · intro c hc
      rcases List.mem_append.mp hc with hc | hc
      · exact hcs c (List.mem_filter.mp hc).1
      · simp only [List.mem_singleton] at hc; subst hc; exact hR.falseR
    · have h2 : holdsAll cs a = false := by
        have := hfs.2 a
        rw [models_iff_holdsAll] at this
        simpa using this
      rw [h2, holdsAll_append]
      simp [holdsAll, hR.falseSem a]

/-- a change of the frontend record that leaves the Z3 objects alone (add, simplify, downsize) -/
structure MStep (s s' : St) : Prop where
  objs : s'.objs = s.objs
  solver : s'.fe.solver = s.fe.solver ∨ s'.fe.solver = none
  reuse : s'.reuse = s.reuse
  fin : s.fe.finalized = true → s'.fe.finalized = true

theorem MStep.refl (s : St) : MStep s s := ⟨rfl, Or.inl rfl, rfl, id⟩

theorem clAdd_spec {E : Env} {R : Con → Prop} (hR : Reg R E) {self : Ops} (hs : SelfOk self) (U : List Con) (s : St)
    (h : CLInv0 U s) (hd : DInv R U s) (cs : List Con) (hcs : ∀ c ∈ cs, R c) (inv : Bool) :
    ∃ added s', clAdd E self cs inv s = (.ok added, s') ∧ CLInv0 (U ++ cs) s' ∧ DInv R (U ++ cs) s' ∧ MStep s s' := by
  unfold clAdd
  obtain ⟨hecR, hecEq⟩ := filtered_equiv hR hs cs hcs
  generalize filteredOf E self cs = ec at hecR hecEq ⊢
  have hU : ∀ a, holdsAll (U ++ cs) a = (holdsAll U a && holdsAll ec a) := by
    intro a; rw [holdsAll_append, hecEq a]
  by_cases hemp : cs.isEmpty = true
  · have : cs = [] := by simpa using hemp
    subst this
    refine ⟨[], s, by simp [pure, M.pure], ?_, ?_, MStep.refl s⟩
    · simpa using h
    · simpa using hd
  · simp only [hemp, Bool.false_eq_true, ↓reduceIte]
    by_cases hece : ec.isEmpty = true
    · have : ec = [] := by simpa using hece
      subst this
      simp only [List.isEmpty_nil, Bool.not_true, Bool.false_eq_true, ↓reduceIte, pure, M.pure]
      have hU' : ∀ a, holdsAll (U ++ cs) a = holdsAll U a := by intro a; rw [hU a]; simp [holdsAll]
      refine ⟨[], s, rfl, ⟨h.core, fun a => by rw [hU' a]; exact h.equiv a, ⟨_, trivial, QStep.refl _⟩⟩, ⟨hd.consR, fun c hc hi a ha => hd.seen c hc hi a (by rw [← hU' a]; exact ha)⟩, MStep.refl s⟩
    · simp only [hece, Bool.not_false, ↓reduceIte]
      obtain ⟨new, s', heq, had⟩ := dedupAdd_spec ec s
      refine ⟨new, s', heq, ?_, ?_, ⟨had.objs, Or.inl had.solver, had.reuse, fun hf => by rw [had.fin]; exact hf⟩⟩
      -- every element of `ec` holds wherever U and the new constraints hold
      have hcov : ∀ a, holdsAll U a = true → holdsAll new a = true → holdsAll ec a = true := by
        intro a hUa hna
        rw [← models_iff_holdsAll]
        intro c hc
        rcases had.cover c hc with hn | hseen | ⟨c', hc', hid⟩
        · exact (models_iff_holdsAll new a).mpr hna c hn
        · exact hd.seen c (hecR c hc) hseen a hUa
        · rw [hR.faithful c c' (hecR c hc) (hecR c' (had.sub c' hc')) hid.symm a]
          exact (models_iff_holdsAll new a).mpr hna c' hc'
      have hsubsem : ∀ a, holdsAll ec a = true → holdsAll new a = true := by
        intro a hea
        rw [← models_iff_holdsAll] at hea ⊢
        exact fun c hc => hea c (had.sub c hc)
      have hcons : ∀ a, holdsAll s'.fe.constraints a = holdsAll (U ++ cs) a := by
        intro a
        rw [had.cons, holdsAll_append, h.equiv a, hU a]
        cases hUa : holdsAll U a
        · simp
        · simp only [Bool.true_and]
          cases hna : holdsAll new a
          · cases hea : holdsAll ec a
            · rfl
            · have := hsubsem a hea; simp [hna] at this
          · exact (hcov a hUa hna).symm
      · refine ⟨⟨?_, ?_, ?_, ?_⟩, hcons, ⟨_, trivial, QStep.refl _⟩⟩
        · intro a ha
          rw [had.cons, holdsAll_append] at ha
          rw [had.toAdd, holdsAll_append]
          simp only [Bool.and_eq_true] at ha ⊢
          exact ⟨h.core.toAdd_sub a ha.1, ha.2⟩
        · intro r hr
          rw [had.solver] at hr
          obtain ⟨hlt, hfr, hsem⟩ := h.core.obj r hr
          have hobj : objAt s' r = objAt s r := objAt_of_objs_eq had.objs r
          refine ⟨by rw [had.objs]; exact hlt, by rw [hobj]; exact hfr, fun a => ?_⟩
          rw [hobj, had.toAdd, had.cons, holdsAll_append, holdsAll_append]
          simp only [Bool.and_eq_true]
          constructor
          · rintro ⟨h1, h2, h3⟩
            exact ⟨(hsem a).mp ⟨h1, h2⟩, h3⟩
          · rintro ⟨h1, h2⟩
            have := (hsem a).mpr h1
            exact ⟨this.1, this.2, h2⟩
        · rw [had.reuse]; exact h.core.noReuse
        · rw [had.track]; exact h.core.untracked
      · refine ⟨?_, ?_⟩
        · intro c hc
          rw [had.cons] at hc
          rcases List.mem_append.mp hc with hc | hc
          · exact hd.consR c hc
          · exact hecR c (had.sub c hc)
        · intro c hc hi a ha
          rw [hU a] at ha
          simp only [Bool.and_eq_true] at ha
          rcases had.ids c.id hi with hold | ⟨c', hc', hid⟩
          · exact hd.seen c hc hold a ha.1
          · rw [hR.faithful c c' hc (hecR c' (had.sub c' hc')) hid.symm a]
            exact (models_iff_holdsAll ec a).mpr ha.2 c' (had.sub c' hc')


/-! ### `simplify`, `downsize` -/

/-- ConstraintDeduplicator.simplify over SimplifySkipper.simplify over FullFrontend.simplify, as a function on the state -/
def clSimplifySt (E : Env) (s : St) : List Con × St :=
  if s.fe.simplified then
    (s.fe.constraints, { s with fe := { s.fe with hashes := listUnion s.fe.hashes (s.fe.constraints.map (·.id)) } })
  else if s.fe.constraints.isEmpty then
    let fe1 : Frontend := { s.fe with simplified := true }
    let fe2 : Frontend := { fe1 with solver := none, toAdd := [] }
    (s.fe.constraints, { s with fe := { fe2 with hashes := listUnion s.fe.hashes (s.fe.constraints.map (·.id)) } })
  else
    let out := E.simp s.fe.constraints s.tick
    let fe1 : Frontend := { s.fe with simplified := true, constraints := out }
    let fe2 : Frontend := { fe1 with solver := none, toAdd := [] }
    (out, { s with tick := s.tick + 1, fe := { fe2 with hashes := listUnion s.fe.hashes (out.map (·.id)) } })

theorem clStage_simplify (E : Env) (k : Nat) (s : St) :
    (clStage E (k + 1)).simplify s = (.ok (clSimplifySt E s).1, (clSimplifySt E s).2) := by
  show (do
    let added ← (do
      let fe ← M.getFe
      if fe.simplified then pure fe.constraints
      else do
        M.modifyFe fun fe => { fe with simplified := true }
        (do
          let _ ← (do
            let fe ← M.getFe
            if fe.constraints.isEmpty then pure fe.constraints
            else do
              let s ← M.get
              let out := E.simp fe.constraints s.tick
              M.modify fun s => { s with tick := s.tick + 1, fe := { s.fe with constraints := out } }
              pure out)
          M.modifyFe fun fe => { fe with solver := none, toAdd := [] }
          let fe ← M.getFe
          pure fe.constraints))
    M.modifyFe fun fe => { fe with hashes := listUnion fe.hashes (added.map (·.id)) }
    pure added : M (List Con)) s = _
  unfold clSimplifySt
  simp only [bind, M.bind, M.getFe_apply]
  cases hsimp : s.fe.simplified with
  | true => simp [pure, M.pure, M.modifyFe_apply, hsimp]
  | false =>
    simp only [Bool.false_eq_true, ↓reduceIte, M.bind, M.modifyFe_apply, M.getFe_apply]
    by_cases hemp : s.fe.constraints.isEmpty = true
    · simp [hemp, pure, M.pure, M.bind, M.modifyFe_apply, M.getFe_apply]
    · simp [hemp, M.bind, M.get_apply, M.modify_apply, pure, M.pure, M.modifyFe_apply, M.getFe_apply]

/-- **SimplifyEquiv on the registry** (C09): on constraints of the registry `claripy.simplify` returns an equivalent
conjunction (that its output is in the registry again is `Reg.simp_closed`) -/
def SimpOn (R : Con → Prop) (E : Env) : Prop :=
  ∀ cs k, (∀ c ∈ cs, R c) → ∀ a, holdsAll (E.simp cs k) a = holdsAll cs a

theorem clSimplify_spec {E : Env} {R : Con → Prop} (hR : Reg R E) (hS : SimpOn R E) (U : List Con) (s : St)
    (h : CLInv0 U s) (hd : DInv R U s) : CLInv0 U (clSimplifySt E s).2 ∧ DInv R U (clSimplifySt E s).2 := by
  -- recording the ids of constraints equivalent to U keeps the deduplication invariant
  have hseen : ∀ (cons : List Con), (∀ c ∈ cons, R c) → (∀ a, holdsAll cons a = holdsAll U a) →
      ∀ c, R c → (c.id ∈ listUnion s.fe.hashes (cons.map (·.id)) ∨ c.id ∈ s.fe.woAnnot) →
      ∀ a, holdsAll U a = true → c.sem a = true := by
    intro cons hcR heq c hc hi a ha
    rcases hi with hi | hi
    · rcases (mem_listUnion _ _ _).mp hi with hi | hi
      · exact hd.seen c hc (Or.inl hi) a ha
      · obtain ⟨c', hc', hid⟩ := List.mem_map.mp hi
        rw [hR.faithful c c' hc (hcR c' hc') hid.symm a]
        have : holdsAll cons a = true := by rw [heq a]; exact ha
        exact (models_iff_holdsAll cons a).mpr this c' hc'
    · exact hd.seen c hc (Or.inr hi) a ha
  unfold clSimplifySt
  cases hsimp : s.fe.simplified with
  | true =>
    simp only [↓reduceIte]
    exact ⟨⟨⟨h.core.toAdd_sub, h.core.obj, h.core.noReuse, h.core.untracked⟩, h.equiv, ⟨_, trivial, QStep.refl _⟩⟩,
           ⟨hd.consR, hseen s.fe.constraints hd.consR h.equiv⟩⟩
  | false =>
    simp only [Bool.false_eq_true, ↓reduceIte]
    by_cases hemp : s.fe.constraints.isEmpty = true
    · simp only [hemp, ↓reduceIte]
      exact ⟨⟨⟨fun a _ => rfl, fun r hr => by simp at hr, h.core.noReuse, h.core.untracked⟩, h.equiv, ⟨_, trivial, QStep.refl _⟩⟩,
             ⟨hd.consR, hseen s.fe.constraints hd.consR h.equiv⟩⟩
    · simp only [hemp, Bool.false_eq_true, ↓reduceIte]
      have heq := hS s.fe.constraints s.tick hd.consR
      have hoR := hR.simp_closed s.fe.constraints s.tick hd.consR
      have hequ : ∀ a, holdsAll (E.simp s.fe.constraints s.tick) a = holdsAll U a := fun a => by rw [heq a, h.equiv a]
      exact ⟨⟨⟨fun a _ => rfl, fun r hr => by simp at hr, h.core.noReuse, h.core.untracked⟩, hequ, ⟨_, trivial, QStep.refl _⟩⟩,
             ⟨hoR, hseen _ hoR hequ⟩⟩

theorem clSimplify_mstep (E : Env) (s : St) : MStep s (clSimplifySt E s).2 := by
  unfold clSimplifySt
  cases hsimp : s.fe.simplified with
  | true => simp only [↓reduceIte]; exact ⟨rfl, Or.inl rfl, rfl, id⟩
  | false =>
    simp only [Bool.false_eq_true, ↓reduceIte]
    by_cases hemp : s.fe.constraints.isEmpty = true
    · simp only [hemp, ↓reduceIte]; exact ⟨rfl, Or.inr rfl, rfl, id⟩
    · simp only [hemp, Bool.false_eq_true, ↓reduceIte]; exact ⟨rfl, Or.inr rfl, rfl, id⟩

/-- FullFrontend.downsize (the mixins of this class do not override it) -/
def clDownsizeSt (s : St) : St := { s with fe := { s.fe with solver := none, toAdd := [] } }

theorem clStage_downsize (E : Env) (k : Nat) (s : St) : (clStage E (k + 1)).downsize s = (.ok (), clDownsizeSt s) := rfl

theorem clDownsize_spec {R : Con → Prop} (U : List Con) (s : St) (h : CLInv0 U s) (hd : DInv R U s) :
    CLInv0 U (clDownsizeSt s) ∧ DInv R U (clDownsizeSt s) :=
  ⟨⟨⟨fun a _ => rfl, fun r hr => by simp [clDownsizeSt] at hr, h.core.noReuse, h.core.untracked⟩, h.equiv, ⟨_, trivial, QStep.refl _⟩⟩,
   ⟨hd.consR, hd.seen⟩⟩

theorem clDownsize_mstep (s : St) : MStep s (clDownsizeSt s) := ⟨rfl, Or.inr rfl, rfl, id⟩

end Claripy.Solver
