import ClaripyProofs.Lemmas.Solver.CachelessExtrema
/-!
`add`, `simplify`, `downsize` of SolverCacheless, and the deduplication invariant.
-/
namespace Claripy.Solver

/-- **Registry** (hash-consing, C06): among the constraints a run can see — the user's, `false`, the simplifier's
output — equal ids mean equal meaning; all of them are well formed -/
structure Reg (R : Con → Prop) (E : Env) : Prop where
  faithful : ∀ c c', R c → R c' → c.id = c'.id → ∀ a, c.sem a = c'.sem a
  wf : ∀ c, R c → ConWf c
  simp_closed : ∀ cs k, (∀ c ∈ cs, R c) → ∀ c ∈ E.simp cs k, R c
  falseR : R E.falseCon
  falseSem : ∀ a, E.falseCon.sem a = false

/-- deduplication invariant: every constraint whose id was recorded (`_constraint_hashes`,
`constraints_wo_annotations`) is implied by what the user added -/
structure DInv (R : Con → Prop) (U : List Con) (s : St) : Prop where
  consR : ∀ c ∈ s.fe.constraints, R c
  seen : ∀ c, R c → (c.id ∈ s.fe.hashes ∨ c.id ∈ s.fe.woAnnot) → ∀ a, holdsAll U a = true → c.sem a = true

theorem mem_listInsert {α : Type} [BEq α] [LawfulBEq α] (l : List α) (x y : α) :
    y ∈ listInsert l x ↔ y ∈ l ∨ y = x := by
  unfold listInsert
  split
  · rename_i h
    have : x ∈ l := by simpa using h
    constructor
    · exact Or.inl
    · rintro (h | rfl) <;> assumption
  · simp

theorem mem_listUnion {α : Type} [BEq α] [LawfulBEq α] (l r : List α) (y : α) :
    y ∈ listUnion l r ↔ y ∈ l ∨ y ∈ r := by
  unfold listUnion
  induction r generalizing l with
  | nil => simp
  | cons x xs ih =>
    simp only [List.foldl_cons, ih, mem_listInsert, List.mem_cons]
    constructor
    · rintro ((h | rfl) | h)
      · exact Or.inl h
      · exact Or.inr (Or.inl rfl)
      · exact Or.inr (Or.inr h)
    · rintro (h | rfl | h)
      · exact Or.inl (Or.inl h)
      · exact Or.inl (Or.inr rfl)
      · exact Or.inr h

/-- what the `ConstrainedFrontend._add` loop does to the record -/
theorem constrainedAddLoop_spec (cs : List Con) :
    ∀ (fe : Frontend) (added : List Con),
      ∃ new, (constrainedAddLoop cs fe added).2 = added ++ new ∧
        (constrainedAddLoop cs fe added).1 =
          { fe with constraints := fe.constraints ++ new,
                    woAnnot := (constrainedAddLoop cs fe added).1.woAnnot,
                    variables := (constrainedAddLoop cs fe added).1.variables } ∧
        (∀ c ∈ new, c ∈ cs) ∧
        (∀ i, i ∈ (constrainedAddLoop cs fe added).1.woAnnot ↔ i ∈ fe.woAnnot ∨ ∃ c ∈ new, c.id = i) ∧
        (∀ c ∈ cs, c ∈ new ∨ c.id ∈ fe.woAnnot ∨ ∃ c' ∈ new, c'.id = c.id) := by
  induction cs with
  | nil =>
    intro fe added
    exact ⟨[], by simp [constrainedAddLoop], by simp [constrainedAddLoop], by simp, by simp [constrainedAddLoop], by simp⟩
  | cons con rest ih =>
    intro fe added
    unfold constrainedAddLoop
    by_cases hc : fe.woAnnot.contains con.id = true
    · simp only [hc, ↓reduceIte]
      obtain ⟨new, h1, h2, h3, h4, h5⟩ := ih fe added
      refine ⟨new, h1, h2, fun c hc' => List.mem_cons_of_mem _ (h3 c hc'), h4, ?_⟩
      intro c hcm
      rcases List.mem_cons.mp hcm with rfl | hcm
      · exact Or.inr (Or.inl (by simpa using hc))
      · exact h5 c hcm
    · simp only [hc, Bool.false_eq_true, ↓reduceIte]
      obtain ⟨new, h1, h2, h3, h4, h5⟩ := ih
        { fe with woAnnot := listInsert fe.woAnnot con.id, constraints := fe.constraints ++ [con],
                  variables := listUnion fe.variables con.vars } (added ++ [con])
      refine ⟨con :: new, by rw [h1]; simp, ?_, ?_, ?_, ?_⟩
      · rw [h2]; simp
      · intro c hc'
        rcases List.mem_cons.mp hc' with rfl | hc'
        · exact List.mem_cons_self
        · exact List.mem_cons_of_mem _ (h3 c hc')
      · intro i
        rw [h4 i]
        simp only [mem_listInsert, List.mem_cons, exists_eq_or_imp]
        constructor
        · rintro ((h | rfl) | h)
          · exact Or.inl h
          · exact Or.inr (Or.inl rfl)
          · exact Or.inr (Or.inr h)
        · rintro (h | h | h)
          · exact Or.inl (Or.inl h)
          · exact Or.inl (Or.inr h.symm)
          · exact Or.inr h
      · intro c hcm
        rcases List.mem_cons.mp hcm with rfl | hcm
        · exact Or.inl List.mem_cons_self
        · rcases h5 c hcm with h | h | ⟨c', hc', hid⟩
          · exact Or.inl (List.mem_cons_of_mem _ h)
          · rcases (mem_listInsert _ _ _).mp h with h | h
            · exact Or.inr (Or.inl h)
            · exact Or.inr (Or.inr ⟨con, List.mem_cons_self, h.symm⟩)
          · exact Or.inr (Or.inr ⟨c', List.mem_cons_of_mem _ hc', hid⟩)


/-! ### `_add` through ConstraintDeduplicator, SimplifySkipper, FullFrontend, ConstrainedFrontend -/

def dedupAdd (ec : List Con) : M (List Con) := do
  let fe ← M.getFe
  let filtered := ec.filter fun c => !fe.hashes.contains c.id
  if filtered.isEmpty then pure filtered
  else do
    let added ← (do
      let added ← (do
        let toAdd ← (fun s => let (fe', added) := constrainedAddLoop filtered s.fe []; ((.ok added : Except Err (List Con)), { s with fe := fe' }) : M (List Con))
        M.modifyFe fun fe => { fe with toAdd := fe.toAdd ++ toAdd }
        pure toAdd)
      if !added.isEmpty then M.modifyFe fun fe => { fe with simplified := false }
      pure added)
    M.modifyFe fun fe => { fe with hashes := listUnion fe.hashes (added.map (·.id)) }
    pure added

/-- what the record looks like after the deduplicating add of `ec` -/
structure Added (s s' : St) (ec new : List Con) : Prop where
  cons : s'.fe.constraints = s.fe.constraints ++ new
  toAdd : s'.fe.toAdd = s.fe.toAdd ++ new
  solver : s'.fe.solver = s.fe.solver
  track : s'.fe.track = s.fe.track
  objs : s'.objs = s.objs
  reuse : s'.reuse = s.reuse
  sub : ∀ c ∈ new, c ∈ ec
  ids : ∀ i, (i ∈ s'.fe.hashes ∨ i ∈ s'.fe.woAnnot) → (i ∈ s.fe.hashes ∨ i ∈ s.fe.woAnnot) ∨ ∃ c ∈ new, c.id = i
  cover : ∀ c ∈ ec, c ∈ new ∨ (c.id ∈ s.fe.hashes ∨ c.id ∈ s.fe.woAnnot) ∨ ∃ c' ∈ new, c'.id = c.id

/-- the same as a plain function on the state -/
def dedupAddSt (ec : List Con) (s : St) : List Con × St :=
  let filtered := ec.filter fun c => !s.fe.hashes.contains c.id
  if filtered.isEmpty then (filtered, s)
  else
    let r := constrainedAddLoop filtered s.fe []
    (r.2, { s with fe := { r.1 with toAdd := r.1.toAdd ++ r.2,
                                     simplified := if r.2.isEmpty then r.1.simplified else false,
                                     hashes := listUnion r.1.hashes (r.2.map (·.id)) } })

theorem dedupAdd_eq (ec : List Con) (s : St) : dedupAdd ec s = (.ok (dedupAddSt ec s).1, (dedupAddSt ec s).2) := by
  unfold dedupAdd dedupAddSt
  simp only [bind, M.bind, M.getFe_apply]
  by_cases hf : (ec.filter fun c => !s.fe.hashes.contains c.id).isEmpty = true
  · simp only [hf, ↓reduceIte, pure, M.pure]
  · simp only [hf, Bool.false_eq_true, ↓reduceIte, M.bind, M.modifyFe_apply, pure, M.pure]
    by_cases hne : (constrainedAddLoop (ec.filter fun c => !s.fe.hashes.contains c.id) s.fe []).2.isEmpty = true
    · simp only [hne, Bool.not_true, Bool.false_eq_true, ↓reduceIte, M.pure, M.modifyFe_apply]
    · simp only [hne, Bool.not_false, ↓reduceIte, M.bind, M.modifyFe_apply, M.pure, Bool.false_eq_true]

theorem dedupAdd_spec (ec : List Con) (s : St) :
    ∃ new s', dedupAdd ec s = (.ok new, s') ∧ Added s s' ec new := by
  refine ⟨(dedupAddSt ec s).1, (dedupAddSt ec s).2, dedupAdd_eq ec s, ?_⟩
  unfold dedupAddSt
  by_cases hf : (ec.filter fun c => !s.fe.hashes.contains c.id).isEmpty = true
  · have hnil : (ec.filter fun c => !s.fe.hashes.contains c.id) = [] := by simpa using hf
    simp only [hf, ↓reduceIte, hnil]
    refine ⟨by simp, by simp, rfl, rfl, rfl, rfl, by simp, fun i h => Or.inl h, ?_⟩
    intro c hc
    right; left; left
    by_cases hcon : c.id ∈ s.fe.hashes
    · exact hcon
    · have : c ∈ (ec.filter fun c => !s.fe.hashes.contains c.id) := List.mem_filter.mpr ⟨hc, by simpa using hcon⟩
      rw [hnil] at this
      simp at this
  · simp only [hf, Bool.false_eq_true, ↓reduceIte]
    obtain ⟨new, h1, h2, h3, h4, h5⟩ := constrainedAddLoop_spec (ec.filter fun c => !s.fe.hashes.contains c.id) s.fe []
    simp only [List.nil_append] at h1
    rcases hl : constrainedAddLoop (ec.filter fun c => !s.fe.hashes.contains c.id) s.fe [] with ⟨fe', added⟩
    rw [hl] at h1 h2 h4
    simp only at h1 h2 h4 ⊢
    subst h1
    have hcons : fe'.constraints = s.fe.constraints ++ added := by rw [h2]
    have htoadd : fe'.toAdd = s.fe.toAdd := by rw [h2]
    have hsolver : fe'.solver = s.fe.solver := by rw [h2]
    have htrack : fe'.track = s.fe.track := by rw [h2]
    have hhash : fe'.hashes = s.fe.hashes := by rw [h2]
    refine ⟨by simp [hcons], by simp [htoadd], by simp [hsolver], by simp [htrack], rfl, rfl, ?_, ?_, ?_⟩
    · intro c hc; exact (List.mem_filter.mp (h3 c hc)).1
    · intro i hi
      rcases hi with hi | hi
      · rcases (mem_listUnion _ _ i).mp hi with hi | hi
        · left; left; simpa [hhash] using hi
        · right
          obtain ⟨c, hc, rfl⟩ := List.mem_map.mp hi
          exact ⟨c, hc, rfl⟩
      · rcases (h4 i).mp hi with hi | hi
        · exact Or.inl (Or.inr hi)
        · exact Or.inr hi
    · intro c hc
      by_cases hh : c.id ∈ s.fe.hashes
      · exact Or.inr (Or.inl (Or.inl hh))
      · have hm : c ∈ ec.filter fun c => !s.fe.hashes.contains c.id := List.mem_filter.mpr ⟨hc, by simpa using hh⟩
        rcases h5 c hm with h | h | h
        · exact Or.inl h
        · exact Or.inr (Or.inl (Or.inr h))
        · exact Or.inr (Or.inr h)

end Claripy.Solver
