import ClaripyProofs.Lemmas.Solver.Extrema
/-!
L1, part 4: which models the solver-object algorithms hand to the model callback.  `_batch_eval` calls it with the model
of every tuple it returns; `_extrema` with a model that attains the optimum it returns (unless the optimum is the bound
the search started from).  ModelCacheMixin relies on this when it flags an expression as exhausted.
-/
namespace Claripy.Solver

/-- a callback that records: `H vals keys fe` — the model of the answer `sat vals keys` has been recorded in `fe` -/
structure HookRec (hook : PModel → M Unit) (H : List Nat → List Var → Frontend → Prop) : Prop where
  frame : ∀ m s, ∃ fe', hook m s = (.ok (), { s with fe := fe' })
  record : ∀ vals keys s, H vals keys (hook (PModel.ofKeys vals keys) s).2.fe
  mono : ∀ vals keys m s, H vals keys s.fe → H vals keys (hook m s).2.fe

theorem HookRec.toOk {hook : PModel → M Unit} {H : List Nat → List Var → Frontend → Prop} (h : HookRec hook H)
    (A : List ZCon) : HookOk hook A (fun _ => True) := ⟨h.frame, fun _ _ _ _ _ => trivial⟩

/-- the answer of the oracle behind a `sat` outcome of `z3_solver_sat` -/
theorem z3Check_sat {E : Env} {r : Nat} {asm : List ZCon} {s s' : St} {vals : List Nat} {keys : List Var}
    (h : z3Check E r asm s = (.ok (some (vals, keys)), s')) :
    E.oracle { asserted := (objAt s r).asserted, assumptions := asm } s.tick = .sat vals keys ∧ s'.fe = s.fe := by
  rw [z3Check_eq] at h
  simp only at h
  cases ho : E.oracle { asserted := (objAt s r).asserted, assumptions := asm } s.tick with
  | unknown => rw [ho] at h; simp at h
  | unsat core => rw [ho] at h; simp at h
  | sat v k =>
    rw [ho] at h
    simp only [Prod.mk.injEq, Except.ok.injEq, Option.some.injEq] at h
    obtain ⟨⟨rfl, rfl⟩, rfl⟩ := h
    exact ⟨rfl, rfl⟩

theorem z3Check_fe (E : Env) (r : Nat) (asm : List ZCon) (s : St) : (z3Check E r asm s).2.fe = s.fe := by
  rw [z3Check_eq]
  simp only
  cases E.oracle { asserted := (objAt s r).asserted, assumptions := asm } s.tick <;> rfl

/-- the model of a `sat` answer has been recorded -/
def Recorded (E : Env) (H : List Nat → List Var → Frontend → Prop) (fe : Frontend) (W : List Nat → Prop) : Prop :=
  ∃ vals keys q k, E.oracle q k = .sat vals keys ∧ W vals ∧ H vals keys fe

theorem Recorded.mono {E : Env} {hook : PModel → M Unit} {H : List Nat → List Var → Frontend → Prop} (hh : HookRec hook H)
    {fe : Frontend} {W : List Nat → Prop} (h : Recorded E H fe W) (m : PModel) (s : St) (hs : s.fe = fe) :
    Recorded E H (hook m s).2.fe W := by
  obtain ⟨vals, keys, q, k, h1, h2, h3⟩ := h
  exact ⟨vals, keys, q, k, h1, h2, hh.mono vals keys m s (hs ▸ h3)⟩

/-! ### `_batch_eval` -/

section
variable {E : Env} {hook : PModel → M Unit} {H : List Nat → List Var → Frontend → Prop}

/-- a property of the record that the callback preserves is preserved by the loop -/
theorem batchEvalLoop_pres (hh : HookRec hook H) (Q : Frontend → Prop) (hQ : ∀ m s, Q s.fe → Q (hook m s).2.fe)
    (r : Nat) (exprs : List Exp) (extra : List ZCon) :
    ∀ (rem : Nat) (acc : List (List Nat)) (s : St), Q s.fe → Q (batchEvalLoop E r exprs extra hook rem acc s).2.fe := by
  intro rem
  induction rem with
  | zero => intro acc s hq; exact hq
  | succ rem ih =>
    intro acc s hq
    simp only [batchEvalLoop, bind, M.bind]
    have hfe := z3Check_fe E r extra s
    rcases hc : z3Check E r extra s with ⟨res, s1⟩
    rw [hc] at hfe
    simp only at hfe
    cases res with
    | error e => simpa [hfe] using hq
    | ok v =>
      cases v with
      | none => simpa [pure, M.pure, hfe] using hq
      | some p =>
        obtain ⟨vals, keys⟩ := p
        simp only
        obtain ⟨fe', hfr⟩ := hh.frame (PModel.ofKeys vals keys) s1
        have hq2 := hQ (PModel.ofKeys vals keys) s1 (by rw [hfe]; exact hq)
        rw [hfr] at hq2
        simp only [M.bind, hfr] at hq2 ⊢
        by_cases hrem : rem = 0
        · subst hrem
          simp only [ne_eq, not_true_eq_false, ↓reduceIte, batchEvalLoop, pure, M.pure]
          exact hq2
        · simp only [ne_eq, hrem, not_false_eq_true, ↓reduceIte, getObj_apply, setObj_apply, M.bind]
          exact ih _ _ hq2

/-- every tuple the loop adds comes with a recorded model that Z3 evaluates to it -/
theorem batchEvalLoop_hooked (hh : HookRec hook H) (r : Nat) (exprs : List Exp) (extra : List ZCon) :
    ∀ (rem : Nat) (acc : List (List Nat)) (s : St),
      match batchEvalLoop E r exprs extra hook rem acc s with
      | (.ok ts, s') => ∃ new, ts = acc.reverse ++ new ∧
          ∀ t ∈ new, Recorded E H s'.fe (fun vals => t = exprs.map fun e => e.val (asgOf vals))
      | (.error _, _) => True := by
  intro rem
  induction rem with
  | zero => intro acc s; exact ⟨[], by simp [], by simp⟩
  | succ rem ih =>
    intro acc s
    simp only [batchEvalLoop, bind, M.bind]
    rcases hc : z3Check E r extra s with ⟨res, s1⟩
    cases res with
    | error e => trivial
    | ok v =>
      cases v with
      | none => exact ⟨[], by simp [], by simp⟩
      | some p =>
        obtain ⟨vals, keys⟩ := p
        simp only
        obtain ⟨hor, _⟩ := z3Check_sat hc
        obtain ⟨fe', hfr⟩ := hh.frame (PModel.ofKeys vals keys) s1
        have hrec := hh.record vals keys s1
        rw [hfr] at hrec
        simp only [M.bind, hfr] at hrec ⊢
        by_cases hrem : rem = 0
        · subst hrem
          simp only [ne_eq, not_true_eq_false, ↓reduceIte, batchEvalLoop, pure, M.pure, List.reverse_cons]
          refine ⟨[exprs.map fun e => e.val (asgOf vals)], rfl, ?_⟩
          intro t ht
          simp only [List.mem_singleton] at ht
          exact ⟨vals, keys, _, _, hor, ht, hrec⟩
        · simp only [ne_eq, hrem, not_false_eq_true, ↓reduceIte, getObj_apply, setObj_apply, M.bind]
          have hih := ih ((exprs.map fun e => e.val (asgOf vals)) :: acc)
            { s1 with fe := fe', objs := s1.objs.set r ((objAt { s1 with fe := fe' } r).addTop
              [blocking exprs (exprs.map fun e => e.val (asgOf vals))]) }
          have hpres := batchEvalLoop_pres (E := E) hh (H vals keys) (fun m s => hh.mono vals keys m s) r exprs extra rem
            ((exprs.map fun e => e.val (asgOf vals)) :: acc)
            { s1 with fe := fe', objs := s1.objs.set r ((objAt { s1 with fe := fe' } r).addTop
              [blocking exprs (exprs.map fun e => e.val (asgOf vals))]) } hrec
          revert hih hpres
          generalize batchEvalLoop E r exprs extra hook rem ((exprs.map fun e => e.val (asgOf vals)) :: acc)
            { s1 with fe := fe', objs := s1.objs.set r ((objAt { s1 with fe := fe' } r).addTop
              [blocking exprs (exprs.map fun e => e.val (asgOf vals))]) } = out
          rcases out with ⟨res4, s4⟩
          cases res4 with
          | error e => intros; trivial
          | ok ts =>
            rintro ⟨new, hts, hnew⟩ hpres
            refine ⟨(exprs.map fun e => e.val (asgOf vals)) :: new, by simp [hts], ?_⟩
            intro t ht
            rcases List.mem_cons.mp ht with rfl | ht
            · exact ⟨vals, keys, _, _, hor, rfl, hpres⟩
            · exact hnew t ht

/-- `_batch_eval`: every returned tuple comes with a recorded model that Z3 evaluates to it -/
theorem z3BatchEval_hooked (hh : HookRec hook H) (r : Nat) (exprs : List Exp) (n : Nat) (extra : List ZCon) (s : St) :
    match z3BatchEval E r exprs n extra hook s with
    | (.ok ts, s') => ∀ t ∈ ts, Recorded E H s'.fe (fun vals => t = exprs.map fun e => e.val (asgOf vals))
    | (.error _, _) => True := by
  unfold z3BatchEval
  by_cases hn : n > 1
  · simp only [hn, ↓reduceIte, bind, M.bind, z3Push_eq, M.tryFinally]
    have hl := batchEvalLoop_hooked (E := E) hh r exprs extra n []
      { s with objs := s.objs.set r { objAt s r with frames := [] :: (objAt s r).frames } }
    revert hl
    generalize batchEvalLoop E r exprs extra hook n []
      { s with objs := s.objs.set r { objAt s r with frames := [] :: (objAt s r).frames } } = out
    rcases out with ⟨res, s1⟩
    cases res with
    | error e => intro _; simp only []
    | ok ts =>
      rintro ⟨new, hts, hnew⟩
      simp only [z3Pop_eq]
      intro t ht
      rw [hts] at ht
      simp only [List.reverse_nil, List.nil_append] at ht
      exact hnew t ht
  · simp only [hn, ↓reduceIte, M.tryFinally, pure, M.pure]
    have hl := batchEvalLoop_hooked (E := E) hh r exprs extra n [] s
    revert hl
    generalize batchEvalLoop E r exprs extra hook n [] s = out
    rcases out with ⟨res, s1⟩
    cases res with
    | error e => intro _; trivial
    | ok ts =>
      rintro ⟨new, hts, hnew⟩
      intro t ht
      rw [hts] at ht
      simp only [List.reverse_nil, List.nil_append] at ht
      exact hnew t ht

/-! ### `_extrema` -/

theorem extremaLoop_pres (hh : HookRec hook H) (Q : Frontend → Prop) (hQ : ∀ m s, Q s.fe → Q (hook m s).2.fe)
    (r : Nat) (isMax : Bool) (e : Exp) (extra : List ZCon) (signed : Bool) :
    ∀ (fuel : Nat) (lo hi : Int) (s : St), Q s.fe → Q (extremaLoop E r isMax e extra signed hook fuel lo hi s).2.fe := by
  intro fuel
  induction fuel with
  | zero => intro lo hi s hq; exact hq
  | succ fuel ih =>
    intro lo hi s hq
    simp only [extremaLoop]
    by_cases hgt : hi - lo > 1
    · simp only [hgt, ↓reduceIte, bind, M.bind]
      generalize (if isMax = true then rangeCon signed e ((lo + hi) / 2) hi else rangeCon signed e lo ((lo + hi) / 2)) = c
      have hfe := z3Check_fe E r (extra ++ [c]) s
      rcases hc : z3Check E r (extra ++ [c]) s with ⟨res, s1⟩
      rw [hc] at hfe
      simp only at hfe
      cases res with
      | error err => simpa [hfe] using hq
      | ok v =>
        cases v with
        | none =>
          simp only
          split <;> exact ih _ _ _ (by rw [hfe]; exact hq)
        | some p =>
          obtain ⟨vals, keys⟩ := p
          obtain ⟨fe', hfr⟩ := hh.frame (PModel.ofKeys vals keys) s1
          have hq2 := hQ (PModel.ofKeys vals keys) s1 (by rw [hfe]; exact hq)
          rw [hfr] at hq2
          simp only [M.bind, hfr] at hq2 ⊢
          split <;> exact ih _ _ _ hq2
    · simp only [hgt, ↓reduceIte, pure, M.pure]
      exact hq

/-- the key the search is about -/
abbrev keyOf (signed : Bool) (e : Exp) (a : Asg) : Int := key signed e.bits (e.val a)

/-- the search loop: the bound it moved towards the optimum is witnessed by a recorded model -/
theorem extremaLoop_hooked (hE : OracleExact E) (hh : HookRec hook H) (r : Nat) (isMax : Bool) (e : Exp)
    (extra : List ZCon) (signed : Bool) (he : ExpWf e) :
    ∀ (fuel : Nat) (lo hi : Int) (s : St), loOf signed e.bits ≤ lo → hi ≤ hiOf signed e.bits → lo ≤ hi →
      match extremaLoop E r isMax e extra signed hook fuel lo hi s with
      | (.ok (lo', hi'), s') =>
          ((if isMax then lo' = lo else hi' = hi) ∨
            Recorded E H s'.fe (fun vals => SatBy ((objAt s r).asserted ++ extra) (asgOf vals) ∧
              (if isMax then lo' ≤ keyOf signed e (asgOf vals) else keyOf signed e (asgOf vals) ≤ hi'))) ∧
          (objAt s' r).frames = (objAt s r).frames ∧
          loOf signed e.bits ≤ lo' ∧ hi' ≤ hiOf signed e.bits ∧ lo' ≤ hi'
      | (.error _, _) => True := by
  intro fuel
  induction fuel with
  | zero =>
    intro lo hi s h0 h1 hle
    simp only [extremaLoop, pure, M.pure]
    exact ⟨Or.inl (by split <;> trivial), trivial, h0, h1, hle⟩
  | succ fuel ih =>
    intro lo hi s h0 h1 hle
    simp only [extremaLoop]
    by_cases hgt : hi - lo > 1
    · simp only [hgt, ↓reduceIte, bind, M.bind]
      have hmlo : lo < (lo + hi) / 2 := by omega
      have hmhi : (lo + hi) / 2 < hi := by omega
      generalize hcdef : (if isMax = true then rangeCon signed e ((lo + hi) / 2) hi else rangeCon signed e lo ((lo + hi) / 2)) = c
      have hck := z3Check_cases hE r (extra ++ [c]) s
      rcases hc : z3Check E r (extra ++ [c]) s with ⟨res, s1⟩
      rw [hc] at hck
      cases res with
      | error err => trivial
      | ok v =>
        cases v with
        | none =>
          obtain ⟨_, hstep⟩ := hck
          have has : (objAt s1 r).asserted = (objAt s r).asserted := by simp only [Z3Obj.asserted, hstep.frames]
          simp only
          cases isMax
          · simp only [Bool.false_eq_true, ↓reduceIte]
            have hih := ih ((lo + hi) / 2) hi s1 (by omega) h1 (by omega)
            revert hih
            generalize extremaLoop E r false e extra signed hook fuel ((lo + hi) / 2) hi s1 = out
            rcases out with ⟨res3, s3⟩
            cases res3 with
            | error err => intro _; trivial
            | ok p =>
              obtain ⟨lo', hi'⟩ := p
              simp only [Bool.false_eq_true, ↓reduceIte]
              rintro ⟨hd, hfr, g0, g1, gle⟩
              rw [has] at hd
              exact ⟨hd, by rw [hfr, hstep.frames], by omega, g1, gle⟩
          · simp only [↓reduceIte]
            have hih := ih lo ((lo + hi) / 2) s1 h0 (by omega) (by omega)
            revert hih
            generalize extremaLoop E r true e extra signed hook fuel lo ((lo + hi) / 2) s1 = out
            rcases out with ⟨res3, s3⟩
            cases res3 with
            | error err => intro _; trivial
            | ok p =>
              obtain ⟨lo', hi'⟩ := p
              simp only [↓reduceIte]
              rintro ⟨hd, hfr, g0, g1, gle⟩
              rw [has] at hd
              exact ⟨hd, by rw [hfr, hstep.frames], g0, by omega, gle⟩
        | some p =>
          obtain ⟨vals, keys⟩ := p
          obtain ⟨_, hsat, hstep⟩ := hck
          obtain ⟨hor, _⟩ := z3Check_sat hc
          obtain ⟨fe', hfr⟩ := hh.frame (PModel.ofKeys vals keys) s1
          have hrec := hh.record vals keys s1
          rw [hfr] at hrec
          simp only [M.bind, hfr] at hrec ⊢
          have hfr2 : (objAt { s1 with fe := fe' } r).frames = (objAt s r).frames := hstep.frames
          have has2 : (objAt { s1 with fe := fe' } r).asserted = (objAt s r).asserted := by
            simp only [Z3Obj.asserted, hfr2]
          have hw := (satBy_assume _ _ _ (asgOf vals)).mp hsat
          cases isMax
          · simp only [Bool.false_eq_true, ↓reduceIte] at hcdef ⊢
            subst hcdef
            have hk := (rangeCon_iff signed e lo ((lo + hi) / 2) (asgOf vals) he h0 (by omega) (by omega) (by omega)).mp hw.2
            have hih := ih lo ((lo + hi) / 2) { s1 with fe := fe' } h0 (by omega) (by omega)
            have hpres := extremaLoop_pres (E := E) hh (H vals keys) (fun m s => hh.mono vals keys m s) r false e extra signed
              fuel lo ((lo + hi) / 2) { s1 with fe := fe' } hrec
            revert hih hpres
            generalize extremaLoop E r false e extra signed hook fuel lo ((lo + hi) / 2) { s1 with fe := fe' } = out
            rcases out with ⟨res3, s3⟩
            cases res3 with
            | error err => intros; trivial
            | ok p =>
              obtain ⟨lo', hi'⟩ := p
              simp only [Bool.false_eq_true, ↓reduceIte]
              rintro ⟨hd, hfr3, g0, g1, gle⟩ hpres
              rw [has2] at hd
              refine ⟨?_, by rw [hfr3, hfr2], g0, by omega, gle⟩
              rcases hd with hd | hd
              · right
                exact ⟨vals, keys, _, _, hor, ⟨hw.1, by rw [hd]; exact hk.2⟩, hpres⟩
              · exact Or.inr hd
          · simp only [↓reduceIte] at hcdef ⊢
            subst hcdef
            have hk := (rangeCon_iff signed e ((lo + hi) / 2) hi (asgOf vals) he (by omega) (by omega) (by omega) h1).mp hw.2
            have hih := ih ((lo + hi) / 2) hi { s1 with fe := fe' } (by omega) h1 (by omega)
            have hpres := extremaLoop_pres (E := E) hh (H vals keys) (fun m s => hh.mono vals keys m s) r true e extra signed
              fuel ((lo + hi) / 2) hi { s1 with fe := fe' } hrec
            revert hih hpres
            generalize extremaLoop E r true e extra signed hook fuel ((lo + hi) / 2) hi { s1 with fe := fe' } = out
            rcases out with ⟨res3, s3⟩
            cases res3 with
            | error err => intros; trivial
            | ok p =>
              obtain ⟨lo', hi'⟩ := p
              simp only [↓reduceIte]
              rintro ⟨hd, hfr3, g0, g1, gle⟩ hpres
              rw [has2] at hd
              refine ⟨?_, by rw [hfr3, hfr2], by omega, g1, gle⟩
              rcases hd with hd | hd
              · right
                exact ⟨vals, keys, _, _, hor, ⟨hw.1, by rw [hd]; exact hk.1⟩, hpres⟩
              · exact Or.inr hd
    · simp only [hgt, ↓reduceIte, pure, M.pure]
      exact ⟨Or.inl (by split <;> trivial), trivial, h0, h1, hle⟩

/-- `_extrema`: the optimum returned is witnessed by a recorded model, unless it is the bound the search started from -/
theorem z3Extrema_hooked (hE : OracleExact E) (hh : HookRec hook H) (r : Nat) (isMax : Bool) (e : Exp)
    (extra : List ZCon) (signed : Bool) (he : ExpWf e) (s : St) (hne : loOf signed e.bits ≤ hiOf signed e.bits) :
    match z3Extrema E r isMax e extra signed hook s with
    | (.ok i, s') =>
        i = (if isMax then loOf signed e.bits else hiOf signed e.bits) ∨
        Recorded E H s'.fe (fun vals => SatBy ((objAt s r).asserted ++ extra) (asgOf vals) ∧
          (if isMax then i ≤ keyOf signed e (asgOf vals) else keyOf signed e (asgOf vals) ≤ i))
    | (.error _, _) => True := by
  have hloop := extremaLoop_hooked (H := H) hE hh r isMax e extra signed he (e.bits + 1) (loOf signed e.bits)
    (hiOf signed e.bits) s (Int.le_refl _) (Int.le_refl _) hne
  simp only [z3Extrema, bind, M.bind]
  have hlo0 : (if signed = true then -((2 ^ (e.bits - 1) : Nat) : Int) else 0) = loOf signed e.bits := rfl
  have hhi0 : (if signed = true then ((2 ^ (e.bits - 1) : Nat) : Int) - 1 else ((2 ^ e.bits : Nat) : Int) - 1) = hiOf signed e.bits := rfl
  rw [hlo0, hhi0]
  rcases hl : extremaLoop E r isMax e extra signed hook (e.bits + 1) (loOf signed e.bits) (hiOf signed e.bits) s with ⟨res, s1⟩
  rw [hl] at hloop
  cases res with
  | error err => trivial
  | ok p =>
    obtain ⟨lo, hi⟩ := p
    obtain ⟨hd, hfr1, g0, g1, gle⟩ := hloop
    simp only
    have has1 : (objAt s1 r).asserted = (objAt s r).asserted := by simp only [Z3Obj.asserted, hfr1]
    have hck := z3Check_cases hE r (extra ++ [eqCon e (if isMax = true then hi else lo)]) s1
    have hfe := z3Check_fe E r (extra ++ [eqCon e (if isMax = true then hi else lo)]) s1
    rcases hc : z3Check E r (extra ++ [eqCon e (if isMax = true then hi else lo)]) s1 with ⟨res2, s2⟩
    rw [hc] at hck hfe
    simp only at hfe
    rw [has1] at hck
    cases res2 with
    | error err => trivial
    | ok v =>
      cases v with
      | none =>
        simp only [pure, M.pure]
        rw [hfe]
        cases isMax
        · simp only [Bool.false_eq_true, ↓reduceIte] at hd ⊢
          rcases hd with hd | hd
          · exact Or.inl hd
          · exact Or.inr hd
        · simp only [↓reduceIte] at hd ⊢
          rcases hd with hd | hd
          · exact Or.inl hd
          · exact Or.inr hd
      | some p =>
        obtain ⟨vals, keys⟩ := p
        obtain ⟨_, hsat, _⟩ := hck
        obtain ⟨hor, _⟩ := z3Check_sat hc
        obtain ⟨fe', hfr⟩ := hh.frame (PModel.ofKeys vals keys) s2
        have hrec := hh.record vals keys s2
        rw [hfr] at hrec
        simp only [M.bind, hfr, pure, M.pure] at hrec ⊢
        right
        have hw := (satBy_assume _ _ _ (asgOf vals)).mp hsat
        have hin0 : loOf signed e.bits ≤ (if isMax = true then hi else lo) := by split <;> omega
        have hin1 : (if isMax = true then hi else lo) ≤ hiOf signed e.bits := by split <;> omega
        have hk := (eqCon_iff signed e _ (asgOf vals) he hin0 hin1).mp hw.2
        refine ⟨vals, keys, _, _, hor, ⟨hw.1, ?_⟩, hrec⟩
        cases isMax
        · simp only [Bool.false_eq_true, ↓reduceIte] at hk ⊢
          exact Int.le_of_eq hk
        · simp only [↓reduceIte] at hk ⊢
          exact Int.le_of_eq hk.symm

end

end Claripy.Solver
