import ClaripyProofs.Lemmas.Solver.CompositeUpdate
/-!
`_reabsorb_solver`, the branch in which the parts of `split()` REPLACE the children (`_owned_solvers.add(p)`, `_store_child(p)` for
every part): the dict `_solvers` afterwards (`storeAll`, `storeAll_get_part`, `storeAll_get_other`), and the invariant
(`reabsorbReplaceKeeps`).  The parts know pairwise disjoint variable sets that cover the variables of the merged child, so every
merged child disappears from `_solvers`; the constraints WITHOUT variables of the merged child (the `CONCRETE` part of `split()`,
stored under no variable) are lost — harmlessly: the merged child is satisfiable (`_ensure_sat` has run), so they are true.
With `reabsorbKeeps_of_replace`: **`ReabsorbKeeps` is a theorem** (`reabsorbKeeps`).
-/
namespace Claripy.Solver

variable {R : Con → Prop} {RE : Exp → Prop} {E : Env}

/-- the body of the loop `for p in parts: self._owned_solvers.add(p); self._store_child(p)` -/
def replBody (p : Nat) : CM Unit := do
  CM.modifyC fun c => { c with owned := listInsert c.owned p }
  storeChild p

/-- one round of it on the composite's record (the world does not change) -/
def storeOne (w : World) (p : Nat) (c : Comp) : Comp :=
  { c with owned := listInsert c.owned p,
           solvers := (w.fes.getD p {}).variables.foldl (fun d v => alSet d v p) c.solvers,
           unchecked := listInsert c.unchecked p }

def storeAll (w : World) : List Nat → Comp → Comp
  | [], c => c
  | p :: rest, c => storeAll w rest (storeOne w p c)

theorem replBody_run (p : Nat) (s : CSt) : replBody p s = (.ok (), { s with c := storeOne s.w p s.c }) := rfl

theorem forM_replBody : ∀ (ps : List Nat) (s : CSt), ps.forM replBody s = (.ok (), { s with c := storeAll s.w ps s.c })
  | [], _ => rfl
  | p :: rest, s => by
    show ((do replBody p; rest.forM replBody) : CM Unit) s = _
    simp only [bind, CM.bind, replBody_run]
    rw [forM_replBody rest]
    rfl

theorem storeAll_unsat (w : World) : ∀ (ps : List Nat) (c : Comp), (storeAll w ps c).unsat = c.unsat
  | [], _ => rfl
  | p :: rest, c => by rw [storeAll, storeAll_unsat w rest]; rfl

theorem storeAll_nodup (w : World) : ∀ (ps : List Nat) (c : Comp), (keys c.solvers).Nodup → (keys (storeAll w ps c).solvers).Nodup
  | [], _, h => h
  | p :: rest, c, h => by
    rw [storeAll]
    exact storeAll_nodup w rest _ (keys_foldl_alSet_nodup _ _ _ h)

theorem storeAll_unchecked (w : World) : ∀ (ps : List Nat) (c : Comp) (j : Nat),
    j ∈ (storeAll w ps c).unchecked ↔ j ∈ c.unchecked ∨ j ∈ ps
  | [], _, _ => by simp [storeAll]
  | p :: rest, c, j => by
    rw [storeAll, storeAll_unchecked w rest]
    show j ∈ listInsert c.unchecked p ∨ j ∈ rest ↔ _
    rw [mem_listInsert]
    simp only [List.mem_cons]
    constructor
    · rintro ((h | h) | h)
      · exact Or.inl h
      · exact Or.inr (Or.inl h)
      · exact Or.inr (Or.inr h)
    · rintro (h | h | h)
      · exact Or.inl (Or.inl h)
      · exact Or.inl (Or.inr h)
      · exact Or.inr h

/-- a variable no part knows keeps its entry -/
theorem storeAll_get_other (w : World) : ∀ (ps : List Nat) (c : Comp) (v : Var), (∀ p ∈ ps, v ∉ (w.fes.getD p {}).variables) →
    alGet? (storeAll w ps c).solvers v = alGet? c.solvers v
  | [], _, _, _ => rfl
  | p :: rest, c, v, h => by
    rw [storeAll, storeAll_get_other w rest _ v (fun q hq => h q (List.mem_cons_of_mem _ hq))]
    show alGet? ((w.fes.getD p {}).variables.foldl (fun d v => alSet d v p) c.solvers) v = _
    rw [alGet?_foldl_alSet, if_neg (h p (by simp))]

/-- a variable of a part points to the part (the parts know pairwise disjoint variable sets) -/
theorem storeAll_get_part (w : World) : ∀ (ps : List Nat) (c : Comp),
    ps.Pairwise (fun p q => ∀ v ∈ (w.fes.getD p {}).variables, v ∉ (w.fes.getD q {}).variables) →
    ∀ p ∈ ps, ∀ v ∈ (w.fes.getD p {}).variables, alGet? (storeAll w ps c).solvers v = some p
  | [], _, _, _, hp, _, _ => by cases hp
  | q :: rest, c, hpw, p, hp, v, hv => by
    obtain ⟨h1, h2⟩ := List.pairwise_cons.mp hpw
    rw [storeAll]
    by_cases hpr : p ∈ rest
    · exact storeAll_get_part w rest _ h2 p hpr v hv
    · have hpq : p = q := by
        rcases List.mem_cons.mp hp with h | h
        · exact h
        · exact absurd h hpr
      subst hpq
      rw [storeAll_get_other w rest _ v (fun r hr => h1 r hr v hv)]
      show alGet? ((w.fes.getD p {}).variables.foldl (fun d v => alSet d v p) c.solvers) v = _
      rw [alGet?_foldl_alSet, if_pos hv]

section
variable (H : SolverHyps R RE E)
include H

/-- **`_reabsorb_solver` re-establishes the invariant in the branch where the parts replace the children** -/
theorem reabsorbReplaceKeeps : ReabsorbReplaceKeeps R RE E := by
  intro U Us s m h hm hkeys hsup hsem hsat hun hv hnm hrep s' hrun
  obtain ⟨t, ht⟩ := hkeys _ (minVar_mem _ hv)
  have htm : t ≠ m := by intro e; subst e; exact hnm ht
  obtain ⟨parts, s1, Us1, hsp, hc1, hk1, hre1, hlen1, hfr1, hparts1, hp1, hdisj, hcov, hsemP⟩ :=
    childSplit_spec H (childFoot H) h.kids h.reuse m hm (h.keysOk m hm) (h.exact m hm)
  have hcond := hrep parts s1 hsp
  have hrun2 : reabsorb E m s = (parts.forM replBody) s1 := by
    unfold reabsorb
    simp only [bind, CM.bind, CM.get]
    have hve : (s.child m).variables.isEmpty = false := by
      cases hx : (s.child m).variables with
      | nil => exact absurd hx hv
      | cons _ _ => rfl
    have hbeq : (t == m) = false := by simpa using htm
    simp only [hve, Bool.false_eq_true, ↓reduceIte, ht, hbeq]
    simp only [CM.bind]
    rw [hsp]
    simp only [CM.get, hcond, Bool.false_eq_true, ↓reduceIte]
    rfl
  rw [hrun2, forM_replBody] at hrun
  have hs' := (Prod.mk.inj hrun).2
  subst hs'
  rw [hc1]
  -- abbreviations
  have hsi := h.kids.each m hm
  have hP1 : ∀ p ∈ parts, ∀ v ∈ (s1.child p).variables, v ∈ (s.child m).variables := by
    intro p hp v hvp
    obtain ⟨q1, q2⟩ := hp1 p hp
    obtain ⟨c, hc, hvc⟩ := (hparts1 p q1 q2).exact v hvp
    exact hsi.base.vars c ((hparts1 p q1 q2).cons c hc) v hvc
  have hnd2 : (keys (storeAll s1.w parts s.c).solvers).Nodup := storeAll_nodup _ _ _ h.nodup
  have hG2 : ∀ v, v ∉ (s.child m).variables → alGet? (storeAll s1.w parts s.c).solvers v = alGet? s.c.solvers v :=
    fun v hvm => storeAll_get_other _ _ _ v (fun p hp hvp => hvm (hP1 p hp v hvp))
  have hG3 : ∀ p ∈ parts, ∀ v ∈ (s1.child p).variables, alGet? (storeAll s1.w parts s.c).solvers v = some p :=
    fun p hp v hvp => storeAll_get_part _ _ _ hdisj p hp v hvp
  have hG1 : ∀ v j, alGet? (storeAll s1.w parts s.c).solvers v = some j →
      (j ∈ parts ∧ v ∈ (s1.child j).variables) ∨ (v ∉ (s.child m).variables ∧ alGet? s.c.solvers v = some j) := by
    intro v j hvj
    by_cases hvm : v ∈ (s.child m).variables
    · obtain ⟨p, hp, hvp⟩ := hcov v hvm
      rw [hG3 p hp v hvp] at hvj
      have : p = j := Option.some.inj hvj
      subst this
      exact Or.inl ⟨hp, hvp⟩
    · rw [hG2 v hvm] at hvj
      exact Or.inr ⟨hvm, hvj⟩
  -- an old child that owns no variable of `m` shares no variable with `m`
  have hfar : ∀ j, j ∈ s.c.solverList → j ∉ s.c.solversFor (s.child m).variables → ∀ u ∈ (s.child j).variables,
      u ∉ (s.child m).variables := by
    intro j hj hjn u hu hum
    obtain ⟨v0, hv0⟩ := (mem_solverList' _ h.nodup j).mp hj
    exact hjn ((mem_solversFor _ _ _).mpr ⟨u, hum, h.cover v0 j hv0 u hu⟩)
  have holdOf : ∀ v j, v ∉ (s.child m).variables → alGet? s.c.solvers v = some j →
      j ∈ s.c.solverList ∧ j ∉ s.c.solversFor (s.child m).variables ∧ j < s.w.fes.length := by
    intro v j hvm hvj
    refine ⟨(mem_solverList' _ h.nodup j).mpr ⟨v, hvj⟩, fun hjs => ?_, (h.map v j hvj).1⟩
    exact hvm (hsup j hjs v (h.map v j hvj).2)
  have hltL : ∀ j ∈ s.c.solverList, j < s.w.fes.length := by
    intro j hj
    obtain ⟨u, hu⟩ := (mem_solverList' _ h.nodup j).mp hj
    exact (h.map u j hu).1
  -- a model of everything: the constraints without variables of `m` are true
  have hinL : ∀ j ∈ s.c.solversFor (s.child m).variables, j ∈ s.c.solverList := by
    intro j hj
    obtain ⟨n, _, hn⟩ := (mem_solversFor _ _ _).mp hj
    exact (mem_solverList' _ h.nodup j).mpr ⟨n, hn⟩
  obtain ⟨a0, ha0, _⟩ := children_joint_model H.reg h [] (fun _ => 0) (s.c.solversFor (s.child m).variables)
    (solversFor_nodup _ _) hinL (fun _ _ _ _ hk => (by cases hk)) hsat
  have hm0 : Models (s.child m).constraints a0 := by
    refine (h.child_models hm a0).mpr ((hsem a0).mpr fun t' ht' => ?_)
    exact (h.child_models (hltL t' (hinL t' ht')) a0).mp (ha0 t' ht')
  have htriv : ∀ a, ∀ c ∈ (s.child m).constraints, c.vars = [] → c.sem a = true := by
    intro a c hc hcv
    have hcw : ConWf c := H.reg.wf c (hsi.base.dinv.consR c hc)
    rw [hcw.1 a a0 (fun v hvc => by rw [hcv] at hvc; cases hvc)]
    exact hm0 c hc
  have hmemL : ∀ j, j ∈ (storeAll s1.w parts s.c).solverList ↔ ∃ v, alGet? (storeAll s1.w parts s.c).solvers v = some j :=
    fun j => mem_solverList' _ hnd2 j
  refine ⟨Us1, ⟨hk1, hre1, ?_, ?_, hnd2, ?_, ?_, ?_, ?_, ?_⟩⟩
  · intro j hj
    show KeysInv (s1.child j)
    by_cases hj0 : j < s.w.fes.length
    · rw [(hfr1 j hj0).1]; exact h.keysOk j hj0
    · exact (hparts1 j (by omega) hj).keys
  · intro j hj
    show ExactVars (s1.child j)
    by_cases hj0 : j < s.w.fes.length
    · rw [(hfr1 j hj0).1]; exact h.exact j hj0
    · exact (hparts1 j (by omega) hj).exact
  · -- map
    intro v j hvj
    rcases hG1 v j hvj with ⟨hjp, hvp⟩ | ⟨hvm, hold⟩
    · exact ⟨(hp1 j hjp).2, hvp⟩
    · obtain ⟨q1, q2⟩ := h.map v j hold
      refine ⟨Nat.lt_of_lt_of_le q1 hlen1, ?_⟩
      show v ∈ (s1.child j).variables
      rw [(hfr1 j q1).1]; exact q2
  · -- cover
    intro v j hvj u hu
    have hu' : u ∈ (s1.child j).variables := hu
    rcases hG1 v j hvj with ⟨hjp, _⟩ | ⟨hvm, hold⟩
    · exact hG3 j hjp u hu'
    · obtain ⟨hjl, hjn, hjlt⟩ := holdOf v j hvm hold
      rw [(hfr1 j hjlt).1] at hu'
      show alGet? (storeAll s1.w parts s.c).solvers u = some j
      rw [hG2 u (hfar j hjl hjn u hu')]
      exact h.cover v j hold u hu'
  · -- sem
    intro hun2 a
    rw [h.sem hun a]
    constructor
    · intro hall j hj
      obtain ⟨v, hvj⟩ := (hmemL j).mp hj
      rcases hG1 v j hvj with ⟨hjp, hvp⟩ | ⟨hvm, hold⟩
      · have hma : Models (s.child m).constraints a := by
          refine (h.child_models hm a).mpr ((hsem a).mpr fun t' ht' => hall t' ?_)
          obtain ⟨n, _, hn⟩ := (mem_solversFor _ _ _).mp ht'
          exact (mem_solverList' _ h.nodup t').mpr ⟨n, hn⟩
        exact ((hsemP a (htriv a)).mp hma) j hjp (by intro h0; rw [h0] at hvp; cases hvp)
      · obtain ⟨hjl, _, hjlt⟩ := holdOf v j hvm hold
        rw [(hfr1 j hjlt).2]; exact hall j hjl
    · intro hall j hj
      by_cases hjn : j ∈ s.c.solversFor (s.child m).variables
      · -- a merged child: through the parts
        have hma : Models (s.child m).constraints a := by
          refine (hsemP a (htriv a)).mpr fun p hp hne => hall p ?_
          obtain ⟨v, hvp⟩ := List.exists_mem_of_ne_nil _ hne
          exact (hmemL p).mpr ⟨v, hG3 p hp v hvp⟩
        exact (hsem a).mp ((h.child_models hm a).mp hma) j hjn
      · obtain ⟨v0, hv0⟩ := (mem_solverList' _ h.nodup j).mp hj
        have hv0m := hfar j hj hjn v0 (h.map v0 j hv0).2
        have := hall j ((hmemL j).mpr ⟨v0, by rw [hG2 v0 hv0m]; exact hv0⟩)
        rwa [(hfr1 j (hltL j hj)).2] at this
  · intro hu2
    have : (storeAll s1.w parts s.c).unsat = true := hu2
    rw [storeAll_unsat] at this
    exact h.unsatOk this
  · -- checked
    intro j hj hnu
    have hnu' : j ∉ (storeAll s1.w parts s.c).unchecked := hnu
    rw [storeAll_unchecked] at hnu'
    obtain ⟨v, hvj⟩ := (hmemL j).mp hj
    rcases hG1 v j hvj with ⟨hjp, _⟩ | ⟨hvm, hold⟩
    · exact absurd (Or.inr hjp) hnu'
    · obtain ⟨hjl, _, hjlt⟩ := holdOf v j hvm hold
      rw [(hfr1 j hjlt).2]
      exact h.checked j hjl (fun hc => hnu' (Or.inl hc))

/-- **`_reabsorb_solver` re-establishes the bookkeeping invariant** (both branches) -/
theorem reabsorbKeeps : ReabsorbKeeps R RE E := reabsorbKeeps_of_replace H (reabsorbReplaceKeeps H)

end

end Claripy.Solver
