import Claripy.Solver.Basic
/-!
Bit-pattern arithmetic used by the extrema search: two's complement reading, Z3's coercion of Python ints.
-/
namespace Claripy.Solver

theorem two_pow_pred (b : Nat) (hb : 1 ≤ b) : 2 ^ b = 2 * 2 ^ (b - 1) := by
  obtain ⟨k, rfl⟩ : ∃ k, b = k + 1 := ⟨b - 1, by omega⟩
  simp [Nat.pow_succ, Nat.mul_comm]

/-- lower / upper end of the range of `bits`-bit values in the chosen signedness -/
def loOf (signed : Bool) (bits : Nat) : Int := if signed then -((2 ^ (bits - 1) : Nat) : Int) else 0
def hiOf (signed : Bool) (bits : Nat) : Int :=
  if signed then ((2 ^ (bits - 1) : Nat) : Int) - 1 else ((2 ^ bits : Nat) : Int) - 1

theorem wrap_of_nonneg (b : Nat) (m : Int) (h0 : 0 ≤ m) (h1 : m < ((2 ^ b : Nat) : Int)) : ((wrap b m : Nat) : Int) = m := by
  unfold wrap
  rw [Int.emod_eq_of_lt h0 h1]
  omega

theorem wrap_of_neg (b : Nat) (m : Int) (h0 : m < 0) (h1 : -((2 ^ b : Nat) : Int) ≤ m) :
    ((wrap b m : Nat) : Int) = m + ((2 ^ b : Nat) : Int) := by
  unfold wrap
  have : m % ((2 ^ b : Nat) : Int) = m + ((2 ^ b : Nat) : Int) := by
    rw [← Int.add_mul_emod_self_left m ((2 ^ b : Nat) : Int) 1]
    simp only [Int.mul_one]
    exact Int.emod_eq_of_lt (by omega) (by omega)
  rw [this]
  omega

theorem wrap_lt (b : Nat) (m : Int) : wrap b m < 2 ^ b := by
  unfold wrap
  have hpos : (0 : Int) < ((2 ^ b : Nat) : Int) := by
    have : 0 < 2 ^ b := Nat.two_pow_pos b
    omega
  have h1 := Int.emod_lt_of_pos m hpos
  have h0 := Int.emod_nonneg m (by omega : ((2 ^ b : Nat) : Int) ≠ 0)
  omega

theorem key_unsigned (b v : Nat) (hv : v < 2 ^ b) : key false b v = (v : Int) := by
  simp [key, Nat.mod_eq_of_lt hv]

theorem key_signed (b v : Nat) (hb : 1 ≤ b) (hv : v < 2 ^ b) :
    key true b v = if v < 2 ^ (b - 1) then (v : Int) else (v : Int) - ((2 ^ b : Nat) : Int) := by
  have : b ≠ 0 := by omega
  simp [key, toSigned, this, Nat.mod_eq_of_lt hv]

/-- the key of a pattern lies in the range of its signedness -/
theorem key_range (signed : Bool) (b v : Nat) (hb : 1 ≤ b) (hv : v < 2 ^ b) :
    loOf signed b ≤ key signed b v ∧ key signed b v ≤ hiOf signed b := by
  have hP := two_pow_pred b hb
  cases signed
  · rw [key_unsigned b v hv]; simp only [loOf, hiOf, Bool.false_eq_true, ↓reduceIte]; omega
  · rw [key_signed b v hb hv]; simp only [loOf, hiOf, ↓reduceIte]
    split <;> omega

/-- for an integer `m` in range, the pattern Z3 coerces it to has key `m` -/
theorem key_wrap (signed : Bool) (b : Nat) (m : Int) (hb : 1 ≤ b) (h0 : loOf signed b ≤ m) (h1 : m ≤ hiOf signed b) :
    key signed b (wrap b m) = m := by
  have hP := two_pow_pred b hb
  have hw := wrap_lt b m
  cases signed
  · simp only [loOf, hiOf, Bool.false_eq_true, ↓reduceIte] at h0 h1
    rw [key_unsigned _ _ hw, wrap_of_nonneg b m h0 (by omega)]
  · simp only [loOf, hiOf, ↓reduceIte] at h0 h1
    rw [key_signed _ _ hb hw]
    by_cases hm : 0 ≤ m
    · have := wrap_of_nonneg b m hm (by omega)
      split <;> omega
    · have := wrap_of_neg b m (by omega) (by omega)
      split <;> omega

/-- the key determines the pattern -/
theorem key_inj (signed : Bool) (b v w : Nat) (hb : 1 ≤ b) (hv : v < 2 ^ b) (hw : w < 2 ^ b)
    (h : key signed b v = key signed b w) : v = w := by
  have hP := two_pow_pred b hb
  cases signed
  · rw [key_unsigned _ _ hv, key_unsigned _ _ hw] at h; omega
  · rw [key_signed _ _ hb hv, key_signed _ _ hb hw] at h
    split at h <;> split at h <;> omega

end Claripy.Solver
