import ClaripyProofs.Lemmas.Solver.CachelessAdd
/-!
`FullFrontend._get_solver` for TRACKED frontends as well (`track=True`, `reuse_z3_solver` off): `BackendZ3._add(track=True)`
names every assertion by its Z3 AST and skips a constraint whose name is already asserted; a finalized frontend with pending
constraints takes a fresh solver instead of a clone.  What makes this sound: equal Z3 ASTs mean equal constraints
(`ZidFaithful`), and the assertions of the object a tracked frontend refers to are conversions of registered constraints
(`TrackedOk` — blocking clauses only ever live in pushed frames).
-/
namespace Claripy.Solver

/-- equal Z3 ASTs (the names `assert_and_track` uses) mean equal constraints -/
def ZidFaithful (R : Con → Prop) : Prop := ∀ c c', R c → R c' → c.zid = c'.zid → ∀ a, c.sem a = c'.sem a

/-- `CoreInv` without the restriction to untracked frontends -/
structure CoreInvG (s : St) : Prop where
  toAdd_sub : ∀ a, holdsAll s.fe.constraints a = true → holdsAll s.fe.toAdd a = true
  obj : ∀ r, s.fe.solver = some r → r < s.objs.length ∧ (∃ f, (objAt s r).frames = [f]) ∧
        ∀ a, (SatBy (objAt s r).asserted a ∧ holdsAll s.fe.toAdd a = true) ↔ holdsAll s.fe.constraints a = true
  noReuse : s.reuse = false

/-- the assertions of the object a frontend refers to are conversions of registered constraints -/
def AssertedReg (R : Con → Prop) (s : St) (r : Nat) : Prop := ∀ z ∈ (objAt s r).asserted, ∃ c, R c ∧ z = ZCon.ofCon c

/-- the state `_get_solver` leaves behind, with the bookkeeping tracked frontends need -/
structure GotS (R : Con → Prop) (s s' : St) (r : Nat) : Prop extends GotSolver s s' r where
  areg : s.fe.track = true → AssertedReg R s' r

/-- the assertions `_add(track=True)` really makes: those whose name is new -/
def trackedFresh (names : List ZTag) (cs : List ZCon) : List ZCon :=
  cs.foldl (fun (acc : List ZCon) c => if (names ++ acc.map (·.tag)).contains c.tag then acc else acc ++ [c]) []

theorem trackedFresh_aux (names : List ZTag) (cs : List ZCon) : ∀ acc : List ZCon,
    let out := cs.foldl (fun (acc : List ZCon) c => if (names ++ acc.map (·.tag)).contains c.tag then acc else acc ++ [c]) acc
    (∀ z ∈ out, z ∈ acc ∨ z ∈ cs) ∧ (∀ z ∈ acc, z ∈ out) ∧
    (∀ c ∈ cs, c.tag ∈ names ∨ ∃ z ∈ out, z.tag = c.tag) := by
  induction cs with
  | nil => intro acc; simp
  | cons c cs ih =>
    intro acc
    simp only [List.foldl_cons]
    by_cases hc : (names ++ acc.map (·.tag)).contains c.tag = true
    · rw [if_pos hc]
      obtain ⟨h1, h2, h3⟩ := ih acc
      refine ⟨fun z hz => (h1 z hz).elim Or.inl (fun h => Or.inr (List.mem_cons_of_mem _ h)), h2, ?_⟩
      intro c' hc'
      rcases List.mem_cons.mp hc' with rfl | hc'
      · have : c'.tag ∈ names ++ acc.map (·.tag) := by simpa using hc
        rcases List.mem_append.mp this with h | h
        · exact Or.inl h
        · obtain ⟨z, hz, hzt⟩ := List.mem_map.mp h
          exact Or.inr ⟨z, h2 z hz, hzt⟩
      · exact h3 c' hc'
    · rw [if_neg hc]
      obtain ⟨h1, h2, h3⟩ := ih (acc ++ [c])
      refine ⟨fun z hz => ?_, fun z hz => h2 z (List.mem_append_left _ hz), ?_⟩
      · rcases h1 z hz with h | h
        · rcases List.mem_append.mp h with h | h
          · exact Or.inl h
          · simp at h; subst h; exact Or.inr List.mem_cons_self
        · exact Or.inr (List.mem_cons_of_mem _ h)
      · intro c' hc'
        rcases List.mem_cons.mp hc' with rfl | hc'
        · exact Or.inr ⟨c', h2 c' (by simp), rfl⟩
        · exact h3 c' hc'

theorem trackedFresh_spec (names : List ZTag) (cs : List ZCon) :
    (∀ z ∈ trackedFresh names cs, z ∈ cs) ∧
    (∀ c ∈ cs, c.tag ∈ names ∨ ∃ z ∈ trackedFresh names cs, z.tag = c.tag) := by
  obtain ⟨h1, _, h3⟩ := trackedFresh_aux names cs []
  exact ⟨fun z hz => (h1 z hz).elim (fun h => by simp at h) id, h3⟩

theorem z3Add_tracked (r : Nat) (cs : List ZCon) (s : St) :
    z3Add r cs true s =
      (.ok (), { s with objs := s.objs.set r ((objAt s r).addTop (trackedFresh (objAt s r).trackedNames cs)) }) := rfl

/-- asserting the converted constraints, tracked, on top of assertions that are conversions of registered constraints:
afterwards the object says what the old assertions and the constraints say together -/
theorem tracked_add_sem {R : Con → Prop} (hZ : ZidFaithful R) (asserted : List ZCon) (cons : List Con)
    (hA : ∀ z ∈ asserted, ∃ c, R c ∧ z = ZCon.ofCon c) (hC : ∀ c ∈ cons, R c) (a : Asg) :
    SatBy (asserted ++ trackedFresh (asserted.map (·.tag)) (cons.map ZCon.ofCon)) a ↔
      SatBy asserted a ∧ holdsAll cons a = true := by
  obtain ⟨h1, h2⟩ := trackedFresh_spec (asserted.map (·.tag)) (cons.map ZCon.ofCon)
  rw [SatBy.append]
  refine and_congr_right fun hsa => ?_
  constructor
  · intro hf
    rw [← models_iff_holdsAll]
    intro c hc
    rcases h2 (ZCon.ofCon c) (List.mem_map.mpr ⟨c, hc, rfl⟩) with ht | ⟨z, hz, hzt⟩
    · obtain ⟨z, hz, hzt⟩ := List.mem_map.mp ht
      obtain ⟨c0, hc0, rfl⟩ := hA z hz
      have hzid : c0.zid = c.zid := by simpa [ZCon.ofCon] using hzt
      rw [← hZ c0 c hc0 (hC c hc) hzid a]
      exact hsa _ hz
    · obtain ⟨c1, hc1, rfl⟩ := List.mem_map.mp (h1 z hz)
      have hzid : c1.zid = c.zid := by simpa [ZCon.ofCon] using hzt
      rw [← hZ c1 c (hC c1 hc1) (hC c hc) hzid a]
      exact hf _ hz
  · intro hc z hz
    obtain ⟨c1, hc1, rfl⟩ := List.mem_map.mp (h1 z hz)
    exact (models_iff_holdsAll cons a).mpr hc c1 hc1

theorem tracked_add_reg {R : Con → Prop} (asserted : List ZCon) (cons : List Con)
    (hA : ∀ z ∈ asserted, ∃ c, R c ∧ z = ZCon.ofCon c) (hC : ∀ c ∈ cons, R c) :
    ∀ z ∈ asserted ++ trackedFresh (asserted.map (·.tag)) (cons.map ZCon.ofCon), ∃ c, R c ∧ z = ZCon.ofCon c := by
  obtain ⟨h1, _⟩ := trackedFresh_spec (asserted.map (·.tag)) (cons.map ZCon.ofCon)
  intro z hz
  rcases List.mem_append.mp hz with hz | hz
  · exact hA z hz
  · obtain ⟨c1, hc1, rfl⟩ := List.mem_map.mp (h1 z hz)
    exact ⟨c1, hC c1 hc1, rfl⟩

theorem CoreInvG.toCore {s : St} (h : CoreInvG s) (ht : s.fe.track = false) : CoreInv s :=
  ⟨h.toAdd_sub, h.obj, h.noReuse, ht⟩

/-- a fresh solver object with the constraints asserted (tracked) -/
def freshTracked (s : St) : St :=
  let o := objAt { s with objs := s.objs ++ [({} : Z3Obj)] } s.objs.length
  { s with objs := (s.objs ++ [({} : Z3Obj)]).set s.objs.length
             (o.addTop (trackedFresh o.trackedNames (s.fe.constraints.map ZCon.ofCon))),
           fe := { s.fe with solver := some s.objs.length, toAdd := [] } }

theorem objAt_fresh (s : St) : objAt { s with objs := s.objs ++ [({} : Z3Obj)] } s.objs.length = {} := by
  simp [objAt, List.getD]

theorem getSolver_tracked_none (s : St) (hr : s.reuse = false) (ht : s.fe.track = true) (hsol : s.fe.solver = none) :
    getSolver s = (.ok s.objs.length, freshTracked s) := by
  obtain ⟨fe, objs, reuse, shared, tick, qlog⟩ := s
  obtain ⟨f1, f2, f3, f4, track, solver, f7, f8, f9, f10, f11, f12, f13, f14, f15, f16, f17⟩ := fe
  simp only at hr ht hsol
  subst hr ht hsol
  rfl

theorem getSolver_tracked_idle (s : St) (hr : s.reuse = false) (r : Nat) (hsol : s.fe.solver = some r)
    (hta : s.fe.toAdd = []) : getSolver s = (.ok r, s) := by
  obtain ⟨fe, objs, reuse, shared, tick, qlog⟩ := s
  obtain ⟨f1, f2, f3, f4, track, solver, toAdd, f8, f9, f10, f11, f12, f13, f14, f15, f16, f17⟩ := fe
  simp only at hr hsol hta
  subst hr hsol hta
  cases f4 <;> rfl

theorem getSolver_tracked_finalized (s : St) (hr : s.reuse = false) (ht : s.fe.track = true) (r : Nat)
    (hsol : s.fe.solver = some r) (hta : s.fe.toAdd ≠ []) (hfz : s.fe.finalized = true) :
    getSolver s = (.ok s.objs.length, freshTracked s) := by
  obtain ⟨fe, objs, reuse, shared, tick, qlog⟩ := s
  obtain ⟨f1, f2, f3, fin, track, solver, toAdd, f8, f9, f10, f11, f12, f13, f14, f15, f16, f17⟩ := fe
  simp only at hr ht hsol hta hfz
  subst hr ht hsol hfz
  cases toAdd with
  | nil => exact absurd rfl hta
  | cons t ts => rfl

theorem getSolver_tracked_pending (s : St) (hr : s.reuse = false) (ht : s.fe.track = true) (r : Nat)
    (hsol : s.fe.solver = some r) (hta : s.fe.toAdd ≠ []) (hfz : s.fe.finalized = false) :
    getSolver s = (.ok r, { s with
      objs := s.objs.set r ((objAt s r).addTop (trackedFresh (objAt s r).trackedNames (s.fe.constraints.map ZCon.ofCon))),
      fe := { s.fe with toAdd := [] } }) := by
  obtain ⟨fe, objs, reuse, shared, tick, qlog⟩ := s
  obtain ⟨f1, f2, f3, fin, track, solver, toAdd, f8, f9, f10, f11, f12, f13, f14, f15, f16, f17⟩ := fe
  simp only at hr ht hsol hta hfz
  subst hr ht hsol hfz
  cases toAdd with
  | nil => exact absurd rfl hta
  | cons t ts => rfl

theorem objAt_set_self' (s : St) (l : List Z3Obj) (n : Nat) (o : Z3Obj) (fe : Frontend) (hn : n < l.length) :
    objAt { s with objs := l.set n o, fe := fe } n = o := by
  simp [objAt, List.getD, hn]

/-- what a fresh tracked solver object looks like -/
theorem freshTracked_got {R : Con → Prop} (hZ : ZidFaithful R) (s : St) (hC : ∀ c ∈ s.fe.constraints, R c) :
    GotS R s (freshTracked s) s.objs.length := by
  have ho := objAt_fresh s
  have hfresh : freshTracked s = { s with
      objs := (s.objs ++ [({} : Z3Obj)]).set s.objs.length
        (({} : Z3Obj).addTop (trackedFresh (([] : List ZCon).map (·.tag)) (s.fe.constraints.map ZCon.ofCon))),
      fe := { s.fe with solver := some s.objs.length, toAdd := [] } } := by
    unfold freshTracked
    simp only [ho]
    rfl
  have hobj : objAt (freshTracked s) s.objs.length =
      ({} : Z3Obj).addTop (trackedFresh (([] : List ZCon).map (·.tag)) (s.fe.constraints.map ZCon.ofCon)) := by
    rw [hfresh]; exact objAt_set_self' s _ _ _ _ (by simp)
  have hasr : (objAt (freshTracked s) s.objs.length).asserted =
      [] ++ trackedFresh (([] : List ZCon).map (·.tag)) (s.fe.constraints.map ZCon.ofCon) := by
    rw [hobj, Z3Obj.asserted_addTop]; rfl
  refine ⟨⟨by rw [hfresh], by rw [hfresh]; simp, ?_, ?_, ?_, by rw [hfresh]; simp, Or.inr (Or.inl (Nat.le_refl _)),
    by rw [hfresh], by rw [hfresh]⟩, fun _ => ?_⟩
  · exact ⟨[] ++ trackedFresh (([] : List ZCon).map (·.tag)) (s.fe.constraints.map ZCon.ofCon), by rw [hobj]; rfl⟩
  · intro a
    rw [hasr, tracked_add_sem hZ [] s.fe.constraints (by simp) hC a]
    simp [SatBy]
  · intro i hi hne
    rw [hfresh]
    simp [List.getElem?_append_left hi]
  · intro z hz
    rw [hasr] at hz
    exact tracked_add_reg [] s.fe.constraints (by simp) hC z hz

theorem getSolverG_spec {R : Con → Prop} (hZ : ZidFaithful R) (s : St) (h : CoreInvG s) (hC : ∀ c ∈ s.fe.constraints, R c)
    (hA : s.fe.track = true → ∀ r, s.fe.solver = some r → AssertedReg R s r) :
    match getSolver s with
    | (.ok r, s') => GotS R s s' r
    | (.error _, _) => False := by
  cases ht : s.fe.track with
  | false =>
    have := getSolver_spec s (h.toCore ht)
    revert this
    generalize getSolver s = res
    rcases res with ⟨r, s'⟩
    cases r with
    | error e => exact id
    | ok r => exact fun hg => ⟨hg, fun hh => by rw [ht] at hh; cases hh⟩
  | true =>
    have hr := h.noReuse
    cases hsol : s.fe.solver with
    | none =>
      rw [getSolver_tracked_none s hr ht hsol]
      exact freshTracked_got hZ s hC
    | some r =>
      obtain ⟨hlt, ⟨f, hf⟩, hsem⟩ := h.obj r hsol
      by_cases hta : s.fe.toAdd = []
      · -- nothing pending
        rw [getSolver_tracked_idle s hr r hsol hta]
        refine ⟨⟨?_, hlt, ⟨f, hf⟩, ?_, fun _ _ _ => rfl, Nat.le_refl _, Or.inr (Or.inr ⟨hsol, hta, rfl⟩), rfl, rfl⟩,
          fun _ => hA ht r hsol⟩
        · cases hfe : s.fe; simp [hfe] at hsol hta ⊢; simp [hsol, hta]
        · intro a
          have := hsem a
          rw [hta] at this
          simpa [holdsAll_nil] using this
      · cases hfz : s.fe.finalized with
        | true =>
          rw [getSolver_tracked_finalized s hr ht r hsol hta hfz]
          exact freshTracked_got hZ s hC
        | false =>
          rw [getSolver_tracked_pending s hr ht r hsol hta hfz]
          have hnames : (objAt s r).trackedNames = (objAt s r).asserted.map (·.tag) := rfl
          have hobj : objAt { s with
              objs := s.objs.set r ((objAt s r).addTop (trackedFresh (objAt s r).trackedNames (s.fe.constraints.map ZCon.ofCon))),
              fe := { s.fe with toAdd := [] } } r =
              (objAt s r).addTop (trackedFresh (objAt s r).trackedNames (s.fe.constraints.map ZCon.ofCon)) :=
            objAt_set_self' s _ _ _ _ hlt
          have hAr := hA ht r hsol
          refine ⟨⟨?_, by simpa using hlt, ?_, ?_, ?_, by simp, Or.inl ⟨hsol, hfz⟩, rfl, rfl⟩, fun _ => ?_⟩
          · cases hfe : s.fe; simp [hfe] at hsol ⊢; simp [hsol]
          · exact ⟨f ++ trackedFresh (objAt s r).trackedNames (s.fe.constraints.map ZCon.ofCon), by
              rw [hobj]; simp [Z3Obj.addTop, hf]⟩
          · intro a
            rw [hobj, Z3Obj.asserted_addTop, hnames, tracked_add_sem hZ _ s.fe.constraints hAr hC a]
            constructor
            · exact fun hh => hh.2
            · intro hc
              exact ⟨((hsem a).mpr hc).1, hc⟩
          · intro i hi hne
            simp [Ne.symm hne]
          · intro z hz
            rw [hobj, Z3Obj.asserted_addTop, hnames] at hz
            exact tracked_add_reg _ s.fe.constraints hAr hC z hz

end Claripy.Solver
