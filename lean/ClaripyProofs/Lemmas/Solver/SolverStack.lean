import ClaripyProofs.Lemmas.Solver.SolverAdd
import ClaripyProofs.Lemmas.Solver.SolverExtremum
/-!
The class `Solver` as the model composes it from the GENERATED method resolution order, layer by layer, and the methods
that do not depend on `self`: `simplify`, `downsize`, `_model_hook`, `_concrete_value`, `_concrete_constraint`.
-/
namespace Claripy.Solver
open Claripy.Gen.SolverMro

variable {R : Con → Prop} {RE : Exp → Prop} {E : Env} {G : St → Prop} {U : List Con}

/-! ### the stack -/

def sL0 (E : Env) (self : Ops) : Ops := fullLayer E self (constrainedLayer E self frontendBase)
def sL1 (E : Env) (self : Ops) : Ops := helperLayer self (sL0 E self)
def sL2 (E : Env) (self : Ops) : Ops := expansionLayer E self (sL1 E self)
def sL3 (E : Env) (self : Ops) : Ops := modelCacheLayer E self (sL2 E self)
def sL4 (E : Env) (self : Ops) : Ops := satCacheLayer E self (sL3 E self)
def sL5 (E : Env) (self : Ops) : Ops := skipperLayer self (sL4 E self)
def sL6 (E : Env) (self : Ops) : Ops := dedupLayer self (sL5 E self)
def sL7 (E : Env) (self : Ops) : Ops := filterLayer E self (sL6 E self)
def sL8 (E : Env) (self : Ops) : Ops := eagerLayer self (sL7 E self)
def sL9 (E : Env) (self : Ops) : Ops := concreteHandlerLayer self (sL8 E self)

/-- the class `Solver`, one unrolling of `self` -/
theorem compose_solver (E : Env) (self : Ops) : compose E (mro .Solver) self = sL9 E self := rfl

/-- the class seen through `self` inside its own methods (`k + 1` unrollings) -/
def solStage (E : Env) (k : Nat) : Ops := stage E (mro .Solver) (k + 1)

theorem solStage_eq (E : Env) (k : Nat) : solStage E (k + 1) = sL9 E (solStage E k) := rfl
theorem solStage_zero (E : Env) : solStage E 0 = sL9 E frontendBase := rfl
theorem classOps_solver (E : Env) : classOps E .Solver = solStage E 4 := rfl

/-! ### methods that do not depend on `self` -/

theorem sL9_modelHook (E : Env) (self : Ops) : (sL9 E self).modelHook = mcHook := rfl
theorem sL9_concreteCon (E : Env) (self : Ops) (c : Con) : (sL9 E self).concreteCon c = c.conc := rfl
theorem sL9_concreteValue (E : Env) (self : Ops) (e : Exp) : (sL9 E self).concreteValue e = e.conc := rfl

/-- `simplify` does not depend on `self` -/
theorem sL9_simplify_self (E : Env) (self self' : Ops) : (sL9 E self).simplify = (sL9 E self').simplify := rfl

theorem sL9_downsize (E : Env) (self : Ops) (s : St) : (sL9 E self).downsize s = (.ok (), clDownsizeSt s) := rfl

/-! ### `simplify` -/

/-- SatCacheMixin.simplify after `super().simplify()` returned `out` -/
def scSimpFe (out : List Con) (fe : Frontend) : Frontend :=
  let fe1 := if !out.isEmpty && out.any (·.isFalse) then { fe with cachedSat := some false } else fe
  match fe1.cachedCore with
  | some core => if core.any (fun c => !(out.any fun c' => c'.id == c.id)) then { fe1 with cachedCore := none } else fe1
  | none => fe1

theorem scSimpFe_fields (out : List Con) (fe : Frontend) :
    scSimpFe out fe = { fe with cachedSat := (scSimpFe out fe).cachedSat, cachedCore := (scSimpFe out fe).cachedCore } := by
  unfold scSimpFe
  by_cases hF : (!out.isEmpty && out.any (·.isFalse)) = true
  · simp only [hF, ↓reduceIte]
    split
    · split <;> rfl
    · rfl
  · simp only [hF, Bool.false_eq_true, ↓reduceIte]
    split
    · split <;> rfl
    · rfl

theorem scSimpFe_cachedSat (out : List Con) (fe : Frontend) :
    (scSimpFe out fe).cachedSat = if !out.isEmpty && out.any (·.isFalse) then some false else fe.cachedSat := by
  unfold scSimpFe
  by_cases hF : (!out.isEmpty && out.any (·.isFalse)) = true
  · simp only [hF, ↓reduceIte]
    split
    · split <;> rfl
    · rfl
  · simp only [hF, Bool.false_eq_true, ↓reduceIte]
    split
    · split <;> rfl
    · rfl

/-- the state after `simplify()` of the class -/
def solSimplifySt (E : Env) (s : St) : List Con × St :=
  if s.fe.simplified then
    (s.fe.constraints, { s with fe := { s.fe with hashes := listUnion s.fe.hashes (s.fe.constraints.map (·.id)) } })
  else
    let out := if s.fe.constraints.isEmpty then s.fe.constraints else E.simp s.fe.constraints s.tick
    let fe1 : Frontend := { s.fe with simplified := true, constraints := out, solver := none, toAdd := [] }
    let fe2 : Frontend := if !out.isEmpty && out.any (·.isFalse) then { fe1 with models := [] } else fe1
    let fe3 := scSimpFe out fe2
    (out, { s with tick := if s.fe.constraints.isEmpty then s.tick else s.tick + 1,
                   fe := { fe3 with hashes := listUnion fe3.hashes (out.map (·.id)) } })

theorem sL9_simplify (E : Env) (self : Ops) (s : St) :
    (sL9 E self).simplify s = (.ok (solSimplifySt E s).1, (solSimplifySt E s).2) := by
  show (do
    let added ← (do
      let fe ← M.getFe
      if fe.simplified then pure fe.constraints
      else do
        M.modifyFe fun fe => { fe with simplified := true }
        (do
          let cs ← (do
            let results ← (do
              let _ ← (do
                let fe ← M.getFe
                if fe.constraints.isEmpty then pure fe.constraints
                else do
                  let s ← M.get
                  let out := E.simp fe.constraints s.tick
                  M.modify fun s => { s with tick := s.tick + 1, fe := { s.fe with constraints := out } }
                  pure out)
              M.modifyFe fun fe => { fe with solver := none, toAdd := [] }
              let fe ← M.getFe
              pure fe.constraints)
            if !results.isEmpty && results.any (·.isFalse) then
              M.modifyFe fun fe => { fe with models := [] }
            pure results)
          if !cs.isEmpty && cs.any (·.isFalse) then M.modifyFe fun fe => { fe with cachedSat := some false }
          M.modifyFe fun fe =>
            match fe.cachedCore with
            | some core => if core.any (fun c => !(cs.any fun c' => c'.id == c.id)) then { fe with cachedCore := none } else fe
            | none => fe
          pure cs))
    M.modifyFe fun fe => { fe with hashes := listUnion fe.hashes (added.map (·.id)) }
    pure added : M (List Con)) s = _
  unfold solSimplifySt
  simp only [bind, M.bind, M.getFe_apply]
  cases hsimp : s.fe.simplified with
  | true => simp [pure, M.pure, M.modifyFe_apply, hsimp]
  | false =>
    simp only [Bool.false_eq_true, ↓reduceIte, M.bind, M.modifyFe_apply, M.getFe_apply]
    by_cases hemp : s.fe.constraints.isEmpty = true
    · have hnil : s.fe.constraints = [] := by simpa using hemp
      simp only [↓reduceIte, pure, M.pure, M.bind, M.modifyFe_apply, hnil, List.isEmpty_nil,
        Bool.not_true, Bool.false_and, Bool.false_eq_true, scSimpFe]
    · simp only [hemp, Bool.false_eq_true, ↓reduceIte, M.bind, M.get_apply, M.modify_apply, pure, M.pure,
        ]
      by_cases hF : (!(E.simp s.fe.constraints s.tick).isEmpty && (E.simp s.fe.constraints s.tick).any (·.isFalse)) = true
      · simp only [hF, ↓reduceIte, M.bind, M.modifyFe_apply, M.pure_apply', scSimpFe]
      · simp only [hF, Bool.false_eq_true, ↓reduceIte, M.bind, M.modifyFe_apply, M.pure_apply', scSimpFe]

end Claripy.Solver
