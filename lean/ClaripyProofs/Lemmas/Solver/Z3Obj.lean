import ClaripyProofs.Lemmas.Solver.Basic
/-!
L1, part 1: the Z3 object operations and `z3_solver_sat`.
-/
namespace Claripy.Solver

def SatBy (cs : List ZCon) (a : Asg) : Prop := ∀ c ∈ cs, c.sem a = true

theorem Query.holds_iff (q : Query) (a : Asg) : q.holds a = true ↔ SatBy q.all a := by
  simp [Query.holds, SatBy, List.all_eq_true]

theorem Query.holds_false_iff (q : Query) (a : Asg) : q.holds a = false ↔ ¬ SatBy q.all a := by
  rw [← Query.holds_iff]; cases q.holds a <;> simp

/-- what an operation on the Z3 object `r` may change: nothing about the other objects, nothing about the
backend flags; `frames` says how the assertion frames of `r` changed -/
structure ObjStep (r : Nat) (s s' : St) : Prop where
  len : s'.objs.length = s.objs.length
  other : ∀ i, i ≠ r → s'.objs[i]? = s.objs[i]?
  reuse : s'.reuse = s.reuse
  shared : s'.shared = s.shared

theorem ObjStep.refl (r : Nat) (s : St) : ObjStep r s s := ⟨rfl, fun _ _ => rfl, rfl, rfl⟩

theorem ObjStep.trans {r : Nat} {s s' s'' : St} (h1 : ObjStep r s s') (h2 : ObjStep r s' s'') : ObjStep r s s'' :=
  ⟨h2.len.trans h1.len, fun i hi => (h2.other i hi).trans (h1.other i hi), h2.reuse.trans h1.reuse,
   h2.shared.trans h1.shared⟩

def objAt (s : St) (r : Nat) : Z3Obj := s.objs.getD r {}

theorem objAt_set (s : St) (r : Nat) (o : Z3Obj) (h : r < s.objs.length) :
    objAt { s with objs := s.objs.set r o } r = o := by
  simp [objAt, List.getD, h]

@[simp] theorem getObj_apply (r : Nat) (s : St) : getObj r s = (.ok (objAt s r), s) := rfl

@[simp] theorem setObj_apply (r : Nat) (o : Z3Obj) (s : St) :
    setObj r o s = (.ok (), { s with objs := s.objs.set r o }) := rfl

theorem setObj_step (r : Nat) (o : Z3Obj) (s : St) : ObjStep r s { s with objs := s.objs.set r o } :=
  ⟨by simp, fun i hi => by simp [Ne.symm hi], rfl, rfl⟩

theorem Z3Obj.asserted_addTop (o : Z3Obj) (cs : List ZCon) : (o.addTop cs).asserted = o.asserted ++ cs := by
  unfold Z3Obj.addTop Z3Obj.asserted
  cases h : o.frames with
  | nil => simp
  | cons f rest => simp

/-- the effect of one `z3_solver_sat` call, spelled out -/
theorem z3Check_eq (E : Env) (r : Nat) (asm : List ZCon) (s : St) :
    z3Check E r asm s =
      (let o := objAt s r
       let q : Query := { asserted := o.asserted, assumptions := asm }
       let ans := E.oracle q s.tick
       let s1 : St := { s with tick := s.tick + 1, qlog := (q, ans) :: s.qlog }
       match ans with
       | .unknown => (.error .giveUp, s1)
       | .unsat core => (.ok none, { s1 with objs := s1.objs.set r { o with lastCore := core } })
       | .sat vals keys => (.ok (some (vals, keys)), { s1 with objs := s1.objs.set r { o with lastCore := [] } })) := by
  simp only [z3Check, bind, M.bind, getObj_apply, M.get_apply, M.modify_apply]
  cases h : E.oracle { asserted := (objAt s r).asserted, assumptions := asm } s.tick <;>
    simp [M.throw, setObj, M.modify, pure, M.pure, M.bind]

end Claripy.Solver

namespace Claripy.Solver

/-- a solver check changes, of the state the frontends see, only `lastCore` of the object (and the event counter) -/
structure CheckStep (r : Nat) (s s' : St) : Prop extends ObjStep r s s' where
  frames : (objAt s' r).frames = (objAt s r).frames
  fe : s'.fe = s.fe

theorem objAt_frames_set_lastCore (s : St) (r : Nat) (core : List Nat) (t : Nat) (ql : List (Query × Answer)) :
    (objAt { s with tick := t, qlog := ql, objs := s.objs.set r { objAt s r with lastCore := core } } r).frames
      = (objAt s r).frames := by
  by_cases h : r < s.objs.length
  · simp [objAt, List.getD, h]
  · simp [objAt, List.getD, h]

theorem z3Check_cases {E : Env} (hE : OracleExact E) (r : Nat) (asm : List ZCon) (s : St) :
    match z3Check E r asm s with
    | (.ok none, s') => (∀ a, ¬ SatBy ((objAt s r).asserted ++ asm) a) ∧ CheckStep r s s'
    | (.ok (some (vals, keys)), s') =>
        PartialModelOf (PModel.ofKeys vals keys) ((objAt s r).asserted ++ asm) ∧
        SatBy ((objAt s r).asserted ++ asm) (asgOf vals) ∧ CheckStep r s s'
    | (.error e, s') => IsGiveUp E e ∧ CheckStep r s s' := by
  rw [z3Check_eq]
  have hx := hE { asserted := (objAt s r).asserted, assumptions := asm } s.tick
  have step : ∀ core, CheckStep r s
      { s with tick := s.tick + 1,
               qlog := (({ asserted := (objAt s r).asserted, assumptions := asm } : Query),
                        E.oracle { asserted := (objAt s r).asserted, assumptions := asm } s.tick) :: s.qlog,
               objs := s.objs.set r { objAt s r with lastCore := core } } := by
    intro core
    refine ⟨⟨by simp, fun i hi => by simp [Ne.symm hi], rfl, rfl⟩, ?_, rfl⟩
    exact objAt_frames_set_lastCore s r core _ _
  cases h : E.oracle { asserted := (objAt s r).asserted, assumptions := asm } s.tick with
  | unknown =>
    simp only [h]
    refine ⟨⟨rfl, _, _, h⟩, ⟨⟨rfl, fun _ _ => rfl, rfl, rfl⟩, rfl, rfl⟩⟩
  | unsat core =>
    simp only [h] at hx ⊢
    refine ⟨fun a ha => ?_, ?_⟩
    · have := hx a
      rw [Query.holds_false_iff] at this
      exact this ha
    · have := step core; rw [h] at this; exact this
  | sat vals keys =>
    simp only [h] at hx ⊢
    have hp : PartialModelOf (PModel.ofKeys vals keys) ((objAt s r).asserted ++ asm) := by
      intro a ha c hc
      have hq := hx a (fun v hv => ha v _ (by rw [PModel.get?_ofKeys]; simp [hv, asgOf]))
      rw [Query.holds_iff] at hq
      exact hq c hc
    refine ⟨hp, ?_, ?_⟩
    · have hq := hx (asgOf vals) (fun v _ => rfl)
      rw [Query.holds_iff] at hq
      exact hq
    · have := step []; rw [h] at this; exact this

end Claripy.Solver
