import ClaripyProofs.Lemmas.Solver.SolverChild
/-!
SolverCompositeChild, whole histories over trees of branched solvers: the world invariant `TInvS` of the class `Solver`.
-/
namespace Claripy.Solver
open Claripy.Gen.SolverMro

variable {R : Con → Prop} {RE : Exp → Prop} {E : Env}

/-- calls in scope for the child class: there is no ConcreteHandlerMixin, so queried expressions are symbolic (the composite
parent answers the concrete ones itself) -/
def InScopeC (R : Con → Prop) (RE : Exp → Prop) : Op → Prop
  | .add cs => ∀ c ∈ cs, R c
  | .satisfiable _ => True
  | .eval e n _ => RE e ∧ e.conc = none ∧ 1 ≤ n
  | .batchEval es n _ => es ≠ [] ∧ (∀ e ∈ es, RE e ∧ e.conc = none) ∧ 1 ≤ n
  | .min e _ _ | .max e _ _ => RE e ∧ e.conc = none
  | .solution e v _ => e.conc = none ∧ v < 2 ^ e.bits
  | .isTrue _ _ | .isFalse _ _ => True
  | .simplify | .downsize | .branch | .pickle => True
  | _ => False

theorem chStage_hook (E : Env) (k : Nat) : (chStage E k).modelHook = mcHook := by
  cases k <;> rfl

def branchC (E : Env) : M Frontend := do let fe ← M.getFe; (chStage E 4).copy ((chStage E 4).blankCopy fe {})

theorem branchC_spec (E : Env) (s : St) :
    ∃ c, branchC E s = (.ok c, { s with fe := { s.fe with finalized := true } }) ∧
      c.constraints = s.fe.constraints ∧ c.toAdd = s.fe.toAdd ∧ c.solver = s.fe.solver ∧ c.track = s.fe.track ∧
      c.hashes = s.fe.hashes ∧ c.woAnnot = s.fe.woAnnot ∧ c.finalized = true ∧ c.variables = s.fe.variables ∧
      mcFields c = mcFields s.fe ∧ c.cachedSat = s.fe.cachedSat :=
  ⟨_, rfl, rfl, rfl, rfl, rfl, rfl, rfl, rfl, rfl, rfl, rfl⟩

theorem pickleC_spec (fe : Frontend) :
    ∃ c, pickleRestore (mro .SolverCompositeChild) fe = c ∧
      c.constraints = fe.constraints ∧ c.toAdd = [] ∧ c.solver = none ∧ c.track = fe.track ∧ c.hashes = fe.hashes ∧
      c.woAnnot = fe.constraints.foldl (fun acc c => listInsert acc c.id) [] ∧ c.finalized = fe.finalized ∧
      c.variables = fe.variables ∧ c.models = [] ∧ c.evalExh = [] ∧ c.maxExh = [] ∧ c.minExh = [] ∧ c.maxSExh = [] ∧
      c.minSExh = [] ∧ c.cachedSat = fe.cachedSat :=
  ⟨_, rfl, rfl, rfl, rfl, rfl, rfl, rfl, rfl, rfl, rfl, rfl, rfl, rfl, rfl, rfl, rfl⟩

theorem all_isSome_false {es : List Exp} (hne : es ≠ []) (h : ∀ e ∈ es, e.conc = none) :
    es.all (·.conc.isSome) = false := by
  obtain ⟨e, rest, rfl⟩ := List.exists_cons_of_ne_nil hne
  simp [h e (by simp)]

section
variable (H : SolverHyps R RE E)
include H

theorem ch_step_nb (w : World) (Us : List (List Con)) (hw : TInvS R RE E Us w) (i : Nat) (hi : i < w.fes.length)
    (op : Op) (hop : InScopeC R RE op) (hnb : op ≠ .branch) :
    JudgeOrGiveUp E (usersAfter (Us.getD i []) op) op (step E .SolverCompositeChild w i op).1 ∧
    TInvS R RE E (usersAll Us i op) (step E .SolverCompositeChild w i op).2 := by
  have h0 := hw.each i hi
  have hUs : Us.set i (Us.getD i []) = Us := set_getD_self Us i [] (by rw [hw.len]; exact hi)
  have hh3 := chStage_hook E 3
  have query : ∀ {s' : St}, SI R RE E (· = stOfI w i) (Us.getD i []) s' → TInvS R RE E Us (wOfI w i s') := by
    intro s' h'
    obtain ⟨h1, hq⟩ := h'.unmark
    have := tinvS_step hw hi hq h1
    rwa [hUs] at this
  cases op with
  | add cs =>
    show JudgeOrGiveUp E (Us.getD i [] ++ cs) _ (outOf _ (runOn w i (publicAdd (classOps E .SolverCompositeChild) cs))).1 ∧
         TInvS R RE E (Us.set i (Us.getD i [] ++ cs)) (outOf _ (runOn w i (publicAdd (classOps E .SolverCompositeChild) cs))).2
    rw [classOps_child, runOn_eq]
    by_cases hemp : cs.isEmpty = true
    · have hnil : cs = [] := by simpa using hemp
      subst hnil
      have : publicAdd (chStage E 4) [] true (stOfI w i) = (.ok [], stOfI w i) := rfl
      rw [this]
      obtain ⟨h1, hq⟩ := h0.mark.unmark
      have := tinvS_step hw hi hq (U' := Us.getD i [] ++ []) (by simpa using h1)
      exact ⟨Or.inl trivial, this⟩
    · have : publicAdd (chStage E 4) cs true (stOfI w i) = (cL4 E (chStage E 3)).add cs true (stOfI w i) := by
        simp [publicAdd, hemp, chStage_eq]
      rw [this]
      obtain ⟨added, s', hrun, hsi, _, _⟩ := cL4_add_spec H.reg H.triv H.cheap (chStage E 3) (Us.getD i []) (stOfI w i) cs true
        h0.mark hop (fun hf => by cases hf)
      rw [hrun]
      obtain ⟨h1, hq⟩ := hsi.unmark
      exact ⟨Or.inl trivial, tinvS_step hw hi hq h1⟩
  | satisfiable extra =>
    show JudgeOrGiveUp E (Us.getD i []) _ (outOf .bool (runOn w i ((classOps E .SolverCompositeChild).satisfiable extra))).1 ∧
         TInvS R RE E Us (outOf .bool (runOn w i ((classOps E .SolverCompositeChild).satisfiable extra))).2
    rw [classOps_child, runOn_eq, chStage_eq]
    have hspec := cL4_sat_spec H hh3 extra (stOfI w i) h0.mark
    revert hspec
    generalize (cL4 E (chStage E 3)).satisfiable extra (stOfI w i) = res
    obtain ⟨r, s'⟩ := res
    cases r with
    | ok b => exact fun hspec => ⟨Or.inl hspec.1, query hspec.2.1⟩
    | error e => exact fun hspec => ⟨Or.inr ⟨e, rfl, hspec.1⟩, query hspec.2.1⟩
  | eval e n extra =>
    show JudgeOrGiveUp E (Us.getD i []) _ (outOf .vals (runOn w i ((classOps E .SolverCompositeChild).eval e n extra))).1 ∧
         TInvS R RE E Us (outOf .vals (runOn w i ((classOps E .SolverCompositeChild).eval e n extra))).2
    rw [classOps_child, runOn_eq, chStage_eq]
    have hspec := cL4_eval_spec H hh3 e hop.1 hop.2.1 n hop.2.2 extra (stOfI w i) h0.mark
    revert hspec
    generalize (cL4 E (chStage E 3)).eval e n extra (stOfI w i) = res
    obtain ⟨r, s'⟩ := res
    cases r with
    | ok vs => exact fun hspec => ⟨Or.inl hspec.1, query hspec.2.2.2.1⟩
    | error err => exact fun hspec => ⟨errOk_judge (op := .eval e n extra) hspec.1 id, query hspec.2.1⟩
  | batchEval es n extra =>
    show JudgeOrGiveUp E (Us.getD i []) _ (outOf .tuples (runOn w i ((classOps E .SolverCompositeChild).batchEval es n extra))).1 ∧
         TInvS R RE E Us (outOf .tuples (runOn w i ((classOps E .SolverCompositeChild).batchEval es n extra))).2
    rw [classOps_child, runOn_eq, chStage_eq]
    have hspec := cL4_batchEval_spec H hh3 es (fun e he => (hop.2.1 e he).1) n hop.2.2 extra (stOfI w i) h0.mark
    revert hspec
    generalize (cL4 E (chStage E 3)).batchEval es n extra (stOfI w i) = res
    obtain ⟨r, s'⟩ := res
    cases r with
    | ok ts =>
      intro hspec
      refine ⟨Or.inl ?_, query hspec.2.2.2.1⟩
      show Judge (Us.getD i []) (.batchEval es n extra) (.tuples ts)
      simp only [Judge, all_isSome_false hop.1 (fun e he => (hop.2.1 e he).2), Bool.false_eq_true, ↓reduceIte]
      exact hspec.1
    | error err => exact fun hspec => ⟨errOk_judge (op := .batchEval es n extra) hspec.1 id, query hspec.2.1⟩
  | min e extra signed =>
    show JudgeOrGiveUp E (Us.getD i []) _ (outOf .int (runOn w i ((classOps E .SolverCompositeChild).min e extra signed))).1 ∧
         TInvS R RE E Us (outOf .int (runOn w i ((classOps E .SolverCompositeChild).min e extra signed))).2
    rw [classOps_child, runOn_eq, chStage_eq]
    have hspec := cL4_opt_spec H (self := chStage E 3) (cL4_chOk H (chStage_hook E 2)) false e hop.1 hop.2 extra signed
      (stOfI w i) h0.mark
    simp only [Bool.false_eq_true, ↓reduceIte] at hspec
    revert hspec
    generalize (cL4 E (chStage E 3)).min e extra signed (stOfI w i) = res
    obtain ⟨r, s'⟩ := res
    cases r with
    | ok v =>
      intro hspec
      refine ⟨Or.inl ?_, query hspec.2.2.1⟩
      show Judge (Us.getD i []) (.min e extra signed) (.int v)
      simp only [Judge, hop.2]
      exact hspec.1
    | error err => exact fun hspec => ⟨errOk_judge (op := .min e extra signed) hspec.1 id, query hspec.2.1⟩
  | max e extra signed =>
    show JudgeOrGiveUp E (Us.getD i []) _ (outOf .int (runOn w i ((classOps E .SolverCompositeChild).max e extra signed))).1 ∧
         TInvS R RE E Us (outOf .int (runOn w i ((classOps E .SolverCompositeChild).max e extra signed))).2
    rw [classOps_child, runOn_eq, chStage_eq]
    have hspec := cL4_opt_spec H (self := chStage E 3) (cL4_chOk H (chStage_hook E 2)) true e hop.1 hop.2 extra signed
      (stOfI w i) h0.mark
    simp only [↓reduceIte] at hspec
    revert hspec
    generalize (cL4 E (chStage E 3)).max e extra signed (stOfI w i) = res
    obtain ⟨r, s'⟩ := res
    cases r with
    | ok v =>
      intro hspec
      refine ⟨Or.inl ?_, query hspec.2.2.1⟩
      show Judge (Us.getD i []) (.max e extra signed) (.int v)
      simp only [Judge, hop.2]
      exact hspec.1
    | error err => exact fun hspec => ⟨errOk_judge (op := .max e extra signed) hspec.1 id, query hspec.2.1⟩
  | solution e v extra =>
    show JudgeOrGiveUp E (Us.getD i []) _ (outOf .bool (runOn w i ((classOps E .SolverCompositeChild).solution e v extra))).1 ∧
         TInvS R RE E Us (outOf .bool (runOn w i ((classOps E .SolverCompositeChild).solution e v extra))).2
    rw [classOps_child, runOn_eq, chStage_eq]
    have hspec := cL4_solution_spec H hh3 e hop.1 v hop.2 extra (stOfI w i) h0.mark
    revert hspec
    generalize (cL4 E (chStage E 3)).solution e v extra (stOfI w i) = res
    obtain ⟨r, s'⟩ := res
    cases r with
    | ok b =>
      intro hspec
      refine ⟨Or.inl ?_, query hspec.2.1⟩
      show Judge (Us.getD i []) (.solution e v extra) (.bool b)
      simp only [Judge, hop.1]
      exact hspec.1
    | error err => exact fun hspec => ⟨errOk_judge (op := .solution e v extra) hspec.1 id, query hspec.2.1⟩
  | isTrue c extra =>
    show JudgeOrGiveUp E (Us.getD i []) _ (outOf .bool (runOn w i ((classOps E .SolverCompositeChild).isTrue c extra))).1 ∧
         TInvS R RE E Us (outOf .bool (runOn w i ((classOps E .SolverCompositeChild).isTrue c extra))).2
    rw [classOps_child, runOn_eq, chStage_eq]
    have hspec := cL4_truth_spec H (chStage E 3) true c extra (stOfI w i) h0.mark
    simp only [↓reduceIte] at hspec
    revert hspec
    generalize (cL4 E (chStage E 3)).isTrue c extra (stOfI w i) = res
    obtain ⟨r, s'⟩ := res
    cases r with
    | ok b => exact fun hspec => ⟨Or.inl hspec.1, query hspec.2⟩
    | error err => exact fun hspec => ⟨errOk_judge (op := .isTrue c extra) hspec.1 id, query hspec.2⟩
  | isFalse c extra =>
    show JudgeOrGiveUp E (Us.getD i []) _ (outOf .bool (runOn w i ((classOps E .SolverCompositeChild).isFalse c extra))).1 ∧
         TInvS R RE E Us (outOf .bool (runOn w i ((classOps E .SolverCompositeChild).isFalse c extra))).2
    rw [classOps_child, runOn_eq, chStage_eq]
    have hspec := cL4_truth_spec H (chStage E 3) false c extra (stOfI w i) h0.mark
    simp only [Bool.false_eq_true, ↓reduceIte] at hspec
    revert hspec
    generalize (cL4 E (chStage E 3)).isFalse c extra (stOfI w i) = res
    obtain ⟨r, s'⟩ := res
    cases r with
    | ok b => exact fun hspec => ⟨Or.inl hspec.1, query hspec.2⟩
    | error err => exact fun hspec => ⟨errOk_judge (op := .isFalse c extra) hspec.1 id, query hspec.2⟩
  | unsatCore extra => exact hop.elim
  | simplify =>
    show JudgeOrGiveUp E (Us.getD i []) _ (outOf _ (runOn w i (classOps E .SolverCompositeChild).simplify)).1 ∧
         TInvS R RE E Us (outOf _ (runOn w i (classOps E .SolverCompositeChild).simplify)).2
    rw [classOps_child, runOn_eq, chStage_eq]
    obtain ⟨out, s', hrun, hsi, _⟩ := cL4_simplify_spec H.reg H.simpOn H.simpVars (chStage E 3) (Us.getD i []) (stOfI w i) h0.mark
    rw [hrun]
    exact ⟨Or.inl trivial, query hsi⟩
  | downsize =>
    show JudgeOrGiveUp E (Us.getD i []) _ (outOf _ (runOn w i (classOps E .SolverCompositeChild).downsize)).1 ∧
         TInvS R RE E Us (outOf _ (runOn w i (classOps E .SolverCompositeChild).downsize)).2
    rw [classOps_child, runOn_eq]
    have hrun : (chStage E 4).downsize (stOfI w i) = (.ok (), clDownsizeSt (stOfI w i)) := rfl
    rw [hrun]
    exact ⟨Or.inl trivial, query (solDownsize_spec (stOfI w i) h0.mark).1⟩
  | branch => exact (hnb rfl).elim
  | pickle =>
    obtain ⟨c, hc, e1, e2, e3, e4, e5, e6, e7, e8, e9, e10, e11, e12, e13, e14, e15⟩ := pickleC_spec (w.fes.getD i {})
    have hstep : step E .SolverCompositeChild w i .pickle = (.unit, wOfI w i { stOfI w i with fe := c }) := by
      show (Out.unit, { w with fes := w.fes.set i (pickleRestore (mro .SolverCompositeChild) (w.fes.getD i {})) }) = _
      rw [hc]; rfl
    rw [hstep]
    exact ⟨Or.inl trivial,
      query (si_pickle H.reg h0.mark c e1 e2 e3 e4 e5 e6 e7 e8 e9 e10 e11 e12 e13 e14 e15)⟩

omit H in
theorem ch_step_branch (w : World) (Us : List (List Con)) (hw : TInvS R RE E Us w) (i : Nat) (hi : i < w.fes.length) :
    (step E .SolverCompositeChild w i .branch).1 = .newSolver w.fes.length ∧
    TInvS R RE E (Us ++ [Us.getD i []]) (step E .SolverCompositeChild w i .branch).2 := by
  obtain ⟨c, hrun, hcons, htoadd, hsol, htrack, hhash, hwo, hcfin, hvar, hmc, hcs⟩ := branchC_spec E (stOfI w i)
  have hstep : step E .SolverCompositeChild w i .branch =
      (match runOn w i (branchC E) with
       | (.ok c, w') => (.newSolver w'.fes.length, { w' with fes := w'.fes ++ [c] })
       | (.error e, w') => (.err e, w')) := rfl
  rw [hstep, runOn_eq, hrun]
  simp only
  have hf1 : SI R RE E (fun _ => True) (Us.getD i []) { stOfI w i with fe := { (stOfI w i).fe with finalized := true } } :=
    (hw.each i hi).heap rfl rfl rfl rfl rfl rfl rfl rfl rfl rfl (fun r hr => ⟨hw.solver_lt hi hr, rfl⟩)
  have hws : WStep (stOfI w i) { stOfI w i with fe := { (stOfI w i).fe with finalized := true } } :=
    ⟨Nat.le_refl _, Or.inl rfl, fun _ _ _ => rfl, rfl, fun _ => rfl⟩
  have hw1 := tinvS_step hw hi hws hf1
  rw [set_getD_self Us i [] (by rw [hw.len]; exact hi)] at hw1
  have hlen1 : (wOfI w i { stOfI w i with fe := { (stOfI w i).fe with finalized := true } }).fes.length = w.fes.length := by
    simp [wOfI]
  have hi1 : i < (wOfI w i { stOfI w i with fe := { (stOfI w i).fe with finalized := true } }).fes.length := by
    rw [hlen1]; exact hi
  have hfe1 : (wOfI w i { stOfI w i with fe := { (stOfI w i).fe with finalized := true } }).fes.getD i {} =
      { (stOfI w i).fe with finalized := true } := by
    simp only [wOfI]; exact getD_set_self _ _ _ _ hi
  refine ⟨by rw [hlen1], ?_⟩
  exact tinvS_append hw1 hi1 (by rw [hfe1]) c (by rw [hfe1]; exact hcons) (by rw [hfe1]; exact htoadd)
    (by rw [hfe1]; exact hsol) (by rw [hfe1]; exact htrack) (by rw [hfe1]; exact hhash) (by rw [hfe1]; exact hwo)
    (by rw [hfe1]; exact hvar) (by rw [hfe1]; exact hmc) (by rw [hfe1]; exact hcs) hcfin

theorem ch_step (w : World) (Us : List (List Con)) (hw : TInvS R RE E Us w) (i : Nat) (hi : i < w.fes.length)
    (op : Op) (hop : InScopeC R RE op) :
    JudgeOrGiveUp E (usersAfter (Us.getD i []) op) op (step E .SolverCompositeChild w i op).1 ∧
    TInvS R RE E (usersAll Us i op) (step E .SolverCompositeChild w i op).2 := by
  by_cases hb : op = .branch
  · subst hb
    obtain ⟨h1, h2⟩ := ch_step_branch (E := E) w Us hw i hi
    refine ⟨Or.inl ?_, h2⟩
    rw [h1]
    trivial
  · exact ch_step_nb H w Us hw i hi op hop hb

/-- a history is in scope -/
def HistOkC (R : Con → Prop) (RE : Exp → Prop) : Nat → List (Nat × Op) → Prop
  | _, [] => True
  | n, (i, op) :: rest => i < n ∧ InScopeC R RE op ∧ HistOkC R RE (match op with | .branch => n + 1 | _ => n) rest

theorem ch_hist_giveup (hist : List (Nat × Op)) : ∀ (w : World) (Us : List (List Con)), TInvS R RE E Us w →
    HistOkC R RE w.fes.length hist →
    ∀ x ∈ runHist E .SolverCompositeChild w Us hist, JudgeOrGiveUp E x.1 x.2.1 x.2.2 := by
  induction hist with
  | nil => intro w Us _ _ x hx; simp [runHist] at hx
  | cons io rest ih =>
    obtain ⟨i, op⟩ := io
    intro w Us hw hok x hx
    obtain ⟨hi, hop, hrest⟩ := hok
    obtain ⟨hj, hw'⟩ := ch_step H w Us hw i hi op hop
    rw [runHist_cons'] at hx
    rcases List.mem_cons.mp hx with rfl | hx
    · exact hj
    · refine ih _ _ hw' ?_ x hx
      have hl := hw'.len
      rw [usersAll_length, hw.len] at hl
      rw [← hl]
      exact hrest

theorem ch_hist (hist : List (Nat × Op)) (w : World) (Us : List (List Con)) (hw : TInvS R RE E Us w)
    (hok : HistOkC R RE w.fes.length hist) :
    ∀ x ∈ runHist E .SolverCompositeChild w Us hist, x.2.2 ≠ .err .giveUp → Judge x.1 x.2.1 x.2.2 := by
  intro x hx hne
  rcases ch_hist_giveup H hist w Us hw hok x hx with h | hg
  · exact h
  · exact (hne hg.eq).elim

end

end Claripy.Solver
