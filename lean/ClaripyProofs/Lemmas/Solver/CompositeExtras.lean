import ClaripyProofs.Lemmas.Solver.CompositeExtrema
/-!
`CompositeFrontend.check_satisfiability(extra_constraints)` / `satisfiable(extra_constraints)` WITH extra constraints: the merged
solver `es` of the extras' names is asked under the extras, `_reabsorb_solver(es)`, then the unchecked children that share no
variable with `es` are asked one by one (`checkLoop` with `skip = es.variables`), then `_unchecked_solvers.clear()`.

* `checkLoop_skip_spec`: the loop with a skip set (the case `checkLoop_spec` lacks); the children's variables do not change
  along the loop.
* `ReabsorbFrames`: what `_reabsorb_solver` would have to export on top of `ReabsorbKeeps` (a `def`, NOT proved): the children
  that share a variable with the merged child are implied by the merged constraints, variables outside the merged child keep
  their entry of `_solvers`, the merged child keeps its variables.
* `compSatisfiable_extra_spec`: `satisfiable(extra)` is exact for everything added plus the extras (or an honest give-up) and keeps
  the invariant - unconditionally when one child at most owns the extras' names (`UniqOwner`), given `ReabsorbFrames` otherwise.
-/
namespace Claripy.Solver

variable {R : Con → Prop} {RE : Exp → Prop} {E : Env}

/-- a child call with the footprint leaves every child's variables alone -/
theorem runOn_child_vars (s : CSt) (j : Nat) (hj : j < s.w.fes.length) {α : Type} (m : M α)
    (hfoot : FootQ (stOfI s.w j) (m (stOfI s.w j)).2) (i : Nat) :
    (({ s with w := (runOn s.w j m).2 } : CSt).child i).variables = (s.child i).variables := by
  show ((runOn s.w j m).2.fes.getD i {}).variables = _
  by_cases hi : i = j
  · subst hi; rw [runOn_getD_self _ _ _ hj, hfoot.1]; rfl
  · rw [runOn_getD_ne _ _ _ _ hi]; rfl

/-! ### `check_satisfiability(extra)`: the shape -/

/-- the part of `check_satisfiability(extra)` after `_reabsorb_solver(es)` -/
def extraTail (E : Env) (es : Nat) : CM Bool := do
  let s ← CM.get
  let order ← orderChildren E s.c.unchecked
  let ok ← checkLoop E (some (s.child es).variables) order
  if !ok then pure false
  else do
    CM.modifyC fun c => { c with unchecked := [] }
    pure true

theorem compSatisfiable_extra_eq (E : Env) (extra : List Con) (s : CSt) (hun : s.c.unsat = false) (hne : extra.isEmpty = false) :
    compSatisfiable E extra s = (do
      let es ← solverForNames E (namesFor (extra.map (·.vars)))
      let r ← CM.onChild es (childCheckSat E extra)
      if !r then pure false
      else do
        reabsorb E es
        extraTail E es : CM Bool) s := by
  unfold compSatisfiable
  simp only [bind, CM.bind, CM.get, hun, hne, Bool.false_eq_true, ↓reduceIte]
  rfl

/-- what `_reabsorb_solver(m)` leaves behind, as far as `check_satisfiability(extra)` needs it: the invariant; the merged child's
variables; the entries of `_solvers` for variables the merged child does not know; and every child of the new partition that shares
a variable with the merged child is implied by the merged constraints -/
structure ReabsorbPost (R : Con → Prop) (RE : Exp → Prop) (E : Env) (U : List Con) (Us Us' : List (List Con)) (s s' : CSt)
    (m : Nat) : Prop where
  inv : CInv R RE E U Us' s'
  unsat : s'.c.unsat = false
  vars : (s'.child m).variables = (s.child m).variables
  keep : ∀ v, v ∉ (s.child m).variables → alGet? s'.c.solvers v = alGet? s.c.solvers v
  sem : ∀ a, Models (Us.getD m []) a → ∀ i ∈ s'.c.solverList,
    (s'.child i).variables.any (s.child m).variables.contains = true → Models (Us'.getD i []) a

/-- **the frame facts `_reabsorb_solver` would have to export** (NOT proved; the two facts are at hand inside the proof of
`reabsorbKeeps` - `hsem` in the update branch, `hsemP` in the replace branch - but `ReabsorbKeeps` concludes `∃ Us', CInv` only):
under the hypotheses of `ReabsorbKeeps`, `ReabsorbPost` -/
def ReabsorbFrames (R : Con → Prop) (RE : Exp → Prop) (E : Env) : Prop :=
  ∀ (U : List Con) (Us : List (List Con)) (s : CSt) (m : Nat), CInv R RE E U Us s → m < s.w.fes.length →
    (∀ v ∈ (s.child m).variables, ∃ t, alGet? s.c.solvers v = some t) →
    (∀ t ∈ s.c.solversFor (s.child m).variables, ∀ v ∈ (s.child t).variables, v ∈ (s.child m).variables) →
    (∀ a, Models (Us.getD m []) a ↔ ∀ t ∈ s.c.solversFor (s.child m).variables, Models (Us.getD t []) a) →
    (∀ t ∈ s.c.solversFor (s.child m).variables, Satisfiable (Us.getD t [])) → s.c.unsat = false →
    ∀ s', reabsorb E m s = (.ok (), s') → ∃ Us', ReabsorbPost R RE E U Us Us' s s' m

/-- a child call that keeps the child's invariant keeps the invariant of the world -/
theorem tinvS_query {Us : List (List Con)} {w : World} (hk : TInvS R RE E Us w) (j : Nat) (hj : j < w.fes.length) {α : Type}
    (m : M α) (hsi : SI R RE E (· = stOfI w j) (Us.getD j []) (m (stOfI w j)).2) : TInvS R RE E Us (runOn w j m).2 := by
  rw [runOn_eq]
  obtain ⟨h1, hq⟩ := hsi.unmark
  have hk' := tinvS_step hk hj hq h1
  rw [set_getD_self Us j [] (by rw [hk.len]; exact hj)] at hk'
  exact hk'

theorem any_contains_true {l sv : List Var} : l.any sv.contains = true ↔ ∃ v ∈ l, v ∈ sv := by
  simp [List.any_eq_true]

theorem any_contains_false {l sv : List Var} : l.any sv.contains = false ↔ ∀ v ∈ l, v ∉ sv := by
  simp [List.any_eq_false]

section
variable (H : SolverHyps R RE E) (F : ChildFoot R RE E)
include H F

/-- the loop of `check_satisfiability(extra)` over the unchecked children: those sharing a variable with the extra solver
(`sv` = its variables) are skipped -/
theorem checkLoop_skip_spec {U : List Con} {Us : List (List Con)} (sv : List Var) : ∀ (l : List Nat) (s : CSt),
    CInv R RE E U Us s →
    match checkLoop E (some sv) l s with
    | (.ok b, s') => CInv R RE E U Us s' ∧ s'.c = s.c ∧ (∀ i, (s'.child i).variables = (s.child i).variables) ∧
        (b = true → ∀ j ∈ l, j ∈ s.c.solverList → (s.child j).variables.any sv.contains = false →
          Satisfiable (Us.getD j [])) ∧
        (b = false → ∃ j ∈ s.c.solverList, ¬ Satisfiable (Us.getD j []))
    | (.error e, s') => IsGiveUp E e ∧ CInv R RE E U Us s' ∧ s'.c = s.c
  | [], s, h => ⟨h, rfl, fun _ => rfl, fun _ j hj => (by cases hj), fun hb => (by cases hb)⟩
  | j :: rest, s, h => by
    unfold checkLoop
    simp only [bind, CM.bind, CM.get]
    by_cases hsk : (s.child j).variables.any sv.contains = true
    · simp only [hsk, ↓reduceIte]
      have ih := checkLoop_skip_spec sv rest s h
      revert ih
      generalize checkLoop E (some sv) rest s = res
      obtain ⟨r, s'⟩ := res
      cases r with
      | error e => exact id
      | ok b =>
        rintro ⟨h1, h2, hv, h3, h4⟩
        refine ⟨h1, h2, hv, fun hb i hi hil hns => ?_, h4⟩
        rcases List.mem_cons.mp hi with rfl | hi
        · rw [hsk] at hns; cases hns
        · exact h3 hb i hi hil hns
    · have hsk' : (s.child j).variables.any sv.contains = false := by simpa using hsk
      simp only [hsk', Bool.false_eq_true, ↓reduceIte]
      by_cases hlive : ((s.child j).variables.isEmpty || alGet? s.c.solvers (minVar (s.child j).variables) != some j) = true
      · simp only [hlive, ↓reduceIte]
        have hnl : j ∉ s.c.solverList := by
          intro hjl; have := (live_iff h j).mpr hjl; rw [hlive] at this; cases this
        have ih := checkLoop_skip_spec sv rest s h
        revert ih
        generalize checkLoop E (some sv) rest s = res
        obtain ⟨r, s'⟩ := res
        cases r with
        | error e => exact id
        | ok b =>
          rintro ⟨h1, h2, hv, h3, h4⟩
          refine ⟨h1, h2, hv, fun hb i hi hil hns => ?_, h4⟩
          rcases List.mem_cons.mp hi with rfl | hi
          · exact (hnl hil).elim
          · exact h3 hb i hi hil hns
      · have hlive' : ((s.child j).variables.isEmpty || alGet? s.c.solvers (minVar (s.child j).variables) != some j) = false := by
          simpa using hlive
        simp only [hlive', Bool.false_eq_true, ↓reduceIte]
        have hjl : j ∈ s.c.solverList := (live_iff h j).mp hlive'
        obtain ⟨v, hv⟩ := (mem_solverList' _ h.nodup j).mp hjl
        have hj : j < s.w.fes.length := (h.map v j hv).1
        have hspec := childCheckSat_spec H (G := (· = stOfI s.w j)) (U := Us.getD j []) [] (stOfI s.w j) (h.kids.each j hj).mark
        have hfoot := F.checkSat _ _ [] (stOfI s.w j) (h.kids.each j hj)
        have hvars1 := runOn_child_vars s j hj (childCheckSat E []) hfoot
        simp only [CM.bind, CM.onChild]
        have hinv := cinv_query h j hj (childCheckSat E []) (by
          revert hspec; generalize childCheckSat E [] (stOfI s.w j) = res
          obtain ⟨r, s'⟩ := res
          cases r with
          | ok b => exact fun hs => hs.2.1
          | error e => exact fun hs => hs.2.1) hfoot
        rw [runOn_eq] at hinv hvars1 ⊢
        revert hspec hinv hvars1
        generalize childCheckSat E [] (stOfI s.w j) = res
        obtain ⟨r, s1⟩ := res
        cases r with
        | error e => exact fun hs _ hinv => ⟨hs.1, hinv, rfl⟩
        | ok b =>
          intro hs hvars1 hinv
          simp only [List.append_nil] at hs
          cases b with
          | false =>
            simp only [Bool.not_false, ↓reduceIte, pure, CM.pure]
            refine ⟨hinv, trivial, hvars1, fun hb => (by cases hb), fun _ => ⟨j, hjl, fun hsat => ?_⟩⟩
            have := hs.1.mpr hsat; cases this
          | true =>
            simp only [Bool.not_true, Bool.false_eq_true, ↓reduceIte]
            have ih := checkLoop_skip_spec sv rest _ hinv
            revert ih
            generalize checkLoop E (some sv) rest _ = res2
            obtain ⟨r2, s2⟩ := res2
            cases r2 with
            | error e => exact id
            | ok b2 =>
              rintro ⟨h1, h2, hv2, h3, h4⟩
              refine ⟨h1, h2, fun i => (hv2 i).trans (hvars1 i), fun hb i hi hil hns => ?_, h4⟩
              rcases List.mem_cons.mp hi with rfl | hi
              · exact hs.1.mp rfl
              · exact h3 hb i hi hil (by rw [hvars1 i]; exact hns)

/-- **the tail of `check_satisfiability(extra)`**: after `_reabsorb_solver` (`ReabsorbPost`), with the merged child satisfiable
under the extras: the other children are checked, the answer is exact for everything the user added plus the extras -/
theorem extraTail_spec {U : List Con} {Us1 Us3 : List (List Con)} {s2 s3 : CSt} {m : Nat} (extra : List Con) (names : List Var)
    (hwf : ∀ c ∈ extra, ConWf c) (hvn : ∀ c ∈ extra, ∀ v ∈ c.vars, v ∈ names)
    (hpost : ReabsorbPost R RE E U Us1 Us3 s2 s3 m)
    (hnm : ∀ v ∈ names, v ∈ (s2.child m).variables ∨ alGet? s2.c.solvers v = none)
    (hsat : Satisfiable (Us1.getD m [] ++ extra)) :
    match extraTail E m s3 with
    | (.ok b, s') => (b = true ↔ Satisfiable (U ++ extra)) ∧ CInv R RE E U Us3 s'
    | (.error e, s') => IsGiveUp E e ∧ CInv R RE E U Us3 s' := by
  have h3 := hpost.inv
  unfold extraTail
  simp only [bind, CM.bind, CM.get, orderChildren, orderOracle_run]
  have hord := mem_reorderBy (fun (j : Nat) k => k == [j])
    (E.pick (s3.c.unchecked.map fun j => [j]) (s3.c.unchecked.map fun j => [j]).length s3.w.tick) s3.c.unchecked
  generalize reorderBy (fun (j : Nat) k => k == [j])
    (E.pick (s3.c.unchecked.map fun j => [j]) (s3.c.unchecked.map fun j => [j]).length s3.w.tick) s3.c.unchecked = order at hord
  have hl := checkLoop_skip_spec H F (s3.child m).variables order _ (h3.set_tick (s3.w.tick + 1))
  revert hl
  generalize checkLoop E (some (s3.child m).variables) order _ = res
  obtain ⟨r, s4⟩ := res
  cases r with
  | error e => exact fun hl => ⟨hl.1, hl.2.1⟩
  | ok b =>
    rintro ⟨h4, hc4, _, hT, hF⟩
    cases b with
    | false =>
      simp only [Bool.not_false, ↓reduceIte, pure, CM.pure]
      obtain ⟨j, hjl, hns⟩ := hF rfl
      refine ⟨⟨fun hb => (by cases hb), fun ⟨a, ha⟩ => ?_⟩, h4⟩
      exact (hns ⟨a, (h3.sem hpost.unsat a).mp (models_append.mp ha).1 j hjl⟩).elim
    | true =>
      simp only [Bool.not_true, Bool.false_eq_true, ↓reduceIte, pure]
      have hmv := hpost.vars
      obtain ⟨am, ham⟩ := hsat
      obtain ⟨hamU, hamE⟩ := models_append.mp ham
      have hltL : ∀ j ∈ s3.c.solverList, j < s3.w.fes.length := by
        intro j hj
        obtain ⟨v, hvj⟩ := (mem_solverList' _ h3.nodup j).mp hj
        exact (h3.map v j hvj).1
      -- every child of the partition is satisfiable
      have hall : ∀ j ∈ s3.c.solverList, Satisfiable (Us3.getD j []) := by
        intro j hj
        by_cases hsk : (s3.child j).variables.any (s3.child m).variables.contains = true
        · exact ⟨am, hpost.sem am hamU j hj (by rw [← hmv]; exact hsk)⟩
        · have hsk' : (s3.child j).variables.any (s3.child m).variables.contains = false := by simpa using hsk
          by_cases hu : j ∈ s3.c.unchecked
          · exact hT rfl j ((hord j).mpr hu) hj hsk'
          · exact h3.checked j hj hu
      -- the children that are not skipped, glued onto the model of the merged child and the extras
      have hsatUE : Satisfiable (U ++ extra) := by
        let skipd := s3.c.solverList.filter fun j => (s3.child j).variables.any (s3.child m).variables.contains
        let L := s3.c.solverList.filter fun j => !(s3.child j).variables.any (s3.child m).variables.contains
        let keep := names ++ skipd.flatMap fun j => (s3.child j).variables
        obtain ⟨a, haL, hak⟩ := children_joint_model H.reg h3 keep am L ((solverList_nodup _).filter _)
          (fun j hj => (List.mem_filter.mp hj).1) (by
            intro j hj v hv hk
            obtain ⟨hjl, hjs⟩ := List.mem_filter.mp hj
            have hjs' : (s3.child j).variables.any (s3.child m).variables.contains = false := by simpa using hjs
            have hvm : v ∉ (s3.child m).variables := any_contains_false.mp hjs' v hv
            rcases List.mem_append.mp hk with hk | hk
            · -- a name: the merged child knows it, or nobody owns it
              obtain ⟨u, hu⟩ := (mem_solverList' _ h3.nodup j).mp hjl
              have hvj := h3.cover u j hu v hv
              rcases hnm v hk with hin | hnone
              · exact hvm (by rw [hmv]; exact hin)
              · rw [hpost.keep v (by rw [← hmv]; exact hvm), hnone] at hvj; cases hvj
            · obtain ⟨i, hi, hvi⟩ := List.mem_flatMap.mp hk
              obtain ⟨hil, his⟩ := List.mem_filter.mp hi
              have hij : j ≠ i := by
                intro e; subst e; rw [hjs'] at his; cases his
              exact h3.disjoint hjl hil hij v hv hvi)
          (fun j hj => hall j (List.mem_filter.mp hj).1)
        refine ⟨a, models_append.mpr ⟨(h3.sem hpost.unsat a).mpr fun j hj => ?_, ?_⟩⟩
        · by_cases hsk : (s3.child j).variables.any (s3.child m).variables.contains = true
          · -- skipped: implied by the merged constraints, and `a` agrees with their model on the child's variables
            have h1 : Models (Us3.getD j []) am := hpost.sem am hamU j hj (by rw [← hmv]; exact hsk)
            have hjlt := hltL j hj
            rw [← h3.child_models hjlt] at h1 ⊢
            refine models_of_agree ((h3.kids.each j hjlt).base.cons_wf H.reg) (fun v hv => ?_) h1
            obtain ⟨c, hc, hvc⟩ := mem_varsOf_iff.mp hv
            have hvj := h3.child_vars hjlt c hc v hvc
            exact (hak v (List.mem_append.mpr (Or.inr (List.mem_flatMap.mpr
              ⟨j, List.mem_filter.mpr ⟨hj, hsk⟩, hvj⟩)))).symm
          · exact (h3.child_models (hltL j hj) a).mp (haL j (List.mem_filter.mpr ⟨hj, by simpa using hsk⟩))
        · refine models_of_agree hwf (fun v hv => ?_) hamE
          obtain ⟨c, hc, hvc⟩ := mem_varsOf_iff.mp hv
          exact (hak v (List.mem_append.mpr (Or.inl (hvn c hc v hvc)))).symm
      refine ⟨⟨fun _ => hsatUE, fun _ => rfl⟩, ?_⟩
      have hsl : ({ s4.c with unchecked := [] } : Comp).solverList = s3.c.solverList := by rw [hc4]; rfl
      exact ⟨h4.kids, h4.reuse, h4.keysOk, h4.exact, h4.nodup, h4.map, h4.cover,
        fun hu a => (by rw [hsl]; rw [hc4] at hu; exact h3.sem hu a),
        fun hu => (by rw [hc4] at hu; exact h3.unsatOk hu),
        fun j hj _ => (by rw [hsl] at hj; exact hall j hj)⟩

omit F in
/-- `_reabsorb_solver(es)` in `check_satisfiability(extra)`: nothing happens when one child at most owns the extras' names; else
this is `ReabsorbFrames` -/
theorem extra_reabsorb_post {U : List Con} {Us Us1 : List (List Con)} {s s1 s2 : CSt} {names : List Var} {m : Nat}
    (h : CInv R RE E U Us s) (hr : solverForNames E names s = (.ok m, s1)) (hm : Merged R RE E Us Us1 s s1 names m)
    (h2 : CInv R RE E U Us1 s2) (hc2 : s2.c = s.c) (hmv : (s2.child m).variables = (s1.child m).variables)
    (hcv2 : ∀ t, t < s.w.fes.length → (s2.child t).variables = (s.child t).variables)
    (hlt2 : m < s2.w.fes.length) (hun : s.c.unsat = false) (hsat : Satisfiable (Us1.getD m []))
    (hK : UniqOwner s.c names ∨ ReabsorbFrames R RE E) :
    ∃ s3 Us3, reabsorb E m s2 = (.ok (), s3) ∧ ReabsorbPost R RE E U Us1 Us3 s2 s3 m := by
  rcases hK with h1 | hRF
  · have hnoop : reabsorb E m s2 = (.ok (), s2) := by
      apply reabsorb_noop
      rw [hmv]
      rcases solverForNames_one h names h1 with ⟨_, hnil⟩ | ⟨j, hrj, hj⟩
      · left
        cases hvs : (s1.child m).variables with
        | nil => rfl
        | cons v _ =>
          obtain ⟨t, ht, _⟩ := hm.sub v (by rw [hvs]; simp)
          rw [hnil] at ht; cases ht
      · rw [hrj] at hr
        have hmj : j = m := by injection hr with h1 _; injection h1
        have hss : s = s1 := by injection hr
        subst hmj; subst hss
        by_cases hvs : (s.child j).variables = []
        · exact Or.inl hvs
        · right
          obtain ⟨n, _, hn⟩ := (mem_solversFor _ _ _).mp hj
          rw [hc2]
          exact h.cover n j hn _ (minVar_mem _ hvs)
    refine ⟨s2, Us1, hnoop, h2, by rw [hc2]; exact hun, rfl, fun _ _ => rfl, ?_⟩
    intro a ha i hi hany
    obtain ⟨v, hvi, hvm⟩ := any_contains_true.mp hany
    rw [hmv] at hvm
    obtain ⟨t, ht, hvt⟩ := hm.sub v hvm
    obtain ⟨n, _, hnt⟩ := (mem_solversFor _ _ _).mp ht
    have h1' := h.cover n t hnt v hvt
    obtain ⟨u, hu⟩ := (mem_solverList' _ h2.nodup i).mp hi
    have h2' := h2.cover u i hu v hvi
    rw [hc2, h1'] at h2'
    have hit : t = i := Option.some.inj h2'
    subst hit
    rw [(hm.frame t (h.map n t hnt).1).2]
    exact (hm.sem a).mp ha t ht
  · have hmem : ∀ t, t ∈ s.c.solversFor (s1.child m).variables ↔ t ∈ s.c.solversFor names := by
      intro t
      constructor
      · intro ht
        obtain ⟨v, hv, hvt⟩ := (mem_solversFor _ _ _).mp ht
        obtain ⟨t', ht', hvt'⟩ := hm.sub v hv
        obtain ⟨n, _, hn⟩ := (mem_solversFor _ _ _).mp ht'
        have := h.cover n t' hn v hvt'
        rw [hvt] at this
        rw [Option.some.inj this]; exact ht'
      · intro ht
        obtain ⟨n, _, hn⟩ := (mem_solversFor _ _ _).mp ht
        have hnv := (h.map n t hn).2
        exact (mem_solversFor _ _ _).mpr ⟨n, hm.sup t ht n hnv, hn⟩
    have hltN : ∀ t ∈ s.c.solversFor names, t < s.w.fes.length := by
      intro t ht
      obtain ⟨n, _, hn⟩ := (mem_solversFor _ _ _).mp ht
      exact (h.map n t hn).1
    have hkeys2 : ∀ v ∈ (s2.child m).variables, ∃ t, alGet? s2.c.solvers v = some t := by
      intro v hv
      rw [hmv] at hv
      obtain ⟨t, ht, hvt⟩ := hm.sub v hv
      obtain ⟨n', _, hn'⟩ := (mem_solversFor _ _ _).mp ht
      exact ⟨t, by rw [hc2]; exact h.cover n' t hn' v hvt⟩
    obtain ⟨s3, hrb⟩ := reabsorb_ok H (s := s2) h2.kids h2.reuse m hlt2 hkeys2
    obtain ⟨am, ham⟩ := hsat
    obtain ⟨Us3, hpost⟩ := hRF U Us1 s2 m h2 hlt2 hkeys2 (by
        intro t ht v hv
        rw [hmv, hc2] at ht
        rw [hmv]
        have ht' := (hmem t).mp ht
        rw [hcv2 t (hltN t ht')] at hv
        exact hm.sup t ht' v hv) (by
        intro a
        rw [hmv, hc2, hm.sem a]
        constructor
        · intro hall t ht
          have ht' := (hmem t).mp ht
          rw [(hm.frame t (hltN t ht')).2]; exact hall t ht'
        · intro hall t ht
          have := hall t ((hmem t).mpr ht)
          rwa [(hm.frame t (hltN t ht)).2] at this) (by
        intro t ht
        rw [hmv, hc2] at ht
        have ht' := (hmem t).mp ht
        rw [(hm.frame t (hltN t ht')).2]
        exact ⟨am, (hm.sem am).mp ham t ht'⟩) (by rw [hc2]; exact hun) s3 hrb
    exact ⟨s3, Us3, hrb, hpost⟩

/-- **`satisfiable(extra_constraints)` of the composite is right**: the answer is exact for everything the user added plus the
extras, or the backend of a child gave up; the invariant holds afterwards.  Unconditional when one child at most owns the
extras' names; given the frame facts of `_reabsorb_solver` (`ReabsorbFrames`) otherwise. -/
theorem compSatisfiable_extra_spec {U : List Con} {Us : List (List Con)} {s : CSt} (h : CInv R RE E U Us s) (extra : List Con)
    (hne : extra ≠ []) (hwf : ∀ c ∈ extra, ConWf c)
    (hK : UniqOwner s.c (namesFor (extra.map (·.vars))) ∨ ReabsorbFrames R RE E) :
    match compSatisfiable E extra s with
    | (.ok b, s') => (b = true ↔ Satisfiable (U ++ extra)) ∧ ∃ Us', CInv R RE E U Us' s'
    | (.error e, s') => IsGiveUp E e ∧ ∃ Us', CInv R RE E U Us' s' := by
  by_cases hun : s.c.unsat = true
  · unfold compSatisfiable
    simp only [bind, CM.bind, CM.get, hun, ↓reduceIte, pure, CM.pure]
    exact ⟨⟨fun hb => (by cases hb), fun ⟨a, ha⟩ => (h.unsatOk hun ⟨a, (models_append.mp ha).1⟩).elim⟩, Us, h⟩
  · have hun' : s.c.unsat = false := by simpa using hun
    have hemp : extra.isEmpty = false := by
      cases extra with
      | nil => exact absurd rfl hne
      | cons _ _ => rfl
    rw [compSatisfiable_extra_eq E extra s hun' hemp]
    generalize hnames : namesFor (extra.map (·.vars)) = names at hK ⊢
    have hvn : ∀ c ∈ extra, ∀ v ∈ c.vars, v ∈ names := by
      intro c hc v hv
      rw [← hnames]
      exact (mem_namesFor _ v).mpr ⟨c.vars, List.mem_map.mpr ⟨c, hc, rfl⟩, hv⟩
    obtain ⟨m, Us1, s1, hr, hm⟩ := solverForNames_spec (combineSpec H (childFoot H)) h names
    simp only [bind, CM.bind, hr, CM.onChild]
    have hspec := childCheckSat_spec H (G := (· = stOfI s1.w m)) (U := Us1.getD m []) extra (stOfI s1.w m)
      (hm.kids.each m hm.lt).mark
    have hft := F.checkSat _ _ extra (stOfI s1.w m) (hm.kids.each m hm.lt)
    have hk2 : TInvS R RE E Us1 (runOn s1.w m (childCheckSat E extra)).2 := by
      refine tinvS_query hm.kids m hm.lt _ ?_
      revert hspec; generalize childCheckSat E extra (stOfI s1.w m) = res
      obtain ⟨r, s'⟩ := res
      cases r with
      | ok b => exact fun hs => hs.2.1
      | error e => exact fun hs => hs.2.1
    have hself2 := runOn_getD_self s1.w m (childCheckSat E extra) hm.lt
    have hoth2 : ∀ j, j ≠ m → (runOn s1.w m (childCheckSat E extra)).2.fes.getD j {} = s1.w.fes.getD j {} :=
      fun j hj => runOn_getD_ne s1.w m _ j hj
    have hlen2 := runOn_fes_length s1.w m (childCheckSat E extra)
    have hfv : ((runOn s1.w m (childCheckSat E extra)).2.fes.getD m {}).variables = (s1.child m).variables := by
      rw [hself2, hft.1]; rfl
    have hfc : ((runOn s1.w m (childCheckSat E extra)).2.fes.getD m {}).constraints = (s1.child m).constraints := by
      rw [hself2, hft.2.1]; rfl
    have hfk : KeysInv (s1.child m) → KeysInv ((runOn s1.w m (childCheckSat E extra)).2.fes.getD m {}) := by
      rw [hself2]; exact hft.2.2
    have h2 : CInv R RE E U Us1 { s1 with w := (runOn s1.w m (childCheckSat E extra)).2 } :=
      cinv_after_query h hm _ hk2 hm.reuse hlen2 hoth2 hfv hfc hfk
    have hcv2 : ∀ t, t < s.w.fes.length →
        (({ s1 with w := (runOn s1.w m (childCheckSat E extra)).2 } : CSt).child t).variables = (s.child t).variables := by
      intro t ht
      by_cases htm : t = m
      · subst htm
        show ((runOn s1.w t (childCheckSat E extra)).2.fes.getD t {}).variables = _
        rw [hfv, (hm.frame t ht).1]
      · show ((runOn s1.w m (childCheckSat E extra)).2.fes.getD t {}).variables = _
        rw [hoth2 t htm]
        show (s1.child t).variables = _
        rw [(hm.frame t ht).1]
    have hlt2 : m < ({ s1 with w := (runOn s1.w m (childCheckSat E extra)).2 } : CSt).w.fes.length := by
      show m < (runOn s1.w m (childCheckSat E extra)).2.fes.length
      rw [hlen2]; exact hm.lt
    -- everything the user added implies the merged constraints
    have hdown : ∀ a, Models U a → Models (Us1.getD m []) a := by
      intro a ha
      refine (hm.sem a).mpr fun t ht => ?_
      obtain ⟨n, _, hn⟩ := (mem_solversFor _ _ _).mp ht
      exact (h.sem hun' a).mp ha t ((mem_solverList' _ h.nodup t).mpr ⟨n, hn⟩)
    have hans : match (runOn s1.w m (childCheckSat E extra)).1 with
        | .ok b => (b = true ↔ Satisfiable (Us1.getD m [] ++ extra))
        | .error e => IsGiveUp E e := by
      rw [runOn_eq]
      revert hspec; generalize childCheckSat E extra (stOfI s1.w m) = res
      obtain ⟨r, s'⟩ := res
      cases r with
      | ok b => exact fun hs => hs.1
      | error e => exact fun hs => hs.1
    clear hspec hft hk2 hself2 hoth2 hlen2 hfc hfk
    revert hfv h2 hcv2 hlt2 hans
    generalize (runOn s1.w m (childCheckSat E extra)).2 = w2
    generalize (runOn s1.w m (childCheckSat E extra)).1 = r2
    intro hfv h2 hcv2 hlt2 hspec
    cases r2 with
    | error e => exact ⟨hspec, Us1, h2⟩
    | ok b =>
      cases b with
      | false =>
        simp only [Bool.not_false, ↓reduceIte, pure, CM.pure]
        refine ⟨⟨fun hb => (by cases hb), fun ⟨a, ha⟩ => ?_⟩, Us1, h2⟩
        obtain ⟨haU, haE⟩ := models_append.mp ha
        have := hspec.mpr ⟨a, models_append.mpr ⟨hdown a haU, haE⟩⟩
        cases this
      | true =>
        simp only [Bool.not_true, Bool.false_eq_true, ↓reduceIte]
        have hsatE : Satisfiable (Us1.getD m [] ++ extra) := hspec.mp rfl
        have hsatM : Satisfiable (Us1.getD m []) := by
          obtain ⟨a, ha⟩ := hsatE
          exact ⟨a, (models_append.mp ha).1⟩
        obtain ⟨s3, Us3, hrb, hpost⟩ := extra_reabsorb_post H h hr hm h2 hm.comp hfv hcv2 hlt2 hun' hsatM hK
        simp only [CM.bind, hrb]
        have htail := extraTail_spec H F extra names hwf hvn hpost (by
          intro v hv
          cases hg : alGet? s.c.solvers v with
          | none => right; show alGet? s1.c.solvers v = none; rw [hm.comp]; exact hg
          | some t =>
            left
            show v ∈ (w2.fes.getD m {}).variables
            rw [hfv]
            exact hm.sup t ((mem_solversFor _ _ _).mpr ⟨v, hv, hg⟩) v (h.map v t hg).2) hsatE
        revert htail
        generalize extraTail E m s3 = res
        obtain ⟨r, s'⟩ := res
        cases r with
        | error e => exact fun ht => ⟨ht.1, Us3, ht.2⟩
        | ok b => exact fun ht => ⟨ht.1, Us3, ht.2⟩

end

end Claripy.Solver
