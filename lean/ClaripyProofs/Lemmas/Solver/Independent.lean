import ClaripyProofs.Lemmas.Solver.Basic
/-!
Independence of variable-disjoint constraint sets (what SolverComposite relies on): models can be glued, so
disjoint sets are jointly satisfiable iff each is, and a query about `e` depends only on the component that owns
the variables of `e`.
-/
namespace Claripy.Solver

def varsOf (cs : List Con) : List Var := cs.flatMap (·.vars)

theorem mem_varsOf {cs : List Con} {c : Con} {v : Var} (hc : c ∈ cs) (hv : v ∈ c.vars) : v ∈ varsOf cs :=
  List.mem_flatMap.mpr ⟨c, hc, hv⟩

/-- no variable occurs on both sides -/
def DisjointVars (A B : List Con) : Prop := ∀ v, v ∈ varsOf A → v ∉ varsOf B

/-- `a` on the variables in `V`, `b` elsewhere -/
def glue (V : List Var) (a b : Asg) : Asg := fun v => if v ∈ V then a v else b v

/-- the value of an expression depends only on the variables it lists -/
def ExpDep (e : Exp) : Prop := ∀ a a' : Asg, (∀ v ∈ e.vars, a v = a' v) → e.val a = e.val a'

theorem models_of_agree {A : List Con} (hwf : ∀ c ∈ A, ConWf c) {a a' : Asg}
    (hag : ∀ v ∈ varsOf A, a v = a' v) (h : Models A a) : Models A a' := by
  intro c hc
  rw [← (hwf c hc).1 a a' (fun v hv => hag v (mem_varsOf hc hv))]
  exact h c hc

theorem models_append {A B : List Con} {a : Asg} : Models (A ++ B) a ↔ Models A a ∧ Models B a := by
  simp only [Models, List.mem_append]
  exact ⟨fun h => ⟨fun c hc => h c (Or.inl hc), fun c hc => h c (Or.inr hc)⟩,
         fun ⟨h1, h2⟩ c hc => hc.elim (h1 c) (h2 c)⟩

/-- **model gluing** -/
theorem models_glue {A B : List Con} (wfA : ∀ c ∈ A, ConWf c) (wfB : ∀ c ∈ B, ConWf c) (V : List Var)
    (hVA : ∀ v ∈ varsOf A, v ∈ V) (hVB : ∀ v ∈ varsOf B, v ∉ V) {a b : Asg} (ha : Models A a) (hb : Models B b) :
    Models (A ++ B) (glue V a b) := by
  refine models_append.mpr ⟨models_of_agree wfA (fun v hv => ?_) ha, models_of_agree wfB (fun v hv => ?_) hb⟩
  · simp [glue, hVA v hv]
  · simp [glue, hVB v hv]

/-- variable-disjoint constraint sets are jointly satisfiable iff each of them is -/
theorem satisfiable_append_iff {A B : List Con} (wfA : ∀ c ∈ A, ConWf c) (wfB : ∀ c ∈ B, ConWf c)
    (hd : DisjointVars A B) : Satisfiable (A ++ B) ↔ Satisfiable A ∧ Satisfiable B := by
  constructor
  · rintro ⟨a, ha⟩
    exact ⟨⟨a, (models_append.mp ha).1⟩, ⟨a, (models_append.mp ha).2⟩⟩
  · rintro ⟨⟨a, ha⟩, ⟨b, hb⟩⟩
    exact ⟨glue (varsOf A) a b, models_glue wfA wfB (varsOf A) (fun _ h => h) (fun v hv hv' => hd v hv' hv) ha hb⟩

/-- a value of `e` is feasible for the whole iff it is feasible for the component that owns the variables of `e`
and the rest is satisfiable: queries can be answered by the component alone -/
theorem feasible_component {A B : List Con} (wfA : ∀ c ∈ A, ConWf c) (wfB : ∀ c ∈ B, ConWf c)
    (hd : DisjointVars A B) (e : Exp) (he : ExpDep e) (heB : ∀ v ∈ e.vars, v ∉ varsOf B) (x : Nat) :
    Feasible (A ++ B) e x ↔ Feasible A e x ∧ Satisfiable B := by
  constructor
  · rintro ⟨a, ha, hx⟩
    exact ⟨⟨a, (models_append.mp ha).1, hx⟩, ⟨a, (models_append.mp ha).2⟩⟩
  · rintro ⟨⟨a, ha, hx⟩, ⟨b, hb⟩⟩
    refine ⟨glue (varsOf A ++ e.vars) a b, ?_, ?_⟩
    · refine models_glue wfA wfB _ (fun v hv => List.mem_append_left _ hv) (fun v hv hv' => ?_) ha hb
      rcases List.mem_append.mp hv' with h | h
      · exact hd v h hv
      · exact heB v h hv
    · rw [← hx]
      exact he _ _ (fun v hv => by simp [glue, hv])

/-- the optimum of `e` over the whole is the optimum over its component (when the rest is satisfiable) -/
theorem isOpt_component {A B : List Con} (wfA : ∀ c ∈ A, ConWf c) (wfB : ∀ c ∈ B, ConWf c)
    (hd : DisjointVars A B) (e : Exp) (he : ExpDep e) (heB : ∀ v ∈ e.vars, v ∉ varsOf B) (hB : Satisfiable B)
    (isMax signed : Bool) (i : Int) : IsOpt isMax signed (A ++ B) e i ↔ IsOpt isMax signed A e i := by
  have hf : ∀ x, Feasible (A ++ B) e x ↔ Feasible A e x := fun x => by
    rw [feasible_component wfA wfB hd e he heB x]; exact ⟨fun h => h.1, fun h => ⟨h, hB⟩⟩
  simp only [IsOpt, hf]

end Claripy.Solver
