import ClaripyProofs.Lemmas.Solver.L1
import ClaripyProofs.Lemmas.Solver.Arith
/-!
L1, part 3: the binary search `_extrema` returns the optimum in the requested signedness
(loop invariant `lo ≤ opt ≤ hi`, the width bounds the number of iterations).
-/
namespace Claripy.Solver

/-- expressions evaluate to `bits`-bit patterns -/
def ExpWf (e : Exp) : Prop := 1 ≤ e.bits ∧ ∀ a, e.val a < 2 ^ e.bits

theorem geSem_iff (signed : Bool) (e : Exp) (m : Int) (a : Asg) (he : ExpWf e)
    (h0 : loOf signed e.bits ≤ m) (h1 : m ≤ hiOf signed e.bits) :
    geSem signed e m a = true ↔ m ≤ key signed e.bits (e.val a) := by
  have hk := key_wrap signed e.bits m he.1 h0 h1
  cases signed
  · simp only [geSem, Bool.false_eq_true, ↓reduceIte, decide_eq_true_eq, ge_iff_le]
    rw [key_unsigned _ _ (he.2 a)]
    rw [key_unsigned _ _ (wrap_lt _ _)] at hk
    omega
  · simp only [geSem, ↓reduceIte, decide_eq_true_eq, ge_iff_le]
    simp only [key, ↓reduceIte] at hk ⊢
    rw [hk]

theorem leSem_iff (signed : Bool) (e : Exp) (m : Int) (a : Asg) (he : ExpWf e)
    (h0 : loOf signed e.bits ≤ m) (h1 : m ≤ hiOf signed e.bits) :
    leSem signed e m a = true ↔ key signed e.bits (e.val a) ≤ m := by
  have hk := key_wrap signed e.bits m he.1 h0 h1
  cases signed
  · simp only [leSem, Bool.false_eq_true, ↓reduceIte, decide_eq_true_eq]
    rw [key_unsigned _ _ (he.2 a)]
    rw [key_unsigned _ _ (wrap_lt _ _)] at hk
    omega
  · simp only [leSem, ↓reduceIte, decide_eq_true_eq]
    simp only [key, ↓reduceIte] at hk ⊢
    rw [hk]

theorem eqCon_iff (signed : Bool) (e : Exp) (m : Int) (a : Asg) (he : ExpWf e)
    (h0 : loOf signed e.bits ≤ m) (h1 : m ≤ hiOf signed e.bits) :
    (eqCon e m).sem a = true ↔ key signed e.bits (e.val a) = m := by
  have hk := key_wrap signed e.bits m he.1 h0 h1
  simp only [eqCon, decide_eq_true_eq]
  constructor
  · intro h; rw [h]; exact hk
  · intro h
    exact key_inj signed e.bits _ _ he.1 (he.2 a) (wrap_lt _ _) (by rw [h, hk])

theorem rangeCon_iff (signed : Bool) (e : Exp) (lo hi : Int) (a : Asg) (he : ExpWf e)
    (h0 : loOf signed e.bits ≤ lo) (h1 : lo ≤ hiOf signed e.bits)
    (h2 : loOf signed e.bits ≤ hi) (h3 : hi ≤ hiOf signed e.bits) :
    (rangeCon signed e lo hi).sem a = true ↔ lo ≤ key signed e.bits (e.val a) ∧ key signed e.bits (e.val a) ≤ hi := by
  simp only [rangeCon, Bool.and_eq_true, geSem_iff signed e lo a he h0 h1, leSem_iff signed e hi a he h2 h3]

/-- the search invariant: `max`: every attained key is ≤ hi and some attained key is ≥ lo; `min`: dually -/
def Bracket (isMax : Bool) (cs : List ZCon) (K : Asg → Int) (lo hi : Int) : Prop :=
  if isMax then (∀ a, SatBy cs a → K a ≤ hi) ∧ (∃ a, SatBy cs a ∧ lo ≤ K a)
  else (∀ a, SatBy cs a → lo ≤ K a) ∧ (∃ a, SatBy cs a ∧ K a ≤ hi)

theorem satBy_assume (A extra : List ZCon) (c : ZCon) (a : Asg) :
    SatBy (A ++ (extra ++ [c])) a ↔ SatBy (A ++ extra) a ∧ c.sem a = true := by
  rw [← List.append_assoc, SatBy.append]
  simp [SatBy]

theorem pow_half_le (fuel : Nat) (d : Int) (h : d ≤ ((2 ^ (fuel + 1) : Nat) : Int)) :
    (d + 1) / 2 ≤ ((2 ^ fuel : Nat) : Int) := by
  have : 2 ^ (fuel + 1) = 2 * 2 ^ fuel := by rw [Nat.pow_succ, Nat.mul_comm]
  omega

theorem extremaLoop_spec {E : Env} (hE : OracleExact E) {hook : PModel → M Unit} {A : List ZCon}
    {P : Frontend → Prop} (hh : HookOk hook A P) (r : Nat) (isMax : Bool) (e : Exp) (extra : List ZCon)
    (signed : Bool) (he : ExpWf e) :
    ∀ (fuel : Nat) (lo hi : Int) (s : St), (∀ c ∈ A, c ∈ (objAt s r).asserted) →
      loOf signed e.bits ≤ lo → hi ≤ hiOf signed e.bits → lo ≤ hi → hi - lo ≤ ((2 ^ fuel : Nat) : Int) →
      Bracket isMax ((objAt s r).asserted ++ extra) (fun a => key signed e.bits (e.val a)) lo hi →
      match extremaLoop E r isMax e extra signed hook fuel lo hi s with
      | (.ok (lo', hi'), s') =>
          loOf signed e.bits ≤ lo' ∧ hi' ≤ hiOf signed e.bits ∧ lo' ≤ hi' ∧ hi' - lo' ≤ 1 ∧
          Bracket isMax ((objAt s r).asserted ++ extra) (fun a => key signed e.bits (e.val a)) lo' hi' ∧
          L1Step r P s s' ∧ (objAt s' r).frames = (objAt s r).frames
      | (.error err, s') => IsGiveUp E err ∧ L1Step r P s s' ∧ (objAt s' r).frames = (objAt s r).frames := by
  intro fuel
  induction fuel with
  | zero =>
    intro lo hi s hA h0 h1 hle hd hb
    simp only [extremaLoop, pure, M.pure]
    exact ⟨h0, h1, hle, by simpa using hd, hb, L1Step.refl r P s, trivial⟩
  | succ fuel ih =>
    intro lo hi s hA h0 h1 hle hd hb
    simp only [extremaLoop]
    by_cases hgt : hi - lo > 1
    · simp only [hgt, ↓reduceIte, bind, M.bind]
      have hmid1 : lo < (lo + hi) / 2 ∨ lo = (lo + hi) / 2 := by omega
      have hmlo : lo ≤ (lo + hi) / 2 := by omega
      have hmhi : (lo + hi) / 2 < hi := by omega
      have hmlo' : lo < (lo + hi) / 2 := by omega
      -- the query of this iteration
      generalize hc : (if isMax = true then rangeCon signed e ((lo + hi) / 2) hi else rangeCon signed e lo ((lo + hi) / 2)) = c
      have hck := z3Check_cases hE r (extra ++ [c]) s
      rcases h : z3Check E r (extra ++ [c]) s with ⟨res, s1⟩
      rw [h] at hck
      have hcsem : ∀ a, c.sem a = true ↔
          (if isMax = true then (lo + hi) / 2 ≤ key signed e.bits (e.val a) ∧ key signed e.bits (e.val a) ≤ hi
           else lo ≤ key signed e.bits (e.val a) ∧ key signed e.bits (e.val a) ≤ (lo + hi) / 2) := by
        intro a
        subst hc
        cases isMax
        · simp only [Bool.false_eq_true, ↓reduceIte]
          exact rangeCon_iff signed e lo ((lo + hi) / 2) a he h0 (by omega) (by omega) (by omega)
        · simp only [↓reduceIte]
          exact rangeCon_iff signed e ((lo + hi) / 2) hi a he (by omega) (by omega) (by omega) h1
      -- after the check (and possibly the hook) the assertions are unchanged
      have hnext : ∀ (s2 : St) (lo2 hi2 : Int), L1Step r P s s2 → (objAt s2 r).frames = (objAt s r).frames →
          loOf signed e.bits ≤ lo2 → hi2 ≤ hiOf signed e.bits → lo2 ≤ hi2 → hi2 - lo2 ≤ ((2 ^ fuel : Nat) : Int) →
          Bracket isMax ((objAt s r).asserted ++ extra) (fun a => key signed e.bits (e.val a)) lo2 hi2 →
          match extremaLoop E r isMax e extra signed hook fuel lo2 hi2 s2 with
          | (.ok (lo', hi'), s') =>
              loOf signed e.bits ≤ lo' ∧ hi' ≤ hiOf signed e.bits ∧ lo' ≤ hi' ∧ hi' - lo' ≤ 1 ∧
              Bracket isMax ((objAt s r).asserted ++ extra) (fun a => key signed e.bits (e.val a)) lo' hi' ∧
              L1Step r P s s' ∧ (objAt s' r).frames = (objAt s r).frames
          | (.error err, s') => IsGiveUp E err ∧ L1Step r P s s' ∧ (objAt s' r).frames = (objAt s r).frames := by
        intro s2 lo2 hi2 hst2 hfr2 g0 g1 gle gd gb
        have has : (objAt s2 r).asserted = (objAt s r).asserted := by simp only [Z3Obj.asserted, hfr2]
        have := ih lo2 hi2 s2 (by rw [has]; exact hA) g0 g1 gle gd (by rw [has]; exact gb)
        rcases hl : extremaLoop E r isMax e extra signed hook fuel lo2 hi2 s2 with ⟨res3, s3⟩
        rw [hl] at this
        cases res3 with
        | error err => exact ⟨this.1, hst2.trans this.2.1, by rw [this.2.2, hfr2]⟩
        | ok p =>
          obtain ⟨lo', hi'⟩ := p
          obtain ⟨a1, a2, a3, a4, a5, a6, a7⟩ := this
          rw [has] at a5
          exact ⟨a1, a2, a3, a4, a5, hst2.trans a6, by rw [a7, hfr2]⟩
      have hdlo : (lo + hi) / 2 - lo ≤ ((2 ^ fuel : Nat) : Int) := by
        have := pow_half_le fuel (hi - lo) hd; omega
      have hdhi : hi - (lo + hi) / 2 ≤ ((2 ^ fuel : Nat) : Int) := by
        have := pow_half_le fuel (hi - lo) hd; omega
      cases res with
      | error err => exact ⟨hck.1, hck.2.toL1 P, hck.2.frames⟩
      | ok v =>
        cases v with
        | none =>
          -- unsat: nothing in the probed half
          obtain ⟨hun, hstep⟩ := hck
          have hnone : ∀ a, SatBy ((objAt s r).asserted ++ extra) a → ¬ c.sem a = true :=
            fun a ha hca => hun a ((satBy_assume _ _ _ a).mpr ⟨ha, hca⟩)
          cases isMax
          · simp only [Bool.false_eq_true, ↓reduceIte] at hcsem hb ⊢
            simp only [Bracket, Bool.false_eq_true, ↓reduceIte] at hb
            refine hnext s1 ((lo + hi) / 2) hi (hstep.toL1 P) hstep.frames (by omega) h1 (by omega) hdhi ?_
            simp only [Bracket, Bool.false_eq_true, ↓reduceIte]
            refine ⟨fun a ha => ?_, hb.2⟩
            have h1' := hb.1 a ha
            have h2' := hnone a ha
            rw [hcsem a] at h2'
            omega
          · simp only [↓reduceIte] at hcsem hb ⊢
            simp only [Bracket, ↓reduceIte] at hb
            refine hnext s1 lo ((lo + hi) / 2) (hstep.toL1 P) hstep.frames h0 (by omega) (by omega) hdlo ?_
            simp only [Bracket, ↓reduceIte]
            refine ⟨fun a ha => ?_, hb.2⟩
            have h1' := hb.1 a ha
            have h2' := hnone a ha
            rw [hcsem a] at h2'
            omega
        | some p =>
          obtain ⟨vals, keys⟩ := p
          obtain ⟨hp, hsat, hstep⟩ := hck
          have hm : PartialModelOf (PModel.ofKeys vals keys) A :=
            hp.mono (fun c hc => List.mem_append_left _ (hA c hc))
          obtain ⟨hok, hst, hobjs⟩ := hh.step (PModel.ofKeys vals keys) s1 r hm (PModel.sorted_ofKeys vals keys)
          rcases hk : hook (PModel.ofKeys vals keys) s1 with ⟨res2, s2⟩
          rw [hk] at hok hst hobjs
          simp only at hok hobjs
          subst hok
          simp only [M.bind, hk]
          have hfr2 : (objAt s2 r).frames = (objAt s r).frames := by
            rw [objAt_of_objs_eq hobjs]; exact hstep.frames
          have hw := (satBy_assume _ _ _ (asgOf vals)).mp hsat
          cases isMax
          · simp only [Bool.false_eq_true, ↓reduceIte] at hcsem hb ⊢
            simp only [Bracket, Bool.false_eq_true, ↓reduceIte] at hb
            refine hnext s2 lo ((lo + hi) / 2) ((hstep.toL1 P).trans hst) hfr2 h0 (by omega) (by omega) hdlo ?_
            simp only [Bracket, Bool.false_eq_true, ↓reduceIte]
            exact ⟨hb.1, asgOf vals, hw.1, ((hcsem _).mp hw.2).2⟩
          · simp only [↓reduceIte] at hcsem hb ⊢
            simp only [Bracket, ↓reduceIte] at hb
            refine hnext s2 ((lo + hi) / 2) hi ((hstep.toL1 P).trans hst) hfr2 (by omega) h1 (by omega) hdhi ?_
            simp only [Bracket, ↓reduceIte]
            exact ⟨hb.1, asgOf vals, hw.1, ((hcsem _).mp hw.2).1⟩
    · simp only [hgt, ↓reduceIte, pure, M.pure]
      exact ⟨h0, h1, hle, by omega, hb, L1Step.refl r P s, trivial⟩

end Claripy.Solver

namespace Claripy.Solver

/-- `i` is the optimum of `e` over the assignments satisfying `cs`, as an integer in the range of the signedness -/
def IsOptZ (isMax signed : Bool) (cs : List ZCon) (e : Exp) (i : Int) : Prop :=
  loOf signed e.bits ≤ i ∧ i ≤ hiOf signed e.bits ∧
  (∃ a, SatBy cs a ∧ key signed e.bits (e.val a) = i) ∧
  ∀ a, SatBy cs a → if isMax then key signed e.bits (e.val a) ≤ i else i ≤ key signed e.bits (e.val a)

/-- **extrema_correct**: over an exact oracle and a satisfiable query the binary search returns the optimum in
the requested signedness; the frames of the solver object are untouched (also when the backend gives up) -/
theorem z3Extrema_spec {E : Env} (hE : OracleExact E) {hook : PModel → M Unit} {A : List ZCon}
    {P : Frontend → Prop} (hh : HookOk hook A P) (r : Nat) (isMax : Bool) (e : Exp) (extra : List ZCon)
    (signed : Bool) (he : ExpWf e) (s : St) (hA : ∀ c ∈ A, c ∈ (objAt s r).asserted)
    (hsat : ∃ a, SatBy ((objAt s r).asserted ++ extra) a) :
    match z3Extrema E r isMax e extra signed hook s with
    | (.ok i, s') => IsOptZ isMax signed ((objAt s r).asserted ++ extra) e i ∧ L1Step r P s s' ∧
                     (objAt s' r).frames = (objAt s r).frames
    | (.error err, s') => IsGiveUp E err ∧ L1Step r P s s' ∧ (objAt s' r).frames = (objAt s r).frames := by
  have hP := two_pow_pred e.bits he.1
  have hP2 : 2 ^ (e.bits + 1) = 2 * 2 ^ e.bits := by rw [Nat.pow_succ, Nat.mul_comm]
  have hrange : ∀ a, loOf signed e.bits ≤ key signed e.bits (e.val a) ∧ key signed e.bits (e.val a) ≤ hiOf signed e.bits :=
    fun a => key_range signed e.bits (e.val a) he.1 (he.2 a)
  have hle0 : loOf signed e.bits ≤ hiOf signed e.bits := by
    obtain ⟨a, _⟩ := hsat
    have := hrange a; omega
  have hb0 : Bracket isMax ((objAt s r).asserted ++ extra) (fun a => key signed e.bits (e.val a))
      (loOf signed e.bits) (hiOf signed e.bits) := by
    obtain ⟨a, ha⟩ := hsat
    unfold Bracket
    split
    · exact ⟨fun a _ => (hrange a).2, a, ha, (hrange a).1⟩
    · exact ⟨fun a _ => (hrange a).1, a, ha, (hrange a).2⟩
  have hd0 : hiOf signed e.bits - loOf signed e.bits ≤ ((2 ^ (e.bits + 1) : Nat) : Int) := by
    cases signed <;> simp only [loOf, hiOf, Bool.false_eq_true, ↓reduceIte] <;> omega
  have hloop := extremaLoop_spec hE hh r isMax e extra signed he (e.bits + 1) (loOf signed e.bits) (hiOf signed e.bits) s
    hA (Int.le_refl _) (Int.le_refl _) hle0 hd0 hb0
  simp only [z3Extrema, bind, M.bind]
  have hlo0 : (if signed = true then -((2 ^ (e.bits - 1) : Nat) : Int) else 0) = loOf signed e.bits := rfl
  have hhi0 : (if signed = true then ((2 ^ (e.bits - 1) : Nat) : Int) - 1 else ((2 ^ e.bits : Nat) : Int) - 1) = hiOf signed e.bits := rfl
  rw [hlo0, hhi0]
  rcases hl : extremaLoop E r isMax e extra signed hook (e.bits + 1) (loOf signed e.bits) (hiOf signed e.bits) s with ⟨res, s1⟩
  rw [hl] at hloop
  cases res with
  | error err => exact hloop
  | ok p =>
    obtain ⟨lo, hi⟩ := p
    obtain ⟨g0, g1, gle, gd, gb, hst1, hfr1⟩ := hloop
    simp only
    have has1 : (objAt s1 r).asserted = (objAt s r).asserted := by simp only [Z3Obj.asserted, hfr1]
    have hck := z3Check_cases hE r (extra ++ [eqCon e (if isMax = true then hi else lo)]) s1
    rcases h : z3Check E r (extra ++ [eqCon e (if isMax = true then hi else lo)]) s1 with ⟨res2, s2⟩
    rw [h] at hck
    rw [has1] at hck
    have hin0 : loOf signed e.bits ≤ (if isMax = true then hi else lo) := by split <;> omega
    have hin1 : (if isMax = true then hi else lo) ≤ hiOf signed e.bits := by split <;> omega
    have heq : ∀ a, (eqCon e (if isMax = true then hi else lo)).sem a = true ↔
        key signed e.bits (e.val a) = (if isMax = true then hi else lo) :=
      fun a => eqCon_iff signed e _ a he hin0 hin1
    cases res2 with
    | error err => exact ⟨hck.1, hst1.trans (hck.2.toL1 P), by rw [hck.2.frames, hfr1]⟩
    | ok v =>
      cases v with
      | none =>
        obtain ⟨hun, hstep⟩ := hck
        simp only [pure, M.pure]
        refine ⟨?_, hst1.trans (hstep.toL1 P), by rw [hstep.frames, hfr1]⟩
        have hnone : ∀ a, SatBy ((objAt s r).asserted ++ extra) a →
            key signed e.bits (e.val a) ≠ (if isMax = true then hi else lo) :=
          fun a ha hk => hun a ((satBy_assume _ _ _ a).mpr ⟨ha, (heq a).mpr hk⟩)
        cases isMax
        · -- min, `lo` is not attained: the minimum is `hi`
          simp only [IsOptZ, Bool.false_eq_true, ↓reduceIte] at hnone ⊢
          simp only [Bracket, Bool.false_eq_true, ↓reduceIte] at gb
          obtain ⟨hall, a, ha, hak⟩ := gb
          refine ⟨by omega, g1, ⟨a, ha, ?_⟩, fun a' ha' => ?_⟩
          · have := hall a ha; have := hnone a ha; omega
          · have := hall a' ha'; have := hnone a' ha'; omega
        · simp only [IsOptZ, ↓reduceIte] at hnone ⊢
          simp only [Bracket, ↓reduceIte] at gb
          obtain ⟨hall, a, ha, hak⟩ := gb
          refine ⟨g0, by omega, ⟨a, ha, ?_⟩, fun a' ha' => ?_⟩
          · have := hall a ha; have := hnone a ha; omega
          · have := hall a' ha'; have := hnone a' ha'; omega
      | some p =>
        obtain ⟨vals, keys⟩ := p
        obtain ⟨hp, hsat2, hstep⟩ := hck
        have hA1 : ∀ c ∈ A, c ∈ (objAt s r).asserted ++ (extra ++ [eqCon e (if isMax = true then hi else lo)]) :=
          fun c hc => List.mem_append_left _ (hA c hc)
        have hm : PartialModelOf (PModel.ofKeys vals keys) A := hp.mono hA1
        obtain ⟨hok, hst, hobjs⟩ := hh.step (PModel.ofKeys vals keys) s2 r hm (PModel.sorted_ofKeys vals keys)
        rcases hk : hook (PModel.ofKeys vals keys) s2 with ⟨res3, s3⟩
        rw [hk] at hok hst hobjs
        simp only at hok hobjs
        subst hok
        simp only [M.bind, hk, pure, M.pure]
        refine ⟨?_, (hst1.trans (hstep.toL1 P)).trans hst, by rw [objAt_of_objs_eq hobjs, hstep.frames, hfr1]⟩
        have hw := (satBy_assume _ _ _ (asgOf vals)).mp hsat2
        have hwk := (heq _).mp hw.2
        cases isMax
        · simp only [IsOptZ, Bool.false_eq_true, ↓reduceIte] at hwk ⊢
          simp only [Bracket, Bool.false_eq_true, ↓reduceIte] at gb
          exact ⟨g0, by omega, ⟨asgOf vals, hw.1, hwk⟩, fun a' ha' => gb.1 a' ha'⟩
        · simp only [IsOptZ, ↓reduceIte] at hwk ⊢
          simp only [Bracket, ↓reduceIte] at gb
          exact ⟨by omega, g1, ⟨asgOf vals, hw.1, hwk⟩, fun a' ha' => gb.1 a' ha'⟩

end Claripy.Solver
