import ClaripyProofs.Lemmas.Solver.SolverTop
/-!
The public methods of the class `Solver` (`classOps E .Solver`, five unrollings of `self` over the generated MRO): each
call answers as `Judge` allows — or raises the give-up error, or `UnsatError` on unsatisfiable constraints — and keeps the
invariant `SI`.
-/
namespace Claripy.Solver

variable {R : Con → Prop} {RE : Exp → Prop} {E : Env} {G : St → Prop} {U : List Con}

section
variable (H : SolverHyps R RE E)
include H

/-- every unrolling of `self` past the first has all of `Ok3` -/
theorem solStage_ok1 (k : Nat) : Ok1 R RE E G (solStage E k) := by
  cases k with
  | zero => exact sL9_ok1 H frontendBase
  | succ k => exact sL9_ok1 H (solStage E k)

theorem solStage_ok3 (k : Nat) : Ok3 R RE E G (solStage E (k + 1)) := sL9_ok3 H (solStage_ok1 H k)

/-! ### queries -/

theorem sol_satisfiable_top (k : Nat) (extra : List Con) (wf : ∀ c ∈ extra, ConWf c) :
    SatSpec R RE E G U extra ((solStage E (k + 1)).satisfiable extra) := (solStage_ok3 H k).sat U extra wf

theorem sol_eval_top (k : Nat) (e : Exp) (he : RE e) (n : Nat) (hn : 1 ≤ n) (extra : List Con) (wf : ∀ c ∈ extra, ConWf c)
    (s : St) (h : SI R RE E G U s) :
    match (solStage E (k + 1)).eval e n extra s with
    | (.ok vs, s') => EvalOk (U ++ extra) e n vs ∧ SI R RE E G U s'
    | (.error err, s') => ErrOk E (U ++ extra) err ∧ SI R RE E G U s' := by
  cases hc : e.conc with
  | some c =>
    have : (solStage E (k + 1)).eval e n extra s = (.ok [c], s) := by
      show (match (solStage E k).concreteValue e with | some c => pure [c] | none => (sL7 E (solStage E k)).eval e n extra) s = _
      rw [(solStage_ok1 (G := G) H k).cv e, hc]; rfl
    rw [this]
    exact ⟨by simp [EvalOk, hc], h⟩
  | none =>
    have := (solStage_ok3 H k).eval U e n extra he hc hn wf s h
    revert this
    generalize (solStage E (k + 1)).eval e n extra s = res
    rcases res with ⟨r, s1⟩
    cases r with
    | ok vs => exact fun ⟨a, _, _, d, _⟩ => ⟨a, d⟩
    | error err => exact fun ⟨a, b, _⟩ => ⟨a, b⟩

theorem sol_opt_top (k : Nat) (isMax : Bool) (e : Exp) (he : RE e) (extra : List Con) (signed : Bool)
    (wf : ∀ c ∈ extra, ConWf c) (s : St) (h : SI R RE E G U s) :
    match (if isMax then (solStage E (k + 2)).max e extra signed else (solStage E (k + 2)).min e extra signed) s with
    | (.ok i, s') => (match e.conc with
                      | some c => i = (c : Int)
                      | none => IsOpt isMax signed (U ++ extra) e i) ∧ SI R RE E G U s'
    | (.error err, s') => ErrOk E (U ++ extra) err ∧ SI R RE E G U s' := by
  have hcv := (solStage_ok1 (G := G) H (k + 1)).cv e
  cases hc : e.conc with
  | some c =>
    have : (if isMax then (solStage E (k + 2)).max e extra signed else (solStage E (k + 2)).min e extra signed) s =
        (.ok (c : Int), s) := by
      have h1 : (solStage E (k + 2)).max e extra signed s = (.ok (c : Int), s) := by
        show (match (solStage E (k + 1)).concreteValue e with
          | some c => pure (c : Int) | none => (sL8 E (solStage E (k + 1))).max e extra signed) s = _
        rw [hcv, hc]; rfl
      have h2 : (solStage E (k + 2)).min e extra signed s = (.ok (c : Int), s) := by
        show (match (solStage E (k + 1)).concreteValue e with
          | some c => pure (c : Int) | none => (sL8 E (solStage E (k + 1))).min e extra signed) s = _
        rw [hcv, hc]; rfl
      cases isMax
      · simpa using h2
      · simpa using h1
    rw [this]
    exact ⟨rfl, h⟩
  | none =>
    have hrun : (if isMax then (solStage E (k + 2)).max e extra signed else (solStage E (k + 2)).min e extra signed) s =
        (if isMax then (sL7 E (solStage E (k + 1))).max e extra signed else (sL7 E (solStage E (k + 1))).min e extra signed) s := by
      have h1 : (solStage E (k + 2)).max e extra signed s = (sL7 E (solStage E (k + 1))).max e extra signed s := by
        show (match (solStage E (k + 1)).concreteValue e with
          | some c => pure (c : Int) | none => (sL8 E (solStage E (k + 1))).max e extra signed) s = _
        rw [hcv, hc]; rfl
      have h2 : (solStage E (k + 2)).min e extra signed s = (sL7 E (solStage E (k + 1))).min e extra signed s := by
        show (match (solStage E (k + 1)).concreteValue e with
          | some c => pure (c : Int) | none => (sL8 E (solStage E (k + 1))).min e extra signed) s = _
        rw [hcv, hc]; rfl
      cases isMax
      · simpa using h2
      · simpa using h1
    rw [hrun]
    have := sL7_opt_spec H (solStage_ok3 (G := G) H k) isMax e he hc extra signed wf s h
    revert this
    generalize (if isMax then (sL7 E (solStage E (k + 1))).max e extra signed
      else (sL7 E (solStage E (k + 1))).min e extra signed) s = res
    rcases res with ⟨r, s1⟩
    cases r with
    | ok i => exact fun ⟨a, _, c, _⟩ => ⟨a, c⟩
    | error err => exact fun ⟨a, b, _⟩ => ⟨a, b⟩

theorem sol_solution_top (k : Nat) (e : Exp) (he : RE e) (v : Nat) (hv : v < 2 ^ e.bits) (extra : List Con)
    (wf : ∀ c ∈ extra, ConWf c) (s : St) (h : SI R RE E G U s) :
    match (solStage E (k + 2)).solution e v extra s with
    | (.ok b, s') => (match e.conc with
                      | some c => b = (c == v)
                      | none => (b = true ↔ Feasible (U ++ extra) e v)) ∧ SI R RE E G U s'
    | (.error err, s') => ErrOk E (U ++ extra) err ∧ SI R RE E G U s' := by
  have hcv := (solStage_ok1 (G := G) H (k + 1)).cv e
  cases hc : e.conc with
  | some c =>
    have : (solStage E (k + 2)).solution e v extra s = (.ok (c == v), s) := by
      show (match (solStage E (k + 1)).concreteValue e with
        | some ce => pure (ce == v) | none => (sL8 E (solStage E (k + 1))).solution e v extra) s = _
      rw [hcv, hc]; rfl
    rw [this]
    exact ⟨rfl, h⟩
  | none =>
    have hrun : (solStage E (k + 2)).solution e v extra s = (sL7 E (solStage E (k + 1))).solution e v extra s := by
      show (match (solStage E (k + 1)).concreteValue e with
        | some ce => pure (ce == v) | none => (sL8 E (solStage E (k + 1))).solution e v extra) s = _
      rw [hcv, hc]; rfl
    rw [hrun]
    have := sL7_solution_spec H (solStage_ok3 (G := G) H k).toOk2 e he hc v hv extra wf s h
    revert this
    generalize (sL7 E (solStage E (k + 1))).solution e v extra s = res
    rcases res with ⟨r, s1⟩
    cases r with
    | ok b => exact fun ⟨a, c, _⟩ => ⟨a, c⟩
    | error err => exact fun ⟨a, b, _⟩ => ⟨a, b⟩

/-! ### `is_true` / `is_false` -/

theorem sol_truth_top (k : Nat) (isTrue : Bool) (c : Con) (hc : ConWf c) (extra : List Con) (wf : ∀ c ∈ extra, ConWf c)
    (s : St) (h : SI R RE E G U s) :
    match (if isTrue then (solStage E (k + 1)).isTrue c extra else (solStage E (k + 1)).isFalse c extra) s with
    | (.ok b, s') => (b = true → ∀ a, Models (U ++ extra) a → c.sem a = isTrue) ∧ SI R RE E G U s'
    | (.error err, s') => ErrOk E (U ++ extra) err ∧ SI R RE E G U s' := by
  have hcc := (solStage_ok1 (G := G) H k).cc
  have hrun : (if isTrue then (solStage E (k + 1)).isTrue c extra else (solStage E (k + 1)).isFalse c extra) s =
      (match (solStage E k).concreteCon c with
       | some b => pure (if isTrue then b else !b)
       | none => do
          let _ec ← liftE (constraintFilter (solStage E k) extra)
          let _ ← getSolver
          let s ← M.get
          M.modify fun s => { s with tick := s.tick + 1 }
          pure (E.truth isTrue c s.tick) : M Bool) s := by
    cases isTrue
    · show (match (solStage E k).concreteCon c with
        | some b => pure (!b) | none => (sL8 E (solStage E k)).isFalse c extra) s = _
      cases (solStage E k).concreteCon c <;> rfl
    · show (match (solStage E k).concreteCon c with
        | some b => pure b | none => (sL8 E (solStage E k)).isTrue c extra) s = _
      cases (solStage E k).concreteCon c <;> rfl
  rw [hrun, hcc c]
  cases hconc : c.conc with
  | some b =>
    simp only [pure, M.pure]
    refine ⟨fun hb a _ => ?_, h⟩
    have := hc.2.2.1 b hconc a
    cases isTrue <;> simp_all
  | none =>
    simp only [bind, M.bind, liftE]
    have hf := filter_cases E (U := U) hcc extra wf
    cases hcf : constraintFilter (solStage E k) extra with
    | error err =>
      rw [hcf] at hf
      exact ⟨Or.inl hf, h⟩
    | ok ec =>
      simp only
      have hgsT := getSolverG_spec H.zid s h.base.core h.base.dinv.consR h.base.areg
      rcases hg : getSolver s with ⟨res, s1⟩
      rw [hg] at hgsT
      cases res with
      | error err => exact absurd hgsT id
      | ok r =>
        have hgs := hgsT.toGotSolver
        simp only [M.get_apply, M.modify_apply, pure, M.pure]
        have hst : ObjStep r s1 { s1 with tick := s1.tick + 1 } := ⟨rfl, fun _ _ => rfl, rfl, rfl⟩
        obtain ⟨h2, _⟩ := si_after_query h hgsT hst rfl (hookP_start h hgs)
        refine ⟨fun hb a _ => ?_, h2⟩
        cases isTrue
        · exact H.cheap.2.2 c _ hb a
        · exact H.cheap.2.1 c _ hb a

end

end Claripy.Solver
