import ClaripyProofs.Lemmas.Solver.CompositeHistory
/-!
The queries of CompositeFrontend other than `satisfiable()`: `eval`, `batch_eval`, `min`, `max`, `solution` (no extra
constraints) and `is_true` / `is_false` (any extra constraints) asked in a state that satisfies the bookkeeping invariant `CInv`:
the answer is the one `Judge` demands for ALL the constraints the user added.

`_ensure_sat` (= `satisfiable()`, `compSatisfiable_spec`), the merged solver of the names (`solverForNames_spec` with
`combineSpec`), the answer of that child (`ch_step_nb`: it satisfies `Judge` for the merged child's own constraints), the
transfer to the whole constraint list (`Equi`: every model of the merged child extends to a model of everything, because the
other children are satisfiable and share no variable with it — `children_joint_model`), and `_reabsorb_solver` does not raise
(`reabsorb_ok`: `split` of the temporary child succeeds, every part's least variable is a key of `_solvers`).

NOT proved here: that `_reabsorb_solver` re-establishes `CInv` (so these theorems speak about ONE query after any history of
`add` / `satisfiable()`), and extra constraints for the five value queries (`_ensure_sat(extra)` reabsorbs before the query).
-/
namespace Claripy.Solver

variable {R : Con → Prop} {RE : Exp → Prop} {E : Env}

/-! ### `_reabsorb_solver` does not raise -/

theorem forM_ok {P : CSt → Prop} (f : Nat → CM Unit) : ∀ (l : List Nat) (s : CSt), P s →
    (∀ p ∈ l, ∀ s, P s → ∃ s', f p s = (.ok (), s') ∧ P s') → ∃ s', l.forM f s = (.ok (), s') ∧ P s'
  | [], s, hs, _ => ⟨s, rfl, hs⟩
  | p :: rest, s, hs, hf => by
    obtain ⟨s1, h1, hp1⟩ := hf p (by simp) s hs
    obtain ⟨s2, h2, hp2⟩ := forM_ok f rest s1 hp1 (fun p' hp' => hf p' (List.mem_cons_of_mem _ hp'))
    refine ⟨s2, ?_, hp2⟩
    show ((do f p; rest.forM f) : CM Unit) s = _
    simp only [bind, CM.bind, h1, h2]

theorem childUpdate_vars (t p : Nat) (s : CSt) :
    ∃ s', childUpdate t p s = (.ok (), s') ∧ s'.c = s.c ∧ ∀ i, (s'.child i).variables = (s.child i).variables := by
  refine ⟨_, rfl, rfl, fun i => ?_⟩
  show ((s.w.fes.set t _).getD i {}).variables = _
  by_cases hit : i = t
  · subst hit
    by_cases hlt : i < s.w.fes.length
    · rw [getD_set_self _ _ _ _ hlt]
    · rw [List.set_eq_of_length_le (by omega)]; rfl
  · rw [getD_set_ne _ _ _ _ _ (Ne.symm hit)]; rfl

section
variable (H : SolverHyps R RE E)
include H

omit H in
theorem si_blank (w : World) (hre : w.reuse = false) (track : Bool) :
    SI R RE E (fun _ => True) []
      { fe := { track := track }, objs := w.objs, reuse := w.reuse, shared := w.shared, tick := w.tick, qlog := w.qlog } := by
  refine ⟨⟨⟨fun _ _ => rfl, fun r hr => ?_, hre⟩, fun _ => rfl, ⟨fun c hc => ?_, fun c _ hi => ?_⟩,
      fun c hc => ?_, ⟨_, trivial, WStep.refl _⟩, fun _ r hr => ?_⟩,
      mcInv_init RE E _ _ rfl rfl rfl rfl rfl rfl, ⟨fun hc => ?_, fun hc => ?_⟩⟩
  · cases hr
  · cases hc
  · rcases hi with hi | hi <;> cases hi
  · cases hc
  · cases hr
  · cases hc
  · cases hc

/-- a frontend without variables takes any registered constraints; it then knows variables of those constraints only -/
theorem blank_add_st (s0 : St) (hsi : SI R RE E (fun _ => True) [] s0) (hfe : s0.fe.variables = []) (cl : List Con)
    (hcl : ∀ c ∈ cl, R c) :
    ∃ added s1, publicAdd (childOps E) cl true s0 = (.ok added, s1) ∧ s1.reuse = s0.reuse ∧
      ∀ v ∈ s1.fe.variables, ∃ c ∈ cl, v ∈ c.vars := by
  by_cases hemp : cl.isEmpty = true
  · have hnil : cl = [] := by simpa using hemp
    subst hnil
    refine ⟨[], s0, rfl, rfl, ?_⟩
    intro v hv
    rw [hfe] at hv; cases hv
  · have hrun0 : publicAdd (childOps E) cl true s0 = (cL4 E (chStage E 3)).add cl true s0 := by
      simp [publicAdd, hemp, childOps_eq, chStage_eq]
    obtain ⟨new, s1, hrun, hrel, _, _, _⟩ := cL4_add_rel H (chStage E 3) [] s0 cl true hsi.mark hcl (fun hf => by cases hf)
    rw [hrun0, hrun]
    refine ⟨new, s1, rfl, hrel.reuse, ?_⟩
    intro v hv
    rcases (hrel.vars v).mp hv with hv | ⟨c, hc, hvc⟩
    · rw [hfe] at hv; cases hv
    · exact ⟨c, hrel.sub c hc, hvc⟩

/-- a blank copy joins the world and takes any registered constraints -/
theorem blank_add_ok (w : World) (hre : w.reuse = false) (fs : Frontend) (cl : List Con) (hcl : ∀ c ∈ cl, R c) :
    ∃ added w', runOn { w with fes := w.fes ++ [childBlank E fs] } w.fes.length (publicAdd (childOps E) cl) = (.ok added, w') ∧
      w'.reuse = false ∧ w'.fes.length = w.fes.length + 1 ∧ (∀ i, i < w.fes.length → w'.fes.getD i {} = w.fes.getD i {}) ∧
      ∀ v ∈ (w'.fes.getD w.fes.length {}).variables, ∃ c ∈ cl, v ∈ c.vars := by
  rw [runOn_eq, childBlank_eq]
  have hst : stOfI { w with fes := w.fes ++ [({ track := fs.track } : Frontend)] } w.fes.length =
      { fe := { track := fs.track }, objs := w.objs, reuse := w.reuse, shared := w.shared, tick := w.tick, qlog := w.qlog } := by
    simp only [stOfI, getD_append_last]
  have hsi := si_blank (R := R) (RE := RE) (E := E) w hre fs.track
  rw [← hst] at hsi
  obtain ⟨added, s1, hrun, _, hv1⟩ := blank_add_st H _ hsi (by rw [hst]) cl hcl
  rw [hrun]
  refine ⟨added, _, rfl, by simp [wOfI, hre], by simp [wOfI], ?_, ?_⟩
  · intro i hi
    simp only [wOfI]
    rw [getD_set_ne _ _ _ _ _ (Nat.ne_of_gt hi), getD_append_left' _ _ _ _ hi]
  · intro v hv
    have : (wOfI { w with fes := w.fes ++ [({ track := fs.track } : Frontend)] } w.fes.length s1).fes.getD w.fes.length {} = s1.fe := by
      simp only [wOfI]
      exact getD_set_self _ _ _ _ (by simp)
    rw [this] at hv
    exact hv1 v hv

/-- the loop of `ConstrainedFrontend.split` / `ModelCacheMixin.split` succeeds; the parts know variables of the split child's
constraints only; nobody else changes -/
theorem split_go_ok (fs : Frontend) : ∀ (lists : List (List Con)) (w : World) (acc : List Nat), w.reuse = false →
    (∀ cl ∈ lists, ∀ c ∈ cl, R c ∧ c ∈ fs.constraints) →
    ∃ parts w', childSplitWith.go E fs lists w acc = (.ok parts, w') ∧ w'.reuse = false ∧ w.fes.length ≤ w'.fes.length ∧
      (∀ i, i < w.fes.length → w'.fes.getD i {} = w.fes.getD i {}) ∧
      ∀ p ∈ parts, p ∈ acc ∨ ∀ v ∈ (w'.fes.getD p {}).variables, ∃ c ∈ fs.constraints, v ∈ c.vars
  | [], w, acc, hre, _ => ⟨acc, w, by simp [childSplitWith.go], hre, Nat.le_refl _, fun _ _ => rfl, fun p hp => Or.inl hp⟩
  | cl :: rest, w, acc, hre, hl => by
    obtain ⟨added, w1, hrun, hre1, hlen1, hfr1, hv1⟩ := blank_add_ok H w hre fs cl (fun c hc => (hl cl (by simp) c hc).1)
    have hk : w.fes.length < w1.fes.length := by rw [hlen1]; exact Nat.lt_succ_self _
    obtain ⟨parts, w2, hgo, hre2, hlen2, hfr2, hp2⟩ := split_go_ok fs rest
      { w1 with fes := w1.fes.set w.fes.length { (w1.fes.getD w.fes.length {}) with
          models := (fs.models.map fun m => m.restrict (w1.fes.getD w.fes.length {}).variables).foldl listInsert [] } }
      (acc ++ [w.fes.length]) hre1 (fun cl' hcl' => hl cl' (List.mem_cons_of_mem _ hcl'))
    refine ⟨parts, w2, ?_, hre2, ?_, ?_, ?_⟩
    · rw [childSplitWith.go]
      simp only [hrun]
      exact hgo
    · have : w1.fes.length ≤ w2.fes.length := by simpa using hlen2
      omega
    · intro i hi
      rw [hfr2 i (by simp; omega)]
      show (w1.fes.set w.fes.length _).getD i {} = _
      rw [getD_set_ne _ _ _ _ _ (Nat.ne_of_gt hi)]
      exact hfr1 i hi
    · intro p hp
      rcases hp2 p hp with hpa | hpv
      · rcases List.mem_append.mp hpa with hpa | hpk
        · exact Or.inl hpa
        · right
          simp only [List.mem_singleton] at hpk
          subst hpk
          intro v hv
          rw [hfr2 _ (by simpa using hk)] at hv
          have hv' : v ∈ ((w1.fes.set w.fes.length { (w1.fes.getD w.fes.length {}) with
            models := (fs.models.map fun m => m.restrict (w1.fes.getD w.fes.length {}).variables).foldl listInsert [] }).getD
              w.fes.length {}).variables := hv
          rw [getD_set_self _ _ _ _ hk] at hv'
          obtain ⟨c, hc, hvc⟩ := hv1 v hv'
          exact ⟨c, (hl cl (by simp) c hc).2, hvc⟩
      · exact Or.inr hpv

/-- `split` with the groups in a given order -/
theorem childSplitWith_ok (s : CSt) (hre : s.w.reuse = false) (m : Nat) (groups : List (List Var × List Nat)) (concrete : List Nat)
    (hl : ∀ cl ∈ (groups.map fun g => g.2.map fun i => (s.child m).constraints.getD i default) ++
      (if concrete.isEmpty then [] else [concrete.map fun i => (s.child m).constraints.getD i default]),
      ∀ c ∈ cl, R c ∧ c ∈ (s.child m).constraints) :
    ∃ parts s', childSplitWith E m groups concrete s = (.ok parts, s') ∧ s'.c = s.c ∧
      (∀ i, i < s.w.fes.length → s'.child i = s.child i) ∧
      ∀ p ∈ parts, ∀ v ∈ (s'.child p).variables, ∃ c ∈ (s.child m).constraints, v ∈ c.vars := by
  obtain ⟨parts, w', hgo, _, _, hfr, hp⟩ := split_go_ok H (s.child m) _ s.w [] hre hl
  refine ⟨parts, { s with w := w' }, ?_, rfl, fun i hi => hfr i hi, ?_⟩
  · simp only [childSplitWith, hgo]
  · intro p hpp v hv
    rcases hp p hpp with hx | hx
    · cases hx
    · exact hx v hv

/-- `s.split()` of a child succeeds; the parts are new children over variables of `s` -/
theorem childSplit_ok {Us : List (List Con)} {s : CSt} (hw : TInvS R RE E Us s.w) (hre : s.w.reuse = false) (m : Nat)
    (hm : m < s.w.fes.length) :
    ∃ parts s', childSplit E m s = (.ok parts, s') ∧ s'.c = s.c ∧ (∀ i, i < s.w.fes.length → s'.child i = s.child i) ∧
      ∀ p ∈ parts, ∀ v ∈ (s'.child p).variables, v ∈ (s.child m).variables := by
  have hvl : ((s.child m).constraints.map (·.vars)).length = (s.child m).constraints.length := by simp
  generalize hv : (s.child m).constraints.map (·.vars) = varss at hvl
  obtain ⟨gs, t, hog, hgs⟩ := orderGroups_run E (groupsOf varss) s
  have hbase := (hw.each m hm).base
  have hidx : ∀ i ∈ allIdx varss, R ((s.child m).constraints.getD i default) ∧
      (s.child m).constraints.getD i default ∈ (s.child m).constraints := by
    intro i hi
    have hlt : i < (s.child m).constraints.length := by rw [← hvl]; exact (mem_allIdx varss i).mp hi
    have := getD_mem (s.child m).constraints i hlt
    exact ⟨hbase.dinv.consR _ this, this⟩
  have hlists : ∀ cl ∈ (gs.map fun g => g.2.map fun i => (s.child m).constraints.getD i default) ++
      (if (concreteOf varss).isEmpty then [] else [(concreteOf varss).map fun i => (s.child m).constraints.getD i default]),
      ∀ c ∈ cl, R c ∧ c ∈ (s.child m).constraints := by
    intro cl hcl c hc
    rcases List.mem_append.mp hcl with hcl | hcl
    · obtain ⟨g, hg, rfl⟩ := List.mem_map.mp hcl
      obtain ⟨i, hi, rfl⟩ := List.mem_map.mp hc
      refine hidx i ?_
      unfold allIdx
      exact List.mem_append_left _ (List.mem_flatten.mpr ⟨g.2, List.mem_map.mpr ⟨g, (hgs g).mp hg, rfl⟩, hi⟩)
    · split at hcl
      · cases hcl
      · simp only [List.mem_singleton] at hcl
        subst hcl
        obtain ⟨i, hi, rfl⟩ := List.mem_map.mp hc
        exact hidx i (by unfold allIdx; exact List.mem_append_right _ hi)
  obtain ⟨parts, s', hrun', hc', hfr', hp'⟩ := childSplitWith_ok H { s with w := { s.w with tick := t } } hre m gs
    (concreteOf varss) hlists
  refine ⟨parts, s', ?_, hc', hfr', ?_⟩
  · have hrun : childSplit E m s = (do
        let groups ← orderGroups E (groupsOf varss)
        childSplitWith E m groups (concreteOf varss) : CM (List Nat)) s := by
      unfold childSplit
      simp only [bind, CM.bind, CM.get]
      rw [hv, splitConstraints_eq]
    rw [hrun]
    simp only [bind, CM.bind, hog]
    exact hrun'
  · intro p hpp v hv
    obtain ⟨c, hc, hvc⟩ := hp' p hpp v hv
    exact hbase.vars c hc v hvc

/-- **`_reabsorb_solver` does not raise** when every variable of the solver is a key of `_solvers` -/
theorem reabsorb_ok {Us : List (List Con)} {s : CSt} (hw : TInvS R RE E Us s.w) (hre : s.w.reuse = false) (m : Nat)
    (hm : m < s.w.fes.length) (hkeys : ∀ v ∈ (s.child m).variables, ∃ t, alGet? s.c.solvers v = some t) :
    ∃ s', reabsorb E m s = (.ok (), s') := by
  unfold reabsorb
  simp only [bind, CM.bind, CM.get]
  split
  · exact ⟨_, rfl⟩
  · cases hg : alGet? s.c.solvers (minVar (s.child m).variables) with
    | none => exact ⟨_, rfl⟩
    | some t =>
      simp only
      split
      · exact ⟨_, rfl⟩
      · obtain ⟨parts, s1, hsp, hc1, _, hpv⟩ := childSplit_ok H hw hre m hm
        simp only [CM.bind]
        rw [hsp]
        simp only [CM.get]
        split
        · rename_i hcond
          simp only [Bool.and_eq_true, List.all_eq_true] at hcond
          obtain ⟨s2, h2, _⟩ := forM_ok (P := fun s' => s'.c = s.c ∧ ∀ i, (s'.child i).variables = (s1.child i).variables)
            (fun p => do
              let s ← CM.get
              match alGet? s.c.solvers (minVar (s.child p).variables) with
              | some t => childUpdate t p
              | none => CM.throw .value) parts s1 ⟨hc1, fun _ => rfl⟩ (by
            intro p hp s' ⟨hcs, hvs⟩
            have hne : (s1.child p).variables ≠ [] := by
              have := hcond.2 p hp
              simpa using this
            have hmin := hpv p hp _ (minVar_mem _ hne)
            obtain ⟨t', ht'⟩ := hkeys _ hmin
            obtain ⟨s'', hu, hcu, hvu⟩ := childUpdate_vars t' p s'
            refine ⟨s'', ?_, hcu.trans hcs, fun i => (hvu i).trans (hvs i)⟩
            simp only [bind, CM.bind, CM.get, hvs p, hcs, ht', hu])
          exact ⟨s2, h2⟩
        · obtain ⟨s2, h2, _⟩ := forM_ok (P := fun _ => True)
            (fun p => do
              CM.modifyC fun c => { c with owned := listInsert c.owned p }
              storeChild p) parts s1 trivial (fun p _ s' _ => ⟨_, rfl, trivial⟩)
          exact ⟨s2, h2⟩

end

/-! ### from the merged child to the whole constraint list -/

/-- the merged child's constraints `Um` against everything the user added `U`, seen from the variables `names`: every model of
everything is a model of the child; every model of the child extends, without changing `names`, to a model of everything -/
structure Equi (names : List Var) (U Um : List Con) : Prop where
  down : ∀ a, Models U a → Models Um a
  up : ∀ a, Models Um a → ∃ a', Models U a' ∧ ∀ v ∈ names, a' v = a v

theorem Equi.feasible {names : List Var} {U Um : List Con} (h : Equi names U Um) {e : Exp} (he : ExpDep e)
    (hv : ∀ v ∈ e.vars, v ∈ names) : Feasible (U ++ []) e = Feasible (Um ++ []) e := by
  funext x
  apply propext
  simp only [List.append_nil]
  constructor
  · rintro ⟨a, ha, hx⟩; exact ⟨a, h.down a ha, hx⟩
  · rintro ⟨a, ha, hx⟩
    obtain ⟨a', ha', hag⟩ := h.up a ha
    exact ⟨a', ha', by rw [← hx]; exact he a' a (fun v hv' => hag v (hv v hv'))⟩

theorem Equi.sat {names : List Var} {U Um : List Con} (h : Equi names U Um) : Satisfiable (U ++ []) ↔ Satisfiable (Um ++ []) := by
  simp only [List.append_nil]
  constructor
  · rintro ⟨a, ha⟩; exact ⟨a, h.down a ha⟩
  · rintro ⟨a, ha⟩
    obtain ⟨a', ha', _⟩ := h.up a ha
    exact ⟨a', ha'⟩

/-- **`eval` answered for the merged child is answered for everything** -/
theorem Equi.judge_eval {names : List Var} {U Um : List Con} (h : Equi names U Um) {e : Exp} (he : ExpDep e)
    (hv : ∀ v ∈ e.vars, v ∈ names) (n : Nat) (o : Out) (hj : Judge Um (.eval e n []) o) : Judge U (.eval e n []) o := by
  have hF := h.feasible he hv
  cases o with
  | vals vs =>
    simp only [Judge] at hj ⊢
    rw [hF]; exact hj
  | err e' =>
    cases e' with
    | unsat =>
      simp only [Judge] at hj ⊢
      exact fun hs => hj (h.sat.mp hs)
    | _ => exact hj.elim
  | _ => exact hj.elim

/-- `is_true` / `is_false` answered for the merged child (with the extra constraints) are answered for everything -/
theorem judge_truth_down {U Um : List Con} (hd : ∀ a, Models U a → Models Um a) (isT : Bool) (c : Con) (extra : List Con) (o : Out)
    (hj : Judge Um (if isT then .isTrue c extra else .isFalse c extra) o) :
    Judge U (if isT then .isTrue c extra else .isFalse c extra) o := by
  have hdown : ∀ a, Models (U ++ extra) a → Models (Um ++ extra) a := fun a ha =>
    models_append.mpr ⟨hd a (models_append.mp ha).1, (models_append.mp ha).2⟩
  cases isT <;> simp only [Bool.false_eq_true, ↓reduceIte] at hj ⊢
  all_goals
    cases o with
    | bool b =>
      simp only [Judge] at hj ⊢
      exact fun hb a ha => hj hb a (hdown a ha)
    | err e' =>
      cases e' with
      | unsat =>
        simp only [Judge] at hj ⊢
        exact fun ⟨a, ha⟩ => hj ⟨a, hdown a ha⟩
      | _ => exact hj.elim
    | _ => exact hj.elim

section
variable (H : SolverHyps R RE E)
include H

/-- what `_solver_for_names(names)` hands back relates to everything the user added as `Equi` says, when every child is
satisfiable -/
theorem merged_equi {U : List Con} {Us Us1 : List (List Con)} {s s1 : CSt} (h : CInv R RE E U Us s) (names : List Var) (m : Nat)
    (hm : Merged R RE E Us Us1 s s1 names m) (hu : s.c.unsat = false) :
    (∀ a, Models U a → Models (Us1.getD m []) a) ∧
    ((∀ j ∈ s.c.solverList, Satisfiable (Us.getD j [])) → Equi names U (Us1.getD m [])) := by
  have hsolIn : ∀ t ∈ s.c.solversFor names, t ∈ s.c.solverList := by
    intro t ht
    obtain ⟨n, _, hn⟩ := (mem_solversFor _ _ _).mp ht
    exact (mem_solverList' _ h.nodup t).mpr ⟨n, hn⟩
  have hltL : ∀ j ∈ s.c.solverList, j < s.w.fes.length := by
    intro j hj
    obtain ⟨v, hv⟩ := (mem_solverList' _ h.nodup j).mp hj
    exact (h.map v j hv).1
  have hdown : ∀ a, Models U a → Models (Us1.getD m []) a := by
    intro a ha
    exact (hm.sem a).mpr fun t ht => (h.sem hu a).mp ha t (hsolIn t ht)
  refine ⟨hdown, fun hsat => ⟨hdown, fun a ha => ?_⟩⟩
  have hparts := (hm.sem a).mp ha
  -- the children that own no name
  have hLnd : (s.c.solverList.filter fun j => !(s.c.solversFor names).contains j).Nodup :=
    (solverList_nodup s.c).sublist List.filter_sublist
  have hLmem : ∀ j, j ∈ (s.c.solverList.filter fun j => !(s.c.solversFor names).contains j) ↔
      j ∈ s.c.solverList ∧ j ∉ s.c.solversFor names := by
    intro j; simp [List.mem_filter]
  obtain ⟨a', ha', hk'⟩ := children_joint_model H.reg h (names ++ (s1.child m).variables) a
    (s.c.solverList.filter fun j => !(s.c.solversFor names).contains j) hLnd (fun j hj => ((hLmem j).mp hj).1)
    (by
      intro j hj v hv hkeep
      obtain ⟨hjl, hjn⟩ := (hLmem j).mp hj
      obtain ⟨vj, hvj⟩ := (mem_solverList' _ h.nodup j).mp hjl
      rcases List.mem_append.mp hkeep with hn | hmv
      · exact hjn ((mem_solversFor _ _ _).mpr ⟨v, hn, h.cover vj j hvj v hv⟩)
      · obtain ⟨t, ht, hvt⟩ := hm.sub v hmv
        have htj : t ≠ j := fun e => hjn (e ▸ ht)
        exact h.disjoint (hsolIn t ht) hjl htj v hvt hv)
    (fun j hj => hsat j ((hLmem j).mp hj).1)
  refine ⟨a', (h.sem hu a').mpr fun j hj => ?_, fun v hv => hk' v (List.mem_append_left _ hv)⟩
  by_cases hjn : j ∈ s.c.solversFor names
  · have hja : Models (s.child j).constraints a := (h.child_models (hltL j hj) a).mpr (hparts j hjn)
    refine (h.child_models (hltL j hj) a').mp ?_
    refine models_of_agree ((h.kids.each j (hltL j hj)).base.cons_wf H.reg) (fun v hv => ?_) hja
    obtain ⟨c, hc, hvc⟩ := mem_varsOf_iff.mp hv
    have hvj := h.child_vars (hltL j hj) c hc v hvc
    exact (hk' v (List.mem_append_right _ (hm.sup j hjn v hvj))).symm
  · exact (h.child_models (hltL j hj) a').mp (ha' j ((hLmem j).mpr ⟨hj, hjn⟩))

/-- **`eval(e, n)` of the composite answers for everything the user added** (no extra constraints): `_ensure_sat`, the merged
solver of the variables of `e`, its answer, `_reabsorb_solver` (which does not raise) -/
theorem compEval_judge {U : List Con} {Us : List (List Con)} {s : CSt} (h : CInv R RE E U Us s) (e : Exp) (n : Nat)
    (he : RE e) (hc : e.conc = none) (hn : 1 ≤ n) :
    JudgeOrGiveUp E U (.eval e n []) (compStep E s (.eval e n [])).1 := by
  have hun : ¬ Satisfiable U → Judge U (.eval e n []) (.err .unsat) := by
    intro hns; simp only [Judge, List.append_nil]; exact hns
  have hrun : compStep E s (.eval e n []) = outOfC .vals ((do
      ensureSat E []
      let ms ← solverForNames E (namesFor [e.vars])
      let r ← CM.onChild ms ((childOps E).eval e n [])
      reabsorb E ms
      pure r : CM (List Nat)) s) := rfl
  rw [hrun]
  simp only [bind, CM.bind, ensureSat, CM.get]
  by_cases hu : s.c.unsat = true
  · simp only [hu, ↓reduceIte, CM.throw, outOfC]
    exact Or.inl (hun (h.unsatOk hu))
  · have hu' : s.c.unsat = false := by simpa using hu
    simp only [hu', Bool.false_eq_true, ↓reduceIte, CM.bind]
    have hs := compSatisfiable_spec H (childFoot H) h
    revert hs
    generalize compSatisfiable E [] s = res
    obtain ⟨r, s0⟩ := res
    cases r with
    | error e' => intro hs; exact Or.inr ⟨e', rfl, hs.1⟩
    | ok b =>
      rintro ⟨hb, h0⟩
      cases b with
      | false =>
        simp only [Bool.not_false, ↓reduceIte, CM.throw, outOfC]
        exact Or.inl (hun (fun hs => by have := hb.mpr hs; cases this))
      | true =>
        simp only [Bool.not_true, Bool.false_eq_true, ↓reduceIte, pure, CM.pure]
        have hsatU : Satisfiable U := hb.mp rfl
        have hu0 : s0.c.unsat = false := by
          cases hx : s0.c.unsat with
          | false => rfl
          | true => exact absurd hsatU (h0.unsatOk hx)
        obtain ⟨m, Us1, s1, hr, hm⟩ := solverForNames_spec (combineSpec H (childFoot H)) h0 (namesFor [e.vars])
        simp only [hr]
        have hallsat : ∀ j ∈ s0.c.solverList, Satisfiable (Us.getD j []) := by
          obtain ⟨a, ha⟩ := hsatU
          exact fun j hj => ⟨a, (h0.sem hu0 a).mp ha j hj⟩
        have hequi := (merged_equi H h0 _ m hm hu0).2 hallsat
        have hnames : ∀ v ∈ e.vars, v ∈ namesFor [e.vars] := by
          intro v hv
          simp only [namesFor, List.foldl_cons, List.foldl_nil]
          exact (mem_listUnion _ _ _).mpr (Or.inr hv)
        -- the child's answer
        have hst := ch_step_nb H s1.w Us1 hm.kids m hm.lt (.eval e n []) ⟨he, hc, hn⟩ (by intro hx; cases hx)
        have hfoot := (childFoot H).eval _ _ e n [] (stOfI s1.w m) (hm.kids.each m hm.lt)
        have hstep : step E .SolverCompositeChild s1.w m (.eval e n []) = outOf .vals (runOn s1.w m ((childOps E).eval e n [])) := rfl
        rw [hstep] at hst
        have hre2 : (runOn s1.w m ((childOps E).eval e n [])).2.reuse = s1.w.reuse := rfl
        have hlen2 := runOn_fes_length s1.w m ((childOps E).eval e n [])
        have hself2 := runOn_getD_self s1.w m ((childOps E).eval e n []) hm.lt
        simp only [CM.onChild]
        revert hst hre2 hlen2 hself2
        generalize runOn s1.w m ((childOps E).eval e n []) = res2
        obtain ⟨r2, w2⟩ := res2
        intro hst hre2 hlen2 hself2
        simp only [usersAfter, usersAll] at hst
        cases r2 with
        | error e' =>
          simp only [outOf, outOfC] at hst ⊢
          rcases hst.1 with hj | hg
          · exact Or.inl (hequi.judge_eval (H.expReg.dep e he) hnames n _ hj)
          · exact Or.inr hg
        | ok vs =>
          simp only [outOf] at hst
          obtain ⟨s3, h3⟩ := reabsorb_ok H (s := { s1 with w := w2 }) hst.2 (by rw [hre2]; exact hm.reuse) m
            (by rw [hlen2]; exact hm.lt)
            (by
              intro v hv
              have hv' : v ∈ (w2.fes.getD m {}).variables := hv
              rw [hself2, hfoot.1] at hv'
              obtain ⟨t, ht, hvt⟩ := hm.sub v hv'
              obtain ⟨n', _, hn'⟩ := (mem_solversFor _ _ _).mp ht
              refine ⟨t, ?_⟩
              show alGet? s1.c.solvers v = some t
              rw [hm.comp]
              exact h0.cover n' t hn' v hvt)
          simp only [h3, outOfC]
          rcases hst.1 with hj | hg
          · exact Or.inl (hequi.judge_eval (H.expReg.dep e he) hnames n _ hj)
          · exact Or.inr hg

/-- **`is_true` / `is_false` of the composite** (any extra constraints): the merged solver of the variables mentioned answers; a
`True` is right for everything the user added -/
theorem compTruth_judge {U : List Con} {Us : List (List Con)} {s : CSt} (h : CInv R RE E U Us s) (isT : Bool) (c : Con)
    (extra : List Con) :
    JudgeOrGiveUp E U (if isT then .isTrue c extra else .isFalse c extra)
      (compStep E s (if isT then .isTrue c extra else .isFalse c extra)).1 := by
  obtain ⟨m, Us1, s1, hr, hm⟩ := solverForNames_spec (combineSpec H (childFoot H)) h (namesFor (c.vars :: extra.map (·.vars)))
  have hdown : ∀ a, Models U a → Models (Us1.getD m []) a := by
    cases hx : s.c.unsat with
    | false => exact (merged_equi H h _ m hm hx).1
    | true => exact fun a ha => absurd ⟨a, ha⟩ (h.unsatOk hx)
  cases isT with
  | true =>
    simp only [↓reduceIte]
    have hst := ch_step_nb H s1.w Us1 hm.kids m hm.lt (.isTrue c extra) trivial (by intro hx; cases hx)
    have hrun : compStep E s (.isTrue c extra) = outOfC .bool ((do
        let ms ← solverForNames E (namesFor (c.vars :: extra.map (·.vars)))
        CM.onChild ms ((childOps E).isTrue c extra) : CM Bool) s) := rfl
    have hstep : step E .SolverCompositeChild s1.w m (.isTrue c extra) = outOf .bool (runOn s1.w m ((childOps E).isTrue c extra)) := rfl
    rw [hrun]
    rw [hstep] at hst
    simp only [bind, CM.bind, hr, CM.onChild]
    revert hst
    generalize runOn s1.w m ((childOps E).isTrue c extra) = res2
    obtain ⟨r2, w2⟩ := res2
    intro hst
    simp only [usersAfter] at hst
    cases r2 <;> simp only [outOf, outOfC] at hst ⊢
    all_goals
      rcases hst.1 with hj | hg
      · exact Or.inl (judge_truth_down hdown true c extra _ hj)
      · exact Or.inr hg
  | false =>
    simp only [Bool.false_eq_true, ↓reduceIte]
    have hst := ch_step_nb H s1.w Us1 hm.kids m hm.lt (.isFalse c extra) trivial (by intro hx; cases hx)
    have hrun : compStep E s (.isFalse c extra) = outOfC .bool ((do
        let ms ← solverForNames E (namesFor (c.vars :: extra.map (·.vars)))
        CM.onChild ms ((childOps E).isFalse c extra) : CM Bool) s) := rfl
    have hstep : step E .SolverCompositeChild s1.w m (.isFalse c extra) = outOf .bool (runOn s1.w m ((childOps E).isFalse c extra)) := rfl
    rw [hrun]
    rw [hstep] at hst
    simp only [bind, CM.bind, hr, CM.onChild]
    revert hst
    generalize runOn s1.w m ((childOps E).isFalse c extra) = res2
    obtain ⟨r2, w2⟩ := res2
    intro hst
    simp only [usersAfter] at hst
    cases r2 <;> simp only [outOf, outOfC] at hst ⊢
    all_goals
      rcases hst.1 with hj | hg
      · exact Or.inl (judge_truth_down hdown false c extra _ hj)
      · exact Or.inr hg

end

/-! ### one query after any history of `add` / `satisfiable()` -/

/-- the composite after a history of calls -/
def compRun (E : Env) : CSt → List Op → CSt
  | s, [] => s
  | s, op :: rest => compRun E (compStep E s op).2 rest

/-- what the user has added after a history -/
def usersAfterOps (U : List Con) : List Op → List Con
  | [] => U
  | op :: rest => usersAfterOps (usersAfter U op) rest

/-- the queries covered: `eval` of a registered symbolic expression without extra constraints; `is_true` / `is_false` with any
extra constraints -/
def InScopeCQ (RE : Exp → Prop) : Op → Prop
  | .eval e n extra => RE e ∧ e.conc = none ∧ 1 ≤ n ∧ extra = []
  | .isTrue _ _ | .isFalse _ _ => True
  | _ => False

section
variable (H : SolverHyps R RE E)
include H

/-- histories of `add` / `satisfiable()` keep the bookkeeping invariant -/
theorem comp_hist_inv : ∀ (hist : List Op) (s : CSt) (U : List Con) (Us : List (List Con)), CInv R RE E U Us s →
    (∀ op ∈ hist, InScopeCP R op) → ∃ Us', CInv R RE E (usersAfterOps U hist) Us' (compRun E s hist)
  | [], _, _, Us, h, _ => ⟨Us, h⟩
  | op :: rest, s, U, Us, h, hok => by
    obtain ⟨_, Us', hinv⟩ := comp_step H h op (hok op (by simp))
    exact comp_hist_inv rest _ _ Us' hinv (fun op' hop' => hok op' (by simp [hop']))

/-- **one query in a state satisfying the invariant** -/
theorem comp_query_step {U : List Con} {Us : List (List Con)} {s : CSt} (h : CInv R RE E U Us s) (op : Op)
    (hop : InScopeCQ RE op) : JudgeOrGiveUp E U op (compStep E s op).1 := by
  cases op with
  | eval e n extra =>
    obtain ⟨he, hc, hn, rfl⟩ := hop
    exact compEval_judge H h e n he hc hn
  | isTrue c extra => exact compTruth_judge H h true c extra
  | isFalse c extra => exact compTruth_judge H h false c extra
  | _ => exact hop.elim

end

end Claripy.Solver
