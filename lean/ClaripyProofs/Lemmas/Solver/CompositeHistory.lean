import ClaripyProofs.Lemmas.Solver.CompositeCombine
/-!
Histories of `add` / `satisfiable()` on one CompositeFrontend: the partition invariant `CInv` is kept and every answer is the one
the property statement demands for everything the user added (or an honest give-up of a child's backend).
-/
namespace Claripy.Solver

variable {R : Con → Prop} {RE : Exp → Prop} {E : Env}

/-- the calls covered: `add` of registered constraints (a constraint without variables must be decided by the concrete backend),
`satisfiable()` without extra constraints -/
def InScopeCP (R : Con → Prop) : Op → Prop
  | .add cs => (∀ c ∈ cs, R c) ∧ ∀ c ∈ cs, c.vars = [] → c.conc ≠ none
  | .satisfiable extra => extra = []
  | _ => False

section
variable (H : SolverHyps R RE E)
include H

/-- one call: allowed answer (or honest give-up) and the invariant again -/
theorem comp_step {U : List Con} {Us : List (List Con)} {s : CSt} (h : CInv R RE E U Us s) (op : Op) (hop : InScopeCP R op) :
    JudgeOrGiveUp E (usersAfter U op) op (compStep E s op).1 ∧ ∃ Us', CInv R RE E (usersAfter U op) Us' (compStep E s op).2 := by
  cases op with
  | add cs =>
    by_cases hemp : cs.isEmpty = true
    · have : cs = [] := by simpa using hemp
      subst this
      exact ⟨Or.inl trivial, Us, by simpa [compStep, usersAfter] using h⟩
    · obtain ⟨added, Us', s', hrun, hinv⟩ := compAdd_spec H (childFoot H) (combineSpec H (childFoot H)) h cs hop.1 hop.2
      have hstep : compStep E s (.add cs) = (.cons (added.map (·.id)), s') := by
        simp only [compStep, hemp, Bool.false_eq_true, ↓reduceIte, hrun, outOfC]
      rw [hstep]
      exact ⟨Or.inl trivial, Us', hinv⟩
  | satisfiable extra =>
    have hex : extra = [] := hop
    subst hex
    have hs := compSatisfiable_spec H (childFoot H) h
    show JudgeOrGiveUp E U _ (outOfC .bool (compSatisfiable E [] s)).1 ∧ ∃ Us', CInv R RE E U Us' (outOfC .bool (compSatisfiable E [] s)).2
    revert hs
    generalize compSatisfiable E [] s = res
    obtain ⟨r, s'⟩ := res
    cases r with
    | ok b =>
      intro hs
      refine ⟨Or.inl ?_, Us, hs.2⟩
      show b = true ↔ Satisfiable (U ++ [])
      rw [List.append_nil]; exact hs.1
    | error e => exact fun hs => ⟨Or.inr ⟨e, rfl, hs.1⟩, Us, hs.2⟩
  | _ => exact hop.elim

omit H in
theorem runComp_cons (s : CSt) (U : List Con) (op : Op) (rest : List Op) :
    runComp E s U (op :: rest) = (usersAfter U op, op, (compStep E s op).1) :: runComp E (compStep E s op).2 (usersAfter U op) rest := by
  cases op <;> rfl

/-- any history of calls in scope -/
theorem comp_hist : ∀ (hist : List Op) (s : CSt) (U : List Con) (Us : List (List Con)), CInv R RE E U Us s →
    (∀ op ∈ hist, InScopeCP R op) → ∀ x ∈ runComp E s U hist, JudgeOrGiveUp E x.1 x.2.1 x.2.2
  | [], _, _, _, _, _ => fun x hx => by cases hx
  | op :: rest, s, U, Us, h, hok => by
    intro x hx
    obtain ⟨hj, Us', hinv⟩ := comp_step H h op (hok op (by simp))
    rw [runComp_cons] at hx
    rcases List.mem_cons.mp hx with rfl | hx
    · exact hj
    · exact comp_hist rest _ _ Us' hinv (fun op' hop' => hok op' (by simp [hop'])) x hx

end

/-! ### the hypotheses are satisfiable -/

theorem cR_vars {c : Con} (hc : cR c) : ∀ v ∈ c.vars, v = 0 := by
  rcases hc with rfl | rfl | rfl | ⟨k, _, rfl⟩ <;> intro v hv <;> simp [cFalse, cCon, cEq, cBuild] at hv <;> exact hv

/-- in the one-variable registry of `SolverConsistent.lean` no two children can own names, so `combine` is never reached
(kept from the time `CombineSpec` was a hypothesis; it is a theorem now: `combineSpec`) -/
theorem cCombineSpec : CombineSpec cR cRE cEnv := by
  intro U Us s h names j rest hne hnd hmem
  exfalso
  obtain ⟨r, rest', rfl⟩ := List.exists_cons_of_ne_nil hne
  have hjr : j ≠ r := by
    intro e; subst e
    simp at hnd
  have hown : ∀ t, t ∈ s.c.solversFor names → t ∈ s.c.solverList ∧ 0 ∈ (s.child t).variables := by
    intro t ht
    obtain ⟨n, _, hn⟩ := (mem_solversFor _ _ _).mp ht
    have htl : t ∈ s.c.solverList := (mem_solverList' _ h.nodup t).mpr ⟨n, hn⟩
    obtain ⟨hlt, hnv⟩ := h.map n t hn
    obtain ⟨c, hc, hvc⟩ := h.exact t hlt n hnv
    have := cR_vars ((h.kids.each t hlt).base.dinv.consR c hc) n hvc
    subst this
    exact ⟨htl, hnv⟩
  obtain ⟨hj1, hj2⟩ := hown j ((hmem j).mp (by simp))
  obtain ⟨hr1, hr2⟩ := hown r ((hmem r).mp (by simp))
  exact h.disjoint hj1 hr1 hjr 0 hj2 hr2

/-- a history in scope: constrain, ask, pin, ask -/
def cCompHist : List Op := [.add [cCon], .satisfiable [], .add [cEq], .satisfiable [], .add [cFalse], .satisfiable []]

theorem cCompHist_ok : ∀ op ∈ cCompHist, InScopeCP cR op := by
  have hc : cR cCon := Or.inr (Or.inl rfl)
  have hq : cR cEq := Or.inr (Or.inr (Or.inl rfl))
  have hf : cR cFalse := Or.inl rfl
  intro op hop
  simp only [cCompHist, List.mem_cons, List.not_mem_nil, or_false] at hop
  rcases hop with rfl | rfl | rfl | rfl | rfl | rfl
  · exact ⟨fun c hc' => by simp at hc'; subst hc'; exact hc, fun c hc' hv => by simp at hc'; subst hc'; simp [cCon] at hv⟩
  · rfl
  · exact ⟨fun c hc' => by simp at hc'; subst hc'; exact hq, fun c hc' hv => by simp at hc'; subst hc'; simp [cEq] at hv⟩
  · rfl
  · exact ⟨fun c hc' => by simp at hc'; subst hc'; exact hf, fun c hc' _ => by simp at hc'; subst hc'; simp [cFalse]⟩
  · rfl

end Claripy.Solver
