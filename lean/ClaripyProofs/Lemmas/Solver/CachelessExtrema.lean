import ClaripyProofs.Lemmas.Solver.Cacheless
/-!
`min` / `max` of SolverCacheless: ConcreteHandler, ConstraintFilter, then FullFrontend.min/max —
`self.satisfiable`, `self.eval(e, 2)`, narrowing by the two values, `_extrema`.
-/
namespace Claripy.Solver

def clExtremum (E : Env) (self : Ops) (isMax : Bool) (e : Exp) (extra : List Con) (signed : Bool) : M Int :=
  match self.concreteValue e with
  | some c => pure (c : Int)
  | none => do
    let ec ← liftE (constraintFilter self extra)
    fullExtremum E self isMax e ec signed

theorem clStage_max (E : Env) (k : Nat) :
    (clStage E (k + 1)).max = fun e extra signed => clExtremum E (clStage E k) true e extra signed := rfl

theorem clStage_min (E : Env) (k : Nat) :
    (clStage E (k + 1)).min = fun e extra signed => clExtremum E (clStage E k) false e extra signed := rfl

/-- meaning of the narrowing constraints `SGE/UGE/SLE/ULE(e, v)` for a value `v` in range -/
theorem cmpCon_sem (signed ge : Bool) (e : Exp) (he : ExpWf e) (v : Nat) (hv : v < 2 ^ e.bits) (a : Asg) :
    (cmpCon signed ge e v).sem a = true ↔
      if ge then key signed e.bits v ≤ key signed e.bits (e.val a) else key signed e.bits (e.val a) ≤ key signed e.bits v := by
  have hw := wrap_nat e.bits v hv
  have hva := he.2 a
  cases ge <;> cases signed <;>
    simp only [cmpCon, geSem, leSem, Bool.false_eq_true, ↓reduceIte, decide_eq_true_eq, hw, key, ge_iff_le,
      Nat.mod_eq_of_lt hv, Nat.mod_eq_of_lt hva] <;> omega


/-- FullFrontend.min/max narrow the search by two attained values: the narrowed problem is satisfiable and its optimum
is the optimum of the original one -/
theorem narrowed_opt (isMax signed : Bool) (e : Exp) (he : ExpWf e) (cs : List Con) (Z : Asg → Prop) (v0 v1 : Nat)
    (hZ : ∀ a, Z a ↔ Models cs a ∧
      (if isMax then key signed e.bits v0 ≤ key signed e.bits (e.val a) ∧ key signed e.bits v1 ≤ key signed e.bits (e.val a)
       else key signed e.bits (e.val a) ≤ key signed e.bits v0 ∧ key signed e.bits (e.val a) ≤ key signed e.bits v1))
    (h0 : Feasible cs e v0) (h1 : Feasible cs e v1) :
    (∃ a, Z a) ∧
    ∀ i : Int, loOf signed e.bits ≤ i → i ≤ hiOf signed e.bits → (∃ a, Z a ∧ key signed e.bits (e.val a) = i) →
      (∀ a, Z a → if isMax then key signed e.bits (e.val a) ≤ i else i ≤ key signed e.bits (e.val a)) →
      IsOpt isMax signed cs e i := by
  obtain ⟨a0, ha0, hv0⟩ := h0
  obtain ⟨a1, ha1, hv1⟩ := h1
  constructor
  · cases isMax
    · simp only [Bool.false_eq_true, ↓reduceIte] at hZ
      by_cases hc : key signed e.bits v0 ≤ key signed e.bits v1
      · exact ⟨a0, (hZ a0).mpr ⟨ha0, by rw [hv0]; exact ⟨Int.le_refl _, hc⟩⟩⟩
      · exact ⟨a1, (hZ a1).mpr ⟨ha1, by rw [hv1]; exact ⟨by omega, Int.le_refl _⟩⟩⟩
    · simp only [↓reduceIte] at hZ
      by_cases hc : key signed e.bits v0 ≤ key signed e.bits v1
      · exact ⟨a1, (hZ a1).mpr ⟨ha1, by rw [hv1]; exact ⟨hc, Int.le_refl _⟩⟩⟩
      · exact ⟨a0, (hZ a0).mpr ⟨ha0, by rw [hv0]; exact ⟨Int.le_refl _, by omega⟩⟩⟩
  · intro i hlo hhi ⟨aw, hzw, hkw⟩ hall
    have hkwrap := key_wrap signed e.bits i he.1 hlo hhi
    have hval : e.val aw = wrap e.bits i :=
      key_inj signed e.bits _ _ he.1 (he.2 aw) (wrap_lt _ _) (by rw [hkw, hkwrap])
    refine ⟨⟨aw, ((hZ aw).mp hzw).1, hval⟩, ?_⟩
    intro v ⟨a, ha, hva⟩
    rw [hkwrap, ← hva]
    have hw2 := ((hZ aw).mp hzw).2
    by_cases hin : Z a
    · exact hall a hin
    · have hnot : ¬ (if isMax then key signed e.bits v0 ≤ key signed e.bits (e.val a) ∧ key signed e.bits v1 ≤ key signed e.bits (e.val a)
          else key signed e.bits (e.val a) ≤ key signed e.bits v0 ∧ key signed e.bits (e.val a) ≤ key signed e.bits v1) :=
        fun hh => hin ((hZ a).mpr ⟨ha, hh⟩)
      cases isMax
      · simp only [Bool.false_eq_true, ↓reduceIte] at hnot hw2 ⊢
        omega
      · simp only [↓reduceIte] at hnot hw2 ⊢
        omega


theorem errOk_mono {E : Env} {A B : List Con} {err : Err} (h : ErrOk E A err) (hab : Satisfiable B → Satisfiable A) :
    ErrOk E B err := by
  rcases h with ⟨he, hn⟩ | hg
  · exact Or.inl ⟨he, fun hb => hn (hab hb)⟩
  · exact Or.inr hg

theorem clExtremum_spec {G : St → Prop} {E : Env} (hE : OracleExact E) {self self' : Ops} (hs : SelfOk self) (hs' : SelfOk self')
    (hsat : self.satisfiable = clSat E self') (hev : self.eval = clEval E self')
    (U : List Con) (s : St) (h : CLInv G U s) (isMax : Bool) (e : Exp) (he : ExpWf e)
    (extra : List Con) (wf : ∀ c ∈ extra, ConWf c) (signed : Bool) :
    match clExtremum E self isMax e extra signed s with
    | (.ok i, s') => (match e.conc with
                      | some c => i = (c : Int)
                      | none => IsOpt isMax signed (U ++ extra) e i) ∧ CLInv G U s'
    | (.error err, s') => ErrOk E (U ++ extra) err ∧ CLInv G U s' := by
  obtain ⟨hcc, hcv, hmh⟩ := hs
  unfold clExtremum
  rw [hcv e]
  cases hconc : e.conc with
  | some c => simp only [pure, M.pure]; exact ⟨trivial, h⟩
  | none =>
    simp only [bind, M.bind, liftE]
    have hfs := filter_spec ⟨hcc, hcv, hmh⟩ extra wf
    cases hf : constraintFilter self extra with
    | error err =>
      rw [hf] at hfs
      exact ⟨Or.inl ⟨hfs.1, fun ⟨a, ha⟩ => hfs.2 a (models_append.mp ha).2⟩, h⟩
    | ok ec =>
      rw [hf] at hfs
      obtain ⟨hequiv, hsub⟩ := hfs
      have wfec : ∀ c ∈ ec, ConWf c := fun c hc => wf c (hsub c hc)
      have hsatiff : Satisfiable (U ++ ec) ↔ Satisfiable (U ++ extra) := by
        constructor <;> rintro ⟨a, ha⟩ <;> refine ⟨a, ?_⟩ <;> rw [models_append] at ha ⊢
        · exact ⟨ha.1, (hequiv a).mp ha.2⟩
        · exact ⟨ha.1, (hequiv a).mpr ha.2⟩
      have hfeas : ∀ v, Feasible (U ++ ec) e v ↔ Feasible (U ++ extra) e v := by
        intro v
        constructor <;> rintro ⟨a, ha, hv⟩ <;> refine ⟨a, ?_, hv⟩ <;> rw [models_append] at ha ⊢
        · exact ⟨ha.1, (hequiv a).mp ha.2⟩
        · exact ⟨ha.1, (hequiv a).mpr ha.2⟩
      have hoptiff : ∀ i, IsOpt isMax signed (U ++ ec) e i → IsOpt isMax signed (U ++ extra) e i := by
        intro i hi
        simp only [IsOpt, hfeas] at hi ⊢
        exact hi
      simp only [fullExtremum, bind, M.bind, hsat, hev, hmh]
      -- self.satisfiable
      have h1 := clSat_spec hE hs' U s h ec wfec
      rcases hA : clSat E self' ec s with ⟨resA, sA⟩
      rw [hA] at h1
      cases resA with
      | error err => exact ⟨Or.inr h1.1, h1.2⟩
      | ok b =>
        obtain ⟨hb, hinvA⟩ := h1
        cases b with
        | false =>
          simp only [Bool.not_false, ↓reduceIte, M.throw_apply]
          refine ⟨Or.inl ⟨rfl, fun hsx => ?_⟩, hinvA⟩
          have := hb.mpr (hsatiff.mpr hsx)
          simp at this
        | true =>
          have hsatU : Satisfiable (U ++ ec) := hb.mp rfl
          simp only [Bool.not_true, Bool.false_eq_true, ↓reduceIte, pure, M.pure, M.bind]
          -- self.eval(e, 2)
          have h2 := clEval_spec hE hs' U sA hinvA e 2 (by omega) ec wfec
          rcases hB : clEval E self' e 2 ec sA with ⟨resB, sB⟩
          rw [hB] at h2
          cases resB with
          | error err => exact ⟨errOk_mono h2.1 hsatiff.mpr, h2.2⟩
          | ok two =>
            obtain ⟨hev2, hinvB⟩ := h2
            simp only [EvalOk, hconc] at hev2
            obtain ⟨hfe, hnd, hlen, hcomp⟩ := hev2
            obtain ⟨a0, ha0⟩ := hsatU
            have hfa0 : Feasible (U ++ ec) e (e.val a0) := ⟨a0, ha0, rfl⟩
            match two, hfe, hnd, hlen, hcomp with
            | [], _, _, _, hcomp =>
              have := hcomp _ hfa0
              simp at this
            | [v], hfe, _, _, hcomp =>
              simp only [M.pure]
              refine ⟨hoptiff _ ?_, hinvB⟩
              obtain ⟨av, hav, hvv⟩ := hfe v (by simp)
              have hvlt : v < 2 ^ e.bits := by rw [← hvv]; exact he.2 av
              have hw := wrap_nat e.bits v hvlt
              refine ⟨by rw [hw]; exact ⟨av, hav, hvv⟩, fun v' hv' => ?_⟩
              have := hcomp v' hv'
              simp only [List.mem_singleton, List.length_cons, List.length_nil] at this
              rcases this with rfl | hbad
              · rw [hw]; split <;> exact Int.le_refl _
              · omega
            | v0 :: v1 :: rest, hfe, _, _, _ =>
              simp only [M.bind]
              have hf0 := hfe v0 (by simp)
              have hf1 := hfe v1 (by simp)
              have hv0 : v0 < 2 ^ e.bits := by obtain ⟨a, _, hv⟩ := hf0; rw [← hv]; exact he.2 a
              have hv1 : v1 < 2 ^ e.bits := by obtain ⟨a, _, hv⟩ := hf1; rw [← hv]; exact he.2 a
              have hgs := getSolver_spec sB hinvB.core
              rcases hg : getSolver sB with ⟨resC, sC⟩
              rw [hg] at hgs
              cases resC with
              | error err => exact absurd hgs id
              | ok r =>
                simp only
                -- the narrowed query
                have hZ : ∀ a, SatBy ((objAt sC r).asserted ++
                      (ec ++ [cmpCon signed isMax e v0, cmpCon signed isMax e v1]).map ZCon.ofCon) a ↔
                    Models (U ++ ec) a ∧
                      (if isMax then key signed e.bits v0 ≤ key signed e.bits (e.val a) ∧ key signed e.bits v1 ≤ key signed e.bits (e.val a)
                       else key signed e.bits (e.val a) ≤ key signed e.bits v0 ∧ key signed e.bits (e.val a) ≤ key signed e.bits v1) := by
                  intro a
                  rw [satBy_query hinvB hgs _ a, ← List.append_assoc, models_append]
                  refine and_congr_right fun _ => ?_
                  simp only [Models, List.mem_cons, List.mem_nil_iff, or_false, forall_eq_or_imp, forall_eq]
                  rw [cmpCon_sem signed isMax e he v0 hv0 a, cmpCon_sem signed isMax e he v1 hv1 a]
                  cases isMax <;> simp
                obtain ⟨hsatZ, hopt⟩ := narrowed_opt isMax signed e he (U ++ ec) _ v0 v1 hZ hf0 hf1
                have hsp := z3Extrema_spec hE (hookOk_noop [] (fun fe => fe = sC.fe)) r isMax e
                  ((ec ++ [cmpCon signed isMax e v0, cmpCon signed isMax e v1]).map ZCon.ofCon) signed he sC (by simp) hsatZ
                rcases hz : z3Extrema E r isMax e ((ec ++ [cmpCon signed isMax e v0, cmpCon signed isMax e v1]).map ZCon.ofCon)
                  signed (fun _ => pure ()) sC with ⟨resD, sD⟩
                rw [hz] at hsp
                cases resD with
                | error err => exact ⟨Or.inr hsp.1, clInv_after_query hinvB hgs hsp.2.1 hsp.2.2⟩
                | ok i =>
                  obtain ⟨⟨hlo, hhi, hex, hall⟩, hst, hfr⟩ := hsp
                  exact ⟨hoptiff i (hopt i hlo hhi hex hall), clInv_after_query hinvB hgs hst hfr⟩

end Claripy.Solver
