import ClaripyProofs.Lemmas.Solver.CompositeQuery
/-!
The value queries of CompositeFrontend besides `eval`: one generic theorem for the shape `_ensure_sat`, merged solver of the
names, the child's answer, `_reabsorb_solver` (`compQuery_judge`: what `compEval_judge` does for `eval`), and its instances
`batch_eval` and `solution` (no extra constraints), with the footprint lemmas of those child calls (`variables` unchanged, which
`_reabsorb_solver` needs in order not to raise).
-/
namespace Claripy.Solver

variable {R : Con → Prop} {RE : Exp → Prop} {E : Env}

section
variable (H : SolverHyps R RE E)
include H

/-- **a value query of the composite, generically** (no extra constraints): `q` is the child's method, `f` wraps its result, `names`
are the variables the merged solver is asked for.  Needed of the child call: it is the call `op` of the child class (`hstep`), it
has the footprint (`hfoot`), and an allowed answer for the merged child's constraints is an allowed answer for everything the user
added whenever the two are related by `Equi names` (`htrans`). -/
theorem compQuery_judge {α : Type} {U : List Con} {Us : List (List Con)} {s : CSt} (h : CInv R RE E U Us s) (op : Op)
    (names : List Var) (q : M α) (f : α → Out)
    (hstep : ∀ w i, step E .SolverCompositeChild w i op = outOf f (runOn w i q))
    (hsc : InScopeC R RE op) (hnb : op ≠ .branch)
    (hua : ∀ X, usersAfter X op = X) (hual : ∀ X i, usersAll X i op = X)
    (hfoot : ∀ (U' : List Con) s', SI R RE E (fun _ => True) U' s' → FootQ s' (q s').2)
    (hunsat : ¬ Satisfiable U → Judge U op (.err .unsat))
    (htrans : ∀ Um o, Equi names U Um → Judge Um op o → Judge U op o) :
    JudgeOrGiveUp E U op (outOfC f (compQuery E names [] q s)).1 := by
  simp only [compQuery, bind, CM.bind, ensureSat, CM.get]
  by_cases hu : s.c.unsat = true
  · simp only [hu, ↓reduceIte, CM.throw, outOfC]
    exact Or.inl (hunsat (h.unsatOk hu))
  · have hu' : s.c.unsat = false := by simpa using hu
    simp only [hu', Bool.false_eq_true, ↓reduceIte, CM.bind]
    have hs := compSatisfiable_spec H (childFoot H) h
    revert hs
    generalize compSatisfiable E [] s = res
    obtain ⟨r, s0⟩ := res
    cases r with
    | error e' => intro hs; exact Or.inr ⟨e', rfl, hs.1⟩
    | ok b =>
      rintro ⟨hb, h0⟩
      cases b with
      | false =>
        simp only [Bool.not_false, ↓reduceIte, CM.throw, outOfC]
        exact Or.inl (hunsat (fun hs => by have := hb.mpr hs; cases this))
      | true =>
        simp only [Bool.not_true, Bool.false_eq_true, ↓reduceIte, pure, CM.pure]
        have hsatU : Satisfiable U := hb.mp rfl
        have hu0 : s0.c.unsat = false := by
          cases hx : s0.c.unsat with
          | false => rfl
          | true => exact absurd hsatU (h0.unsatOk hx)
        obtain ⟨m, Us1, s1, hr, hm⟩ := solverForNames_spec (combineSpec H (childFoot H)) h0 names
        simp only [hr]
        have hallsat : ∀ j ∈ s0.c.solverList, Satisfiable (Us.getD j []) := by
          obtain ⟨a, ha⟩ := hsatU
          exact fun j hj => ⟨a, (h0.sem hu0 a).mp ha j hj⟩
        have hequi := (merged_equi H h0 _ m hm hu0).2 hallsat
        -- the child's answer
        have hst := ch_step_nb H s1.w Us1 hm.kids m hm.lt op hsc hnb
        have hft := hfoot _ (stOfI s1.w m) (hm.kids.each m hm.lt)
        rw [hstep, hua, hual] at hst
        have hre2 : (runOn s1.w m q).2.reuse = s1.w.reuse := rfl
        have hlen2 := runOn_fes_length s1.w m q
        have hself2 := runOn_getD_self s1.w m q hm.lt
        simp only [CM.onChild]
        revert hst hre2 hlen2 hself2
        generalize runOn s1.w m q = res2
        obtain ⟨r2, w2⟩ := res2
        intro hst hre2 hlen2 hself2
        cases r2 with
        | error e' =>
          simp only [outOf, outOfC] at hst ⊢
          rcases hst.1 with hj | hg
          · exact Or.inl (htrans _ _ hequi hj)
          · exact Or.inr hg
        | ok vs =>
          simp only [outOf] at hst
          obtain ⟨s3, h3⟩ := reabsorb_ok H (s := { s1 with w := w2 }) hst.2 (by rw [hre2]; exact hm.reuse) m
            (by rw [hlen2]; exact hm.lt)
            (by
              intro v hv
              have hv' : v ∈ (w2.fes.getD m {}).variables := hv
              rw [hself2, hft.1] at hv'
              obtain ⟨t, ht, hvt⟩ := hm.sub v hv'
              obtain ⟨n', _, hn'⟩ := (mem_solversFor _ _ _).mp ht
              refine ⟨t, ?_⟩
              show alGet? s1.c.solvers v = some t
              rw [hm.comp]
              exact h0.cover n' t hn' v hvt)
          simp only [h3, outOfC]
          rcases hst.1 with hj | hg
          · exact Or.inl (htrans _ _ hequi hj)
          · exact Or.inr hg

/-! ### footprints of `batch_eval` and `solution` of the child class -/

/-- **`batch_eval` of SolverCompositeChild has the footprint** -/
theorem child_batchEval_foot {G : St → Prop} {U : List Con} (es : List Exp) (n : Nat) (extra : List Con) :
    FootSpec R RE E G U ((childOps E).batchEval es n extra) := by
  have h0 : ∀ n' extra', FootSpec R RE E G U ((cL0 E (chStage E 3)).batchEval es n' extra') :=
    fun n' extra' s h => full_batchEval_foot H (chStage_hook E 3) es n' extra' s h
  have h1 : FootSpec R RE E G U (modelCacheBatchEval E (cL0 E (chStage E 3)) es n extra) := mc_batchEval_foot H es n extra h0
  exact satCacheQuery_foot _ _ h1

/-- FullFrontend.solution -/
theorem full_solution_foot {G : St → Prop} {U : List Con} (e : Exp) (v : Nat) (extra : List Con) (s : St)
    (h : SI R RE E G U s) :
    FootQ s ((do let r ← getSolver; z3Solution E r e v (extra.map ZCon.ofCon) mcHook : M Bool) s).2 := by
  simp only [bind, M.bind]
  have hg := getSolver_foot H s h
  revert hg
  generalize getSolver s = res
  obtain ⟨r, s1⟩ := res
  cases r with
  | error e => exact fun hg => hg.elim
  | ok r =>
    rintro ⟨hgs, hf1, hp1⟩
    dsimp only
    unfold z3Solution
    have hl := z3Satisfiable_spec H.oracle (hookOk_foot s1.fe) r (eqCon e (v : Int) :: extra.map ZCon.ofCon) s1 (fun _ hc => by cases hc)
    revert hl
    generalize z3Satisfiable E r (eqCon e (v : Int) :: extra.map ZCon.ofCon) mcHook s1 = res2
    obtain ⟨r2, s2⟩ := res2
    cases r2 with
    | error e => exact fun hl => hf1.trans (hl.2.1.fe hp1).footQ
    | ok b => exact fun hl => hf1.trans (hl.2.1.fe hp1).footQ

/-- **`solution` of SolverCompositeChild has the footprint** -/
theorem child_solution_foot {G : St → Prop} {U : List Con} (e : Exp) (v : Nat) (extra : List Con) :
    FootSpec R RE E G U ((childOps E).solution e v extra) := by
  intro s h
  have hmh : (chStage E 3).modelHook = mcHook := chStage_hook E 3
  -- ModelCacheMixin.solution over FullFrontend.solution
  have h1 : FootQ s ((cL1 E (chStage E 3)).solution e v extra s).2 := by
    show FootQ s ((do
        let fe ← M.getFe
        let cached := (allBatchSolutions E fe [e] extra true).map fun t => t.headD 0
        if cached.contains v then pure true
        else (do let r ← getSolver; z3Solution E r e v (extra.map ZCon.ofCon) (chStage E 3).modelHook : M Bool) : M Bool) s).2
    rw [hmh]
    simp only [bind, M.bind, M.getFe_apply]
    exact footQ_ite _ (FootQ.refl _) (full_solution_foot H e v extra s h)
  -- SatCacheMixin.solution
  show FootQ s ((do
      let fe ← M.getFe
      if fe.cachedSat == some false then M.throw .unsat
      else do
        let r ← M.tryCatch ((cL1 E (chStage E 3)).solution e v extra) (· == .unsat) (do
          if extra.isEmpty then M.modifyFe fun fe => { fe with cachedSat := some false }
          M.throw .unsat)
        if r then M.modifyFe fun fe => { fe with cachedSat := some true }
        pure r : M Bool) s).2
  simp only [bind, M.bind, M.getFe_apply]
  refine footQ_ite _ (FootQ.refl _) ?_
  refine footQ_bind (footQ_tryCatch h1 ?_) fun r =>
    trQ_ite _ (trQ_bind (trQ_modifyFe _ fun _ => ⟨rfl, rfl, rfl⟩) fun _ => trQ_pure _) (trQ_pure _)
  exact trQ_ite _ (trQ_bind (trQ_modifyFe _ fun _ => ⟨rfl, rfl, rfl⟩) fun _ => trQ_throw _) (trQ_throw _)

end

/-! ### the transfer of the answers -/

theorem Equi.feasibleT {names : List Var} {U Um : List Con} (h : Equi names U Um) {es : List Exp} (he : ∀ e ∈ es, ExpDep e)
    (hv : ∀ e ∈ es, ∀ v ∈ e.vars, v ∈ names) : FeasibleT (U ++ []) es = FeasibleT (Um ++ []) es := by
  funext t
  apply propext
  simp only [List.append_nil]
  constructor
  · rintro ⟨a, ha, hx⟩; exact ⟨a, h.down a ha, hx⟩
  · rintro ⟨a, ha, hx⟩
    obtain ⟨a', ha', hag⟩ := h.up a ha
    refine ⟨a', ha', ?_⟩
    rw [← hx]
    exact List.map_congr_left fun e hem => he e hem a' a (fun v hv' => hag v (hv e hem v hv'))

/-- `batch_eval` answered for the merged child is answered for everything -/
theorem Equi.judge_batchEval {names : List Var} {U Um : List Con} (h : Equi names U Um) {es : List Exp}
    (he : ∀ e ∈ es, ExpDep e) (hv : ∀ e ∈ es, ∀ v ∈ e.vars, v ∈ names) (n : Nat) (o : Out)
    (hj : Judge Um (.batchEval es n []) o) : Judge U (.batchEval es n []) o := by
  have hF := h.feasibleT he hv
  cases o with
  | tuples ts =>
    simp only [Judge] at hj ⊢
    rw [hF]; exact hj
  | err e' =>
    cases e' with
    | unsat =>
      simp only [Judge] at hj ⊢
      exact fun hs => hj (h.sat.mp hs)
    | _ => exact hj.elim
  | _ => exact hj.elim

/-- `solution` answered for the merged child is answered for everything -/
theorem Equi.judge_solution {names : List Var} {U Um : List Con} (h : Equi names U Um) {e : Exp} (he : ExpDep e)
    (hv : ∀ v ∈ e.vars, v ∈ names) (x : Nat) (o : Out) (hj : Judge Um (.solution e x []) o) : Judge U (.solution e x []) o := by
  have hF := h.feasible he hv
  cases o with
  | bool b =>
    simp only [Judge] at hj ⊢
    rw [hF]; exact hj
  | err e' =>
    cases e' with
    | unsat =>
      simp only [Judge] at hj ⊢
      exact fun hs => hj (h.sat.mp hs)
    | _ => exact hj.elim
  | _ => exact hj.elim

theorem mem_namesFor (vss : List (List Var)) (v : Var) : v ∈ namesFor vss ↔ ∃ vs ∈ vss, v ∈ vs := by
  unfold namesFor
  have : ∀ (acc : List Var), v ∈ vss.foldl listUnion acc ↔ v ∈ acc ∨ ∃ vs ∈ vss, v ∈ vs := by
    induction vss with
    | nil => intro acc; simp
    | cons x xs ih =>
      intro acc
      simp only [List.foldl_cons, ih, mem_listUnion, List.mem_cons, exists_eq_or_imp]
      constructor
      · rintro ((h | h) | h)
        · exact Or.inl h
        · exact Or.inr (Or.inl h)
        · exact Or.inr (Or.inr h)
      · rintro (h | h | h)
        · exact Or.inl (Or.inl h)
        · exact Or.inl (Or.inr h)
        · exact Or.inr h
  rw [this]; simp

section
variable (H : SolverHyps R RE E)
include H

/-- **`batch_eval(es, n)` of the composite answers for everything the user added** (registered symbolic expressions, no extra
constraints) -/
theorem compBatchEval_judge {U : List Con} {Us : List (List Con)} {s : CSt} (h : CInv R RE E U Us s) (es : List Exp) (n : Nat)
    (hne : es ≠ []) (hes : ∀ e ∈ es, RE e ∧ e.conc = none) (hn : 1 ≤ n) :
    JudgeOrGiveUp E U (.batchEval es n []) (compStep E s (.batchEval es n [])).1 := by
  have hrun : compStep E s (.batchEval es n []) =
      outOfC .tuples (compQuery E (namesFor (es.map (·.vars))) [] ((childOps E).batchEval es n []) s) := by
    simp only [compStep, compBatchEval, List.map_nil, List.nil_append]
  have hstep : ∀ w i, step E .SolverCompositeChild w i (.batchEval es n []) =
      outOf .tuples (runOn w i ((childOps E).batchEval es n [])) := fun _ _ => rfl
  have hsc : InScopeC R RE (.batchEval es n []) := ⟨hne, hes, hn⟩
  have hft : ∀ (U' : List Con) s', SI R RE E (fun _ => True) U' s' → FootQ s' (((childOps E).batchEval es n []) s').2 :=
    fun U' s' hs' => child_batchEval_foot H es n [] s' hs'
  have key := compQuery_judge H h (.batchEval es n []) (namesFor (es.map (·.vars))) ((childOps E).batchEval es n []) Out.tuples
    hstep hsc (by intro hx; cases hx) (fun _ => rfl) (fun _ _ => rfl) hft
  rw [hrun]
  refine key ?_ ?_
  · intro hns; simp only [Judge, List.append_nil]; exact hns
  · intro Um o hequi hj
    have hdep : ∀ e ∈ es, ExpDep e := fun e he => H.expReg.dep e (hes e he).1
    have hvars : ∀ e ∈ es, ∀ v ∈ e.vars, v ∈ namesFor (es.map (·.vars)) := by
      intro e he v hv
      have hm : e.vars ∈ es.map (·.vars) := List.mem_map.mpr ⟨e, he, rfl⟩
      exact (mem_namesFor (es.map (·.vars)) v).mpr ⟨e.vars, hm, hv⟩
    exact Equi.judge_batchEval (es := es) hequi hdep hvars n o hj

/-- **`solution(e, x)` of the composite answers for everything the user added** (registered symbolic expression, an integer `x`
in range, no extra constraints) -/
theorem compSolution_judge {U : List Con} {Us : List (List Con)} {s : CSt} (h : CInv R RE E U Us s) (e : Exp) (x : Nat)
    (he : RE e) (hc : e.conc = none) (hx : x < 2 ^ e.bits) :
    JudgeOrGiveUp E U (.solution e x []) (compStep E s (.solution e x [])).1 := by
  have hrun : compStep E s (.solution e x []) =
      outOfC .bool (compQuery E (namesFor [e.vars]) [] ((childOps E).solution e x []) s) := by
    simp only [compStep, compSolution, List.map_nil]
  have hstep : ∀ w i, step E .SolverCompositeChild w i (.solution e x []) =
      outOf .bool (runOn w i ((childOps E).solution e x [])) := fun _ _ => rfl
  have hsc : InScopeC R RE (.solution e x []) := ⟨hc, hx⟩
  have hft : ∀ (U' : List Con) s', SI R RE E (fun _ => True) U' s' → FootQ s' (((childOps E).solution e x []) s').2 :=
    fun U' s' hs' => child_solution_foot H e x [] s' hs'
  have key := compQuery_judge H h (.solution e x []) (namesFor [e.vars]) ((childOps E).solution e x []) Out.bool
    hstep hsc (by intro hx; cases hx) (fun _ => rfl) (fun _ _ => rfl) hft
  rw [hrun]
  refine key ?_ ?_
  · intro hns; simp only [Judge, List.append_nil]; exact hns
  · intro Um o hequi hj
    have hvars : ∀ v ∈ e.vars, v ∈ namesFor [e.vars] := fun v hv => (mem_namesFor _ v).mpr ⟨e.vars, by simp, hv⟩
    exact Equi.judge_solution (e := e) hequi (H.expReg.dep e he) hvars x o hj

end

/-! ### one query after any history of `add` / `satisfiable()` -/

/-- the queries covered: `eval` / `batch_eval` / `solution` of registered symbolic expressions without extra constraints;
`is_true` / `is_false` with any extra constraints -/
def InScopeCQ2 (RE : Exp → Prop) : Op → Prop
  | .eval e n extra => RE e ∧ e.conc = none ∧ 1 ≤ n ∧ extra = []
  | .batchEval es n extra => es ≠ [] ∧ (∀ e ∈ es, RE e ∧ e.conc = none) ∧ 1 ≤ n ∧ extra = []
  | .solution e x extra => RE e ∧ e.conc = none ∧ x < 2 ^ e.bits ∧ extra = []
  | .isTrue _ _ | .isFalse _ _ => True
  | _ => False

/-- **one query in a state satisfying the invariant** -/
theorem comp_query_step2 (H : SolverHyps R RE E) {U : List Con} {Us : List (List Con)} {s : CSt} (h : CInv R RE E U Us s)
    (op : Op) (hop : InScopeCQ2 RE op) : JudgeOrGiveUp E U op (compStep E s op).1 := by
  cases op with
  | eval e n extra =>
    obtain ⟨he, hc, hn, rfl⟩ := hop
    exact compEval_judge H h e n he hc hn
  | batchEval es n extra =>
    obtain ⟨hne, hes, hn, rfl⟩ := hop
    exact compBatchEval_judge H h es n hne hes hn
  | solution e x extra =>
    obtain ⟨he, hc, hx, rfl⟩ := hop
    exact compSolution_judge H h e x he hc hx
  | isTrue c extra => exact compTruth_judge H h true c extra
  | isFalse c extra => exact compTruth_judge H h false c extra
  | _ => exact hop.elim

end Claripy.Solver
