import ClaripyProofs.Lemmas.Solver.SolverFull
/-!
FullFrontend.min / max inside the caching class: `self.satisfiable`, `self.eval(e, 2)` (both go through the whole stack,
caches included), narrowing by the two values, `_extrema` with ModelCacheMixin's callback.  Besides the optimum the
theorem says that a model attaining it is in the cache afterwards — what `_max_exhausted` etc. rely on.
-/
namespace Claripy.Solver

variable {R : Con → Prop} {RE : Exp → Prop} {E : Env} {G : St → Prop} {U : List Con}

theorem full_extremum_spec (hE : OracleExact E) (hR : Reg R E) (hZ : ZidFaithful R) (hC : EvalComplete RE E)
    (hRE : ExpReg RE)
    {self : Ops} (hmh : self.modelHook = mcHook) (isMax : Bool) (e : Exp) (he : RE e) (hc : e.conc = none)
    (extra : List Con) (signed : Bool)
    (hsat : SatSpec R RE E G U extra (self.satisfiable extra))
    (hev : EvalSpec R RE E G U e 2 extra (self.eval e 2 extra)) :
    OptSpec R RE E G U isMax e extra signed (fullExtremum E self isMax e extra signed) := by
  intro s h
  have hwf : ExpWf e := hRE.wf e he
  simp only [fullExtremum, bind, M.bind, hmh]
  -- self.satisfiable
  have h1 := hsat s h
  rcases hA : self.satisfiable extra s with ⟨resA, sA⟩
  rw [hA] at h1
  cases resA with
  | error err => exact ⟨Or.inr h1.1, h1.2⟩
  | ok b =>
    obtain ⟨hb, hinvA, hkA⟩ := h1
    cases b with
    | false =>
      simp only [Bool.not_false, ↓reduceIte]
      refine ⟨Or.inl ⟨rfl, fun hsx => ?_⟩, hinvA, hkA⟩
      have := hb.mpr hsx
      simp at this
    | true =>
      have hsatU : Satisfiable (U ++ extra) := hb.mp rfl
      simp only [Bool.not_true, Bool.false_eq_true, ↓reduceIte, pure, M.bind]
      -- self.eval(e, 2)
      have h2 := hev sA hinvA
      rcases hB : self.eval e 2 extra sA with ⟨resB, sB⟩
      rw [hB] at h2
      cases resB with
      | error err => exact ⟨h2.1, h2.2.1, hkA.trans h2.2.2⟩
      | ok two =>
        obtain ⟨hev2, _, hcached, hinvB, hkB⟩ := h2
        have hkAB := hkA.trans hkB
        simp only [EvalOk, hc] at hev2
        obtain ⟨hfe, hnd, hlen, hcomp⟩ := hev2
        obtain ⟨a0, ha0⟩ := hsatU
        have hfa0 : Feasible (U ++ extra) e (e.val a0) := ⟨a0, ha0, rfl⟩
        match two, hfe, hnd, hlen, hcomp, hcached with
        | [], _, _, _, hcomp, _ =>
          have := hcomp _ hfa0
          simp at this
        | [v], hfe, _, _, hcomp, hcached =>
          simp only [M.pure]
          obtain ⟨av, hav, hvv⟩ := hfe v (by simp)
          have hvlt : v < 2 ^ e.bits := by rw [← hvv]; exact hwf.2 av
          have hw := wrap_nat e.bits v hvlt
          refine ⟨⟨by rw [hw]; exact ⟨av, hav, hvv⟩, fun v' hv' => ?_⟩, fun hvars => ?_, hinvB, hkAB⟩
          · have := hcomp v' hv'
            simp only [List.mem_singleton, List.length_cons, List.length_nil] at this
            rcases this with rfl | hbad
            · rw [hw]; split <;> exact Int.le_refl _
            · omega
          · obtain ⟨m, hm, hmv⟩ := hcached (fun x hx => hkAB.vars x (hvars x hx)) v (by simp)
            exact ⟨m, hm, by rw [hw]; exact hmv⟩
        | v0 :: v1 :: rest, hfe, hnd, _, _, _ =>
          simp only [M.bind]
          have hf0 := hfe v0 (by simp)
          have hf1 := hfe v1 (by simp)
          have hv0 : v0 < 2 ^ e.bits := by obtain ⟨a, _, hv⟩ := hf0; rw [← hv]; exact hwf.2 a
          have hv1 : v1 < 2 ^ e.bits := by obtain ⟨a, _, hv⟩ := hf1; rw [← hv]; exact hwf.2 a
          have hne01 : v0 ≠ v1 := by
            intro heq; subst heq; simp at hnd
          have hgsT := getSolverG_spec hZ sB hinvB.base.core hinvB.base.dinv.consR hinvB.base.areg
          rcases hg : getSolver sB with ⟨resC, sC⟩
          rw [hg] at hgsT
          cases resC with
          | error err => exact absurd hgsT id
          | ok r =>
            have hgs := hgsT.toGotSolver
            simp only
            -- the narrowed query
            have hZ : ∀ a, SatBy ((objAt sC r).asserted ++
                  (extra ++ [cmpCon signed isMax e v0, cmpCon signed isMax e v1]).map ZCon.ofCon) a ↔
                Models (U ++ extra) a ∧
                  (if isMax then key signed e.bits v0 ≤ key signed e.bits (e.val a) ∧ key signed e.bits v1 ≤ key signed e.bits (e.val a)
                   else key signed e.bits (e.val a) ≤ key signed e.bits v0 ∧ key signed e.bits (e.val a) ≤ key signed e.bits v1) := by
              intro a
              rw [satBy_query' hinvB.base hgs _ a, ← List.append_assoc, models_append]
              refine and_congr_right fun _ => ?_
              simp only [Models, List.mem_cons, List.mem_nil_iff, or_false, forall_eq_or_imp, forall_eq]
              rw [cmpCon_sem signed isMax e hwf v0 hv0 a, cmpCon_sem signed isMax e hwf v1 hv1 a]
              cases isMax <;> simp
            obtain ⟨hsatZ, hopt⟩ := narrowed_opt isMax signed e hwf (U ++ extra) _ v0 v1 hZ hf0 hf1
            have hsp := z3Extrema_spec hE (hookOk_mc (RE := RE) hR hinvB.base hgs) r isMax e
              ((extra ++ [cmpCon signed isMax e v0, cmpCon signed isMax e v1]).map ZCon.ofCon) signed hwf sC
              (fun _ hcc => hcc) hsatZ
            have hrange0 := key_range signed e.bits v0 hwf.1 hv0
            have hrange1 := key_range signed e.bits v1 hwf.1 hv1
            have hhk := z3Extrema_hooked (H := Hmc) hE hookRec_mc r isMax e
              ((extra ++ [cmpCon signed isMax e v0, cmpCon signed isMax e v1]).map ZCon.ofCon) signed hwf sC (by omega)
            rcases hz : z3Extrema E r isMax e ((extra ++ [cmpCon signed isMax e v0, cmpCon signed isMax e v1]).map ZCon.ofCon)
              signed mcHook sC with ⟨resD, sD⟩
            rw [hz] at hsp hhk
            cases resD with
            | error err =>
              obtain ⟨hg', hst, hfr⟩ := hsp
              obtain ⟨h3, hk3⟩ := si_after_query hinvB hgsT hst.toObjStep hfr (hst.fe (hookP_start hinvB hgs))
              exact ⟨Or.inr hg', h3, hkAB.trans hk3⟩
            | ok i =>
              obtain ⟨⟨hlo, hhi, hex, hall⟩, hst, hfr⟩ := hsp
              obtain ⟨h3, hk3⟩ := si_after_query hinvB hgsT hst.toObjStep hfr (hst.fe (hookP_start hinvB hgs))
              have hiopt := hopt i hlo hhi hex hall
              refine ⟨hiopt, fun hvars => ?_, h3, hkAB.trans hk3⟩
              have hvarsD : ∀ x ∈ e.vars, x ∈ sD.fe.variables := fun x hx => (hkAB.trans hk3).vars x (hvars x hx)
              rcases hhk with hbound | ⟨vals, keys, q, k, hor, ⟨hsatv, hkv⟩, hH⟩
              · -- the optimum cannot be the bound the search started from: two different values are attained
                exfalso
                obtain ⟨aw, hzw, hkw⟩ := hex
                have hw2 := ((hZ aw).mp hzw).2
                have hk01 : key signed e.bits v0 ≠ key signed e.bits v1 :=
                  fun hk => hne01 (key_inj signed e.bits v0 v1 hwf.1 hv0 hv1 hk)
                cases isMax
                · simp only [Bool.false_eq_true, ↓reduceIte] at hbound hw2
                  omega
                · simp only [↓reduceIte] at hbound hw2
                  omega
              · -- the recorded model attains the optimum
                have hkeq : key signed e.bits (e.val (asgOf vals)) = i := by
                  have := hall (asgOf vals) hsatv
                  cases isMax
                  · simp only [Bool.false_eq_true, ↓reduceIte, keyOf] at this hkv; omega
                  · simp only [↓reduceIte, keyOf] at this hkv; omega
                have hval : e.val (asgOf vals) = wrap e.bits i :=
                  key_inj signed e.bits _ _ hwf.1 (hwf.2 _) (wrap_lt _ _) (by rw [hkeq, key_wrap signed e.bits i hwf.1 hlo hhi])
                obtain ⟨m, hm, hmv⟩ := cached_of_hmc hC hRE hor hH e he hvarsD
                exact ⟨m, hm, by rw [hmv, hval]⟩

end Claripy.Solver
