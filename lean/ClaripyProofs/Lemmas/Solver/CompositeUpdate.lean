import ClaripyProofs.Lemmas.Solver.CompositeSplit
import ClaripyProofs.Lemmas.Solver.CompositeReabsorb
/-!
`_reabsorb_solver`, the branch `len(parts) == len(old)`: `split()` (`childSplit_spec`), then `update` of the old child each part's
least variable points to (`childUpdate_step`): the models it accepts are valid for the old child (`update_accepts_valid`), the
markers it copies are those of a single `BVS == BVV` constraint, which pins the variable for the old child too
(`part_marker_const`: glue a model of the old child with models of the other children — all satisfiable after `_ensure_sat` —
into a model of the merged constraints, which contain that constraint).  Result: `reabsorbKeeps_of_replace` — `ReabsorbKeeps`
follows from its instance for the OTHER branch (`ReabsorbReplaceKeeps`: the parts replace the children).
-/
namespace Claripy.Solver

variable {R : Con → Prop} {RE : Exp → Prop} {E : Env}

theorem marked_of_opt {fe : Frontend} {isMax signed : Bool} {i : Nat} (hi : i ∈ optFlags isMax signed fe) : Marked fe i := by
  unfold Marked
  cases isMax <;> cases signed <;> simp only [optFlags, Bool.false_eq_true, ↓reduceIte] at hi
  · exact Or.inr (Or.inr (Or.inl hi))
  · exact Or.inr (Or.inr (Or.inr (Or.inr hi)))
  · exact Or.inr (Or.inl hi)
  · exact Or.inr (Or.inr (Or.inr (Or.inl hi)))

theorem forall₂_left {α β : Type} {R : α → β → Prop} : ∀ {l : List α} {l' : List β}, List.Forall₂ R l l' →
    ∀ a ∈ l, ∃ b ∈ l', R a b
  | _, _, .nil, _, h => by cases h
  | _, _, .cons hab ht, a, h => by
    rcases List.mem_cons.mp h with rfl | h
    · exact ⟨_, by simp, hab⟩
    · obtain ⟨b, hb, hr⟩ := forall₂_left ht a h
      exact ⟨b, List.mem_cons_of_mem _ hb, hr⟩

theorem forall₂_right {α β : Type} {R : α → β → Prop} : ∀ {l : List α} {l' : List β}, List.Forall₂ R l l' →
    ∀ b ∈ l', ∃ a ∈ l, R a b
  | _, _, .nil, _, h => by cases h
  | _, _, .cons hab ht, b, h => by
    rcases List.mem_cons.mp h with rfl | h
    · exact ⟨_, by simp, hab⟩
    · obtain ⟨a, ha, hr⟩ := forall₂_right ht b h
      exact ⟨a, List.mem_cons_of_mem _ ha, hr⟩

theorem forall₂_pairwise {α β : Type} {R : α → β → Prop} {S : β → β → Prop} {T : α → α → Prop}
    (hRST : ∀ a b a' b', R a b → R a' b' → S b b' → T a a') :
    ∀ {l : List α} {l' : List β}, List.Forall₂ R l l' → l'.Pairwise S → l.Pairwise T
  | _, _, .nil, _ => List.Pairwise.nil
  | _, _, .cons hab ht, hp => by
    obtain ⟨h1, h2⟩ := List.pairwise_cons.mp hp
    refine List.pairwise_cons.mpr ⟨fun a' ha' => ?_, forall₂_pairwise hRST ht h2⟩
    obtain ⟨b', hb', hr'⟩ := forall₂_left ht a' ha'
    exact hRST _ _ _ _ hab hr' (h1 b' hb')

theorem mem_getD_index {cs : List Con} {c : Con} (hc : c ∈ cs) : ∃ i, i < cs.length ∧ cs.getD i default = c := by
  obtain ⟨i, hi, rfl⟩ := List.getElem_of_mem hc
  exact ⟨i, hi, by simp [List.getD, hi]⟩

/-- the constraint lists have no variable in common -/
def DisjL (cl cl' : List Con) : Prop := ∀ c ∈ cl, ∀ v ∈ c.vars, ∀ c' ∈ cl', v ∉ c'.vars

/-- the groups of `_split_constraints` in the order the set is listed: the same groups, each once -/
theorem orderGroups_run' (E : Env) (varss : List (List Var)) (s : CSt) :
    ∃ gs' t, orderGroups E (groupsOf varss) s = (.ok gs', { s with w := { s.w with tick := t } }) ∧
      (∀ g, g ∈ gs' ↔ g ∈ groupsOf varss) ∧ gs'.Nodup := by
  unfold orderGroups
  by_cases hl : (groupsOf varss).length < 2
  · simp only [hl, ↓reduceIte]
    exact ⟨groupsOf varss, s.w.tick, rfl, fun _ => Iff.rfl, (groupsOf_spec varss).2⟩
  · simp only [hl, ↓reduceIte, orderOracle_run]
    exact ⟨_, _, rfl, fun g => mem_reorderBy _ _ _ g, nodup_reorderBy _ _ _ (groupsOf_spec varss).2⟩

section
variable (H : SolverHyps R RE E)
include H

/-- **`s.split()` of a child**: new children, each with the C11 invariant for its own constraints; the old ones untouched -/
theorem childSplit_spec (F : ChildFoot R RE E) {Us : List (List Con)} {s : CSt} (hw : TInvS R RE E Us s.w) (hre : s.w.reuse = false)
    (m : Nat) (hm : m < s.w.fes.length) (hk : KeysInv (s.child m)) (hex : ExactVars (s.child m)) :
    ∃ parts s' Us', childSplit E m s = (.ok parts, s') ∧ s'.c = s.c ∧ TInvS R RE E Us' s'.w ∧ s'.w.reuse = false ∧
      s.w.fes.length ≤ s'.w.fes.length ∧
      (∀ i, i < s.w.fes.length → s'.child i = s.child i ∧ Us'.getD i [] = Us.getD i []) ∧
      (∀ i, s.w.fes.length ≤ i → i < s'.w.fes.length → PartOk (s.child m) (s'.child i)) ∧
      (∀ p ∈ parts, s.w.fes.length ≤ p ∧ p < s'.w.fes.length) ∧
      -- the parts know pairwise disjoint variable sets, together all variables, and hold all constraints with variables
      parts.Pairwise (fun p q => ∀ v ∈ (s'.child p).variables, v ∉ (s'.child q).variables) ∧
      (∀ v ∈ (s.child m).variables, ∃ p ∈ parts, v ∈ (s'.child p).variables) ∧
      (∀ a, (∀ c ∈ (s.child m).constraints, c.vars = [] → c.sem a = true) →
        (Models (s.child m).constraints a ↔ ∀ p ∈ parts, (s'.child p).variables ≠ [] → Models (Us'.getD p []) a)) := by
  have hvl : ((s.child m).constraints.map (·.vars)).length = (s.child m).constraints.length := by simp
  generalize hv : (s.child m).constraints.map (·.vars) = varss at hvl
  obtain ⟨gs, t, hog, hgs, hgnd⟩ := orderGroups_run' E varss s
  have hsi := hw.each m hm
  have hbase := hsi.base
  have hidx : ∀ i ∈ allIdx varss, R ((s.child m).constraints.getD i default) ∧
      (s.child m).constraints.getD i default ∈ (s.child m).constraints := by
    intro i hi
    have hlt : i < (s.child m).constraints.length := by rw [← hvl]; exact (mem_allIdx varss i).mp hi
    have := getD_mem (s.child m).constraints i hlt
    exact ⟨hbase.dinv.consR _ this, this⟩
  have hlists : ∀ cl ∈ (gs.map fun g => g.2.map fun i => (s.child m).constraints.getD i default) ++
      (if (concreteOf varss).isEmpty then [] else [(concreteOf varss).map fun i => (s.child m).constraints.getD i default]),
      ∀ c ∈ cl, R c ∧ c ∈ (s.child m).constraints := by
    intro cl hcl c hc
    rcases List.mem_append.mp hcl with hcl | hcl
    · obtain ⟨g, hg, rfl⟩ := List.mem_map.mp hcl
      obtain ⟨i, hi, rfl⟩ := List.mem_map.mp hc
      refine hidx i ?_
      unfold allIdx
      exact List.mem_append_left _ (List.mem_flatten.mpr ⟨g.2, List.mem_map.mpr ⟨g, (hgs g).mp hg, rfl⟩, hi⟩)
    · split at hcl
      · cases hcl
      · simp only [List.mem_singleton] at hcl
        subst hcl
        obtain ⟨i, hi, rfl⟩ := List.mem_map.mp hc
        exact hidx i (by unfold allIdx; exact List.mem_append_right _ hi)
  have hfv : ∀ x ∈ (s.child m).models, Models (s.child m).constraints (x.complete E.dflt) :=
    fun x hx => (hbase.models_iff _).mpr (hsi.mc.valid x hx)
  have hfs : ∀ x ∈ (s.child m).models, x.Sorted := fun x hx => (hk x hx).2
  obtain ⟨parts, w', Us', hgo, h1, hre1, hlen1, hfr1, hparts1, hp1, newParts, hnp, hfa, _⟩ :=
    split_go_spec H F (s.child m) hfv hfs _ { s.w with tick := t } Us [] (hw.set_tick t) hre hlists
  simp only [List.nil_append] at hnp
  subst hnp
  -- facts about indices, groups and the constraint lists
  have hgetv : ∀ i, i < (s.child m).constraints.length → varss.getD i [] = ((s.child m).constraints.getD i default).vars := by
    intro i hi; rw [← hv]; exact getD_map_vars _ i hi
  have hgl : ∀ g ∈ gs, ∀ i ∈ g.2, i < (s.child m).constraints.length := by
    intro g hg i hi
    rw [← hvl]
    refine (mem_allIdx varss i).mp ?_
    unfold allIdx
    exact List.mem_append_left _ (List.mem_flatten.mpr ⟨g.2, List.mem_map.mpr ⟨g, (hgs g).mp hg, rfl⟩, hi⟩)
  have hgvars : ∀ g ∈ gs, ∀ c ∈ (g.2.map fun i => (s.child m).constraints.getD i default), ∀ v ∈ c.vars, v ∈ g.1 := by
    intro g hg c hc v hvc
    obtain ⟨i, hi, rfl⟩ := List.mem_map.mp hc
    refine groups_cover_vars varss g ((hgs g).mp hg) i hi v ?_
    rw [hgetv i (hgl g hg i hi)]; exact hvc
  have hconc : ∀ c ∈ ((concreteOf varss).map fun i => (s.child m).constraints.getD i default), c.vars = [] := by
    intro c hc
    obtain ⟨i, hi, rfl⟩ := List.mem_map.mp hc
    have h0 := (mem_concreteOf varss i).mp hi
    have hil : i < varss.length := by
      rcases Nat.lt_or_ge i varss.length with h | h
      · exact h
      · rw [List.getElem?_eq_none h] at h0; cases h0
    have : varss.getD i [] = [] := by simp [List.getD, h0]
    rw [hgetv i (by rw [← hvl]; exact hil)] at this
    exact this
  have hpw : ((gs.map fun g => g.2.map fun i => (s.child m).constraints.getD i default) ++
      (if (concreteOf varss).isEmpty then [] else [(concreteOf varss).map fun i => (s.child m).constraints.getD i default])).Pairwise
      DisjL := by
    rw [List.pairwise_append]
    refine ⟨?_, ?_, ?_⟩
    · rw [List.pairwise_map]
      refine List.Pairwise.imp_of_mem ?_ hgnd
      intro g g' hg hg' hne c hc v hvc c' hc' hvc'
      exact groups_disjoint varss g g' ((hgs g).mp hg) ((hgs g').mp hg') hne v (hgvars g hg c hc v hvc) (hgvars g' hg' c' hc' v hvc')
    · split
      · exact List.Pairwise.nil
      · exact List.pairwise_singleton _ _
    · intro a _ b hb c _ v _ c' hc' hvc'
      split at hb
      · cases hb
      · simp only [List.mem_singleton] at hb
        subst hb
        rw [hconc c' hc'] at hvc'; cases hvc'
  -- a constraint with variables lies in a group, hence in a list, hence in a part
  have hfind : ∀ c ∈ (s.child m).constraints, c.vars ≠ [] → ∃ p ∈ parts, ∃ cl, ListOk Us' w' p cl ∧ c ∈ cl := by
    intro c hc hcv
    obtain ⟨i, hi, rfl⟩ := mem_getD_index hc
    have hia : i ∈ allIdx varss := (mem_allIdx varss i).mpr (by rw [hvl]; exact hi)
    unfold allIdx at hia
    rcases List.mem_append.mp hia with hia | hia
    · obtain ⟨l, hl, hil⟩ := List.mem_flatten.mp hia
      obtain ⟨g, hg, rfl⟩ := List.mem_map.mp hl
      have hgin : g ∈ gs := (hgs g).mpr hg
      have hcl : (g.2.map fun i => (s.child m).constraints.getD i default) ∈
          (gs.map fun g => g.2.map fun i => (s.child m).constraints.getD i default) ++
          (if (concreteOf varss).isEmpty then [] else [(concreteOf varss).map fun i => (s.child m).constraints.getD i default]) :=
        List.mem_append_left _ (List.mem_map.mpr ⟨g, hgin, rfl⟩)
      obtain ⟨p, hp, hok⟩ := forall₂_right hfa _ hcl
      exact ⟨p, hp, _, hok, List.mem_map.mpr ⟨i, hil, rfl⟩⟩
    · exact absurd (hconc _ (List.mem_map.mpr ⟨i, hia, rfl⟩)) hcv
  refine ⟨parts, { s with w := w' }, Us', ?_, rfl, h1, hre1, hlen1, fun i hi => hfr1 i hi, hparts1, ?_, ?_, ?_, ?_⟩
  · have hrun : childSplit E m s = (do
        let groups ← orderGroups E (groupsOf varss)
        childSplitWith E m groups (concreteOf varss) : CM (List Nat)) s := by
      unfold childSplit
      simp only [bind, CM.bind, CM.get]
      rw [hv, splitConstraints_eq]
    rw [hrun]
    simp only [bind, CM.bind, hog]
    show childSplitWith E m gs (concreteOf varss) { s with w := { s.w with tick := t } } = _
    simp only [childSplitWith]
    have : ({ s with w := { s.w with tick := t } } : CSt).child m = s.child m := rfl
    rw [this, hgo]
  · intro p hp
    rcases hp1 p hp with hx | hx
    · cases hx
    · exact hx
  · refine forall₂_pairwise (S := DisjL) ?_ hfa hpw
    intro p cl p' cl' hok hok' hd v hv hv'
    obtain ⟨c, hc, hvc⟩ := hok.2.2 v hv
    obtain ⟨c', hc', hvc'⟩ := hok'.2.2 v hv'
    exact hd c hc v hvc c' hc' hvc'
  · intro v hv
    obtain ⟨c, hc, hvc⟩ := hex v hv
    obtain ⟨p, hp, cl, hok, hccl⟩ := hfind c hc (by intro h0; rw [h0] at hvc; cases hvc)
    exact ⟨p, hp, hok.2.1 c hccl v hvc⟩
  · intro a htriv
    constructor
    · intro ha p hp _
      obtain ⟨cl, hcl, hok⟩ := forall₂_left hfa p hp
      exact (hok.1 a).mpr fun c hc => ha c (hlists cl hcl c hc).2
    · intro hall c hc
      by_cases hcv : c.vars = []
      · exact htriv c hc hcv
      · obtain ⟨p, hp, cl, hok, hccl⟩ := hfind c hc hcv
        have hne : (({ s with w := w' } : CSt).child p).variables ≠ [] := by
          obtain ⟨v, hv⟩ := List.exists_mem_of_ne_nil _ hcv
          intro h0
          have := hok.2.1 c hccl v hv
          have h0' : (w'.fes.getD p {}).variables = [] := h0
          rw [h0'] at this; cases this
        exact (hok.1 a).mp (hall p hp hne) c hccl

/-- **a marker of a part is right for the old child its variable points to**: the part's sole constraint `v == x` is one of the
merged constraints; a model of the old child `t` (which knows `v`) extends — the other children are satisfiable and share no
variable with `t` — to a model of all merged constraints without changing `v`; so `v = x` in every model of `t` -/
theorem part_marker_const {U : List Con} {Us : List (List Con)} {s : CSt} (h : CInv R RE E U Us s) (m : Nat)
    (hm : m < s.w.fes.length)
    (hsem : ∀ a, Models (Us.getD m []) a ↔ ∀ t ∈ s.c.solversFor (s.child m).variables, Models (Us.getD t []) a)
    (hsat : ∀ t ∈ s.c.solversFor (s.child m).variables, Satisfiable (Us.getD t []))
    (fp : Frontend) (hp : PartOk (s.child m) fp) (hne : fp.variables ≠ [])
    (t : Nat) (ht : alGet? s.c.solvers (minVar fp.variables) = some t)
    (e : Exp) (he : RE e) (hi : Marked fp e.id) : ConstUnder (Us.getD t []) e := by
  obtain ⟨c, v, x, hcons, htr⟩ := hp.marks e.id hi
  have hcp : c ∈ fp.constraints := by rw [hcons]; simp
  have hcm : c ∈ (s.child m).constraints := hp.cons c hcp
  have hcR : R c := (h.kids.each m hm).base.dinv.consR c hcm
  obtain ⟨hcv, hcsem⟩ := (H.reg.wf c hcR).2.2.2 v x e.id htr
  have hvars : ∀ u ∈ fp.variables, u = v := by
    intro u hu
    obtain ⟨c', hc', huc⟩ := hp.exact u hu
    rw [hcons] at hc'
    simp only [List.mem_singleton] at hc'
    subst hc'
    rw [hcv] at huc
    simpa using huc
  have hmin : minVar fp.variables = v := hvars _ (minVar_mem _ hne)
  rw [hmin] at ht
  obtain ⟨htlt, hvt⟩ := h.map v t ht
  have htl : t ∈ s.c.solverList := (mem_solverList' _ h.nodup t).mpr ⟨v, ht⟩
  have hvm : v ∈ (s.child m).variables := (h.kids.each m hm).base.vars c hcm v (by rw [hcv]; simp)
  have h2 := ((H.triv c hcR v x e.id htr).2 e he rfl).2
  have hltL : ∀ j ∈ s.c.solverList, j < s.w.fes.length := by
    intro j hj
    obtain ⟨u, hu⟩ := (mem_solverList' _ h.nodup j).mp hj
    exact (h.map u j hu).1
  -- every model of `t` gives `v` the value `x`
  have key : ∀ a, Models (Us.getD t []) a → a v = x := by
    intro a ha
    have hinL : ∀ j ∈ s.c.solversFor (s.child m).variables, j ∈ s.c.solverList := by
      intro j hj
      obtain ⟨n, _, hn⟩ := (mem_solversFor _ _ _).mp hj
      exact (mem_solverList' _ h.nodup j).mpr ⟨n, hn⟩
    have hLnd : ((s.c.solversFor (s.child m).variables).filter fun j => j != t).Nodup :=
      (solversFor_nodup s.c _).sublist List.filter_sublist
    have hLmem : ∀ j, j ∈ ((s.c.solversFor (s.child m).variables).filter fun j => j != t) ↔
        j ∈ s.c.solversFor (s.child m).variables ∧ j ≠ t := by
      intro j; simp [List.mem_filter]
    obtain ⟨a', ha', hk'⟩ := children_joint_model H.reg h (s.child t).variables a
      ((s.c.solversFor (s.child m).variables).filter fun j => j != t) hLnd (fun j hj => hinL j ((hLmem j).mp hj).1)
      (fun j hj u hu hkeep => h.disjoint (hinL j ((hLmem j).mp hj).1) htl ((hLmem j).mp hj).2 u hu hkeep)
      (fun j hj => hsat j ((hLmem j).mp hj).1)
    have hta' : Models (s.child t).constraints a' := by
      refine models_of_agree ((h.kids.each t htlt).base.cons_wf H.reg) (fun u hu => ?_) ((h.child_models htlt a).mpr ha)
      obtain ⟨c', hc', huc⟩ := mem_varsOf_iff.mp hu
      exact (hk' u (h.child_vars htlt c' hc' u huc)).symm
    have hma' : Models (Us.getD m []) a' := by
      refine (hsem a').mpr fun j hj => ?_
      by_cases hjt : j = t
      · subst hjt; exact (h.child_models htlt a').mp hta'
      · exact (h.child_models (hltL j (hinL j hj)) a').mp (ha' j ((hLmem j).mpr ⟨hj, hjt⟩))
    have hc' : c.sem a' = true := (h.child_models hm a').mpr hma' c hcm
    rw [hcsem a'] at hc'
    have : a' v = x := by simpa using hc'
    rw [← hk' v hvt]; exact this
  intro v1 v2 ⟨a, ha, hva⟩ ⟨b, hb, hvb⟩
  rw [← hva, ← hvb, h2 a (key a ha), h2 b (key b hb)]

end

/-! ### the loop of `update`s -/

/-- the state of the loop `for p in parts: self._solvers[min(p.variables)].update(p)` relative to the state `s1` after `split()`:
the composite's record and every child's variables and constraints are as in `s1`; the records from `n0` on (the parts) are
unchanged -/
structure UpdInv (R : Con → Prop) (RE : Exp → Prop) (E : Env) (Us1 : List (List Con)) (n0 : Nat) (s1 s' : CSt) : Prop where
  comp : s'.c = s1.c
  kids : TInvS R RE E Us1 s'.w
  reuse : s'.w.reuse = false
  len : s'.w.fes.length = s1.w.fes.length
  keys : ∀ i, i < s'.w.fes.length → KeysInv (s'.child i)
  same : ∀ i, (s'.child i).variables = (s1.child i).variables ∧ (s'.child i).constraints = (s1.child i).constraints
  parts : ∀ i, n0 ≤ i → s'.child i = s1.child i

section
variable (H : SolverHyps R RE E)
include H

/-- **one `update`**: `t.update(p)` for a part `p` of `split()` of the merged child `m` and the old child `t` its least variable
points to keeps the loop invariant -/
theorem childUpdate_step {U : List Con} {Us Us1 : List (List Con)} {s s1 s' : CSt} (h : CInv R RE E U Us s) (m : Nat)
    (hm : m < s.w.fes.length)
    (hsem : ∀ a, Models (Us.getD m []) a ↔ ∀ t ∈ s.c.solversFor (s.child m).variables, Models (Us.getD t []) a)
    (hsat : ∀ t ∈ s.c.solversFor (s.child m).variables, Satisfiable (Us.getD t []))
    (hlen01 : s.w.fes.length ≤ s1.w.fes.length)
    (hfr : ∀ i, i < s.w.fes.length → s1.child i = s.child i ∧ Us1.getD i [] = Us.getD i [])
    (hI : UpdInv R RE E Us1 s.w.fes.length s1 s') (p : Nat) (hp1 : s.w.fes.length ≤ p)
    (hpart : PartOk (s.child m) (s1.child p)) (hne : (s1.child p).variables ≠ [])
    (t : Nat) (ht : alGet? s.c.solvers (minVar (s1.child p).variables) = some t) :
    ∃ s'', childUpdate t p s' = (.ok (), s'') ∧ UpdInv R RE E Us1 s.w.fes.length s1 s'' := by
  obtain ⟨htlt, hvt⟩ := h.map _ t ht
  have htlt' : t < s'.w.fes.length := by rw [hI.len]; omega
  have hpc : s'.child p = s1.child p := hI.parts p hp1
  have htv : (s'.child t).variables = (s.child t).variables := by rw [(hI.same t).1, (hfr t htlt).1]
  have htc : (s'.child t).constraints = (s.child t).constraints := by rw [(hI.same t).2, (hfr t htlt).1]
  have hUt : Us1.getD t [] = Us.getD t [] := (hfr t htlt).2
  -- `minVar (vars p)` is a variable of the merged child owned by `t`
  have hminp : minVar (s1.child p).variables ∈ (s1.child p).variables := minVar_mem _ hne
  have hminm : minVar (s1.child p).variables ∈ (s.child m).variables := by
    obtain ⟨c, hc, hvc⟩ := hpart.exact _ hminp
    exact (h.kids.each m hm).base.vars c (hpart.cons c hc) _ hvc
  have htin : t ∈ s.c.solversFor (s.child m).variables := (mem_solversFor _ _ _).mpr ⟨_, hminm, ht⟩
  have hsit := hI.kids.each t htlt'
  have hmct : MCInv RE E (Us1.getD t []) (s'.child t) := hsit.mc
  -- the new record of `t`
  have hmemM : ∀ x, x ∈ (((s'.child p).models.filter fun x => sameSet (modelKeys x) (s'.child t).variables).foldl listInsert
      (s'.child t).models) ↔ x ∈ (s'.child t).models ∨
        (x ∈ (s'.child p).models ∧ sameSet (modelKeys x) (s'.child t).variables = true) := by
    intro x; rw [mem_foldl_listInsert, List.mem_filter]
  have hvalidNew : ∀ x, x ∈ (s'.child p).models → sameSet (modelKeys x) (s'.child t).variables = true →
      Models (Us1.getD t []) (x.complete E.dflt) := by
    intro x hx hacc
    rw [hpc] at hx
    obtain ⟨mm, hmm, rfl⟩ := hpart.models x hx
    rw [hUt]
    refine (h.child_models htlt _).mp ?_
    refine update_accepts_valid E.dflt (Um := (s.child m).constraints) ((h.kids.each t htlt).base.cons_wf H.reg)
      (s'.child t).variables (s1.child p).variables ?_ ?_ mm ?_ hacc
    · intro u hu
      obtain ⟨c, hc, huc⟩ := mem_varsOf_iff.mp hu
      rw [htv]; exact h.child_vars htlt c hc u huc
    · intro a ha
      exact (h.child_models htlt a).mpr ((hsem a).mp ((h.child_models hm a).mp ha) t htin)
    · exact (h.child_models hm _).mpr ((h.kids.each m hm).mc.valid mm hmm)
  have hconstNew : ∀ e, RE e → Marked (s'.child p) e.id → ConstUnder (Us1.getD t []) e := by
    intro e he hi
    rw [hpc] at hi
    rw [hUt]
    exact part_marker_const H h m hm hsem hsat (s1.child p) hpart hne t ht e he hi
  refine ⟨_, rfl, ?_⟩
  have hself : ∀ fe' : Frontend, (s'.w.fes.set t fe').getD t {} = fe' := fun fe' => getD_set_self _ _ _ _ htlt'
  have hoth : ∀ (fe' : Frontend) i, i ≠ t → (s'.w.fes.set t fe').getD i {} = s'.child i :=
    fun fe' i hi => getD_set_ne _ _ _ _ _ (Ne.symm hi)
  refine ⟨hI.comp, ?_, hI.reuse, by simp [hI.len], ?_, ?_, ?_⟩
  · -- the world invariant
    refine tinvS_set_cache hI.kids htlt' _ rfl rfl rfl rfl rfl rfl rfl rfl ?_ hsit.sc
    refine ⟨?_, ?_, ?_⟩
    · intro x hx
      rcases (hmemM x).mp hx with hx | ⟨hx, hacc⟩
      · exact hmct.valid x hx
      · exact hvalidNew x hx hacc
    · intro e he hi
      rcases (mem_listUnion _ _ _).mp hi with hi | hi
      · refine (hmct.evalExhW e he hi).imp id fun h' v hv => ?_
        obtain ⟨x, hx, hxv⟩ := h' v hv
        exact ⟨x, (hmemM x).mpr (Or.inl hx), hxv⟩
      · exact Or.inl (hconstNew e he (Or.inl hi))
    · intro isMax signed e he hi
      have hof : optFlags isMax signed
          { (s'.child t) with
            models := ((s'.child p).models.filter fun x => sameSet (modelKeys x) (s'.child t).variables).foldl listInsert
              (s'.child t).models,
            evalExh := listUnion (s'.child t).evalExh (s'.child p).evalExh,
            maxExh := listUnion (s'.child t).maxExh (s'.child p).maxExh,
            minExh := listUnion (s'.child t).minExh (s'.child p).minExh,
            maxSExh := listUnion (s'.child t).maxSExh (s'.child p).maxSExh,
            minSExh := listUnion (s'.child t).minSExh (s'.child p).minSExh } =
          listUnion (optFlags isMax signed (s'.child t)) (optFlags isMax signed (s'.child p)) := by
        cases isMax <;> cases signed <;> rfl
      rw [hof] at hi
      rcases (mem_listUnion _ _ _).mp hi with hi | hi
      · refine (hmct.optW isMax signed e he hi).imp id fun h' v hv => ?_
        obtain ⟨x, hx, hxv⟩ := h' v hv
        exact ⟨x, (hmemM x).mpr (Or.inl hx), hxv⟩
      · exact Or.inl (hconstNew e he (marked_of_opt hi))
  · -- keys
    intro i hi
    have hi' : i < s'.w.fes.length := by simpa using hi
    by_cases hit : i = t
    · subst hit
      show KeysInv ((s'.w.fes.set i _).getD i {})
      rw [hself]
      intro x hx
      rcases (hmemM x).mp hx with hx | ⟨hx, hacc⟩
      · exact hI.keys i hi' x hx
      · refine ⟨fun kv hkv => ?_, ?_⟩
        · simp only [sameSet, Bool.and_eq_true] at hacc
          exact (subsetB_iff _ _).mp hacc.1 kv.1 (List.mem_map.mpr ⟨kv, hkv, rfl⟩)
        · rw [hpc] at hx
          exact (hpart.keys x hx).2
    · show KeysInv ((s'.w.fes.set t _).getD i {})
      rw [hoth _ i hit]; exact hI.keys i hi'
  · intro i
    by_cases hit : i = t
    · subst hit
      show ((s'.w.fes.set i _).getD i {}).variables = _ ∧ ((s'.w.fes.set i _).getD i {}).constraints = _
      rw [hself]; exact hI.same i
    · show ((s'.w.fes.set t _).getD i {}).variables = _ ∧ ((s'.w.fes.set t _).getD i {}).constraints = _
      rw [hoth _ i hit]; exact hI.same i
  · intro i hi
    have hit : i ≠ t := by omega
    show (s'.w.fes.set t _).getD i {} = _
    rw [hoth _ i hit]; exact hI.parts i hi

/-! ### `_reabsorb_solver`: the branch `len(parts) == len(old)` keeps the invariant -/

/-- `_reabsorb_solver(m)` takes the branch in which the parts REPLACE the children -/
def ReplaceTaken (E : Env) (m : Nat) (s : CSt) : Prop :=
  ∀ parts s1, childSplit E m s = (.ok parts, s1) →
    (parts.length == (s1.c.solversFor (s.child m).variables).length &&
      parts.all (fun p => !(s1.child p).variables.isEmpty)) = false

/-- **what is still open**: `ReabsorbKeeps` for the branch of `_reabsorb_solver` in which the parts of `split()` replace the
children (`_owned_solvers.add(p)`, `_store_child(p)` for every part) -/
def ReabsorbReplaceKeeps (R : Con → Prop) (RE : Exp → Prop) (E : Env) : Prop :=
  ∀ (U : List Con) (Us : List (List Con)) (s : CSt) (m : Nat), CInv R RE E U Us s → m < s.w.fes.length →
    (∀ v ∈ (s.child m).variables, ∃ t, alGet? s.c.solvers v = some t) →
    (∀ t ∈ s.c.solversFor (s.child m).variables, ∀ v ∈ (s.child t).variables, v ∈ (s.child m).variables) →
    (∀ a, Models (Us.getD m []) a ↔ ∀ t ∈ s.c.solversFor (s.child m).variables, Models (Us.getD t []) a) →
    (∀ t ∈ s.c.solversFor (s.child m).variables, Satisfiable (Us.getD t [])) → s.c.unsat = false →
    (s.child m).variables ≠ [] → alGet? s.c.solvers (minVar (s.child m).variables) ≠ some m → ReplaceTaken E m s →
    ∀ s', reabsorb E m s = (.ok (), s') → ∃ Us', CInv R RE E U Us' s'

/-- the body of the loop `for p in parts: self._solvers[min(p.variables)].update(p)` -/
def updBody (p : Nat) : CM Unit := do
  let s ← CM.get
  match alGet? s.c.solvers (minVar (s.child p).variables) with
  | some t => childUpdate t p
  | none => CM.throw .value

/-- **`_reabsorb_solver` re-establishes the invariant in the branch `len(parts) == len(old)`** (and trivially where it returns at
once): all of `ReabsorbKeeps` follows from its instance for the replacing branch -/
theorem reabsorbKeeps_of_replace (hrep : ReabsorbReplaceKeeps R RE E) : ReabsorbKeeps R RE E := by
  intro U Us s m h hm hkeys hsup hsem hsat hun s' hrun
  by_cases hv : (s.child m).variables = []
  · rw [reabsorb_noop s m (Or.inl hv)] at hrun
    have := (Prod.mk.inj hrun).2
    subst this; exact ⟨Us, h⟩
  obtain ⟨t, ht⟩ := hkeys _ (minVar_mem _ hv)
  by_cases htm : t = m
  · subst htm
    rw [reabsorb_noop s t (Or.inr ht)] at hrun
    have := (Prod.mk.inj hrun).2
    subst this; exact ⟨Us, h⟩
  obtain ⟨parts, s1, Us1, hsp, hc1, hk1, hre1, hlen1, hfr1, hparts1, hp1, _, _, _⟩ :=
    childSplit_spec H (childFoot H) h.kids h.reuse m hm (h.keysOk m hm) (h.exact m hm)
  by_cases hcond : (parts.length == (s1.c.solversFor (s.child m).variables).length &&
      parts.all (fun p => !(s1.child p).variables.isEmpty)) = true
  · -- the branch of `update`
    have hrun2 : reabsorb E m s = (parts.forM updBody) s1 := by
      unfold reabsorb
      simp only [bind, CM.bind, CM.get]
      have hve : (s.child m).variables.isEmpty = false := by
        cases hx : (s.child m).variables with
        | nil => exact absurd hx hv
        | cons _ _ => rfl
      have hbeq : (t == m) = false := by simpa using htm
      simp only [hve, Bool.false_eq_true, ↓reduceIte, ht, hbeq]
      simp only [CM.bind]
      rw [hsp]
      simp only [CM.get, hcond, ↓reduceIte]
      rfl
    simp only [Bool.and_eq_true, List.all_eq_true] at hcond
    have hinit : UpdInv R RE E Us1 s.w.fes.length s1 s1 :=
      ⟨rfl, hk1, hre1, rfl, fun i hi => by
          by_cases hi0 : i < s.w.fes.length
          · rw [(hfr1 i hi0).1]; exact h.keysOk i hi0
          · exact (hparts1 i (by omega) hi).keys,
        fun _ => ⟨rfl, rfl⟩, fun _ _ => rfl⟩
    obtain ⟨s2, h2, hI2⟩ := forM_ok (P := UpdInv R RE E Us1 s.w.fes.length s1) updBody parts s1 hinit (by
      intro p hp s'' hI
      obtain ⟨hp1', hp2'⟩ := hp1 p hp
      have hpart := hparts1 p hp1' hp2'
      have hne : (s1.child p).variables ≠ [] := by
        have := hcond.2 p hp
        simpa using this
      have hminp := minVar_mem _ hne
      have hminm : minVar (s1.child p).variables ∈ (s.child m).variables := by
        obtain ⟨c, hc, hvc⟩ := hpart.exact _ hminp
        exact (h.kids.each m hm).base.vars c (hpart.cons c hc) _ hvc
      obtain ⟨t', ht'⟩ := hkeys _ hminm
      obtain ⟨s3, h3, hI3⟩ := childUpdate_step H h m hm hsem hsat hlen1 hfr1 hI p hp1' hpart hne t' ht'
      refine ⟨s3, ?_, hI3⟩
      have hcs : s''.c = s.c := hI.comp.trans hc1
      simp only [updBody, bind, CM.bind, CM.get, (hI.same p).1, hcs, ht', h3])
    rw [hrun2, h2] at hrun
    have hs' := (Prod.mk.inj hrun).2
    subst hs'
    have hcs2 : s2.c = s.c := hI2.comp.trans hc1
    have hgoal : s2 = { c := s.c, w := s2.w } := by rw [← hcs2]
    rw [hgoal]
    refine ⟨Us1, h.of_world s2.w hI2.kids hI2.reuse hI2.keys ?_ (by rw [hI2.len]; exact hlen1) ?_ ?_⟩
    · intro j hj
      have hj1 : j < s1.w.fes.length := by rw [← hI2.len]; exact hj
      have hsame := hI2.same j
      by_cases hj0 : j < s.w.fes.length
      · refine exactVars_congr (fe := s.child j) ?_ ?_ (h.exact j hj0)
        · show (s2.child j).constraints = _
          rw [hsame.2, (hfr1 j hj0).1]
        · show (s2.child j).variables = _
          rw [hsame.1, (hfr1 j hj0).1]
      · exact exactVars_congr (fe := s1.child j) hsame.2 hsame.1 (hparts1 j (by omega) hj1).exact
    · intro j hj
      show (s2.child j).variables = _
      rw [(hI2.same j).1, (hfr1 j hj).1]
    · intro j hj a
      rw [(hfr1 j hj).2]
  · -- the parts replace the children
    refine hrep U Us s m h hm hkeys hsup hsem hsat hun hv (by rw [ht]; intro hx; exact htm (Option.some.inj hx)) ?_ s' hrun
    intro parts' s1' hsp'
    rw [hsp] at hsp'
    obtain ⟨hp', hs'⟩ := Prod.mk.inj hsp'
    have hp'' : parts = parts' := by injection hp'
    subst hp''; subst hs'
    simpa using hcond

end

end Claripy.Solver
