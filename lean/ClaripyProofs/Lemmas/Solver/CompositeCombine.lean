import ClaripyProofs.Lemmas.Solver.CompositeFoot
/-!
`combine` of the child class (ConstrainedFrontend.combine + ModelCacheMixin.combine), as `_solver_for_names` calls it when a
constraint connects several children: `CombineSpec` is a THEOREM (`combineSpec`).

* the constraint part: a blank copy to which the constraint lists of the children are added one after the other through the
  public `add` (`combine_go`, on top of `child_add_spec`); the combined child knows exactly the variables of the parts — a
  constraint the deduplication drops has the id, hence the variables (`Reg.varsId`), of one that is held (`IdsInv`);
* the cache part: every stored product `ModelCache.combine(m_0, …, m_n)` of one cached model per part is a model of the
  combined constraints: cached models are dicts (`PModel.Sorted`, part of `KeysInv`) over the part's own variables, the
  parts share no variable (`CInv.disjoint`), so the product agrees with `m_i` on the variables of part `i`
  (`PModel.get?_combine`, `combine_valid`).
-/
namespace Claripy.Solver

variable {R : Con → Prop} {RE : Exp → Prop} {E : Env}

/-! ### `itertools.product`, `ModelCache.combine` -/

theorem mem_productOf : ∀ (lists : List (List PModel)) (t : List PModel), t ∈ productOf lists →
    List.Forall₂ (fun m ms => m ∈ ms) t lists
  | [], t, h => by
    simp only [productOf, List.mem_singleton] at h
    subst h; exact .nil
  | l :: rest, t, h => by
    simp only [productOf, List.mem_flatMap, List.mem_map] at h
    obtain ⟨m, hm, t', ht', rfl⟩ := h
    exact .cons hm (mem_productOf rest t' ht')

theorem PModel.get?_combine_aux (ms : List PModel) (hs : ∀ m ∈ ms, m.Sorted) (acc : PModel) (v : Nat) :
    (ms.foldl (fun acc m => m.foldl (fun acc kv => PModel.insert acc kv.1 kv.2) acc) acc).get? v =
      ms.foldl (fun r m => (PModel.get? m v).orElse fun _ => r) (acc.get? v) := by
  induction ms generalizing acc with
  | nil => rfl
  | cons m rest ih =>
    simp only [List.foldl_cons]
    rw [ih (fun m' hm' => hs m' (List.mem_cons_of_mem _ hm')), PModel.get?_foldl_insert (hs m (by simp))]

theorem foldl_orElse_owner (v : Nat) (o : Option Nat) : ∀ (ms : List PModel) (r : Option Nat), (r = none ∨ r = o) →
    (∀ m ∈ ms, PModel.get? m v = none ∨ PModel.get? m v = o) → (r = o ∨ ∃ m ∈ ms, PModel.get? m v = o) →
    ms.foldl (fun r m => (PModel.get? m v).orElse fun _ => r) r = o
  | [], r, _, _, h3 => by
    rcases h3 with h | ⟨m, hm, _⟩
    · exact h
    · cases hm
  | m :: rest, r, h1, h2, h3 => by
    simp only [List.foldl_cons]
    have h2' : ∀ m' ∈ rest, PModel.get? m' v = none ∨ PModel.get? m' v = o := fun m' hm' => h2 m' (List.mem_cons_of_mem _ hm')
    cases hg : PModel.get? m v with
    | none =>
      simp only [Option.orElse_none]
      refine foldl_orElse_owner v o rest r h1 h2' ?_
      rcases h3 with h | ⟨m', hm', hmo⟩
      · exact Or.inl h
      · rcases List.mem_cons.mp hm' with rfl | hm'
        · rw [hg] at hmo
          rcases h1 with h | h
          · exact Or.inl (h.trans hmo)
          · exact Or.inl h
        · exact Or.inr ⟨m', hm', hmo⟩
    | some x =>
      simp only [Option.orElse_some]
      have hox : o = some x := by
        rcases h2 m (by simp) with h | h
        · rw [hg] at h; cases h
        · rw [hg] at h; exact h.symm
      exact foldl_orElse_owner v o rest (some x) (Or.inr hox.symm) h2' (Or.inl hox.symm)

/-- **a product of dicts over disjoint key sets gives every key the value of its owner** -/
theorem PModel.get?_combine (ms : List PModel) (hs : ∀ m ∈ ms, m.Sorted) (v : Nat) (o : Option Nat)
    (h1 : ∀ m ∈ ms, PModel.get? m v = none ∨ PModel.get? m v = o) (h2 : o = none ∨ ∃ m ∈ ms, PModel.get? m v = o) :
    (PModel.combine ms).get? v = o := by
  unfold PModel.combine
  rw [PModel.get?_combine_aux ms hs [] v]
  refine foldl_orElse_owner v o ms _ (Or.inl rfl) h1 ?_
  rcases h2 with h | h
  · exact Or.inl (by rw [h]; rfl)
  · exact Or.inr h

theorem PModel.mem_foldl_insert (m : PModel) : ∀ (acc : PModel) (kv : Var × Nat),
    kv ∈ m.foldl (fun acc kv => PModel.insert acc kv.1 kv.2) acc → kv ∈ acc ∨ ∃ kv' ∈ m, kv'.1 = kv.1 := by
  induction m with
  | nil => intro acc kv h; exact Or.inl h
  | cons hd tl ih =>
    intro acc kv h
    simp only [List.foldl_cons] at h
    rcases ih _ kv h with h | ⟨kv', hkv', he⟩
    · rcases PModel.mem_insert acc hd.1 hd.2 kv h with h | h
      · exact Or.inr ⟨hd, by simp, h.symm⟩
      · exact Or.inl h
    · exact Or.inr ⟨kv', List.mem_cons_of_mem _ hkv', he⟩

theorem PModel.mem_combine_aux (ms : List PModel) : ∀ (acc : PModel) (kv : Var × Nat),
    kv ∈ ms.foldl (fun acc m => m.foldl (fun acc kv => PModel.insert acc kv.1 kv.2) acc) acc →
      kv ∈ acc ∨ ∃ m ∈ ms, ∃ kv' ∈ m, kv'.1 = kv.1 := by
  induction ms with
  | nil => intro acc kv h; exact Or.inl h
  | cons m rest ih =>
    intro acc kv h
    simp only [List.foldl_cons] at h
    rcases ih _ kv h with h | ⟨m', hm', hx⟩
    · rcases PModel.mem_foldl_insert m acc kv h with h | hx
      · exact Or.inl h
      · exact Or.inr ⟨m, by simp, hx⟩
    · exact Or.inr ⟨m', List.mem_cons_of_mem _ hm', hx⟩

/-- the keys of a product are keys of its factors -/
theorem PModel.mem_combine (ms : List PModel) (kv : Var × Nat) (h : kv ∈ PModel.combine ms) :
    ∃ m ∈ ms, ∃ kv' ∈ m, kv'.1 = kv.1 := by
  rcases PModel.mem_combine_aux ms [] kv h with h | h
  · cases h
  · exact h

/-- a product is a dict -/
theorem PModel.sorted_combine (ms : List PModel) : (PModel.combine ms).Sorted := by
  unfold PModel.combine
  have : ∀ acc : PModel, acc.Sorted →
      (ms.foldl (fun acc m => m.foldl (fun acc kv => PModel.insert acc kv.1 kv.2) acc) acc).Sorted := by
    induction ms with
    | nil => intro acc h; exact h
    | cons m rest ih => intro acc h; exact ih _ (PModel.sorted_foldl_insert m acc h)
  exact this [] PModel.sorted_nil

/-! ### the products `combine` stores are models of the combined constraints -/

theorem forall₂_owner {P : PModel → Nat → Prop} : ∀ {t : List PModel} {L : List Nat}, List.Forall₂ P t L → ∀ m ∈ t, ∃ j ∈ L, P m j
  | _, _, .nil, m, hm => by cases hm
  | _, _, .cons (a := a) (b := b) hab hrest, m, hm => by
    rcases List.mem_cons.mp hm with rfl | hm
    · exact ⟨b, by simp, hab⟩
    · obtain ⟨j, hj, hp⟩ := forall₂_owner hrest m hm
      exact ⟨j, List.mem_cons_of_mem _ hj, hp⟩

theorem forall₂_comp {s : CSt} : ∀ {t : List PModel} {mss : List (List PModel)} {L : List Nat},
    List.Forall₂ (fun m ms => m ∈ ms) t mss → List.Forall₂ (fun ms o => ∀ m ∈ ms, m ∈ (s.child o).models) mss L →
    List.Forall₂ (fun m o => m ∈ (s.child o).models) t L
  | _, _, _, .nil, .nil => .nil
  | _, _, _, .cons h1 h2, .cons g1 g2 => .cons (g1 _ h1) (forall₂_comp h2 g2)

/-- in a selection of one element per index of a duplicate-free list: the element of index `j`, and every other element belongs to
another index -/
theorem forall₂_pick {P : PModel → Nat → Prop} : ∀ {t : List PModel} {L : List Nat}, List.Forall₂ P t L → L.Nodup → ∀ j ∈ L,
    ∃ m, P m j ∧ m ∈ t ∧ ∀ m' ∈ t, m' = m ∨ ∃ j' ∈ L, j' ≠ j ∧ P m' j'
  | _, _, .nil, _, j, hj => by cases hj
  | _, _, .cons (a := a) (b := b) (l₁ := t') (l₂ := L') hab hrest, hnd, j, hj => by
    obtain ⟨hbL, hndL⟩ := List.nodup_cons.mp hnd
    rcases List.mem_cons.mp hj with rfl | hj
    · refine ⟨a, hab, by simp, fun m' hm' => ?_⟩
      rcases List.mem_cons.mp hm' with rfl | hm'
      · exact Or.inl rfl
      · obtain ⟨j', hj', hp⟩ := forall₂_owner hrest m' hm'
        exact Or.inr ⟨j', List.mem_cons_of_mem _ hj', fun e => hbL (e ▸ hj'), hp⟩
    · obtain ⟨m, hpm, hmt, hall⟩ := forall₂_pick hrest hndL j hj
      refine ⟨m, hpm, List.mem_cons_of_mem _ hmt, fun m' hm' => ?_⟩
      rcases List.mem_cons.mp hm' with rfl | hm'
      · exact Or.inr ⟨b, by simp, fun e => hbL (e ▸ hj), hab⟩
      · rcases hall m' hm' with h | ⟨j', hj', hne, hp⟩
        · exact Or.inl h
        · exact Or.inr ⟨j', List.mem_cons_of_mem _ hj', hne, hp⟩

/-- **the product of one cached model per child is a model of every child's constraints**: on the variables of child `j` it is
the model taken from child `j` -/
theorem combine_valid (hR : Reg R E) {U : List Con} {Us : List (List Con)} {s : CSt} (h : CInv R RE E U Us s) (L : List Nat)
    (hnd : L.Nodup) (hin : ∀ j ∈ L, j ∈ s.c.solverList) (t : List PModel)
    (ht : List.Forall₂ (fun m j => m ∈ (s.child j).models) t L) :
    ∀ j ∈ L, Models (s.child j).constraints ((PModel.combine t).complete E.dflt) := by
  have hlt : ∀ j ∈ L, j < s.w.fes.length := by
    intro j hj
    obtain ⟨v, hv⟩ := (mem_solverList' _ h.nodup j).mp (hin j hj)
    exact (h.map v j hv).1
  have hsorted : ∀ m ∈ t, m.Sorted := by
    intro m hm
    obtain ⟨j, hj, hmj⟩ := forall₂_owner ht m hm
    exact (h.keysOk j (hlt j hj) m hmj).2
  intro j hj
  obtain ⟨m, hmj, hmt, hall⟩ := forall₂_pick ht hnd j hj
  have hval : Models (s.child j).constraints (m.complete E.dflt) :=
    (h.child_models (hlt j hj) _).mpr ((h.kids.each j (hlt j hj)).mc.valid m hmj)
  refine models_of_agree ((h.kids.each j (hlt j hj)).base.cons_wf hR) (fun v hv => ?_) hval
  obtain ⟨c, hc, hvc⟩ := mem_varsOf_iff.mp hv
  have hvj : v ∈ (s.child j).variables := h.child_vars (hlt j hj) c hc v hvc
  simp only [PModel.complete_apply]
  rw [PModel.get?_combine t hsorted v (PModel.get? m v) ?_ ?_]
  · intro m' hm'
    rcases hall m' hm' with rfl | ⟨j', hj', hne, hmj'⟩
    · exact Or.inr rfl
    · left
      cases hg : PModel.get? m' v with
      | none => rfl
      | some x =>
        have hk := (h.keysOk j' (hlt j' hj') m' hmj').1 (v, x) (PModel.mem_of_get? hg)
        exact absurd hvj (h.disjoint (hin j' hj') (hin j hj) hne v hk)
  · exact Or.inr ⟨m, hmt, rfl⟩

/-! ### the constraint part: adding the parts' constraint lists to a blank copy -/

/-- the ids the deduplication has recorded are ids of held constraints (true of a blank copy, kept by `add`) -/
def IdsInv (fe : Frontend) : Prop := ∀ i, (i ∈ fe.hashes ∨ i ∈ fe.woAnnot) → ∃ c ∈ fe.constraints, c.id = i

/-- changing the caches of one child (fields of the caching mixins only) -/
theorem tinvS_set_cache {Us : List (List Con)} {w : World} (hw : TInvS R RE E Us w) {k : Nat} (hk : k < w.fes.length)
    (fe' : Frontend) (hcons : fe'.constraints = (w.fes.getD k {}).constraints) (htoadd : fe'.toAdd = (w.fes.getD k {}).toAdd)
    (hsol : fe'.solver = (w.fes.getD k {}).solver) (htrack : fe'.track = (w.fes.getD k {}).track)
    (hhash : fe'.hashes = (w.fes.getD k {}).hashes) (hwo : fe'.woAnnot = (w.fes.getD k {}).woAnnot)
    (hvar : fe'.variables = (w.fes.getD k {}).variables) (hfin : fe'.finalized = (w.fes.getD k {}).finalized)
    (hmc : MCInv RE E (Us.getD k []) fe') (hsc : SCInv (Us.getD k []) fe') :
    TInvS R RE E Us { w with fes := w.fes.set k fe' } := by
  have hsi : SI R RE E (fun _ => True) (Us.getD k []) { stOfI w k with fe := fe' } :=
    (hw.each k hk).set_fe fe' hcons htoadd hsol htrack hhash hwo hvar hfin hmc hsc
  have hws : WStep (stOfI w k) { stOfI w k with fe := fe' } := WStep.of_fe rfl rfl hsol hfin
  have := tinvS_step hw hk hws hsi
  rw [set_getD_self Us k [] (by rw [hw.len]; exact hk)] at this
  exact this

section
variable (H : SolverHyps R RE E)
include H

/-- `child.add(cs)` in the world of children, with what happens to the ids the deduplication records -/
theorem child_add_spec_ids (w : World) (Us : List (List Con)) (hw : TInvS R RE E Us w) (j : Nat) (hj : j < w.fes.length)
    (cs : List Con) (hcs : ∀ c ∈ cs, R c) :
    ∃ added w', runOn w j (publicAdd (childOps E) cs) = (.ok added, w') ∧
      TInvS R RE E (Us.set j (Us.getD j [] ++ cs)) w' ∧ w'.fes.length = w.fes.length ∧
      (∀ i, i ≠ j → w'.fes.getD i {} = w.fes.getD i {}) ∧
      (w'.fes.getD j {}).constraints = (w.fes.getD j {}).constraints ++ added ∧ (∀ c ∈ added, c ∈ cs) ∧
      (∀ v, v ∈ (w'.fes.getD j {}).variables ↔ v ∈ (w.fes.getD j {}).variables ∨ ∃ c ∈ added, v ∈ c.vars) ∧
      (w'.fes.getD j {}) = (publicAdd (childOps E) cs true (stOfI w j)).2.fe ∧ w'.reuse = w.reuse ∧
      (∀ c ∈ cs, c ∈ added ∨ (c.id ∈ (w.fes.getD j {}).hashes ∨ c.id ∈ (w.fes.getD j {}).woAnnot) ∨ ∃ c' ∈ added, c'.id = c.id) ∧
      (∀ i, (i ∈ (w'.fes.getD j {}).hashes ∨ i ∈ (w'.fes.getD j {}).woAnnot) →
        (i ∈ (w.fes.getD j {}).hashes ∨ i ∈ (w.fes.getD j {}).woAnnot) ∨ ∃ c ∈ added, c.id = i) := by
  have h0 := hw.each j hj
  have hother : ∀ i, i ≠ j → (runOn w j (publicAdd (childOps E) cs)).2.fes.getD i {} = w.fes.getD i {} :=
    fun i hi => runOn_getD_ne w j _ i hi
  have hself := runOn_getD_self w j (publicAdd (childOps E) cs) hj
  have hlen := runOn_fes_length w j (publicAdd (childOps E) cs)
  rw [runOn_eq] at hother hself hlen ⊢
  by_cases hemp : cs.isEmpty = true
  · have hnil : cs = [] := by simpa using hemp
    subst hnil
    have hrun : publicAdd (childOps E) [] true (stOfI w j) = (.ok [], stOfI w j) := rfl
    rw [hrun] at hother hself hlen ⊢
    obtain ⟨h1, hq⟩ := h0.mark.unmark
    have := tinvS_step hw hj hq (U' := Us.getD j [] ++ []) (by simpa using h1)
    refine ⟨[], _, rfl, this, hlen, hother, ?_, by simp, ?_, hself, rfl, by simp, ?_⟩
    · rw [hself]; simp [stOfI]
    · intro v; rw [hself]; simp [stOfI]
    · intro i hi; rw [hself] at hi; exact Or.inl hi
  · have hrun0 : publicAdd (childOps E) cs true (stOfI w j) = (cL4 E (chStage E 3)).add cs true (stOfI w j) := by
      simp [publicAdd, hemp, childOps_eq, chStage_eq]
    obtain ⟨new, s1, hrun, hrel, hmc1, hsc1, _⟩ := cL4_add_rel H (chStage E 3) (Us.getD j []) (stOfI w j) cs true
      h0.mark hcs (fun hf => by cases hf)
    have hsi := si_of_added H.reg h0.mark hcs (fun _ => rfl) hrel hmc1 hsc1
    rw [hrun0, hrun] at hother hself hlen ⊢
    obtain ⟨h1, hq⟩ := hsi.unmark
    refine ⟨new, _, rfl, tinvS_step hw hj hq h1, hlen, hother, ?_, hrel.sub, ?_, hself, rfl, hrel.cover, ?_⟩
    · rw [hself, hrel.cons]; rfl
    · intro v; rw [hself]; exact hrel.vars v
    · intro i hi; rw [hself] at hi; exact hrel.ids i hi

variable (F : ChildFoot R RE E)
include F

/-- `combined.add(self.constraints); for o in others: combined.add(o.constraints)` on the blank copy `k` -/
theorem combine_go (k : Nat) : ∀ (os : List Nat) (w : World) (Us : List (List Con)), TInvS R RE E Us w → k < w.fes.length →
    (∀ o ∈ os, o < w.fes.length ∧ o ≠ k) → KeysInv (w.fes.getD k {}) → ExactVars (w.fes.getD k {}) → IdsInv (w.fes.getD k {}) →
    ∃ w' Us', childCombineWith.go E k os w = (.ok (), w') ∧ TInvS R RE E Us' w' ∧ w'.reuse = w.reuse ∧
      w'.fes.length = w.fes.length ∧ (∀ i, i ≠ k → w'.fes.getD i {} = w.fes.getD i {} ∧ Us'.getD i [] = Us.getD i []) ∧
      KeysInv (w'.fes.getD k {}) ∧ ExactVars (w'.fes.getD k {}) ∧ IdsInv (w'.fes.getD k {}) ∧
      (∀ a, Models (Us'.getD k []) a ↔ Models (Us.getD k []) a ∧ ∀ o ∈ os, Models (w.fes.getD o {}).constraints a) ∧
      (∀ v, v ∈ (w'.fes.getD k {}).variables ↔
        v ∈ (w.fes.getD k {}).variables ∨ ∃ o ∈ os, ∃ c ∈ (w.fes.getD o {}).constraints, v ∈ c.vars) := by
  intro os
  induction os with
  | nil =>
    intro w Us hw hk _ hkeys hex hids
    refine ⟨w, Us, by simp [childCombineWith.go], hw, rfl, rfl, fun i _ => ⟨rfl, rfl⟩, hkeys, hex, hids, fun a => by simp, fun v => by simp⟩
  | cons o rest ih =>
    intro w Us hw hk hos hkeys hex hids
    obtain ⟨hol, hok⟩ := hos o (by simp)
    have hcsR : ∀ c ∈ (w.fes.getD o {}).constraints, R c := (hw.each o hol).base.dinv.consR
    obtain ⟨added, w1, hrun, hk1, hlen1, hoth1, hcons1, hadd1, hvars1, hself1, hre1, hcover1, hids1⟩ :=
      child_add_spec_ids H w Us hw k hk (w.fes.getD o {}).constraints hcsR
    have hkU : k < Us.length := by rw [hw.len]; exact hk
    -- what the step keeps for `k`
    have hkeys1 : KeysInv (w1.fes.getD k {}) := by
      rw [hself1]; exact F.add _ _ _ (stOfI w k) hcsR (hw.each k hk) hkeys
    have hex1 : ExactVars (w1.fes.getD k {}) := by
      intro v hv
      rcases (hvars1 v).mp hv with hv | ⟨c, hc, hvc⟩
      · obtain ⟨c, hc, hvc⟩ := hex v hv
        exact ⟨c, by rw [hcons1]; exact List.mem_append_left _ hc, hvc⟩
      · exact ⟨c, by rw [hcons1]; exact List.mem_append_right _ hc, hvc⟩
    have hidsInv1 : IdsInv (w1.fes.getD k {}) := by
      intro i hi
      rcases hids1 i hi with hi | ⟨c, hc, hci⟩
      · obtain ⟨c, hc, hci⟩ := hids i hi
        exact ⟨c, by rw [hcons1]; exact List.mem_append_left _ hc, hci⟩
      · exact ⟨c, by rw [hcons1]; exact List.mem_append_right _ hc, hci⟩
    -- every variable of the part arrives
    have hkR : ∀ c ∈ (w.fes.getD k {}).constraints, R c := (hw.each k hk).base.dinv.consR
    have harrive : ∀ c ∈ (w.fes.getD o {}).constraints, ∀ v ∈ c.vars, v ∈ (w1.fes.getD k {}).variables := by
      intro c hc v hv
      rcases hcover1 c hc with hin | hseen | ⟨c', hc', hid⟩
      · exact (hvars1 v).mpr (Or.inr ⟨c, hin, hv⟩)
      · obtain ⟨c'', hc'', hid⟩ := hids c.id hseen
        have hveq := H.reg.varsId c'' c (hkR c'' hc'') (hcsR c hc) hid
        exact (hvars1 v).mpr (Or.inl ((hw.each k hk).base.vars c'' hc'' v (by rw [hveq]; exact hv)))
      · have hveq := H.reg.varsId c' c (hcsR c' (hadd1 c' hc')) (hcsR c hc) hid
        exact (hvars1 v).mpr (Or.inr ⟨c', hc', by rw [hveq]; exact hv⟩)
    obtain ⟨w2, Us2, hgo, hk2, hre2, hlen2, hfr2, hkeys2, hex2, hids2, hsem2, hvars2⟩ :=
      ih w1 (Us.set k (Us.getD k [] ++ (w.fes.getD o {}).constraints)) hk1 (by rw [hlen1]; exact hk)
        (fun o' ho' => by rw [hlen1]; exact hos o' (List.mem_cons_of_mem _ ho')) hkeys1 hex1 hidsInv1
    have hrest : ∀ o' ∈ rest, w1.fes.getD o' {} = w.fes.getD o' {} :=
      fun o' ho' => hoth1 o' (hos o' (List.mem_cons_of_mem _ ho')).2
    refine ⟨w2, Us2, ?_, hk2, hre2.trans hre1, hlen2.trans hlen1, ?_, hkeys2, hex2, hids2, ?_, ?_⟩
    · rw [childCombineWith.go, hrun]; exact hgo
    · intro i hik
      refine ⟨((hfr2 i hik).1).trans (hoth1 i hik), ((hfr2 i hik).2).trans ?_⟩
      exact getD_set_ne _ _ _ _ _ (Ne.symm hik)
    · intro a
      rw [hsem2 a, getD_set_self _ _ _ _ hkU, models_append]
      constructor
      · rintro ⟨⟨h1, h2⟩, h3⟩
        refine ⟨h1, fun o' ho' => ?_⟩
        rcases List.mem_cons.mp ho' with rfl | ho'
        · exact h2
        · rw [← hrest o' ho']; exact h3 o' ho'
      · rintro ⟨h1, h2⟩
        exact ⟨⟨h1, h2 o (by simp)⟩, fun o' ho' => by rw [hrest o' ho']; exact h2 o' (List.mem_cons_of_mem _ ho')⟩
    · intro v
      rw [hvars2 v]
      constructor
      · rintro (hv | ⟨o', ho', c, hc, hvc⟩)
        · rcases (hvars1 v).mp hv with hv | ⟨c, hc, hvc⟩
          · exact Or.inl hv
          · exact Or.inr ⟨o, by simp, c, hadd1 c hc, hvc⟩
        · rw [hrest o' ho'] at hc
          exact Or.inr ⟨o', List.mem_cons_of_mem _ ho', c, hc, hvc⟩
      · rintro (hv | ⟨o', ho', c, hc, hvc⟩)
        · exact Or.inl ((hvars1 v).mpr (Or.inl hv))
        · rcases List.mem_cons.mp ho' with rfl | ho'
          · exact Or.inl (harrive c hc v hvc)
          · exact Or.inr ⟨o', ho', c, by rw [hrest o' ho']; exact hc, hvc⟩

omit H F in
/-- more cached models for the merged child (valid, over its variables, dicts) -/
theorem Merged.add_models {Us Us1 : List (List Con)} {s s1 : CSt} {names : List Var} {m : Nat}
    (hm : Merged R RE E Us Us1 s s1 names m) (hnew : s.w.fes.length ≤ m) (ms : List PModel)
    (hv : ∀ x ∈ ms, Models (Us1.getD m []) (x.complete E.dflt))
    (hk : ∀ x ∈ ms, (∀ kv ∈ x, kv.1 ∈ (s1.child m).variables) ∧ x.Sorted) :
    Merged R RE E Us Us1 s
      { s1 with w := { s1.w with fes := s1.w.fes.set m { s1.child m with models := ms.foldl listInsert (s1.child m).models } } }
      names m := by
  have hself : (s1.w.fes.set m { s1.child m with models := ms.foldl listInsert (s1.child m).models }).getD m {} =
      { s1.child m with models := ms.foldl listInsert (s1.child m).models } := getD_set_self _ _ _ _ hm.lt
  have hoth : ∀ i, i ≠ m → (s1.w.fes.set m { s1.child m with models := ms.foldl listInsert (s1.child m).models }).getD i {} =
      s1.child i := fun i hi => getD_set_ne _ _ _ _ _ (Ne.symm hi)
  have hmem : ∀ x, x ∈ ms.foldl listInsert (s1.child m).models ↔ x ∈ (s1.child m).models ∨ x ∈ ms := by
    intro x; rw [mem_foldl_listInsert]
  have hkids : TInvS R RE E Us1 { s1.w with fes := s1.w.fes.set m { s1.child m with models := ms.foldl listInsert (s1.child m).models } } := by
    refine tinvS_set_cache hm.kids hm.lt _ rfl rfl rfl rfl rfl rfl rfl rfl ?_ (hm.kids.each m hm.lt).sc
    refine (hm.kids.each m hm.lt).mc.more_models _ (fun x hx => (hmem x).mpr (Or.inl hx)) ?_
    intro x hx
    rcases (hmem x).mp hx with hx | hx
    · exact (hm.kids.each m hm.lt).mc.valid x hx
    · exact hv x hx
  refine ⟨hm.comp, hkids, hm.reuse, ?_, ?_, ?_, ?_, ?_, ?_, ?_, hm.sem, hm.old, ?_⟩
  · intro j hj
    have hj' : j < s1.w.fes.length := by simpa using hj
    show KeysInv ((s1.w.fes.set m _).getD j {})
    by_cases hjm : j = m
    · subst hjm
      rw [hself]
      intro x hx
      rcases (hmem x).mp hx with hx | hx
      · exact hm.keysOk j hj' x hx
      · exact hk x hx
    · rw [hoth j hjm]; exact hm.keysOk j hj'
  · intro j hj
    have hj' : j < s1.w.fes.length := by simpa using hj
    show ExactVars ((s1.w.fes.set m _).getD j {})
    by_cases hjm : j = m
    · subst hjm; rw [hself]; exact exactVars_congr rfl rfl (hm.exact j hj')
    · rw [hoth j hjm]; exact hm.exact j hj'
  · have := hm.len; simpa using this
  · intro i hi
    have him : i ≠ m := by omega
    refine ⟨?_, (hm.frame i hi).2⟩
    show (s1.w.fes.set m _).getD i {} = _
    rw [hoth i him]; exact (hm.frame i hi).1
  · have := hm.lt; simpa using this
  · intro v hv'
    have : v ∈ ((s1.w.fes.set m { s1.child m with models := ms.foldl listInsert (s1.child m).models }).getD m {}).variables := hv'
    rw [hself] at this
    exact hm.sub v this
  · intro t ht v hv'
    show v ∈ ((s1.w.fes.set m { s1.child m with models := ms.foldl listInsert (s1.child m).models }).getD m {}).variables
    rw [hself]
    exact hm.sup t ht v hv'
  · intro hnil
    show ((s1.w.fes.set m { s1.child m with models := ms.foldl listInsert (s1.child m).models }).getD m {}).hashes = [] ∧
      ((s1.w.fes.set m { s1.child m with models := ms.foldl listInsert (s1.child m).models }).getD m {}).woAnnot = []
    rw [hself]
    exact hm.fresh hnil

/-- `self.combine(others)` with the model sets in the order `itertools.product` walks them -/
theorem childCombineWith_spec {U : List Con} {Us : List (List Con)} {s : CSt} (h : CInv R RE E U Us s) (names : List Var)
    (j : Nat) (rest : List Nat) (hnd : (j :: rest).Nodup) (hmem : ∀ t, t ∈ j :: rest ↔ t ∈ s.c.solversFor names)
    (selfModels : List PModel) (otherModels : List (List PModel))
    (hsm : ∀ m ∈ selfModels, m ∈ (s.child j).models)
    (hom : List.Forall₂ (fun ms o => ∀ m ∈ ms, m ∈ (s.child o).models) otherModels rest) :
    ∃ Us1 s1, childCombineWith E j rest selfModels otherModels s = (.ok s.w.fes.length, s1) ∧
      Merged R RE E Us Us1 s s1 names s.w.fes.length := by
  -- the parts
  have hsolIn : ∀ t ∈ j :: rest, t ∈ s.c.solverList := by
    intro t ht
    obtain ⟨n, _, hn⟩ := (mem_solversFor _ _ _).mp ((hmem t).mp ht)
    exact (mem_solverList' _ h.nodup t).mpr ⟨n, hn⟩
  have hlt : ∀ t ∈ j :: rest, t < s.w.fes.length := by
    intro t ht
    obtain ⟨v, hv⟩ := (mem_solverList' _ h.nodup t).mp (hsolIn t ht)
    exact (h.map v t hv).1
  -- the blank copy
  have hk0 := child_blank_spec s.w Us h.kids h.reuse (s.child j).track
  have hold : ∀ i, i < s.w.fes.length →
      (s.w.fes ++ [({ track := (s.child j).track } : Frontend)]).getD i {} = s.child i :=
    fun i hi => getD_append_left' _ _ _ _ hi
  have hnew : (s.w.fes ++ [({ track := (s.child j).track } : Frontend)]).getD s.w.fes.length {} = { track := (s.child j).track } :=
    getD_append_last _ _ _
  obtain ⟨w1, Us1, hgo, hk1, hre1, hlen1, hfr1, hkeys1, hex1, _, hsem1, hvars1⟩ :=
    combine_go H F s.w.fes.length (j :: rest) { s.w with fes := s.w.fes ++ [({ track := (s.child j).track } : Frontend)] }
      (Us ++ [[]]) hk0 (by simp)
      (fun o ho => ⟨by simp only [List.length_append, List.length_singleton]; exact Nat.lt_succ_of_lt (hlt o ho),
        Nat.ne_of_lt (hlt o ho)⟩)
      (by show KeysInv ((s.w.fes ++ [_]).getD s.w.fes.length {}); rw [hnew]; intro m hm; cases hm)
      (by show ExactVars ((s.w.fes ++ [_]).getD s.w.fes.length {}); rw [hnew]; intro v hv; cases hv)
      (by
        show IdsInv ((s.w.fes ++ [_]).getD s.w.fes.length {})
        rw [hnew]; intro i hi; rcases hi with hi | hi <;> cases hi)
  have hlen1' : w1.fes.length = s.w.fes.length + 1 := by rw [hlen1]; simp
  have hpart : ∀ o ∈ j :: rest, (s.w.fes ++ [({ track := (s.child j).track } : Frontend)]).getD o {} = s.child o :=
    fun o ho => hold o (hlt o ho)
  have hvarsK : ∀ v, v ∈ (w1.fes.getD s.w.fes.length {}).variables ↔
      ∃ o ∈ j :: rest, ∃ c ∈ (s.child o).constraints, v ∈ c.vars := by
    intro v
    have := hvars1 v
    simp only [] at this
    rw [this]
    constructor
    · rintro (hv | ⟨o, ho, c, hc, hvc⟩)
      · have hv' : v ∈ ((s.w.fes ++ [({ track := (s.child j).track } : Frontend)]).getD s.w.fes.length {}).variables := hv
        rw [hnew] at hv'; cases hv'
      · exact ⟨o, ho, c, by rw [← hpart o ho]; exact hc, hvc⟩
    · rintro ⟨o, ho, c, hc, hvc⟩
      exact Or.inr ⟨o, ho, c, by rw [hpart o ho]; exact hc, hvc⟩
  have hsemK : ∀ a, Models (Us1.getD s.w.fes.length []) a ↔ ∀ t ∈ s.c.solversFor names, Models (Us.getD t []) a := by
    intro a
    rw [hsem1 a]
    have h0 : (Us ++ [[]]).getD s.w.fes.length [] = ([] : List Con) := by rw [← h.kids.len]; exact getD_append_last _ _ _
    rw [h0]
    constructor
    · rintro ⟨_, hall⟩ t ht
      have htm := (hmem t).mpr ht
      have := hall t htm
      rw [hpart t htm] at this
      exact (h.child_models (hlt t htm) a).mp this
    · intro hall
      refine ⟨by simp [Models], fun o ho => ?_⟩
      rw [hpart o ho]
      exact (h.child_models (hlt o ho) a).mpr (hall o ((hmem o).mp ho))
  -- the merged child before the cache part
  have hbase : Merged R RE E Us Us1 s { s with w := w1 } names s.w.fes.length := by
    refine ⟨rfl, hk1, by rw [hre1]; exact h.reuse, ?_, ?_, by rw [hlen1']; exact Nat.le_succ _, ?_, by rw [hlen1']; exact Nat.lt_succ_self _,
      ?_, ?_, hsemK, fun hlt' => absurd hlt' (Nat.lt_irrefl _), ?_⟩
    · intro i hi
      have hi' : i < s.w.fes.length + 1 := by rw [← hlen1']; exact hi
      show KeysInv (w1.fes.getD i {})
      by_cases hik : i = s.w.fes.length
      · subst hik; exact hkeys1
      · rw [(hfr1 i hik).1]
        show KeysInv ((s.w.fes ++ [_]).getD i {})
        rw [hold i (by omega)]; exact h.keysOk i (by omega)
    · intro i hi
      have hi' : i < s.w.fes.length + 1 := by rw [← hlen1']; exact hi
      show ExactVars (w1.fes.getD i {})
      by_cases hik : i = s.w.fes.length
      · subst hik; exact hex1
      · rw [(hfr1 i hik).1]
        show ExactVars ((s.w.fes ++ [_]).getD i {})
        rw [hold i (by omega)]; exact h.exact i (by omega)
    · intro i hi
      have hik : i ≠ s.w.fes.length := Nat.ne_of_lt hi
      refine ⟨?_, ?_⟩
      · show w1.fes.getD i {} = _
        rw [(hfr1 i hik).1]; exact hold i hi
      · rw [(hfr1 i hik).2]; exact getD_append_left' _ _ _ _ (by rw [h.kids.len]; exact hi)
    · intro v hv
      obtain ⟨o, ho, c, hc, hvc⟩ := (hvarsK v).mp hv
      exact ⟨o, (hmem o).mp ho, h.child_vars (hlt o ho) c hc v hvc⟩
    · intro t ht v hv
      have htm := (hmem t).mpr ht
      obtain ⟨c, hc, hvc⟩ := h.exact t (hlt t htm) v hv
      exact (hvarsK v).mpr ⟨t, htm, c, hc, hvc⟩
    · intro hnil
      have := (hmem j).mp (by simp)
      rw [hnil] at this; cases this
  -- the run
  have hrun : childCombineWith E j rest selfModels otherModels s =
      (if (rest.map s.child).any (·.models.isEmpty) || (s.child j).models.isEmpty then (.ok s.w.fes.length, { s with w := w1 })
       else
        if ((s.child j).variables.length + ((rest.map s.child).map (·.variables.length)).sum !=
            ((rest.map s.child).foldl (fun acc o => listUnion acc o.variables) (s.child j).variables).length) = true then
          (.ok s.w.fes.length, { s with w := w1 })
        else
          (.ok s.w.fes.length,
            { s with w := { w1 with fes := w1.fes.set s.w.fes.length { (w1.fes.getD s.w.fes.length {}) with
                models := (((productOf (selfModels :: otherModels)).take (s.child j).models.length).map PModel.combine).foldl
                  listInsert (w1.fes.getD s.w.fes.length {}).models } } })) := by
    unfold childCombineWith
    simp only [childBlank_eq]
    rw [hgo]
  rw [hrun]
  split
  · exact ⟨Us1, _, rfl, hbase⟩
  · split
    · exact ⟨Us1, _, rfl, hbase⟩
    · refine ⟨Us1, _, rfl, ?_⟩
      have hprod : ∀ x ∈ ((productOf (selfModels :: otherModels)).take (s.child j).models.length).map PModel.combine,
          ∃ t, x = PModel.combine t ∧ List.Forall₂ (fun m o => m ∈ (s.child o).models) t (j :: rest) := by
        intro x hx
        obtain ⟨t, ht, rfl⟩ := List.mem_map.mp hx
        have ht' := mem_productOf _ t (List.mem_of_mem_take ht)
        refine ⟨t, rfl, ?_⟩
        cases ht' with
        | cons h1 h2 => exact .cons (hsm _ h1) (forall₂_comp h2 hom)
      exact hbase.add_models (Nat.le_refl _) _
        (fun x hx => by
          obtain ⟨t, rfl, ht⟩ := hprod x hx
          have hall := combine_valid H.reg h (j :: rest) hnd hsolIn t ht
          refine (hsemK _).mpr fun o ho => ?_
          have hom' := (hmem o).mpr ho
          exact (h.child_models (hlt o hom') _).mp (hall o hom'))
        (fun x hx => by
          obtain ⟨t, rfl, ht⟩ := hprod x hx
          refine ⟨fun kv hkv => ?_, PModel.sorted_combine t⟩
          obtain ⟨m, hmt, kv', hkv', hke⟩ := PModel.mem_combine t kv hkv
          obtain ⟨o, ho, hmo⟩ := forall₂_owner ht m hmt
          have hvo := (h.keysOk o (hlt o ho) m hmo).1 kv' hkv'
          rw [hke] at hvo
          exact hbase.sup o ((hmem o).mp ho) kv.1 hvo)

omit H F in
/-- the model sets of the parts in the order the oracle gives: the same sets; only the event counter moves -/
theorem orderModelSets_run (E : Env) : ∀ (l : List Nat) (s : CSt), ∃ mss t,
    orderModelSets E l s = (.ok mss, { s with w := { s.w with tick := t } }) ∧
      List.Forall₂ (fun ms o => ∀ m ∈ ms, m ∈ (s.child o).models) mss l
  | [], s => ⟨[], s.w.tick, rfl, .nil⟩
  | o :: rest, s => by
    obtain ⟨mss, t, hrun, hall⟩ := orderModelSets_run E rest { s with w := { s.w with tick := s.w.tick + 1 } }
    refine ⟨reorderBy (fun m k => k == modelKey m) (E.pick ((s.child o).models.map modelKey) ((s.child o).models.map modelKey).length s.w.tick)
      (s.child o).models :: mss, t, ?_, .cons (fun m hm => (mem_reorderBy _ _ _ m).mp hm) hall⟩
    simp only [orderModelSets, bind, CM.bind, CM.get, orderModels, orderOracle_run, hrun, pure, CM.pure]

/-- **`CombineSpec` holds**: what `_solver_for_names` gets from `combine` is the merged child the bookkeeping expects -/
theorem combineSpec : CombineSpec R RE E := by
  intro U Us s h names j rest _ hnd hmem
  obtain ⟨mss, t, hrun, hall⟩ := orderModelSets_run E (j :: rest) s
  cases hall with
  | cons hj hrest =>
    rename_i ms0 mss0
    obtain ⟨Us1, s1, hr, hm⟩ := childCombineWith_spec H F (h.set_tick t) names j rest hnd hmem ms0 mss0 hj hrest
    refine ⟨Us1, s1, ?_, hm.of_tick t⟩
    simp only [childCombine, bind, CM.bind, hrun, List.headD_cons, List.drop_succ_cons, List.drop_zero]
    exact hr

end

end Claripy.Solver
