import ClaripyProofs.Lemmas.Solver.SolverInv
/-!
ModelCacheMixin, part 2: every operation of the mixin keeps the invariant `SI` (which contains `MCInv`) and answers as
the specification demands, PROVIDED the rest of the MRO below it (`sup`) does — the assumptions on `sup` have the shape of
the per-call theorems of the cacheless class (`SatSpec`, `BatchSpec`, `OptSpec`, `SolSpec`, …).
-/
namespace Claripy.Solver

variable {R : Con → Prop} {RE : Exp → Prop} {E : Env} {G : St → Prop} {U : List Con}

/-! ### lists -/

theorem length_listInsert_le {α : Type} [BEq α] (l : List α) (x : α) : (listInsert l x).length ≤ l.length + 1 := by
  unfold listInsert; split <;> simp

theorem length_listUnion_le {α : Type} [BEq α] (l r : List α) : (listUnion l r).length ≤ l.length + r.length := by
  unfold listUnion
  induction r generalizing l with
  | nil => simp
  | cons x xs ih =>
    simp only [List.foldl_cons, List.length_cons]
    have := ih (listInsert l x)
    have := length_listInsert_le l x
    omega

theorem length_listUnion_disjoint {α : Type} [BEq α] [LawfulBEq α] (l r : List α) (hd : ∀ x ∈ r, x ∉ l) (hn : r.Nodup) :
    (listUnion l r).length = l.length + r.length := by
  unfold listUnion
  induction r generalizing l with
  | nil => simp
  | cons x xs ih =>
    rw [List.nodup_cons] at hn
    have hx : x ∉ l := hd x (by simp)
    have hins : listInsert l x = l ++ [x] := by
      unfold listInsert
      simp [hx]
    simp only [List.foldl_cons, hins, List.length_cons]
    rw [ih (l ++ [x]) ?_ hn.2]
    · simp; omega
    · intro y hy hyl
      rcases List.mem_append.mp hyl with h | h
      · exact hd y (List.mem_cons_of_mem _ hy) h
      · simp at h; subst h; exact hn.1 hy

theorem map_eq_at {α β : Type} {f g : α → β} {l : List α} (h : l.map f = l.map g) {x : α} (hx : x ∈ l) : f x = g x := by
  induction l with
  | nil => simp at hx
  | cons y ys ih =>
    simp only [List.map_cons, List.cons.injEq] at h
    rcases List.mem_cons.mp hx with rfl | hx
    · exact h.1
    · exact ih h.2 hx

theorem subsetB_iff (l r : List Nat) : subsetB l r = true ↔ ∀ v ∈ l, v ∈ r := by
  simp [subsetB, List.all_eq_true]

/-- meaning of the blocking constraint ModelCacheMixin.batch_eval passes down -/
theorem blockAllCon_sem (asts : List Exp) (results : List (List Nat)) (hl : ∀ r ∈ results, r.length = asts.length)
    (a : Asg) : (blockAllCon asts results).sem a = true ↔ ∀ r ∈ results, asts.map (·.val a) ≠ r := by
  simp only [blockAllCon, List.all_eq_true]
  refine forall₂_congr fun r hr => ?_
  have h := notAll_sem asts r a (hl r hr)
  rw [ne_eq, ← h]
  simp only [List.any_eq_true, decide_eq_true_eq, ne_eq, List.all_eq_true, not_forall]
  constructor
  · rintro ⟨ev, hev, hne⟩; exact ⟨ev, hev, hne⟩
  · rintro ⟨ev, hev, hne⟩; exact ⟨ev, hev, hne⟩

/-- the flagging loop at the end of `batch_eval` -/
def flagEval (asts : List Exp) (fe : Frontend) : Frontend :=
  asts.foldl (fun fe e => if subsetB e.vars fe.variables then { fe with evalExh := listInsert fe.evalExh e.id } else fe) fe

theorem flagEval_spec (asts : List Exp) (fe : Frontend) :
    flagEval asts fe = { fe with evalExh := (flagEval asts fe).evalExh } ∧
    ∀ i, i ∈ (flagEval asts fe).evalExh ↔ i ∈ fe.evalExh ∨ ∃ e ∈ asts, e.id = i ∧ ∀ v ∈ e.vars, v ∈ fe.variables := by
  unfold flagEval
  induction asts generalizing fe with
  | nil => simp
  | cons e es ih =>
    simp only [List.foldl_cons]
    by_cases hs : subsetB e.vars fe.variables = true
    · rw [if_pos hs]
      obtain ⟨h1, h2⟩ := ih { fe with evalExh := listInsert fe.evalExh e.id }
      refine ⟨by rw [h1], fun i => ?_⟩
      rw [h2 i]
      simp only [mem_listInsert, List.mem_cons, exists_eq_or_imp]
      have hs' := (subsetB_iff _ _).mp hs
      constructor
      · rintro ((h | rfl) | h)
        · exact Or.inl h
        · exact Or.inr (Or.inl ⟨rfl, hs'⟩)
        · exact Or.inr (Or.inr h)
      · rintro (h | ⟨rfl, _⟩ | h)
        · exact Or.inl (Or.inl h)
        · exact Or.inl (Or.inr rfl)
        · exact Or.inr h
    · rw [if_neg hs]
      obtain ⟨h1, h2⟩ := ih fe
      refine ⟨h1, fun i => ?_⟩
      rw [h2 i]
      simp only [List.mem_cons, exists_eq_or_imp]
      constructor
      · rintro (h | h)
        · exact Or.inl h
        · exact Or.inr (Or.inr h)
      · rintro (h | ⟨_, hv⟩ | h)
        · exact Or.inl h
        · exact absurd ((subsetB_iff _ _).mpr hv) hs
        · exact Or.inr h

/-! ### `satisfiable` -/

theorem mc_satisfiable_spec {self sup : Ops} (extra : List Con)
    (hsup : SatSpec R RE E G U extra (sup.satisfiable extra)) :
    SatSpec R RE E G U extra ((modelCacheLayer E self sup).satisfiable extra) := by
  intro s h
  by_cases hne : (getModels E s.fe extra).isEmpty = false
  · obtain ⟨hrun, hj⟩ := mc_satisfiable_fast (self := self) (sup := sup) h.mc extra hne
    rw [hrun]
    exact ⟨by simpa [Judge] using hj, h, Keep.refl U s⟩
  · have hemp : (getModels E s.fe extra).isEmpty = true := by simpa using hne
    have : (modelCacheLayer E self sup).satisfiable extra s = sup.satisfiable extra s := by
      show (do let fe ← M.getFe; if !(getModels E fe extra).isEmpty then pure true else sup.satisfiable extra : M Bool) s = _
      simp [bind, M.bind, hemp]
    rw [this]
    exact hsup s h

/-! ### `batch_eval` (and `eval`) -/

theorem models_cons_extra (U : List Con) (b : Con) (extra : List Con) (a : Asg) :
    Models (U ++ b :: extra) a ↔ Models (U ++ extra) a ∧ b.sem a = true := by
  rw [models_append, models_append]
  simp only [Models, List.mem_cons, forall_eq_or_imp]
  constructor
  · rintro ⟨h1, h2, h3⟩; exact ⟨⟨h1, h3⟩, h2⟩
  · rintro ⟨⟨h1, h3⟩, h2⟩; exact ⟨h1, h2, h3⟩

/-- the slow path of `batch_eval` as a function of what the cache gave (`results`) -/
def mcBatchSlow (sup : Ops) (asts : List Exp) (n : Nat) (extra : List Con) (results : List (List Nat)) :
    M (List (List Nat)) := do
  let remaining := n - results.length
  let constraints := if !results.isEmpty then blockAllCon asts results :: extra else extra
  let more ← M.tryCatch (sup.batchEval asts remaining constraints) (· == .unsat)
    (if results.isEmpty then M.throw .unsat else pure [])
  let results := listUnion results more
  if extra.isEmpty && results.length < n then
    M.modifyFe fun fe => flagEval asts fe
  pure results

/-- `len(asts) == 1 and asts[0].hash() in self._eval_exhausted` -/
def exhaustedOne (fe : Frontend) (asts : List Exp) : Bool :=
  match asts with | [e] => fe.evalExh.contains e.id | _ => false

theorem modelCacheBatchEval_slow (E : Env) (sup : Ops) (asts : List Exp) (n : Nat) (extra : List Con) (s : St)
    (chosen : List (List Nat)) (hrun : getBatchSolutions E asts n extra s = (.ok chosen, { s with tick := s.tick + 1 }))
    (hslow : (chosen.length == n || (!chosen.isEmpty && extra.isEmpty && exhaustedOne s.fe asts)) = false) :
    modelCacheBatchEval E sup asts n extra s = mcBatchSlow sup asts n extra chosen { s with tick := s.tick + 1 } := by
  unfold modelCacheBatchEval mcBatchSlow
  simp only [bind, M.bind, hrun, M.getFe_apply]
  rw [if_neg (by rcases asts with _ | ⟨e, _ | ⟨e', es⟩⟩ <;> simp_all [exhaustedOne])]
  rfl

/-- flagging the expressions of a COMPLETE answer all of whose tuples are cached keeps the cache invariant -/
theorem mcInv_flagEval (hRE : ExpReg RE) {fe : Frontend} (h : MCInv RE E U fe) (asts : List Exp) (hre : ∀ e ∈ asts, RE e)
    (ts : List (List Nat)) (hcomp : ∀ t, FeasibleT U asts t → t ∈ ts) (hc : CachedAll RE E fe asts ts) :
    MCInv RE E U (flagEval asts fe) := by
  obtain ⟨hf, hmem⟩ := flagEval_spec asts fe
  have hmodels : (flagEval asts fe).models = fe.models := by rw [hf]
  have hflags : ∀ isMax signed, optFlags isMax signed (flagEval asts fe) = optFlags isMax signed fe := by
    intro isMax signed; rw [hf]; rfl
  refine ⟨by rw [hmodels]; exact h.valid, ?_, fun isMax signed => by rw [hflags, hmodels]; exact h.optW isMax signed⟩
  intro e' he' hi
  rw [hmodels]
  rcases (hmem e'.id).mp hi with hold | ⟨e, hein, hid, hvars⟩
  · exact h.evalExhW e' he' hold
  · refine Or.inr fun v hv => ?_
    obtain ⟨a, ha, rfl⟩ := hv
    obtain ⟨_, hval⟩ := hRE.faithful e e' (hre e hein) he' hid
    obtain ⟨a', hta', hag⟩ := hc _ (hcomp (asts.map (·.val a)) ⟨a, ha, rfl⟩)
    obtain ⟨m, hm, hme⟩ := hag e hein (hre e hein) hvars
    refine ⟨m, hm, ?_⟩
    have h1 : e.val a = e.val a' := map_eq_at hta' hein
    rw [← hval, hme, ← h1, hval]

/-- the end of `batch_eval`: join what the cache and what the solver gave, flag when the answer is complete -/
theorem mcBatchFinish (hRE : ExpReg RE) (asts : List Exp) (hre : ∀ e ∈ asts, RE e) (n : Nat) (extra : List Con)
    (results more : List (List Nat)) (s2 : St) (h : SI R RE E G U s2)
    (hrn : results.Nodup) (hrf : ∀ t ∈ results, FeasibleT (U ++ extra) asts t) (hrc : CachedAll RE E s2.fe asts results)
    (hlen : results.length < n)
    (hmn : more.Nodup) (hmf : ∀ t ∈ more, FeasibleT (U ++ extra) asts t ∧ t ∉ results)
    (hml : more.length ≤ n - results.length) (hmc : CachedAll RE E s2.fe asts more)
    (hcomp : ∀ t, FeasibleT (U ++ extra) asts t → t ∈ results ∨ t ∈ more ∨ more.length = n - results.length)
    (hne : results ≠ [] ∨ more ≠ []) :
    match (do
        if extra.isEmpty && (listUnion results more).length < n then M.modifyFe fun fe => flagEval asts fe
        pure (listUnion results more) : M (List (List Nat))) s2 with
    | (.ok ts, s') => TuplesOk (U ++ extra) asts n ts ∧ ts ≠ [] ∧ CachedAll RE E s'.fe asts ts ∧
                      SI R RE E G U s' ∧ Keep U s2 s'
    | (.error e, s') => ErrOk E (U ++ extra) e ∧ SI R RE E G U s' ∧ Keep U s2 s' := by
  have hlenU : (listUnion results more).length = results.length + more.length :=
    length_listUnion_disjoint results more (fun t ht => (hmf t ht).2) hmn
  have hmemU : ∀ t, t ∈ listUnion results more ↔ t ∈ results ∨ t ∈ more := mem_listUnion results more
  have hok : TuplesOk (U ++ extra) asts n (listUnion results more) := by
    refine ⟨fun t ht => ?_, nodup_listUnion _ _ hrn, by omega, fun t ht => ?_⟩
    · rcases (hmemU t).mp ht with ht | ht
      · exact hrf t ht
      · exact (hmf t ht).1
    · rcases hcomp t ht with h1 | h1 | h1
      · exact Or.inl ((hmemU t).mpr (Or.inl h1))
      · exact Or.inl ((hmemU t).mpr (Or.inr h1))
      · right; omega
  have hnonempty : listUnion results more ≠ [] := by
    intro hnil
    have hl : (listUnion results more).length = 0 := by rw [hnil]; rfl
    rcases hne with h1 | h1
    · exact h1 (List.length_eq_zero_iff.mp (by omega))
    · exact h1 (List.length_eq_zero_iff.mp (by omega))
  have hcached : CachedAll RE E s2.fe asts (listUnion results more) := by
    intro t ht
    rcases (hmemU t).mp ht with ht | ht
    · exact hrc t ht
    · exact hmc t ht
  by_cases hflag : (extra.isEmpty && decide ((listUnion results more).length < n)) = true
  · simp only [bind, M.bind, hflag, ↓reduceIte, M.modifyFe_apply, pure, M.pure]
    obtain ⟨hf, _⟩ := flagEval_spec asts s2.fe
    have hex : extra = [] := by simpa using (Bool.and_eq_true_iff.mp hflag).1
    have hlt : (listUnion results more).length < n := by simpa using (Bool.and_eq_true_iff.mp hflag).2
    subst hex
    have hcomplete : ∀ t, FeasibleT U asts t → t ∈ listUnion results more := by
      intro t ht
      rcases hcomp t (by simpa using ht) with h1 | h1 | h1
      · exact (hmemU t).mpr (Or.inl h1)
      · exact (hmemU t).mpr (Or.inr h1)
      · omega
    have hmc' := mcInv_flagEval hRE h.mc asts hre _ hcomplete hcached
    have hsc' : SCInv U (flagEval asts s2.fe) := by rw [hf]; exact h.sc
    refine ⟨hok, hnonempty, ?_, h.set_fe _ (by rw [hf]) (by rw [hf]) (by rw [hf]) (by rw [hf]) (by rw [hf]) (by rw [hf])
      (by rw [hf]) (by rw [hf]) hmc' hsc', Keep.of_fe (by rw [hf]) (by rw [hf])⟩
    intro t ht
    obtain ⟨a, hta, hag⟩ := hcached t ht
    refine ⟨a, hta, fun e he hre' hv => ?_⟩
    obtain ⟨m, hm, hme⟩ := hag e he hre' (by rw [hf] at hv; exact hv)
    exact ⟨m, by rw [hf]; exact hm, hme⟩
  · simp only [hflag, Bool.false_eq_true, ↓reduceIte, pure, M.pure]
    exact ⟨hok, hnonempty, hcached, h, Keep.refl U s2⟩

theorem satisfiable_of_feasibleT {cs : List Con} {asts : List Exp} {t : List Nat} (h : FeasibleT cs asts t) :
    Satisfiable cs := by obtain ⟨a, ha, _⟩ := h; exact ⟨a, ha⟩

/-- the slow path: what the cache gave (all of it, fewer than `n` tuples) joined with what the layers below find
under the blocking constraint -/
theorem mcBatchSlow_spec (hRE : ExpReg RE) {sup : Ops} (asts : List Exp) (hre : ∀ e ∈ asts, RE e) (n : Nat) (extra : List Con)
    (hsup : ∀ n' extra', 1 ≤ n' → BatchSpec R RE E G U asts n' extra' (sup.batchEval asts n' extra'))
    (s : St) (h : SI R RE E G U s) (results : List (List Nat))
    (hsub : ∀ t ∈ results, t ∈ allBatchSolutions E s.fe asts extra true) (hnd : results.Nodup)
    (hlen : results.length < n) (hall : ∀ t ∈ allBatchSolutions E s.fe asts extra true, t ∈ results) :
    match mcBatchSlow sup asts n extra results s with
    | (.ok ts, s') => TuplesOk (U ++ extra) asts n ts ∧ ts ≠ [] ∧ CachedAll RE E s'.fe asts ts ∧
                      SI R RE E G U s' ∧ Keep U s s'
    | (.error e, s') => ErrOk E (U ++ extra) e ∧ SI R RE E G U s' ∧ Keep U s s' := by
  -- the cached tuples
  have hrf : ∀ t ∈ results, FeasibleT (U ++ extra) asts t := fun t ht => cachedT_feasible h.mc asts extra t (hsub t ht)
  have hrl : ∀ r ∈ results, r.length = asts.length := by
    intro r hr
    obtain ⟨m, _, _, rfl⟩ := (mem_allBatchSolutions E s.fe asts extra r).mp (hsub r hr)
    simp
  have hrc : ∀ s2 : St, Keep U s s2 → CachedAll RE E s2.fe asts results := by
    intro s2 hk t ht
    obtain ⟨m, hm, _, rfl⟩ := (mem_allBatchSolutions E s.fe asts extra t).mp (hsub t ht)
    exact ⟨m.complete E.dflt, rfl, fun _ _ _ _ => ⟨m, hk.models ⟨_, h.mc.valid m hm⟩ m hm, rfl⟩⟩
  -- the query passed down
  have hcons : ∀ a, Models (U ++ (if (!results.isEmpty) = true then blockAllCon asts results :: extra else extra)) a ↔
      Models (U ++ extra) a ∧ ∀ r ∈ results, asts.map (·.val a) ≠ r := by
    intro a
    by_cases hemp : results.isEmpty = true
    · have : results = [] := by simpa using hemp
      subst this; simp
    · simp only [hemp, Bool.not_false, ↓reduceIte]
      rw [models_cons_extra, blockAllCon_sem asts results hrl a]
  have hspec := hsup (n - results.length) (if (!results.isEmpty) = true then blockAllCon asts results :: extra else extra)
    (by omega) s h
  unfold mcBatchSlow
  simp only [bind, M.bind, M.tryCatch]
  rcases hq : sup.batchEval asts (n - results.length)
      (if (!results.isEmpty) = true then blockAllCon asts results :: extra else extra) s with ⟨res, s2⟩
  rw [hq] at hspec
  cases res with
  | error err =>
    obtain ⟨herr, hsi2, hk2⟩ := hspec
    by_cases hun : (err == Err.unsat) = true
    · have herr' : err = .unsat := by simpa using hun
      subst herr'
      have hnsat : ¬ Satisfiable (U ++ (if (!results.isEmpty) = true then blockAllCon asts results :: extra else extra)) := by
        rcases herr with ⟨_, hn⟩ | hg
        · exact hn
        · exact absurd hg.1 (by simp)
      simp only [beq_self_eq_true, ↓reduceIte]
      by_cases hemp : results.isEmpty = true
      · -- nothing cached and nothing found: unsatisfiable
        have : results = [] := by simpa using hemp
        subst this
        simp only [List.isEmpty_nil, ↓reduceIte, M.throw_apply]
        exact ⟨Or.inl ⟨rfl, by simpa using hnsat⟩, hsi2, hk2⟩
      · -- the cached tuples are all there is
        simp only [hemp, Bool.false_eq_true, ↓reduceIte, pure, M.pure]
        have hfin := mcBatchFinish hRE asts hre n extra results [] s2 hsi2 hnd hrf (hrc s2 hk2) hlen List.nodup_nil
          (by simp) (by simp) (by intro t ht; simp at ht) ?_ (Or.inl (by simpa using hemp))
        · revert hfin
          generalize (do
            if extra.isEmpty && (listUnion results []).length < n then M.modifyFe fun fe => flagEval asts fe
            pure (listUnion results []) : M (List (List Nat))) s2 = out
          rcases out with ⟨r3, s3⟩
          cases r3 with
          | ok ts => exact fun ⟨a, b, c, d, e⟩ => ⟨a, b, c, d, hk2.trans e⟩
          | error e => exact fun ⟨a, b, c⟩ => ⟨a, b, hk2.trans c⟩
        · intro t ⟨a, ha, hta⟩
          by_cases hin : t ∈ results
          · exact Or.inl hin
          · exfalso
            exact hnsat ⟨a, (hcons a).mpr ⟨ha, fun r hr heq => hin (by rw [← hta, heq]; exact hr)⟩⟩
    · -- the backend gave up
      simp only [hun, Bool.false_eq_true, ↓reduceIte]
      refine ⟨?_, hsi2, hk2⟩
      rcases herr with ⟨he, _⟩ | hg
      · subst he; simp at hun
      · exact Or.inr hg
  | ok more =>
    obtain ⟨⟨hmf, hmn, hml, hmcomp⟩, hmne, hmc, hsi2, hk2⟩ := hspec
    simp only
    have hfin := mcBatchFinish hRE asts hre n extra results more s2 hsi2 hnd hrf (hrc s2 hk2) hlen hmn ?_ hml hmc ?_ ?_
    · revert hfin
      generalize (do
        if extra.isEmpty && (listUnion results more).length < n then M.modifyFe fun fe => flagEval asts fe
        pure (listUnion results more) : M (List (List Nat))) s2 = out
      rcases out with ⟨r3, s3⟩
      cases r3 with
      | ok ts => exact fun ⟨a, b, c, d, e⟩ => ⟨a, b, c, d, hk2.trans e⟩
      | error e => exact fun ⟨a, b, c⟩ => ⟨a, b, hk2.trans c⟩
    · intro t ht
      obtain ⟨a, ha, hta⟩ := hmf t ht
      obtain ⟨h1, h2⟩ := (hcons a).mp ha
      exact ⟨⟨a, h1, hta⟩, fun hin => h2 t hin hta⟩
    · intro t ⟨a, ha, hta⟩
      by_cases hin : t ∈ results
      · exact Or.inl hin
      · right
        exact hmcomp t ⟨a, (hcons a).mpr ⟨ha, fun r hr heq => hin (by rw [← hta, heq]; exact hr)⟩, hta⟩
    · by_cases hemp : results = []
      · right
        exact hmne
      · exact Or.inl hemp

/-- **ModelCacheMixin.batch_eval** keeps the invariant and answers as the specification demands, if the rest of the MRO
does -/
theorem mc_batchEval_spec (hP : PickOk E) (hRE : ExpReg RE) {sup : Ops} (asts : List Exp) (hre : ∀ e ∈ asts, RE e)
    (n : Nat) (hn : 1 ≤ n) (extra : List Con)
    (hsup : ∀ n' extra', 1 ≤ n' → BatchSpec R RE E G U asts n' extra' (sup.batchEval asts n' extra')) :
    BatchSpec R RE E G U asts n extra (modelCacheBatchEval E sup asts n extra) := by
  intro s h
  obtain ⟨chosen, hrun, hsub, hlen, hnd, hall⟩ := getBatchSolutions_spec hP asts n extra s
  have h1 : SI R RE E G U { s with tick := s.tick + 1 } := h.set_tick _
  have hk1 : Keep U s { s with tick := s.tick + 1 } := Keep.of_fe rfl rfl
  by_cases hfast : (chosen.length == n || (!chosen.isEmpty && extra.isEmpty && exhaustedOne s.fe asts)) = true
  · -- answered from the cache
    have hbf : BatchFast E s.fe asts n extra := by
      rcases Bool.or_eq_true_iff.mp hfast with hl | hx
      · left
        have : chosen.length = n := by simpa using hl
        omega
      · right
        simp only [Bool.and_eq_true, Bool.not_eq_eq_eq_not, Bool.not_true] at hx
        obtain ⟨⟨hcne, hex⟩, hflag⟩ := hx
        refine ⟨?_, by simpa using hex, ?_⟩
        · intro hnil
          have : chosen = [] := by
            cases hc : chosen with
            | nil => rfl
            | cons t _ => have := hsub t (by rw [hc]; simp); rw [hnil] at this; simp at this
          simp [this] at hcne
        · rcases asts with _ | ⟨e, _ | ⟨e', es⟩⟩
          · simp [exhaustedOne] at hflag
          · exact ⟨e, rfl, by simpa [exhaustedOne] using hflag⟩
          · simp [exhaustedOne] at hflag
    obtain ⟨ts, hrun2, hok, hsub2, hlen2⟩ := mc_batchEval_fast (sup := sup) hP h.mc asts hre n extra hbf
    rw [hrun2]
    refine ⟨hok, ?_, ?_, h1, hk1⟩
    · intro hnil
      rw [hnil] at hlen2
      simp only [List.length_nil] at hlen2
      rcases hbf with hge | ⟨hne, _, _⟩
      · omega
      · have : (allBatchSolutions E s.fe asts extra true).length = 0 := by omega
        exact hne (List.length_eq_zero_iff.mp this)
    · intro t ht
      obtain ⟨m, hm, _, rfl⟩ := (mem_allBatchSolutions E s.fe asts extra t).mp (hsub2 t ht)
      exact ⟨m.complete E.dflt, rfl, fun _ _ _ _ => ⟨m, hm, rfl⟩⟩
  · -- the cache does not settle it
    have hslow : (chosen.length == n || (!chosen.isEmpty && extra.isEmpty && exhaustedOne s.fe asts)) = false := by
      simpa using hfast
    rw [modelCacheBatchEval_slow E sup asts n extra s chosen hrun hslow]
    have hne : chosen.length ≠ n := by
      intro heq
      simp [heq] at hslow
    have hlt : chosen.length < n := by omega
    have hspec := mcBatchSlow_spec hRE asts hre n extra hsup { s with tick := s.tick + 1 } h1 chosen hsub hnd hlt (hall hlt)
    revert hspec
    generalize mcBatchSlow sup asts n extra chosen { s with tick := s.tick + 1 } = out
    rcases out with ⟨r3, s3⟩
    cases r3 with
    | ok ts => exact fun ⟨a, b, c, d, e⟩ => ⟨a, b, c, d, hk1.trans e⟩
    | error e => exact fun ⟨a, b, c⟩ => ⟨a, b, hk1.trans c⟩

/-- **ModelCacheMixin.eval** (`batch_eval` of one expression) -/
theorem mc_eval_spec (hP : PickOk E) (hRE : ExpReg RE) {self sup : Ops} (e : Exp) (he : RE e) (hc : e.conc = none)
    (n : Nat) (hn : 1 ≤ n) (extra : List Con)
    (hsup : ∀ n' extra', 1 ≤ n' → BatchSpec R RE E G U [e] n' extra' (sup.batchEval [e] n' extra')) :
    EvalSpec R RE E G U e n extra ((modelCacheLayer E self sup).eval e n extra) := by
  intro s h
  have hb := mc_batchEval_spec hP hRE [e] (by simpa using he) n hn extra hsup s h
  show match (do let rs ← modelCacheBatchEval E sup [e] n extra; pure (rs.map fun t => t.headD 0) : M (List Nat)) s with
    | (.ok vs, s') => _ | (.error err, s') => _
  simp only [bind, M.bind]
  rcases hq : modelCacheBatchEval E sup [e] n extra s with ⟨res, s2⟩
  rw [hq] at hb
  cases res with
  | error err => exact hb
  | ok ts =>
    obtain ⟨hok, hne, hca, hsi, hk⟩ := hb
    simp only [pure, M.pure]
    refine ⟨evalOk_of_tuples hc hok, by simpa using hne, ?_, hsi, hk⟩
    intro hvars v hv
    obtain ⟨t, ht, rfl⟩ := List.mem_map.mp hv
    obtain ⟨a, rfl, hag⟩ := hca t ht
    obtain ⟨m, hm, hme⟩ := hag e (by simp) he hvars
    exact ⟨m, hm, by simpa using hme⟩

/-! ### `min` / `max` -/

/-- `self._max_exhausted[e.hash()] = e` etc. -/
def flagOpt (isMax signed : Bool) (eid : Nat) (fe : Frontend) : Frontend :=
  if isMax then (if signed then { fe with maxSExh := listInsert fe.maxSExh eid }
                 else { fe with maxExh := listInsert fe.maxExh eid })
  else (if signed then { fe with minSExh := listInsert fe.minSExh eid }
        else { fe with minExh := listInsert fe.minExh eid })

theorem flagOpt_spec (isMax signed : Bool) (eid : Nat) (fe : Frontend) :
    flagOpt isMax signed eid fe = { fe with maxExh := (flagOpt isMax signed eid fe).maxExh,
                                            minExh := (flagOpt isMax signed eid fe).minExh,
                                            maxSExh := (flagOpt isMax signed eid fe).maxSExh,
                                            minSExh := (flagOpt isMax signed eid fe).minSExh } ∧
    ∀ im sg i, i ∈ optFlags im sg (flagOpt isMax signed eid fe) ↔
      i ∈ optFlags im sg fe ∨ (im = isMax ∧ sg = signed ∧ i = eid) := by
  constructor
  · cases isMax <;> cases signed <;> rfl
  · intro im sg i
    cases isMax <;> cases signed <;> cases im <;> cases sg <;> simp [flagOpt, optFlags, mem_listInsert]

/-- flagging an expression whose optimum is cached keeps the cache invariant -/
theorem mcInv_flagOpt (hRE : ExpReg RE) {fe : Frontend} (h : MCInv RE E U fe) (isMax signed : Bool) (e : Exp) (he : RE e)
    (i : Int) (hopt : IsOpt isMax signed U e i) (hc : ∃ m ∈ fe.models, e.val (m.complete E.dflt) = wrap e.bits i) :
    MCInv RE E U (flagOpt isMax signed e.id fe) := by
  obtain ⟨hf, hmem⟩ := flagOpt_spec isMax signed e.id fe
  have hmodels : (flagOpt isMax signed e.id fe).models = fe.models := by rw [hf]
  have hev : (flagOpt isMax signed e.id fe).evalExh = fe.evalExh := by rw [hf]
  refine ⟨by rw [hmodels]; exact h.valid, by rw [hmodels, hev]; exact h.evalExhW, ?_⟩
  intro im sg e' he' hi
  rw [hmodels]
  rcases (hmem im sg e'.id).mp hi with hold | ⟨rfl, rfl, hid⟩
  · exact h.optW im sg e' he' hold
  · refine Or.inr fun v hv => ?_
    obtain ⟨hbits, hval⟩ := hRE.faithful e' e he' he hid
    obtain ⟨m, hm, hmv⟩ := hc
    refine ⟨m, hm, ?_⟩
    have hfe : Feasible U e v := by obtain ⟨a, ha, hva⟩ := hv; exact ⟨a, ha, by rw [← hval]; exact hva⟩
    have := hopt.2 v hfe
    rw [hval, hmv, hbits]
    unfold Beats
    cases im <;> simpa using this

/-- the slow path of `min` / `max` -/
def mcExtremumSlow (sup : Ops) (isMax : Bool) (e : Exp) (extra : List Con) (signed : Bool) (fe : Frontend) : M Int := do
  let m ← (if isMax then sup.max e extra signed else sup.min e extra signed)
  if extra.isEmpty && subsetB e.vars fe.variables then M.modifyFe (flagOpt isMax signed e.id)
  pure m

theorem modelCacheExtremum_eq (E : Env) (sup : Ops) (isMax : Bool) (e : Exp) (extra : List Con) (signed : Bool) (s : St) :
    modelCacheExtremum E sup isMax e extra signed s =
      match pickBy (if isMax then (fun a b => decide (a > b)) else (fun a b => decide (a < b))) (key signed e.bits)
        (if (extra.isEmpty && (s.fe.evalExh.contains e.id || (optFlags isMax signed s.fe).contains e.id)) = true then
          (allBatchSolutions E s.fe [e] [] true).map fun t => t.headD 0 else []) with
      | some v => (.ok (v : Int), s)
      | none => mcExtremumSlow sup isMax e extra signed s.fe s := by
  unfold modelCacheExtremum mcExtremumSlow
  simp only [bind, M.bind, M.getFe_apply]
  have hfl : (if isMax then (if signed then s.fe.maxSExh else s.fe.maxExh)
      else (if signed then s.fe.minSExh else s.fe.minExh)) = optFlags isMax signed s.fe := rfl
  rw [hfl]
  cases isMax
  · simp only [Bool.false_eq_true, ↓reduceIte]
    generalize pickBy _ _ _ = p
    cases p <;> rfl
  · simp only [↓reduceIte]
    generalize pickBy _ _ _ = p
    cases p <;> rfl

/-- **ModelCacheMixin.min / max** -/
theorem mc_extremum_spec (hRE : ExpReg RE) {sup : Ops} (isMax : Bool) (e : Exp) (he : RE e) (extra : List Con)
    (signed : Bool)
    (hsup : OptSpec R RE E G U isMax e extra signed (if isMax then sup.max e extra signed else sup.min e extra signed)) :
    OptSpec R RE E G U isMax e extra signed (modelCacheExtremum E sup isMax e extra signed) := by
  intro s h
  rw [modelCacheExtremum_eq]
  cases hpick : pickBy (if isMax then (fun a b => decide (a > b)) else (fun a b => decide (a < b))) (key signed e.bits)
      (if (extra.isEmpty && (s.fe.evalExh.contains e.id || (optFlags isMax signed s.fe).contains e.id)) = true then
        (allBatchSolutions E s.fe [e] [] true).map fun t => t.headD 0 else []) with
  | some v =>
    -- from the cache
    simp only
    by_cases hcond : (extra.isEmpty && (s.fe.evalExh.contains e.id || (optFlags isMax signed s.fe).contains e.id)) = true
    · rw [if_pos hcond] at hpick
      simp only [Bool.and_eq_true, Bool.or_eq_true, List.contains_eq_mem, decide_eq_true_eq, List.isEmpty_iff] at hcond
      obtain ⟨hex, hflag⟩ := hcond
      subst hex
      have hopt := cached_opt hRE h.mc isMax signed e he hflag v hpick
      have hp := pickBy_spec isMax (key signed e.bits) ((allBatchSolutions E s.fe [e] [] true).map fun t => t.headD 0)
      rw [hpick] at hp
      obtain ⟨m, hm, _, hv⟩ := (mem_cachedValues E s.fe e [] v).mp hp.1
      refine ⟨by simpa using hopt, fun _ => ⟨m, hm, ?_⟩, h, Keep.refl U s⟩
      rw [← hv, wrap_nat e.bits v (by rw [hv]; exact (hRE.wf e he).2 _)]
    · rw [if_neg hcond] at hpick
      simp [pickBy] at hpick
  | none =>
    -- ask the layers below, then flag
    simp only [mcExtremumSlow, bind, M.bind]
    have hspec := hsup s h
    rcases hq : (if isMax = true then sup.max e extra signed else sup.min e extra signed) s with ⟨res, s2⟩
    rw [hq] at hspec
    cases res with
    | error err => exact hspec
    | ok i =>
      obtain ⟨hopt, hcached, hsi2, hk2⟩ := hspec
      simp only
      by_cases hcache : (extra.isEmpty && subsetB e.vars s.fe.variables) = true
      · simp only [hcache, ↓reduceIte, pure]
        simp only [Bool.and_eq_true, List.isEmpty_iff] at hcache
        obtain ⟨hex, hsubv⟩ := hcache
        subst hex
        have hvars := (subsetB_iff _ _).mp hsubv
        have hmc' := mcInv_flagOpt hRE hsi2.mc isMax signed e he i (by simpa using hopt) (hcached hvars)
        obtain ⟨hf, _⟩ := flagOpt_spec isMax signed e.id s2.fe
        have hsc' : SCInv U (flagOpt isMax signed e.id s2.fe) := by rw [hf]; exact hsi2.sc
        refine ⟨hopt, ?_, hsi2.set_fe _ (by rw [hf]) (by rw [hf]) (by rw [hf]) (by rw [hf]) (by rw [hf]) (by rw [hf])
          (by rw [hf]) (by rw [hf]) hmc' hsc', hk2.trans (Keep.of_fe (by rw [hf]) (by rw [hf]))⟩
        intro hv
        obtain ⟨m, hm, hmv⟩ := hcached hv
        exact ⟨m, by rw [hf]; exact hm, hmv⟩
      · simp only [hcache, Bool.false_eq_true, ↓reduceIte, pure, M.pure]
        exact ⟨hopt, hcached, hsi2, hk2⟩

/-! ### `solution` -/

/-- **ModelCacheMixin.solution** -/
theorem mc_solution_spec {self sup : Ops} (e : Exp) (hc : e.conc = none) (v : Nat) (extra : List Con)
    (hsup : SolSpec R RE E G U e v extra (sup.solution e v extra)) :
    SolSpec R RE E G U e v extra ((modelCacheLayer E self sup).solution e v extra) := by
  intro s h
  by_cases hin : ((allBatchSolutions E s.fe [e] extra true).map fun t => t.headD 0).contains v = true
  · obtain ⟨hrun, hj⟩ := mc_solution_fast (self := self) (sup := sup) h.mc e hc v extra hin
    rw [hrun]
    exact ⟨by simpa [Judge, hc] using hj, h, Keep.refl U s⟩
  · have : (modelCacheLayer E self sup).solution e v extra s = sup.solution e v extra s := by
      show (do let fe ← M.getFe
               let cached := (allBatchSolutions E fe [e] extra true).map fun t => t.headD 0
               if cached.contains v then pure true else sup.solution e v extra : M Bool) s = _
      simp only [bind, M.bind, M.getFe_apply, hin, Bool.false_eq_true, ↓reduceIte]
    rw [this]
    exact hsup s h

/-! ### `_add` -/

/-- `_trivial_model_optimization`, when `_add` calls it -/
def trivOptFe (fe : Frontend) : Frontend :=
  if fe.constraints.length == 1 && fe.models.isEmpty then
    match (fe.constraints.headD default).triv with
    | some (v, x, eid) =>
        { fe with models := listInsert fe.models [(v, x)],
                  evalExh := listInsert fe.evalExh eid, maxExh := listInsert fe.maxExh eid,
                  minExh := listInsert fe.minExh eid, maxSExh := listInsert fe.maxSExh eid,
                  minSExh := listInsert fe.minSExh eid }
    | none => fe
  else fe

/-- the re-validation of the cached models against the added constraints -/
def invalFe (E : Env) (cs added : List Con) (fe : Frontend) : Frontend :=
  let fe1 := if cs.any (·.isFalse) then { fe with models := [] } else fe
  if (getModels E fe1 added).length != fe1.models.length then { clearFlags fe1 with models := getModels E fe1 added }
  else fe1

/-- what ModelCacheMixin._add does to the record after `super()._add` returned `added` (non-empty) -/
def mcAfterAddFe (E : Env) (oldVars : List Var) (cs : List Con) (invalidate : Bool) (added : List Con) (fe : Frontend) :
    Frontend :=
  if (added.any fun a => a.vars.any fun v => !oldVars.contains v) || invalidate then invalFe E cs added (trivOptFe fe)
  else trivOptFe fe

theorem mcAdd_eq (E : Env) (self sup : Ops) (cs : List Con) (invalidate : Bool) (s : St) :
    (modelCacheLayer E self sup).add cs invalidate s =
      if cs.isEmpty then (.ok cs, s)
      else match sup.add cs invalidate s with
        | (.ok added, s') =>
            if added.isEmpty then (.ok added, s')
            else (.ok added, { s' with fe := mcAfterAddFe E s.fe.variables cs invalidate added s'.fe })
        | (.error e, s') => (.error e, s') := by
  show (do
      if cs.isEmpty then pure cs
      else do
        let oldVars := (← M.getFe).variables
        let added ← sup.add cs invalidate
        if added.isEmpty then pure added
        else do
          let fe ← M.getFe
          if fe.constraints.length == 1 && fe.models.isEmpty then
            match (fe.constraints.headD default).triv with
            | some (v, x, eid) =>
              M.modifyFe fun fe =>
                { fe with models := listInsert fe.models [(v, x)],
                          evalExh := listInsert fe.evalExh eid, maxExh := listInsert fe.maxExh eid,
                          minExh := listInsert fe.minExh eid, maxSExh := listInsert fe.maxSExh eid,
                          minSExh := listInsert fe.minSExh eid }
            | none => pure ()
          let newVars := added.any fun a => a.vars.any fun v => !oldVars.contains v
          if newVars || invalidate then
            if cs.any (·.isFalse) then M.modifyFe fun fe => { fe with models := [] }
            let fe ← M.getFe
            let stillValid := getModels E fe added
            if stillValid.length != fe.models.length then
              M.modifyFe fun fe => { clearFlags fe with models := stillValid }
          pure added : M (List Con)) s = _
  by_cases hemp : cs.isEmpty = true
  · simp [hemp, pure, M.pure]
  · simp only [hemp, Bool.false_eq_true, ↓reduceIte, bind, M.bind, M.getFe_apply]
    rcases hq : sup.add cs invalidate s with ⟨res, s'⟩
    cases res with
    | error e => rfl
    | ok added =>
      simp only
      by_cases hae : added.isEmpty = true
      · simp [hae, pure, M.pure]
      · simp only [hae, Bool.false_eq_true, ↓reduceIte, M.bind, M.getFe_apply, mcAfterAddFe, trivOptFe, invalFe]
        by_cases hc : (s'.fe.constraints.length == 1 && s'.fe.models.isEmpty) = true <;>
        by_cases hnv : ((added.any fun a => a.vars.any fun v => !s.fe.variables.contains v) || invalidate) = true <;>
        by_cases hf : cs.any (·.isFalse) = true <;>
        simp only [hc, hnv, hf, ↓reduceIte, Bool.false_eq_true]
        all_goals first
          | (cases ht : (s'.fe.constraints.headD default).triv with
             | none => simp only [M.bind, pure, M.modifyFe_apply, M.getFe_apply]; split <;> rfl
             | some p => obtain ⟨v, x, eid⟩ := p; simp only [M.bind, pure, M.modifyFe_apply, M.getFe_apply]; split <;> rfl)
          | (cases ht : (s'.fe.constraints.headD default).triv with
             | none => rfl
             | some p => obtain ⟨v, x, eid⟩ := p; rfl)

end Claripy.Solver
