import ClaripyProofs.Lemmas.Solver.CompositeQueries
/-!
The bookkeeping invariant `CInv` THROUGH the queries of CompositeFrontend, so that histories may go on after a query.

* `CInv.of_world`: the composite's record untouched, the world of children changed in a way that keeps every child's variables
  and meaning (new records appended, caches filled): `CInv` again.  Covers `_solver_for_names` (a merged child nobody points
  to joins the world) and the child's query.
* `reabsorb_noop`: `_reabsorb_solver(m)` does nothing when `m` knows no variable or is the child its least variable points to -
  which is the case whenever the names of the query belong to one child at most (`solverForNames_one`).
* `ReabsorbKeeps`: the statement "`_reabsorb_solver` re-establishes `CInv`" at the state in which it is called, as a `def`;
  proved in CompositeSplit / CompositeUpdate / CompositeReplace.lean (`reabsorbKeeps`).
* `compQuery_keeps` / `compTruth_keeps`: the value queries and `is_true` / `is_false` keep `CInv` - unconditionally when all
  names of the query are one variable, else given `ReabsorbKeeps`.
-/
namespace Claripy.Solver

variable {R : Con → Prop} {RE : Exp → Prop} {E : Env}

theorem outOfC_snd {α : Type} (f : α → Out) (r : Except Err α × CSt) : (outOfC f r).2 = r.2 := by
  obtain ⟨a, s⟩ := r
  cases a <;> rfl

/-- the composite's record kept, the world changed so that the old children keep their variables and their meaning -/
theorem CInv.of_world {U : List Con} {Us Us2 : List (List Con)} {s : CSt} (h : CInv R RE E U Us s) (w2 : World)
    (hk : TInvS R RE E Us2 w2) (hre : w2.reuse = false)
    (hkeys : ∀ j, j < w2.fes.length → KeysInv (w2.fes.getD j {}))
    (hex : ∀ j, j < w2.fes.length → ExactVars (w2.fes.getD j {}))
    (hlen : s.w.fes.length ≤ w2.fes.length)
    (hv : ∀ j, j < s.w.fes.length → (w2.fes.getD j {}).variables = (s.child j).variables)
    (hU : ∀ j, j < s.w.fes.length → ∀ a, Models (Us2.getD j []) a ↔ Models (Us.getD j []) a) :
    CInv R RE E U Us2 { c := s.c, w := w2 } := by
  have hltL : ∀ j ∈ s.c.solverList, j < s.w.fes.length := by
    intro j hj
    obtain ⟨v, hvj⟩ := (mem_solverList' _ h.nodup j).mp hj
    exact (h.map v j hvj).1
  refine ⟨hk, hre, hkeys, hex, h.nodup, ?_, ?_, ?_, h.unsatOk, ?_⟩
  · intro v j hvj
    obtain ⟨h1, h2⟩ := h.map v j hvj
    refine ⟨Nat.lt_of_lt_of_le h1 hlen, ?_⟩
    show v ∈ (w2.fes.getD j {}).variables
    rw [hv j h1]; exact h2
  · intro v j hvj u hu
    have h1 := (h.map v j hvj).1
    have hu' : u ∈ (w2.fes.getD j {}).variables := hu
    rw [hv j h1] at hu'
    exact h.cover v j hvj u hu'
  · intro hun a
    have hun' : s.c.unsat = false := hun
    rw [h.sem hun' a]
    constructor
    · intro hall j hj; exact (hU j (hltL j hj) a).mpr (hall j hj)
    · intro hall j hj; exact (hU j (hltL j hj) a).mp (hall j hj)
  · intro j hj hnu
    obtain ⟨a, ha⟩ := h.checked j hj hnu
    exact ⟨a, (hU j (hltL j hj) a).mpr ha⟩

/-- after `_solver_for_names` and a query of the merged child that has the footprint: the invariant still holds (the merged
child is a record nobody points to, or the one child that owns the names) -/
theorem cinv_after_query {U : List Con} {Us Us1 : List (List Con)} {s s1 : CSt} {names : List Var} {m : Nat}
    (h : CInv R RE E U Us s) (hm : Merged R RE E Us Us1 s s1 names m) (w2 : World)
    (hk2 : TInvS R RE E Us1 w2) (hre2 : w2.reuse = false) (hlen2 : w2.fes.length = s1.w.fes.length)
    (hother : ∀ j, j ≠ m → w2.fes.getD j {} = s1.w.fes.getD j {})
    (hfv : (w2.fes.getD m {}).variables = (s1.child m).variables)
    (hfc : (w2.fes.getD m {}).constraints = (s1.child m).constraints)
    (hfk : KeysInv (s1.child m) → KeysInv (w2.fes.getD m {})) :
    CInv R RE E U Us1 { s1 with w := w2 } := by
  have hgoal : ({ s1 with w := w2 } : CSt) = { c := s.c, w := w2 } := by rw [← hm.comp]
  rw [hgoal]
  refine h.of_world w2 hk2 hre2 ?_ ?_ (by rw [hlen2]; exact hm.len) ?_ ?_
  · intro j hj
    by_cases hjm : j = m
    · subst hjm; exact hfk (hm.keysOk j hm.lt)
    · rw [hother j hjm]; exact hm.keysOk j (by rw [← hlen2]; exact hj)
  · intro j hj
    by_cases hjm : j = m
    · subst hjm; exact exactVars_congr hfc hfv (hm.exact j hm.lt)
    · rw [hother j hjm]; exact hm.exact j (by rw [← hlen2]; exact hj)
  · intro j hj
    by_cases hjm : j = m
    · subst hjm; rw [hfv, (hm.frame j hj).1]
    · rw [hother j hjm]
      show (s1.child j).variables = _
      rw [(hm.frame j hj).1]
  · intro j hj a
    rw [(hm.frame j hj).2]

/-! ### `_reabsorb_solver` -/

/-- `_reabsorb_solver(m)` does nothing when `m` knows no variable, or is the child `_solvers` has for its least variable -/
theorem reabsorb_noop (s : CSt) (m : Nat)
    (h : (s.child m).variables = [] ∨ alGet? s.c.solvers (minVar (s.child m).variables) = some m) :
    reabsorb E m s = (.ok (), s) := by
  unfold reabsorb
  simp only [bind, CM.bind, CM.get]
  by_cases hv : (s.child m).variables.isEmpty = true
  · simp only [hv, ↓reduceIte, pure, CM.pure]
  · rcases h with h | h
    · rw [h] at hv; exact absurd rfl hv
    · simp only [hv, Bool.false_eq_true, ↓reduceIte, h, beq_self_eq_true, pure, CM.pure]

/-- **`_reabsorb_solver` re-establishes the invariant** (the statement; proved as `reabsorbKeeps`, CompositeReplace.lean):
`_reabsorb_solver(m)`, called with the invariant in force on a temporary child `m` that holds exactly the
constraints of the children owning its variables (those satisfiable: `_ensure_sat` has run), re-establishes the invariant.
Both branches: `len(parts) == len(old)` (`update` of the old children: cached models whose key set is the child's variable set,
and the parts' exhausted markers) and the replacement of the children by the parts. -/
def ReabsorbKeeps (R : Con → Prop) (RE : Exp → Prop) (E : Env) : Prop :=
  ∀ (U : List Con) (Us : List (List Con)) (s : CSt) (m : Nat), CInv R RE E U Us s → m < s.w.fes.length →
    (∀ v ∈ (s.child m).variables, ∃ t, alGet? s.c.solvers v = some t) →
    (∀ t ∈ s.c.solversFor (s.child m).variables, ∀ v ∈ (s.child t).variables, v ∈ (s.child m).variables) →
    (∀ a, Models (Us.getD m []) a ↔ ∀ t ∈ s.c.solversFor (s.child m).variables, Models (Us.getD t []) a) →
    (∀ t ∈ s.c.solversFor (s.child m).variables, Satisfiable (Us.getD t [])) → s.c.unsat = false →
    ∀ s', reabsorb E m s = (.ok (), s') → ∃ Us', CInv R RE E U Us' s'

/-- all names of a query are one variable -/
def OneName (names : List Var) : Prop := ∀ v ∈ names, ∀ w ∈ names, v = w

theorem OneName.solversFor {names : List Var} (h1 : OneName names) (c : Comp) :
    ∀ t ∈ c.solversFor names, ∀ t' ∈ c.solversFor names, t = t' := by
  intro t ht t' ht'
  obtain ⟨n, hn, hnt⟩ := (mem_solversFor _ _ _).mp ht
  obtain ⟨n', hn', hnt'⟩ := (mem_solversFor _ _ _).mp ht'
  rw [h1 n hn n' hn', hnt'] at hnt
  exact (Option.some.inj hnt).symm

/-- with one child at most owning the names, `_solver_for_names` creates a blank child or hands that child back -/
theorem solverForNames_one {U : List Con} {Us : List (List Con)} {s : CSt} (h : CInv R RE E U Us s) (names : List Var)
    (hone : ∀ t ∈ s.c.solversFor names, ∀ t' ∈ s.c.solversFor names, t = t') :
    (solverForNames E names s = blankChild E s ∧ s.c.solversFor names = []) ∨
    (∃ j, solverForNames E names s = (.ok j, s) ∧ j ∈ s.c.solversFor names) := by
  obtain ⟨hnd, hmem⟩ := closure_names h names ((s.w.fes.map (fun f : Frontend => f.variables.length)).sum)
  have hrun : solverForNames E names s =
      (match closureLoop s ((s.w.fes.map (fun f : Frontend => f.variables.length)).sum + 1) names names [] with
       | [] => blankChild E
       | [j] => pure j
       | l => (do
          match ← orderChildren E l with
          | [] => blankChild E
          | j :: rest => childCombine E j rest : CM Nat)) s := rfl
  rw [hrun]
  cases hcl : closureLoop s ((s.w.fes.map (fun f : Frontend => f.variables.length)).sum + 1) names names [] with
  | nil => exact Or.inl ⟨rfl, solversFor_eq_nil_of_closure h names _ hcl⟩
  | cons j rest =>
    cases rest with
    | nil =>
      refine Or.inr ⟨j, rfl, ?_⟩
      rw [← hmem j, hcl]; simp
    | cons r rest =>
      exfalso
      rw [hcl] at hnd hmem
      have hj := (hmem j).mp (by simp)
      have hr := (hmem r).mp (by simp)
      have hjr := hone j hj r hr
      subst hjr
      simp at hnd

/-- at most one child owns names of the set (a condition on the composite's dict `_solvers`) -/
def UniqOwner (c : Comp) (names : List Var) : Prop := ∀ t ∈ c.solversFor names, ∀ t' ∈ c.solversFor names, t = t'

theorem OneName.uniqOwner {names : List Var} (h1 : OneName names) (c : Comp) : UniqOwner c names := h1.solversFor c

theorem solversFor_congr {c c' : Comp} (h : c'.solvers = c.solvers) (names : List Var) : c'.solversFor names = c.solversFor names := by
  have hstep : c'.solversForStep = c.solversForStep := by
    funext acc n
    simp only [Comp.solversForStep, h]
  simp only [Comp.solversFor, hstep]

theorem solversFor_nodup (c : Comp) (names : List Var) : (c.solversFor names).Nodup := by
  unfold Comp.solversFor
  have : ∀ (acc : List Nat), acc.Nodup → (names.foldl c.solversForStep acc).Nodup := by
    induction names with
    | nil => intro acc h; exact h
    | cons n ns ih =>
      intro acc h
      simp only [List.foldl_cons]
      refine ih _ ?_
      unfold Comp.solversForStep
      split
      · exact nodup_listInsert acc _ h
      · exact h
  exact this [] List.nodup_nil

theorem UniqOwner.congr {c c' : Comp} (h : c'.solvers = c.solvers) {names : List Var} (hu : UniqOwner c names) :
    UniqOwner c' names := by
  unfold UniqOwner
  rw [solversFor_congr h]
  exact hu

section
variable (H : SolverHyps R RE E)
include H

/-- `satisfiable()` leaves the dict `_solvers` alone -/
theorem compSatisfiable_solvers {U : List Con} {Us : List (List Con)} {s : CSt} (h : CInv R RE E U Us s) :
    (compSatisfiable E [] s).2.c.solvers = s.c.solvers := by
  unfold compSatisfiable
  simp only [bind, CM.bind, CM.get, List.isEmpty_nil, ↓reduceIte]
  by_cases hun : s.c.unsat = true
  · simp only [hun, ↓reduceIte, pure, CM.pure]
  · have hun' : s.c.unsat = false := by simpa using hun
    simp only [hun', Bool.false_eq_true, ↓reduceIte, CM.bind, orderChildren, orderOracle_run]
    generalize reorderBy (fun (j : Nat) k => k == [j])
      (E.pick (s.c.unchecked.map fun j => [j]) (s.c.unchecked.map fun j => [j]).length s.w.tick) s.c.unchecked = order
    have hl := checkLoop_spec H (childFoot H) order _ (h.set_tick (s.w.tick + 1))
    revert hl
    generalize checkLoop E none order _ = res
    obtain ⟨r, s1⟩ := res
    cases r with
    | error e => exact fun hl => by rw [hl.2.2]
    | ok b =>
      rintro ⟨_, hc1, _, _⟩
      cases b with
      | false => simp only [Bool.not_false, ↓reduceIte, pure, CM.pure]; rw [hc1]
      | true =>
        simp only [Bool.not_true, Bool.false_eq_true, ↓reduceIte, pure]
        show ({ s1.c with unchecked := [] } : Comp).solvers = s.c.solvers
        rw [hc1]

end

section
variable (H : SolverHyps R RE E)
include H

/-- **a value query of the composite keeps the invariant** (no extra constraints): unconditionally when one child at most owns
the names (`UniqOwner`; in particular when the names are one variable); given `ReabsorbKeeps` otherwise -/
theorem compQuery_keeps {α : Type} {U : List Con} {Us : List (List Con)} {s : CSt} (h : CInv R RE E U Us s) (op : Op)
    (names : List Var) (q : M α) (f : α → Out)
    (hK : UniqOwner s.c names ∨ ReabsorbKeeps R RE E)
    (hstep : ∀ w i, step E .SolverCompositeChild w i op = outOf f (runOn w i q))
    (hsc : InScopeC R RE op) (hnb : op ≠ .branch)
    (hual : ∀ X i, usersAll X i op = X)
    (hfoot : ∀ (U' : List Con) s', SI R RE E (fun _ => True) U' s' → FootQ s' (q s').2) :
    ∃ Us', CInv R RE E U Us' (compQuery E names [] q s).2 := by
  simp only [compQuery, bind, CM.bind, ensureSat, CM.get]
  by_cases hu : s.c.unsat = true
  · simp only [hu, ↓reduceIte, CM.throw]
    exact ⟨Us, h⟩
  · have hu' : s.c.unsat = false := by simpa using hu
    simp only [hu', Bool.false_eq_true, ↓reduceIte, CM.bind]
    have hs := compSatisfiable_spec H (childFoot H) h
    have hsolv := compSatisfiable_solvers H h
    revert hs hsolv
    generalize compSatisfiable E [] s = res
    obtain ⟨r, s0⟩ := res
    cases r with
    | error e' => intro hs _; exact ⟨Us, hs.2⟩
    | ok b =>
      rintro ⟨hb, h0⟩ hsolv
      cases b with
      | false =>
        simp only [Bool.not_false, ↓reduceIte, CM.throw]
        exact ⟨Us, h0⟩
      | true =>
        simp only [Bool.not_true, Bool.false_eq_true, ↓reduceIte, pure, CM.pure]
        have hsatU : Satisfiable U := hb.mp rfl
        have hu0 : s0.c.unsat = false := by
          cases hx : s0.c.unsat with
          | false => rfl
          | true => exact absurd hsatU (h0.unsatOk hx)
        obtain ⟨m, Us1, s1, hr, hm⟩ := solverForNames_spec (combineSpec H (childFoot H)) h0 names
        simp only [hr]
        have hallsat : ∀ j ∈ s0.c.solverList, Satisfiable (Us.getD j []) := by
          obtain ⟨a, ha⟩ := hsatU
          exact fun j hj => ⟨a, (h0.sem hu0 a).mp ha j hj⟩
        have hst := ch_step_nb H s1.w Us1 hm.kids m hm.lt op hsc hnb
        have hft := hfoot _ (stOfI s1.w m) (hm.kids.each m hm.lt)
        rw [hstep, hual] at hst
        have hre2 : (runOn s1.w m q).2.reuse = s1.w.reuse := rfl
        have hlen2 := runOn_fes_length s1.w m q
        have hself2 := runOn_getD_self s1.w m q hm.lt
        have hoth2 : ∀ j, j ≠ m → (runOn s1.w m q).2.fes.getD j {} = s1.w.fes.getD j {} :=
          fun j hj => runOn_getD_ne s1.w m q j hj
        simp only [CM.onChild]
        revert hst hre2 hlen2 hself2 hoth2
        generalize runOn s1.w m q = res2
        obtain ⟨r2, w2⟩ := res2
        intro hst hre2 hlen2 hself2 hoth2
        have hk2 : TInvS R RE E Us1 w2 := by
          cases r2 <;> exact hst.2
        have hfv : (w2.fes.getD m {}).variables = (s1.child m).variables := by rw [hself2, hft.1]; rfl
        have hfc : (w2.fes.getD m {}).constraints = (s1.child m).constraints := by rw [hself2, hft.2.1]; rfl
        have hfk : KeysInv (s1.child m) → KeysInv (w2.fes.getD m {}) := by rw [hself2]; exact hft.2.2
        have h2 : CInv R RE E U Us1 { s1 with w := w2 } :=
          cinv_after_query h0 hm w2 hk2 (by rw [hre2]; exact hm.reuse) hlen2 hoth2 hfv hfc hfk
        cases r2 with
        | error e' => exact ⟨Us1, h2⟩
        | ok vs =>
          dsimp only
          have hsolIn : ∀ t ∈ s0.c.solversFor names, t ∈ s0.c.solverList := by
            intro t ht
            obtain ⟨n, _, hn⟩ := (mem_solversFor _ _ _).mp ht
            exact (mem_solverList' _ h0.nodup t).mpr ⟨n, hn⟩
          have hmv : (({ s1 with w := w2 } : CSt).child m).variables = (s1.child m).variables := hfv
          rcases hK with h1 | hRK
          · -- one child at most owns the names: nothing to reabsorb
            have hnoop : reabsorb E m { s1 with w := w2 } = (.ok (), { s1 with w := w2 }) := by
              apply reabsorb_noop
              rw [hmv]
              rcases solverForNames_one h0 names (h1.congr hsolv) with ⟨_, hnil⟩ | ⟨j, hrj, hj⟩
              · left
                cases hvs : (s1.child m).variables with
                | nil => rfl
                | cons v _ =>
                  obtain ⟨t, ht, _⟩ := hm.sub v (by rw [hvs]; simp)
                  rw [hnil] at ht; cases ht
              · rw [hrj] at hr
                have hmj : j = m := by injection hr with h1 _; injection h1
                have hss : s0 = s1 := by injection hr
                subst hmj; subst hss
                by_cases hvs : (s0.child j).variables = []
                · exact Or.inl hvs
                · right
                  obtain ⟨n, _, hn⟩ := (mem_solversFor _ _ _).mp hj
                  exact h0.cover n j hn _ (minVar_mem _ hvs)
            rw [hnoop]
            exact ⟨Us1, h2⟩
          · -- several children: the open statement
            have hmem : ∀ t, t ∈ s0.c.solversFor (s1.child m).variables ↔ t ∈ s0.c.solversFor names := by
              intro t
              constructor
              · intro ht
                obtain ⟨v, hv, hvt⟩ := (mem_solversFor _ _ _).mp ht
                obtain ⟨t', ht', hvt'⟩ := hm.sub v hv
                obtain ⟨n, _, hn⟩ := (mem_solversFor _ _ _).mp ht'
                have := h0.cover n t' hn v hvt'
                rw [hvt] at this
                rw [Option.some.inj this]; exact ht'
              · intro ht
                obtain ⟨n, _, hn⟩ := (mem_solversFor _ _ _).mp ht
                have hnv := (h0.map n t hn).2
                exact (mem_solversFor _ _ _).mpr ⟨n, hm.sup t ht n hnv, hn⟩
            have hltN : ∀ t ∈ s0.c.solversFor names, t < s0.w.fes.length := by
              intro t ht
              obtain ⟨n, _, hn⟩ := (mem_solversFor _ _ _).mp ht
              exact (h0.map n t hn).1
            have hcvars : ∀ t, t < s0.w.fes.length →
                (({ s1 with w := w2 } : CSt).child t).variables = (s0.child t).variables := by
              intro t ht
              by_cases htm : t = m
              · subst htm; rw [hmv, (hm.frame t ht).1]
              · show (w2.fes.getD t {}).variables = _
                rw [hoth2 t htm]
                show (s1.child t).variables = _
                rw [(hm.frame t ht).1]
            have hc2 : ({ s1 with w := w2 } : CSt).c = s0.c := hm.comp
            have hkeys2 : ∀ v ∈ (({ s1 with w := w2 } : CSt).child m).variables,
                ∃ t, alGet? ({ s1 with w := w2 } : CSt).c.solvers v = some t := by
              intro v hv
              rw [hmv] at hv
              obtain ⟨t, ht, hvt⟩ := hm.sub v hv
              obtain ⟨n', _, hn'⟩ := (mem_solversFor _ _ _).mp ht
              exact ⟨t, by rw [hc2]; exact h0.cover n' t hn' v hvt⟩
            obtain ⟨s3, hrb⟩ := reabsorb_ok H (s := { s1 with w := w2 }) hk2 (by rw [hre2]; exact hm.reuse) m
              (by show m < w2.fes.length; rw [hlen2]; exact hm.lt) hkeys2
            rw [hrb]
            dsimp only
            refine hRK U Us1 { s1 with w := w2 } m h2 (by show m < w2.fes.length; rw [hlen2]; exact hm.lt) hkeys2 ?_ ?_ ?_
              (by rw [hc2]; exact hu0) s3 hrb
            · intro t ht v hv
              rw [hmv, hc2] at ht
              rw [hmv]
              have ht' := (hmem t).mp ht
              rw [hcvars t (hltN t ht')] at hv
              exact hm.sup t ht' v hv
            · intro a
              rw [hmv, hc2, hm.sem a]
              constructor
              · intro hall t ht
                have ht' := (hmem t).mp ht
                rw [(hm.frame t (hltN t ht')).2]; exact hall t ht'
              · intro hall t ht
                have := hall t ((hmem t).mpr ht)
                rwa [(hm.frame t (hltN t ht)).2] at this
            · intro t ht
              rw [hmv, hc2] at ht
              have ht' := (hmem t).mp ht
              rw [(hm.frame t (hltN t ht')).2]
              exact hallsat t (hsolIn t ht')

/-- **`is_true` / `is_false` of SolverCompositeChild have the footprint** (`_get_solver`, one question to the backend) -/
theorem child_truth_foot {G : St → Prop} {U : List Con} (isT : Bool) (c : Con) (extra : List Con) :
    FootSpec R RE E G U (if isT then (childOps E).isTrue c extra else (childOps E).isFalse c extra) := by
  intro s h
  have hrun : (if isT then (childOps E).isTrue c extra else (childOps E).isFalse c extra) s =
      (do let _ ← getSolver
          let s ← M.get
          M.modify fun s => { s with tick := s.tick + 1 }
          pure (E.truth isT c s.tick) : M Bool) s := by
    cases isT <;> rfl
  rw [hrun]
  simp only [bind, M.bind]
  have hg := getSolver_foot H s h
  revert hg
  generalize getSolver s = res
  obtain ⟨r, s1⟩ := res
  cases r with
  | error e => exact fun hg => hg.elim
  | ok r =>
    rintro ⟨_, hf1, _⟩
    exact hf1

/-- **`is_true` / `is_false` of the composite keep the invariant** (any extra constraints): a merged child may join the world;
the composite's record is not touched -/
theorem compTruth_keeps {U : List Con} {Us : List (List Con)} {s : CSt} (h : CInv R RE E U Us s) (isT : Bool) (c : Con)
    (extra : List Con) :
    ∃ Us', CInv R RE E U Us' (compStep E s (if isT then .isTrue c extra else .isFalse c extra)).2 := by
  obtain ⟨m, Us1, s1, hr, hm⟩ := solverForNames_spec (combineSpec H (childFoot H)) h (namesFor (c.vars :: extra.map (·.vars)))
  have key : ∀ (op : Op) (q : M Bool), (∀ w i, step E .SolverCompositeChild w i op = outOf .bool (runOn w i q)) →
      InScopeC R RE op → op ≠ .branch → (∀ X i, usersAll X i op = X) →
      (∀ (U' : List Con) s', SI R RE E (fun _ => True) U' s' → FootQ s' (q s').2) →
      ∃ Us', CInv R RE E U Us' ((do
        let ms ← solverForNames E (namesFor (c.vars :: extra.map (·.vars)))
        CM.onChild ms q : CM Bool) s).2 := by
    intro op q hstep hsc hnb hual hfoot
    have hst := ch_step_nb H s1.w Us1 hm.kids m hm.lt op hsc hnb
    have hft := hfoot _ (stOfI s1.w m) (hm.kids.each m hm.lt)
    rw [hstep, hual] at hst
    have hre2 : (runOn s1.w m q).2.reuse = s1.w.reuse := rfl
    have hlen2 := runOn_fes_length s1.w m q
    have hself2 := runOn_getD_self s1.w m q hm.lt
    have hoth2 : ∀ j, j ≠ m → (runOn s1.w m q).2.fes.getD j {} = s1.w.fes.getD j {} :=
      fun j hj => runOn_getD_ne s1.w m q j hj
    simp only [bind, CM.bind, hr, CM.onChild]
    revert hst hre2 hlen2 hself2 hoth2
    generalize runOn s1.w m q = res2
    obtain ⟨r2, w2⟩ := res2
    intro hst hre2 hlen2 hself2 hoth2
    have hk2 : TInvS R RE E Us1 w2 := by
      cases r2 <;> exact hst.2
    have hfv : (w2.fes.getD m {}).variables = (s1.child m).variables := by rw [hself2, hft.1]; rfl
    have hfc : (w2.fes.getD m {}).constraints = (s1.child m).constraints := by rw [hself2, hft.2.1]; rfl
    have hfk : KeysInv (s1.child m) → KeysInv (w2.fes.getD m {}) := by rw [hself2]; exact hft.2.2
    exact ⟨Us1, cinv_after_query h hm w2 hk2 (by rw [hre2]; exact hm.reuse) hlen2 hoth2 hfv hfc hfk⟩
  cases isT with
  | true =>
    show ∃ Us', CInv R RE E U Us' (outOfC .bool (compIsTrue E c extra s)).2
    rw [outOfC_snd]
    exact key (.isTrue c extra) ((childOps E).isTrue c extra) (fun _ _ => rfl) trivial (by intro hx; cases hx)
      (fun _ _ => rfl) (fun U' s' hs' => child_truth_foot H true c extra s' hs')
  | false =>
    show ∃ Us', CInv R RE E U Us' (outOfC .bool (compIsFalse E c extra s)).2
    rw [outOfC_snd]
    exact key (.isFalse c extra) ((childOps E).isFalse c extra) (fun _ _ => rfl) trivial (by intro hx; cases hx)
      (fun _ _ => rfl) (fun U' s' hs' => child_truth_foot H false c extra s' hs')

end

/-! ### histories that go on after a query -/

theorem oneName_namesFor {vss : List (List Var)} {x : Var} (h : ∀ vs ∈ vss, ∀ v ∈ vs, v = x) : OneName (namesFor vss) := by
  intro v hv w hw
  obtain ⟨vs, hvs, hvv⟩ := (mem_namesFor vss v).mp hv
  obtain ⟨ws, hws, hww⟩ := (mem_namesFor vss w).mp hw
  rw [h vs hvs v hvv, h ws hws w hww]

/-- the calls of a history on one CompositeFrontend: `add` of registered constraints (a constraint without variables must be
decided by the concrete backend), `satisfiable()`, `eval` / `batch_eval` / `solution` of registered symbolic expressions without
extra constraints - `K` says which name sets they may ask about -, `is_true` / `is_false` with any extra constraints -/
def InScopeCH (R : Con → Prop) (RE : Exp → Prop) (K : List Var → Prop) : Op → Prop
  | .add cs => (∀ c ∈ cs, R c) ∧ ∀ c ∈ cs, c.vars = [] → c.conc ≠ none
  | .satisfiable extra => extra = []
  | .eval e n extra => RE e ∧ e.conc = none ∧ 1 ≤ n ∧ extra = [] ∧ K (namesFor [e.vars])
  | .batchEval es n extra => es ≠ [] ∧ (∀ e ∈ es, RE e ∧ e.conc = none) ∧ 1 ≤ n ∧ extra = [] ∧ K (namesFor (es.map (·.vars)))
  | .solution e x extra => RE e ∧ e.conc = none ∧ x < 2 ^ e.bits ∧ extra = [] ∧ K (namesFor [e.vars])
  | .isTrue _ _ | .isFalse _ _ => True
  | _ => False

section
variable (H : SolverHyps R RE E)
include H

/-- **one call of a history**: the answer `Judge` demands for everything the user added (or an honest give-up of a child's
backend), and the invariant again -/
theorem comp_step2 {K : List Var → Prop} {U : List Con} {Us : List (List Con)} {s : CSt}
    (hK : ∀ names, K names → UniqOwner s.c names ∨ ReabsorbKeeps R RE E)
    (h : CInv R RE E U Us s) (op : Op) (hop : InScopeCH R RE K op) :
    JudgeOrGiveUp E (usersAfter U op) op (compStep E s op).1 ∧ ∃ Us', CInv R RE E (usersAfter U op) Us' (compStep E s op).2 := by
  cases op with
  | add cs => exact comp_step H h (.add cs) hop
  | satisfiable extra => exact comp_step H h (.satisfiable extra) hop
  | eval e n extra =>
    obtain ⟨he, hc, hn, rfl, hk⟩ := hop
    refine ⟨compEval_judge H h e n he hc hn, ?_⟩
    have hrun : compStep E s (.eval e n []) =
        outOfC .vals (compQuery E (namesFor [e.vars]) [] ((childOps E).eval e n []) s) := rfl
    have hstep : ∀ w i, step E .SolverCompositeChild w i (.eval e n []) =
        outOf .vals (runOn w i ((childOps E).eval e n [])) := fun _ _ => rfl
    have hsc : InScopeC R RE (.eval e n []) := ⟨he, hc, hn⟩
    have hft : ∀ (U' : List Con) s', SI R RE E (fun _ => True) U' s' → FootQ s' (((childOps E).eval e n []) s').2 :=
      fun U' s' hs' => (childFoot H).eval _ U' e n [] s' hs'
    have key := compQuery_keeps H h (.eval e n []) (namesFor [e.vars]) ((childOps E).eval e n []) Out.vals (hK _ hk)
      hstep hsc (by intro hx; cases hx) (fun _ _ => rfl) hft
    rw [hrun, outOfC_snd]
    exact key
  | batchEval es n extra =>
    obtain ⟨hne, hes, hn, rfl, hk⟩ := hop
    refine ⟨compBatchEval_judge H h es n hne hes hn, ?_⟩
    have hrun : compStep E s (.batchEval es n []) =
        outOfC .tuples (compQuery E (namesFor (es.map (·.vars))) [] ((childOps E).batchEval es n []) s) := by
      simp only [compStep, compBatchEval, List.map_nil, List.nil_append]
    have hstep : ∀ w i, step E .SolverCompositeChild w i (.batchEval es n []) =
        outOf .tuples (runOn w i ((childOps E).batchEval es n [])) := fun _ _ => rfl
    have hsc : InScopeC R RE (.batchEval es n []) := ⟨hne, hes, hn⟩
    have hft : ∀ (U' : List Con) s', SI R RE E (fun _ => True) U' s' → FootQ s' (((childOps E).batchEval es n []) s').2 :=
      fun U' s' hs' => child_batchEval_foot H es n [] s' hs'
    have key := compQuery_keeps H h (.batchEval es n []) (namesFor (es.map (·.vars))) ((childOps E).batchEval es n []) Out.tuples
      (hK _ hk) hstep hsc (by intro hx; cases hx) (fun _ _ => rfl) hft
    rw [hrun, outOfC_snd]
    exact key
  | solution e x extra =>
    obtain ⟨he, hc, hx, rfl, hk⟩ := hop
    refine ⟨compSolution_judge H h e x he hc hx, ?_⟩
    have hrun : compStep E s (.solution e x []) =
        outOfC .bool (compQuery E (namesFor [e.vars]) [] ((childOps E).solution e x []) s) := by
      simp only [compStep, compSolution, List.map_nil]
    have hstep : ∀ w i, step E .SolverCompositeChild w i (.solution e x []) =
        outOf .bool (runOn w i ((childOps E).solution e x [])) := fun _ _ => rfl
    have hsc : InScopeC R RE (.solution e x []) := ⟨hc, hx⟩
    have hft : ∀ (U' : List Con) s', SI R RE E (fun _ => True) U' s' → FootQ s' (((childOps E).solution e x []) s').2 :=
      fun U' s' hs' => child_solution_foot H e x [] s' hs'
    have key := compQuery_keeps H h (.solution e x []) (namesFor [e.vars]) ((childOps E).solution e x []) Out.bool (hK _ hk)
      hstep hsc (by intro hx; cases hx) (fun _ _ => rfl) hft
    rw [hrun, outOfC_snd]
    exact key
  | isTrue c extra => exact ⟨compTruth_judge H h true c extra, compTruth_keeps H h true c extra⟩
  | isFalse c extra => exact ⟨compTruth_judge H h false c extra, compTruth_keeps H h false c extra⟩
  | _ => exact hop.elim

/-- **any history of calls in scope**: every answer is the one `Judge` demands for what the user had added when it was given -/
theorem comp_hist2 {K : List Var → Prop} (hK : ∀ names, K names → OneName names ∨ ReabsorbKeeps R RE E) :
    ∀ (hist : List Op) (s : CSt) (U : List Con) (Us : List (List Con)), CInv R RE E U Us s →
    (∀ op ∈ hist, InScopeCH R RE K op) → ∀ x ∈ runComp E s U hist, JudgeOrGiveUp E x.1 x.2.1 x.2.2
  | [], _, _, _, _, _ => fun x hx => by cases hx
  | op :: rest, s, U, Us, h, hok => by
    intro x hx
    obtain ⟨hj, Us', hinv⟩ := comp_step2 H (fun names hk => (hK names hk).imp (·.uniqOwner _) id) h op (hok op (by simp))
    rw [runComp_cons] at hx
    rcases List.mem_cons.mp hx with rfl | hx
    · exact hj
    · exact comp_hist2 hK rest _ _ Us' hinv (fun op' hop' => hok op' (by simp [hop'])) x hx

/-- the invariant at the end of such a history -/
theorem comp_hist2_inv {K : List Var → Prop} (hK : ∀ names, K names → OneName names ∨ ReabsorbKeeps R RE E) :
    ∀ (hist : List Op) (s : CSt) (U : List Con) (Us : List (List Con)), CInv R RE E U Us s →
    (∀ op ∈ hist, InScopeCH R RE K op) → ∃ Us', CInv R RE E (usersAfterOps U hist) Us' (compRun E s hist)
  | [], _, _, Us, h, _ => ⟨Us, h⟩
  | op :: rest, s, U, Us, h, hok => by
    obtain ⟨_, Us', hinv⟩ := comp_step2 H (fun names hk => (hK names hk).imp (·.uniqOwner _) id) h op (hok op (by simp))
    exact comp_hist2_inv hK rest _ _ Us' hinv (fun op' hop' => hok op' (by simp [hop']))

/-- the name set a value query asks `_solver_for_names` about -/
def queryNames : Op → Option (List Var)
  | .eval e _ _ => some (namesFor [e.vars])
  | .batchEval es _ _ => some (namesFor (es.map (·.vars)))
  | .solution e _ _ => some (namesFor [e.vars])
  | _ => none

omit H in
theorem InScopeCH.mono {K K' : List Var → Prop} {op : Op} (hkk : ∀ names, queryNames op = some names → K names → K' names)
    (h : InScopeCH R RE K op) : InScopeCH R RE K' op := by
  cases op with
  | eval e n extra => exact ⟨h.1, h.2.1, h.2.2.1, h.2.2.2.1, hkk _ rfl h.2.2.2.2⟩
  | batchEval es n extra => exact ⟨h.1, h.2.1, h.2.2.1, h.2.2.2.1, hkk _ rfl h.2.2.2.2⟩
  | solution e x extra => exact ⟨h.1, h.2.1, h.2.2.1, h.2.2.2.1, hkk _ rfl h.2.2.2.2⟩
  | add cs => exact h
  | satisfiable extra => exact h
  | isTrue c extra => exact h
  | isFalse c extra => exact h
  | _ => exact h.elim

/-- along the run of the model, whenever a value query is asked one child at most owns its names (the variables of the query
were connected by constraints before, or are one variable): a condition on the bookkeeping, checkable by running the model -/
def OwnersOk (E : Env) : CSt → List Op → Prop
  | _, [] => True
  | s, op :: rest => (∀ names, queryNames op = some names → UniqOwner s.c names) ∧ OwnersOk E (compStep E s op).2 rest

omit H in
/-- value queries about one variable each satisfy it in every run -/
theorem ownersOk_of_oneName : ∀ (hist : List Op) (s : CSt), (∀ op ∈ hist, InScopeCH R RE OneName op) → OwnersOk E s hist
  | [], _, _ => trivial
  | op :: rest, s, hok => by
    refine ⟨fun names hn => ?_, ownersOk_of_oneName rest _ (fun op' hop' => hok op' (by simp [hop']))⟩
    have h := hok op (by simp)
    cases op with
    | eval e n extra => cases hn; exact h.2.2.2.2.uniqOwner _
    | batchEval es n extra => cases hn; exact h.2.2.2.2.uniqOwner _
    | solution e x extra => cases hn; exact h.2.2.2.2.uniqOwner _
    | _ => cases hn

/-- **any history in which every value query finds its names within one child** -/
theorem comp_hist3 : ∀ (hist : List Op) (s : CSt) (U : List Con) (Us : List (List Con)), CInv R RE E U Us s →
    (∀ op ∈ hist, InScopeCH R RE (fun _ => True) op) → OwnersOk E s hist →
    ∀ x ∈ runComp E s U hist, JudgeOrGiveUp E x.1 x.2.1 x.2.2
  | [], _, _, _, _, _, _ => fun x hx => by cases hx
  | op :: rest, s, U, Us, h, hok, hown => by
    intro x hx
    have hop : InScopeCH R RE (UniqOwner s.c) op := (hok op (by simp)).mono (fun names hn _ => hown.1 names hn)
    obtain ⟨hj, Us', hinv⟩ := comp_step2 H (K := UniqOwner s.c) (fun _ hk => Or.inl hk) h op hop
    rw [runComp_cons] at hx
    rcases List.mem_cons.mp hx with rfl | hx
    · exact hj
    · exact comp_hist3 rest _ _ Us' hinv (fun op' hop' => hok op' (by simp [hop'])) hown.2 x hx

end

end Claripy.Solver
