import ClaripyProofs.Lemmas.Solver.Z3Obj
/-!
`BackendZ3._unsat_core` after an unsatisfiable check: the names returned are names of asserted constraints, and the
constraints they name (with the unnamed assertions and the assumptions of the check) have no model whenever the core
Z3 reported has none.
-/
namespace Claripy.Solver

def ZCon.isNamed (c : ZCon) : Bool := match c.tag with | .con _ => true | _ => false

/-- the assertions a list of tracked names selects -/
def namedBy (asserted : List ZCon) (names : List Nat) : List ZCon :=
  asserted.filter fun c => match c.tag with | .con id => names.contains id | _ => false

/-- **CoreOk** (trusted like OracleExact, validated by the brute-force judge on every recorded core): the assertions
Z3 names in its core, the assertions that carry no name, and the assumptions are jointly unsatisfiable -/
def CoreOk (q : Query) (core : List Nat) : Prop :=
  ∀ a, ¬ (SatBy (namedBy q.asserted core) a ∧ SatBy (q.asserted.filter fun c => !c.isNamed) a ∧ SatBy q.assumptions a)

/-- what `_unsat_core` computes from the object -/
def coreIds (o : Z3Obj) : List Nat :=
  o.asserted.filterMap fun c => match c.tag with
    | .con id => if o.lastCore.contains id then some id else none
    | _ => none

theorem z3UnsatCore_apply (r : Nat) (s : St) : z3UnsatCore r s = (.ok (coreIds (objAt s r)), s) := rfl

theorem mem_coreIds (o : Z3Obj) (i : Nat) : i ∈ coreIds o ↔ (∃ c ∈ o.asserted, c.tag = .con i) ∧ i ∈ o.lastCore := by
  unfold coreIds
  simp only [List.mem_filterMap]
  constructor
  · rintro ⟨c, hc, h⟩
    cases ht : c.tag <;> rw [ht] at h <;> simp only [reduceCtorEq] at h
    rename_i zid
    simp at h
    obtain ⟨h1, rfl⟩ := h
    exact ⟨⟨c, hc, ht⟩, h1⟩
  · rintro ⟨⟨c, hc, ht⟩, hin⟩
    refine ⟨c, hc, ?_⟩
    rw [ht]
    simpa using hin

theorem objAt_set_tq (s : St) (r : Nat) (o : Z3Obj) (t : Nat) (ql : List (Query × Answer)) (hr : r < s.objs.length) :
    objAt { s with tick := t, qlog := ql, objs := s.objs.set r o } r = o := by
  simp [objAt, List.getD, hr]

/-- the assertions named by the returned ids are exactly those named by Z3's core -/
theorem namedBy_coreIds (o : Z3Obj) : namedBy o.asserted (coreIds o) = namedBy o.asserted o.lastCore := by
  unfold namedBy
  apply List.filter_congr
  intro c hc
  cases ht : c.tag <;> simp only
  rename_i zid
  have := mem_coreIds o zid
  by_cases hin : zid ∈ o.lastCore
  · have h1 : zid ∈ coreIds o := this.mpr ⟨⟨c, hc, ht⟩, hin⟩
    simp [hin, h1]
  · have h1 : zid ∉ coreIds o := fun h => hin (this.mp h).2
    simp [hin, h1]

/-- **unsat core after an unsatisfiable check**: `check(assumptions)` said `unsat`; then `_unsat_core` returns names of
asserted constraints only, and — if Z3's core is a core — what they name is unsatisfiable together with the unnamed
assertions and the assumptions.  The check leaves the assertion frames alone. -/
theorem z3UnsatCore_after_check (E : Env) (r : Nat) (asm : List ZCon) (s : St) (hr : r < s.objs.length) :
    match z3Check E r asm s with
    | (.ok none, s1) =>
        ∃ core, E.oracle { asserted := (objAt s r).asserted, assumptions := asm } s.tick = .unsat core ∧
          (objAt s1 r).frames = (objAt s r).frames ∧
          ∃ ids, z3UnsatCore r s1 = (.ok ids, s1) ∧
            (∀ i ∈ ids, ∃ c ∈ (objAt s r).asserted, c.tag = .con i) ∧
            (CoreOk { asserted := (objAt s r).asserted, assumptions := asm } core →
              ∀ a, ¬ (SatBy (namedBy (objAt s r).asserted ids) a ∧
                      SatBy ((objAt s r).asserted.filter fun c => !c.isNamed) a ∧ SatBy asm a))
    | _ => True := by
  rw [z3Check_eq]
  simp only
  cases hans : E.oracle { asserted := (objAt s r).asserted, assumptions := asm } s.tick with
  | unknown => trivial
  | sat vals keys => trivial
  | unsat core =>
    simp only
    have hobj := objAt_set_tq s r { objAt s r with lastCore := core } (s.tick + 1)
      (({ asserted := (objAt s r).asserted, assumptions := asm }, Answer.unsat core) :: s.qlog) hr
    refine ⟨core, rfl, by rw [hobj], _, z3UnsatCore_apply _ _, ?_, ?_⟩
    · intro i hi
      rw [hobj] at hi
      exact ((mem_coreIds _ i).mp hi).1
    · intro hok a
      rw [hobj]
      have h := namedBy_coreIds { objAt s r with lastCore := core }
      have hasr : ({ objAt s r with lastCore := core } : Z3Obj).asserted = (objAt s r).asserted := rfl
      rw [hasr] at h
      rw [h]
      exact hok a

end Claripy.Solver
