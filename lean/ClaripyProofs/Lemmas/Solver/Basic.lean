import Claripy.Solver.Spec
/-!
Solver family — hypotheses about the environment (named, listed in the trusted base) and basic lemmas about the
state-and-exception monad and partial models.
-/
namespace Claripy.Solver

/-! ### the monad -/

@[simp] theorem M.pure_apply (a : α) (s : St) : (pure a : M α) s = (.ok a, s) := rfl
@[simp] theorem M.pure_apply' (a : α) (s : St) : M.pure a s = (.ok a, s) := rfl
theorem M.bind_apply (m : M α) (f : α → M β) (s : St) :
    (m >>= f) s = match m s with | (.ok a, s') => f a s' | (.error e, s') => (.error e, s') := rfl
@[simp] theorem M.get_apply (s : St) : M.get s = (.ok s, s) := rfl
@[simp] theorem M.getFe_apply (s : St) : M.getFe s = (.ok s.fe, s) := rfl
@[simp] theorem M.modify_apply (f : St → St) (s : St) : M.modify f s = (.ok (), f s) := rfl
@[simp] theorem M.modifyFe_apply (f : Frontend → Frontend) (s : St) :
    M.modifyFe f s = (.ok (), { s with fe := f s.fe }) := rfl
@[simp] theorem M.throw_apply (e : Err) (s : St) : (M.throw e : M α) s = (.error e, s) := rfl

/-! ### partial models -/

/-- `a` agrees with the partial model `m` on every variable `m` mentions -/
def Agrees (a : Asg) (m : PModel) : Prop := ∀ v x, m.get? v = some x → a v = x

/-- `m` is a partial model of `A`: every total assignment that agrees with `m` on its keys satisfies `A`
(what Z3 guarantees for the constants its model mentions) -/
def PartialModelOf (m : PModel) (A : List ZCon) : Prop :=
  ∀ a : Asg, Agrees a m → ∀ c ∈ A, c.sem a = true

theorem PartialModelOf.mono {m : PModel} {A B : List ZCon} (h : PartialModelOf m B) (hs : ∀ c ∈ A, c ∈ B) :
    PartialModelOf m A := fun a ha c hc => h a ha c (hs c hc)

theorem PModel.get?_insert (m : PModel) (k x v : Nat) :
    (m.insert k x).get? v = if v = k then some x else m.get? v := by
  induction m with
  | nil => simp only [PModel.insert, PModel.get?]; split <;> simp_all [eq_comm]
  | cons hd tl ih =>
    obtain ⟨k', x'⟩ := hd
    simp only [PModel.insert]
    split
    · simp only [PModel.get?]; split <;> simp_all [eq_comm]
    · split
      · rename_i h1 h2; subst h2
        simp only [PModel.get?]; split <;> simp_all [eq_comm]
      · rename_i h1 h2
        simp only [PModel.get?, ih]
        by_cases hv : k' = v
        · subst hv; simp [Ne.symm h2]
        · simp [hv]

theorem PModel.get?_ofKeys_aux (vals : List Nat) (keys : List Var) (acc : PModel) (v : Nat) :
    (keys.foldl (fun m k => PModel.insert m k (vals.getD k 0)) acc).get? v =
      if v ∈ keys then some (vals.getD v 0) else acc.get? v := by
  induction keys generalizing acc with
  | nil => simp
  | cons k ks ih =>
    simp only [List.foldl_cons, ih, PModel.get?_insert, List.mem_cons]
    by_cases h1 : v ∈ ks <;> by_cases h2 : v = k <;> simp [h1, h2]

theorem PModel.get?_ofKeys (vals : List Nat) (keys : List Var) (v : Nat) :
    (PModel.ofKeys vals keys).get? v = if v ∈ keys then some (vals.getD v 0) else none := by
  have := PModel.get?_ofKeys_aux vals keys [] v
  simpa [PModel.ofKeys, PModel.get?] using this

theorem PModel.get?_restrict (m : PModel) (vars : List Var) (v : Nat) :
    (m.restrict vars).get? v = if v ∈ vars then m.get? v else none := by
  induction m with
  | nil => simp [PModel.restrict, PModel.get?]
  | cons hd tl ih =>
    obtain ⟨k, x⟩ := hd
    simp only [PModel.restrict, List.filter_cons] at ih ⊢
    by_cases hk : vars.contains k = true
    · simp only [hk, ↓reduceIte, PModel.get?]
      by_cases hkv : k = v
      · subst hkv; simp at hk; simp [hk]
      · simp only [hkv, ↓reduceIte]; exact ih
    · simp only [hk, PModel.get?, Bool.false_eq_true, ↓reduceIte]
      rw [ih]
      by_cases hkv : k = v
      · subst hkv; simp at hk; simp [hk]
      · simp [hkv]

/-! ### cached models are dicts: the key list is strictly increasing -/

/-- a model is a dict (one entry per variable): `PModel.insert` keeps the list strictly sorted by variable -/
def PModel.Sorted (m : PModel) : Prop := (m.map (·.1)).Pairwise (· < ·)

theorem PModel.sorted_nil : PModel.Sorted [] := List.Pairwise.nil

theorem PModel.sorted_single (k x : Nat) : PModel.Sorted [(k, x)] := by simp [PModel.Sorted]

theorem PModel.mem_insert (m : PModel) (k x : Nat) : ∀ p ∈ m.insert k x, p.1 = k ∨ p ∈ m := by
  induction m with
  | nil => intro p hp; simp only [PModel.insert, List.mem_singleton] at hp; subst hp; exact Or.inl rfl
  | cons hd tl ih =>
    obtain ⟨k', x'⟩ := hd
    intro p hp
    simp only [PModel.insert] at hp
    split at hp
    · rcases List.mem_cons.mp hp with rfl | hp
      · exact Or.inl rfl
      · exact Or.inr hp
    · split at hp
      · rcases List.mem_cons.mp hp with rfl | hp
        · exact Or.inl rfl
        · exact Or.inr (List.mem_cons_of_mem _ hp)
      · rcases List.mem_cons.mp hp with rfl | hp
        · exact Or.inr (by simp)
        · rcases ih p hp with h | h
          · exact Or.inl h
          · exact Or.inr (List.mem_cons_of_mem _ h)

theorem PModel.sorted_insert {m : PModel} (h : m.Sorted) (k x : Nat) : (m.insert k x).Sorted := by
  induction m with
  | nil => exact PModel.sorted_single k x
  | cons hd tl ih =>
    obtain ⟨k', x'⟩ := hd
    simp only [PModel.Sorted, List.map_cons, List.pairwise_cons] at h
    obtain ⟨h1, h2⟩ := h
    simp only [PModel.insert]
    split
    · rename_i hlt
      simp only [PModel.Sorted, List.map_cons, List.pairwise_cons]
      refine ⟨?_, h1, h2⟩
      intro a ha
      rcases List.mem_cons.mp ha with rfl | ha
      · exact hlt
      · exact Nat.lt_trans hlt (h1 a ha)
    · split
      · rename_i _ heq
        subst heq
        simp only [PModel.Sorted, List.map_cons, List.pairwise_cons]
        exact ⟨h1, h2⟩
      · rename_i hnlt hne
        simp only [PModel.Sorted, List.map_cons, List.pairwise_cons]
        refine ⟨?_, ih h2⟩
        intro a ha
        obtain ⟨p, hp, rfl⟩ := List.mem_map.mp ha
        rcases PModel.mem_insert tl k x p hp with hk | hk
        · rw [hk]; exact Nat.lt_of_le_of_ne (Nat.le_of_not_lt hnlt) (fun e => hne e.symm)
        · exact h1 p.1 (List.mem_map.mpr ⟨p, hk, rfl⟩)

theorem PModel.sorted_foldl_insert (l : List (Var × Nat)) (acc : PModel) (h : acc.Sorted) :
    (l.foldl (fun acc kv => PModel.insert acc kv.1 kv.2) acc).Sorted := by
  induction l generalizing acc with
  | nil => exact h
  | cons kv rest ih => exact ih _ (PModel.sorted_insert h kv.1 kv.2)

theorem PModel.sorted_ofKeys (vals : List Nat) (keys : List Var) : (PModel.ofKeys vals keys).Sorted := by
  unfold PModel.ofKeys
  have : ∀ acc : PModel, acc.Sorted → (keys.foldl (fun m k => PModel.insert m k (vals.getD k 0)) acc).Sorted := by
    induction keys with
    | nil => intro acc h; exact h
    | cons k ks ih => intro acc h; exact ih _ (PModel.sorted_insert h k _)
  exact this [] PModel.sorted_nil

theorem PModel.sorted_restrict {m : PModel} (h : m.Sorted) (vars : List Var) : (m.restrict vars).Sorted := by
  unfold PModel.Sorted PModel.restrict at *
  exact h.sublist (List.Sublist.map _ List.filter_sublist)

/-- in a dict, a listed pair is what `get?` finds -/
theorem PModel.get?_of_mem {m : PModel} (h : m.Sorted) {k x : Nat} (hm : (k, x) ∈ m) : m.get? k = some x := by
  induction m with
  | nil => cases hm
  | cons hd tl ih =>
    obtain ⟨k', x'⟩ := hd
    simp only [PModel.Sorted, List.map_cons, List.pairwise_cons] at h
    rcases List.mem_cons.mp hm with heq | hm
    · simp only [Prod.mk.injEq] at heq; obtain ⟨rfl, rfl⟩ := heq; simp [PModel.get?]
    · have hlt : k' < k := h.1 k (List.mem_map.mpr ⟨(k, x), hm, rfl⟩)
      have hne : ¬ k' = k := Nat.ne_of_lt hlt
      simp only [PModel.get?, hne, ↓reduceIte]
      exact ih h.2 hm

theorem PModel.mem_of_get? {m : PModel} {k x : Nat} (h : m.get? k = some x) : (k, x) ∈ m := by
  induction m with
  | nil => simp [PModel.get?] at h
  | cons hd tl ih =>
    obtain ⟨k', x'⟩ := hd
    simp only [PModel.get?] at h
    split at h
    · rename_i heq; subst heq; simp only [Option.some.injEq] at h; subst h; simp
    · exact List.mem_cons_of_mem _ (ih h)

/-- `dict(chain(...))` over a dict: the entries of `m` override those of `acc` -/
theorem PModel.get?_foldl_insert {m : PModel} (h : m.Sorted) (acc : PModel) (v : Nat) :
    (m.foldl (fun acc kv => PModel.insert acc kv.1 kv.2) acc).get? v = (m.get? v).orElse fun _ => acc.get? v := by
  induction m generalizing acc with
  | nil => simp [PModel.get?]
  | cons hd tl ih =>
    obtain ⟨k, x⟩ := hd
    simp only [PModel.Sorted, List.map_cons, List.pairwise_cons] at h
    simp only [List.foldl_cons, ih h.2, PModel.get?_insert, PModel.get?]
    by_cases hkv : k = v
    · subst hkv
      have : PModel.get? tl k = none := by
        cases hg : PModel.get? tl k with
        | none => rfl
        | some y =>
          have hlt : k < k := h.1 k (List.mem_map.mpr ⟨(k, y), PModel.mem_of_get? hg, rfl⟩)
          exact absurd hlt (Nat.lt_irrefl k)
      simp [this]
    · simp [hkv, Ne.symm hkv]

theorem PModel.complete_apply (dflt : Var → Nat) (m : PModel) (v : Nat) :
    m.complete dflt v = (m.get? v).getD (dflt v) := rfl

/-! ### hypotheses about the environment -/

/-- **OracleExact** (trusted, validated on every recorded exchange): when Z3 answers `sat`, every total
assignment that agrees with the returned model on the constants it mentions satisfies assertions and
assumptions; when it answers `unsat`, no assignment does.  `unknown` may be answered at any time. -/
def OracleExact (E : Env) : Prop :=
  ∀ (q : Query) (k : Nat),
    match E.oracle q k with
    | .sat vals keys => ∀ a : Asg, (∀ v ∈ keys, a v = asgOf vals v) → q.holds a = true
    | .unsat _ => ∀ a : Asg, q.holds a = false
    | .unknown => True

/-- the backend never gives up (C11; dropped for C17) -/
def NoGiveUp (E : Env) : Prop := ∀ q k, E.oracle q k ≠ .unknown

/-- the backend did give up on some check -/
def GaveUp (E : Env) : Prop := ∃ q k, E.oracle q k = .unknown

/-- the only error an L1 algorithm can end with: the one `z3_solver_sat` raises when the backend gave up -/
def IsGiveUp (E : Env) (e : Err) : Prop := e = .giveUp ∧ GaveUp E

theorem IsGiveUp.elim {E : Env} {e : Err} (h : IsGiveUp E e) (hN : NoGiveUp E) : False := by
  obtain ⟨_, q, k, hk⟩ := h
  exact hN q k hk

end Claripy.Solver

namespace Claripy.Solver

/-! ### the remaining environment hypotheses and the full statement of C11 -/

/-- a constraint's meaning depends only on the variables it lists -/
def ConWf (c : Con) : Prop :=
  (∀ a a' : Asg, (∀ v ∈ c.vars, a v = a' v) → c.sem a = c.sem a') ∧
  (c.isFalse = true → ∀ a, c.sem a = false) ∧
  (∀ b, c.conc = some b → ∀ a, c.sem a = b) ∧
  (∀ v x eid, c.triv = some (v, x, eid) → c.vars = [v] ∧ ∀ a, c.sem a = decide (a v = x))

/-- **BuildExact** (C01): the constraints claripy builds inside the frontends mean what was written -/
def BuildExact (E : Env) : Prop :=
  (∀ key, (E.build key).sem = key.sem ∧ (∀ v ∈ (E.build key).vars, v ∈ key.exp.vars) ∧ ConWf (E.build key)) ∧
  ConWf E.falseCon ∧ E.falseCon.isFalse = true

/-- **SimplifyEquiv** (C09): `claripy.simplify` returns an equivalent conjunction over no new variables -/
def SimplifyEquiv (E : Env) : Prop :=
  ∀ cs k, (∀ a, holdsAll (E.simp cs k) a = holdsAll cs a) ∧
    (∀ c ∈ E.simp cs k, ConWf c ∧ ∀ v ∈ c.vars, ∃ c' ∈ cs, v ∈ c'.vars)

/-- **CheapSound** (C10): a `True` from `claripy.is_false(And(c1, c2))` means the conjunction is unsatisfiable;
a `True` from the backend's `is_true`/`is_false` means valid / unsatisfiable -/
def CheapSound (E : Env) : Prop :=
  (∀ c1 c2 k, E.cheapFalse c1 c2 k = true → ∀ a, ¬ (c1.sem a = true ∧ c2.sem a = true)) ∧
  (∀ c k, E.truth true c k = true → ∀ a, c.sem a = true) ∧
  (∀ c k, E.truth false c k = true → ∀ a, c.sem a = false)

/-- the recorded choice among cached solutions is one the code can make (set iteration order) -/
def PickValid (E : Env) : Prop :=
  ∀ all n k, subsetB (E.pick all n k) all = true ∧ (E.pick all n k).length = min n all.length ∧
    (E.pick all n k).foldl listInsert [] = E.pick all n k

/-- the constraints / expressions a call mentions are well formed -/
def Op.Wf : Op → Prop
  | .add cs => ∀ c ∈ cs, ConWf c
  | .satisfiable ex | .unsatCore ex => ∀ c ∈ ex, ConWf c
  | .eval e _ ex | .min e ex _ | .max e ex _ | .solution e _ ex => (1 ≤ e.bits ∧ ∀ a, e.val a < 2 ^ e.bits) ∧ ∀ c ∈ ex, ConWf c
  | .batchEval es _ ex => (∀ e ∈ es, 1 ≤ e.bits ∧ ∀ a, e.val a < 2 ^ e.bits) ∧ ∀ c ∈ ex, ConWf c
  | .isTrue c ex | .isFalse c ex => ConWf c ∧ ∀ c ∈ ex, ConWf c
  | _ => True

/-- run a history on the world; each output is paired with the constraints the USER had added to the queried
frontend when the call was made -/
def runHist (E : Env) (cls : SolverClass) :
    World → List (List Con) → List (Nat × Op) → List (List Con × Op × Out)
  | _, _, [] => []
  | w, added, (i, op) :: rest =>
    let (o, w') := step E cls w i op
    let cs := added.getD i []
    let added' := match op with
      | .add new => added.set i (cs ++ new)
      | .branch => added ++ [cs]
      | _ => added
    (match op with | .add new => cs ++ new | _ => cs, op, o) :: runHist E cls w' added' rest

end Claripy.Solver
