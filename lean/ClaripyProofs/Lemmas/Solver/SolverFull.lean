import ClaripyProofs.Lemmas.Solver.ModelCacheAdd
import ClaripyProofs.Lemmas.Solver.L1Hooked
/-!
FullFrontend inside the caching class `Solver`: the model callback is ModelCacheMixin's `_model_hook`, so every query
grows the cache.  Each query keeps the invariant `SI`, answers as the specification demands, and the models behind its
answers are in the cache afterwards (`EvalComplete`).
-/
namespace Claripy.Solver

variable {R : Con → Prop} {RE : Exp → Prop} {E : Env} {G : St → Prop} {U : List Con}

/-! ### the callback -/

/-- `_model_hook` has recorded the model of the answer `sat vals keys`: its restriction to the known variables is cached
(or empty, then it is dropped) -/
def Hmc (vals : List Nat) (keys : List Var) (fe : Frontend) : Prop :=
  (PModel.ofKeys vals keys).restrict fe.variables = [] ∨ (PModel.ofKeys vals keys).restrict fe.variables ∈ fe.models

theorem mcHookFe_variables (m : PModel) (fe : Frontend) : (mcHookFe m fe).variables = fe.variables := by
  rw [mcHookFe_fields]

theorem hookRec_mc : HookRec mcHook Hmc := by
  refine ⟨fun m s => ⟨_, mcHook_apply m s⟩, ?_, ?_⟩
  · intro vals keys s
    rw [mcHook_apply]
    simp only [Hmc, mcHookFe_variables]
    unfold mcHookFe
    by_cases h : ((PModel.ofKeys vals keys).restrict s.fe.variables).isEmpty = true
    · left; simpa using h
    · right
      simp only [h, Bool.false_eq_true, ↓reduceIte]
      exact (mem_listInsert _ _ _).mpr (Or.inr rfl)
  · intro vals keys m s h
    rw [mcHook_apply]
    simp only [Hmc, mcHookFe_variables] at h ⊢
    rcases h with h | h
    · exact Or.inl h
    · exact Or.inr (mcHookFe_models_mono m s.fe _ h)

/-- **a recorded model is a cached model that evaluates registered expressions like Z3 does** -/
theorem cached_of_hmc (hC : EvalComplete RE E) (hRE : ExpReg RE) {q : Query} {k : Nat} {vals : List Nat} {keys : List Var}
    (hor : E.oracle q k = .sat vals keys) {fe : Frontend} (h : Hmc vals keys fe) (e : Exp) (he : RE e)
    (hv : ∀ v ∈ e.vars, v ∈ fe.variables) : ∃ m ∈ fe.models, e.val (m.complete E.dflt) = e.val (asgOf vals) := by
  obtain ⟨v, hve, hvk⟩ := hC.overlap q k vals keys hor e he
  have hget : ((PModel.ofKeys vals keys).restrict fe.variables).get? v = some (vals.getD v 0) := by
    rw [PModel.get?_restrict, PModel.get?_ofKeys]; simp [hv v hve, hvk]
  have hne : (PModel.ofKeys vals keys).restrict fe.variables ≠ [] := by
    intro hnil; rw [hnil] at hget; simp [PModel.get?] at hget
  have hin : (PModel.ofKeys vals keys).restrict fe.variables ∈ fe.models := h.resolve_left hne
  refine ⟨_, hin, ?_⟩
  rw [← hC.agree q k vals keys hor e he]
  apply hRE.dep e he
  intro x hx
  simp only [PModel.complete_apply, PModel.get?_restrict, hv x hx, ↓reduceIte]

/-- the record without the cached models -/
def noModels (fe : Frontend) : Frontend := { fe with models := [] }

theorem noModels_mcHookFe (m : PModel) (fe : Frontend) : noModels (mcHookFe m fe) = noModels fe := by
  unfold mcHookFe; split <;> rfl

/-- what the callback preserves during one query (`fe1` = the record when the query starts): only `_models` changes, it
only grows, and the cache invariant holds -/
def HookP (RE : Exp → Prop) (E : Env) (U : List Con) (fe1 : Frontend) (fe : Frontend) : Prop :=
  noModels fe = noModels fe1 ∧ MCInv RE E U fe ∧ ∀ m ∈ fe1.models, m ∈ fe.models

theorem satBy_asserted {s s1 : St} {r : Nat} (hb : BInv R G U s) (hg : GotSolver s s1 r) (a : Asg) :
    SatBy (objAt s1 r).asserted a ↔ Models U a := by
  rw [hg.asserted a, hb.equiv a, models_iff_holdsAll]

theorem satBy_query' {s s1 : St} {r : Nat} (hb : BInv R G U s) (hg : GotSolver s s1 r) (ec : List Con) (a : Asg) :
    SatBy ((objAt s1 r).asserted ++ ec.map ZCon.ofCon) a ↔ Models (U ++ ec) a := by
  rw [SatBy.append, satBy_asserted hb hg a, satBy_ofCon, models_append, models_iff_holdsAll ec]

theorem hookOk_mc (hR : Reg R E) {s s1 : St} {r : Nat} (hb : BInv R G U s) (hg : GotSolver s s1 r) :
    HookOk mcHook (objAt s1 r).asserted (HookP RE E U s1.fe) := by
  have hvars : s1.fe.variables = s.fe.variables := by rw [hg.fe]
  refine ⟨fun m s => ⟨_, mcHook_apply m s⟩, ?_⟩
  intro m s2 ⟨hp1, hp2, hp3⟩ hpm _
  rw [mcHook_apply]
  simp only
  have hv2 : s2.fe.variables = s.fe.variables := (congrArg Frontend.variables hp1).trans hvars
  refine ⟨(noModels_mcHookFe m s2.fe).trans hp1, ?_, fun m' hm' => mcHookFe_models_mono m s2.fe m' (hp3 m' hm')⟩
  refine mcHookFe_inv hp2 m s.fe.constraints (hb.cons_wf hR) (fun c hc v hv => by rw [hv2]; exact hb.vars c hc v hv)
    (hb.models_iff) ?_
  intro a ha
  exact (hb.models_iff a).mpr ((satBy_asserted hb hg a).mp (hpm a ha))

theorem hookP_start {s s1 : St} {r : Nat} (h : SI R RE E G U s) (hg : GotSolver s s1 r) : HookP RE E U s1.fe s1.fe :=
  ⟨rfl, h.mc.of_fields (by rw [hg.fe]) (by rw [hg.fe]) (by rw [hg.fe]) (by rw [hg.fe]) (by rw [hg.fe]) (by rw [hg.fe]),
   fun _ hm => hm⟩

/-- `_get_solver` followed by a balanced L1 query whose callback is `_model_hook`: the invariant holds again -/
theorem si_after_query {s s1 s2 : St} {r : Nat} (h : SI R RE E G U s) (hgT : GotS R s s1 r)
    (hst : ObjStep r s1 s2) (hfr : (objAt s2 r).frames = (objAt s1 r).frames) (hp : HookP RE E U s1.fe s2.fe) :
    SI R RE E G U s2 ∧ Keep U s s2 := by
  obtain ⟨hp1, hp2, hp3⟩ := hp
  have hg := hgT.toGotSolver
  have hfe1 := hg.fe
  have e_cons : s2.fe.constraints = s.fe.constraints := (congrArg Frontend.constraints hp1).trans (by rw [hfe1]; rfl)
  have e_toadd : s2.fe.toAdd = [] := (congrArg Frontend.toAdd hp1).trans (by rw [hfe1]; rfl)
  have e_sol : s2.fe.solver = some r := (congrArg Frontend.solver hp1).trans (by rw [hfe1]; rfl)
  have e_track : s2.fe.track = s.fe.track := (congrArg Frontend.track hp1).trans (by rw [hfe1]; rfl)
  have e_hash : s2.fe.hashes = s.fe.hashes := (congrArg Frontend.hashes hp1).trans (by rw [hfe1]; rfl)
  have e_wo : s2.fe.woAnnot = s.fe.woAnnot := (congrArg Frontend.woAnnot hp1).trans (by rw [hfe1]; rfl)
  have e_var : s2.fe.variables = s.fe.variables := (congrArg Frontend.variables hp1).trans (by rw [hfe1]; rfl)
  have e_fin : s2.fe.finalized = s.fe.finalized := (congrArg Frontend.finalized hp1).trans (by rw [hfe1]; rfl)
  have e_csat : s2.fe.cachedSat = s.fe.cachedSat := (congrArg Frontend.cachedSat hp1).trans (by rw [hfe1]; rfl)
  have e_models1 : s1.fe.models = s.fe.models := by rw [hfe1]
  refine ⟨⟨⟨⟨?_, ?_, ?_⟩, ?_, ⟨?_, ?_⟩, ?_, ?_, ?_⟩, hp2, ?_⟩, ⟨?_, ?_⟩⟩
  · intro a _; rw [e_toadd]; rfl
  · intro r' hr'
    rw [e_sol] at hr'
    simp only [Option.some.injEq] at hr'
    subst hr'
    obtain ⟨f, hf⟩ := hg.frames
    refine ⟨by rw [hst.len]; exact hg.lt, ⟨f, by rw [hfr, hf]⟩, fun a => ?_⟩
    have has : (objAt s2 r).asserted = (objAt s1 r).asserted := by simp only [Z3Obj.asserted, hfr]
    rw [has, e_cons, e_toadd]
    simp only [holdsAll_nil, and_true]
    exact hg.asserted a
  · rw [hst.reuse, hg.reuse]; exact h.base.core.noReuse
  · rw [e_cons]; exact h.base.equiv
  · rw [e_cons]; exact h.base.dinv.consR
  · rw [e_hash, e_wo]; exact h.base.dinv.seen
  · rw [e_cons, e_var]; exact h.base.vars
  · -- the heap discipline
    obtain ⟨s0, hg0, hw⟩ := h.base.ghost
    refine ⟨s0, hg0, hw.trans ⟨by rw [hst.len]; exact hg.grow, ?_, ?_, by rw [hst.reuse, hg.reuse], ?_⟩⟩
    · rw [e_sol]
      rcases hg.fresh_or_same with ⟨h1, _⟩ | h2 | ⟨h3, _, _⟩
      · exact Or.inl h1.symm
      · exact Or.inr (Or.inr ⟨r, rfl, h2⟩)
      · exact Or.inl h3.symm
    · intro i hi hpp
      by_cases hir : i = r
      · subst hir
        rcases hg.fresh_or_same with ⟨h1, hf⟩ | h2 | ⟨_, _, h3⟩
        · have := hpp h1; rw [hf] at this; cases this
        · omega
        · rw [hfr]
          have : objAt s1 i = objAt s i := by simp only [objAt, h3]
          rw [this]
      · have e1 : s2.objs[i]? = s1.objs[i]? := hst.other i hir
        have e2 : s1.objs[i]? = s.objs[i]? := hg.others i hi hir
        rw [objAt_eq_of_getElem? (e1.trans e2)]
    · intro hf; rw [e_fin]; exact hf
  · intro ht r' hr' z hz
    rw [e_track] at ht
    rw [e_sol] at hr'
    simp only [Option.some.injEq] at hr'
    subst hr'
    have has : (objAt s2 r).asserted = (objAt s1 r).asserted := by simp only [Z3Obj.asserted, hfr]
    rw [has] at hz
    exact hgT.areg ht z hz
  · rw [SCInv, e_csat]; exact h.sc
  · intro v hv; rw [e_var]; exact hv
  · intro _ m hm; exact hp3 m (by rw [e_models1]; exact hm)

/-! ### `satisfiable` -/

theorem full_satisfiable_spec (hE : OracleExact E) (hR : Reg R E) (hZ : ZidFaithful R) {self sup : Ops} (hmh : self.modelHook = mcHook)
    (extra : List Con) : SatSpec R RE E G U extra ((fullLayer E self sup).satisfiable extra) := by
  intro s h
  show match (do let r ← getSolver; z3Satisfiable E r (extra.map ZCon.ofCon) self.modelHook : M Bool) s with
    | (.ok b, s') => _ | (.error e, s') => _
  rw [hmh]
  simp only [bind, M.bind]
  have hgsT := getSolverG_spec hZ s h.base.core h.base.dinv.consR h.base.areg
  rcases hg : getSolver s with ⟨res, s1⟩
  rw [hg] at hgsT
  cases res with
  | error e => exact absurd hgsT id
  | ok r =>
    have hgs := hgsT.toGotSolver
    simp only
    have hsp := z3Satisfiable_spec hE (hookOk_mc (RE := RE) hR h.base hgs) r (extra.map ZCon.ofCon) s1 (fun _ hc => hc)
    rcases hz : z3Satisfiable E r (extra.map ZCon.ofCon) mcHook s1 with ⟨res2, s2⟩
    rw [hz] at hsp
    cases res2 with
    | error e =>
      obtain ⟨he, hst, hfr⟩ := hsp
      obtain ⟨h2, hk⟩ := si_after_query h hgsT hst.toObjStep hfr (hst.fe (hookP_start h hgs))
      exact ⟨he, h2, hk⟩
    | ok b =>
      obtain ⟨hb, hst, hfr⟩ := hsp
      obtain ⟨h2, hk⟩ := si_after_query h hgsT hst.toObjStep hfr (hst.fe (hookP_start h hgs))
      refine ⟨?_, h2, hk⟩
      rw [hb]
      constructor
      · rintro ⟨a, ha⟩; exact ⟨a, (satBy_query' h.base hgs extra a).mp ha⟩
      · rintro ⟨a, ha⟩; exact ⟨a, (satBy_query' h.base hgs extra a).mpr ha⟩

/-! ### `batch_eval` / `eval` -/

theorem feasibleT_iff_realises {s s1 : St} {r : Nat} (hb : BInv R G U s) (hg : GotSolver s s1 r) (extra : List Con)
    (asts : List Exp) (t : List Nat) :
    Realises ((objAt s1 r).asserted ++ extra.map ZCon.ofCon) asts t ↔ FeasibleT (U ++ extra) asts t := by
  constructor
  · rintro ⟨a, ha, hat⟩; exact ⟨a, (satBy_query' hb hg extra a).mp ha, hat⟩
  · rintro ⟨a, ha, hat⟩; exact ⟨a, (satBy_query' hb hg extra a).mpr ha, hat⟩

theorem full_batchEval_spec (hE : OracleExact E) (hR : Reg R E) (hZ : ZidFaithful R) (hC : EvalComplete RE E)
    (hRE : ExpReg RE) {self sup : Ops} (hmh : self.modelHook = mcHook) (asts : List Exp) (n : Nat) (hn : 1 ≤ n)
    (extra : List Con) : BatchSpec R RE E G U asts n extra ((fullLayer E self sup).batchEval asts n extra) := by
  intro s h
  show match (do
      let r ← getSolver
      let res ← z3BatchEval E r asts n (extra.map ZCon.ofCon) self.modelHook
      if res.isEmpty then M.throw .unsat else pure res : M (List (List Nat))) s with
    | (.ok ts, s') => _ | (.error e, s') => _
  rw [hmh]
  simp only [bind, M.bind]
  have hgsT := getSolverG_spec hZ s h.base.core h.base.dinv.consR h.base.areg
  rcases hg : getSolver s with ⟨res, s1⟩
  rw [hg] at hgsT
  cases res with
  | error e => exact absurd hgsT id
  | ok r =>
    have hgs := hgsT.toGotSolver
    simp only
    obtain ⟨f, hf1⟩ := hgs.frames
    have hsp := z3BatchEval_spec hE (hookOk_mc (RE := RE) hR h.base hgs) r asts n (extra.map ZCon.ofCon) s1 hgs.lt
      (by rw [hf1]; simp) (fun _ hc => hc)
    have hhk := z3BatchEval_hooked (E := E) hookRec_mc r asts n (extra.map ZCon.ofCon) s1
    rcases hz : z3BatchEval E r asts n (extra.map ZCon.ofCon) mcHook s1 with ⟨res2, s2⟩
    rw [hz] at hsp hhk
    cases res2 with
    | error err =>
      obtain ⟨he, hst, hfr⟩ := hsp
      obtain ⟨h2, hk⟩ := si_after_query h hgsT hst.toObjStep hfr (hst.fe (hookP_start h hgs))
      exact ⟨Or.inr he, h2, hk⟩
    | ok ts =>
      obtain ⟨hreal, hnd, hlen, hcomp, hst, hfr⟩ := hsp
      obtain ⟨h2, hk⟩ := si_after_query h hgsT hst.toObjStep hfr (hst.fe (hookP_start h hgs))
      by_cases hemp : ts.isEmpty = true
      · simp only [hemp, ↓reduceIte, M.throw_apply]
        have hts : ts = [] := by simpa using hemp
        refine ⟨Or.inl ⟨rfl, ?_⟩, h2, hk⟩
        rintro ⟨a, ha⟩
        have := hcomp (by rw [hts]; simp; omega) a ((satBy_query' h.base hgs extra a).mpr ha)
        rw [hts] at this
        simp at this
      · simp only [hemp, Bool.false_eq_true, ↓reduceIte, pure, M.pure]
        refine ⟨⟨fun t ht => (feasibleT_iff_realises h.base hgs extra asts t).mp (hreal t ht), hnd, hlen, ?_⟩,
          by simpa using hemp, ?_, h2, hk⟩
        · intro t ht
          obtain ⟨a, ha, hat⟩ := ht
          by_cases hl : ts.length < n
          · left
            rw [← hat]
            exact hcomp hl a ((satBy_query' h.base hgs extra a).mpr ha)
          · right; omega
        · intro t ht
          obtain ⟨vals, keys, q, k, hor, htv, hH⟩ := hhk t ht
          exact ⟨asgOf vals, htv, fun e he hre' hv => cached_of_hmc hC hRE hor hH e hre' hv⟩

/-! ### `solution` -/

theorem full_solution_spec (hE : OracleExact E) (hR : Reg R E) (hZ : ZidFaithful R) {self sup : Ops} (hmh : self.modelHook = mcHook)
    (e : Exp) (v : Nat) (hv : v < 2 ^ e.bits) (extra : List Con) :
    SolSpec R RE E G U e v extra ((fullLayer E self sup).solution e v extra) := by
  intro s h
  show match (do let r ← getSolver; z3Solution E r e v (extra.map ZCon.ofCon) self.modelHook : M Bool) s with
    | (.ok b, s') => _ | (.error e, s') => _
  rw [hmh]
  simp only [bind, M.bind, z3Solution]
  have hgsT := getSolverG_spec hZ s h.base.core h.base.dinv.consR h.base.areg
  rcases hg : getSolver s with ⟨res, s1⟩
  rw [hg] at hgsT
  cases res with
  | error e => exact absurd hgsT id
  | ok r =>
    have hgs := hgsT.toGotSolver
    simp only
    have hsp := z3Satisfiable_spec hE (hookOk_mc (RE := RE) hR h.base hgs) r (eqCon e (v : Int) :: extra.map ZCon.ofCon) s1
      (fun _ hc => hc)
    rcases hz : z3Satisfiable E r (eqCon e (v : Int) :: extra.map ZCon.ofCon) mcHook s1 with ⟨res2, s2⟩
    rw [hz] at hsp
    cases res2 with
    | error err =>
      obtain ⟨he, hst, hfr⟩ := hsp
      obtain ⟨h2, hk⟩ := si_after_query h hgsT hst.toObjStep hfr (hst.fe (hookP_start h hgs))
      exact ⟨Or.inr he, h2, hk⟩
    | ok b =>
      obtain ⟨hb, hst, hfr⟩ := hsp
      obtain ⟨h2, hk⟩ := si_after_query h hgsT hst.toObjStep hfr (hst.fe (hookP_start h hgs))
      refine ⟨?_, h2, hk⟩
      rw [hb]
      have hq : ∀ a, SatBy ((objAt s1 r).asserted ++ eqCon e (v : Int) :: extra.map ZCon.ofCon) a ↔
          Models (U ++ extra) a ∧ e.val a = v := by
        intro a
        have h1 : SatBy ((objAt s1 r).asserted ++ eqCon e (v : Int) :: extra.map ZCon.ofCon) a ↔
            SatBy ((objAt s1 r).asserted ++ extra.map ZCon.ofCon) a ∧ (eqCon e (v : Int)).sem a = true := by
          simp only [SatBy, List.mem_append, List.mem_cons]
          constructor
          · intro hh
            exact ⟨fun c hc => hh c (hc.elim Or.inl (fun x => Or.inr (Or.inr x))), hh _ (Or.inr (Or.inl rfl))⟩
          · rintro ⟨h1, h2⟩ c hc
            rcases hc with hc | rfl | hc
            · exact h1 c (Or.inl hc)
            · exact h2
            · exact h1 c (Or.inr hc)
        rw [h1, satBy_query' h.base hgs extra a]
        simp only [eqCon, decide_eq_true_eq, wrap_nat e.bits v hv]
      constructor
      · rintro ⟨a, ha⟩; exact ⟨a, ((hq a).mp ha).1, ((hq a).mp ha).2⟩
      · rintro ⟨a, ha, hva⟩; exact ⟨a, (hq a).mpr ⟨ha, hva⟩⟩

end Claripy.Solver
