import ClaripyProofs.Lemmas.Solver.CompositeFrames
/-!
The value queries of CompositeFrontend WITH extra constraints (`eval` / `batch_eval` / `min` / `max` / `solution`):
`_ensure_sat(extra)` is `satisfiable(extra)` (`compSatisfiable_extra`), then the merged solver of the names (which include the
extras' variables), the child's call under the extras, `_reabsorb_solver`.

* `compQuery_judgeX` / `compQuery_keepsX`: `compQuery_judge` / `compQuery_keeps` carried out again for non-empty extras.
* `Equi.extra`: the relation between the merged child and everything the user added survives appending extras whose variables
  are among the names; `judge_shift_*`: `Judge U (op extra) = Judge (U ++ extra) (op [])`.  With them the transfer lemmas
  `Equi.judge_*` (stated without extras) apply.
* `comp_stepE` / `comp_histE`: one call / any history of add / satisfiable / eval / batch_eval / min / max / solution / is_true /
  is_false, ALL with any registered extra constraints.
-/
namespace Claripy.Solver

variable {R : Con → Prop} {RE : Exp → Prop} {E : Env}

/-! ### transfer of the answers under extras -/

/-- extras whose variables are among the names can be appended on both sides -/
theorem Equi.extra {names : List Var} {U Um : List Con} (h : Equi names U Um) {extra : List Con} (hwf : ∀ c ∈ extra, ConWf c)
    (hv : ∀ c ∈ extra, ∀ v ∈ c.vars, v ∈ names) : Equi names (U ++ extra) (Um ++ extra) := by
  refine ⟨fun a ha => models_append.mpr ⟨h.down a (models_append.mp ha).1, (models_append.mp ha).2⟩, fun a ha => ?_⟩
  obtain ⟨a', ha', hag⟩ := h.up a (models_append.mp ha).1
  refine ⟨a', models_append.mpr ⟨ha', models_of_agree hwf (fun v hv' => ?_) (models_append.mp ha).2⟩, hag⟩
  obtain ⟨c, hc, hvc⟩ := mem_varsOf_iff.mp hv'
  exact (hag v (hv c hc v hvc)).symm

theorem judge_shift_eval (U : List Con) (e : Exp) (n : Nat) (extra : List Con) (o : Out) :
    Judge U (.eval e n extra) o ↔ Judge (U ++ extra) (.eval e n []) o := by
  cases o with
  | err e' => cases e' <;> simp only [Judge, List.append_nil]
  | _ => simp only [Judge, List.append_nil]

theorem judge_shift_batchEval (U : List Con) (es : List Exp) (n : Nat) (extra : List Con) (o : Out) :
    Judge U (.batchEval es n extra) o ↔ Judge (U ++ extra) (.batchEval es n []) o := by
  cases o with
  | err e' => cases e' <;> simp only [Judge, List.append_nil]
  | _ => simp only [Judge, List.append_nil]

theorem judge_shift_solution (U : List Con) (e : Exp) (x : Nat) (extra : List Con) (o : Out) :
    Judge U (.solution e x extra) o ↔ Judge (U ++ extra) (.solution e x []) o := by
  cases o with
  | err e' => cases e' <;> simp only [Judge, List.append_nil]
  | _ => simp only [Judge, List.append_nil]

theorem judge_shift_max (U : List Con) (e : Exp) (signed : Bool) (extra : List Con) (o : Out) :
    Judge U (.max e extra signed) o ↔ Judge (U ++ extra) (.max e [] signed) o := by
  cases o with
  | err e' => cases e' <;> simp only [Judge, List.append_nil]
  | _ => simp only [Judge, List.append_nil]

theorem judge_shift_min (U : List Con) (e : Exp) (signed : Bool) (extra : List Con) (o : Out) :
    Judge U (.min e extra signed) o ↔ Judge (U ++ extra) (.min e [] signed) o := by
  cases o with
  | err e' => cases e' <;> simp only [Judge, List.append_nil]
  | _ => simp only [Judge, List.append_nil]

theorem extra_vars_names {extra : List Con} (front : List (List Var)) (back : List (List Var)) :
    ∀ c ∈ extra, ∀ v ∈ c.vars, v ∈ namesFor (front ++ extra.map (·.vars) ++ back) := by
  intro c hc v hv
  exact (mem_namesFor _ v).mpr ⟨c.vars, by simp only [List.mem_append, List.mem_map]; exact Or.inl (Or.inr ⟨c, hc, rfl⟩), hv⟩

section
variable (H : SolverHyps R RE E)
include H

/-- **a value query of the composite with extra constraints, generically: the answer** -/
theorem compQuery_judgeX {α : Type} {U : List Con} {Us : List (List Con)} {s : CSt} (h : CInv R RE E U Us s) (op : Op)
    (names : List Var) (extra : List Con) (hne : extra ≠ []) (hwf : ∀ c ∈ extra, ConWf c) (q : M α) (f : α → Out)
    (hstep : ∀ w i, step E .SolverCompositeChild w i op = outOf f (runOn w i q))
    (hsc : InScopeC R RE op) (hnb : op ≠ .branch)
    (hua : ∀ X, usersAfter X op = X) (hual : ∀ X i, usersAll X i op = X)
    (hfoot : ∀ (U' : List Con) s', SI R RE E (fun _ => True) U' s' → FootQ s' (q s').2)
    (hunsat : ¬ Satisfiable (U ++ extra) → Judge U op (.err .unsat))
    (htrans : ∀ Um o, Equi names U Um → Judge Um op o → Judge U op o) :
    JudgeOrGiveUp E U op (outOfC f (compQuery E names extra q s)).1 := by
  simp only [compQuery, bind, CM.bind, ensureSat, CM.get]
  by_cases hu : s.c.unsat = true
  · simp only [hu, ↓reduceIte, CM.throw, outOfC]
    exact Or.inl (hunsat (fun ⟨a, ha⟩ => h.unsatOk hu ⟨a, (models_append.mp ha).1⟩))
  · have hu' : s.c.unsat = false := by simpa using hu
    simp only [hu', Bool.false_eq_true, ↓reduceIte, CM.bind]
    have hs := compSatisfiable_extra H h extra hne hwf
    revert hs
    generalize compSatisfiable E extra s = res
    obtain ⟨r, s0⟩ := res
    cases r with
    | error e' => intro hs; exact Or.inr ⟨e', rfl, hs.1⟩
    | ok b =>
      rintro ⟨hb, Us0, h0⟩
      cases b with
      | false =>
        simp only [Bool.not_false, ↓reduceIte, CM.throw, outOfC]
        exact Or.inl (hunsat (fun hs => by have := hb.mpr hs; cases this))
      | true =>
        simp only [Bool.not_true, Bool.false_eq_true, ↓reduceIte, pure, CM.pure]
        have hsatU : Satisfiable U := by
          obtain ⟨a, ha⟩ := hb.mp rfl
          exact ⟨a, (models_append.mp ha).1⟩
        have hu0 : s0.c.unsat = false := by
          cases hx : s0.c.unsat with
          | false => rfl
          | true => exact absurd hsatU (h0.unsatOk hx)
        obtain ⟨m, Us1, s1, hr, hm⟩ := solverForNames_spec (combineSpec H (childFoot H)) h0 names
        simp only [hr]
        have hallsat : ∀ j ∈ s0.c.solverList, Satisfiable (Us0.getD j []) := by
          obtain ⟨a, ha⟩ := hsatU
          exact fun j hj => ⟨a, (h0.sem hu0 a).mp ha j hj⟩
        have hequi := (merged_equi H h0 _ m hm hu0).2 hallsat
        -- the child's answer
        have hst := ch_step_nb H s1.w Us1 hm.kids m hm.lt op hsc hnb
        have hft := hfoot _ (stOfI s1.w m) (hm.kids.each m hm.lt)
        rw [hstep, hua, hual] at hst
        have hre2 : (runOn s1.w m q).2.reuse = s1.w.reuse := rfl
        have hlen2 := runOn_fes_length s1.w m q
        have hself2 := runOn_getD_self s1.w m q hm.lt
        simp only [CM.onChild]
        revert hst hre2 hlen2 hself2
        generalize runOn s1.w m q = res2
        obtain ⟨r2, w2⟩ := res2
        intro hst hre2 hlen2 hself2
        cases r2 with
        | error e' =>
          simp only [outOf, outOfC] at hst ⊢
          rcases hst.1 with hj | hg
          · exact Or.inl (htrans _ _ hequi hj)
          · exact Or.inr hg
        | ok vs =>
          simp only [outOf] at hst
          obtain ⟨s3, h3⟩ := reabsorb_ok H (s := { s1 with w := w2 }) hst.2 (by rw [hre2]; exact hm.reuse) m
            (by rw [hlen2]; exact hm.lt)
            (by
              intro v hv
              have hv' : v ∈ (w2.fes.getD m {}).variables := hv
              rw [hself2, hft.1] at hv'
              obtain ⟨t, ht, hvt⟩ := hm.sub v hv'
              obtain ⟨n', _, hn'⟩ := (mem_solversFor _ _ _).mp ht
              refine ⟨t, ?_⟩
              show alGet? s1.c.solvers v = some t
              rw [hm.comp]
              exact h0.cover n' t hn' v hvt)
          simp only [h3, outOfC]
          rcases hst.1 with hj | hg
          · exact Or.inl (htrans _ _ hequi hj)
          · exact Or.inr hg

/-- **a value query of the composite with extra constraints, generically: the invariant afterwards** -/
theorem compQuery_keepsX {α : Type} {U : List Con} {Us : List (List Con)} {s : CSt} (h : CInv R RE E U Us s) (op : Op)
    (names : List Var) (extra : List Con) (hne : extra ≠ []) (hwf : ∀ c ∈ extra, ConWf c) (q : M α) (f : α → Out)
    (hstep : ∀ w i, step E .SolverCompositeChild w i op = outOf f (runOn w i q))
    (hsc : InScopeC R RE op) (hnb : op ≠ .branch)
    (hual : ∀ X i, usersAll X i op = X)
    (hfoot : ∀ (U' : List Con) s', SI R RE E (fun _ => True) U' s' → FootQ s' (q s').2) :
    ∃ Us', CInv R RE E U Us' (compQuery E names extra q s).2 := by
  simp only [compQuery, bind, CM.bind, ensureSat, CM.get]
  by_cases hu : s.c.unsat = true
  · simp only [hu, ↓reduceIte, CM.throw]
    exact ⟨Us, h⟩
  · have hu' : s.c.unsat = false := by simpa using hu
    simp only [hu', Bool.false_eq_true, ↓reduceIte, CM.bind]
    have hs := compSatisfiable_extra H h extra hne hwf
    revert hs
    generalize compSatisfiable E extra s = res
    obtain ⟨r, s0⟩ := res
    cases r with
    | error e' => intro hs; exact hs.2
    | ok b =>
      rintro ⟨hb, Us0, h0⟩
      cases b with
      | false =>
        simp only [Bool.not_false, ↓reduceIte, CM.throw]
        exact ⟨Us0, h0⟩
      | true =>
        simp only [Bool.not_true, Bool.false_eq_true, ↓reduceIte, pure, CM.pure]
        have hsatU : Satisfiable U := by
          obtain ⟨a, ha⟩ := hb.mp rfl
          exact ⟨a, (models_append.mp ha).1⟩
        have hu0 : s0.c.unsat = false := by
          cases hx : s0.c.unsat with
          | false => rfl
          | true => exact absurd hsatU (h0.unsatOk hx)
        obtain ⟨m, Us1, s1, hr, hm⟩ := solverForNames_spec (combineSpec H (childFoot H)) h0 names
        simp only [hr]
        have hallsat : ∀ j ∈ s0.c.solverList, Satisfiable (Us0.getD j []) := by
          obtain ⟨a, ha⟩ := hsatU
          exact fun j hj => ⟨a, (h0.sem hu0 a).mp ha j hj⟩
        have hst := ch_step_nb H s1.w Us1 hm.kids m hm.lt op hsc hnb
        have hft := hfoot _ (stOfI s1.w m) (hm.kids.each m hm.lt)
        rw [hstep, hual] at hst
        have hre2 : (runOn s1.w m q).2.reuse = s1.w.reuse := rfl
        have hlen2 := runOn_fes_length s1.w m q
        have hself2 := runOn_getD_self s1.w m q hm.lt
        have hoth2 : ∀ j, j ≠ m → (runOn s1.w m q).2.fes.getD j {} = s1.w.fes.getD j {} :=
          fun j hj => runOn_getD_ne s1.w m q j hj
        simp only [CM.onChild]
        revert hst hre2 hlen2 hself2 hoth2
        generalize runOn s1.w m q = res2
        obtain ⟨r2, w2⟩ := res2
        intro hst hre2 hlen2 hself2 hoth2
        have hk2 : TInvS R RE E Us1 w2 := by
          cases r2 <;> exact hst.2
        have hfv : (w2.fes.getD m {}).variables = (s1.child m).variables := by rw [hself2, hft.1]; rfl
        have hfc : (w2.fes.getD m {}).constraints = (s1.child m).constraints := by rw [hself2, hft.2.1]; rfl
        have hfk : KeysInv (s1.child m) → KeysInv (w2.fes.getD m {}) := by rw [hself2]; exact hft.2.2
        have h2 : CInv R RE E U Us1 { s1 with w := w2 } :=
          cinv_after_query h0 hm w2 hk2 (by rw [hre2]; exact hm.reuse) hlen2 hoth2 hfv hfc hfk
        cases r2 with
        | error e' => exact ⟨Us1, h2⟩
        | ok vs =>
          dsimp only
          have hsolIn : ∀ t ∈ s0.c.solversFor names, t ∈ s0.c.solverList := by
            intro t ht
            obtain ⟨n, _, hn⟩ := (mem_solversFor _ _ _).mp ht
            exact (mem_solverList' _ h0.nodup t).mpr ⟨n, hn⟩
          have hmv : (({ s1 with w := w2 } : CSt).child m).variables = (s1.child m).variables := hfv
          · have hRK := reabsorbKeeps H
            have hmem : ∀ t, t ∈ s0.c.solversFor (s1.child m).variables ↔ t ∈ s0.c.solversFor names := by
              intro t
              constructor
              · intro ht
                obtain ⟨v, hv, hvt⟩ := (mem_solversFor _ _ _).mp ht
                obtain ⟨t', ht', hvt'⟩ := hm.sub v hv
                obtain ⟨n, _, hn⟩ := (mem_solversFor _ _ _).mp ht'
                have := h0.cover n t' hn v hvt'
                rw [hvt] at this
                rw [Option.some.inj this]; exact ht'
              · intro ht
                obtain ⟨n, _, hn⟩ := (mem_solversFor _ _ _).mp ht
                have hnv := (h0.map n t hn).2
                exact (mem_solversFor _ _ _).mpr ⟨n, hm.sup t ht n hnv, hn⟩
            have hltN : ∀ t ∈ s0.c.solversFor names, t < s0.w.fes.length := by
              intro t ht
              obtain ⟨n, _, hn⟩ := (mem_solversFor _ _ _).mp ht
              exact (h0.map n t hn).1
            have hcvars : ∀ t, t < s0.w.fes.length →
                (({ s1 with w := w2 } : CSt).child t).variables = (s0.child t).variables := by
              intro t ht
              by_cases htm : t = m
              · subst htm; rw [hmv, (hm.frame t ht).1]
              · show (w2.fes.getD t {}).variables = _
                rw [hoth2 t htm]
                show (s1.child t).variables = _
                rw [(hm.frame t ht).1]
            have hc2 : ({ s1 with w := w2 } : CSt).c = s0.c := hm.comp
            have hkeys2 : ∀ v ∈ (({ s1 with w := w2 } : CSt).child m).variables,
                ∃ t, alGet? ({ s1 with w := w2 } : CSt).c.solvers v = some t := by
              intro v hv
              rw [hmv] at hv
              obtain ⟨t, ht, hvt⟩ := hm.sub v hv
              obtain ⟨n', _, hn'⟩ := (mem_solversFor _ _ _).mp ht
              exact ⟨t, by rw [hc2]; exact h0.cover n' t hn' v hvt⟩
            obtain ⟨s3, hrb⟩ := reabsorb_ok H (s := { s1 with w := w2 }) hk2 (by rw [hre2]; exact hm.reuse) m
              (by show m < w2.fes.length; rw [hlen2]; exact hm.lt) hkeys2
            rw [hrb]
            dsimp only
            refine hRK U Us1 { s1 with w := w2 } m h2 (by show m < w2.fes.length; rw [hlen2]; exact hm.lt) hkeys2 ?_ ?_ ?_
              (by rw [hc2]; exact hu0) s3 hrb
            · intro t ht v hv
              rw [hmv, hc2] at ht
              rw [hmv]
              have ht' := (hmem t).mp ht
              rw [hcvars t (hltN t ht')] at hv
              exact hm.sup t ht' v hv
            · intro a
              rw [hmv, hc2, hm.sem a]
              constructor
              · intro hall t ht
                have ht' := (hmem t).mp ht
                rw [(hm.frame t (hltN t ht')).2]; exact hall t ht'
              · intro hall t ht
                have := hall t ((hmem t).mpr ht)
                rwa [(hm.frame t (hltN t ht)).2] at this
            · intro t ht
              rw [hmv, hc2] at ht
              have ht' := (hmem t).mp ht
              rw [(hm.frame t (hltN t ht')).2]
              exact hallsat t (hsolIn t ht')

/-- **`eval(e, n, extra_constraints)` of the composite**: the answer `Judge` demands for everything the user added plus the extras, and the invariant again -/
theorem compEvalX_step {U : List Con} {Us : List (List Con)} {s : CSt} (h : CInv R RE E U Us s) (e : Exp) (n : Nat)
    (extra : List Con) (hne : extra ≠ []) (hwf : ∀ c ∈ extra, ConWf c) (he : RE e) (hc : e.conc = none) (hn : 1 ≤ n) :
    JudgeOrGiveUp E U (.eval e n extra) (compStep E s (.eval e n extra)).1 ∧ ∃ Us', CInv R RE E U Us' (compStep E s (.eval e n extra)).2 := by
  have hrun : compStep E s (.eval e n extra) = outOfC Out.vals (compQuery E (namesFor (e.vars :: extra.map (·.vars))) extra ((childOps E).eval e n extra) s) := by
    rfl
  have hstep : ∀ w i, step E .SolverCompositeChild w i (.eval e n extra) = outOf Out.vals (runOn w i ((childOps E).eval e n extra)) := fun _ _ => rfl
  have hsc : InScopeC R RE (.eval e n extra) := ⟨he, hc, hn⟩
  have hft : ∀ (U' : List Con) s', SI R RE E (fun _ => True) U' s' → FootQ s' (((childOps E).eval e n extra) s').2 :=
    fun U' s' hs' => (childFoot H).eval _ U' e n extra s' hs'
  have hvE : ∀ c ∈ extra, ∀ v ∈ c.vars, v ∈ namesFor (e.vars :: extra.map (·.vars)) := by
    have := extra_vars_names (extra := extra) ([e.vars]) ([])
    simpa using this
  have key := compQuery_judgeX H h (.eval e n extra) (namesFor (e.vars :: extra.map (·.vars))) extra hne hwf ((childOps E).eval e n extra) Out.vals
    hstep hsc (by intro hx; cases hx) (fun _ => rfl) (fun _ _ => rfl) hft
  have keep := compQuery_keepsX H h (.eval e n extra) (namesFor (e.vars :: extra.map (·.vars))) extra hne hwf ((childOps E).eval e n extra) Out.vals
    hstep hsc (by intro hx; cases hx) (fun _ _ => rfl) hft
  rw [hrun, outOfC_snd]
  refine ⟨key ?_ ?_, keep⟩
  · intro hns; simp only [Judge]; exact hns
  · intro Um o hequi hj
    have hequi' := hequi.extra hwf hvE
    have hvars : ∀ v ∈ e.vars, v ∈ namesFor (e.vars :: extra.map (·.vars)) :=
      fun v hv => (mem_namesFor _ v).mpr ⟨e.vars, by simp, hv⟩
    exact (judge_shift_eval U e n extra o).mpr
      (Equi.judge_eval hequi' (H.expReg.dep e he) hvars n o ((judge_shift_eval _ e n extra o).mp hj))

/-- **`batch_eval(es, n, extra_constraints)` of the composite** -/
theorem compBatchEvalX_step {U : List Con} {Us : List (List Con)} {s : CSt} (h : CInv R RE E U Us s) (es : List Exp) (n : Nat)
    (extra : List Con) (hne : extra ≠ []) (hwf : ∀ c ∈ extra, ConWf c) (hnes : es ≠ []) (hes : ∀ e ∈ es, RE e ∧ e.conc = none) (hn : 1 ≤ n) :
    JudgeOrGiveUp E U (.batchEval es n extra) (compStep E s (.batchEval es n extra)).1 ∧ ∃ Us', CInv R RE E U Us' (compStep E s (.batchEval es n extra)).2 := by
  have hrun : compStep E s (.batchEval es n extra) = outOfC Out.tuples (compQuery E (namesFor (extra.map (·.vars) ++ es.map (·.vars))) extra ((childOps E).batchEval es n extra) s) := by
    rfl
  have hstep : ∀ w i, step E .SolverCompositeChild w i (.batchEval es n extra) = outOf Out.tuples (runOn w i ((childOps E).batchEval es n extra)) := fun _ _ => rfl
  have hsc : InScopeC R RE (.batchEval es n extra) := ⟨hnes, hes, hn⟩
  have hft : ∀ (U' : List Con) s', SI R RE E (fun _ => True) U' s' → FootQ s' (((childOps E).batchEval es n extra) s').2 :=
    fun U' s' hs' => child_batchEval_foot H es n extra s' hs'
  have hvE : ∀ c ∈ extra, ∀ v ∈ c.vars, v ∈ namesFor (extra.map (·.vars) ++ es.map (·.vars)) := by
    have := extra_vars_names (extra := extra) ([]) (es.map (·.vars))
    simpa using this
  have key := compQuery_judgeX H h (.batchEval es n extra) (namesFor (extra.map (·.vars) ++ es.map (·.vars))) extra hne hwf ((childOps E).batchEval es n extra) Out.tuples
    hstep hsc (by intro hx; cases hx) (fun _ => rfl) (fun _ _ => rfl) hft
  have keep := compQuery_keepsX H h (.batchEval es n extra) (namesFor (extra.map (·.vars) ++ es.map (·.vars))) extra hne hwf ((childOps E).batchEval es n extra) Out.tuples
    hstep hsc (by intro hx; cases hx) (fun _ _ => rfl) hft
  rw [hrun, outOfC_snd]
  refine ⟨key ?_ ?_, keep⟩
  · intro hns; simp only [Judge]; exact hns
  · intro Um o hequi hj
    have hequi' := hequi.extra hwf hvE
    have hdep : ∀ e ∈ es, ExpDep e := fun e he => H.expReg.dep e (hes e he).1
    have hvars : ∀ e ∈ es, ∀ v ∈ e.vars, v ∈ namesFor (extra.map (·.vars) ++ es.map (·.vars)) := by
      intro e he v hv
      exact (mem_namesFor _ v).mpr ⟨e.vars, List.mem_append_right _ (List.mem_map.mpr ⟨e, he, rfl⟩), hv⟩
    exact (judge_shift_batchEval U es n extra o).mpr
      (Equi.judge_batchEval (es := es) hequi' hdep hvars n o ((judge_shift_batchEval _ es n extra o).mp hj))

/-- **`solution(e, x, extra_constraints)` of the composite** -/
theorem compSolutionX_step {U : List Con} {Us : List (List Con)} {s : CSt} (h : CInv R RE E U Us s) (e : Exp) (x : Nat)
    (extra : List Con) (hne : extra ≠ []) (hwf : ∀ c ∈ extra, ConWf c) (he : RE e) (hc : e.conc = none) (hx : x < 2 ^ e.bits) :
    JudgeOrGiveUp E U (.solution e x extra) (compStep E s (.solution e x extra)).1 ∧ ∃ Us', CInv R RE E U Us' (compStep E s (.solution e x extra)).2 := by
  have hrun : compStep E s (.solution e x extra) = outOfC Out.bool (compQuery E (namesFor (e.vars :: extra.map (·.vars))) extra ((childOps E).solution e x extra) s) := by
    rfl
  have hstep : ∀ w i, step E .SolverCompositeChild w i (.solution e x extra) = outOf Out.bool (runOn w i ((childOps E).solution e x extra)) := fun _ _ => rfl
  have hsc : InScopeC R RE (.solution e x extra) := ⟨hc, hx⟩
  have hft : ∀ (U' : List Con) s', SI R RE E (fun _ => True) U' s' → FootQ s' (((childOps E).solution e x extra) s').2 :=
    fun U' s' hs' => child_solution_foot H e x extra s' hs'
  have hvE : ∀ c ∈ extra, ∀ v ∈ c.vars, v ∈ namesFor (e.vars :: extra.map (·.vars)) := by
    have := extra_vars_names (extra := extra) ([e.vars]) ([])
    simpa using this
  have key := compQuery_judgeX H h (.solution e x extra) (namesFor (e.vars :: extra.map (·.vars))) extra hne hwf ((childOps E).solution e x extra) Out.bool
    hstep hsc (by intro hx; cases hx) (fun _ => rfl) (fun _ _ => rfl) hft
  have keep := compQuery_keepsX H h (.solution e x extra) (namesFor (e.vars :: extra.map (·.vars))) extra hne hwf ((childOps E).solution e x extra) Out.bool
    hstep hsc (by intro hx; cases hx) (fun _ _ => rfl) hft
  rw [hrun, outOfC_snd]
  refine ⟨key ?_ ?_, keep⟩
  · intro hns; simp only [Judge]; exact hns
  · intro Um o hequi hj
    have hequi' := hequi.extra hwf hvE
    have hvars : ∀ v ∈ e.vars, v ∈ namesFor (e.vars :: extra.map (·.vars)) :=
      fun v hv => (mem_namesFor _ v).mpr ⟨e.vars, by simp, hv⟩
    exact (judge_shift_solution U e x extra o).mpr
      (Equi.judge_solution (e := e) hequi' (H.expReg.dep e he) hvars x o ((judge_shift_solution _ e x extra o).mp hj))

/-- **`max(e, extra_constraints)` of the composite** -/
theorem compMaxX_step {U : List Con} {Us : List (List Con)} {s : CSt} (h : CInv R RE E U Us s) (e : Exp) (signed : Bool)
    (extra : List Con) (hne : extra ≠ []) (hwf : ∀ c ∈ extra, ConWf c) (he : RE e) (hc : e.conc = none) :
    JudgeOrGiveUp E U (.max e extra signed) (compStep E s (.max e extra signed)).1 ∧ ∃ Us', CInv R RE E U Us' (compStep E s (.max e extra signed)).2 := by
  have hrun : compStep E s (.max e extra signed) = outOfC Out.int (compQuery E (namesFor (e.vars :: extra.map (·.vars))) extra ((childOps E).max e extra signed) s) := by
    rfl
  have hstep : ∀ w i, step E .SolverCompositeChild w i (.max e extra signed) = outOf Out.int (runOn w i ((childOps E).max e extra signed)) := fun _ _ => rfl
  have hsc : InScopeC R RE (.max e extra signed) := ⟨he, hc⟩
  have hft : ∀ (U' : List Con) s', SI R RE E (fun _ => True) U' s' → FootQ s' (((childOps E).max e extra signed) s').2 :=
    fun U' s' hs' => child_extremum_foot H true e he hc extra signed s' hs'
  have hvE : ∀ c ∈ extra, ∀ v ∈ c.vars, v ∈ namesFor (e.vars :: extra.map (·.vars)) := by
    have := extra_vars_names (extra := extra) ([e.vars]) ([])
    simpa using this
  have key := compQuery_judgeX H h (.max e extra signed) (namesFor (e.vars :: extra.map (·.vars))) extra hne hwf ((childOps E).max e extra signed) Out.int
    hstep hsc (by intro hx; cases hx) (fun _ => rfl) (fun _ _ => rfl) hft
  have keep := compQuery_keepsX H h (.max e extra signed) (namesFor (e.vars :: extra.map (·.vars))) extra hne hwf ((childOps E).max e extra signed) Out.int
    hstep hsc (by intro hx; cases hx) (fun _ _ => rfl) hft
  rw [hrun, outOfC_snd]
  refine ⟨key ?_ ?_, keep⟩
  · intro hns; simp only [Judge]; exact hns
  · intro Um o hequi hj
    have hequi' := hequi.extra hwf hvE
    have hvars : ∀ v ∈ e.vars, v ∈ namesFor (e.vars :: extra.map (·.vars)) :=
      fun v hv => (mem_namesFor _ v).mpr ⟨e.vars, by simp, hv⟩
    exact (judge_shift_max U e signed extra o).mpr
      (Equi.judge_opt hequi' (H.expReg.dep e he) hvars hc true signed o ((judge_shift_max _ e signed extra o).mp hj))

/-- **`min(e, extra_constraints)` of the composite** -/
theorem compMinX_step {U : List Con} {Us : List (List Con)} {s : CSt} (h : CInv R RE E U Us s) (e : Exp) (signed : Bool)
    (extra : List Con) (hne : extra ≠ []) (hwf : ∀ c ∈ extra, ConWf c) (he : RE e) (hc : e.conc = none) :
    JudgeOrGiveUp E U (.min e extra signed) (compStep E s (.min e extra signed)).1 ∧ ∃ Us', CInv R RE E U Us' (compStep E s (.min e extra signed)).2 := by
  have hrun : compStep E s (.min e extra signed) = outOfC Out.int (compQuery E (namesFor (e.vars :: extra.map (·.vars))) extra ((childOps E).min e extra signed) s) := by
    rfl
  have hstep : ∀ w i, step E .SolverCompositeChild w i (.min e extra signed) = outOf Out.int (runOn w i ((childOps E).min e extra signed)) := fun _ _ => rfl
  have hsc : InScopeC R RE (.min e extra signed) := ⟨he, hc⟩
  have hft : ∀ (U' : List Con) s', SI R RE E (fun _ => True) U' s' → FootQ s' (((childOps E).min e extra signed) s').2 :=
    fun U' s' hs' => child_extremum_foot H false e he hc extra signed s' hs'
  have hvE : ∀ c ∈ extra, ∀ v ∈ c.vars, v ∈ namesFor (e.vars :: extra.map (·.vars)) := by
    have := extra_vars_names (extra := extra) ([e.vars]) ([])
    simpa using this
  have key := compQuery_judgeX H h (.min e extra signed) (namesFor (e.vars :: extra.map (·.vars))) extra hne hwf ((childOps E).min e extra signed) Out.int
    hstep hsc (by intro hx; cases hx) (fun _ => rfl) (fun _ _ => rfl) hft
  have keep := compQuery_keepsX H h (.min e extra signed) (namesFor (e.vars :: extra.map (·.vars))) extra hne hwf ((childOps E).min e extra signed) Out.int
    hstep hsc (by intro hx; cases hx) (fun _ _ => rfl) hft
  rw [hrun, outOfC_snd]
  refine ⟨key ?_ ?_, keep⟩
  · intro hns; simp only [Judge]; exact hns
  · intro Um o hequi hj
    have hequi' := hequi.extra hwf hvE
    have hvars : ∀ v ∈ e.vars, v ∈ namesFor (e.vars :: extra.map (·.vars)) :=
      fun v hv => (mem_namesFor _ v).mpr ⟨e.vars, by simp, hv⟩
    exact (judge_shift_min U e signed extra o).mpr
      (Equi.judge_opt hequi' (H.expReg.dep e he) hvars hc false signed o ((judge_shift_min _ e signed extra o).mp hj))

/-! ### histories in which every query may carry extra constraints -/

/-- the calls of a history: `add` of registered constraints (as in `InScopeCH`), `satisfiable` / `eval` / `batch_eval` / `min` /
`max` / `solution` with ANY registered extra constraints (registered symbolic expressions), `is_true` / `is_false` with any extras -/
def InScopeCE (R : Con → Prop) (RE : Exp → Prop) : Op → Prop
  | .satisfiable extra => ∀ c ∈ extra, R c
  | .eval e n extra => RE e ∧ e.conc = none ∧ 1 ≤ n ∧ ∀ c ∈ extra, R c
  | .batchEval es n extra => es ≠ [] ∧ (∀ e ∈ es, RE e ∧ e.conc = none) ∧ 1 ≤ n ∧ ∀ c ∈ extra, R c
  | .solution e x extra => RE e ∧ e.conc = none ∧ x < 2 ^ e.bits ∧ ∀ c ∈ extra, R c
  | .min e extra _ => RE e ∧ e.conc = none ∧ ∀ c ∈ extra, R c
  | .max e extra _ => RE e ∧ e.conc = none ∧ ∀ c ∈ extra, R c
  | op => InScopeCX R RE op

omit H in
/-- the histories without extras are in scope -/
theorem InScopeCX.toCE {op : Op} (h : InScopeCX R RE op) : InScopeCE R RE op := by
  cases op with
  | satisfiable extra => have : extra = [] := h; subst this; intro c hc; cases hc
  | eval e n extra => obtain ⟨he, hc, hn, rfl, _⟩ := h; exact ⟨he, hc, hn, fun c hc => by cases hc⟩
  | batchEval es n extra => obtain ⟨hne, hes, hn, rfl, _⟩ := h; exact ⟨hne, hes, hn, fun c hc => by cases hc⟩
  | solution e x extra => obtain ⟨he, hc, hx, rfl, _⟩ := h; exact ⟨he, hc, hx, fun c hc => by cases hc⟩
  | min e extra sg => obtain ⟨he, hc, rfl⟩ := h; exact ⟨he, hc, fun c hc => by cases hc⟩
  | max e extra sg => obtain ⟨he, hc, rfl⟩ := h; exact ⟨he, hc, fun c hc => by cases hc⟩
  | _ => exact h

/-- **`satisfiable(extra_constraints)` as a call of a history** -/
theorem compSatisfiableX_step {U : List Con} {Us : List (List Con)} {s : CSt} (h : CInv R RE E U Us s) (extra : List Con)
    (hne : extra ≠ []) (hwf : ∀ c ∈ extra, ConWf c) :
    JudgeOrGiveUp E U (.satisfiable extra) (compStep E s (.satisfiable extra)).1 ∧
      ∃ Us', CInv R RE E U Us' (compStep E s (.satisfiable extra)).2 := by
  have hs := compSatisfiable_extra H h extra hne hwf
  show JudgeOrGiveUp E U _ (outOfC .bool (compSatisfiable E extra s)).1 ∧
    ∃ Us', CInv R RE E U Us' (outOfC .bool (compSatisfiable E extra s)).2
  revert hs
  generalize compSatisfiable E extra s = res
  obtain ⟨r, s'⟩ := res
  cases r with
  | ok b => exact fun hs => ⟨Or.inl hs.1, hs.2⟩
  | error e => exact fun hs => ⟨Or.inr ⟨e, rfl, hs.1⟩, hs.2⟩

/-- **one call, extras allowed everywhere**: right answer and the invariant again -/
theorem comp_stepE {U : List Con} {Us : List (List Con)} {s : CSt} (h : CInv R RE E U Us s) (op : Op) (hop : InScopeCE R RE op) :
    JudgeOrGiveUp E (usersAfter U op) op (compStep E s op).1 ∧ ∃ Us', CInv R RE E (usersAfter U op) Us' (compStep E s op).2 := by
  have hwfR : ∀ extra : List Con, (∀ c ∈ extra, R c) → ∀ c ∈ extra, ConWf c := fun _ hR c hc => H.reg.wf c (hR c hc)
  cases op with
  | satisfiable extra =>
    by_cases hex : extra = []
    · subst hex; exact comp_stepX H h (.satisfiable []) rfl
    · exact compSatisfiableX_step H h extra hex (hwfR extra hop)
  | eval e n extra =>
    obtain ⟨he, hc, hn, hR⟩ := hop
    by_cases hex : extra = []
    · subst hex; exact comp_stepX H h (.eval e n []) ⟨he, hc, hn, rfl, trivial⟩
    · exact compEvalX_step H h e n extra hex (hwfR extra hR) he hc hn
  | batchEval es n extra =>
    obtain ⟨hne, hes, hn, hR⟩ := hop
    by_cases hex : extra = []
    · subst hex; exact comp_stepX H h (.batchEval es n []) ⟨hne, hes, hn, rfl, trivial⟩
    · exact compBatchEvalX_step H h es n extra hex (hwfR extra hR) hne hes hn
  | solution e x extra =>
    obtain ⟨he, hc, hx, hR⟩ := hop
    by_cases hex : extra = []
    · subst hex; exact comp_stepX H h (.solution e x []) ⟨he, hc, hx, rfl, trivial⟩
    · exact compSolutionX_step H h e x extra hex (hwfR extra hR) he hc hx
  | min e extra sg =>
    obtain ⟨he, hc, hR⟩ := hop
    by_cases hex : extra = []
    · subst hex; exact comp_stepX H h (.min e [] sg) ⟨he, hc, rfl⟩
    · exact compMinX_step H h e sg extra hex (hwfR extra hR) he hc
  | max e extra sg =>
    obtain ⟨he, hc, hR⟩ := hop
    by_cases hex : extra = []
    · subst hex; exact comp_stepX H h (.max e [] sg) ⟨he, hc, rfl⟩
    · exact compMaxX_step H h e sg extra hex (hwfR extra hR) he hc
  | add cs => exact comp_stepX H h (.add cs) hop
  | isTrue c extra => exact comp_stepX H h (.isTrue c extra) hop
  | isFalse c extra => exact comp_stepX H h (.isFalse c extra) hop
  | _ => exact hop.elim

/-- **any history of calls in scope, extras allowed everywhere**: every answer is the one `Judge` demands for what the user had
added when it was given (plus the extras of the call), or an honest give-up -/
theorem comp_histE : ∀ (hist : List Op) (s : CSt) (U : List Con) (Us : List (List Con)), CInv R RE E U Us s →
    (∀ op ∈ hist, InScopeCE R RE op) → ∀ x ∈ runComp E s U hist, JudgeOrGiveUp E x.1 x.2.1 x.2.2
  | [], _, _, _, _, _ => fun x hx => by cases hx
  | op :: rest, s, U, Us, h, hok => by
    intro x hx
    obtain ⟨hj, Us', hinv⟩ := comp_stepE H h op (hok op (by simp))
    rw [runComp_cons] at hx
    rcases List.mem_cons.mp hx with rfl | hx
    · exact hj
    · exact comp_histE rest _ _ Us' hinv (fun op' hop' => hok op' (by simp [hop'])) x hx

/-- the invariant along such a history -/
theorem comp_histE_inv : ∀ (hist : List Op) (s : CSt) (U : List Con) (Us : List (List Con)), CInv R RE E U Us s →
    (∀ op ∈ hist, InScopeCE R RE op) → ∃ Us', CInv R RE E (usersAfterOps U hist) Us' (compRun E s hist)
  | [], _, _, Us, h, _ => ⟨Us, h⟩
  | op :: rest, s, U, Us, h, hok => by
    obtain ⟨_, Us', hinv⟩ := comp_stepE H h op (hok op (by simp))
    exact comp_histE_inv rest _ _ Us' hinv (fun op' hop' => hok op' (by simp [hop']))

end

end Claripy.Solver
