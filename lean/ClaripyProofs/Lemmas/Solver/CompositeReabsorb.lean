import ClaripyProofs.Lemmas.Solver.CompositeQueries
/-!
Towards `_reabsorb_solver`: the semantic core of the case `len(parts) == len(old)`.  `ModelCacheMixin.split` gives a part the
models of the split (merged) solver restricted to the part's variables; `ModelCacheMixin.update` hands to the old child `t` those
of them whose key set is `t.variables`.  Such a model is a model of `t`'s constraints — without any assumption on how the
parts relate to the old children (no "every child is connected"): it agrees on `t.variables` with a model of ALL the merged
constraints.  (What is still open about `_reabsorb_solver`: `ReabsorbKeeps`, CompositeKeep.lean.)
-/
namespace Claripy.Solver

/-- **what `update` accepts is valid for the child that receives it**: `m` satisfies the merged constraints `Um`, which imply the
child's `Ut`; `Ut` depends on `tvars` only; the restriction of `m` to the part's variables has exactly the keys `tvars` -/
theorem update_accepts_valid (dflt : Var → Nat) {Um Ut : List Con} (hwf : ∀ c ∈ Ut, ConWf c) (tvars pvars : List Var)
    (hvars : ∀ v ∈ varsOf Ut, v ∈ tvars) (himp : ∀ a, Models Um a → Models Ut a) (m : PModel)
    (hm : Models Um (m.complete dflt)) (hacc : sameSet (modelKeys (m.restrict pvars)) tvars = true) :
    Models Ut ((m.restrict pvars).complete dflt) := by
  refine models_of_agree hwf (fun v hv => ?_) (himp _ hm)
  have hvt := hvars v hv
  simp only [sameSet, Bool.and_eq_true] at hacc
  have hkey : v ∈ modelKeys (m.restrict pvars) := (subsetB_iff _ _).mp hacc.2 v hvt
  obtain ⟨kv, hkv, rfl⟩ := List.mem_map.mp hkey
  have hvp : kv.1 ∈ pvars := mem_restrict hkv
  simp only [PModel.complete_apply]
  rw [PModel.get?_restrict m pvars kv.1, if_pos hvp]

end Claripy.Solver
