import ClaripyProofs.Lemmas.Solver.SolverReach
import ClaripyProofs.Lemmas.Solver.SolverChildHistory
/-!
Pickling a caching `Solver`: the restored frontend satisfies the full invariant `SI` for the constraints of the original
(`si_restore`), so it can replace the original in the world (`step … .pickle`, proved in `sol_step`) or JOIN it as a twin that
runs side by side with the original (`tinvS_append_restored`): it refers to no Z3 object, hence shares nothing.
-/
namespace Claripy.Solver
open Claripy.Gen.SolverMro

variable {R : Con → Prop} {RE : Exp → Prop} {E : Env}

/-- `pickle.loads(pickle.dumps(solver))` keeps `SI = BInv ∧ MCInv ∧ SCInv` -/
theorem si_restore {G : St → Prop} {U : List Con} (hR : Reg R E) {s : St} (h : SI R RE E G U s) :
    SI R RE E G U { s with fe := pickleRestore (mro .Solver) s.fe } := by
  obtain ⟨c, hc, e1, e2, e3, e4, e5, e6, e7, e8, e9, e10, e11, e12, e13, e14, e15⟩ := pickleS_spec s.fe
  rw [hc]
  exact si_pickle hR h c e1 e2 e3 e4 e5 e6 e7 e8 e9 e10 e11 e12 e13 e14 e15

/-- the same for the children of SolverComposite -/
theorem si_restore_child {G : St → Prop} {U : List Con} (hR : Reg R E) {s : St} (h : SI R RE E G U s) :
    SI R RE E G U { s with fe := pickleRestore (mro .SolverCompositeChild) s.fe } := by
  obtain ⟨c, hc, e1, e2, e3, e4, e5, e6, e7, e8, e9, e10, e11, e12, e13, e14, e15⟩ := pickleC_spec s.fe
  rw [hc]
  exact si_pickle hR h c e1 e2 e3 e4 e5 e6 e7 e8 e9 e10 e11 e12 e13 e14 e15

/-- a frontend that refers to no Z3 object joins the world -/
theorem tinvS_append_fresh {Us : List (List Con)} {w : World} (hw : TInvS R RE E Us w) (c : Frontend) (U : List Con)
    (hc : SI R RE E (fun _ => True) U
      { fe := c, objs := w.objs, reuse := w.reuse, shared := w.shared, tick := w.tick, qlog := w.qlog })
    (hsol : c.solver = none) :
    TInvS R RE E (Us ++ [U]) { w with fes := w.fes ++ [c] } := by
  refine ⟨by simp [hw.len], ?_, ?_⟩
  · intro j hj
    simp only [List.length_append, List.length_singleton] at hj
    by_cases hjl : j < w.fes.length
    · have e1 : stOfI { w with fes := w.fes ++ [c] } j = stOfI w j := by
        simp only [stOfI, getD_append_left' _ _ _ _ hjl]
      rw [e1, getD_append_left' _ _ _ _ (by rw [hw.len]; exact hjl)]
      exact hw.each j hjl
    · have hjeq : j = w.fes.length := by omega
      subst hjeq
      have e2 : (Us ++ [U]).getD w.fes.length [] = U := by rw [← hw.len]; exact getD_append_last _ _ _
      have e3 : stOfI { w with fes := w.fes ++ [c] } w.fes.length =
          { fe := c, objs := w.objs, reuse := w.reuse, shared := w.shared, tick := w.tick, qlog := w.qlog } := by
        simp only [stOfI, getD_append_last]
      rw [e2, e3]
      exact hc
  · intro a b r ha hb hab hra hrb
    simp only [List.length_append, List.length_singleton] at ha hb
    simp only at hra hrb ⊢
    by_cases hal : a < w.fes.length
    · rw [getD_append_left' _ _ _ _ hal] at hra ⊢
      by_cases hbl : b < w.fes.length
      · rw [getD_append_left' _ _ _ _ hbl] at hrb
        exact hw.share a b r hal hbl hab hra hrb
      · have hbeq : b = w.fes.length := by omega
        subst hbeq
        rw [getD_append_last, hsol] at hrb
        cases hrb
    · have haeq : a = w.fes.length := by omega
      subst haeq
      rw [getD_append_last, hsol] at hra
      cases hra

/-- the world in which solver `i` was dumped and loaded as an additional solver (the original lives on) -/
def twinWorld (cls : SolverClass) (w : World) (i : Nat) : World :=
  { w with fes := w.fes ++ [pickleRestore (mro cls) (w.fes.getD i {})] }

/-- the restored twin joins the tree, judged by the constraints of the original at the moment of the dump -/
theorem tinvS_append_restored (hR : Reg R E) {Us : List (List Con)} {w : World} (hw : TInvS R RE E Us w) {i : Nat}
    (hi : i < w.fes.length) : TInvS R RE E (Us ++ [Us.getD i []]) (twinWorld .Solver w i) := by
  refine tinvS_append_fresh hw _ _ ?_ rfl
  exact si_restore hR (hw.each i hi)

theorem tinvS_append_restored_child (hR : Reg R E) {Us : List (List Con)} {w : World} (hw : TInvS R RE E Us w) {i : Nat}
    (hi : i < w.fes.length) : TInvS R RE E (Us ++ [Us.getD i []]) (twinWorld .SolverCompositeChild w i) := by
  refine tinvS_append_fresh hw _ _ ?_ rfl
  exact si_restore_child hR (hw.each i hi)

/-- `Judge` determines the verdict of `satisfiable` -/
theorem judge_satisfiable_unique {U : List Con} {ex : List Con} {o o' : Out} (h : Judge U (.satisfiable ex) o)
    (h' : Judge U (.satisfiable ex) o') : o = o' := by
  cases o <;> try exact h.elim
  cases o' <;> try exact h'.elim
  rename_i b b'
  simp only [Judge] at h h'
  cases b <;> cases b' <;> simp_all

end Claripy.Solver
