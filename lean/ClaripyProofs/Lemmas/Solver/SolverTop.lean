import ClaripyProofs.Lemmas.Solver.SolverFilter
/-!
The class `Solver` assembled: what each unrolling of `self` provides (`Ok1` ⊂ `Ok2` ⊂ `Ok3`), and the public methods of the
class in the form the step theorem uses (`TopSpec`: the answer is one `Judge` allows, or an honest give-up; the invariant
`SI` is kept).
-/
namespace Claripy.Solver

variable {R : Con → Prop} {RE : Exp → Prop} {E : Env} {G : St → Prop} {U : List Con}

/-! ### what `self` provides -/

/-- independent of `self`: the callback, eager concrete evaluation, `simplify` -/
structure Ok1 (R : Con → Prop) (RE : Exp → Prop) (E : Env) (G : St → Prop) (o : Ops) : Prop where
  hook : o.modelHook = mcHook
  cc : ∀ c, o.concreteCon c = c.conc
  cv : ∀ e, o.concreteValue e = e.conc
  simp : SimplifySpec R RE E G o.simplify

/-- with a `self` that evaluates concretely: `_add` -/
structure Ok2 (R : Con → Prop) (RE : Exp → Prop) (E : Env) (G : St → Prop) (o : Ops) : Prop extends Ok1 R RE E G o where
  add : AddSpec R RE E G o.add

/-- with a `self` that is `Ok1`: `satisfiable` and `eval` -/
structure Ok3 (R : Con → Prop) (RE : Exp → Prop) (E : Env) (G : St → Prop) (o : Ops) : Prop extends Ok2 R RE E G o where
  sat : ∀ (U : List Con) extra, (∀ c ∈ extra, ConWf c) → SatSpec R RE E G U extra (o.satisfiable extra)
  eval : ∀ (U : List Con) e n extra, RE e → e.conc = none → 1 ≤ n → (∀ c ∈ extra, ConWf c) →
    EvalSpec R RE E G U e n extra (o.eval e n extra)

/-- the hypotheses about the environment the class `Solver` needs -/
structure SolverHyps (R : Con → Prop) (RE : Exp → Prop) (E : Env) : Prop where
  reg : Reg R E
  zid : ZidFaithful R
  oracle : OracleExact E
  simpOn : SimpOn R E
  simpVars : SimpVars R E
  cheap : CheapSound E
  pick : PickOk E
  expReg : ExpReg RE
  evalComplete : EvalComplete RE E
  triv : TrivOk R RE
  build : BuildOn R RE E

variable (H : SolverHyps R RE E)
include H

theorem sL9_ok1 (self : Ops) : Ok1 R RE E G (sL9 E self) :=
  ⟨rfl, fun _ => rfl, fun _ => rfl, sL9_simplify_spec H.reg H.simpOn H.simpVars self⟩

theorem sL9_add_spec {self : Ops} (hcc : ∀ c, self.concreteCon c = c.conc) : AddSpec R RE E G (sL9 E self).add := by
  have h0 : LowAdd0 (sL2 E self).add := fc_add_low E self self frontendBase
  have h1 : LowAdd1 R RE E G (sL3 E self).add := mc_add_low (self := self) (sup := sL2 E self) H.reg H.triv h0
  have h2 : LowAdd2 R RE E G (sL4 E self).add := satCache_add_low (self := self) (sup := sL3 E self) H.reg H.cheap h1
  have h2' : LowAdd2 R RE E G (sL5 E self).add := skipper_add_low (self := self) (sup := sL4 E self) h2
  have h3 : LowAdd3 R RE E G (sL6 E self).add := dedup_add_low (self := self) (sup := sL5 E self) h2'
  exact filter_add_spec (self := self) (sup := sL6 E self) H.reg hcc h3

theorem sL9_ok2 {self : Ops} (hcc : ∀ c, self.concreteCon c = c.conc) : Ok2 R RE E G (sL9 E self) :=
  { sL9_ok1 H self with add := sL9_add_spec H hcc }

theorem sL9_sat_spec {self : Ops} (hs : Ok1 R RE E G self) (extra : List Con) (wf : ∀ c ∈ extra, ConWf c) :
    SatSpec R RE E G U extra ((sL9 E self).satisfiable extra) := by
  have h0 : ∀ ec, SatSpec R RE E G U ec ((sL2 E self).satisfiable ec) :=
    fun ec => full_satisfiable_spec (self := self) (sup := constrainedLayer E self frontendBase) H.oracle H.reg H.zid hs.hook ec
  have h3 : ∀ ec, SatSpec R RE E G U ec ((sL3 E self).satisfiable ec) :=
    fun ec => mc_satisfiable_spec (self := self) (sup := sL2 E self) ec (h0 ec)
  have h4 : ∀ ec, SatSpec R RE E G U ec ((sL6 E self).satisfiable ec) :=
    fun ec => satCache_satisfiable_spec (self := self) (sup := sL3 E self) ec (h3 ec)
  exact filter_satisfiable_spec (self := self) (sup := sL6 E self) hs.cc extra wf h4

theorem sL3_eval_spec {self : Ops} (hs : Ok1 R RE E G self) (e : Exp) (he : RE e) (hc : e.conc = none) (n : Nat) (hn : 1 ≤ n)
    (extra : List Con) : EvalSpec R RE E G U e n extra ((sL3 E self).eval e n extra) := by
  have h0 : ∀ n' extra', 1 ≤ n' → BatchSpec R RE E G U [e] n' extra' ((sL2 E self).batchEval [e] n' extra') :=
    fun n' extra' hn' => helper_batchEval_spec (self := self) (sup := sL0 E self) hs.simp [e] n' extra'
      (full_batchEval_spec (self := self) (sup := constrainedLayer E self frontendBase) H.oracle H.reg H.zid
        H.evalComplete H.expReg hs.hook [e] n' hn' extra')
  exact mc_eval_spec (self := self) (sup := sL2 E self) H.pick H.expReg e he hc n hn extra h0

theorem sL7_eval_spec {self : Ops} (hs : Ok1 R RE E G self) (e : Exp) (he : RE e) (hc : e.conc = none) (n : Nat) (hn : 1 ≤ n)
    (extra : List Con) (wf : ∀ c ∈ extra, ConWf c) : EvalSpec R RE E G U e n extra ((sL7 E self).eval e n extra) := by
  have h4 : ∀ ec, EvalSpec R RE E G U e n ec ((sL6 E self).eval e n ec) :=
    fun ec => satCache_eval_spec (self := self) (sup := sL3 E self) e hc n ec (sL3_eval_spec H hs e he hc n hn ec)
  exact filter_eval_spec (self := self) (sup := sL6 E self) hs.cc e n extra wf h4

omit H in
theorem sL9_eval_conc_none {self : Ops} (hcv : ∀ e, self.concreteValue e = e.conc) (e : Exp) (hc : e.conc = none) (n : Nat)
    (extra : List Con) : (sL9 E self).eval e n extra = (sL7 E self).eval e n extra := by
  show (match self.concreteValue e with | some c => pure [c] | none => (sL7 E self).eval e n extra) = _
  rw [hcv e, hc]

theorem sL9_ok3 {self : Ops} (hs : Ok1 R RE E G self) : Ok3 R RE E G (sL9 E self) :=
  { sL9_ok2 H hs.cc with
    sat := fun _ extra wf => sL9_sat_spec H hs extra wf
    eval := fun _ e n extra he hc hn wf => by
      rw [sL9_eval_conc_none hs.cv e hc n extra]
      exact sL7_eval_spec H hs e he hc n hn extra wf }

/-! ### `max` / `min` / `solution` of a symbolic expression -/

theorem sL7_opt_spec {self : Ops} (hs : Ok3 R RE E G self) (isMax : Bool) (e : Exp) (he : RE e) (hc : e.conc = none)
    (extra : List Con) (signed : Bool) (wf : ∀ c ∈ extra, ConWf c) :
    OptSpec R RE E G U isMax e extra signed
      (if isMax then (sL7 E self).max e extra signed else (sL7 E self).min e extra signed) := by
  -- FullFrontend
  have h0 : ∀ ec, (∀ c ∈ ec, ConWf c) → OptSpec R RE E G U isMax e ec signed
      (if isMax then (sL0 E self).max e ec signed else (sL0 E self).min e ec signed) := by
    intro ec wfec
    have : (if isMax then (sL0 E self).max e ec signed else (sL0 E self).min e ec signed) = fullExtremum E self isMax e ec signed := by
      cases isMax <;> rfl
    rw [this]
    exact full_extremum_spec H.oracle H.reg H.zid H.evalComplete H.expReg hs.hook isMax e he hc ec signed (hs.sat U ec wfec)
      (hs.eval U e 2 ec he hc (by omega) wfec)
  have h1 : ∀ ec, (∀ c ∈ ec, ConWf c) → OptSpec R RE E G U isMax e ec signed
      (if isMax then (sL1 E self).max e ec signed else (sL1 E self).min e ec signed) :=
    fun ec wfec => helper_opt_spec (self := self) (sup := sL0 E self) hs.simp isMax e ec signed (h0 ec wfec)
  have h2 : ∀ ec, (∀ c ∈ ec, ConWf c) → OptSpec R RE E G U isMax e ec signed
      (if isMax then (sL2 E self).max e ec signed else (sL2 E self).min e ec signed) :=
    fun ec wfec => expansion_opt_spec (self := self) (sup := sL1 E self) H.build H.expReg hs.add isMax e he ec signed (h1 ec wfec)
  have h3 : ∀ ec, (∀ c ∈ ec, ConWf c) → OptSpec R RE E G U isMax e ec signed
      (if isMax then (sL3 E self).max e ec signed else (sL3 E self).min e ec signed) := by
    intro ec wfec
    have : (if isMax then (sL3 E self).max e ec signed else (sL3 E self).min e ec signed) =
        modelCacheExtremum E (sL2 E self) isMax e ec signed := by cases isMax <;> rfl
    rw [this]
    exact mc_extremum_spec H.expReg isMax e he ec signed (h2 ec wfec)
  have h4 : ∀ ec, (∀ c ∈ ec, ConWf c) → OptSpec R RE E G U isMax e ec signed
      (if isMax then (sL6 E self).max e ec signed else (sL6 E self).min e ec signed) :=
    fun ec wfec => satCache_opt_spec (self := self) (sup := sL3 E self) isMax e ec signed (h3 ec wfec)
  -- the filter hands down a sublist of the extra constraints
  intro s h
  have hshow : (if isMax then (sL7 E self).max e extra signed else (sL7 E self).min e extra signed) s =
      (do let ec ← liftE (constraintFilter self extra)
          (if isMax then (sL6 E self).max e ec signed else (sL6 E self).min e ec signed) : M Int) s := by
    cases isMax <;> rfl
  rw [hshow]
  have hs0 := clStage_ok E 0
  have h0cc : ∀ c, (clStage E 0).concreteCon c = c.conc := by obtain ⟨h1, _, _⟩ := hs0; exact h1
  have hcong := constraintFilter_congr (self := self) (self' := clStage E 0) (fun c => by rw [hs.cc c, h0cc c]) extra
  have hfs := filter_spec hs0 extra wf
  have hf := filter_cases E (U := U) hs.cc extra wf
  simp only [bind, M.bind, liftE]
  rw [hcong] at hf ⊢
  cases hcf : constraintFilter (clStage E 0) extra with
  | error err =>
    rw [hcf] at hf
    exact ⟨Or.inl hf, h, Keep.refl U s⟩
  | ok ec =>
    rw [hcf] at hf hfs
    simp only
    have hspec := h4 ec (fun c hc' => wf c (hfs.2 c hc')) s h
    revert hspec
    generalize (if isMax then (sL6 E self).max e ec signed else (sL6 E self).min e ec signed) s = res
    rcases res with ⟨r, s1⟩
    cases r with
    | ok i => exact fun ⟨a, b, c, d⟩ => ⟨(isOpt_congr hf isMax signed e i).mp a, b, c, d⟩
    | error err => exact fun ⟨a, b, c⟩ => ⟨(errOk_congr hf err).mp a, b, c⟩

theorem sL7_solution_spec {self : Ops} (hs : Ok2 R RE E G self) (e : Exp) (he : RE e) (hc : e.conc = none) (v : Nat)
    (hv : v < 2 ^ e.bits) (extra : List Con) (wf : ∀ c ∈ extra, ConWf c) :
    SolSpec R RE E G U e v extra ((sL7 E self).solution e v extra) := by
  have h0 : ∀ ec, SolSpec R RE E G U e v ec ((sL1 E self).solution e v ec) :=
    fun ec => full_solution_spec (self := self) (sup := constrainedLayer E self frontendBase) H.oracle H.reg H.zid hs.hook e v hv ec
  have h2 : ∀ ec, SolSpec R RE E G U e v ec ((sL2 E self).solution e v ec) :=
    fun ec => expansion_solution_spec (self := self) (sup := sL1 E self) H.build hs.add e he v hv ec (h0 ec)
  have h3 : ∀ ec, SolSpec R RE E G U e v ec ((sL3 E self).solution e v ec) :=
    fun ec => mc_solution_spec (self := self) (sup := sL2 E self) e hc v ec (h2 ec)
  have h4 : ∀ ec, SolSpec R RE E G U e v ec ((sL6 E self).solution e v ec) :=
    fun ec => satCache_solution_spec (self := self) (sup := sL3 E self) e v ec (h3 ec)
  exact filter_solution_spec (self := self) (sup := sL6 E self) hs.cc e v extra wf h4

end Claripy.Solver
