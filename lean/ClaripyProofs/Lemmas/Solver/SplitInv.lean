import ClaripyProofs.Lemmas.Solver.SplitAlist
import ClaripyProofs.Lemmas.Solver.SplitSort
/-!
The loop of `_split_constraints`: after the first `k` conjuncts, the two dicts describe a partition of the variables seen
into classes, every class knows exactly the conjuncts whose variables it holds.
-/
namespace Claripy.Solver

def optUnion (acc : List Nat) : Option (List Nat) → List Nat
  | some s => listUnion acc s
  | none => acc

theorem mem_foldl_union (f : Var → Option (List Nat)) (vars : List Var) (init : List Nat) (y : Nat) :
    y ∈ vars.foldl (fun acc v => optUnion acc (f v)) init ↔
      y ∈ init ∨ ∃ v ∈ vars, ∃ s, f v = some s ∧ y ∈ s := by
  induction vars generalizing init with
  | nil => simp
  | cons v vs ih =>
    simp only [List.foldl_cons, ih, List.mem_cons]
    constructor
    · rintro (h | ⟨u, hu, s, hs, hy⟩)
      · cases hf : f v with
        | none => simp only [hf, optUnion] at h; exact Or.inl h
        | some s =>
          simp only [hf, optUnion, mem_listUnionN] at h
          rcases h with h | h
          · exact Or.inl h
          · exact Or.inr ⟨v, Or.inl rfl, s, hf, h⟩
      · exact Or.inr ⟨u, Or.inr hu, s, hs, hy⟩
    · rintro (h | ⟨u, hu, s, hs, hy⟩)
      · left
        cases hf : f v with
        | none => simpa [optUnion] using h
        | some s => simp only [optUnion, mem_listUnionN]; exact Or.inl h
      · rcases hu with rfl | hu
        · left
          simp only [hs, optUnion, mem_listUnionN]; exact Or.inr hy
        · exact Or.inr ⟨u, hu, s, hs, hy⟩

/-- `connected_variables` of one iteration -/
def stepCv (st : SplitSt) (vars : List Var) : List Var :=
  vars.foldl (fun acc v => optUnion acc (alGet? st.vc v)) (vars.foldl listInsert [])
/-- `connected_constraints` of one iteration -/
def stepCs (st : SplitSt) (n : Nat) (vars : List Var) : List Nat :=
  vars.foldl (fun acc v => optUnion acc (alGet? st.cc v)) [n]

theorem splitStep_eq (st : SplitSt) (n : Nat) (vars : List Var) :
    splitStep st n vars =
      { vc := (stepCv st vars).foldl (fun d v => alSet d v (stepCv st vars)) st.vc,
        cc := (stepCv st vars).foldl (fun d v => alSet d v (stepCs st n vars)) st.cc } := rfl

theorem mem_stepCv (st : SplitSt) (vars : List Var) (u : Var) :
    u ∈ stepCv st vars ↔ u ∈ vars ∨ ∃ v ∈ vars, ∃ S, alGet? st.vc v = some S ∧ u ∈ S := by
  unfold stepCv
  rw [mem_foldl_union (fun v => alGet? st.vc v), mem_foldl_listInsertN]

theorem mem_stepCs (st : SplitSt) (n : Nat) (vars : List Var) (i : Nat) :
    i ∈ stepCs st n vars ↔ i = n ∨ ∃ v ∈ vars, ∃ C, alGet? st.cc v = some C ∧ i ∈ C := by
  unfold stepCs
  rw [mem_foldl_union (fun v => alGet? st.cc v)]
  simp

theorem vc_splitStep (st : SplitSt) (n : Nat) (vars : List Var) (u : Var) :
    alGet? (splitStep st n vars).vc u = if u ∈ stepCv st vars then some (stepCv st vars) else alGet? st.vc u := by
  rw [splitStep_eq]; exact alGet?_foldl_alSet _ _ _ _

theorem cc_splitStep (st : SplitSt) (n : Nat) (vars : List Var) (u : Var) :
    alGet? (splitStep st n vars).cc u = if u ∈ stepCv st vars then some (stepCs st n vars) else alGet? st.cc u := by
  rw [splitStep_eq]; exact alGet?_foldl_alSet _ _ _ _

structure SplitInv (all : List (List Var)) (k : Nat) (st : SplitSt) : Prop where
  vcKeys : (keys st.vc).Nodup
  cls : ∀ v S, alGet? st.vc v = some S → v ∈ S ∧ ∀ u ∈ S, alGet? st.vc u = some S
  dom : ∀ v, (alGet? st.vc v).isSome = (alGet? st.cc v).isSome
  ccls : ∀ v S, alGet? st.vc v = some S → ∀ u ∈ S, alGet? st.cc u = alGet? st.cc v
  idx : ∀ v S C, alGet? st.vc v = some S → alGet? st.cc v = some C →
    ∀ i ∈ C, i < k ∧ ∃ vs, all[i]? = some vs ∧ vs ≠ [] ∧ ∀ w ∈ vs, w ∈ S
  cover : ∀ i vs, i < k → all[i]? = some vs → ∀ w ∈ vs, ∃ C, alGet? st.cc w = some C ∧ i ∈ C

theorem splitInv_init (all : List (List Var)) : SplitInv all 0 {} where
  vcKeys := by simp [keys]
  cls := by intro v S h; simp [alGet?_nil] at h
  dom := by intro v; rfl
  ccls := by intro v S h; simp [alGet?_nil] at h
  idx := by intro v S C h; simp [alGet?_nil] at h
  cover := by intro i vs h; omega

/-- a class that meets the new connected set is inside it -/
theorem class_in_cv {all k st} (inv : SplitInv all k st) (vars : List Var) (w : Var) (S : List Var)
    (hw : alGet? st.vc w = some S) (hwc : w ∈ stepCv st vars) : ∀ u ∈ S, u ∈ stepCv st vars := by
  intro u hu
  rcases (mem_stepCv st vars w).mp hwc with hv | ⟨v, hv, S', hS', hwS'⟩
  · exact (mem_stepCv st vars u).mpr (Or.inr ⟨w, hv, S, hw, hu⟩)
  · have := (inv.cls v S' hS').2 w hwS'
    rw [hw] at this
    cases this
    exact (mem_stepCv st vars u).mpr (Or.inr ⟨v, hv, S, hS', hu⟩)

theorem splitInv_step {all k st} (inv : SplitInv all k st) (vars : List Var) (hk : all[k]? = some vars) :
    SplitInv all (k + 1) (splitStep st k vars) where
  vcKeys := by rw [splitStep_eq]; exact keys_foldl_alSet_nodup _ _ _ inv.vcKeys
  cls := by
    intro v S h
    rw [vc_splitStep] at h
    by_cases hv : v ∈ stepCv st vars
    · simp only [hv, if_true, Option.some.injEq] at h
      subst h
      exact ⟨hv, fun u hu => by rw [vc_splitStep]; simp [hu]⟩
    · simp only [hv, if_false] at h
      refine ⟨(inv.cls v S h).1, fun u hu => ?_⟩
      rw [vc_splitStep]
      have hu' := (inv.cls v S h).2 u hu
      by_cases huc : u ∈ stepCv st vars
      · exact absurd (class_in_cv inv vars u S hu' huc v (inv.cls v S h).1) hv
      · simp [huc, hu']
  dom := by
    intro v
    rw [vc_splitStep, cc_splitStep]
    by_cases hv : v ∈ stepCv st vars
    · simp [hv]
    · simp [hv, inv.dom v]
  ccls := by
    intro v S h u hu
    rw [vc_splitStep] at h
    rw [cc_splitStep, cc_splitStep]
    by_cases hv : v ∈ stepCv st vars
    · simp only [hv, if_true, Option.some.injEq] at h
      subst h
      simp [hv, hu]
    · simp only [hv, if_false] at h ⊢
      have hu' := (inv.cls v S h).2 u hu
      by_cases huc : u ∈ stepCv st vars
      · exact absurd (class_in_cv inv vars u S hu' huc v (inv.cls v S h).1) hv
      · simp only [huc, if_false]
        exact inv.ccls v S h u hu
  idx := by
    intro v S C hS hC i hi
    rw [vc_splitStep] at hS
    rw [cc_splitStep] at hC
    by_cases hv : v ∈ stepCv st vars
    · simp only [hv, if_true, Option.some.injEq] at hS hC
      subst hS hC
      rcases (mem_stepCs st k vars i).mp hi with rfl | ⟨v', hv', C', hC', hiC'⟩
      · refine ⟨by omega, vars, hk, ?_, fun w hw => (mem_stepCv st vars w).mpr (Or.inl hw)⟩
        intro he
        subst he
        rcases (mem_stepCv st [] v).mp hv with h | ⟨_, h, _⟩ <;> simp at h
      · have hd := inv.dom v'
        rw [hC'] at hd
        cases hS' : alGet? st.vc v' with
        | none => simp [hS'] at hd
        | some S' =>
          obtain ⟨hlt, vs, hvs, hne, hall⟩ := inv.idx v' S' C' hS' hC' i hiC'
          refine ⟨by omega, vs, hvs, hne, fun w hw => ?_⟩
          exact (mem_stepCv st vars w).mpr (Or.inr ⟨v', hv', S', hS', hall w hw⟩)
    · simp only [hv, if_false] at hS hC
      obtain ⟨hlt, vs, hvs, hne, hall⟩ := inv.idx v S C hS hC i hi
      exact ⟨by omega, vs, hvs, hne, hall⟩
  cover := by
    intro i vs hi hvs w hw
    rw [cc_splitStep]
    by_cases hik : i = k
    · subst hik
      rw [hk] at hvs
      cases hvs
      have : w ∈ stepCv st vars := (mem_stepCv st vars w).mpr (Or.inl hw)
      exact ⟨stepCs st i vars, by simp [this], (mem_stepCs st i vars i).mpr (Or.inl rfl)⟩
    · obtain ⟨C, hC, hiC⟩ := inv.cover i vs (by omega) hvs w hw
      by_cases hwc : w ∈ stepCv st vars
      · refine ⟨stepCs st k vars, by simp [hwc], ?_⟩
        rcases (mem_stepCv st vars w).mp hwc with hv | ⟨v, hv, S, hS, hwS⟩
        · exact (mem_stepCs st k vars i).mpr (Or.inr ⟨w, hv, C, hC, hiC⟩)
        · have := inv.ccls v S hS w hwS
          rw [hC] at this
          exact (mem_stepCs st k vars i).mpr (Or.inr ⟨v, hv, C, this.symm, hiC⟩)
      · exact ⟨C, by simp [hwc, hC], hiC⟩

/-- the whole loop -/
theorem splitInv_loop (all : List (List Var)) : ∀ (rest : List (List Var)) (k : Nat) (st : SplitSt),
    (∀ j vs, rest[j]? = some vs → all[k + j]? = some vs) → SplitInv all k st →
    SplitInv all (k + rest.length) ((rest.zipIdx k).foldl (fun st p => splitStep st p.2 p.1) st)
  | [], k, st, _, inv => by simpa using inv
  | vars :: rest, k, st, hall, inv => by
    simp only [List.zipIdx_cons, List.foldl_cons, List.length_cons]
    have h0 : all[k]? = some vars := by simpa using hall 0 vars (by simp)
    have := splitInv_loop all rest (k + 1) (splitStep st k vars)
      (fun j vs hj => by
        have := hall (j + 1) vs (by simpa using hj)
        rw [show k + 1 + j = k + (j + 1) by omega]; exact this)
      (splitInv_step inv vars h0)
    rw [show k + (rest.length + 1) = k + 1 + rest.length by omega]
    exact this

theorem splitInv_final (varss : List (List Var)) :
    SplitInv varss varss.length ((varss.zipIdx).foldl (fun st p => splitStep st p.2 p.1) {}) := by
  have := splitInv_loop varss varss 0 {} (fun j vs h => by simpa using h) (splitInv_init varss)
  simpa using this

end Claripy.Solver
