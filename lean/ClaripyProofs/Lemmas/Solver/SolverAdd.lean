import ClaripyProofs.Lemmas.Solver.SolverFull
/-!
`_add` through the whole stack of the class `Solver`:
ConstraintFilter → ConstraintDeduplicator → SimplifySkipper → SatCache → ModelCache → FullFrontend → ConstrainedFrontend.
-/
namespace Claripy.Solver

variable {R : Con → Prop} {RE : Exp → Prop} {E : Env} {G : St → Prop} {U : List Con}

/-! ### ConstrainedFrontend._add, FullFrontend._add -/

/-- the loop of ConstrainedFrontend._add, with what it does to `variables` -/
theorem constrainedAddLoop_full (cs : List Con) :
    ∀ (fe : Frontend) (added : List Con),
      ∃ new, (constrainedAddLoop cs fe added).2 = added ++ new ∧
        (constrainedAddLoop cs fe added).1 =
          { fe with constraints := fe.constraints ++ new,
                    woAnnot := (constrainedAddLoop cs fe added).1.woAnnot,
                    «variables» := (constrainedAddLoop cs fe added).1.variables } ∧
        (∀ c ∈ new, c ∈ cs) ∧
        (∀ i, i ∈ (constrainedAddLoop cs fe added).1.woAnnot ↔ i ∈ fe.woAnnot ∨ ∃ c ∈ new, c.id = i) ∧
        (∀ c ∈ cs, c ∈ new ∨ c.id ∈ fe.woAnnot ∨ ∃ c' ∈ new, c'.id = c.id) ∧
        (∀ v, v ∈ (constrainedAddLoop cs fe added).1.variables ↔ v ∈ fe.variables ∨ ∃ c ∈ new, v ∈ c.vars) := by
  induction cs with
  | nil =>
    intro fe added
    exact ⟨[], by simp [constrainedAddLoop], by simp [constrainedAddLoop], by simp, by simp [constrainedAddLoop], by simp,
      by simp [constrainedAddLoop]⟩
  | cons con rest ih =>
    intro fe added
    unfold constrainedAddLoop
    by_cases hc : fe.woAnnot.contains con.id = true
    · simp only [hc, ↓reduceIte]
      obtain ⟨new, h1, h2, h3, h4, h5, h6⟩ := ih fe added
      refine ⟨new, h1, h2, fun c hc' => List.mem_cons_of_mem _ (h3 c hc'), h4, ?_, h6⟩
      intro c hcm
      rcases List.mem_cons.mp hcm with rfl | hcm
      · exact Or.inr (Or.inl (by simpa using hc))
      · exact h5 c hcm
    · simp only [hc, Bool.false_eq_true, ↓reduceIte]
      obtain ⟨new, h1, h2, h3, h4, h5, h6⟩ := ih
        { fe with woAnnot := listInsert fe.woAnnot con.id, constraints := fe.constraints ++ [con],
                  «variables» := listUnion fe.variables con.vars } (added ++ [con])
      refine ⟨con :: new, by rw [h1]; simp, ?_, ?_, ?_, ?_, ?_⟩
      · rw [h2]; simp
      · intro c hc'
        rcases List.mem_cons.mp hc' with rfl | hc'
        · exact List.mem_cons_self
        · exact List.mem_cons_of_mem _ (h3 c hc')
      · intro i
        rw [h4 i]
        simp only [mem_listInsert, List.mem_cons, exists_eq_or_imp]
        constructor
        · rintro ((h | rfl) | h)
          · exact Or.inl h
          · exact Or.inr (Or.inl rfl)
          · exact Or.inr (Or.inr h)
        · rintro (h | h | h)
          · exact Or.inl (Or.inl h)
          · exact Or.inl (Or.inr h.symm)
          · exact Or.inr h
      · intro c hcm
        rcases List.mem_cons.mp hcm with rfl | hcm
        · exact Or.inl List.mem_cons_self
        · rcases h5 c hcm with h | h | ⟨c', hc', hid⟩
          · exact Or.inl (List.mem_cons_of_mem _ h)
          · rcases (mem_listInsert _ _ _).mp h with h | h
            · exact Or.inr (Or.inl h)
            · exact Or.inr (Or.inr ⟨con, List.mem_cons_self, h.symm⟩)
          · exact Or.inr (Or.inr ⟨c', List.mem_cons_of_mem _ hc', hid⟩)
      · intro v
        rw [h6 v]
        simp only [mem_listUnion, List.mem_cons, exists_eq_or_imp]
        constructor
        · rintro ((h | h) | h)
          · exact Or.inl h
          · exact Or.inr (Or.inl h)
          · exact Or.inr (Or.inr h)
        · rintro (h | h | h)
          · exact Or.inl (Or.inl h)
          · exact Or.inl (Or.inr h)
          · exact Or.inr h

/-- FullFrontend._add over ConstrainedFrontend._add: what ModelCacheMixin._add assumes of the layers below it -/
theorem fc_add_low (E : Env) (self self' base : Ops) : LowAdd0 (fullLayer E self (constrainedLayer E self' base)).add := by
  intro s cs inv
  obtain ⟨new, h1, h2, h3, h4, h5, h6⟩ := constrainedAddLoop_full cs s.fe []
  simp only [List.nil_append] at h1
  have hrun : (fullLayer E self (constrainedLayer E self' base)).add cs inv s =
      (.ok (constrainedAddLoop cs s.fe []).2,
       { s with fe := { (constrainedAddLoop cs s.fe []).1 with
                        toAdd := (constrainedAddLoop cs s.fe []).1.toAdd ++ (constrainedAddLoop cs s.fe []).2 } }) := rfl
  rw [h1] at hrun
  refine ⟨new, _, hrun, ?_, ?_, ?_, ?_⟩
  · refine ⟨?_, ?_, ?_, ?_, ?_, rfl, rfl, h3, ?_, ?_, ?_⟩
    · show (constrainedAddLoop cs s.fe []).1.constraints = _; rw [h2]
    · show (constrainedAddLoop cs s.fe []).1.toAdd ++ new = _; rw [h2]
    · show (constrainedAddLoop cs s.fe []).1.solver = _; rw [h2]
    · show (constrainedAddLoop cs s.fe []).1.track = _; rw [h2]
    · show (constrainedAddLoop cs s.fe []).1.finalized = _; rw [h2]
    · intro c hc
      rcases h5 c hc with h | h | h
      · exact Or.inl h
      · exact Or.inr (Or.inl (Or.inr h))
      · exact Or.inr (Or.inr h)
    · exact h6
    · intro i hi
      have hh : (constrainedAddLoop cs s.fe []).1.hashes = s.fe.hashes := by rw [h2]
      rcases hi with hi | hi
      · exact Or.inl (Or.inl (by rw [← hh]; exact hi))
      · rcases (h4 i).mp hi with h | h
        · exact Or.inl (Or.inr h)
        · exact Or.inr h
  · show mcFields { (constrainedAddLoop cs s.fe []).1 with toAdd := _ } = _
    rw [h2]; rfl
  · show (constrainedAddLoop cs s.fe []).1.cachedSat = _; rw [h2]
  · show (constrainedAddLoop cs s.fe []).1.hashes = _; rw [h2]

/-! ### ModelCacheMixin._add over those -/

/-- what SatCacheMixin._add assumes of `super()._add` -/
def LowAdd1 (R : Con → Prop) (RE : Exp → Prop) (E : Env) (G : St → Prop) (add : List Con → Bool → M (List Con)) : Prop :=
  ∀ (U : List Con) s cs inv, BInv R G U s → MCInv RE E U s.fe → (∀ c ∈ cs, R c) →
    (inv = false → ∀ a, Models U a → Models cs a) →
    ∃ new s', add cs inv s = (.ok new, s') ∧ AddRel s s' cs new ∧ MCInv RE E (U ++ new) s'.fe ∧ KeepAdd E s s' cs ∧
      s'.fe.cachedSat = s.fe.cachedSat ∧ s'.fe.hashes = s.fe.hashes

theorem mc_add_low (hR : Reg R E) (hT : TrivOk R RE) {self sup : Ops} (hsup : LowAdd0 sup.add) :
    LowAdd1 R RE E G (modelCacheLayer E self sup).add :=
  fun _ s cs inv hb hmc hcs himp => mc_add_spec hR hT hsup s hb hmc cs inv hcs himp

/-! ### SatCacheMixin._add -/

theorem cheapScan_spec (E : Env) (a : Con) : ∀ (cons : List Con) (s : St),
    ∃ res t', cheapScan E a cons s = (.ok res, { s with tick := t' }) ∧
      ∀ con, res = some con → con ∈ cons ∧ ∃ k, E.cheapFalse con a k = true := by
  intro cons
  induction cons with
  | nil => intro s; exact ⟨none, s.tick, rfl, by simp⟩
  | cons c rest ih =>
    intro s
    simp only [cheapScan, bind, M.bind, M.get_apply, M.modify_apply]
    by_cases hc : E.cheapFalse c a s.tick = true
    · simp only [hc, ↓reduceIte, pure, M.pure]
      exact ⟨some c, s.tick + 1, rfl, fun con h => by simp at h; subst h; exact ⟨by simp, _, hc⟩⟩
    · simp only [hc, Bool.false_eq_true, ↓reduceIte]
      obtain ⟨res, t', hrun, hres⟩ := ih { s with tick := s.tick + 1 }
      exact ⟨res, t', hrun, fun con h => ⟨List.mem_cons_of_mem _ (hres con h).1, (hres con h).2⟩⟩

/-- the contradiction scan: touches the event counter and the cached core only; `True` means the constraints (which
contain `added`) have no model -/
theorem satCacheAddScan_spec (hT : CheapSound E) (added : List Con) (hwf : ∀ c ∈ added, ConWf c) (s : St) :
    ∃ b t' core, satCacheAddScan E added s = (.ok b, { s with tick := t', fe := { s.fe with cachedCore := core } }) ∧
      (b = true → ∀ a, Models s.fe.constraints a → Models added a → False) := by
  unfold satCacheAddScan
  by_cases hemp : added.isEmpty = true
  · simp only [hemp, ↓reduceIte, pure, M.pure]
    exact ⟨false, s.tick, s.fe.cachedCore, rfl, by simp⟩
  · simp only [hemp, Bool.false_eq_true, ↓reduceIte]
    by_cases hf : added.any (·.isFalse) = true
    · simp only [hf, ↓reduceIte, pure, M.pure]
      refine ⟨true, s.tick, s.fe.cachedCore, rfl, fun _ a _ ha => ?_⟩
      obtain ⟨c, hc, hcf⟩ := List.any_eq_true.mp hf
      have := ha c hc
      rw [(hwf c hc).2.1 hcf a] at this
      exact absurd this (by simp)
    · simp only [hf, Bool.false_eq_true, ↓reduceIte]
      match added, hemp, hf with
      | [], _, _ => exact ⟨false, s.tick, s.fe.cachedCore, rfl, by simp⟩
      | [a0], _, _ =>
        simp only [bind, M.bind, M.getFe_apply]
        by_cases hl : s.fe.constraints.length < 5
        · simp only [hl, ↓reduceIte]
          obtain ⟨res, t', hrun, hres⟩ := cheapScan_spec E a0 s.fe.constraints s
          simp only [M.bind, hrun]
          cases res with
          | none => exact ⟨false, t', s.fe.cachedCore, rfl, by simp⟩
          | some con =>
            simp only [pure]
            refine ⟨true, t', some [con, a0], rfl, fun _ a hca haa => ?_⟩
            obtain ⟨hin, k, hk⟩ := hres con rfl
            exact hT.1 con a0 k hk a ⟨hca con hin, haa a0 (by simp)⟩
        · simp only [hl, ↓reduceIte, pure, M.pure]
          exact ⟨false, s.tick, s.fe.cachedCore, rfl, by simp⟩
      | _ :: _ :: _, _, _ => exact ⟨false, s.tick, s.fe.cachedCore, rfl, by simp⟩

/-- what the deduplicator assumes of `super()._add` -/
def LowAdd2 (R : Con → Prop) (RE : Exp → Prop) (E : Env) (G : St → Prop) (add : List Con → Bool → M (List Con)) : Prop :=
  ∀ (U : List Con) s cs inv, SI R RE E G U s → (∀ c ∈ cs, R c) →
    (inv = false → ∀ a, Models U a → Models cs a) →
    ∃ new s', add cs inv s = (.ok new, s') ∧ AddRel s s' cs new ∧ MCInv RE E (U ++ new) s'.fe ∧ SCInv (U ++ new) s'.fe ∧
      KeepAdd E s s' cs ∧ s'.fe.hashes = s.fe.hashes

theorem satCache_add_low (hR : Reg R E) (hT : CheapSound E) {self sup : Ops} (hsup : LowAdd1 R RE E G sup.add) :
    LowAdd2 R RE E G (satCacheLayer E self sup).add := by
  intro U s cs inv h hcs himp
  obtain ⟨new, s1, hrun, hrel, hmc1, hkeep, hcsat, hhash⟩ := hsup U s cs inv h.base h.mc hcs himp
  have hwf : ∀ c ∈ new, ConWf c := fun c hc => hR.wf c (hcs c (hrel.sub c hc))
  obtain ⟨b, t', core, hscan, hb⟩ := satCacheAddScan_spec hT new hwf s1
  have hrun2 : (satCacheLayer E self sup).add cs inv s =
      (.ok new, { s1 with
        tick := t'
        fe := { s1.fe with
          cachedCore := core
          cachedSat := if b then some false else (if s1.fe.cachedSat == some true then none else s1.fe.cachedSat) } }) := by
    show (do
        let added ← sup.add cs inv
        let foundUnsat ← satCacheAddScan E added
        if foundUnsat then M.modifyFe fun fe => { fe with cachedSat := some false }
        else M.modifyFe fun fe => if fe.cachedSat == some true then { fe with cachedSat := none } else fe
        pure added : M (List Con)) s = _
    simp only [bind, M.bind, hrun, hscan]
    cases b
    · simp only [Bool.false_eq_true, ↓reduceIte, M.bind, M.modifyFe_apply, pure, M.pure]
      by_cases hc : (s1.fe.cachedSat == some true) = true
      · simp only [hc, ↓reduceIte]
      · simp only [hc, Bool.false_eq_true, ↓reduceIte]
    · simp only [↓reduceIte, M.bind, M.modifyFe_apply, pure, M.pure]
  refine ⟨new, _, hrun2, ?_, hmc1.of_fields rfl rfl rfl rfl rfl rfl, ?_, fun m hm hmc => hkeep m hm hmc, hhash⟩
  · exact ⟨hrel.cons, hrel.toAdd, hrel.solver, hrel.track, hrel.fin, hrel.objs, hrel.reuse, hrel.sub, hrel.cover, hrel.vars,
      hrel.ids⟩
  · -- the cached satisfiability
    have hequiv : ∀ a, Models s1.fe.constraints a ↔ Models (U ++ new) a := by
      intro a; rw [hrel.cons, models_append, models_append, h.base.models_iff a]
    constructor
    · intro hc
      cases b
      · simp only [Bool.false_eq_true, ↓reduceIte] at hc
        by_cases hct : (s1.fe.cachedSat == some true) = true
        · simp [hct] at hc
        · simp only [hct, Bool.false_eq_true, ↓reduceIte] at hc
          rw [hc] at hct; simp at hct
      · simp at hc
    · intro hc ⟨a, ha⟩
      cases b
      · simp only [Bool.false_eq_true, ↓reduceIte] at hc
        by_cases hct : (s1.fe.cachedSat == some true) = true
        · simp [hct] at hc
        · simp only [hct, Bool.false_eq_true, ↓reduceIte] at hc
          rw [hcsat] at hc
          exact h.sc.2 hc ⟨a, (models_append.mp ha).1⟩
      · exact hb rfl a ((hequiv a).mpr ha) (models_append.mp ha).2

/-! ### SimplifySkipperMixin._add -/

theorem skipper_add_low {self sup : Ops} (hsup : LowAdd2 R RE E G sup.add) : LowAdd2 R RE E G (skipperLayer self sup).add := by
  intro U s cs inv h hcs himp
  obtain ⟨new, s1, hrun, hrel, hmc1, hsc1, hkeep, hhash⟩ := hsup U s cs inv h hcs himp
  have hrun2 : (skipperLayer self sup).add cs inv s =
      (.ok new, { s1 with fe := { s1.fe with simplified := if new.isEmpty then s1.fe.simplified else false } }) := by
    show (do
        let added ← sup.add cs inv
        if !added.isEmpty then M.modifyFe fun fe => { fe with simplified := false }
        pure added : M (List Con)) s = _
    simp only [bind, M.bind, hrun]
    by_cases he : new.isEmpty = true
    · simp only [he, Bool.not_true, Bool.false_eq_true, ↓reduceIte, pure, M.pure]
    · simp only [he, Bool.not_false, ↓reduceIte, M.bind, M.modifyFe_apply, pure, M.pure, Bool.false_eq_true]
  exact ⟨new, _, hrun2,
    ⟨hrel.cons, hrel.toAdd, hrel.solver, hrel.track, hrel.fin, hrel.objs, hrel.reuse, hrel.sub, hrel.cover, hrel.vars, hrel.ids⟩,
    hmc1.of_fields rfl rfl rfl rfl rfl rfl, hsc1, fun m hm hmc => hkeep m hm hmc, hhash⟩

/-! ### ConstraintDeduplicatorMixin._add -/

/-- what the constraint filter assumes of `super()._add` -/
def LowAdd3 (R : Con → Prop) (RE : Exp → Prop) (E : Env) (G : St → Prop) (add : List Con → Bool → M (List Con)) : Prop :=
  ∀ (U : List Con) s cs inv, SI R RE E G U s → (∀ c ∈ cs, R c) →
    (inv = false → ∀ a, Models U a → Models cs a) →
    ∃ new s', add cs inv s = (.ok new, s') ∧ AddRel s s' cs new ∧ MCInv RE E (U ++ new) s'.fe ∧ SCInv (U ++ new) s'.fe ∧
      KeepAdd E s s' cs

theorem AddRel.refl_nil (s : St) (cs : List Con) (h : ∀ c ∈ cs, c.id ∈ s.fe.hashes ∨ c.id ∈ s.fe.woAnnot) :
    AddRel s s cs [] :=
  ⟨by simp, by simp, rfl, rfl, rfl, rfl, rfl, by simp, fun c hc => Or.inr (Or.inl (h c hc)), by simp, fun i hi => Or.inl hi⟩

theorem dedup_add_low {self sup : Ops} (hsup : LowAdd2 R RE E G sup.add) : LowAdd3 R RE E G (dedupLayer self sup).add := by
  intro U s cs inv h hcs himp
  have hshow : (dedupLayer self sup).add cs inv s = (do
      let fe ← M.getFe
      let filtered := cs.filter fun c => !fe.hashes.contains c.id
      if filtered.isEmpty then pure filtered
      else do
        let added ← sup.add filtered inv
        M.modifyFe fun fe => { fe with hashes := listUnion fe.hashes (added.map (·.id)) }
        pure added : M (List Con)) s := rfl
  rw [hshow]
  simp only [bind, M.bind, M.getFe_apply]
  by_cases hf : (cs.filter fun c => !s.fe.hashes.contains c.id).isEmpty = true
  · have hnil : (cs.filter fun c => !s.fe.hashes.contains c.id) = [] := by simpa using hf
    simp only [pure, hnil]
    refine ⟨[], s, rfl, AddRel.refl_nil s cs ?_, by simpa using h.mc, by simpa using h.sc, fun m hm _ => hm⟩
    intro c hc
    left
    by_cases hcon : c.id ∈ s.fe.hashes
    · exact hcon
    · have : c ∈ (cs.filter fun c => !s.fe.hashes.contains c.id) := List.mem_filter.mpr ⟨hc, by simpa using hcon⟩
      rw [hnil] at this
      simp at this
  · simp only [hf, Bool.false_eq_true, ↓reduceIte]
    have hfsub : ∀ c ∈ (cs.filter fun c => !s.fe.hashes.contains c.id), c ∈ cs := fun c hc => (List.mem_filter.mp hc).1
    obtain ⟨new, s1, hrun, hrel, hmc1, hsc1, hkeep, hhash⟩ := hsup U s _ inv h (fun c hc => hcs c (hfsub c hc))
      (fun hi a ha c hc => himp hi a ha c (hfsub c hc))
    simp only [hrun, M.bind, M.modifyFe_apply, pure, M.pure]
    refine ⟨new, _, rfl, ?_, hmc1.of_fields rfl rfl rfl rfl rfl rfl, hsc1, ?_⟩
    · refine ⟨hrel.cons, hrel.toAdd, hrel.solver, hrel.track, hrel.fin, hrel.objs, hrel.reuse,
        fun c hc => hfsub c (hrel.sub c hc), ?_, hrel.vars, ?_⟩
      · intro c hc
        by_cases hh : c.id ∈ s.fe.hashes
        · exact Or.inr (Or.inl (Or.inl hh))
        · exact hrel.cover c (List.mem_filter.mpr ⟨hc, by simpa using hh⟩)
      · intro i hi
        rcases hi with hi | hi
        · rcases (mem_listUnion _ _ i).mp hi with hi | hi
          · exact Or.inl (Or.inl (by rw [← hhash]; exact hi))
          · right
            obtain ⟨c, hc, rfl⟩ := List.mem_map.mp hi
            exact ⟨c, hc, rfl⟩
        · exact hrel.ids i (Or.inr hi)
    · intro m hm hmcs
      exact hkeep m hm (fun c hc => hmcs c (hfsub c hc))

/-! ### ConstraintFilterMixin._add — the public `add` -/

theorem constraintFilter_congr {self self' : Ops} (h : ∀ c, self.concreteCon c = self'.concreteCon c) (cs : List Con) :
    constraintFilter self cs = constraintFilter self' cs := by
  simp only [constraintFilter, h]

/-- `_add` of the complete class: the invariant holds for the constraints the user then has -/
def AddSpec (R : Con → Prop) (RE : Exp → Prop) (E : Env) (G : St → Prop) (add : List Con → Bool → M (List Con)) : Prop :=
  ∀ (U : List Con) s cs inv, SI R RE E G U s → (∀ c ∈ cs, R c) →
    (inv = false → ∀ a, Models U a → Models cs a) →
    ∃ added s', add cs inv s = (.ok added, s') ∧ SI R RE E G (U ++ cs) s' ∧ KeepAdd E s s' cs ∧
      (∀ v ∈ s.fe.variables, v ∈ s'.fe.variables)

theorem si_of_added (hR : Reg R E) {U : List Con} {s s' : St} {ec cs new : List Con} (h : SI R RE E G U s)
    (hec : ∀ c ∈ ec, R c) (heq : ∀ a, holdsAll ec a = holdsAll cs a) (hrel : AddRel s s' ec new)
    (hmc : MCInv RE E (U ++ new) s'.fe) (hsc : SCInv (U ++ new) s'.fe) : SI R RE E G (U ++ cs) s' := by
  have hsi : SI R RE E G (U ++ new) s' := ⟨h.base.add hR hec hrel, hmc, hsc⟩
  refine hsi.congr fun a => ?_
  have h1 := hrel.models_iff hR h.base.dinv hec a
  rw [models_iff_holdsAll, models_iff_holdsAll] at h1
  have h2 : holdsAll (U ++ ec) a = holdsAll (U ++ cs) a := by rw [holdsAll_append, holdsAll_append, heq a]
  cases hx : holdsAll (U ++ cs) a <;> cases hy : holdsAll (U ++ new) a <;> simp_all

theorem filter_add_spec (hR : Reg R E) {self sup : Ops} (hcc : ∀ c, self.concreteCon c = c.conc)
    (hsup : LowAdd3 R RE E G sup.add) : AddSpec R RE E G (filterLayer E self sup).add := by
  intro U s cs inv h hcs himp
  have hs0 := clStage_ok E 0
  have h0cc : ∀ c, (clStage E 0).concreteCon c = c.conc := by obtain ⟨h1, _, _⟩ := hs0; exact h1
  have hcongr : ∀ cs, constraintFilter self cs = constraintFilter (clStage E 0) cs :=
    constraintFilter_congr (fun c => by rw [hcc c, h0cc c])
  have hshow : (filterLayer E self sup).add cs inv s =
      (if cs.isEmpty then pure [] else if !(filteredOf E self cs).isEmpty then sup.add (filteredOf E self cs) inv else pure []
        : M (List Con)) s := rfl
  rw [hshow]
  have hfo : filteredOf E self cs = filteredOf E (clStage E 0) cs := by simp only [filteredOf, hcongr]
  obtain ⟨hecR, hecEq⟩ := filtered_equiv hR hs0 cs hcs
  rw [← hfo] at hecR hecEq
  generalize filteredOf E self cs = ec at hecR hecEq ⊢
  by_cases hemp : cs.isEmpty = true
  · have : cs = [] := by simpa using hemp
    subst this
    simp only [List.isEmpty_nil, ↓reduceIte, pure, M.pure]
    exact ⟨[], s, rfl, by simpa using h, fun m hm _ => hm, fun v hv => hv⟩
  · simp only [hemp, Bool.false_eq_true, ↓reduceIte]
    by_cases hece : ec.isEmpty = true
    · have : ec = [] := by simpa using hece
      subst this
      simp only [List.isEmpty_nil, Bool.not_true, Bool.false_eq_true, ↓reduceIte, pure, M.pure]
      refine ⟨[], s, rfl, h.congr fun a => ?_, fun m hm _ => hm, fun v hv => hv⟩
      rw [holdsAll_append, ← hecEq a]; simp [holdsAll]
    · simp only [hece, Bool.not_false, ↓reduceIte]
      have himp' : inv = false → ∀ a, Models U a → Models ec a := by
        intro hi a ha
        have := himp hi a ha
        rw [models_iff_holdsAll] at this ⊢
        rw [hecEq a]; exact this
      obtain ⟨new, s1, hrun, hrel, hmc1, hsc1, hkeep⟩ := hsup U s ec inv h hecR himp'
      refine ⟨new, s1, hrun, si_of_added hR h hecR hecEq hrel hmc1 hsc1, ?_, fun v hv => (hrel.vars v).mpr (Or.inl hv)⟩
      intro m hm hmcs
      refine hkeep m hm ?_
      rw [models_iff_holdsAll] at hmcs ⊢
      rw [hecEq]; exact hmcs

end Claripy.Solver
