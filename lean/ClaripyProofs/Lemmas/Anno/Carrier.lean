import Claripy.Anno.Model
/-!
Carrier-level facts about `_handle_annotations`: what the gate returns is the proposal with relocatable annotations
appended to its top node — nothing else changes — and an annotation reachable in a term sits on one of its sub-expressions.
-/
namespace Claripy.Anno

theorem isReloc_not_isUnelim (a : Anno) (h : isReloc a = true) : isUnelim a = false := by
  simp only [isReloc, isUnelim, Bool.and_eq_true, Bool.not_eq_eq_eq_not, Bool.not_true] at h ⊢
  simp [h.1, h.2]

/-- `s'` is `s` with annotations added on the top node that do not count as non-eliminatable ones -/
def TopOnly (s s' : AExpr) : Prop :=
  s'.tag = s.tag ∧ s'.args = s.args ∧ (∀ u, u ∈ s'.unelim → u ∈ s.unelim)

theorem TopOnly.refl (s : AExpr) : TopOnly s s := ⟨rfl, rfl, fun _ h => h⟩
theorem TopOnly.trans {a b c : AExpr} (h1 : TopOnly a b) (h2 : TopOnly b c) : TopOnly a c :=
  ⟨h2.1.trans h1.1, h2.2.1.trans h1.2.1, fun u h => h1.2.2 u (h2.2.2 u h)⟩

theorem TopOnly.append (s : AExpr) (a : Anno) (ha : isReloc a = true) : TopOnly s (s.appendAnno a) := by
  cases s with
  | mk t as an =>
    refine ⟨rfl, rfl, ?_⟩
    intro u hu
    simp only [AExpr.appendAnno, AExpr.unelim, List.filter_append, List.mem_append] at hu ⊢
    rcases hu with (hu | hu) | hu
    · exact Or.inl hu
    · simp only [List.filter_cons, List.filter_nil, isReloc_not_isUnelim a ha] at hu
      simp at hu
    · exact Or.inr hu

theorem relocateFrom_topOnly (preserved : List Anno) (l : List Anno) (s : AExpr) (rel : List Anno)
    (hl : ∀ x ∈ l, isReloc x = true) : TopOnly s (relocateFrom preserved l (s, rel)).1 := by
  induction l generalizing s rel with
  | nil => exact TopOnly.refl s
  | cons oa rest ih =>
    simp only [relocateFrom]
    have hrest : ∀ x ∈ rest, isReloc x = true := fun x hx => hl x (List.mem_cons_of_mem _ hx)
    split
    · exact ih s rel hrest
    · exact TopOnly.trans (TopOnly.append s oa (hl oa (by simp))) (ih _ _ hrest)

theorem relocs_isReloc (e : AExpr) : ∀ x ∈ e.relocs, isReloc x = true := by
  intro x hx
  simp only [AExpr.relocs, List.mem_filter] at hx
  exact hx.2

/-- the gate's fold, as in `handle` -/
def gstep (preserved : List Anno) (st : AExpr × List Anno × Nat) (aa : AExpr) : AExpr × List Anno × Nat :=
  let (s, relocated, bad) := st
  let (s', relocated') := relocateFrom preserved aa.relocs (s, relocated)
  let lost := aa.unelim.filter fun u => !s'.unelim.contains u
  (s', relocated', bad + lost.length)

theorem gfold_topOnly (preserved : List Anno) (args : List AExpr) (s : AExpr) (rel : List Anno) (bad : Nat) :
    TopOnly s (args.foldl (gstep preserved) (s, rel, bad)).1 := by
  induction args generalizing s rel bad with
  | nil => exact TopOnly.refl s
  | cons aa rest ih =>
    simp only [List.foldl]
    have h1 := relocateFrom_topOnly preserved aa.relocs s rel (relocs_isReloc aa)
    have hstep_eq : gstep preserved (s, rel, bad) aa =
        ((relocateFrom preserved aa.relocs (s, rel)).1, (relocateFrom preserved aa.relocs (s, rel)).2,
          bad + (aa.unelim.filter fun u => !(relocateFrom preserved aa.relocs (s, rel)).1.unelim.contains u).length) := by
      simp [gstep]
    rw [hstep_eq]
    exact TopOnly.trans h1 (ih _ _ _)

/-- an accepted proposal comes back with the same operator and arguments, and no new non-eliminatable annotation -/
theorem handle_topOnly (simp : AExpr) (args : List AExpr) (r : AExpr) (h : handle simp args = some r) :
    TopOnly simp r := by
  have he : handle simp args =
      (let q := args.foldl (gstep simp.relocs) (simp, [], 0); if q.2.2 = 0 then some q.1 else none) := rfl
  rw [he] at h
  simp only at h
  split at h
  · cases h
    exact gfold_topOnly simp.relocs args simp [] 0
  · cases h

mutual
theorem unelim_carrier (e : AExpr) (u : Anno) (h : u ∈ e.unelim) :
    ∃ n ∈ e.subterms, u ∈ n.annos ∧ isUnelim u = true := by
  match e with
  | .mk t args an =>
    simp only [AExpr.unelim, List.mem_append, List.mem_filter] at h
    rcases h with h | h
    · exact ⟨.mk t args an, by simp [AExpr.subterms], h.1, h.2⟩
    · obtain ⟨n, hn, hu⟩ := unelimList_carrier args u h
      exact ⟨n, by simp only [AExpr.subterms, List.mem_cons]; exact Or.inr hn, hu⟩
theorem unelimList_carrier (es : List AExpr) (u : Anno) (h : u ∈ AExpr.unelimList es) :
    ∃ n ∈ AExpr.subtermsList es, u ∈ n.annos ∧ isUnelim u = true := by
  match es with
  | [] => simp [AExpr.unelimList] at h
  | e :: rest =>
    simp only [AExpr.unelimList, List.mem_append] at h
    rcases h with h | h
    · obtain ⟨n, hn, hu⟩ := unelim_carrier e u h
      exact ⟨n, by simp only [AExpr.subtermsList, List.mem_append]; exact Or.inl hn, hu⟩
    · obtain ⟨n, hn, hu⟩ := unelimList_carrier rest u h
      exact ⟨n, by simp only [AExpr.subtermsList, List.mem_append]; exact Or.inr hn, hu⟩
end

mutual
theorem mem_unelim_of_carrier (e c : AExpr) (u : Anno) (hc : c ∈ e.subterms) (hu : u ∈ c.annos)
    (hk : isUnelim u = true) : u ∈ e.unelim := by
  match e with
  | .mk t args an =>
    simp only [AExpr.subterms, List.mem_cons] at hc
    simp only [AExpr.unelim, List.mem_append, List.mem_filter]
    rcases hc with rfl | hc
    · exact Or.inl ⟨hu, hk⟩
    · exact Or.inr (mem_unelimList_of_carrier args c u hc hu hk)
theorem mem_unelimList_of_carrier (es : List AExpr) (c : AExpr) (u : Anno) (hc : c ∈ AExpr.subtermsList es)
    (hu : u ∈ c.annos) (hk : isUnelim u = true) : u ∈ AExpr.unelimList es := by
  match es with
  | [] => simp [AExpr.subtermsList] at hc
  | e :: rest =>
    simp only [AExpr.subtermsList, List.mem_append] at hc
    simp only [AExpr.unelimList, List.mem_append]
    rcases hc with hc | hc
    · exact Or.inl (mem_unelim_of_carrier e c u hc hu hk)
    · exact Or.inr (mem_unelimList_of_carrier rest c u hc hu hk)
end

end Claripy.Anno
