import ClaripyProofs.Lemmas.Str.CodecIn
/-! Way out: decoding the text Z3 prints for a string value gives back the value. -/
namespace Claripy.Str.Codec

/-- is the character printed as an escape? -/
def escaped (c : Nat) (rest : S) : Prop := c = 0 ∨ c ≥ 256 ∨ (c = bslash ∧ rest.head? = some chU)

instance (c : Nat) (rest : S) : Decidable (escaped c rest) := by unfold escaped; exact inferInstance

theorem z3Print_cons (c : Nat) (rest : S) :
    z3Print (c :: rest) = (if escaped c rest then braceEscape c else [c]) ++ z3Print rest := rfl

/-- the printed text starts with `u` only if the value does -/
theorem z3Print_head_u (s : S) : (z3Print s).head? = some chU → s.head? = some chU := by
  cases s with
  | nil => simp [z3Print]
  | cons c rest =>
    rw [z3Print_cons]
    by_cases he : escaped c rest
    · simp [he, braceEscape, bslash, chU]
    · simp [he]

theorem afterBUBrace_escape (more : S) : afterBUBrace (bslash :: chU :: lbrace :: more) = some more := by
  simp [afterBUBrace, afterBU_cons]

theorem afterBUBrace_none (c : Nat) (tl : S) (h : afterBU (c :: tl) = none) : afterBUBrace (c :: tl) = none := by
  simp [afterBUBrace, h]

theorem decode_step_escape (c : Nat) (rest : S) (fuel : Nat) (hc : c ≤ pyMaxChar) :
    claripyDecodeFuel (fuel + 1) (braceEscape c ++ rest) = c :: claripyDecodeFuel fuel rest := by
  have hspan := spanHex_append (toHex c) rbrace rest (toHex_all_hex c) isHex_rbrace
  unfold braceEscape
  simp only [List.cons_append, List.nil_append, List.append_assoc, claripyDecodeFuel, afterBUBrace_escape]
  rw [hspan]
  simp [toHex_ne_nil, parseHex_toHex, hc]

theorem decode_step_plain (c : Nat) (rest : S) (fuel : Nat) (h : afterBU (c :: rest) = none) :
    claripyDecodeFuel (fuel + 1) (c :: rest) = c :: claripyDecodeFuel fuel rest := by
  simp [claripyDecodeFuel, afterBUBrace_none c rest h]

theorem braceEscape_length_pos (c : Nat) : 0 < (braceEscape c).length := by simp [braceEscape]

theorem decode_all : ∀ (s : S) (fuel : Nat), (∀ c ∈ s, c ≤ pyMaxChar) → (z3Print s).length ≤ fuel →
    claripyDecodeFuel fuel (z3Print s) = s
  | [], fuel, _, _ => by cases fuel <;> simp [z3Print, claripyDecodeFuel]
  | c :: s, fuel, hs, hf => by
    rw [z3Print_cons] at hf ⊢
    have hc := hs c (by simp)
    have ih := fun f hf' => decode_all s f (fun x hx => hs x (by simp [hx])) hf'
    by_cases he : escaped c s
    · simp only [he, if_true, List.length_append] at hf ⊢
      have := braceEscape_length_pos c
      cases fuel with
      | zero => omega
      | succ fuel => rw [decode_step_escape c _ fuel hc, ih fuel (by omega)]
    · simp only [he, if_false, List.cons_append, List.nil_append, List.length_cons] at hf ⊢
      cases fuel with
      | zero => omega
      | succ fuel =>
        have hn : afterBU (c :: z3Print s) = none := by
          by_cases hb : c = bslash
          · subst hb
            apply afterBU_ne2
            intro hu
            exact he (Or.inr (Or.inr ⟨rfl, z3Print_head_u s hu⟩))
          · exact afterBU_ne c _ hb
        rw [decode_step_plain c _ fuel hn, ih fuel (by omega)]

/-- the string claripy returns is the string the Z3 value holds -/
theorem extract_roundtrip' (s : S) (h : ∀ c ∈ s, c ≤ pyMaxChar) : claripyDecode (z3Print s) = s := by
  unfold claripyDecode
  exact decode_all s _ h (Nat.le_refl _)

end Claripy.Str.Codec
