import ClaripyProofs.Lemmas.Str.Digits
import Claripy.Str.Numeral
/-! Bit-vector numerals: the chunked decimal conversion is exact for every width. -/
namespace Claripy.Str.Numeral
open Claripy.Str Spec

theorem decVal_foldl (s : S) : ∀ v, s.foldl (fun a c => a * 10 + (c - 48)) v = v * 10 ^ s.length + decVal s := by
  induction s with
  | nil => intro v; simp [decVal]
  | cons c s ih =>
    intro v
    unfold decVal
    simp only [List.foldl_cons, List.length_cons]
    rw [ih, ih (0 * 10 + (c - 48)), Nat.pow_succ]
    simp only [Nat.zero_mul, Nat.zero_add]
    rw [Nat.add_mul, Nat.mul_assoc, Nat.add_assoc, Nat.mul_comm 10]

theorem decVal_append (a b : S) : decVal (a ++ b) = decVal a * 10 ^ b.length + decVal b := by
  unfold decVal
  rw [List.foldl_append, decVal_foldl]
  rfl

theorem chunkLoop_eq (chunk : Nat) (hc : 0 < chunk) : ∀ (fuel : Nat) (s : S) (v : Nat), s.length ≤ fuel →
    chunkLoop chunk fuel s v = v * 10 ^ s.length + decVal s
  | 0, s, v, h => by
    have : s = [] := List.eq_nil_of_length_eq_zero (by omega)
    subst this; simp [chunkLoop, decVal]
  | fuel + 1, s, v, h => by
    unfold chunkLoop
    by_cases hs : s = []
    · subst hs; simp [decVal]
    · rw [if_neg hs]
      have hpos : 0 < s.length := List.length_pos_iff.2 hs
      have hlen : (s.drop chunk).length ≤ fuel := by simp; omega
      have ih := chunkLoop_eq chunk hc fuel (s.drop chunk) (v * 10 ^ (s.take chunk).length + decVal (s.take chunk)) hlen
      dsimp only
      rw [ih]
      have hsplit : s = s.take chunk ++ s.drop chunk := (List.take_append_drop chunk s).symm
      have hl : s.length = (s.take chunk).length + (s.drop chunk).length := by
        conv => lhs; rw [hsplit]
        rw [List.length_append]
      conv => rhs; rw [hsplit, decVal_append]
      rw [List.length_append, Nat.pow_add, Nat.add_mul, Nat.mul_assoc, Nat.add_assoc]

/-- `str_to_int_unlimited` is exact for every chunk size -/
theorem strToIntUnlimited_eq (chunk : Nat) (hc : 0 < chunk) (s : S) : strToIntUnlimited chunk s = decVal s := by
  unfold strToIntUnlimited
  rw [chunkLoop_eq chunk hc s.length s 0 (Nat.le_refl _)]; simp

/-- both numeral paths return the value, for any width -/
theorem abstractBvVal_eq (chunk : Nat) (hc : 0 < chunk) (v : Nat) : abstractBvVal chunk v = v := by
  unfold abstractBvVal z3Uint64
  by_cases h : v < 2 ^ 64
  · simp [h]
  · simp only [h, if_false]
    rw [strToIntUnlimited_eq chunk hc]
    exact decVal_fromInt v

theorem concat_step (res size x : Nat) (hx : x < 2 ^ size) : (res <<< size) ||| x = res * 2 ^ size + x := by
  rw [Nat.shiftLeft_eq, Nat.mul_comm res]
  exact (Nat.two_pow_add_eq_or_of_lt hx res).symm

/-- the `Concat` quirk assembles the right integer when every field is in range and no negated field is zero -/
theorem concatQuirk_eq (parts : List Part) (h : ∀ p ∈ parts, p.val < 2 ^ p.size ∧ (p.neg = true → 0 < p.val)) :
    concatQuirk parts = concatVal parts := by
  unfold concatQuirk concatVal
  generalize (0 : Nat) = acc
  induction parts generalizing acc with
  | nil => rfl
  | cons p ps ih =>
    simp only [List.foldl_cons]
    have ⟨hv, hn⟩ := h p (by simp)
    have hstep : (acc <<< p.size) ||| (if p.neg then 2 ^ p.size - p.val else p.val)
        = acc * 2 ^ p.size + (if p.neg then (2 ^ p.size - p.val) % 2 ^ p.size else p.val) := by
      cases hneg : p.neg
      · simp only [Bool.false_eq_true, if_false]; exact concat_step _ _ _ hv
      · have hp := hn hneg
        have hlt : 2 ^ p.size - p.val < 2 ^ p.size := by omega
        simp only [if_true, Nat.mod_eq_of_lt hlt]; exact concat_step _ _ _ hlt
    rw [hstep]
    exact ih (fun q hq => h q (by simp [hq])) _

end Claripy.Str.Numeral
