import Claripy.Str.Model
/-! `str(n)` is the SMT-LIB `str.from_int`, and `str.to_int ∘ str.from_int = id`. -/
namespace Claripy.Str
open Spec

theorem digitChar_toNat : ∀ (d : Nat), d < 10 → (Nat.digitChar d).toNat = 48 + d
  | 0, _ => rfl | 1, _ => rfl | 2, _ => rfl | 3, _ => rfl | 4, _ => rfl
  | 5, _ => rfl | 6, _ => rfl | 7, _ => rfl | 8, _ => rfl | 9, _ => rfl
  | n + 10, h => by omega

theorem fromInt_eq (n : Nat) : Spec.fromInt n = if n < 10 then [48 + n] else Spec.fromInt (n / 10) ++ [48 + n % 10] := by
  rw [Spec.fromInt]; split <;> rfl

theorem str_eq_fromInt (n : Nat) : Py.str n = Spec.fromInt n := by
  induction n using Nat.strongRecOn with
  | _ n ih =>
    unfold Py.str at ih ⊢
    rw [Nat.toDigits_eq_if (by decide), fromInt_eq]
    by_cases h : n < 10
    · simp [h, digitChar_toNat n h]
    · simp only [h, if_false, List.map_append, List.map_cons, List.map_nil]
      rw [ih (n / 10) (by omega), digitChar_toNat _ (Nat.mod_lt n (by decide))]

theorem fromInt_ne_nil (n : Nat) : Spec.fromInt n ≠ [] := by
  rw [fromInt_eq]; split <;> simp

theorem fromInt_all_digits (n : Nat) : (Spec.fromInt n).all Spec.isDigit = true := by
  induction n using Nat.strongRecOn with
  | _ n ih =>
    rw [fromInt_eq]
    by_cases h : n < 10
    · simp [h, Spec.isDigit]; omega
    · simp only [h, if_false, List.all_append, ih (n / 10) (by omega), Bool.true_and]
      have := Nat.mod_lt n (by decide : 10 > 0)
      simp [Spec.isDigit]; omega

theorem decVal_fromInt (n : Nat) : Spec.decVal (Spec.fromInt n) = n := by
  induction n using Nat.strongRecOn with
  | _ n ih =>
    rw [fromInt_eq]
    by_cases h : n < 10
    · simp [h, Spec.decVal]
    · have := ih (n / 10) (by omega)
      unfold Spec.decVal at this ⊢
      simp only [h, if_false, List.foldl_append, this, List.foldl_cons, List.foldl_nil]
      omega

/-- `str.to_int (str.from_int n) = n` (as 64-bit values) -/
theorem toInt_fromInt (n : Nat) : Spec.toInt (Spec.fromInt n) = n % M64 := by
  unfold Spec.toInt
  rw [if_pos ⟨fromInt_ne_nil n, fromInt_all_digits n⟩, decVal_fromInt]

/-- no leading zero: the first digit of `from_int n` is `0` only for `n = 0` -/
theorem fromInt_head (n : Nat) : (Spec.fromInt n).head? = some 48 → n = 0 := by
  induction n using Nat.strongRecOn with
  | _ n ih =>
    rw [fromInt_eq]
    by_cases h : n < 10
    · simp [h]
    · simp only [h, if_false]
      intro hh
      have hne := fromInt_ne_nil (n / 10)
      have e : (Spec.fromInt (n / 10) ++ [48 + n % 10]).head? = (Spec.fromInt (n / 10)).head? := by
        cases hf : Spec.fromInt (n / 10) with
        | nil => exact absurd hf hne
        | cons a l => rfl
      rw [e] at hh
      have := ih (n / 10) (by omega) hh
      omega

end Claripy.Str
