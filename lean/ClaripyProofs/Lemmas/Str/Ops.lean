import ClaripyProofs.Lemmas.Str.Find
/-! Each function of backend_concrete/strings.py equals the SMT-LIB function, for every input. -/
namespace Claripy.Str
open Spec

theorem concat_eq (a b : S) : Model.StrConcat [a, b] = Spec.concat a b := by
  simp [Model.StrConcat, Py.join, Spec.concat]

theorem concat_many (args : List S) : Model.StrConcat args = args.foldr Spec.concat [] := by
  induction args with
  | nil => rfl
  | cons a as ih => simp only [Model.StrConcat, Py.join] at ih ⊢; simp [Spec.concat, ih]

theorem substr_eq (s : S) (i n : Nat) : Model.StrSubstr i n s = Spec.substr s i n := by
  have e : i + n - i = n := by omega
  unfold Model.StrSubstr Py.slice Spec.substr
  rw [e]
  by_cases h : i < s.length ∧ 0 < n
  · rw [if_pos h]
    apply List.ext_getElem?
    intro k
    simp only [List.getElem?_take, List.getElem?_drop]
    by_cases hk : k < n
    · by_cases hk2 : k < s.length - i
      · have : k < min n (s.length - i) := by omega
        simp [hk, this]
      · have h3 : s.length ≤ i + k := by omega
        have : ¬ k < min n (s.length - i) := by omega
        simp [hk, this, List.getElem?_eq_none h3]
    · have : ¬ k < min n (s.length - i) := by omega
      simp [hk, this]
  · rw [if_neg h]
    by_cases hi : i < s.length
    · have : n = 0 := by omega
      subst this; simp
    · have : s.drop i = [] := List.drop_eq_nil_of_le (by omega)
      simp [this]

theorem contains_eq (s t : S) : Model.StrContains s t = Spec.contains s t := by
  simp [Model.StrContains, Py.isIn, Spec.contains, find_spec]

theorem replace_eq (s t r : S) : Model.StrReplace s t r = Spec.replace s t r := by
  unfold Model.StrReplace Py.replace1 Spec.replace
  rw [find_spec]
  cases findAt t s 0 <;> simp [Py.slice, Py.sliceFrom]

theorem prefixof_eq (p s : S) : Model.StrPrefixOf p s = Spec.prefixof p s := by
  unfold Model.StrPrefixOf Py.startswith Spec.prefixof
  have := slice_eq_iff s p 0
  simpa using this

theorem suffixof_eq (p s : S) : Model.StrSuffixOf p s = Spec.suffixof p s := by
  unfold Model.StrSuffixOf Py.endswith Spec.suffixof
  rw [Bool.eq_iff_iff, List.isSuffixOf_iff_suffix, List.suffix_iff_eq_drop]
  simp only [Bool.and_eq_true, decide_eq_true_eq, beq_iff_eq]
  constructor
  · intro ⟨_, h⟩; exact h.symm
  · intro h
    refine ⟨?_, h.symm⟩
    have := congrArg List.length h
    simp at this; omega

theorem indexof_eq (s t : S) (i : Nat) : Model.StrIndexOf s t i = Spec.indexof s t i := by
  unfold Model.StrIndexOf Spec.indexof Py.index Py.sliceFrom Model.bvvMinusOne Model.bvv64 minusOne
  by_cases h : i ≤ s.length
  · have h' : ¬ i > s.length := by omega
    rw [if_neg h', if_pos h, find_spec, findAt_shift t (s.drop i) i]
    cases findAt t (s.drop i) 0 <;> simp [Nat.add_comm]
  · have h' : i > s.length := by omega
    rw [if_pos h', if_neg h]

theorem foldl_mod (s : S) : ∀ (v : Nat), (∀ c ∈ s, 48 ≤ c) →
    s.foldl (fun v c => (v * 10 + c - 48) % M64) (v % M64) = (s.foldl (fun a c => a * 10 + (c - 48)) v) % M64 := by
  induction s with
  | nil => intro v _; simp
  | cons c s ih =>
    intro v h
    have hc : 48 ≤ c := h c (by simp)
    simp only [List.foldl_cons]
    have e : (v % M64 * 10 + c - 48) % M64 = ((v * 10 + (c - 48)) % M64) := by
      have : v % M64 * 10 + c - 48 = v % M64 * 10 + (c - 48) := by omega
      rw [this, Nat.add_mod, Nat.mul_mod, Nat.mod_mod, ← Nat.mul_mod, ← Nat.add_mod]
    rw [e]
    exact ih _ (fun c hc => h c (by simp [hc]))

theorem toint_eq (s : S) : Model.StrToInt s = Spec.toInt s := by
  unfold Model.StrToInt Spec.toInt Model.bvvMinusOne Model.bvv64 minusOne Spec.decVal
  by_cases h : s ≠ [] ∧ s.all Spec.isDigit = true
  · rw [if_pos h]
    have h1 : (s.isEmpty || s.any fun c => !Model.isAsciiDigit c) = false := by
      obtain ⟨hne, hall⟩ := h
      simp only [Bool.or_eq_false_iff, List.isEmpty_eq_false_iff, List.any_eq_false]
      refine ⟨hne, ?_⟩
      intro c hc
      have := List.all_eq_true.1 hall c hc
      simpa [Model.isAsciiDigit, Spec.isDigit] using this
    rw [h1]
    simp only [Bool.false_eq_true, if_false]
    have hd : ∀ c ∈ s, 48 ≤ c := by
      intro c hc
      have := List.all_eq_true.1 h.2 c hc
      simp [Spec.isDigit] at this; omega
    have := foldl_mod s 0 hd
    simp only [Nat.zero_mod] at this
    rw [this, Nat.mod_mod]
  · rw [if_neg h]
    have h1 : (s.isEmpty || s.any fun c => !Model.isAsciiDigit c) = true := by
      by_cases hne : s = []
      · simp [hne]
      · have hall : ¬ s.all Spec.isDigit = true := fun ha => h ⟨hne, ha⟩
        simp only [Bool.or_eq_true, List.any_eq_true]
        right
        have hf : s.all Spec.isDigit = false := by simpa using hall
        obtain ⟨c, hc, hcd⟩ := List.all_eq_false.1 hf
        refine ⟨c, hc, ?_⟩
        simp only [Spec.isDigit, Bool.and_eq_true, decide_eq_true_eq, not_and] at hcd
        simp only [Model.isAsciiDigit, Bool.not_eq_true', Bool.and_eq_false_iff, decide_eq_false_iff_not]
        omega
    rw [h1]; simp

theorem eq_eq (a b : S) : Model.eq a b = Spec.eq a b := by
  unfold Model.eq Spec.eq
  rw [Bool.eq_iff_iff, beq_iff_eq, decide_eq_true_iff]

theorem ne_eq (a b : S) : Model.ne a b = !Spec.eq a b := by
  have := eq_eq a b
  unfold Model.eq Spec.eq at this
  unfold Model.ne Spec.eq
  rw [bne, this]

end Claripy.Str
