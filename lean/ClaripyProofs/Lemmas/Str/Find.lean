import Claripy.Str.Model
/-! `Spec.findAt` is "the least position where the pattern occurs", and Python's `find` computes it. -/
namespace Claripy.Str
open Spec

theorem isPrefixOf_iff (t s : S) : t.isPrefixOf s = true ↔ t <+: s := List.isPrefixOf_iff_prefix

theorem findAt_none_of_short (t : S) : ∀ (s : S) (k : Nat), s.length < t.length → findAt t s k = none
  | [], k, h => by
    have : t ≠ [] := by intro h'; simp [h'] at h
    simp [findAt, this]
  | c :: s, k, h => by
    have hp : ¬ (t.isPrefixOf (c :: s) = true) := by
      rw [isPrefixOf_iff]; intro hp; have := hp.length_le; omega
    have ih := findAt_none_of_short t s (k + 1) (by simp at h; omega)
    simp [findAt, hp, ih]

/-- positions are relative to the start counter -/
theorem findAt_shift (t : S) : ∀ (s : S) (k : Nat), findAt t s k = (findAt t s 0).map (· + k)
  | [], k => by by_cases h : t = [] <;> simp [findAt, h]
  | c :: s, k => by
    by_cases hp : t.isPrefixOf (c :: s) = true
    · simp [findAt, hp]
    · have h1 := findAt_shift t s (k + 1)
      have h2 := findAt_shift t s 1
      simp only [findAt, hp, if_false, Bool.false_eq_true]
      rw [h1]; simp only [Nat.zero_add]; rw [h2]
      cases findAt t s 0 <;> simp; omega

theorem findAt_sound (t : S) : ∀ (s : S) (k j : Nat), findAt t s k = some j →
    k ≤ j ∧ j - k ≤ s.length ∧ t <+: s.drop (j - k)
  | [], k, j, h => by
    by_cases ht : t = []
    · simp [findAt, ht] at h; subst h; simp [ht]
    · simp [findAt, ht] at h
  | c :: s, k, j, h => by
    by_cases hp : t.isPrefixOf (c :: s) = true
    · simp [findAt, hp] at h; subst h
      simp; exact (isPrefixOf_iff _ _).1 hp
    · simp only [findAt, hp, if_false, Bool.false_eq_true] at h
      have ⟨h1, h2, h3⟩ := findAt_sound t s (k + 1) j h
      refine ⟨by omega, by simp; omega, ?_⟩
      have : j - k = (j - (k + 1)) + 1 := by omega
      rw [this, List.drop_succ_cons]; exact h3

theorem findAt_least (t : S) : ∀ (s : S) (k j : Nat), findAt t s k = some j →
    ∀ i, k ≤ i → i < j → ¬ t <+: s.drop (i - k)
  | [], k, j, h => by
    by_cases ht : t = []
    · simp [findAt, ht] at h; subst h; intro i h1 h2; omega
    · simp [findAt, ht] at h
  | c :: s, k, j, h => by
    by_cases hp : t.isPrefixOf (c :: s) = true
    · simp [findAt, hp] at h; subst h; intro i h1 h2; omega
    · simp only [findAt, hp, if_false, Bool.false_eq_true] at h
      intro i h1 h2
      by_cases hik : i = k
      · subst hik; simp; rw [← isPrefixOf_iff]; exact hp
      · have := findAt_least t s (k + 1) j h i (by omega) h2
        have e : i - k = (i - (k + 1)) + 1 := by omega
        rw [e, List.drop_succ_cons]; exact this

theorem findAt_complete (t : S) : ∀ (s : S) (k : Nat), findAt t s k = none →
    ∀ i, i ≤ s.length → ¬ t <+: s.drop i
  | [], k, h => by
    by_cases ht : t = []
    · simp [findAt, ht] at h
    · intro i hi; simp at hi; subst hi; simp; exact ht
  | c :: s, k, h => by
    by_cases hp : t.isPrefixOf (c :: s) = true
    · simp [findAt, hp] at h
    · simp only [findAt, hp, if_false, Bool.false_eq_true] at h
      intro i hi
      cases i with
      | zero => simp; rw [← isPrefixOf_iff]; exact hp
      | succ i => rw [List.drop_succ_cons]; exact findAt_complete t s (k + 1) h i (by simp at hi; omega)

theorem slice_eq_iff (s t : S) (j : Nat) : (Py.slice s j (j + t.length) == t) = t.isPrefixOf (s.drop j) := by
  have e : j + t.length - j = t.length := by omega
  rw [Bool.eq_iff_iff, isPrefixOf_iff, List.prefix_iff_eq_take, beq_iff_eq]
  unfold Py.slice
  rw [e]
  constructor <;> intro h <;> exact h.symm

theorem findAt_cons (t : S) (c : Nat) (s : S) (k : Nat) :
    findAt t (c :: s) k = if t.isPrefixOf (c :: s) then some k else findAt t s (k + 1) := rfl

theorem findLoop_eq (s t : S) (ht : t.length ≤ s.length) (hne : 0 < t.length) :
    ∀ (fuel j : Nat), fuel + j = s.length - t.length + 1 →
    Py.findLoop s t j fuel = findAt t (s.drop j) j
  | 0, j, h => by
    rw [findAt_none_of_short]; · rfl
    simp; omega
  | fuel + 1, j, h => by
    unfold Py.findLoop
    rw [slice_eq_iff]
    have hj : j < s.length := by omega
    have hd := List.drop_eq_getElem_cons hj
    have ih := findLoop_eq s t ht hne fuel (j + 1) (by omega)
    have e : findAt t (s.drop j) j =
        if t.isPrefixOf (s.drop j) then some j else findAt t (s.drop (j + 1)) (j + 1) := by
      conv => lhs; rw [hd]
      rw [findAt_cons, ← hd]
    rw [e, ih]

theorem findAt_nil (s : S) (k : Nat) : findAt [] s k = some k := by
  cases s <;> simp [findAt]

/-- Python's `find` computes the SMT-LIB "first occurrence" -/
theorem find_spec (s t : S) : Py.find s t = findAt t s 0 := by
  unfold Py.find
  by_cases ht : t.length ≤ s.length
  · simp only [ht, if_true]
    by_cases hne : 0 < t.length
    · have := findLoop_eq s t ht hne (s.length - t.length + 1) 0 (by omega)
      simpa using this
    · have : t = [] := List.eq_nil_of_length_eq_zero (by omega)
      subst this
      rw [findAt_nil]
      simp [Py.findLoop, Py.slice]
  · simp only [ht, if_false]
    rw [findAt_none_of_short]; omega

end Claripy.Str
