import ClaripyProofs.Lemmas.Str.Find
/-! The reference functions in the words of the SMT-LIB Strings theory (decompositions `s = u1 ++ t ++ u2`). -/
namespace Claripy.Str
open Spec

/-- an occurrence at `j` splits the string: `s = u1 ++ t ++ u2` with `|u1| = j` -/
theorem occurrence_split (t s : S) (j : Nat) (h : t <+: s.drop j) :
    s = s.take j ++ t ++ s.drop (j + t.length) := by
  obtain ⟨r, hr⟩ := h
  have : s.drop (j + t.length) = r := by
    rw [← List.drop_drop, ← hr, List.drop_left]
  rw [this, List.append_assoc, hr, List.take_append_drop]

/-- `str.contains s t` ⇔ `s = u1 ++ t ++ u2` for some `u1 u2` -/
theorem contains_iff_infix (s t : S) : Spec.contains s t = true ↔ t <:+: s := by
  unfold Spec.contains
  constructor
  · intro h
    obtain ⟨j, hj⟩ := Option.isSome_iff_exists.1 h
    have ⟨_, _, hp⟩ := findAt_sound t s 0 j hj
    simp only [Nat.sub_zero] at hp
    exact ⟨s.take j, s.drop (j + t.length), (occurrence_split t s j hp).symm⟩
  · intro ⟨u1, u2, h⟩
    cases hf : findAt t s 0 with
    | some j => rfl
    | none =>
      exfalso
      have hlen : u1.length ≤ s.length := by rw [← h]; simp
      apply findAt_complete t s 0 hf u1.length hlen
      rw [← h, List.append_assoc, List.drop_left]
      exact List.prefix_append t u2

/-- `str.replace`: unchanged if `t` does not occur, otherwise `u1 ++ r ++ u2` where `s = u1 ++ t ++ u2` and `u1` is the
shortest such prefix -/
theorem replace_char (s t r : S) :
    (¬ t <:+: s → Spec.replace s t r = s) ∧
    (t <:+: s → ∃ u1 u2, s = u1 ++ t ++ u2 ∧ Spec.replace s t r = u1 ++ r ++ u2 ∧
      ∀ v1 v2, s = v1 ++ t ++ v2 → u1.length ≤ v1.length) := by
  constructor
  · intro h
    have : Spec.contains s t = false := by
      cases hc : Spec.contains s t
      · rfl
      · exact absurd ((contains_iff_infix s t).1 hc) h
    unfold Spec.contains at this
    unfold Spec.replace
    cases hf : findAt t s 0 with
    | none => rfl
    | some j => rw [hf] at this; simp at this
  · intro h
    have hc := (contains_iff_infix s t).2 h
    unfold Spec.contains at hc
    obtain ⟨j, hj⟩ := Option.isSome_iff_exists.1 hc
    have ⟨_, hjl, hp⟩ := findAt_sound t s 0 j hj
    simp only [Nat.sub_zero] at hp hjl
    refine ⟨s.take j, s.drop (j + t.length), occurrence_split t s j hp, by unfold Spec.replace; rw [hj], ?_⟩
    intro v1 v2 hv
    rw [List.length_take, Nat.min_eq_left hjl]
    apply Classical.byContradiction; intro hlt
    have hlt' : v1.length < j := by omega
    apply findAt_least t s 0 j hj v1.length (Nat.zero_le _) hlt'
    simp only [Nat.sub_zero]
    rw [hv, List.append_assoc, List.drop_left]
    exact List.prefix_append t v2

/-- `str.indexof s t i` for `i ≤ |s|`: the smallest `j ≥ i` at which `t` occurs in `s`, or -1 if there is none -/
theorem indexof_char (s t : S) (i : Nat) (hi : i ≤ s.length) :
    (∀ j, findAt t (s.drop i) i = some j → i ≤ j ∧ t <+: s.drop j ∧ (∀ k, i ≤ k → k < j → ¬ t <+: s.drop k) ∧
      Spec.indexof s t i = j % M64) ∧
    (findAt t (s.drop i) i = none → (∀ k, i ≤ k → k ≤ s.length → ¬ t <+: s.drop k) ∧ Spec.indexof s t i = minusOne) := by
  constructor
  · intro j hj
    have ⟨h1, _, h3⟩ := findAt_sound t (s.drop i) i j hj
    have h4 := findAt_least t (s.drop i) i j hj
    refine ⟨h1, ?_, ?_, by unfold Spec.indexof; rw [if_pos hi, hj]⟩
    · rw [List.drop_drop] at h3; have : i + (j - i) = j := by omega
      rwa [this] at h3
    · intro k hk1 hk2 hp
      apply h4 k hk1 hk2
      rw [List.drop_drop]; have : i + (k - i) = k := by omega
      rwa [this]
  · intro hn
    refine ⟨?_, by unfold Spec.indexof; rw [if_pos hi, hn]⟩
    intro k hk1 hk2 hp
    apply findAt_complete t (s.drop i) i hn (k - i) (by simp; omega)
    rw [List.drop_drop]; have : i + (k - i) = k := by omega
    rwa [this]

end Claripy.Str
