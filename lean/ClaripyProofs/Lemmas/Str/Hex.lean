import Claripy.Str.Codec
/-! Hexadecimal printing and parsing used by the escape sequences. -/
namespace Claripy.Str.Codec

theorem hexVal_hexChar (d : Nat) (h : d < 16) : hexVal (hexChar d) = some d := by
  unfold hexChar hexVal
  by_cases h10 : d < 10
  · have h1 : 48 ≤ 48 + d ∧ 48 + d ≤ 57 := by omega
    rw [if_pos h10, if_pos h1]; congr 1; omega
  · have h1 : ¬ (48 ≤ 87 + d ∧ 87 + d ≤ 57) := by omega
    have h2 : 97 ≤ 87 + d ∧ 87 + d ≤ 102 := by omega
    rw [if_neg h10, if_neg h1, if_pos h2]; congr 1; omega

theorem isHex_hexChar (d : Nat) (h : d < 16) : isHex (hexChar d) = true := by
  simp [isHex, hexVal_hexChar d h]

theorem hexVal_rbrace : hexVal rbrace = none := by decide
theorem isHex_rbrace : isHex rbrace = false := by decide

theorem toHex_eq (n : Nat) : toHex n = if n < 16 then [hexChar n] else toHex (n / 16) ++ [hexChar (n % 16)] := by
  rw [toHex]; split <;> rfl

theorem toHex_ne_nil (n : Nat) : toHex n ≠ [] := by
  rw [toHex_eq]; split <;> simp

theorem toHex_all_hex (n : Nat) : ∀ c ∈ toHex n, isHex c = true := by
  induction n using Nat.strongRecOn with
  | _ n ih =>
    rw [toHex_eq]
    by_cases h : n < 16
    · simp [h, isHex_hexChar n h]
    · simp only [h, if_false, List.mem_append, List.mem_singleton]
      intro c hc
      rcases hc with hc | hc
      · exact ih (n / 16) (by omega) c hc
      · rw [hc]; exact isHex_hexChar _ (Nat.mod_lt n (by decide))

/-- accumulate hex digits onto `acc` (what both Z3's loop and `int(_, 16)` compute) -/
def hexAcc (acc : Nat) (ds : S) : Nat := ds.foldl (fun a c => 16 * a + (hexVal c).getD 0) acc

theorem parseHex_eq (ds : S) : parseHex ds = hexAcc 0 ds := rfl

theorem hexAcc_toHex (n : Nat) : ∀ acc, hexAcc acc (toHex n) = acc * 16 ^ (toHex n).length + n := by
  induction n using Nat.strongRecOn with
  | _ n ih =>
    intro acc
    rw [toHex_eq]
    by_cases h : n < 16
    · simp [h, hexAcc, hexVal_hexChar n h]; omega
    · have hm := Nat.mod_lt n (by decide : 16 > 0)
      simp only [h, if_false, hexAcc, List.foldl_append, List.foldl_cons, List.foldl_nil,
        List.length_append, List.length_singleton]
      have := ih (n / 16) (by omega) acc
      unfold hexAcc at this
      rw [this, hexVal_hexChar _ hm]
      simp only [Option.getD_some, Nat.pow_succ]
      have := Nat.div_add_mod n 16
      rw [← Nat.mul_assoc acc]
      generalize acc * 16 ^ (toHex (n / 16)).length = Y
      omega

theorem parseHex_toHex (n : Nat) : parseHex (toHex n) = n := by
  rw [parseHex_eq, hexAcc_toHex]; simp

theorem toHex_length_le (n : Nat) : ∀ k, 0 < k → n < 16 ^ k → (toHex n).length ≤ k := by
  induction n using Nat.strongRecOn with
  | _ n ih =>
    intro k hk hn
    rw [toHex_eq]
    by_cases h : n < 16
    · simp [h]; omega
    · simp only [h, if_false, List.length_append, List.length_singleton]
      cases k with
      | zero => omega
      | succ k =>
        have hk' : 0 < k := by
          cases k with
          | zero => simp at hn; omega
          | succ k => omega
        have : n / 16 < 16 ^ k := by
          rw [Nat.div_lt_iff_lt_mul (by decide)]; rw [Nat.pow_succ] at hn; exact hn
        have := ih (n / 16) (by omega) k hk' this
        omega

theorem spanHex_append (ds : S) (c : Nat) (rest : S) (hds : ∀ d ∈ ds, isHex d = true) (hc : isHex c = false) :
    spanHex (ds ++ c :: rest) = (ds, c :: rest) := by
  induction ds with
  | nil => simp [spanHex, hc]
  | cons d ds ih =>
    have hd : isHex d = true := hds d (by simp)
    have := ih (fun d hd => hds d (by simp [hd]))
    simp [spanHex, hd, this]

end Claripy.Str.Codec
