import ClaripyProofs.Lemmas.Str.Hex
/-! Way in: what Z3 parses from z3py's text of claripy's escaped literal is the literal. -/
namespace Claripy.Str.Codec

theorem braceLoop_digits : ∀ (ds : S) (fuel acc : Nat) (rest : S),
    (∀ d ∈ ds, isHex d = true) → ds.length < fuel → hexAcc acc ds ≤ z3MaxChar →
    braceLoop fuel acc (ds ++ rbrace :: rest) = some (hexAcc acc ds, rest)
  | [], fuel, acc, rest, _, hf, hv => by
    cases fuel with
    | zero => simp at hf
    | succ fuel =>
      simp only [hexAcc, List.foldl_nil] at hv
      simp [braceLoop, hexVal_rbrace, hexAcc, hv]
  | d :: ds, fuel, acc, rest, hh, hf, hv => by
    cases fuel with
    | zero => simp at hf
    | succ fuel =>
      have hd : isHex d = true := hh d (by simp)
      obtain ⟨v, hv'⟩ := Option.isSome_iff_exists.1 hd
      have ih := braceLoop_digits ds fuel (16 * acc + v) rest (fun x hx => hh x (by simp [hx]))
        (by simp at hf; omega) (by simpa [hexAcc, hv'] using hv)
      simp only [List.cons_append, braceLoop, hv']
      rw [ih]; simp [hexAcc, hv']

theorem afterBU_cons (tl : S) : afterBU (bslash :: chU :: tl) = some tl := by simp [afterBU]

theorem afterBU_ne (c : Nat) (tl : S) (h : c ≠ bslash) : afterBU (c :: tl) = none := by
  cases tl with
  | nil => rfl
  | cons b tl => simp [afterBU, h]

theorem afterBU_ne2 (tl : S) (h : tl.head? ≠ some chU) : afterBU (bslash :: tl) = none := by
  cases tl with
  | nil => rfl
  | cons b tl =>
    have : b ≠ chU := by intro hb; simp [hb] at h
    simp [afterBU, this]

/-- Z3 reads `\u{h..h}` (at most 5 digits, value ≤ 0x2FFFF) as one character -/
theorem escapeAt_braceEscape (c : Nat) (rest : S) (hc : c ≤ z3MaxChar) :
    escapeAt (braceEscape c ++ rest) = some (c, rest) := by
  have hlen : (toHex c).length ≤ 5 := toHex_length_le c 5 (by decide) (by unfold z3MaxChar at hc; omega)
  have hall := toHex_all_hex c
  have hval : hexAcc 0 (toHex c) = c := parseHex_toHex c
  have hloop := braceLoop_digits (toHex c) 6 0 rest hall (by omega) (by rw [hval]; exact hc)
  rw [hval] at hloop
  unfold escapeAt braceEscape
  simp only [List.cons_append, List.nil_append, List.append_assoc, afterBU_cons]
  cases hx : toHex c with
  | nil => exact absurd hx (toHex_ne_nil c)
  | cons d ds =>
    have hd : d ≠ rbrace := by
      intro hd
      have := hall d (by simp [hx])
      rw [hd, isHex_rbrace] at this; exact absurd this (by decide)
    rw [hx] at hloop
    simp only [List.cons_append] at hloop ⊢
    simp [hd, hloop]

theorem escapeAt_plain (c : Nat) (rest : S) (h : c ≠ bslash) : escapeAt (c :: rest) = none := by
  simp [escapeAt, afterBU_ne c rest h]

/-- per character: claripy's escaping followed by z3py's -/
def enc1 (c : Nat) : S := (claripyEncodeChar c).flatMap z3pyEncodeChar

theorem enc1_bslash : enc1 bslash = braceEscape bslash := by
  simp [enc1, claripyEncodeChar, braceEscape, toHex_eq, hexChar, z3pyEncodeChar, bslash, chU, lbrace, rbrace]

theorem enc1_other (c : Nat) (h : c ≠ bslash) : enc1 c = z3pyEncodeChar c := by
  simp [enc1, claripyEncodeChar, h]

theorem encode_eq (s : S) : z3pyEncode (s.flatMap claripyEncodeChar) = s.flatMap enc1 := by
  simp only [z3pyEncode, List.flatMap_assoc]; rfl

theorem enc1_length_pos (c : Nat) : 0 < (enc1 c).length := by
  by_cases h : c = bslash
  · rw [h, enc1_bslash]; simp [braceEscape]
  · rw [enc1_other c h]; unfold z3pyEncodeChar; split <;> simp [braceEscape]

theorem parse_step (c : Nat) (rest : S) (fuel : Nat) (hc : c ≤ z3MaxChar) :
    z3ParseFuel (fuel + 1) (enc1 c ++ rest) = c :: z3ParseFuel fuel rest := by
  by_cases hb : c = bslash
  · have e := escapeAt_braceEscape bslash rest (by decide)
    rw [hb, enc1_bslash]
    cases hx : braceEscape bslash ++ rest with
    | nil => simp [braceEscape] at hx
    | cons a tl =>
      rw [hx] at e
      simp [z3ParseFuel, e]
  · rw [enc1_other c hb]
    unfold z3pyEncodeChar
    by_cases hp : 32 ≤ c ∧ c < 127
    · simp [hp, z3ParseFuel, escapeAt_plain c rest hb]
    · have e := escapeAt_braceEscape c rest hc
      rw [if_neg hp]
      cases hx : braceEscape c ++ rest with
      | nil => simp [braceEscape] at hx
      | cons a tl =>
        rw [hx] at e
        simp [z3ParseFuel, e]

theorem parse_all : ∀ (s : S) (fuel : Nat), (∀ c ∈ s, c ≤ z3MaxChar) → (s.flatMap enc1).length ≤ fuel →
    z3ParseFuel fuel (s.flatMap enc1) = s
  | [], fuel, _, _ => by cases fuel <;> simp [z3ParseFuel]
  | c :: s, fuel, hs, hf => by
    have hpos := enc1_length_pos c
    simp only [List.flatMap_cons, List.length_append] at hf ⊢
    cases fuel with
    | zero => omega
    | succ fuel =>
      rw [parse_step c _ fuel (hs c (by simp))]
      rw [parse_all s fuel (fun x hx => hs x (by simp [hx])) (by omega)]

/-- the string that reaches Z3 is the string the caller wrote -/
theorem literal_roundtrip' (s : S) (h : ∀ c ∈ s, c ≤ z3MaxChar) :
    (claripyEncode s).map (fun t => z3Parse (z3pyEncode t)) = some s := by
  have hany : s.any (fun c => decide (c > z3MaxChar)) = false := by
    simp only [List.any_eq_false, decide_eq_true_eq]; intro c hc; have := h c hc; omega
  unfold claripyEncode
  rw [hany]
  simp only [Bool.false_eq_true, if_false, Option.map_some, z3Parse, encode_eq]
  rw [parse_all s _ h (Nat.le_refl _)]

theorem literal_rejects_big' (s : S) (h : ∃ c ∈ s, c > z3MaxChar) : claripyEncode s = none := by
  have hany : s.any (fun c => decide (c > z3MaxChar)) = true := by
    simp only [List.any_eq_true, decide_eq_true_eq]; exact h
  unfold claripyEncode; rw [hany]; rfl

end Claripy.Str.Codec
