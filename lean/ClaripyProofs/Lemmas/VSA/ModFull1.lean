import ClaripyProofs.Lemmas.VSA.AlignedMul
/-! Towards `__mod__` with an UNALIGNED divisor, part 1: closure of the meet on arbitrary operands, the meet of a
non-wrapping interval with itself, and the two partial products of a single value with a piece. -/
namespace Claripy.VSA

theorem konst_WF (w : Nat) (hw : 0 < w) (c : Prop) [Decidable c] (v : Nat) :
    WFw w (if c then SI.new w 0 (v : Int) (v : Int) else SI.empty w) := by
  split
  · exact ⟨const_WF v w hw, new_bits _ _ _ _⟩
  · exact empty_WFw w hw

/-- **every result of `_multi_valued_intersection` is well formed**, whatever the operands (aligned or not) -/
theorem multiMeet_WF (w : Nat) (s b : SI) (hs : WFw w s) (hb : WFw w b) (hsb : s.bottom = false)
    (hbb : b.bottom = false) (l : List SI) (h : s.multiMeet b = .ok l) : ∀ r, r ∈ l → WFw w r := by
  have hw0 : 0 < w := by rw [← hs.2]; exact hs.1.1
  have hbits : s.bits = b.bits := by rw [hs.2, hb.2]
  have single : ∀ (X : R (Option Int)) (ns U : Nat),
      (X >>= fun m => meetFin s.bits ns m U >>= fun r => pure [r]) = .ok l → ∀ r, r ∈ l → WFw w r := by
    intro X ns U hh r hr
    obtain ⟨m, _, hh⟩ := bind_ok' hh
    obtain ⟨r0, hr0, hh⟩ := bind_ok' hh
    have := pure_ok' hh
    subst this
    rw [List.mem_singleton] at hr
    rw [hr]
    rw [hs.2] at hr0
    exact meetFin_WF w _ _ _ _ hw0 hr0
  by_cases hsi : s.lb = s.ub
  · by_cases hbi : b.lb = b.ub
    · rw [multiMeet_int_int s b hsb hbb hbits hsi hbi, hs.2] at h
      have hl : l = _ := (Except.ok.inj h).symm
      intro r hr; rw [hl, List.mem_singleton] at hr; rw [hr]; exact konst_WF w hw0 _ _
    · have hbs : b.stride ≠ 0 := fun h0 => hbi (hb.1.2.2.2.1 h0)
      rw [multiMeet_int_left s b hsb hbb hbits hsi hbi hbs, hs.2] at h
      have hl : l = _ := (Except.ok.inj h).symm
      intro r hr; rw [hl, List.mem_singleton] at hr; rw [hr]; exact konst_WF w hw0 _ _
  · by_cases hbi : b.lb = b.ub
    · have hss : s.stride ≠ 0 := fun h0 => hsi (hs.1.2.2.2.1 h0)
      rw [multiMeet_int s b hsb hbb hbits hsi hss hbi, hs.2] at h
      have hl : l = _ := (Except.ok.inj h).symm
      intro r hr; rw [hl, List.mem_singleton] at hr; rw [hr]; exact konst_WF w hw0 _ _
    · have h1 : s.isInteger = false := by simp [SI.isInteger, hsi]
      have h2 : b.isInteger = false := by simp [SI.isInteger, hbi]
      rw [multiMeet_general s b hsb hbb hbits h1 h2] at h
      split at h
      · exact single _ _ _ h
      · split at h
        · exact single _ _ _ h
        · split at h
          · obtain ⟨l0, _, h⟩ := bind_ok' h
            obtain ⟨l1, _, h⟩ := bind_ok' h
            obtain ⟨r0, hr0, h⟩ := bind_ok' h
            obtain ⟨r1, hr1, h⟩ := bind_ok' h
            have := pure_ok' h
            subst this
            rw [hs.2] at hr0 hr1
            intro r hr
            rcases List.mem_cons.1 hr with he | he
            · rw [he]; exact meetFin_WF w _ _ _ _ hw0 hr0
            · rw [List.mem_singleton] at he
              rw [he]; exact meetFin_WF w _ _ _ _ hw0 hr1
          · split at h
            · exact single _ _ _ h
            · split at h
              · exact single _ _ _ h
              · split at h
                · exact single _ _ _ h
                · split at h
                  · exact single _ _ _ h
                  · have := pure_ok' h
                    subst this
                    intro r hr
                    rw [List.mem_singleton] at hr
                    rw [hr, hs.2]; exact empty_WFw w hw0

theorem isSurrounded_self (X : SI) (hX : X.WF) (hb : X.bottom = false) : X.isSurrounded X = true := by
  unfold SI.isSurrounded
  rw [hb]
  simp only [Bool.false_eq_true, if_false, Bool.and_self]
  by_cases ht : X.isTop = true
  · rw [if_pos ht]
  · rw [if_neg ht, if_neg ht, if_neg ht]
    have h1 := (surrounds_iff X X.lb hX.2.1 hX.2.2.1 hX.2.1).2 (by rw [cd_self]; exact Nat.zero_le _)
    have h2 := (surrounds_iff X X.ub hX.2.1 hX.2.2.1 hX.2.2.1).2 (Nat.le_refl _)
    simp [h1, h2]

/-- **the meet of a non-wrapping interval with itself keeps every member** — aligned or not -/
theorem multiMeet_self (w : Nat) (X : SI) (hX : WFw w X) (hb : X.bottom = false) (hle : X.lb ≤ X.ub)
    (l : List SI) (h : X.multiMeet X = .ok l) : ∀ x, X.mem x → ∃ r, r ∈ l ∧ r.mem x := by
  have hw0 : 0 < w := by rw [← hX.2]; exact hX.1.1
  have hl := hX.1.2.1; have hu := hX.1.2.2.1
  rw [hX.2] at hl hu
  by_cases hi : X.lb = X.ub
  · rw [multiMeet_int_int X X hb hb rfl hi hi, if_pos rfl] at h
    have hl' : l = _ := (Except.ok.inj h).symm
    intro x hx
    refine ⟨_, by rw [hl']; exact List.mem_cons_self, ?_⟩
    rw [mem_integer X x hX.1 hi hx, hX.2]
    exact const_mem _ w hl
  · have hst : X.stride ≠ 0 := fun h0 => hi (hX.1.2.2.2.1 h0)
    have h1 : X.isInteger = false := by simp [SI.isInteger, hi]
    rw [multiMeet_general X X hb hb rfl h1 h1, if_pos (isSurrounded_self X hX.1 hb), hX.2] at h
    obtain ⟨o, hm, h⟩ := bind_ok' h
    obtain ⟨r, hf, h⟩ := bind_ok' h
    have hl' := pure_ok' h
    subst hl'
    intro x hx
    refine ⟨r, List.mem_cons_self, ?_⟩
    have hnw : ¬ X.ub < X.lb := by omega
    apply meet_call w X X X X X.ub x o r hst hst hX hX hb hb (fun hh => absurd hh hnw) (fun hh => absurd hh hnw)
      (fun hc => hnw hc.1) hm hf hu hx hx
    intro n mn _ hnl f1 _
    obtain ⟨hxl, hxs, hxd⟩ := arc_facts w X x hX hx
    obtain ⟨_, hns, hnd⟩ := arc_facts w X n hX mn
    have o1 := f1 (Or.inr hnw)
    exact ⟨dvd_of_order _ _ _ _ _ hl hnl hxl hnd hxd o1, dvd_of_order _ _ _ _ _ hl hnl hxl hnd hxd o1,
      arc_tail _ _ _ _ _ hl hu hnl hxl o1 hxs⟩

end Claripy.VSA
