import ClaripyProofs.Lemmas.VSA.Signed
import ClaripyProofs.Lemmas.VSA.Extract
/-! `min` / `max` (unsigned and signed) bound every member; the unsigned minimum is attained. -/
namespace Claripy.VSA

def fmin (m : Int) (p : Int × Int) : Int := if p.1 < m then p.1 else m
def fmax (m : Int) (p : Int × Int) : Int := if p.2 > m then p.2 else m

theorem fmin_facts (m : Int) (q : Int × Int) : fmin m q ≤ m ∧ fmin m q ≤ q.1 ∧ (fmin m q = m ∨ fmin m q = q.1) := by
  unfold fmin; split_ifs <;> omega

theorem fmax_facts (m : Int) (q : Int × Int) : m ≤ fmax m q ∧ q.2 ≤ fmax m q := by
  unfold fmax; split_ifs <;> omega

theorem foldl_min_spec (rest : List (Int × Int)) : ∀ (m : Int),
    rest.foldl fmin m ≤ m ∧ (∀ p, p ∈ rest → rest.foldl fmin m ≤ p.1) ∧
      (rest.foldl fmin m = m ∨ ∃ p, p ∈ rest ∧ rest.foldl fmin m = p.1) := by
  induction rest with
  | nil => intro m; exact ⟨Int.le_refl _, (fun p hp => nomatch hp), Or.inl rfl⟩
  | cons q qs ih =>
    intro m
    simp only [List.foldl_cons]
    obtain ⟨h1, h2, h3⟩ := ih (fmin m q)
    obtain ⟨f1, f2, f3⟩ := fmin_facts m q
    generalize fmin m q = t at h1 h2 h3 f1 f2 f3
    refine ⟨by omega, ?_, ?_⟩
    · intro p hp
      rcases List.mem_cons.1 hp with he | hin
      · subst he; omega
      · exact h2 p hin
    · rcases h3 with h3 | ⟨p, hp, h3⟩
      · rcases f3 with f3 | f3
        · left; omega
        · right; exact ⟨q, List.mem_cons_self, by omega⟩
      · exact Or.inr ⟨p, List.mem_cons_of_mem _ hp, h3⟩

theorem foldl_max_spec (rest : List (Int × Int)) : ∀ (m : Int),
    m ≤ rest.foldl fmax m ∧ (∀ p, p ∈ rest → p.2 ≤ rest.foldl fmax m) := by
  induction rest with
  | nil => intro m; exact ⟨Int.le_refl _, (fun p hp => nomatch hp)⟩
  | cons q qs ih =>
    intro m
    simp only [List.foldl_cons]
    obtain ⟨h1, h2⟩ := ih (fmax m q)
    obtain ⟨f1, f2⟩ := fmax_facts m q
    generalize fmax m q = t at h1 h2 f1 f2
    refine ⟨by omega, ?_⟩
    intro p hp
    rcases List.mem_cons.1 hp with he | hin
    · subst he; omega
    · exact h2 p hin

/-- generic: the `min` of a list of enclosing boxes is below every enclosed value -/
theorem min_of_bounds (bs : List (Int × Int)) (m : Int) (v : Int) (p : Int × Int) (hp : p ∈ bs) (hv : p.1 ≤ v)
    (h : (match bs with
      | [] => (throw Err.typeError : R (Option Int))
      | (l, _) :: rest => pure (some (rest.foldl (fun (m : Int) (p : Int × Int) => if p.1 < m then p.1 else m) l))) = .ok (some m)) : m ≤ v := by
  cases bs with
  | nil => cases hp
  | cons q rest =>
    simp only [pure, Except.pure] at h
    have hm : m = rest.foldl fmin q.1 := by cases h; rfl
    obtain ⟨h1, h2, _⟩ := foldl_min_spec rest q.1
    rw [← hm] at h1 h2
    rcases List.mem_cons.1 hp with he | hin
    · subst he; omega
    · have := h2 p hin; omega

theorem max_of_bounds (bs : List (Int × Int)) (m : Int) (v : Int) (p : Int × Int) (hp : p ∈ bs) (hv : v ≤ p.2)
    (h : (match bs with
      | [] => (throw Err.typeError : R (Option Int))
      | (_, u) :: rest => pure (some (rest.foldl (fun (m : Int) (p : Int × Int) => if p.2 > m then p.2 else m) u))) = .ok (some m)) : v ≤ m := by
  cases bs with
  | nil => cases hp
  | cons q rest =>
    simp only [pure, Except.pure] at h
    have hm : m = rest.foldl fmax q.2 := by cases h; rfl
    obtain ⟨h1, h2⟩ := foldl_max_spec rest q.2
    rw [← hm] at h1 h2
    rcases List.mem_cons.1 hp with he | hin
    · subst he; omega
    · have := h2 p hin; omega

/-- **unsigned `min` is a lower bound of the members** -/
theorem min_le (s : SI) (m : Int) (x : Nat) (hs : s.WF) (hx : s.mem x) (h : s.min false = .ok (some m)) : m ≤ x := by
  obtain ⟨bs, hbs, hc⟩ := unsignedBounds_spec s hs hx.1
  obtain ⟨p, hp, hp1, _⟩ := hc x hx
  unfold SI.min at h
  rw [hx.1] at h
  simp only [Bool.false_eq_true, if_false, hbs, bind, Except.bind] at h
  exact min_of_bounds bs m x p hp hp1 h

/-- **unsigned `max` is an upper bound of the members** -/
theorem le_max (s : SI) (m : Int) (x : Nat) (hs : s.WF) (hx : s.mem x) (h : s.max false = .ok (some m)) : (x : Int) ≤ m := by
  obtain ⟨bs, hbs, hc⟩ := unsignedBounds_spec s hs hx.1
  obtain ⟨p, hp, _, hp2⟩ := hc x hx
  unfold SI.max at h
  rw [hx.1] at h
  simp only [Bool.false_eq_true, if_false, hbs, bind, Except.bind] at h
  exact max_of_bounds bs m x p hp hp2 h

/-- signed `min` / `max` bound the signed value of every member -/
theorem smin_le (s : SI) (m : Int) (x : Nat) (hs : s.WF) (hn : s.renorm = s) (hx : s.mem x)
    (h : s.min true = .ok (some m)) : m ≤ Conc.toInt s.bits x := by
  obtain ⟨bs, hbs, hc⟩ := signedBounds_spec s hs hx.1 hn
  obtain ⟨p, hp, hp1, _⟩ := hc x hx
  unfold SI.min at h
  rw [hx.1] at h
  simp only [Bool.false_eq_true, if_false, if_true, hbs, bind, Except.bind] at h
  exact min_of_bounds bs m _ p hp hp1 h

theorem le_smax (s : SI) (m : Int) (x : Nat) (hs : s.WF) (hn : s.renorm = s) (hx : s.mem x)
    (h : s.max true = .ok (some m)) : Conc.toInt s.bits x ≤ m := by
  obtain ⟨bs, hbs, hc⟩ := signedBounds_spec s hs hx.1 hn
  obtain ⟨p, hp, _, hp2⟩ := hc x hx
  unfold SI.max at h
  rw [hx.1] at h
  simp only [Bool.false_eq_true, if_false, if_true, hbs, bind, Except.bind] at h
  exact max_of_bounds bs m _ p hp hp2 h

/-- **the unsigned minimum is attained**: it is a member -/
theorem min_attained (s : SI) (m : Int) (hs : s.WF) (hnb : s.bottom = false) (h : s.min false = .ok (some m)) :
    ∃ x, s.mem x ∧ (x : Int) = m := by
  obtain ⟨ps, hps, hprop, _, hback⟩ := ssplit_spec s hs hnb
  unfold SI.min at h
  rw [hnb] at h
  have hbs : s.unsignedBounds = .ok (ps.map fun p => ((p.lb : Int), (p.ub : Int))) := by
    unfold SI.unsignedBounds; rw [hps]; rfl
  simp only [Bool.false_eq_true, if_false, hbs, bind, Except.bind] at h
  cases ps with
  | nil => simp only [List.map_nil] at h; cases h
  | cons q rest =>
    simp only [List.map_cons, pure, Except.pure] at h
    have hm : m = (rest.map fun p => ((p.lb : Int), (p.ub : Int))).foldl fmin (q.lb : Int) := by
      cases h; rfl
    obtain ⟨_, _, h3⟩ := foldl_min_spec (rest.map fun p => ((p.lb : Int), (p.ub : Int))) (q.lb : Int)
    rw [← hm] at h3
    rcases h3 with h3 | ⟨p, hp, h3⟩
    · obtain ⟨hqw, hqb, _, _⟩ := hprop q List.mem_cons_self
      exact ⟨q.lb, hback q List.mem_cons_self _ (mem_lb q hqw.1 hqb), h3.symm⟩
    · obtain ⟨p', hp', he⟩ := List.mem_map.1 hp
      subst he
      obtain ⟨hqw, hqb, _, _⟩ := hprop p' (List.mem_cons_of_mem _ hp')
      exact ⟨p'.lb, hback p' (List.mem_cons_of_mem _ hp') _ (mem_lb p' hqw.1 hqb), h3.symm⟩

end Claripy.VSA
