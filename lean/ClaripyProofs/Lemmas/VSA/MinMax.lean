import ClaripyProofs.Lemmas.VSA.Signed
import ClaripyProofs.Lemmas.VSA.Extract
/-! `min` / `max` (unsigned and signed) bound every member; the unsigned minimum is attained. -/
namespace Claripy.VSA

def fmin (m : Int) (p : Int × Int) : Int := if p.1 < m then p.1 else m
def fmax (m : Int) (p : Int × Int) : Int := if p.2 > m then p.2 else m

theorem fmin_facts (m : Int) (q : Int × Int) : fmin m q ≤ m ∧ fmin m q ≤ q.1 ∧ (fmin m q = m ∨ fmin m q = q.1) := by
  unfold fmin; split_ifs <;> omega

theorem fmax_facts (m : Int) (q : Int × Int) : m ≤ fmax m q ∧ q.2 ≤ fmax m q := by
  unfold fmax; split_ifs <;> omega

theorem foldl_min_spec (rest : List (Int × Int)) : ∀ (m : Int),
    rest.foldl fmin m ≤ m ∧ (∀ p, p ∈ rest → rest.foldl fmin m ≤ p.1) ∧
      (rest.foldl fmin m = m ∨ ∃ p, p ∈ rest ∧ rest.foldl fmin m = p.1) := by
  induction rest with
  | nil => intro m; exact ⟨Int.le_refl _, (fun p hp => nomatch hp), Or.inl rfl⟩
  | cons q qs ih =>
    intro m
    simp only [List.foldl_cons]
    obtain ⟨h1, h2, h3⟩ := ih (fmin m q)
    obtain ⟨f1, f2, f3⟩ := fmin_facts m q
    generalize fmin m q = t at h1 h2 h3 f1 f2 f3
    refine ⟨by omega, ?_, ?_⟩
    · intro p hp
      rcases List.mem_cons.1 hp with he | hin
      · subst he; omega
      · exact h2 p hin
    · rcases h3 with h3 | ⟨p, hp, h3⟩
      · rcases f3 with f3 | f3
        · left; omega
        · right; exact ⟨q, List.mem_cons_self, by omega⟩
      · exact Or.inr ⟨p, List.mem_cons_of_mem _ hp, h3⟩

theorem foldl_max_spec (rest : List (Int × Int)) : ∀ (m : Int),
    m ≤ rest.foldl fmax m ∧ (∀ p, p ∈ rest → p.2 ≤ rest.foldl fmax m) := by
  induction rest with
  | nil => intro m; exact ⟨Int.le_refl _, (fun p hp => nomatch hp)⟩
  | cons q qs ih =>
    intro m
    simp only [List.foldl_cons]
    obtain ⟨h1, h2⟩ := ih (fmax m q)
    obtain ⟨f1, f2⟩ := fmax_facts m q
    generalize fmax m q = t at h1 h2 f1 f2
    refine ⟨by omega, ?_⟩
    intro p hp
    rcases List.mem_cons.1 hp with he | hin
    · subst he; omega
    · exact h2 p hin

/-- generic: the `min` of a list of enclosing boxes is below every enclosed value -/
theorem min_of_bounds (bs : List (Int × Int)) (m : Int) (v : Int) (p : Int × Int) (hp : p ∈ bs) (hv : p.1 ≤ v)
    (h : (match bs with
      | [] => (throw Err.typeError : R (Option Int))
      | (l, _) :: rest => pure (some (rest.foldl (fun (m : Int) (p : Int × Int) => if p.1 < m then p.1 else m) l))) = .ok (some m)) : m ≤ v := by
  cases bs with
  | nil => cases hp
  | cons q rest =>
    simp only [pure, Except.pure] at h
    have hm : m = rest.foldl fmin q.1 := by cases h; rfl
    obtain ⟨h1, h2, _⟩ := foldl_min_spec rest q.1
    rw [← hm] at h1 h2
    rcases List.mem_cons.1 hp with he | hin
    · subst he; omega
    · have := h2 p hin; omega

theorem max_of_bounds (bs : List (Int × Int)) (m : Int) (v : Int) (p : Int × Int) (hp : p ∈ bs) (hv : v ≤ p.2)
    (h : (match bs with
      | [] => (throw Err.typeError : R (Option Int))
      | (_, u) :: rest => pure (some (rest.foldl (fun (m : Int) (p : Int × Int) => if p.2 > m then p.2 else m) u))) = .ok (some m)) : v ≤ m := by
  cases bs with
  | nil => cases hp
  | cons q rest =>
    simp only [pure, Except.pure] at h
    have hm : m = rest.foldl fmax q.2 := by cases h; rfl
    obtain ⟨h1, h2⟩ := foldl_max_spec rest q.2
    rw [← hm] at h1 h2
    rcases List.mem_cons.1 hp with he | hin
    · subst he; omega
    · have := h2 p hin; omega

/-- **unsigned `min` is a lower bound of the members** -/
theorem min_le (s : SI) (m : Int) (x : Nat) (hs : s.WF) (hx : s.mem x) (h : s.min false = .ok (some m)) : m ≤ x := by
  obtain ⟨bs, hbs, hc⟩ := unsignedBounds_spec s hs hx.1
  obtain ⟨p, hp, hp1, _⟩ := hc x hx
  unfold SI.min at h
  rw [hx.1] at h
  simp only [Bool.false_eq_true, if_false, hbs, bind, Except.bind] at h
  exact min_of_bounds bs m x p hp hp1 h

/-- **unsigned `max` is an upper bound of the members** -/
theorem le_max (s : SI) (m : Int) (x : Nat) (hs : s.WF) (hx : s.mem x) (h : s.max false = .ok (some m)) : (x : Int) ≤ m := by
  obtain ⟨bs, hbs, hc⟩ := unsignedBounds_spec s hs hx.1
  obtain ⟨p, hp, _, hp2⟩ := hc x hx
  unfold SI.max at h
  rw [hx.1] at h
  simp only [Bool.false_eq_true, if_false, hbs, bind, Except.bind] at h
  exact max_of_bounds bs m x p hp hp2 h

/-- signed `min` / `max` bound the signed value of every member -/
theorem smin_le (s : SI) (m : Int) (x : Nat) (hs : s.WF) (hn : s.renorm = s) (hx : s.mem x)
    (h : s.min true = .ok (some m)) : m ≤ Conc.toInt s.bits x := by
  obtain ⟨bs, hbs, hc⟩ := signedBounds_spec s hs hx.1 hn
  obtain ⟨p, hp, hp1, _⟩ := hc x hx
  unfold SI.min at h
  rw [hx.1] at h
  simp only [Bool.false_eq_true, if_false, if_true, hbs, bind, Except.bind] at h
  exact min_of_bounds bs m _ p hp hp1 h

theorem le_smax (s : SI) (m : Int) (x : Nat) (hs : s.WF) (hn : s.renorm = s) (hx : s.mem x)
    (h : s.max true = .ok (some m)) : Conc.toInt s.bits x ≤ m := by
  obtain ⟨bs, hbs, hc⟩ := signedBounds_spec s hs hx.1 hn
  obtain ⟨p, hp, _, hp2⟩ := hc x hx
  unfold SI.max at h
  rw [hx.1] at h
  simp only [Bool.false_eq_true, if_false, if_true, hbs, bind, Except.bind] at h
  exact max_of_bounds bs m _ p hp hp2 h

/-- **the unsigned minimum is attained**: it is a member -/
theorem min_attained (s : SI) (m : Int) (hs : s.WF) (hnb : s.bottom = false) (h : s.min false = .ok (some m)) :
    ∃ x, s.mem x ∧ (x : Int) = m := by
  obtain ⟨ps, hps, hprop, _, hback⟩ := ssplit_spec s hs hnb
  unfold SI.min at h
  rw [hnb] at h
  have hbs : s.unsignedBounds = .ok (ps.map fun p => ((p.lb : Int), (p.ub : Int))) := by
    unfold SI.unsignedBounds; rw [hps]; rfl
  simp only [Bool.false_eq_true, if_false, hbs, bind, Except.bind] at h
  cases ps with
  | nil => simp only [List.map_nil] at h; cases h
  | cons q rest =>
    simp only [List.map_cons, pure, Except.pure] at h
    have hm : m = (rest.map fun p => ((p.lb : Int), (p.ub : Int))).foldl fmin (q.lb : Int) := by
      cases h; rfl
    obtain ⟨_, _, h3⟩ := foldl_min_spec (rest.map fun p => ((p.lb : Int), (p.ub : Int))) (q.lb : Int)
    rw [← hm] at h3
    rcases h3 with h3 | ⟨p, hp, h3⟩
    · obtain ⟨hqw, hqb, _, _⟩ := hprop q List.mem_cons_self
      exact ⟨q.lb, hback q List.mem_cons_self _ (mem_lb q hqw.1 hqb), h3.symm⟩
    · obtain ⟨p', hp', he⟩ := List.mem_map.1 hp
      subst he
      obtain ⟨hqw, hqb, _, _⟩ := hprop p' (List.mem_cons_of_mem _ hp')
      exact ⟨p'.lb, hback p' (List.mem_cons_of_mem _ hp') _ (mem_lb p' hqw.1 hqb), h3.symm⟩

theorem fmax_cases (m : Int) (q : Int × Int) : fmax m q = m ∨ fmax m q = q.2 := by
  unfold fmax; split_ifs <;> simp

theorem foldl_max_attained (rest : List (Int × Int)) : ∀ (m : Int),
    rest.foldl fmax m = m ∨ ∃ p, p ∈ rest ∧ rest.foldl fmax m = p.2 := by
  induction rest with
  | nil => intro m; exact Or.inl rfl
  | cons q qs ih =>
    intro m
    simp only [List.foldl_cons]
    rcases ih (fmax m q) with h | ⟨p, hp, h⟩
    · rcases fmax_cases m q with f | f
      · left; rw [h, f]
      · right; exact ⟨q, List.mem_cons_self, by rw [h, f]⟩
    · right; exact ⟨p, List.mem_cons_of_mem _ hp, h⟩

/-- the upper bound of an aligned interval is a member -/
theorem mem_ub (s : SI) (hs : s.WF) (hnb : s.bottom = false) (hal : s.Aligned) : s.mem s.ub := by
  obtain ⟨_, hl, hu, hst⟩ := hs
  rw [mem_iff _ _ hl hu]
  refine ⟨hnb, hu, Nat.le_refl _, ?_⟩
  unfold SI.Aligned SI.span at hal
  rw [modSub_nat _ _ _ hu hl] at hal
  by_cases hz : s.stride = 0
  · rw [if_pos hz]
    have := hst.1 hz
    rw [this, cd_self]
  · rw [if_neg hz]
    rcases hal with h | h
    · exact absurd h hz
    · exact h

/-- **the unsigned maximum of an aligned interval is attained** (for unaligned ones it is not: `max_unaligned_wrong`) -/
theorem max_attained (s : SI) (m : Int) (hs : s.WF) (hnb : s.bottom = false) (hal : s.Aligned)
    (h : s.max false = .ok (some m)) : ∃ x, s.mem x ∧ (x : Int) = m := by
  have hwf := hs
  obtain ⟨h0, hl, hu, hst⟩ := hs
  have hub := mem_ub s hwf hnb hal
  unfold SI.max at h
  rw [hnb] at h
  simp only [Bool.false_eq_true, if_false, bind, Except.bind] at h
  by_cases hwrap : s.ub < s.lb
  · have hsplit := ssplit_wrap s hwf hwrap
    simp only [] at hsplit
    generalize hK : (2 ^ s.bits - 1 - s.lb) - (2 ^ s.bits - 1 - s.lb) % s.stride = K at hsplit
    have hsne : s.stride ≠ 0 := by intro hh; have := hst.1 hh; omega
    have hK1 : s.stride ∣ K := by rw [← hK]; exact Nat.dvd_sub_mod _
    have hK3 : K ≤ 2 ^ s.bits - 1 - s.lb := by rw [← hK]; exact Nat.sub_le _ _
    have hlk : s.lb + K < 2 ^ s.bits := by omega
    have hspan : cd (2 ^ s.bits) s.lb s.ub = s.ub + 2 ^ s.bits - s.lb := by unfold cd; split_ifs <;> omega
    have hAb := new_bounds s.bits s.stride s.lb (s.lb + K) hl hlk (by
      rintro ⟨h1, _⟩
      rw [succ_mod_cases _ _ hlk] at h1
      split_ifs at h1 <;> omega)
    -- the last member before the pole
    have hmemK : s.mem (s.lb + K) := by
      rw [mem_iff _ _ hl hu]
      have hcd : cd (2 ^ s.bits) s.lb (s.lb + K) = K := by unfold cd; split_ifs <;> omega
      rw [hcd, hspan, if_neg hsne]
      exact ⟨hnb, hlk, by omega, Nat.mod_eq_zero_of_dvd hK1⟩
    by_cases hbr : K + s.stride > cd (2 ^ s.bits) s.lb s.ub
    · rw [if_pos hbr] at hsplit
      have hb : s.unsignedBounds = .ok [((s.lb : Int), ((s.lb + K : Nat) : Int))] := by
        unfold SI.unsignedBounds; rw [hsplit]
        simp only [bind, Except.bind, pure, Except.pure, List.map_cons, List.map_nil, hAb.1, hAb.2]
      rw [hb] at h
      simp only [pure, Except.pure, List.foldl_nil] at h
      exact ⟨s.lb + K, hmemK, by cases h; rfl⟩
    · rw [if_neg hbr] at hsplit
      have hbLeq : (s.lb + K + s.stride) % 2 ^ s.bits = s.lb + K + s.stride - 2 ^ s.bits := by
        have hK2 : 2 ^ s.bits - 1 - s.lb < K + s.stride := by
          have := Nat.mod_lt (2 ^ s.bits - 1 - s.lb) (Nat.pos_of_ne_zero hsne)
          have := Nat.mod_le (2 ^ s.bits - 1 - s.lb) s.stride
          omega
        have : s.lb + K + s.stride = (s.lb + K + s.stride - 2 ^ s.bits) + 2 ^ s.bits := by omega
        rw [this, Nat.add_mod_right, Nat.mod_eq_of_lt (by omega)]
        omega
      rw [hbLeq] at hsplit
      generalize hbl : s.lb + K + s.stride - 2 ^ s.bits = bl at hsplit
      have hblt : bl < 2 ^ s.bits := by omega
      have hBb := new_bounds s.bits s.stride bl s.ub hblt hu (by
        rintro ⟨h1, _⟩
        rw [succ_mod_cases _ _ hu] at h1
        split_ifs at h1 <;> omega)
      have hb : s.unsignedBounds = .ok [((s.lb : Int), ((s.lb + K : Nat) : Int)), ((bl : Int), (s.ub : Int))] := by
        unfold SI.unsignedBounds; rw [hsplit]
        simp only [bind, Except.bind, pure, Except.pure, List.map_cons, List.map_nil, hAb.1, hAb.2, hBb.1, hBb.2]
      rw [hb] at h
      simp only [pure, Except.pure, List.foldl_cons, List.foldl_nil] at h
      have hm : m = if (s.ub : Int) > ((s.lb + K : Nat) : Int) then (s.ub : Int) else ((s.lb + K : Nat) : Int) := by cases h; rfl
      split_ifs at hm
      · exact ⟨s.ub, hub, hm.symm⟩
      · exact ⟨s.lb + K, hmemK, hm.symm⟩
  · have hsplit : s.ssplit = .ok [s.renorm] := by unfold SI.ssplit; rw [if_neg hwrap]; rfl
    -- bounds of the copy
    have hr : s.renorm.ub = s.ub := by
      unfold SI.renorm
      rw [hnb]
      simp only [Bool.false_eq_true, if_false]
      rw [new_eq, imod_of_lt _ _ hl, imod_of_lt _ _ hu]
      split
      · rfl
      · split
        · rename_i h1 h2
          have h3 := h2.1
          rw [succ_mod_cases _ _ hu] at h3
          split_ifs at h3
          · omega
          · show 2 ^ s.bits - 1 = s.ub
            omega
        · rfl
    have hb : s.unsignedBounds = .ok [((s.renorm.lb : Int), (s.ub : Int))] := by
      unfold SI.unsignedBounds; rw [hsplit]
      simp only [bind, Except.bind, pure, Except.pure, List.map_cons, List.map_nil, hr]
    rw [hb] at h
    simp only [pure, Except.pure, List.foldl_nil] at h
    exact ⟨s.ub, hub, by cases h; rfl⟩

end Claripy.VSA
