import ClaripyProofs.Lemmas.VSA.Lift
import ClaripyProofs.Lemmas.VSA.MinMax
/-! `min` / `max` of a discrete set (as repaired: over the members) bound every member of every member interval. -/
namespace Claripy.VSA

theorem foldl_imin_le (vs : List Int) : ∀ (m : Int),
    vs.foldl (fun m x => if x < m then x else m) m ≤ m ∧ ∀ v, v ∈ vs → vs.foldl (fun m x => if x < m then x else m) m ≤ v := by
  induction vs with
  | nil => intro m; exact ⟨Int.le_refl _, (fun v hv => nomatch hv)⟩
  | cons q qs ih =>
    intro m
    simp only [List.foldl_cons]
    obtain ⟨h1, h2⟩ := ih (if q < m then q else m)
    have f : (if q < m then q else m) ≤ m ∧ (if q < m then q else m) ≤ q := by split_ifs <;> omega
    generalize (if q < m then q else m) = t at h1 h2 f
    refine ⟨by omega, ?_⟩
    intro v hv
    rcases List.mem_cons.1 hv with he | hin
    · subst he; omega
    · exact h2 v hin

theorem foldl_imax_ge (vs : List Int) : ∀ (m : Int),
    m ≤ vs.foldl (fun m x => if x > m then x else m) m ∧ ∀ v, v ∈ vs → v ≤ vs.foldl (fun m x => if x > m then x else m) m := by
  induction vs with
  | nil => intro m; exact ⟨Int.le_refl _, (fun v hv => nomatch hv)⟩
  | cons q qs ih =>
    intro m
    simp only [List.foldl_cons]
    obtain ⟨h1, h2⟩ := ih (if q > m then q else m)
    have f : m ≤ (if q > m then q else m) ∧ q ≤ (if q > m then q else m) := by split_ifs <;> omega
    generalize (if q > m then q else m) = t at h1 h2 f
    refine ⟨by omega, ?_⟩
    intro v hv
    rcases List.mem_cons.1 hv with he | hin
    · subst he; omega
    · exact h2 v hin

/-- a non-empty interval has a `min` and a `max` value (not `None`) whenever the query succeeds -/
theorem min_some (s : SI) (signed : Bool) (o : Option Int) (hnb : s.bottom = false) (h : s.min signed = .ok o) : ∃ m, o = some m := by
  unfold SI.min at h
  rw [hnb] at h
  cases signed
  · simp only [Bool.false_eq_true, if_false, bind, Except.bind] at h
    generalize s.unsignedBounds = B at h
    cases B with
    | error e => cases h
    | ok bs =>
      cases bs with
      | nil => cases h
      | cons q rest => simp only [pure, Except.pure] at h; cases h; exact ⟨_, rfl⟩
  · simp only [Bool.false_eq_true, if_false, if_true, bind, Except.bind] at h
    generalize s.signedBounds = B at h
    cases B with
    | error e => cases h
    | ok bs =>
      cases bs with
      | nil => cases h
      | cons q rest => simp only [pure, Except.pure] at h; cases h; exact ⟨_, rfl⟩

theorem max_some (s : SI) (signed : Bool) (o : Option Int) (hnb : s.bottom = false) (h : s.max signed = .ok o) : ∃ m, o = some m := by
  unfold SI.max at h
  rw [hnb] at h
  cases signed
  · simp only [Bool.false_eq_true, if_false, bind, Except.bind] at h
    generalize s.unsignedBounds = B at h
    cases B with
    | error e => cases h
    | ok bs =>
      cases bs with
      | nil => cases h
      | cons q rest => simp only [pure, Except.pure] at h; cases h; exact ⟨_, rfl⟩
  · simp only [Bool.false_eq_true, if_false, if_true, bind, Except.bind] at h
    generalize s.signedBounds = B at h
    cases B with
    | error e => cases h
    | ok bs =>
      cases bs with
      | nil => cases h
      | cons q rest => simp only [pure, Except.pure] at h; cases h; exact ⟨_, rfl⟩

/-- **`min()` of a set is a lower bound of every member of every member interval** -/
theorem dsis_min_le (d : DSIS) (m : Int) (s : SI) (x : Nat) (hs : s ∈ d.sis) (hw : s.WF) (hx : s.mem x)
    (h : d.minQ false = .ok (some m)) : m ≤ x := by
  unfold DSIS.minQ at h
  simp only [bind, Except.bind] at h
  split at h
  · cases h
  · rename_i vals hvals
    have hin : s ∈ d.sis.filter fun s => !s.bottom := by
      rw [List.mem_filter]; exact ⟨hs, by rw [hx.1]; rfl⟩
    obtain ⟨o, ho, hso⟩ := mapM_ok_mem _ _ _ hvals s hin
    obtain ⟨mv, hmv⟩ := min_some s false o hx.1 hso
    subst hmv
    have hle := min_le s mv x hw hx hso
    have hmem : mv ∈ vals.filterMap id := by
      rw [List.mem_filterMap]; exact ⟨some mv, ho, rfl⟩
    cases hfm : vals.filterMap id with
    | nil => rw [hfm] at hmem; cases hmem
    | cons v vs =>
      rw [hfm] at h hmem
      simp only [pure, Except.pure] at h
      have hm : m = vs.foldl (fun m x => if x < m then x else m) v := by cases h; rfl
      obtain ⟨f1, f2⟩ := foldl_imin_le vs v
      rw [← hm] at f1 f2
      rcases List.mem_cons.1 hmem with he | hin2
      · omega
      · have := f2 mv hin2; omega

/-- **`max()` of a set is an upper bound** -/
theorem dsis_le_max (d : DSIS) (m : Int) (s : SI) (x : Nat) (hs : s ∈ d.sis) (hw : s.WF) (hx : s.mem x)
    (h : d.maxQ false = .ok (some m)) : (x : Int) ≤ m := by
  unfold DSIS.maxQ at h
  simp only [bind, Except.bind] at h
  split at h
  · cases h
  · rename_i vals hvals
    have hin : s ∈ d.sis.filter fun s => !s.bottom := by
      rw [List.mem_filter]; exact ⟨hs, by rw [hx.1]; rfl⟩
    obtain ⟨o, ho, hso⟩ := mapM_ok_mem _ _ _ hvals s hin
    obtain ⟨mv, hmv⟩ := max_some s false o hx.1 hso
    subst hmv
    have hle := le_max s mv x hw hx hso
    have hmem : mv ∈ vals.filterMap id := by
      rw [List.mem_filterMap]; exact ⟨some mv, ho, rfl⟩
    cases hfm : vals.filterMap id with
    | nil => rw [hfm] at hmem; cases hmem
    | cons v vs =>
      rw [hfm] at h hmem
      simp only [pure, Except.pure] at h
      have hm : m = vs.foldl (fun m x => if x > m then x else m) v := by cases h; rfl
      obtain ⟨f1, f2⟩ := foldl_imax_ge vs v
      rw [← hm] at f1 f2
      rcases List.mem_cons.1 hmem with he | hin2
      · omega
      · have := f2 mv hin2; omega

end Claripy.VSA
