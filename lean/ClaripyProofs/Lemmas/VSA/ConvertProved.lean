import ClaripyProofs.Lemmas.VSA.Convert
import ClaripyProofs.Lemmas.VSA.NotExt
import ClaripyProofs.Lemmas.VSA.Extract
import ClaripyProofs.Lemmas.VSA.Signed
import ClaripyProofs.Lemmas.VSA.NormalForm
import ClaripyProofs.Lemmas.VSA.SextSound
import ClaripyProofs.Lemmas.VSA.AndXor
import ClaripyProofs.Lemmas.VSA.ConcatSound
import ClaripyProofs.Lemmas.VSA.AshrSound
import ClaripyProofs.Lemmas.VSA.MeetFinal
import ClaripyProofs.Lemmas.VSA.MulTop
import ClaripyProofs.Lemmas.VSA.ModSound
import ClaripyProofs.Lemmas.VSA.ModFull4
/-!
The structural soundness theorem of `convBV`/`convB` with the *proved* interval operations discharged:
`add, sub, neg, not, and, or, xor, concat, zero_extend, sign_extend, extract, udiv, shl, lshr, ashr, union (If), ULT/ULE/UGT/UGE,
SLT/SLE/SGT/SGE`.
The induction also carries constructor-normal form (`Nrm`), which the signed orderings need.  What is left as a hypothesis
(`OpsRest`) is consulted only at nodes that use one of the remaining operation (`urem`), so ASTs inside the proved fragment get
an unconditional theorem.  The ASTs considered here have a defined value at every node (no division by zero anywhere,
also not in a branch that is not taken): the proved operations are closed on *non-empty* intervals, and non-emptiness of
the operands is obtained from the concrete values of the sub-expressions.
-/
namespace Claripy.VSA

def restBin : BinOp → Bool
  | _ => false

def signedCmp : CmpOp → Bool
  | .slt | .sle | .sgt | .sge => true
  | _ => false

def restCmp : CmpOp → Bool
  | .eq | .ne => true
  | _ => false

/-- the obligations that are not proved yet (same shape as the corresponding fields of `OpsOK`) -/
structure OpsRest : Prop where
  bin : ∀ (op : BinOp) (a b r : SI) (o o' : Orders), restBin op = true → a.WF → b.WF → a.bits = b.bits →
    applyBin op a b o = .ok (r, o') →
    ((r.WF ∧ r.bits = a.bits) ∧ Nrm r) ∧ ∀ x y v, a.mem x → b.mem y → concBin op a.bits x y = some v → r.mem v

mutual
/-- does the AST use an operation whose interval transfer function is not proved? -/
def usesRestBV : BV → Bool
  | .var _ _ => false
  | .free _ _ => false
  | .const _ _ => false
  | .bin op a b => restBin op || usesRestBV a || usesRestBV b
  | .neg a => usesRestBV a
  | .not a => usesRestBV a
  | .zext _ a => usesRestBV a
  | .sext _ a => usesRestBV a
  | .extract _ _ a => usesRestBV a
  | .concat a b => usesRestBV a || usesRestBV b
  | .ite c a b => usesRestB c || usesRestBV a || usesRestBV b
def usesRestB : BExp → Bool
  | .lit _ => false
  | .cmp _ a b => usesRestBV a || usesRestBV b
  | .not c => usesRestB c
  | .and c d => usesRestB c || usesRestB d
  | .or c d => usesRestB c || usesRestB d
  | .ite c a b => usesRestB c || usesRestB a || usesRestB b
end

mutual
/-- every interval operation the backend dispatches to is proved now: no AST uses an unproved one -/
theorem usesRestBV_false : ∀ e : BV, usesRestBV e = false
  | .var _ _ => rfl
  | .free _ _ => rfl
  | .const _ _ => rfl
  | .bin op a b => by simp [usesRestBV, restBin, usesRestBV_false a, usesRestBV_false b]
  | .neg a => by simp [usesRestBV, usesRestBV_false a]
  | .not a => by simp [usesRestBV, usesRestBV_false a]
  | .zext _ a => by simp [usesRestBV, usesRestBV_false a]
  | .sext _ a => by simp [usesRestBV, usesRestBV_false a]
  | .extract _ _ a => by simp [usesRestBV, usesRestBV_false a]
  | .concat a b => by simp [usesRestBV, usesRestBV_false a, usesRestBV_false b]
  | .ite c a b => by simp [usesRestBV, usesRestB_false c, usesRestBV_false a, usesRestBV_false b]
theorem usesRestB_false : ∀ c : BExp, usesRestB c = false
  | .lit _ => rfl
  | .cmp _ a b => by simp [usesRestB, usesRestBV_false a, usesRestBV_false b]
  | .not c => by simp [usesRestB, usesRestB_false c]
  | .and c d => by simp [usesRestB, usesRestB_false c, usesRestB_false d]
  | .or c d => by simp [usesRestB, usesRestB_false c, usesRestB_false d]
  | .ite c a b => by simp [usesRestB, usesRestB_false c, usesRestB_false a, usesRestB_false b]
end

mutual
/-- the abstract operands of every `==` / `!=` / `*` node are aligned (their upper bounds are members): the guard under which the
meet, hence `eq` and `mul`, is sound (`meet_sound`, `mul_sound`); `%` needs no guard (`mod_sound_full`); evaluated along the
same order stream as `convBV` -/
def alBV (anno : Nat → SI) : BV → Orders → Prop
  | .var _ _, _ => True
  | .free _ _, _ => True
  | .const _ _, _ => True
  | .bin op a b, o => alBV anno a o ∧ ∀ p1, convBV anno a o = .ok p1 →
      (alBV anno b p1.2 ∧ ∀ p2, convBV anno b p1.2 = .ok p2 →
        (op = .mul → p1.1.si.Aligned) ∧ (op = .mul → p2.1.si.Aligned))
  | .neg a, o => alBV anno a o
  | .not a, o => alBV anno a o
  | .zext _ a, o => alBV anno a o
  | .sext _ a, o => alBV anno a o
  | .extract _ _ a, o => alBV anno a o
  | .concat a b, o => alBV anno a o ∧ ∀ p1, convBV anno a o = .ok p1 → alBV anno b p1.2
  | .ite c a b, o => alB anno c o ∧ ∀ pc, convB anno c o = .ok pc →
      (alBV anno a pc.2 ∧ ∀ p1, convBV anno a pc.2 = .ok p1 → alBV anno b p1.2)
def alB (anno : Nat → SI) : BExp → Orders → Prop
  | .lit _, _ => True
  | .cmp op a b, o => alBV anno a o ∧ ∀ p1, convBV anno a o = .ok p1 →
      (alBV anno b p1.2 ∧ (restCmp op = true → ∀ p2, convBV anno b p1.2 = .ok p2 → p1.1.si.Aligned ∧ p2.1.si.Aligned))
  | .not c, o => alB anno c o
  | .and c d, o => alB anno c o ∧ ∀ p, convB anno c o = .ok p → alB anno d p.2
  | .or c d, o => alB anno c o ∧ ∀ p, convB anno c o = .ok p → alB anno d p.2
  | .ite c a b, o => alB anno c o ∧ ∀ pc, convB anno c o = .ok pc →
      (alB anno a pc.2 ∧ ∀ p, convB anno a pc.2 = .ok p → alB anno b p.2)
end

mutual
/-- does the AST contain `==`, `!=` or `*` (the operations that are sound on aligned operands only)? -/
def usesEqBV : BV → Bool
  | .var _ _ => false
  | .free _ _ => false
  | .const _ _ => false
  | .bin op a b => decide (op = .mul) || usesEqBV a || usesEqBV b
  | .neg a => usesEqBV a
  | .not a => usesEqBV a
  | .zext _ a => usesEqBV a
  | .sext _ a => usesEqBV a
  | .extract _ _ a => usesEqBV a
  | .concat a b => usesEqBV a || usesEqBV b
  | .ite c a b => usesEqB c || usesEqBV a || usesEqBV b
def usesEqB : BExp → Bool
  | .lit _ => false
  | .cmp op a b => restCmp op || usesEqBV a || usesEqBV b
  | .not c => usesEqB c
  | .and c d => usesEqB c || usesEqB d
  | .or c d => usesEqB c || usesEqB d
  | .ite c a b => usesEqB c || usesEqB a || usesEqB b
end

mutual
/-- without `==` / `!=` / `*` the alignment guard is void -/
theorem alBV_of_noEq (anno : Nat → SI) : ∀ (e : BV) (o : Orders), usesEqBV e = false → alBV anno e o
  | .var _ _, _, _ => trivial
  | .free _ _, _, _ => trivial
  | .const _ _, _, _ => trivial
  | .bin op a b, o, h => by
    simp only [usesEqBV, Bool.or_eq_false_iff, decide_eq_false_iff_not] at h
    exact ⟨alBV_of_noEq anno a o h.1.2, fun p1 _ => ⟨alBV_of_noEq anno b p1.2 h.2, fun _ _ =>
      ⟨fun he => absurd he h.1.1, fun he => absurd he h.1.1⟩⟩⟩
  | .neg a, o, h => by simp only [usesEqBV] at h; exact alBV_of_noEq anno a o h
  | .not a, o, h => by simp only [usesEqBV] at h; exact alBV_of_noEq anno a o h
  | .zext _ a, o, h => by simp only [usesEqBV] at h; exact alBV_of_noEq anno a o h
  | .sext _ a, o, h => by simp only [usesEqBV] at h; exact alBV_of_noEq anno a o h
  | .extract _ _ a, o, h => by simp only [usesEqBV] at h; exact alBV_of_noEq anno a o h
  | .concat a b, o, h => by
    simp only [usesEqBV, Bool.or_eq_false_iff] at h
    exact ⟨alBV_of_noEq anno a o h.1, fun p1 _ => alBV_of_noEq anno b p1.2 h.2⟩
  | .ite c a b, o, h => by
    simp only [usesEqBV, Bool.or_eq_false_iff] at h
    exact ⟨alB_of_noEq anno c o h.1.1, fun pc _ => ⟨alBV_of_noEq anno a pc.2 h.1.2, fun p1 _ => alBV_of_noEq anno b p1.2 h.2⟩⟩
theorem alB_of_noEq (anno : Nat → SI) : ∀ (c : BExp) (o : Orders), usesEqB c = false → alB anno c o
  | .lit _, _, _ => trivial
  | .cmp op a b, o, h => by
    simp only [usesEqB, Bool.or_eq_false_iff] at h
    exact ⟨alBV_of_noEq anno a o h.1.2, fun p1 _ => ⟨alBV_of_noEq anno b p1.2 h.2, fun hr => by rw [h.1.1] at hr; cases hr⟩⟩
  | .not c, o, h => by simp only [usesEqB] at h; exact alB_of_noEq anno c o h
  | .and c d, o, h => by
    simp only [usesEqB, Bool.or_eq_false_iff] at h
    exact ⟨alB_of_noEq anno c o h.1, fun p _ => alB_of_noEq anno d p.2 h.2⟩
  | .or c d, o, h => by
    simp only [usesEqB, Bool.or_eq_false_iff] at h
    exact ⟨alB_of_noEq anno c o h.1, fun p _ => alB_of_noEq anno d p.2 h.2⟩
  | .ite c a b, o, h => by
    simp only [usesEqB, Bool.or_eq_false_iff] at h
    exact ⟨alB_of_noEq anno c o h.1.1, fun pc _ => ⟨alB_of_noEq anno a pc.2 h.1.2, fun p _ => alB_of_noEq anno b p.2 h.2⟩⟩
end

mutual
/-- every node of the AST has a value (no division by zero anywhere) -/
def DefBV (env : Nat → Nat) : BV → Prop
  | .var _ _ => True
  | .free _ _ => True
  | .const _ _ => True
  | .bin op a b => DefBV env a ∧ DefBV env b ∧ ∃ v, evalBV env (.bin op a b) = some v
  | .neg a => DefBV env a
  | .not a => DefBV env a
  | .zext _ a => DefBV env a
  | .sext _ a => DefBV env a
  | .extract _ _ a => DefBV env a
  | .concat a b => DefBV env a ∧ DefBV env b
  | .ite c a b => DefB env c ∧ DefBV env a ∧ DefBV env b
def DefB (env : Nat → Nat) : BExp → Prop
  | .lit _ => True
  | .cmp _ a b => DefBV env a ∧ DefBV env b
  | .not c => DefB env c
  | .and c d => DefB env c ∧ DefB env d
  | .or c d => DefB env c ∧ DefB env d
  | .ite c a b => DefB env c ∧ DefB env a ∧ DefB env b
end

mutual
theorem defBV_some (env : Nat → Nat) : ∀ e, DefBV env e → ∃ v, evalBV env e = some v
  | .var i _, _ => ⟨env i, by simp [evalBV]⟩
  | .free i _, _ => ⟨env i, by simp [evalBV]⟩
  | .const v _, _ => ⟨v, by simp [evalBV]⟩
  | .bin _ _ _, h => h.2.2
  | .neg a, h => by
    obtain ⟨x, hx⟩ := defBV_some env a h
    exact ⟨_, by simp only [evalBV, hx]; rfl⟩
  | .not a, h => by
    obtain ⟨x, hx⟩ := defBV_some env a h
    exact ⟨_, by simp only [evalBV, hx]; rfl⟩
  | .zext _ a, h => by
    obtain ⟨x, hx⟩ := defBV_some env a h
    exact ⟨x, by simp only [evalBV, hx]⟩
  | .sext _ a, h => by
    obtain ⟨x, hx⟩ := defBV_some env a h
    exact ⟨_, by simp only [evalBV, hx]; rfl⟩
  | .extract _ _ a, h => by
    obtain ⟨x, hx⟩ := defBV_some env a h
    exact ⟨_, by simp only [evalBV, hx]; rfl⟩
  | .concat a b, h => by
    obtain ⟨x, hx⟩ := defBV_some env a h.1
    obtain ⟨y, hy⟩ := defBV_some env b h.2
    exact ⟨_, by simp only [evalBV, hx, hy]; rfl⟩
  | .ite c a b, h => by
    obtain ⟨cv, hc⟩ := defB_some env c h.1
    obtain ⟨x, hx⟩ := defBV_some env a h.2.1
    obtain ⟨y, hy⟩ := defBV_some env b h.2.2
    cases cv with
    | true => exact ⟨x, by simp only [evalBV, hc]; exact hx⟩
    | false => exact ⟨y, by simp only [evalBV, hc]; exact hy⟩
theorem defB_some (env : Nat → Nat) : ∀ c, DefB env c → ∃ b, evalB env c = some b
  | .lit b, _ => ⟨b, by simp [evalB]⟩
  | .cmp _ a b, h => by
    obtain ⟨x, hx⟩ := defBV_some env a h.1
    obtain ⟨y, hy⟩ := defBV_some env b h.2
    exact ⟨_, by simp only [evalB, hx, hy]; rfl⟩
  | .not c, h => by
    obtain ⟨b, hb⟩ := defB_some env c h
    exact ⟨_, by simp only [evalB, hb]; rfl⟩
  | .and c d, h => by
    obtain ⟨b, hb⟩ := defB_some env c h.1
    obtain ⟨b', hb'⟩ := defB_some env d h.2
    exact ⟨_, by simp only [evalB, hb, hb']; rfl⟩
  | .or c d, h => by
    obtain ⟨b, hb⟩ := defB_some env c h.1
    obtain ⟨b', hb'⟩ := defB_some env d h.2
    exact ⟨_, by simp only [evalB, hb, hb']; rfl⟩
  | .ite c a b, h => by
    obtain ⟨cv, hc⟩ := defB_some env c h.1
    obtain ⟨x, hx⟩ := defB_some env a h.2.1
    obtain ⟨y, hy⟩ := defB_some env b h.2.2
    cases cv with
    | true => exact ⟨x, by simp only [evalB, hc]; exact hx⟩
    | false => exact ⟨y, by simp only [evalB, hc]; exact hy⟩
end

/-! ### the proved operations, in the shape the induction needs -/

theorem bin_proved (op : BinOp) (hop : restBin op = false) (a b r : SI) (o o' : Orders) (wa : a.WF) (wb : b.WF)
    (hbits : a.bits = b.bits) (hab : a.bottom = false) (hbb : b.bottom = false) (na : Nrm a) (nb : Nrm b)
    (hmul : (op = .mul → a.Aligned) ∧ (op = .mul → b.Aligned)) (h : applyBin op a b o = .ok (r, o')) :
    (r.WF ∧ r.bits = a.bits) ∧ ∀ x y v, a.mem x → b.mem y → concBin op a.bits x y = some v → r.mem v := by
  cases op <;> simp only [restBin] at hop <;> try (exact absurd hop (by decide))
  · -- add
    simp only [applyBin] at h
    have := pure_ok _ _ h
    cases this
    refine ⟨add_WF a b wa wb hbits, ?_⟩
    intro x y v hx hy hv
    simp only [concBin, Option.some.injEq] at hv
    subst hv
    exact add_sound a b x y hbits wa wb hx hy
  · -- sub
    simp only [applyBin] at h
    have := pure_ok _ _ h
    cases this
    refine ⟨sub_WF a b wa wb hbits, ?_⟩
    intro x y v hx hy hv
    simp only [concBin, Option.some.injEq] at hv
    subst hv
    have hyl : y < 2 ^ a.bits := by rw [hbits]; exact hy.2.1
    have := sub_sound a b x y hbits wa wb hx hy
    unfold Conc.sub
    rw [Nat.mod_eq_of_lt hyl]
    have e : x + (2 ^ a.bits - y) = x + 2 ^ a.bits - y := by omega
    rw [e]; exact this
  · -- mul
    simp only [applyBin] at h
    obtain ⟨r1, h1, h⟩ := bind_ok _ _ _ h
    have := pure_ok _ _ h
    cases this
    have hA := hmul.1 rfl
    have hB := hmul.2 rfl
    obtain ⟨g1, g2⟩ := mul_sound a.bits a b r ⟨wa, rfl⟩ ⟨wb, hbits.symm⟩ hab hbb hA hB na nb h1
    refine ⟨g1, ?_⟩
    intro x y v hx hy hv
    simp only [concBin, Option.some.injEq] at hv
    subst hv
    exact g2 x y hx hy
  · -- udiv
    cases o with
    | nil => simp only [applyBin] at h; cases h
    | cons od rest =>
      simp only [applyBin] at h
      obtain ⟨r1, h1, h⟩ := bind_ok _ _ _ h
      have := pure_ok _ _ h
      cases this
      obtain ⟨g1, g2⟩ := udiv_sound a b r od wa wb hbits hab hbb h1
      refine ⟨g1, ?_⟩
      intro x y v hx hy hv
      simp only [concBin] at hv
      by_cases hy0 : y = 0
      · rw [if_pos hy0] at hv; cases hv
      · rw [if_neg hy0] at hv
        simp only [Option.some.injEq] at hv
        subst hv
        exact g2 x y hx hy hy0
  · -- urem
    simp only [applyBin] at h
    obtain ⟨r1, h1, h⟩ := bind_ok _ _ _ h
    have := pure_ok _ _ h
    cases this
    obtain ⟨⟨g1, _⟩, g2⟩ := mod_sound_full a.bits a b r ⟨wa, rfl⟩ ⟨wb, hbits.symm⟩ hab hbb h1
    refine ⟨g1, ?_⟩
    intro x y v hx hy hv
    simp only [concBin] at hv
    by_cases hy0 : y = 0
    · rw [if_pos hy0] at hv; cases hv
    · rw [if_neg hy0] at hv
      simp only [Option.some.injEq] at hv
      subst hv
      exact g2 x y hx hy hy0
  · -- and
    simp only [applyBin] at h
    obtain ⟨r1, h1, h⟩ := bind_ok _ _ _ h
    have := pure_ok _ _ h
    cases this
    obtain ⟨⟨g1, _⟩, g2⟩ := and_sound a b r wa wb hbits hab hbb na nb h1
    refine ⟨g1, ?_⟩
    intro x y v hx hy hv
    simp only [concBin, Option.some.injEq] at hv
    subst hv
    exact g2 x y hx hy
  · -- or
    simp only [applyBin] at h
    obtain ⟨r1, h1, h⟩ := bind_ok _ _ _ h
    have := pure_ok _ _ h
    cases this
    obtain ⟨g1, g2⟩ := or_sound a b r wa wb hbits hab hbb h1
    refine ⟨g1, ?_⟩
    intro x y v hx hy hv
    simp only [concBin, Option.some.injEq] at hv
    subst hv
    exact g2 x y hx hy
  · -- xor
    simp only [applyBin] at h
    obtain ⟨r1, h1, h⟩ := bind_ok _ _ _ h
    have := pure_ok _ _ h
    cases this
    obtain ⟨⟨g1, _⟩, g2⟩ := xor_sound a b r wa wb hbits hab hbb h1
    refine ⟨g1, ?_⟩
    intro x y v hx hy hv
    simp only [concBin, Option.some.injEq] at hv
    subst hv
    exact g2 x y hx hy
  · -- shl
    simp only [applyBin] at h
    obtain ⟨r1, h1, h⟩ := bind_ok _ _ _ h
    have := pure_ok _ _ h
    cases this
    obtain ⟨g1, g2⟩ := shl_sound a b r wa hab wb h1
    refine ⟨g1, ?_⟩
    intro x y v hx hy hv
    simp only [concBin, Option.some.injEq] at hv
    subst hv
    exact g2 x y hx hy
  · -- lshr
    simp only [applyBin] at h
    obtain ⟨r1, h1, h⟩ := bind_ok _ _ _ h
    have := pure_ok _ _ h
    cases this
    obtain ⟨g1, g2⟩ := lshr_sound a b r wa hab wb h1
    refine ⟨g1, ?_⟩
    intro x y v hx hy hv
    simp only [concBin, Option.some.injEq] at hv
    subst hv
    exact g2 x y hx hy
  · -- ashr
    simp only [applyBin] at h
    obtain ⟨r1, h1, h⟩ := bind_ok _ _ _ h
    have := pure_ok _ _ h
    cases this
    obtain ⟨g1, g2⟩ := ashr_sound a b r wa hab na wb h1
    refine ⟨g1, ?_⟩
    intro x y v hx hy hv
    simp only [concBin, Option.some.injEq] at hv
    subst hv
    exact g2 x y hx hy

/-! ### the proved operations return intervals in constructor-normal form -/

theorem not_nrm (a r : SI) (hw : r.WF) (h : a.bitwiseNot = .ok r) : Nrm r := by
  unfold SI.bitwiseNot at h
  obtain ⟨ps, _, h⟩ := bind_ok _ _ _ h
  obtain ⟨u, _, h⟩ := bind_ok _ _ _ h
  exact nrm_of_renorm u r (pure_ok _ _ h) hw

theorem extract_nrm (a r : SI) (hi lo : Nat) (hw : r.WF) (h : a.extract hi lo = .ok r) : Nrm r := by
  unfold SI.extract at h
  simp only [bind, Except.bind, pure, Except.pure] at h
  repeat' (split at h)
  all_goals first | (exact nrm_of_renorm _ r (by cases h; rfl) hw) | cases h

theorem udiv_nrm (a b r : SI) (order : List Nat) (hw : r.WF) (h : a.udiv b order = .ok r) : Nrm r := by
  unfold SI.udiv at h
  obtain ⟨ds, _, h⟩ := bind_ok _ _ _ h
  obtain ⟨vs, _, h⟩ := bind_ok _ _ _ h
  simp only [] at h
  split at h
  · cases h
  · obtain ⟨u, _, h⟩ := bind_ok _ _ _ h
    exact nrm_of_renorm u r (pure_ok _ _ h) hw

theorem overRange_nrm (self : SI) (lower upper : Nat) (f : Nat → R SI) (r : SI) (hb : 0 < self.bits) (hw : r.WF)
    (h : overRange self lower upper f = .ok r) : Nrm r := by
  unfold overRange at h
  split at h
  · cases h
  · have : r = SI.top self.bits := by cases h; rfl
    subst this; exact nrm_top _ hb
  · rename_i u _
    have : r = u.renorm := by cases h; rfl
    exact nrm_of_renorm u r this hw

theorem and_nrm (a b r : SI) (hw : r.WF) (h : a.bitwiseAnd b = .ok r) (hb : 0 < a.bits) (hbits : a.bits = b.bits) : Nrm r := by
  rw [bitwiseAnd_eq] at h
  have try_nrm : ∀ (tb : Nat) (p q u : SI), 0 < q.bits → andTry tb p q = .ok (some u) → Nrm u := by
    intro tb p q u hq hu
    unfold andTry at hu
    split at hu
    · obtain ⟨ps, _, hu⟩ := bind_ok _ _ _ hu
      simp only [] at hu
      split_ifs at hu <;> (have := pure_ok _ _ hu; cases this; exact nrm_new _ _ _ _ hq)
    · cases hu
  obtain ⟨o1, h1, h⟩ := bind_ok _ _ _ h
  cases o1 with
  | some r1 =>
    have := pure_ok _ _ h
    subst this
    exact try_nrm _ _ _ _ (by omega) h1
  | none =>
    simp only [] at h
    obtain ⟨o2, h2, h⟩ := bind_ok _ _ _ h
    cases o2 with
    | some r2 =>
      have := pure_ok _ _ h
      subst this
      exact try_nrm _ _ _ _ hb h2
    | none =>
      simp only [] at h
      obtain ⟨cs, _, h⟩ := bind_ok _ _ _ h
      obtain ⟨ct, _, h⟩ := bind_ok _ _ _ h
      obtain ⟨o, _, h⟩ := bind_ok _ _ _ h
      obtain ⟨q, _, h⟩ := bind_ok _ _ _ h
      exact nrm_of_renorm q r (pure_ok _ _ h) hw

theorem mul_nrm (a b r : SI) (hw : r.WF) (hb : 0 < a.bits) (h : a.mul b = .ok r) : Nrm r := by
  rw [mul_eq] at h
  split at h
  · have := pure_ok _ _ h
    rw [this]; exact nrm_new _ _ _ _ hb
  · obtain ⟨p1, _, h⟩ := bind_ok _ _ _ h
    obtain ⟨p2, _, h⟩ := bind_ok _ _ _ h
    obtain ⟨all, _, h⟩ := bind_ok _ _ _ h
    obtain ⟨u, _, h⟩ := bind_ok _ _ _ h
    exact nrm_of_renorm u r (pure_ok _ _ h) hw

theorem mod_nrm (a b r : SI) (hw : r.WF) (hb : 0 < a.bits) (h : a.mod b = .ok r) : Nrm r := by
  rw [mod_eq] at h
  split at h
  · have := pure_ok _ _ h
    rw [this]; unfold Nrm SI.renorm SI.empty; simp
  · split at h
    · have := pure_ok _ _ h
      rw [this]; exact nrm_new _ _ _ _ hb
    · obtain ⟨p1, _, h⟩ := bind_ok _ _ _ h
      obtain ⟨p2, _, h⟩ := bind_ok _ _ _ h
      obtain ⟨all, _, h⟩ := bind_ok _ _ _ h
      obtain ⟨u, _, h⟩ := bind_ok _ _ _ h
      exact nrm_of_renorm u r (pure_ok _ _ h) hw

theorem or_nrm (a b r : SI) (hw : r.WF) (h : a.bitwiseOr b = .ok r) : Nrm r := by
  unfold SI.bitwiseOr at h
  obtain ⟨us, _, h⟩ := bind_ok _ _ _ h
  obtain ⟨vs, _, h⟩ := bind_ok _ _ _ h
  obtain ⟨u, _, h⟩ := bind_ok _ _ _ h
  exact nrm_of_renorm u r (pure_ok _ _ h) hw

theorem xor_nrm (a b r : SI) (hw : r.WF) (h : a.bitwiseXor b = .ok r) : Nrm r := by
  unfold SI.bitwiseXor at h
  obtain ⟨cs, _, h⟩ := bind_ok _ _ _ h
  obtain ⟨ct, _, h⟩ := bind_ok _ _ _ h
  obtain ⟨o1, _, h⟩ := bind_ok _ _ _ h
  obtain ⟨l, _, h⟩ := bind_ok _ _ _ h
  obtain ⟨o2, _, h⟩ := bind_ok _ _ _ h
  obtain ⟨q, _, h⟩ := bind_ok _ _ _ h
  obtain ⟨o3, _, h⟩ := bind_ok _ _ _ h
  exact nrm_of_renorm o3 r (pure_ok _ _ h) hw

theorem bin_proved_nrm (op : BinOp) (hop : restBin op = false) (a b r : SI) (o o' : Orders) (wa : a.WF)
    (hbits : a.bits = b.bits) (hw : r.WF) (h : applyBin op a b o = .ok (r, o')) : Nrm r := by
  cases op <;> simp only [restBin] at hop <;> try (exact absurd hop (by decide))
  · simp only [applyBin] at h
    have := pure_ok _ _ h
    cases this
    exact add_nrm a b wa
  · simp only [applyBin] at h
    have := pure_ok _ _ h
    cases this
    exact sub_nrm a b wa
  · simp only [applyBin] at h
    obtain ⟨r1, h1, h⟩ := bind_ok _ _ _ h
    have := pure_ok _ _ h
    cases this
    exact mul_nrm a b r hw wa.1 h1
  · cases o with
    | nil => simp only [applyBin] at h; cases h
    | cons od rest =>
      simp only [applyBin] at h
      obtain ⟨r1, h1, h⟩ := bind_ok _ _ _ h
      have := pure_ok _ _ h
      cases this
      exact udiv_nrm a b r od hw h1
  · simp only [applyBin] at h
    obtain ⟨r1, h1, h⟩ := bind_ok _ _ _ h
    have := pure_ok _ _ h
    cases this
    exact mod_nrm a b r hw wa.1 h1
  · simp only [applyBin] at h
    obtain ⟨r1, h1, h⟩ := bind_ok _ _ _ h
    have := pure_ok _ _ h
    cases this
    exact and_nrm a b r hw h1 wa.1 hbits
  · simp only [applyBin] at h
    obtain ⟨r1, h1, h⟩ := bind_ok _ _ _ h
    have := pure_ok _ _ h
    cases this
    exact or_nrm a b r hw h1
  · simp only [applyBin] at h
    obtain ⟨r1, h1, h⟩ := bind_ok _ _ _ h
    have := pure_ok _ _ h
    cases this
    exact xor_nrm a b r hw h1
  · simp only [applyBin] at h
    obtain ⟨r1, h1, h⟩ := bind_ok _ _ _ h
    have := pure_ok _ _ h
    cases this
    unfold SI.lshift SI.lshiftRange at h1
    exact overRange_nrm a _ _ _ r wa.1 hw h1
  · simp only [applyBin] at h
    obtain ⟨r1, h1, h⟩ := bind_ok _ _ _ h
    have := pure_ok _ _ h
    cases this
    unfold SI.rshiftLogical SI.rshiftLogicalRange at h1
    exact overRange_nrm a _ _ _ r wa.1 hw h1
  · simp only [applyBin] at h
    obtain ⟨r1, h1, h⟩ := bind_ok _ _ _ h
    have := pure_ok _ _ h
    cases this
    unfold SI.rshiftArith SI.rshiftArithRange at h1
    exact overRange_nrm a _ _ _ r wa.1 hw h1

theorem or_true_of_left {a b : Bool} (h : a = true) : (a || b) = true := by simp [h]
theorem or_true_of_right {a b : Bool} (h : b = true) : (a || b) = true := by simp [h]

mutual
/-- soundness of `convBV` with the proved operations discharged -/
theorem convBV_rest_good (anno : Nat → SI) (env : Nat → Nat)
    (hctx : ∀ i, (anno i).WF ∧ (anno i).mem (env i)) (hnrm : ∀ i, Nrm (anno i)) :
    ∀ (e : BV) (o : Orders) (av : AV) (o' : Orders), (usesRestBV e = true → OpsRest) → alBV anno e o → DefBV env e →
      WTBV anno env e → convBV anno e o = .ok (av, o') → GoodBV env e av ∧ Nrm av.si
  | .var i w, o, av, o', _, _, _, hwt, h => by
    simp only [convBV] at h
    have := pure_ok _ _ h
    cases this
    refine ⟨?_, hnrm i⟩
    refine ⟨⟨(hctx i).1, hwt⟩, ?_⟩
    intro v hv0
    have hv := hv0
    simp only [evalBV] at hv
    cases hv
    exact ⟨(hctx i).2, rfl⟩
  | .free i w, o, av, o', _, _, _, hwt, h => by
    simp only [convBV] at h
    have := pure_ok _ _ h
    cases this
    refine ⟨?_, nrm_top w hwt.1⟩
    refine ⟨⟨top_WF w hwt.1, top_bits w⟩, ?_⟩
    intro v hv0
    have hv := hv0
    simp only [evalBV] at hv
    cases hv
    exact ⟨(mem_top w _).2 hwt.2, rfl⟩
  | .const c w, o, av, o', _, _, _, hwt, h => by
    simp only [convBV] at h
    have := pure_ok _ _ h
    cases this
    refine ⟨?_, nrm_new _ _ _ _ hwt.1⟩
    refine ⟨⟨const_WF c w hwt.1, by simp [wd]⟩, ?_⟩
    intro v hv0
    have hv := hv0
    simp only [evalBV] at hv
    cases hv
    exact ⟨const_mem c w hwt.2, hv0⟩
  | .bin op a b, o, av, o', R, hal, hdef, hwt, h => by
    simp only [convBV] at h
    obtain ⟨p1, h1, h⟩ := bind_ok _ _ _ h
    obtain ⟨p2, h2, h⟩ := bind_ok _ _ _ h
    obtain ⟨p3, h3, h⟩ := bind_ok _ _ _ h
    have := pure_ok _ _ h
    cases this
    have Ra : usesRestBV a = true → OpsRest := fun hh => R (by simp [usesRestBV, hh])
    have Rb : usesRestBV b = true → OpsRest := fun hh => R (by simp [usesRestBV, hh])
    obtain ⟨⟨⟨wa, ba⟩, ma⟩, na⟩ := convBV_rest_good anno env hctx hnrm a o p1.1 p1.2 Ra hal.1 hdef.1 hwt.1 h1
    obtain ⟨⟨⟨wb, bb⟩, mb⟩, nb⟩ := convBV_rest_good anno env hctx hnrm b p1.2 p2.1 p2.2 Rb (hal.2 p1 h1).1 hdef.2.1 hwt.2.1 h2
    have hbits : p1.1.si.bits = p2.1.si.bits := by rw [ba, bb]; exact hwt.2.2
    obtain ⟨x0, hx0⟩ := defBV_some env a hdef.1
    obtain ⟨y0, hy0⟩ := defBV_some env b hdef.2.1
    have hab : p1.1.si.bottom = false := (ma x0 hx0).1.1
    have hbb : p2.1.si.bottom = false := (mb y0 hy0).1.1
    have key : ((p3.1.WF ∧ p3.1.bits = p1.1.si.bits) ∧ Nrm p3.1) ∧
        ∀ x y v, p1.1.si.mem x → p2.1.si.mem y → concBin op p1.1.si.bits x y = some v → p3.1.mem v := by
      by_cases hr : restBin op = true
      · exact (R (by simp [usesRestBV, hr])).bin op _ _ _ _ _ hr wa wb hbits h3
      · have k1 := bin_proved op (by simpa using hr) _ _ _ _ _ wa wb hbits hab hbb na nb
          ((hal.2 p1 h1).2 p2 h2) h3
        exact ⟨⟨k1.1, bin_proved_nrm op (by simpa using hr) _ _ _ _ _ wa hbits k1.1.1 h3⟩, k1.2⟩
    obtain ⟨⟨⟨wr, br⟩, nr⟩, mr⟩ := key
    refine ⟨?_, nr⟩
    refine ⟨⟨wr, by rw [br, ba]; rfl⟩, ?_⟩
    intro v hv0
    have hv := hv0
    simp only [evalBV] at hv
    obtain ⟨x, hx, hv⟩ := obind_some _ _ _ hv
    obtain ⟨y, hy, hv⟩ := obind_some _ _ _ hv
    refine ⟨mr x y v (ma x hx).1 (mb y hy).1 (by rw [ba]; exact hv), nameOK_bin env op _ _ _ v (ma x hx).1.1 hv0⟩
  | .neg a, o, av, o', R, hal, hdef, hwt, h => by
    simp only [convBV] at h
    obtain ⟨p1, h1, h⟩ := bind_ok _ _ _ h
    have := pure_ok _ _ h
    cases this
    have Ra : usesRestBV a = true → OpsRest := fun hh => R (by simp [usesRestBV, hh])
    obtain ⟨⟨⟨wa, ba⟩, ma⟩, na⟩ := convBV_rest_good anno env hctx hnrm a o p1.1 p1.2 Ra hal hdef hwt h1
    obtain ⟨wr, br⟩ := neg_WF p1.1.si wa
    refine ⟨?_, neg_nrm p1.1.si wa⟩
    refine ⟨⟨wr, by rw [br, ba]; rfl⟩, ?_⟩
    intro v hv0
    have hv := hv0
    simp only [evalBV] at hv
    obtain ⟨x, hx, hv⟩ := obind_some _ _ _ hv
    cases hv
    refine ⟨?_, hv0⟩
    rw [← ba]
    unfold Conc.neg
    rw [Nat.mod_eq_of_lt (ma x hx).1.2.1]
    exact neg_sound p1.1.si x wa (ma x hx).1
  | .not a, o, av, o', R, hal, hdef, hwt, h => by
    simp only [convBV] at h
    obtain ⟨p1, h1, h⟩ := bind_ok _ _ _ h
    obtain ⟨r, h2, h⟩ := bind_ok _ _ _ h
    have := pure_ok _ _ h
    cases this
    have Ra : usesRestBV a = true → OpsRest := fun hh => R (by simp [usesRestBV, hh])
    obtain ⟨⟨⟨wa, ba⟩, ma⟩, na⟩ := convBV_rest_good anno env hctx hnrm a o p1.1 p1.2 Ra hal hdef hwt h1
    obtain ⟨x0, hx0⟩ := defBV_some env a hdef
    obtain ⟨⟨wr, br⟩, mr⟩ := not_sound p1.1.si r wa (ma x0 hx0).1.1 h2
    refine ⟨?_, not_nrm p1.1.si r wr h2⟩
    refine ⟨⟨wr, by rw [br, ba]; rfl⟩, ?_⟩
    intro v hv0
    have hv := hv0
    simp only [evalBV] at hv
    obtain ⟨x, hx, hv⟩ := obind_some _ _ _ hv
    cases hv
    refine ⟨?_, hv0⟩
    rw [← ba]
    unfold Conc.not
    rw [Nat.mod_eq_of_lt (ma x hx).1.2.1]
    exact mr x (ma x hx).1
  | .zext k a, o, av, o', R, hal, hdef, hwt, h => by
    simp only [convBV] at h
    obtain ⟨p1, h1, h⟩ := bind_ok _ _ _ h
    obtain ⟨r, h2, h⟩ := bind_ok _ _ _ h
    have := pure_ok _ _ h
    cases this
    have Ra : usesRestBV a = true → OpsRest := fun hh => R (by simp [usesRestBV, hh])
    obtain ⟨⟨⟨wa, ba⟩, ma⟩, na⟩ := convBV_rest_good anno env hctx hnrm a o p1.1 p1.2 Ra hal hdef hwt h1
    obtain ⟨x0, hx0⟩ := defBV_some env a hdef
    obtain ⟨⟨wr, br⟩, mr⟩ := zext_sound p1.1.si r (k + p1.1.si.bits) wa (ma x0 hx0).1.1 (by omega) h2
    refine ⟨?_, zeroExtend_nrm p1.1.si r (k + p1.1.si.bits) wa (ma x0 hx0).1.1 na (by omega) wr h2⟩
    refine ⟨⟨wr, by rw [br, ba]; rfl⟩, ?_⟩
    intro v hv0
    have hv := hv0
    simp only [evalBV] at hv
    refine ⟨mr v (ma v hv).1, ?_⟩
    dsimp only
    split
    · exact (ma v hv).2
    · exact hv0
  | .sext k a, o, av, o', R, hal, hdef, hwt, h => by
    simp only [convBV] at h
    obtain ⟨p1, h1, h⟩ := bind_ok _ _ _ h
    obtain ⟨r, h2, h⟩ := bind_ok _ _ _ h
    obtain ⟨keeps, h3, h⟩ := bind_ok _ _ _ h
    have := pure_ok _ _ h
    cases this
    have Ra : usesRestBV a = true → OpsRest := fun hh => R (by simp [usesRestBV, hh])
    obtain ⟨⟨⟨wa, ba⟩, ma⟩, na⟩ := convBV_rest_good anno env hctx hnrm a o p1.1 p1.2 Ra hal hdef hwt h1
    obtain ⟨x0, hx0⟩ := defBV_some env a hdef
    obtain ⟨⟨wr, br⟩, mr⟩ := sext_sound p1.1.si r (k + p1.1.si.bits) wa (ma x0 hx0).1.1 na (by omega) h2
    refine ⟨?_, sext_nrm p1.1.si r (k + p1.1.si.bits) wa (ma x0 hx0).1.1 na (by omega) wr h2⟩
    refine ⟨⟨wr, by rw [br, ba]; rfl⟩, ?_⟩
    intro v hv0
    have hv := hv0
    simp only [evalBV] at hv
    obtain ⟨x, hx, hv⟩ := obind_some _ _ _ hv
    cases hv
    refine ⟨by rw [← ba]; exact mr x (ma x hx).1, ?_⟩
    dsimp only
    cases keeps with
    | false => simp only [Bool.false_eq_true, if_false]; exact hv0
    | true =>
      simp only [if_true]
      have hsame := sextKeeps_sound p1.1.si k x wa h3 (ma x hx).1
      rw [← ba, hsame]
      exact (ma x hx).2
  | .extract hi lo a, o, av, o', R, hal, hdef, hwt, h => by
    simp only [convBV] at h
    obtain ⟨p1, h1, h⟩ := bind_ok _ _ _ h
    obtain ⟨r, h2, h⟩ := bind_ok _ _ _ h
    have := pure_ok _ _ h
    cases this
    have Ra : usesRestBV a = true → OpsRest := fun hh => R (by simp [usesRestBV, hh])
    obtain ⟨⟨⟨wa, ba⟩, ma⟩, na⟩ := convBV_rest_good anno env hctx hnrm a o p1.1 p1.2 Ra hal hdef hwt.1 h1
    obtain ⟨x0, hx0⟩ := defBV_some env a hdef
    obtain ⟨⟨wr, br⟩, mr⟩ := extract_sound p1.1.si r hi lo wa (ma x0 hx0).1.1 hwt.2.1 (by rw [ba]; exact hwt.2.2) h2
    refine ⟨?_, extract_nrm p1.1.si r hi lo wr h2⟩
    refine ⟨⟨wr, by rw [br]; rfl⟩, ?_⟩
    intro v hv0
    have hv := hv0
    simp only [evalBV] at hv
    obtain ⟨x, hx, hv⟩ := obind_some _ _ _ hv
    cases hv
    refine ⟨mr x (ma x hx).1, ?_⟩
    dsimp only
    split
    · rename_i hk
      have hk' : lo = 0 ∧ hi + 1 - lo = p1.1.si.bits := by simpa [extractKeeps] using hk
      have hxlt : x < 2 ^ p1.1.si.bits := (ma x hx).1.2.1
      have : Conc.extract hi lo x = x := by
        unfold Conc.extract
        rw [hk'.1, Nat.shiftRight_zero]
        have : hi + 1 - 0 = p1.1.si.bits := by rw [← hk'.1]; exact hk'.2
        rw [this, Nat.mod_eq_of_lt hxlt]
      rw [this]
      exact (ma x hx).2
    · exact hv0
  | .concat a b, o, av, o', R, hal, hdef, hwt, h => by
    simp only [convBV] at h
    obtain ⟨p1, h1, h⟩ := bind_ok _ _ _ h
    obtain ⟨p2, h2, h⟩ := bind_ok _ _ _ h
    obtain ⟨r, h3, h⟩ := bind_ok _ _ _ h
    have := pure_ok _ _ h
    cases this
    have Ra : usesRestBV a = true → OpsRest := fun hh => R (by simp [usesRestBV, hh])
    have Rb : usesRestBV b = true → OpsRest := fun hh => R (by simp [usesRestBV, hh])
    obtain ⟨⟨⟨wa, ba⟩, ma⟩, na⟩ := convBV_rest_good anno env hctx hnrm a o p1.1 p1.2 Ra hal.1 hdef.1 hwt.1 h1
    obtain ⟨⟨⟨wb, bb⟩, mb⟩, nb⟩ := convBV_rest_good anno env hctx hnrm b p1.2 p2.1 p2.2 Rb (hal.2 p1 h1) hdef.2 hwt.2 h2
    obtain ⟨x0, hx0⟩ := defBV_some env a hdef.1
    obtain ⟨y0, hy0⟩ := defBV_some env b hdef.2
    obtain ⟨⟨⟨wr, br⟩, nr'⟩, mr⟩ := concat_sound p1.1.si p2.1.si r wa wb (ma x0 hx0).1.1 (mb y0 hy0).1.1 h3
    have nr := nr' nb
    refine ⟨?_, nr⟩
    refine ⟨⟨wr, by rw [br, ba, bb]; rfl⟩, ?_⟩
    intro v hv0
    have hv := hv0
    simp only [evalBV] at hv
    obtain ⟨x, hx, hv⟩ := obind_some _ _ _ hv
    obtain ⟨y, hy, hv⟩ := obind_some _ _ _ hv
    cases hv
    exact ⟨by rw [← bb]; exact mr x y (ma x hx).1 (mb y hy).1, hv0⟩
  | .ite c a b, o, av, o', R, hal, hdef, hwt, h => by
    simp only [convBV] at h
    obtain ⟨pc, hc, h⟩ := bind_ok _ _ _ h
    obtain ⟨p1, h1, h⟩ := bind_ok _ _ _ h
    obtain ⟨p2, h2, h⟩ := bind_ok _ _ _ h
    obtain ⟨r, h3, h⟩ := bind_ok _ _ _ h
    have := pure_ok _ _ h
    cases this
    have Rc : usesRestB c = true → OpsRest := fun hh => R (by simp [usesRestBV, hh])
    have Ra : usesRestBV a = true → OpsRest := fun hh => R (by simp [usesRestBV, hh])
    have Rb : usesRestBV b = true → OpsRest := fun hh => R (by simp [usesRestBV, hh])
    have gc := convB_rest_good anno env hctx hnrm c o pc.1 pc.2 Rc hal.1 hdef.1 hwt.1 hc
    obtain ⟨⟨⟨wa, ba⟩, ma⟩, na⟩ := convBV_rest_good anno env hctx hnrm a pc.2 p1.1 p1.2 Ra (hal.2 pc hc).1 hdef.2.1 hwt.2.1 h1
    obtain ⟨⟨⟨wb, bb⟩, mb⟩, nb⟩ := convBV_rest_good anno env hctx hnrm b p1.2 p2.1 p2.2 Rb ((hal.2 pc hc).2 p1 h1) hdef.2.2 hwt.2.2.1 h2
    have hbits : p1.1.si.bits = p2.1.si.bits := by rw [ba, bb]; exact hwt.2.2.2
    unfold iteBV at h3
    by_cases hT : (!pc.1.hasTrue) = true
    · rw [if_pos hT] at h3
      have := pure_ok _ _ h3
      cases this
      refine ⟨?_, nb⟩
      refine ⟨⟨wb, by rw [bb]; exact hwt.2.2.2.symm⟩, ?_⟩
      intro v hv0
      have hv := hv0
      simp only [evalBV] at hv
      obtain ⟨cv, hcv, hv⟩ := obind_some _ _ _ hv
      have hh := gc cv hcv
      cases cv with
      | true => simp [BoolRes.has] at hh; simp [hh] at hT
      | false => simp only [Bool.false_eq_true, if_false] at hv; exact mb v hv
    · rw [if_neg hT] at h3
      by_cases hF : (!pc.1.hasFalse) = true
      · rw [if_pos hF] at h3
        have := pure_ok _ _ h3
        cases this
        refine ⟨?_, na⟩
        refine ⟨⟨wa, ba⟩, ?_⟩
        intro v hv0
        have hv := hv0
        simp only [evalBV] at hv
        obtain ⟨cv, hcv, hv⟩ := obind_some _ _ _ hv
        have hh := gc cv hcv
        cases cv with
        | false => simp [BoolRes.has] at hh; simp [hh] at hF
        | true => simp only [if_true] at hv; exact ma v hv
      · rw [if_neg hF] at h3
        obtain ⟨u, hu, h3⟩ := bind_ok _ _ _ h3
        have := pure_ok _ _ h3
        cases this
        obtain ⟨⟨wr, br⟩, mr⟩ := union_sup p1.1.si.bits p1.1.si p2.1.si u ⟨wa, rfl⟩ ⟨wb, hbits.symm⟩ hu
        have nu : Nrm u := by
          unfold SI.union leastUpperBound at hu
          have := pure_ok _ _ hu
          rw [this]; exact pseudoJoin_nrm _ _ true wa na nb
        refine ⟨?_, nu⟩
        refine ⟨⟨wr, by rw [br, ba]; rfl⟩, ?_⟩
        intro v hv0
        have hv := hv0
        simp only [evalBV] at hv
        obtain ⟨cv, hcv, hv⟩ := obind_some _ _ _ hv
        cases cv with
        | true =>
          simp only [if_true] at hv
          exact ⟨mr v (Or.inl (ma v hv).1),
            nameOK_join env p1.1 p2.1 _ true v (fun _ => ma v hv) (fun hh => by cases hh) hv0⟩
        | false =>
          simp only [Bool.false_eq_true, if_false] at hv
          exact ⟨mr v (Or.inr (mb v hv).1),
            nameOK_join env p1.1 p2.1 _ false v (fun hh => by cases hh) (fun _ => mb v hv) hv0⟩
/-- … and of `convB`. -/
theorem convB_rest_good (anno : Nat → SI) (env : Nat → Nat)
    (hctx : ∀ i, (anno i).WF ∧ (anno i).mem (env i)) (hnrm : ∀ i, Nrm (anno i)) :
    ∀ (c : BExp) (o : Orders) (br : BoolRes) (o' : Orders), (usesRestB c = true → OpsRest) → alB anno c o → DefB env c →
      WTB anno env c → convB anno c o = .ok (br, o') → GoodB env c br
  | .lit b, o, br, o', _, _, _, _, h => by
    simp only [convB] at h
    have := pure_ok _ _ h
    cases this
    intro b' hb'
    simp only [evalB] at hb'
    cases hb'
    cases b <;> rfl
  | .cmp op a b, o, br, o', R, hal, hdef, hwt, h => by
    simp only [convB] at h
    obtain ⟨p1, h1, h⟩ := bind_ok _ _ _ h
    obtain ⟨p2, h2, h⟩ := bind_ok _ _ _ h
    obtain ⟨r, h3, h⟩ := bind_ok _ _ _ h
    have := pure_ok _ _ h
    cases this
    have Ra : usesRestBV a = true → OpsRest := fun hh => R (by simp [usesRestB, hh])
    have Rb : usesRestBV b = true → OpsRest := fun hh => R (by simp [usesRestB, hh])
    obtain ⟨⟨⟨wa, ba⟩, ma⟩, na⟩ := convBV_rest_good anno env hctx hnrm a o p1.1 p1.2 Ra hal.1 hdef.1 hwt.1 h1
    obtain ⟨⟨⟨wb, bb⟩, mb⟩, nb⟩ := convBV_rest_good anno env hctx hnrm b p1.2 p2.1 p2.2 Rb (hal.2 p1 h1).1 hdef.2 hwt.2.1 h2
    have hbits : p1.1.si.bits = p2.1.si.bits := by rw [ba, bb]; exact hwt.2.2
    intro bv hbv
    simp only [evalB] at hbv
    obtain ⟨x, hx, hbv⟩ := obind_some _ _ _ hbv
    obtain ⟨y, hy, hbv⟩ := obind_some _ _ _ hbv
    cases hbv
    have hmx := (ma x hx).1
    have hmy := (mb y hy).1
    by_cases hrest : restCmp op = true
    · -- equality of values forced by names / singleton intervals, emptiness of the meet (aligned operands: `meet_sound`)
      obtain ⟨al1, al2⟩ := (hal.2 p1 h1).2 hrest p2 h2
      have heqN : ∀ rr, eqNamed p1.1 p2.1 = .ok rr → rr.has (decide (x = y)) = true := by
        intro rr hrr
        unfold eqNamed at hrr
        by_cases hint : (p1.1.si.isInteger && p2.1.si.isInteger) = true
        · rw [if_pos hint] at hrr
          have hi : p1.1.si.lb = p1.1.si.ub ∧ p2.1.si.lb = p2.1.si.ub := by simpa [SI.isInteger] using hint
          have ex := mem_integer _ x wa hi.1 hmx
          have ey := mem_integer _ y wb hi.2 hmy
          have := pure_ok _ _ hrr
          subst this
          by_cases hl : p1.1.si.lb = p2.1.si.lb
          · have : x = y := by omega
            simp [hl, this, BoolRes.has, BoolRes.hasTrue]
          · have : x ≠ y := by omega
            simp [hl, this, BoolRes.has, BoolRes.hasFalse]
        · rw [if_neg hint] at hrr
          by_cases hn : (p1.1.name.isSome && p1.1.name == p2.1.name) = true
          · rw [if_pos hn] at hrr
            have := pure_ok _ _ hrr
            subst this
            have hn' : p1.1.name.isSome = true ∧ p1.1.name = p2.1.name := by simpa using hn
            have : x = y := nameOK_eq env p1.1.name x y hn'.1 (ma x hx).2 (by rw [hn'.2]; exact (mb y hy).2)
            simp [this, BoolRes.has, BoolRes.hasTrue]
          · rw [if_neg hn] at hrr
            obtain ⟨m, hm, hrr⟩ := bind_ok _ _ _ hrr
            have := pure_ok _ _ hrr
            subst this
            by_cases hbot : m.bottom = true
            · rw [if_pos hbot]
              have : x ≠ y := by
                intro hxy
                subst hxy
                have := (meet_sound p1.1.si.bits p1.1.si p2.1.si m ⟨wa, rfl⟩ ⟨wb, hbits.symm⟩ hmx.1 hmy.1 al1 al2 na nb hm).2 x hmx hmy
                rw [this.1] at hbot; cases hbot
              simp [this, BoolRes.has, BoolRes.hasFalse]
            · rw [if_neg hbot]; exact has_of_m _
      by_cases he : op = .eq
      · subst he
        rw [← ba]
        simp only [applyCmp] at h3
        simpa [concCmp] using heqN br h3
      · by_cases hne : op = .ne
        · subst hne
          simp only [applyCmp] at h3
          obtain ⟨rr, hrr, h3⟩ := bind_ok _ _ _ h3
          have := pure_ok _ _ h3
          subst this
          have := brNot_has rr _ (heqN rr hrr)
          simpa [concCmp] using this
        · exfalso; cases op <;> simp_all [restCmp]
    · rw [← ba]
      by_cases hsg : signedCmp op = true
      · have hs : op = .slt ∨ op = .sle ∨ op = .sgt ∨ op = .sge := by cases op <;> simp_all [signedCmp]
        exact scmp_sound op hs p1.1 p2.1 br wa wb hbits na nb h3 x y hmx hmy
      · have hu : op = .ult ∨ op = .ule ∨ op = .ugt ∨ op = .uge := by cases op <;> simp_all [restCmp, signedCmp]
        exact ucmp_sound op hu p1.1 p2.1 br wa wb h3 x y hmx hmy
  | .not c, o, br, o', R, hal, hdef, hwt, h => by
    simp only [convB] at h
    obtain ⟨p, h1, h⟩ := bind_ok _ _ _ h
    have := pure_ok _ _ h
    cases this
    have Rc : usesRestB c = true → OpsRest := fun hh => R (by simp [usesRestB, hh])
    have gc := convB_rest_good anno env hctx hnrm c o p.1 p.2 Rc hal hdef hwt h1
    intro b hb
    simp only [evalB] at hb
    obtain ⟨b0, hb0, hb⟩ := obind_some _ _ _ hb
    cases hb
    exact brNot_has _ _ (gc b0 hb0)
  | .and c d, o, br, o', R, hal, hdef, hwt, h => by
    simp only [convB] at h
    obtain ⟨p, h1, h⟩ := bind_ok _ _ _ h
    obtain ⟨q, h2, h⟩ := bind_ok _ _ _ h
    have := pure_ok _ _ h
    cases this
    have Rc : usesRestB c = true → OpsRest := fun hh => R (by simp [usesRestB, hh])
    have Rd : usesRestB d = true → OpsRest := fun hh => R (by simp [usesRestB, hh])
    have gc := convB_rest_good anno env hctx hnrm c o p.1 p.2 Rc hal.1 hdef.1 hwt.1 h1
    have gd := convB_rest_good anno env hctx hnrm d p.2 q.1 q.2 Rd (hal.2 p h1) hdef.2 hwt.2 h2
    intro b hb
    simp only [evalB] at hb
    obtain ⟨b0, hb0, hb⟩ := obind_some _ _ _ hb
    obtain ⟨b1, hb1, hb⟩ := obind_some _ _ _ hb
    cases hb
    exact brAnd_has _ _ _ _ (gc b0 hb0) (gd b1 hb1)
  | .or c d, o, br, o', R, hal, hdef, hwt, h => by
    simp only [convB] at h
    obtain ⟨p, h1, h⟩ := bind_ok _ _ _ h
    obtain ⟨q, h2, h⟩ := bind_ok _ _ _ h
    have := pure_ok _ _ h
    cases this
    have Rc : usesRestB c = true → OpsRest := fun hh => R (by simp [usesRestB, hh])
    have Rd : usesRestB d = true → OpsRest := fun hh => R (by simp [usesRestB, hh])
    have gc := convB_rest_good anno env hctx hnrm c o p.1 p.2 Rc hal.1 hdef.1 hwt.1 h1
    have gd := convB_rest_good anno env hctx hnrm d p.2 q.1 q.2 Rd (hal.2 p h1) hdef.2 hwt.2 h2
    intro b hb
    simp only [evalB] at hb
    obtain ⟨b0, hb0, hb⟩ := obind_some _ _ _ hb
    obtain ⟨b1, hb1, hb⟩ := obind_some _ _ _ hb
    cases hb
    exact brOr_has _ _ _ _ (gc b0 hb0) (gd b1 hb1)
  | .ite c a b, o, br, o', R, hal, hdef, hwt, h => by
    simp only [convB] at h
    obtain ⟨pc, hc, h⟩ := bind_ok _ _ _ h
    obtain ⟨p, h1, h⟩ := bind_ok _ _ _ h
    obtain ⟨q, h2, h⟩ := bind_ok _ _ _ h
    have := pure_ok _ _ h
    cases this
    have Rc : usesRestB c = true → OpsRest := fun hh => R (by simp [usesRestB, hh])
    have Ra : usesRestB a = true → OpsRest := fun hh => R (by simp [usesRestB, hh])
    have Rb : usesRestB b = true → OpsRest := fun hh => R (by simp [usesRestB, hh])
    have gc := convB_rest_good anno env hctx hnrm c o pc.1 pc.2 Rc hal.1 hdef.1 hwt.1 hc
    have ga := convB_rest_good anno env hctx hnrm a pc.2 p.1 p.2 Ra (hal.2 pc hc).1 hdef.2.1 hwt.2.1 h1
    have gb := convB_rest_good anno env hctx hnrm b p.2 q.1 q.2 Rb ((hal.2 pc hc).2 p h1) hdef.2.2 hwt.2.2 h2
    intro bv hbv
    simp only [evalB] at hbv
    obtain ⟨cv, hcv, hbv⟩ := obind_some _ _ _ hbv
    apply iteB_has _ _ _ cv bv (gc cv hcv)
    cases cv with
    | true => simp only [if_true] at hbv ⊢; exact ga bv hbv
    | false => simp only [Bool.false_eq_true, if_false] at hbv ⊢; exact gb bv hbv
end

end Claripy.VSA
