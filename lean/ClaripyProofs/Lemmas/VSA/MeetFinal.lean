import ClaripyProofs.Lemmas.VSA.MeetTop
import ClaripyProofs.Lemmas.VSA.Members
/-! `_multi_valued_intersection` with singleton operands, `intersection`, and `eq`. -/
namespace Claripy.VSA

/-- the meet of a singleton `s` with a proper interval `b` -/
theorem multiMeet_int_left (s b : SI) (hsb : s.bottom = false) (hbb : b.bottom = false) (hbits : s.bits = b.bits)
    (hs : s.lb = s.ub) (hb : b.lb ≠ b.ub) (hz : b.stride ≠ 0) :
    s.multiMeet b = .ok [if modSub s.lb b.lb s.bits % b.stride = 0 ∧ b.surroundsMember s.lb = true
      then SI.new s.bits 0 s.lb s.lb else SI.empty s.bits] := by
  unfold SI.multiMeet
  simp only [hsb, hbb, Bool.or_self, Bool.false_eq_true, if_false, hbits, ne_eq, not_true_eq_false]
  have h1 : s.isInteger = true := by simp [SI.isInteger, hs]
  have h2 : b.isInteger = false := by simp [SI.isInteger, hb]
  simp only [h1, h2, Bool.and_false, Bool.false_eq_true, if_false, if_true, hz]
  split <;> rfl

/-- **`_multi_valued_intersection`** on aligned operands in constructor-normal form: well-formed results that together
contain every common member -/
theorem multiMeet_sound (w : Nat) (s b : SI) (hs : WFw w s) (hb : WFw w b) (hsb : s.bottom = false)
    (hbb : b.bottom = false) (hsA : s.Aligned) (hbA : b.Aligned) (ns : Nrm s) (nb : Nrm b)
    (l : List SI) (h : s.multiMeet b = .ok l) :
    (∀ r, r ∈ l → WFw w r) ∧ ∀ x, s.mem x → b.mem x → ∃ r, r ∈ l ∧ r.mem x := by
  have hw0 : 0 < w := by rw [← hs.2]; exact hs.1.1
  have hbits : s.bits = b.bits := by rw [hs.2, hb.2]
  have hsl := hs.1.2.1; have hbl := hb.1.2.1
  rw [hs.2] at hsl
  rw [hb.2] at hbl
  -- a single result that is the constant `v` or empty
  have konst : ∀ (c : Prop) [Decidable c] (v : Nat), v < 2 ^ w →
      (∀ x, s.mem x → b.mem x → c ∧ x = v) →
      l = [if c then SI.new w 0 (v : Int) (v : Int) else SI.empty w] →
      (∀ r, r ∈ l → WFw w r) ∧ ∀ x, s.mem x → b.mem x → ∃ r, r ∈ l ∧ r.mem x := by
    intro c _ v hv hc hl
    subst hl
    refine ⟨?_, ?_⟩
    · intro r hr
      rw [List.mem_singleton] at hr
      subst hr
      split
      · exact ⟨const_WF v w hw0, new_bits _ _ _ _⟩
      · exact empty_WFw w hw0
    · intro x hx hy
      obtain ⟨h1, h2⟩ := hc x hx hy
      refine ⟨_, List.mem_cons_self, ?_⟩
      rw [if_pos h1, h2]
      exact const_mem v w hv
  by_cases hsi : s.lb = s.ub
  · by_cases hbi : b.lb = b.ub
    · rw [multiMeet_int_int s b hsb hbb hbits hsi hbi, hs.2] at h
      have hl : l = _ := (Except.ok.inj h).symm
      apply konst (s.lb = b.lb) s.lb hsl _ hl
      intro x hx hy
      have e1 := mem_integer s x hs.1 hsi hx
      have e2 := mem_integer b x hb.1 hbi hy
      exact ⟨by omega, e1⟩
    · have hbs : b.stride ≠ 0 := fun h0 => hbi (hb.1.2.2.2.1 h0)
      rw [multiMeet_int_left s b hsb hbb hbits hsi hbi hbs, hs.2] at h
      have hl : l = _ := (Except.ok.inj h).symm
      apply konst _ s.lb hsl _ hl
      intro x hx hy
      have e1 := mem_integer s x hs.1 hsi hx
      rw [e1] at hy
      obtain ⟨_, h2, h3⟩ := arc_facts w b s.lb hb hy
      refine ⟨⟨?_, ?_⟩, e1⟩
      · rw [modSub_nat _ _ _ hsl hbl]
        exact Nat.mod_eq_zero_of_dvd h3
      · exact (surrounds_sur b s.lb hb.1 (by rw [hb.2]; exact hsl)).2 (by unfold sur; rw [hb.2]; exact h2)
  · by_cases hbi : b.lb = b.ub
    · have hss : s.stride ≠ 0 := fun h0 => hsi (hs.1.2.2.2.1 h0)
      rw [multiMeet_int s b hsb hbb hbits hsi hss hbi, hs.2] at h
      have hl : l = _ := (Except.ok.inj h).symm
      apply konst _ b.lb hbl _ hl
      intro x hx hy
      have e1 := mem_integer b x hb.1 hbi hy
      rw [e1] at hx
      obtain ⟨_, h2, h3⟩ := arc_facts w s b.lb hs hx
      refine ⟨⟨?_, ?_⟩, e1⟩
      · rw [modSub_nat _ _ _ hbl hsl]
        exact Nat.mod_eq_zero_of_dvd h3
      · exact (surrounds_sur s b.lb hs.1 (by rw [hs.2]; exact hbl)).2 (by unfold sur; rw [hs.2]; exact h2)
    · exact multiMeet_proper_sound w s b hs hb hsb hbb hsA hbA ns nb hsi hbi l h

/-- **`intersection` is sound on aligned operands** (in constructor-normal form): closed, and the result contains every
common member -/
theorem meet_sound (w : Nat) (s b r : SI) (hs : WFw w s) (hb : WFw w b) (hsb : s.bottom = false)
    (hbb : b.bottom = false) (hsA : s.Aligned) (hbA : b.Aligned) (ns : Nrm s) (nb : Nrm b)
    (h : s.intersection b = .ok r) : WFw w r ∧ ∀ x, s.mem x → b.mem x → r.mem x := by
  unfold SI.intersection at h
  obtain ⟨l, hl, h⟩ := bind_ok' h
  obtain ⟨g1, g2⟩ := multiMeet_sound w s b hs hb hsb hbb hsA hbA ns nb l hl
  match l, g1, g2, h with
  | [], _, _, h => cases h
  | [v], g1, g2, h =>
    have hr := pure_ok' h
    subst hr
    refine ⟨g1 _ List.mem_cons_self, ?_⟩
    intro x hx hy
    obtain ⟨r', hr', hm⟩ := g2 x hx hy
    have : r' = r := by simpa using hr'
    subst this; exact hm
  | [v, u], g1, g2, h =>
    have hr := pure_ok' h
    subst hr
    have hv := g1 v List.mem_cons_self
    have hu := g1 u (List.mem_cons_of_mem _ List.mem_cons_self)
    obtain ⟨j1, j2⟩ := pseudoJoin_ok w v u hv hu true
    refine ⟨j1, ?_⟩
    intro x hx hy
    obtain ⟨r', hr', hm⟩ := g2 x hx hy
    rcases List.mem_cons.1 hr' with he | he
    · subst he; exact j2 x (Or.inl hm)
    · have : r' = u := by simpa using he
      subst this; exact j2 x (Or.inr hm)
  | _ :: _ :: _ :: _, _, _, h => cases h

end Claripy.VSA
