import ClaripyProofs.Lemmas.VSA.SextSound
import ClaripyProofs.Lemmas.VSA.ZextBounds
/-! `_psplit` (split at both poles): the `for` loop as a structural recursion, and what the pieces guarantee — well
formed, not empty, not wrapping, inside one half of the circle (all members have the sign bit of the lower bound),
stride 0 or the original stride, covering the members. -/
namespace Claripy.VSA

/-- the loop of `_psplit` -/
def ssplitAll : List SI → List SI → R (List SI)
  | [], acc => pure acc
  | p :: ps, acc => match p.ssplit with
    | .error e => .error e
    | .ok l => ssplitAll ps (acc ++ l)

theorem psplit_loop (ns : List SI) : ∀ acc : List SI,
    (forIn ns acc (fun si r => (do let x ← si.ssplit; pure (ForInStep.yield (r ++ x)) : R _))) = ssplitAll ns acc := by
  induction ns with
  | nil => intro acc; rfl
  | cons p ps ih =>
    intro acc
    rw [List.forIn_cons]
    unfold ssplitAll
    cases h : p.ssplit with
    | error e => rfl
    | ok l => simp only [bind, Except.bind, pure, Except.pure]; exact ih _

theorem psplit_eq (s : SI) : s.psplit = s.nsplit >>= fun ns => ssplitAll ns [] := by
  unfold SI.psplit
  congr
  funext ns
  rw [← psplit_loop ns []]
  simp

/-- if every element splits, the loop returns the accumulated pieces: each result piece comes from the accumulator or
from the split of some element, and all of those are in the result -/
theorem ssplitAll_spec (P : SI → Prop) (hP : ∀ p, P p → ∃ l, p.ssplit = .ok l) :
    ∀ (ns acc : List SI), (∀ p, p ∈ ns → P p) →
      ∃ out, ssplitAll ns acc = .ok out ∧
        (∀ q, q ∈ out ↔ (q ∈ acc ∨ ∃ p l, p ∈ ns ∧ p.ssplit = .ok l ∧ q ∈ l)) := by
  intro ns
  induction ns with
  | nil =>
    intro acc _
    refine ⟨acc, rfl, ?_⟩
    intro q
    constructor
    · exact fun h => Or.inl h
    · rintro (h | ⟨p, l, hp, _⟩)
      · exact h
      · cases hp
  | cons p ps ih =>
    intro acc hall
    obtain ⟨l, hl⟩ := hP p (hall p List.mem_cons_self)
    obtain ⟨out, ho, hout⟩ := ih (acc ++ l) (fun q hq => hall q (List.mem_cons_of_mem _ hq))
    refine ⟨out, ?_, ?_⟩
    · unfold ssplitAll; rw [hl]; exact ho
    · intro q
      rw [hout q]
      constructor
      · rintro (h | ⟨p', l', hp', hl', hq⟩)
        · rcases List.mem_append.1 h with h | h
          · exact Or.inl h
          · exact Or.inr ⟨p, l, List.mem_cons_self, hl, h⟩
        · exact Or.inr ⟨p', l', List.mem_cons_of_mem _ hp', hl', hq⟩
      · rintro (h | ⟨p', l', hp', hl', hq⟩)
        · exact Or.inl (List.mem_append.2 (Or.inl h))
        · rcases List.mem_cons.1 hp' with h | h
          · subst h
            rw [hl] at hl'
            cases hl'
            exact Or.inl (List.mem_append.2 (Or.inr hq))
          · exact Or.inr ⟨p', l', h, hl', hq⟩

/-- the pieces `_ssplit` makes of an interval that does not cross the north pole stay inside one half -/
theorem ssplit_halves (p : SI) (hw : p.WF) (hns : ¬ Str (2 ^ (p.bits - 1)) p.lb p.ub) (l : List SI)
    (hl : p.ssplit = .ok l) : ∀ q, q ∈ l → q.ub < 2 ^ (p.bits - 1) ∨ 2 ^ (p.bits - 1) ≤ q.lb := by
  have hwf := hw
  obtain ⟨h0, hlb, hub, hst⟩ := hw
  have hm2 := two_pow_half p.bits h0
  have hH := two_pow_pos' (p.bits - 1)
  unfold Str at hns
  by_cases hwrap : p.ub < p.lb
  · have hsp := ssplit_wrap p hwf hwrap
    simp only [] at hsp
    rw [hsp] at hl
    have hsne : p.stride ≠ 0 := by intro h; have := hst.1 h; omega
    have hspos : 0 < p.stride := Nat.pos_of_ne_zero hsne
    generalize hK : (2 ^ p.bits - 1 - p.lb) - (2 ^ p.bits - 1 - p.lb) % p.stride = K at hl
    have hK3 : K ≤ 2 ^ p.bits - 1 - p.lb := by rw [← hK]; exact Nat.sub_le _ _
    have hK2 : 2 ^ p.bits - 1 - p.lb < K + p.stride := by
      have := Nat.mod_lt (2 ^ p.bits - 1 - p.lb) hspos
      have := Nat.mod_le (2 ^ p.bits - 1 - p.lb) p.stride
      omega
    have hlk : p.lb + K < 2 ^ p.bits := by omega
    have hpl : 2 ^ (p.bits - 1) ≤ p.lb ∧ p.ub < 2 ^ (p.bits - 1) := by split_ifs at hns <;> omega
    have hA := new_bounds p.bits p.stride p.lb (p.lb + K) hlb hlk (by
      rintro ⟨h1, _⟩
      rw [succ_mod_cases _ _ hlk] at h1
      split_ifs at h1 <;> omega)
    by_cases hbr : K + p.stride > cd (2 ^ p.bits) p.lb p.ub
    · rw [if_pos hbr] at hl
      intro q hq
      have : q = SI.new p.bits p.stride (p.lb : Int) ((p.lb + K : Nat) : Int) := by cases hl; simpa using hq
      subst this
      right; rw [hA.1]; exact hpl.1
    · rw [if_neg hbr] at hl
      have hcd : cd (2 ^ p.bits) p.lb p.ub = p.ub + 2 ^ p.bits - p.lb := by unfold cd; split_ifs <;> omega
      have hbL : (p.lb + K + p.stride) % 2 ^ p.bits = p.lb + K + p.stride - 2 ^ p.bits := by
        have : p.lb + K + p.stride = (p.lb + K + p.stride - 2 ^ p.bits) + 2 ^ p.bits := by omega
        rw [this, Nat.add_mod_right, Nat.mod_eq_of_lt (by omega)]
        omega
      rw [hbL] at hl
      have hbLlt : p.lb + K + p.stride - 2 ^ p.bits < 2 ^ p.bits := by omega
      have hB := new_bounds p.bits p.stride (p.lb + K + p.stride - 2 ^ p.bits) p.ub hbLlt hub (by
        rintro ⟨h1, _⟩
        rw [succ_mod_cases _ _ hub] at h1
        split_ifs at h1 <;> omega)
      intro q hq
      have hq' : q = SI.new p.bits p.stride (p.lb : Int) ((p.lb + K : Nat) : Int) ∨
          q = SI.new p.bits p.stride ((p.lb + K + p.stride - 2 ^ p.bits : Nat) : Int) (p.ub : Int) := by
        cases hl; simpa using hq
      rcases hq' with h | h
      · subst h; right; rw [hA.1]; exact hpl.1
      · subst h; left; rw [hB.2]; exact hpl.2
  · have hsp : p.ssplit = .ok [p.renorm] := by unfold SI.ssplit; rw [if_neg hwrap]; rfl
    rw [hsp] at hl
    intro q hq
    have : q = p.renorm := by cases hl; simpa using hq
    subst this
    have hb : (p.renorm.lb = p.lb ∧ p.renorm.ub = p.ub) := by
      unfold SI.renorm
      split
      · exact ⟨rfl, rfl⟩
      · rw [new_eq, imod_of_lt _ _ hlb, imod_of_lt _ _ hub]
        split
        · exact ⟨rfl, rfl⟩
        · split
          · rename_i h1 h2
            rw [succ_mod_cases _ _ hub] at h2
            have hm := two_pow_pos' p.bits
            refine ⟨?_, ?_⟩
            · show 0 = p.lb; split_ifs at h2 <;> omega
            · show 2 ^ p.bits - 1 = p.ub; split_ifs at h2 <;> omega
          · exact ⟨rfl, rfl⟩
    rw [hb.1, hb.2]
    split_ifs at hns <;> omega

/-- the strides of the pieces of `_nsplit` -/
theorem nsplit_stride (s : SI) (ps : List SI) (h : s.nsplit = .ok ps) :
    ∀ p, p ∈ ps → p.stride = 0 ∨ p.stride = s.stride := by
  unfold SI.nsplit at h
  simp only [] at h
  have hren : s.renorm.stride = 0 ∨ s.renorm.stride = s.stride := by
    unfold SI.renorm; split
    · right; rfl
    · exact new_stride_dvd _ _ _ _
  have hmem : ∀ (l : List SI), (∀ q, q ∈ l → q = s.renorm ∨ ∃ lo hi, q = SI.new s.bits s.stride lo hi) →
      ∀ p, p ∈ l → p.stride = 0 ∨ p.stride = s.stride := by
    intro l hl p hp
    rcases hl p hp with h1 | ⟨lo, hi, h1⟩
    · rw [h1]; exact hren
    · rw [h1]; exact new_stride_dvd _ _ _ _
  split_ifs at h
  all_goals first
    | (cases h; done)
    | (have hps := ok_pure _ _ h
       subst hps
       apply hmem
       intro q hq
       simp only [List.mem_cons, List.not_mem_nil, or_false] at hq
       rcases hq with h1 | h1
       · first | (left; exact h1) | (right; exact ⟨_, _, h1⟩)
       · first | (left; exact h1) | (right; exact ⟨_, _, h1⟩))
    | (have hps := ok_pure _ _ h
       subst hps
       apply hmem
       intro q hq
       simp only [List.mem_cons, List.not_mem_nil, or_false] at hq
       first | (left; exact hq) | (right; exact ⟨_, _, hq⟩))

/-- the pieces of `_ssplit` are in constructor-normal form -/
theorem ssplit_nrm (p : SI) (hw : p.WF) (l : List SI) (hl : p.ssplit = .ok l) : ∀ q, q ∈ l → Nrm q := by
  by_cases hwrap : p.ub < p.lb
  · obtain ⟨A, hsh, hAr, _, _⟩ := ssplit_wrap_shape p hw hwrap
    rcases hsh with h1 | ⟨B, h2, hBr, _, _⟩
    · rw [h1] at hl; cases hl
      intro q hq
      have : q = A := by simpa using hq
      subst this; exact hAr
    · rw [h2] at hl; cases hl
      intro q hq
      rcases List.mem_cons.1 hq with h | h
      · subst h; exact hAr
      · have : q = B := by simpa using h
        subst this; exact hBr
  · have hsp : p.ssplit = .ok [p.renorm] := by unfold SI.ssplit; rw [if_neg hwrap]; rfl
    rw [hsp] at hl; cases hl
    intro q hq
    have : q = p.renorm := by simpa using hq
    subst this
    exact nrm_of_renorm p _ rfl (renorm_WFw _ p ⟨hw, rfl⟩).1

/-- **`_psplit`**: the pieces are well formed, not empty, do not wrap, lie in one half of the circle, have stride 0 or
the stride of the interval, and cover its members -/
theorem psplit_spec (s : SI) (hw : s.WF) (hnb : s.bottom = false) (hn : s.renorm = s) :
    ∃ ps, s.psplit = .ok ps ∧
      (∀ q, q ∈ ps → WFw s.bits q ∧ q.bottom = false ∧ q.lb ≤ q.ub ∧
        (q.ub < 2 ^ (s.bits - 1) ∨ 2 ^ (s.bits - 1) ≤ q.lb) ∧ (q.stride = 0 ∨ q.stride = s.stride) ∧ Nrm q) ∧
      (∀ x, s.mem x → ∃ q, q ∈ ps ∧ q.mem x) := by
  obtain ⟨ns, hns, hnp, hncov⟩ := nsplit_cover s hw hnb hn
  have hnst := nsplit_stride s ns hns
  obtain ⟨out, ho, hout⟩ := ssplitAll_spec (fun p => p.WF ∧ p.bottom = false)
    (fun p hp => by obtain ⟨l, hl, _⟩ := ssplit_spec p hp.1 hp.2; exact ⟨l, hl⟩) ns []
    (fun p hp => ⟨(hnp p hp).1.1, (hnp p hp).2.1⟩)
  refine ⟨out, ?_, ?_, ?_⟩
  · rw [psplit_eq, hns]; exact ho
  · intro q hq
    rcases (hout q).1 hq with h | ⟨p, l, hp, hl, hql⟩
    · cases h
    · obtain ⟨⟨pw, pb⟩, pnb, pns⟩ := hnp p hp
      obtain ⟨l', hl', hprop, _, _⟩ := ssplit_spec p pw pnb
      rw [hl] at hl'; cases hl'
      obtain ⟨qw, qnb, qle, qst⟩ := hprop q hql
      rw [pb] at qw
      rw [← pb] at pns
      have hh := ssplit_halves p pw pns l hl q hql
      rw [pb] at hh
      refine ⟨qw, qnb, qle, hh, ?_, ssplit_nrm p pw l hl q hql⟩
      rcases qst with h | h
      · left; exact h
      · rcases hnst p hp with h' | h'
        · left; rw [h, h']
        · right; rw [h, h']
  · intro x hx
    obtain ⟨p, hp, hpx⟩ := hncov x hx
    obtain ⟨⟨pw, pb⟩, pnb, pns⟩ := hnp p hp
    obtain ⟨l, hl, _, hcov, _⟩ := ssplit_spec p pw pnb
    obtain ⟨q, hq, hqx⟩ := hcov x hpx
    exact ⟨q, (hout q).2 (Or.inr ⟨p, l, hp, hl, hq⟩), hqx⟩

end Claripy.VSA
