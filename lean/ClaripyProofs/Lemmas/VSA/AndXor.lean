import ClaripyProofs.Lemmas.VSA.OrSound
import ClaripyProofs.Lemmas.VSA.Psplit
import ClaripyProofs.Lemmas.VSA.NormalForm
import ClaripyProofs.Lemmas.VSA.Convert
/-! `bitwise_and` (sign-bit shortcut, then De Morgan through `bitwise_or`) and `bitwise_xor`
(`(x & ~y) | (~x & y)` through `bitwise_or`/`bitwise_not`) are sound and closed. -/
namespace Claripy.VSA

/-! ### the Boolean identities on naturals below `2^w` -/

theorem compl_testBit (w z i : Nat) (hz : z < 2 ^ w) : (2 ^ w - 1 - z).testBit i = (decide (i < w) && !z.testBit i) := by
  have : 2 ^ w - 1 - z = 2 ^ w - (z + 1) := by omega
  rw [this]
  exact Nat.testBit_two_pow_sub_succ hz i

theorem testBit_high (w z i : Nat) (hz : z < 2 ^ w) (hi : w ≤ i) : z.testBit i = false :=
  Nat.testBit_lt_two_pow (Nat.lt_of_lt_of_le hz (Nat.pow_le_pow_right (by omega) hi))

theorem compl_lt (w z : Nat) : 2 ^ w - 1 - z < 2 ^ w := by
  have := two_pow_pos' w
  omega

/-- De Morgan: `x & y = ~(~x | ~y)` -/
theorem and_demorgan (w x y : Nat) (hx : x < 2 ^ w) (hy : y < 2 ^ w) :
    x &&& y = 2 ^ w - 1 - ((2 ^ w - 1 - x) ||| (2 ^ w - 1 - y)) := by
  apply Nat.eq_of_testBit_eq
  intro i
  rw [compl_testBit w _ i (Nat.or_lt_two_pow (compl_lt w x) (compl_lt w y)), Nat.testBit_or, Nat.testBit_and,
    compl_testBit w x i hx, compl_testBit w y i hy]
  by_cases hi : i < w
  · simp [hi]
  · simp [hi, testBit_high w x i hx (by omega)]

/-- `x ^ y = ~(~x | y) | ~(x | ~y)` -/
theorem xor_via_or (w x y : Nat) (hx : x < 2 ^ w) (hy : y < 2 ^ w) :
    x ^^^ y = (2 ^ w - 1 - ((2 ^ w - 1 - x) ||| y)) ||| (2 ^ w - 1 - (x ||| (2 ^ w - 1 - y))) := by
  apply Nat.eq_of_testBit_eq
  intro i
  rw [Nat.testBit_or, compl_testBit w _ i (Nat.or_lt_two_pow (compl_lt w x) hy),
    compl_testBit w _ i (Nat.or_lt_two_pow hx (compl_lt w y)), Nat.testBit_or, Nat.testBit_or, Nat.testBit_xor,
    compl_testBit w x i hx, compl_testBit w y i hy]
  by_cases hi : i < w
  · simp [hi]
    cases x.testBit i <;> cases y.testBit i <;> rfl
  · simp [hi, testBit_high w x i hx (by omega), testBit_high w y i hy (by omega)]

/-- and-ing with the sign bit -/
theorem and_signbit (w y : Nat) (hw : 0 < w) (hy : y < 2 ^ w) :
    2 ^ (w - 1) &&& y = if 2 ^ (w - 1) ≤ y then 2 ^ (w - 1) else 0 := by
  have hm2 := two_pow_half w hw
  have hH := two_pow_pos' (w - 1)
  apply Nat.eq_of_testBit_eq
  intro i
  rw [Nat.testBit_and, Nat.testBit_two_pow]
  by_cases hi : w - 1 = i
  · subst hi
    split_ifs with h
    · have : y.testBit (w - 1) = true := by
        rw [testBit_iff]
        have : y / 2 ^ (w - 1) = 1 := by
          apply Nat.div_eq_of_lt_le <;> omega
        rw [this]
      simp [this]
    · simp [Nat.testBit_lt_two_pow (show y < 2 ^ (w - 1) by omega)]
  · split_ifs <;> simp [hi]

/-! ### the sign-bit shortcut of `bitwise_and` -/

/-- the local function `try1` of `bitwise_and` (`tb` = width of the second operand of `bitwise_and`) -/
def andTry (tb : Nat) (a b : SI) : R (Option SI) :=
  if a.isInteger && numberOfOnes a.lb == 1 && a.lb == 2 ^ (tb - 1) then do
    let stride : Nat := 2 ^ (a.bits - 1)
    let ps ← b.psplit
    let signs := ps.map fun p => getMsb p.lb p.bits
    if signs.all (· == 1) then return some (SI.new b.bits 0 stride stride)
    else if signs.all (· == 0) then return some (SI.new b.bits 0 0 0)
    else return some (SI.new b.bits stride 0 stride)
  else return none

theorem bitwiseAnd_eq (s t : SI) :
    s.bitwiseAnd t = (andTry t.bits s t >>= fun o1 =>
      match o1 with
      | some r => pure r
      | none => andTry t.bits t s >>= fun o2 =>
        match o2 with
        | some r => pure r
        | none => s.bitwiseNot >>= fun ns => t.bitwiseNot >>= fun nt => ns.bitwiseOr nt >>= fun o =>
          o.bitwiseNot >>= fun r => pure r.renorm) := rfl

theorem getMsb_one (v w : Nat) (hw : 0 < w) (hv : v < 2 ^ w) : getMsb (v : Int) w = 1 ↔ 2 ^ (w - 1) ≤ v := by
  unfold getMsb
  have := isMsbZero_iff v w hw hv
  by_cases h : isMsbZero (v : Int) w = true
  · rw [if_pos h]; have := this.1 h; constructor <;> intro _ <;> omega
  · rw [if_neg h]
    have : ¬ v < 2 ^ (w - 1) := fun hh => h (this.2 hh)
    constructor <;> intro _ <;> omega

theorem getMsb_zero (v w : Nat) (hw : 0 < w) (hv : v < 2 ^ w) : getMsb (v : Int) w = 0 ↔ v < 2 ^ (w - 1) := by
  unfold getMsb
  have := isMsbZero_iff v w hw hv
  by_cases h : isMsbZero (v : Int) w = true
  · rw [if_pos h]; have := this.1 h; constructor <;> intro _ <;> omega
  · rw [if_neg h]
    have : ¬ v < 2 ^ (w - 1) := fun hh => h (this.2 hh)
    constructor <;> intro _ <;> omega

/-- the shortcut is sound, closed and returns constructor-normal intervals -/
theorem andTry_spec (w : Nat) (a b r : SI) (ha : WFw w a) (hb : WFw w b) (hbb : b.bottom = false) (nb : Nrm b)
    (h : andTry w a b = .ok (some r)) :
    (WFw w r ∧ Nrm r) ∧ ∀ x y, a.mem x → b.mem y → r.mem (x &&& y) ∧ r.mem (y &&& x) := by
  have hw0 : 0 < w := by rw [← ha.2]; exact ha.1.1
  have hm2 := two_pow_half w hw0
  have hH := two_pow_pos' (w - 1)
  unfold andTry at h
  split at h
  · rename_i hc
    have hc' : (a.lb = a.ub ∧ numberOfOnes a.lb = 1) ∧ a.lb = 2 ^ (w - 1) := by simpa [SI.isInteger] using hc
    obtain ⟨ps, hps, hprop, hcov⟩ := psplit_spec b hb.1 hbb nb
    rw [hb.2] at hprop
    rw [hps] at h
    simp only [bind, Except.bind, pure, Except.pure, ha.2, hb.2] at h
    -- the value of `x & y` for the only member `x` of `a`
    have hval : ∀ x y, a.mem x → b.mem y → x &&& y = (if 2 ^ (w - 1) ≤ y then 2 ^ (w - 1) else 0) ∧
        y &&& x = (if 2 ^ (w - 1) ≤ y then 2 ^ (w - 1) else 0) := by
      intro x y hx hy
      have ex := mem_integer a x ha.1 hc'.1.1 hx
      have hyl : y < 2 ^ w := by rw [← hb.2]; exact hy.2.1
      rw [ex, hc'.2, Nat.and_comm y]
      exact ⟨and_signbit w y hw0 hyl, and_signbit w y hw0 hyl⟩
    have hHmem : ∀ st, (SI.new w st 0 ((2 ^ (w - 1) : Nat) : Int)).mem 0 ∧ (st = 2 ^ (w - 1) →
        (SI.new w st 0 ((2 ^ (w - 1) : Nat) : Int)).mem (2 ^ (w - 1))) := by
      intro st
      constructor
      · rw [mem_new]
        simp only [imod_zero, cd_zero, cd_self]
        refine ⟨by omega, Nat.zero_le _, ?_⟩
        split_ifs <;> simp
      · intro hst
        rw [mem_new, imod_of_lt _ _ (by omega)]
        simp only [imod_zero, cd_zero]
        refine ⟨by omega, Nat.le_refl _, ?_⟩
        rw [hst, if_neg (by omega)]
        exact Nat.mod_self _
    split at h
    · -- every piece starts in the upper half: every member has the sign bit
      rename_i hall
      have hr : r = SI.new w 0 ((2 ^ (w - 1) : Nat) : Int) ((2 ^ (w - 1) : Nat) : Int) := by cases h; rfl
      subst hr
      refine ⟨⟨⟨const_WF _ _ hw0, new_bits _ _ _ _⟩, nrm_new _ _ _ _ hw0⟩, ?_⟩
      intro x y hx hy
      obtain ⟨q, hq, hqy⟩ := hcov y hy
      obtain ⟨qw, _, qle, qh, _⟩ := hprop q hq
      have hsign : getMsb (q.lb : Int) q.bits = 1 := by
        have := List.all_eq_true.1 hall _ (List.mem_map.2 ⟨q, hq, rfl⟩)
        simpa using this
      rw [qw.2] at hsign
      have hql : 2 ^ (w - 1) ≤ q.lb := (getMsb_one _ _ hw0 (by rw [← qw.2]; exact qw.1.2.1)).1 hsign
      obtain ⟨hy1, _, _⟩ := mem_nowrap w q qw qle y hqy
      obtain ⟨e1, e2⟩ := hval x y hx hy
      rw [e1, e2, if_pos (by omega)]
      exact ⟨const_mem _ _ (by omega), const_mem _ _ (by omega)⟩
    · split at h
      · rename_i _ hall
        have hr : r = SI.new w 0 0 0 := by cases h; rfl
        subst hr
        refine ⟨⟨⟨const_WF _ _ hw0, new_bits _ _ _ _⟩, nrm_new _ _ _ _ hw0⟩, ?_⟩
        intro x y hx hy
        obtain ⟨q, hq, hqy⟩ := hcov y hy
        obtain ⟨qw, _, qle, qh, _⟩ := hprop q hq
        have hsign : getMsb (q.lb : Int) q.bits = 0 := by
          have := List.all_eq_true.1 hall _ (List.mem_map.2 ⟨q, hq, rfl⟩)
          simpa using this
        rw [qw.2] at hsign
        have hql : q.lb < 2 ^ (w - 1) := (getMsb_zero _ _ hw0 (by rw [← qw.2]; exact qw.1.2.1)).1 hsign
        obtain ⟨_, hy2, _⟩ := mem_nowrap w q qw qle y hqy
        obtain ⟨e1, e2⟩ := hval x y hx hy
        rw [e1, e2, if_neg (by omega)]
        exact ⟨const_mem 0 w (by omega), const_mem 0 w (by omega)⟩
      · have hr : r = SI.new w (2 ^ (w - 1)) 0 ((2 ^ (w - 1) : Nat) : Int) := by cases h; rfl
        subst hr
        refine ⟨⟨⟨new_WF _ _ _ _ hw0 (by intro hz; omega), new_bits _ _ _ _⟩, nrm_new _ _ _ _ hw0⟩, ?_⟩
        intro x y hx hy
        obtain ⟨e1, e2⟩ := hval x y hx hy
        rw [e1, e2]
        split_ifs
        · exact ⟨(hHmem _).2 rfl, (hHmem _).2 rfl⟩
        · exact ⟨(hHmem _).1, (hHmem _).1⟩
  · cases h

/-! ### `bitwise_and`, `bitwise_xor` -/

/-- `bitwise_not` with the facts the compositions need: closed, not empty, normal, sound -/
theorem not_full (a r : SI) (ha : a.WF) (hnb : a.bottom = false) (h : a.bitwiseNot = .ok r) :
    WFw a.bits r ∧ r.bottom = false ∧ Nrm r ∧ ∀ x, a.mem x → r.mem (2 ^ a.bits - 1 - x) := by
  obtain ⟨h1, h2⟩ := not_sound a r ha hnb h
  refine ⟨h1, (h2 _ (mem_lb a ha hnb)).1, ?_, h2⟩
  unfold SI.bitwiseNot at h
  obtain ⟨ps, _, h⟩ := bind_ok _ _ _ h
  obtain ⟨u, _, h⟩ := bind_ok _ _ _ h
  exact nrm_of_renorm u r (pure_ok _ _ h) h1.1

theorem or_full (s t r : SI) (hs : s.WF) (ht : t.WF) (hbits : s.bits = t.bits) (hsb : s.bottom = false)
    (htb : t.bottom = false) (h : s.bitwiseOr t = .ok r) :
    WFw s.bits r ∧ r.bottom = false ∧ Nrm r ∧ ∀ x y, s.mem x → t.mem y → r.mem (x ||| y) := by
  obtain ⟨h1, h2⟩ := or_sound s t r hs ht hbits hsb htb h
  refine ⟨h1, (h2 _ _ (mem_lb s hs hsb) (mem_lb t ht htb)).1, ?_, h2⟩
  unfold SI.bitwiseOr at h
  obtain ⟨us, _, h⟩ := bind_ok _ _ _ h
  obtain ⟨vs, _, h⟩ := bind_ok _ _ _ h
  obtain ⟨u, _, h⟩ := bind_ok _ _ _ h
  exact nrm_of_renorm u r (pure_ok _ _ h) h1.1

/-- **`bitwise_and` is sound and closed** (operands in the form the constructor returns) -/
theorem and_sound (s t r : SI) (hs : s.WF) (ht : t.WF) (hbits : s.bits = t.bits) (hsb : s.bottom = false)
    (htb : t.bottom = false) (ns : Nrm s) (nt : Nrm t) (h : s.bitwiseAnd t = .ok r) :
    (WFw s.bits r ∧ Nrm r) ∧ ∀ x y, s.mem x → t.mem y → r.mem (x &&& y) := by
  rw [bitwiseAnd_eq] at h
  obtain ⟨o1, h1, h⟩ := bind_ok _ _ _ h
  cases o1 with
  | some r1 =>
    have := pure_ok _ _ h
    subst this
    obtain ⟨g1, g2⟩ := andTry_spec t.bits s t r ⟨hs, hbits⟩ ⟨ht, rfl⟩ htb nt h1
    rw [hbits]
    exact ⟨g1, fun x y hx hy => (g2 x y hx hy).1⟩
  | none =>
    simp only [] at h
    obtain ⟨o2, h2, h⟩ := bind_ok _ _ _ h
    cases o2 with
    | some r2 =>
      have := pure_ok _ _ h
      subst this
      obtain ⟨g1, g2⟩ := andTry_spec t.bits t s r ⟨ht, rfl⟩ ⟨hs, hbits⟩ hsb ns h2
      rw [hbits]
      exact ⟨g1, fun x y hx hy => (g2 y x hy hx).2⟩
    | none =>
      simp only [] at h
      obtain ⟨cs, hcs, h⟩ := bind_ok _ _ _ h
      obtain ⟨ct, hct, h⟩ := bind_ok _ _ _ h
      obtain ⟨o, ho, h⟩ := bind_ok _ _ _ h
      obtain ⟨q, hq, h⟩ := bind_ok _ _ _ h
      have hr := pure_ok _ _ h
      obtain ⟨ws, bs, _, ms⟩ := not_full s cs hs hsb hcs
      obtain ⟨wt, bt, _, mt⟩ := not_full t ct ht htb hct
      obtain ⟨wo, bo, _, mo⟩ := or_full cs ct o ws.1 wt.1 (by rw [ws.2, wt.2]; exact hbits) bs bt ho
      obtain ⟨wq, bq, _, mq⟩ := not_full o q wo.1 bo hq
      rw [ws.2] at wo
      rw [wo.2] at wq mq
      refine ⟨⟨by rw [hr]; exact renorm_WFw _ q wq, nrm_of_renorm q r hr (by rw [hr]; exact (renorm_WFw _ q wq).1)⟩, ?_⟩
      intro x y hx hy
      rw [hr]
      apply (renorm_mem q wq.1 _).2
      have hxl : x < 2 ^ s.bits := hx.2.1
      have hyl : y < 2 ^ s.bits := by rw [hbits]; exact hy.2.1
      rw [and_demorgan s.bits x y hxl hyl]
      apply mq
      apply mo
      · exact ms x hx
      · rw [hbits]; exact mt y hy

/-- **`bitwise_xor` is sound and closed** -/
theorem xor_sound (s t r : SI) (hs : s.WF) (ht : t.WF) (hbits : s.bits = t.bits) (hsb : s.bottom = false)
    (htb : t.bottom = false) (h : s.bitwiseXor t = .ok r) :
    (WFw s.bits r ∧ Nrm r) ∧ ∀ x y, s.mem x → t.mem y → r.mem (x ^^^ y) := by
  unfold SI.bitwiseXor at h
  obtain ⟨cs, hcs, h⟩ := bind_ok _ _ _ h
  obtain ⟨ct, hct, h⟩ := bind_ok _ _ _ h
  obtain ⟨o1, ho1, h⟩ := bind_ok _ _ _ h
  obtain ⟨l, hl, h⟩ := bind_ok _ _ _ h
  obtain ⟨o2, ho2, h⟩ := bind_ok _ _ _ h
  obtain ⟨q, hq, h⟩ := bind_ok _ _ _ h
  obtain ⟨o3, ho3, h⟩ := bind_ok _ _ _ h
  have hr := pure_ok _ _ h
  obtain ⟨ws, bs, _, ms⟩ := not_full s cs hs hsb hcs
  obtain ⟨wt, bt, _, mt⟩ := not_full t ct ht htb hct
  rw [← hbits] at wt mt
  obtain ⟨w1, b1, _, m1⟩ := or_full cs t o1 ws.1 ht (by rw [ws.2]; exact hbits) bs htb ho1
  rw [ws.2] at w1
  obtain ⟨wl, bl, _, ml⟩ := not_full o1 l w1.1 b1 hl
  rw [w1.2] at wl ml
  obtain ⟨w2, b2, _, m2⟩ := or_full s ct o2 hs wt.1 wt.2.symm hsb bt ho2
  obtain ⟨wq, bq, _, mq⟩ := not_full o2 q w2.1 b2 hq
  rw [w2.2] at wq mq
  obtain ⟨w3, b3, _, m3⟩ := or_full l q o3 wl.1 wq.1 (by rw [wl.2, wq.2]) bl bq ho3
  rw [wl.2] at w3
  refine ⟨⟨by rw [hr]; exact renorm_WFw _ o3 w3, nrm_of_renorm o3 r hr (by rw [hr]; exact (renorm_WFw _ o3 w3).1)⟩, ?_⟩
  intro x y hx hy
  rw [hr]
  apply (renorm_mem o3 w3.1 _).2
  have hxl : x < 2 ^ s.bits := hx.2.1
  have hyl : y < 2 ^ s.bits := by rw [hbits]; exact hy.2.1
  rw [xor_via_or s.bits x y hxl hyl]
  apply m3
  · exact ml _ (m1 _ _ (ms x hx) hy)
  · exact mq _ (m2 _ _ hx (mt y hy))

end Claripy.VSA
