import ClaripyProofs.Lemmas.VSA.MulSound
/-! The partial products of one pair of pieces of `_psplit`: the unsigned one (`_wrapped_unsigned_mul`) and the signed one
(`_wrapped_signed_mul`, four sign combinations) are well formed, normal, ALIGNED and contain the product of any two
members; so does their meet. -/
namespace Claripy.VSA

/-- what `_psplit` guarantees of a piece of an aligned operand -/
structure PieceOK (w : Nat) (p : SI) : Prop where
  wf : WFw w p
  nb : p.bottom = false
  le : p.lb ≤ p.ub
  half : p.ub < 2 ^ (w - 1) ∨ 2 ^ (w - 1) ≤ p.lb
  al : p.Aligned

/-- members of a piece and its bounds are congruent modulo the stride (as integers) -/
theorem piece_mem (w : Nat) (p : SI) (hp : PieceOK w p) (x : Nat) (hx : p.mem x) :
    p.lb ≤ x ∧ x ≤ p.ub ∧ p.ub < 2 ^ w ∧ ((p.stride : Nat) : Int) ∣ (x : Int) - p.lb ∧
      ((p.stride : Nat) : Int) ∣ (p.ub : Int) - p.lb ∧ ((p.stride : Nat) : Int) ∣ (x : Int) - p.ub := by
  obtain ⟨h1, h2, h3⟩ := mem_nowrap w p hp.wf hp.le x hx
  have hu : p.ub < 2 ^ w := by have := hp.wf.1.2.2.1; rwa [hp.wf.2] at this
  have hd := aligned_dvd p hp.wf.1 hp.al
  rw [hp.wf.2] at hd
  have e : cd (2 ^ w) p.lb p.ub = p.ub - p.lb := by unfold cd; rw [if_pos hp.le]
  rw [e] at hd
  have d1 : ((p.stride : Nat) : Int) ∣ (x : Int) - p.lb := by
    have : ((x - p.lb : Nat) : Int) = (x : Int) - p.lb := by omega
    rw [← this]; exact Int.natCast_dvd_natCast.2 h3
  have d2 : ((p.stride : Nat) : Int) ∣ (p.ub : Int) - p.lb := by
    have : ((p.ub - p.lb : Nat) : Int) = (p.ub : Int) - p.lb := by omega
    rw [← this]; exact Int.natCast_dvd_natCast.2 hd
  refine ⟨h1, h2, hu, d1, d2, ?_⟩
  have : (x : Int) - p.ub = ((x : Int) - p.lb) - ((p.ub : Int) - p.lb) := by ring
  rw [this]; exact Int.dvd_sub d1 d2

/-- divisibility of a difference of products by the strides the code uses -/
theorem stride_dvd (sa sb : Nat) (A B X Y : Int) (h1 : (sa : Int) ∣ X - A) (h2 : (sb : Int) ∣ Y - B) :
    ((Nat.gcd sa sb : Nat) : Int) ∣ X * Y - A * B ∧ (Y = B → ((sa : Int) * B) ∣ X * Y - A * B) ∧
      (X = A → ((sb : Int) * A) ∣ X * Y - A * B) := by
  have e : X * Y - A * B = X * (Y - B) + B * (X - A) := by ring
  have g1 : ((Nat.gcd sa sb : Nat) : Int) ∣ (sa : Int) := Int.natCast_dvd_natCast.2 (Nat.gcd_dvd_left _ _)
  have g2 : ((Nat.gcd sa sb : Nat) : Int) ∣ (sb : Int) := Int.natCast_dvd_natCast.2 (Nat.gcd_dvd_right _ _)
  refine ⟨?_, ?_, ?_⟩
  · rw [e]
    exact Int.dvd_add (Dvd.dvd.mul_left (Int.dvd_trans g2 h2) _) (Dvd.dvd.mul_left (Int.dvd_trans g1 h1) _)
  · intro hy
    rw [hy]
    have : X * B - A * B = (X - A) * B := by ring
    rw [this]
    exact Int.mul_dvd_mul_right B h1
  · intro hx
    rw [hx]
    have : A * Y - A * B = (Y - B) * A := by ring
    rw [this]
    exact Int.mul_dvd_mul_right A h2

/-- the stride of a partial product, given as `|stride * anchor|` when one factor is a single value -/
theorem prodStride_dvd (sa sb : Nat) (A B X Y A' B' : Int) (bInt aInt : Prop) [Decidable bInt] [Decidable aInt]
    (h1 : (sa : Int) ∣ X - A) (h2 : (sb : Int) ∣ Y - B) (h1' : (sa : Int) ∣ X - A') (h2' : (sb : Int) ∣ Y - B')
    (hb : bInt → Y = B ∧ B' = B) (ha : aInt → X = A ∧ A' = A) (g : Nat)
    (hg : g = if bInt then ((sa : Int) * B).natAbs else if aInt then ((sb : Int) * A).natAbs else Nat.gcd sa sb) :
    (g : Int) ∣ X * Y - A * B ∧ (g : Int) ∣ X * Y - A' * B' := by
  obtain ⟨p1, p2, p3⟩ := stride_dvd sa sb A B X Y h1 h2
  obtain ⟨q1, q2, q3⟩ := stride_dvd sa sb A' B' X Y h1' h2'
  by_cases c1 : bInt
  · rw [if_pos c1] at hg
    obtain ⟨e1, e2⟩ := hb c1
    rw [hg]
    refine ⟨Int.natAbs_dvd.2 (p2 e1), ?_⟩
    have := q2 (by rw [e1, e2])
    rw [e2] at this ⊢
    exact Int.natAbs_dvd.2 this
  · rw [if_neg c1] at hg
    by_cases c2 : aInt
    · rw [if_pos c2] at hg
      obtain ⟨e1, e2⟩ := ha c2
      rw [hg]
      refine ⟨Int.natAbs_dvd.2 (p3 e1), ?_⟩
      have := q3 (by rw [e1, e2])
      rw [e2] at this ⊢
      exact Int.natAbs_dvd.2 this
    · rw [if_neg c2] at hg
      rw [hg]; exact ⟨p1, q1⟩

/-- **a partial product as an interval**: integer bounds `A*B ≤ X*Y ≤ A'*B'` given by two pairs of anchors congruent to the
factors modulo the strides -/
theorem prod_interval (w sa sb : Nat) (A B X Y A' B' : Int) (bInt aInt : Prop) [Decidable bInt] [Decidable aInt] (hw : 0 < w)
    (h1 : (sa : Int) ∣ X - A) (h2 : (sb : Int) ∣ Y - B) (h1' : (sa : Int) ∣ X - A') (h2' : (sb : Int) ∣ Y - B')
    (hb : bInt → Y = B ∧ B' = B) (ha : aInt → X = A ∧ A' = A) (g : Nat)
    (hg : g = if bInt then ((sa : Int) * B).natAbs else if aInt then ((sb : Int) * A).natAbs else Nat.gcd sa sb)
    (hlo : A * B ≤ X * Y) (hhi : X * Y ≤ A' * B') :
    WFw w (if A' * B' - A * B < 2 ^ w then SI.new w g (A * B) (A' * B') else SI.top w) ∧
      Nrm (if A' * B' - A * B < 2 ^ w then SI.new w g (A * B) (A' * B') else SI.top w) ∧
      (if A' * B' - A * B < 2 ^ w then SI.new w g (A * B) (A' * B') else SI.top w).Aligned ∧
      (if A' * B' - A * B < 2 ^ w then SI.new w g (A * B) (A' * B') else SI.top w).mem (imod (X * Y) w) := by
  obtain ⟨d1, d2⟩ := prodStride_dvd sa sb A B X Y A' B' bInt aInt h1 h2 h1' h2' hb ha g hg
  have d3 : (g : Int) ∣ A' * B' - A * B := by
    have : A' * B' - A * B = (X * Y - A * B) - (X * Y - A' * B') := by ring
    rw [this]; exact Int.dvd_sub d1 d2
  exact finInterval w g (A * B) (A' * B') (X * Y) hw hlo hhi d1 d3

/-- the signed value of a `w`-bit number -/
def sgv (w v : Nat) : Int := if v < 2 ^ (w - 1) then (v : Int) else (v : Int) - ((2 ^ w : Nat) : Int)

theorem toSigned_sgv (w v : Nat) (hw : 0 < w) (hv : v < 2 ^ w) : toSigned (v : Int) w = sgv w v := by
  rw [toSigned_nat v w hw hv]; rfl

/-- the signed values of two members multiply to the product modulo `2^w` -/
theorem imod_sgv_mul (w x y : Nat) : imod (sgv w x * sgv w y) w = (x * y) % 2 ^ w := by
  unfold sgv
  split <;> split
  · have : ((x : Int) * (y : Int)) = ((x * y : Nat) : Int) := by push_cast; rfl
    rw [this, imod_nat]
  · apply imod_shift _ (-(x : Int))
    push_cast; ring
  · apply imod_shift _ (-(y : Int))
    push_cast; ring
  · apply imod_shift _ (-(x : Int) - (y : Int) + ((2 ^ w : Nat) : Int))
    push_cast; ring

/-- the facts about a member of a piece in terms of signed values: bounds, sign, congruences -/
theorem piece_sgv (w : Nat) (p : SI) (hp : PieceOK w p) (x : Nat) (hx : p.mem x) :
    sgv w p.lb ≤ sgv w x ∧ sgv w x ≤ sgv w p.ub ∧
      ((p.ub < 2 ^ (w - 1) ∧ 0 ≤ sgv w p.lb ∧ sgv w p.lb = p.lb ∧ sgv w p.ub = p.ub ∧ sgv w x = x) ∨
        (2 ^ (w - 1) ≤ p.lb ∧ sgv w p.ub < 0)) ∧
      ((p.stride : Nat) : Int) ∣ sgv w x - sgv w p.lb ∧ ((p.stride : Nat) : Int) ∣ sgv w x - sgv w p.ub := by
  obtain ⟨h1, h2, hu, d1, _, d3⟩ := piece_mem w p hp x hx
  have hw0 : 0 < w := by rw [← hp.wf.2]; exact hp.wf.1.1
  have hm2 := two_pow_half w hw0
  unfold sgv
  rcases hp.half with hlow | hhigh
  · rw [if_pos (by omega), if_pos (by omega), if_pos hlow]
    exact ⟨by omega, by omega, Or.inl ⟨hlow, by omega, rfl, rfl, rfl⟩, d1, d3⟩
  · rw [if_neg (by omega), if_neg (by omega), if_neg (by omega)]
    refine ⟨by omega, by omega, Or.inr ⟨hhigh, by omega⟩, ?_, ?_⟩
    · have : (x : Int) - ((2 ^ w : Nat) : Int) - ((p.lb : Int) - ((2 ^ w : Nat) : Int)) = (x : Int) - p.lb := by ring
      rw [this]; exact d1
    · have : (x : Int) - ((2 ^ w : Nat) : Int) - ((p.ub : Int) - ((2 ^ w : Nat) : Int)) = (x : Int) - p.ub := by ring
      rw [this]; exact d3

theorem natAbs_cast_mul (a b : Nat) : ((a : Int) * (b : Int)).natAbs = a * b := by
  rw [Int.natAbs_mul, Int.natAbs_natCast, Int.natAbs_natCast]

/-- **`_wrapped_unsigned_mul`** of two pieces -/
theorem umul_piece (w : Nat) (a b : SI) (x y : Nat) (ha : PieceOK w a) (hb : PieceOK w b) (hx : a.mem x) (hy : b.mem y) :
    WFw w (wrappedUnsignedMul a b) ∧ Nrm (wrappedUnsignedMul a b) ∧ (wrappedUnsignedMul a b).Aligned ∧
      (wrappedUnsignedMul a b).mem ((x * y) % 2 ^ w) := by
  have hw0 : 0 < w := by rw [← ha.wf.2]; exact ha.wf.1.1
  obtain ⟨a1, a2, _, a4, _, a6⟩ := piece_mem w a ha x hx
  obtain ⟨b1, b2, _, b4, _, b6⟩ := piece_mem w b hb y hy
  have hbI : b.isInteger = true → (y : Int) = (b.lb : Int) ∧ (b.ub : Int) = (b.lb : Int) := by
    intro h
    have := (isInteger_iff b).1 h
    have e := mem_integer b y hb.wf.1 this hy
    exact ⟨by rw [e], by rw [this]⟩
  have haI : a.isInteger = true → (x : Int) = (a.lb : Int) ∧ (a.ub : Int) = (a.lb : Int) := by
    intro h
    have := (isInteger_iff a).1 h
    have e := mem_integer a x ha.wf.1 this hx
    exact ⟨by rw [e], by rw [this]⟩
  have key := prod_interval w a.stride b.stride (a.lb : Int) (b.lb : Int) (x : Int) (y : Int) (a.ub : Int) (b.ub : Int)
    (b.isInteger = true) (a.isInteger = true) hw0 a4 b4 a6 b6 hbI haI
    (if b.isInteger = true then a.stride * b.lb else if a.isInteger = true then a.lb * b.stride else Nat.gcd a.stride b.stride)
    (by
      split_ifs
      · rw [natAbs_cast_mul]
      · rw [natAbs_cast_mul, Nat.mul_comm]
      · rfl)
    (by exact_mod_cast Nat.mul_le_mul a1 b1) (by exact_mod_cast Nat.mul_le_mul a2 b2)
  have e3 : imod ((x : Int) * (y : Int)) w = (x * y) % 2 ^ w := by
    have : ((x : Int) * (y : Int)) = ((x * y : Nat) : Int) := by push_cast; rfl
    rw [this, imod_nat]
  rw [e3] at key
  unfold wrappedUnsignedMul
  simp only [ha.wf.2, hb.wf.2, Nat.max_self, Nat.cast_mul]
  exact key

/-- **`_wrapped_signed_mul`** of two pieces (each inside one half of the circle) -/
theorem smul_piece (w : Nat) (a b sm : SI) (x y : Nat) (ha : PieceOK w a) (hb : PieceOK w b) (hx : a.mem x) (hy : b.mem y)
    (h : wrappedSignedMul a b = .ok sm) :
    WFw w sm ∧ Nrm sm ∧ sm.Aligned ∧ sm.mem ((x * y) % 2 ^ w) := by
  have hw0 : 0 < w := by rw [← ha.wf.2]; exact ha.wf.1.1
  have hal : a.lb < 2 ^ w := by have := ha.wf.1.2.1; rwa [ha.wf.2] at this
  have hau : a.ub < 2 ^ w := by have := ha.wf.1.2.2.1; rwa [ha.wf.2] at this
  have hbl : b.lb < 2 ^ w := by have := hb.wf.1.2.1; rwa [hb.wf.2] at this
  have hbu : b.ub < 2 ^ w := by have := hb.wf.1.2.2.1; rwa [hb.wf.2] at this
  obtain ⟨a1, a2, a3, a4, a5⟩ := piece_sgv w a ha x hx
  obtain ⟨b1, b2, b3, b4, b5⟩ := piece_sgv w b hb y hy
  have hbI : b.isInteger = true → sgv w y = sgv w b.lb ∧ sgv w b.ub = sgv w b.lb := by
    intro h
    have := (isInteger_iff b).1 h
    have e := mem_integer b y hb.wf.1 this hy
    exact ⟨by rw [e], by rw [this]⟩
  have haI : a.isInteger = true → sgv w x = sgv w a.lb ∧ sgv w a.ub = sgv w a.lb := by
    intro h
    have := (isInteger_iff a).1 h
    have e := mem_integer a x ha.wf.1 this hx
    exact ⟨by rw [e], by rw [this]⟩
  have hbI' : b.isInteger = true → sgv w y = sgv w b.ub ∧ sgv w b.lb = sgv w b.ub := fun h =>
    ⟨by rw [(hbI h).1, (hbI h).2], (hbI h).2.symm⟩
  have haI' : a.isInteger = true → sgv w x = sgv w a.ub ∧ sgv w a.lb = sgv w a.ub := fun h =>
    ⟨by rw [(haI h).1, (haI h).2], (haI h).2.symm⟩
  have e3 := imod_sgv_mul w x y
  -- the flags and the signed bounds of the code
  have fal := isMsbZero_iff a.lb w hw0 hal
  have fau := isMsbZero_iff a.ub w hw0 hau
  have fbl := isMsbZero_iff b.lb w hw0 hbl
  have fbu := isMsbZero_iff b.ub w hw0 hbu
  have sal := toSigned_sgv w a.lb hw0 hal
  have sau := toSigned_sgv w a.ub hw0 hau
  have sbl := toSigned_sgv w b.lb hw0 hbl
  have sbu := toSigned_sgv w b.ub hw0 hbu
  have hm2 := two_pow_half w hw0
  unfold wrappedSignedMul at h
  simp only [ha.wf.2, hb.wf.2, Nat.max_self, sal, sau, sbl, sbu] at h
  -- the stride of the code, in the form `prod_interval` expects (anchors `A`, `B` fixed per case below)
  have hstr : ∀ (A B : Int), (b.isInteger = true → sgv w b.lb = B) → (a.isInteger = true → sgv w a.lb = A) →
      (if b.isInteger = true then (if isMsbZero (b.lb : Int) w = true then a.stride * b.lb else ((a.stride : Int) * sgv w b.lb).natAbs)
        else if a.isInteger = true then (if isMsbZero (a.lb : Int) w = true then b.stride * a.lb else ((b.stride : Int) * sgv w a.lb).natAbs)
        else Nat.gcd a.stride b.stride) =
      (if b.isInteger = true then ((a.stride : Int) * B).natAbs else if a.isInteger = true then ((b.stride : Int) * A).natAbs
        else Nat.gcd a.stride b.stride) := by
    intro A B hB hA
    by_cases c1 : b.isInteger = true
    · rw [if_pos c1, if_pos c1, ← hB c1]
      by_cases c2 : isMsbZero (b.lb : Int) w = true
      · rw [if_pos c2]
        have : sgv w b.lb = b.lb := by unfold sgv; rw [if_pos (fbl.1 c2)]
        rw [this, natAbs_cast_mul]
      · rw [if_neg c2]
    · rw [if_neg c1, if_neg c1]
      by_cases c3 : a.isInteger = true
      · rw [if_pos c3, if_pos c3, ← hA c3]
        by_cases c2 : isMsbZero (a.lb : Int) w = true
        · rw [if_pos c2]
          have : sgv w a.lb = a.lb := by unfold sgv; rw [if_pos (fal.1 c2)]
          rw [this, natAbs_cast_mul]
        · rw [if_neg c2]
      · rw [if_neg c3, if_neg c3]
  rcases a3 with ⟨alow, a0, eal, eau, eax⟩ | ⟨ahigh, aneg⟩
  · have f1 : isMsbZero (a.lb : Int) w = true := fal.2 (by omega)
    have f2 : isMsbZero (a.ub : Int) w = true := fau.2 alow
    rcases b3 with ⟨blow, b0, ebl, ebu, eby⟩ | ⟨bhigh, bneg⟩
    · -- both non-negative
      have f3 : isMsbZero (b.lb : Int) w = true := fbl.2 (by omega)
      have f4 : isMsbZero (b.ub : Int) w = true := fbu.2 blow
      rw [hstr (sgv w a.lb) (sgv w b.lb) (fun _ => rfl) (fun _ => rfl)] at h
      simp only [f1, f2, f3, f4, Bool.and_self, if_true, Nat.cast_mul] at h
      have hr := pure_ok' h
      have key := prod_interval w a.stride b.stride (sgv w a.lb) (sgv w b.lb) (sgv w x) (sgv w y) (sgv w a.ub) (sgv w b.ub)
        (b.isInteger = true) (a.isInteger = true) hw0 a4 b4 a5 b5 hbI haI _ rfl
        (by nlinarith) (by nlinarith)
      rw [e3] at key
      rw [hr]
      simp only [eal, ebl, eau, ebu] at key ⊢
      exact key
    · -- `a ≥ 0 > b`
      have f3 : isMsbZero (b.lb : Int) w = false := by
        cases hh : isMsbZero (b.lb : Int) w with
        | false => rfl
        | true => have := fbl.1 hh; omega
      have f4 : isMsbZero (b.ub : Int) w = false := by
        cases hh : isMsbZero (b.ub : Int) w with
        | false => rfl
        | true => have := fbu.1 hh; have := hb.le; omega
      rw [hstr (sgv w a.ub) (sgv w b.lb) (fun _ => rfl) (fun hh => (haI hh).2.symm)] at h
      simp only [f1, f2, f3, f4, Bool.and_self, Bool.and_false, Bool.not_true, Bool.false_and, Bool.not_false, Bool.and_true,
        Bool.false_eq_true, if_false, if_true] at h
      have hr := pure_ok' h
      have key := prod_interval w a.stride b.stride (sgv w a.ub) (sgv w b.lb) (sgv w x) (sgv w y) (sgv w a.lb) (sgv w b.ub)
        (b.isInteger = true) (a.isInteger = true) hw0 a5 b4 a4 b5 hbI haI' _ rfl
        (by nlinarith) (by nlinarith)
      rw [e3] at key
      rw [hr]
      simp only [eal, eau] at key ⊢
      exact key
  · have f1 : isMsbZero (a.lb : Int) w = false := by
      cases hh : isMsbZero (a.lb : Int) w with
      | false => rfl
      | true => have := fal.1 hh; omega
    have f2 : isMsbZero (a.ub : Int) w = false := by
      cases hh : isMsbZero (a.ub : Int) w with
      | false => rfl
      | true => have := fau.1 hh; have := ha.le; omega
    rcases b3 with ⟨blow, b0, ebl, ebu, eby⟩ | ⟨bhigh, bneg⟩
    · -- `a < 0 ≤ b`
      have f3 : isMsbZero (b.lb : Int) w = true := fbl.2 (by omega)
      have f4 : isMsbZero (b.ub : Int) w = true := fbu.2 blow
      rw [hstr (sgv w a.lb) (sgv w b.ub) (fun hh => (hbI hh).2.symm) (fun _ => rfl)] at h
      simp only [f1, f2, f3, f4, Bool.and_self, Bool.and_false, Bool.not_true, Bool.false_and, Bool.not_false, Bool.and_true,
        Bool.false_eq_true, if_false, if_true] at h
      have hr := pure_ok' h
      have key := prod_interval w a.stride b.stride (sgv w a.lb) (sgv w b.ub) (sgv w x) (sgv w y) (sgv w a.ub) (sgv w b.lb)
        (b.isInteger = true) (a.isInteger = true) hw0 a4 b5 a5 b4 hbI' haI _ rfl
        (by nlinarith) (by nlinarith)
      rw [e3] at key
      rw [hr]
      simp only [ebl, ebu] at key ⊢
      exact key
    · -- both negative
      have f3 : isMsbZero (b.lb : Int) w = false := by
        cases hh : isMsbZero (b.lb : Int) w with
        | false => rfl
        | true => have := fbl.1 hh; omega
      have f4 : isMsbZero (b.ub : Int) w = false := by
        cases hh : isMsbZero (b.ub : Int) w with
        | false => rfl
        | true => have := fbu.1 hh; have := hb.le; omega
      rw [hstr (sgv w a.ub) (sgv w b.ub) (fun hh => (hbI hh).2.symm) (fun hh => (haI hh).2.symm)] at h
      simp only [f1, f2, f3, f4, Bool.and_self, Bool.and_false, Bool.not_true, Bool.false_and, Bool.not_false, Bool.and_true,
        Bool.false_eq_true, if_false, if_true] at h
      have hr := pure_ok' h
      have key := prod_interval w a.stride b.stride (sgv w a.ub) (sgv w b.ub) (sgv w x) (sgv w y) (sgv w a.lb) (sgv w b.lb)
        (b.isInteger = true) (a.isInteger = true) hw0 a5 b5 a4 b4 hbI' haI' _ rfl
        (by nlinarith) (by nlinarith)
      rw [e3] at key
      rw [hr]
      exact key

end Claripy.VSA
