import ClaripyProofs.Lemmas.VSA.BalancerSignedArms
/-!
The remaining arms of `_balance` on SIGNED orderings: `_balance_signext`, `_balance_and`, the scaling branch of
`_balance_extract`, `__lshift__` by 0 — and with them the dispatch `balStep` on a signed operator.

* `_balance_signext` rewrites `SignExt(k, e) OPs c` to `e OPs c[w-k-1:0]` when the extension bits of the left side are
  known to be the `k` high bits of `c`.  Like `_balance_zeroext` it is NOT meaning-preserving in the signed reading
  (`sext_signed_not_meaning_preserving`); it keeps the UNSIGNED reading (both sides have the same sign bit, so the wide
  comparison is an unsigned one, and equal high bits can be dropped from an unsigned comparison).
* `_balance_and` (`ZeroExt(k, e) & (2^n - 1)` with `k + n` the width → `ZeroExt(k, e)`) and `__lshift__` by 0 keep the value
  of the left side: both readings survive.
* `_balance_extract`, branch `lsb zero ∧ high == size - 1` (`e[size-1:lo] OPs c` → `e OPs c·2^lo`): scaling by `2^lo` keeps
  the sign bit on top, both readings survive.  The other branches ask for an unsigned operator.
-/
set_option linter.unusedSectionVars false
namespace Claripy.VSA.Bal
open Claripy.VSA

/-- the truism holds in its signed or in its unsigned reading -/
def Tru.holdsSU (env : Nat → Nat) (t : Tru) : Prop := t.holds env ∨ t.holdsU env

/-! ### arithmetic -/

theorem ti_scale (H P v : Nat) (hP : 0 < P) : ti (H * P) (v * P) = ti H v * (P : Int) := by
  unfold ti
  have hiff : v * P < H * P ↔ v < H := ⟨fun h => Nat.lt_of_mul_lt_mul_right h, fun h => Nat.mul_lt_mul_of_pos_right h hP⟩
  by_cases h : v < H
  · rw [if_pos h, if_pos (hiff.2 h)]; push_cast; ring
  · rw [if_neg h, if_neg (fun hc => h (hiff.1 hc))]; push_cast; ring

/-- scaling both sides by `2^n` (the sign bit stays on top) keeps a signed comparison -/
theorem scmp_scale (op : CmpOp) (w n x y : Nat) (hw : 0 < w) (hop : sOrd op) :
    concCmp op (w + n) (x * 2 ^ n) (y * 2 ^ n) = concCmp op w x y := by
  have hP := two_pow_pos' n
  have hH : 2 ^ (w + n - 1) = 2 ^ (w - 1) * 2 ^ n := by
    rw [← Nat.pow_add]; congr 1; omega
  have hPi : (0 : Int) < ((2 ^ n : Nat) : Int) := by exact_mod_cast hP
  have e1 : ∀ z, Conc.toInt (w + n) (z * 2 ^ n) = Conc.toInt w z * ((2 ^ n : Nat) : Int) := by
    intro z
    rw [toInt_ti _ _ (by omega), toInt_ti _ _ hw, hH, ti_scale _ _ _ hP]
  have hlt : ∀ a b : Int, a * ((2 ^ n : Nat) : Int) < b * ((2 ^ n : Nat) : Int) ↔ a < b :=
    fun a b => ⟨fun h => lt_of_mul_lt_mul_right h (le_of_lt hPi), fun h => mul_lt_mul_of_pos_right h hPi⟩
  have hle : ∀ a b : Int, a * ((2 ^ n : Nat) : Int) ≤ b * ((2 ^ n : Nat) : Int) ↔ a ≤ b :=
    fun a b => ⟨fun h => le_of_mul_le_mul_right h hPi, fun h => mul_le_mul_of_nonneg_right h (le_of_lt hPi)⟩
  rcases hop with h | h | h | h <;> subst h <;> simp only [concCmp, e1, decide_eq_decide, gt_iff_lt, ge_iff_le]
  · exact hlt _ _
  · exact hle _ _
  · exact hlt _ _
  · exact hle _ _

/-- equal `k ≥ 1` high bits: equal sign bits -/
theorem same_high_sign (w k v r : Nat) (hk : 0 < k) (hkw : k ≤ w) (h : v / 2 ^ (w - k) = r / 2 ^ (w - k)) :
    v < 2 ^ (w - 1) ↔ r < 2 ^ (w - 1) := by
  have e : 2 ^ (w - 1) = 2 ^ (k - 1) * 2 ^ (w - k) := by
    rw [← Nat.pow_add]; congr 1; omega
  rw [e, ← Nat.div_lt_iff_lt_mul (two_pow_pos' _), ← Nat.div_lt_iff_lt_mul (two_pow_pos' _), h]

/-! ### the operator does not matter to `_balance_signext` / `_balance_and` -/

theorem balSext_op (anno : Nat → SI) (t t' : Tru) (k : Nat) (e : BV) (op' : CmpOp) (h : balSext anno t k e = .ok t') :
    balSext anno { t with op := op' } k e = .ok { t' with op := op' } ∧ t'.op = t.op := by
  unfold balSext at h ⊢
  obtain ⟨p, hp, h⟩ := bindM_ok h
  have hres := pureM_ok h
  simp only [hp, bind, Except.bind, pure, Except.pure]
  subst hres
  split_ifs <;> simp_all

theorem balAnd_op (t : Tru) (a b : BV) (op' : CmpOp) :
    balAnd { t with op := op' } a b = { balAnd t a b with op := op' } := by
  unfold balAnd
  split
  · split
    · rfl
    · split_ifs
      · rfl
      · split
        · split_ifs <;> rfl
        · rfl
  · rfl

theorem balAnd_keeps_op (t : Tru) (a b : BV) : (balAnd t a b).op = t.op := by
  unfold balAnd
  split
  · split
    · rfl
    · split_ifs
      · rfl
      · split
        · split_ifs <;> rfl
        · rfl
  · rfl

section
variable (anno : Nat → SI) (env : Nat → Nat) (hctx : ∀ i, (anno i).WF ∧ (anno i).mem (env i)) (hnrm : ∀ i, Nrm (anno i))
include hctx hnrm

/-- when `_balance_signext` fires (`k ≥ 1`), the value of the left side and the other side have the same `k` high bits -/
theorem balSext_high (t t' : Tru) (k : Nat) (e : BV) (hl : t.lhs = .sext k e) (hk : 0 < k) (hok : TruOK anno env t)
    (h : balSext anno t k e = .ok t') (hne : t' ≠ t) (v : Nat) (hv : evalBV env t.lhs = some v) :
    v / 2 ^ (t.w - k) = t.r / 2 ^ (t.w - k) ∧ v < 2 ^ t.w := by
  have hoe : ExprOK anno env e := ok_sext (hl ▸ hok.ok)
  have hw : t.w = k + wd e := by rw [← hok.wd_eq, hl]; rfl
  have hpos : 0 < wd e := wd_pos anno env (fun i => (hctx i).1) e hoe.1
  unfold balSext at h
  obtain ⟨p, hp, h⟩ := bindM_ok h
  have hp := liftR_ok hp
  have hres := pureM_ok h
  by_cases hid : siIdentical p.1.si (SI.new (t.w - 1 + 1 - (t.w - k)) 0 (Conc.extract (t.w - 1) (t.w - k) t.r)
      (Conc.extract (t.w - 1) (t.w - k) t.r)) = true
  · have hkw : t.w - 1 + 1 - (t.w - k) = k := by omega
    rw [hkw] at hid
    have hlsym : symBV t.lhs = true := hok.sym
    rw [foldBV_sym _ (by simpa [symBV] using hlsym)] at hp
    have hokx : ExprOK anno env (.extract (t.w - 1) (t.w - k) t.lhs) :=
      ok_mk_extract hok.ok (by omega) (by rw [hok.wd_eq]; omega)
    have hxv : evalBV env (.extract (t.w - 1) (t.w - k) t.lhs) = some (Conc.extract (t.w - 1) (t.w - k) v) := by
      simp [evalBV, hv]
    obtain ⟨hwf, _, hmem, _, _⟩ := conv_val anno env hctx hnrm _ hokx [] p hp _ hxv
    obtain ⟨q, hq⟩ := conv_extract_inner anno _ _ _ [] p hp
    obtain ⟨_, _, _, hvlt, _⟩ := conv_val anno env hctx hnrm t.lhs hok.ok [] q hq v hv
    rw [hok.wd_eq] at hvlt
    set hb := Conc.extract (t.w - 1) (t.w - k) t.r with hbdef
    have hblt : hb < 2 ^ k := by
      rw [hbdef]; unfold Conc.extract; rw [hkw]; exact Nat.mod_lt _ (two_pow_pos' k)
    simp only [siIdentical, Bool.and_eq_true, decide_eq_true_eq] at hid
    obtain ⟨⟨⟨_, _⟩, hlb⟩, hub⟩ := hid
    have hnew : (SI.new k 0 (hb : Int) (hb : Int)).lb = hb ∧ (SI.new k 0 (hb : Int) (hb : Int)).ub = hb := by
      rw [new_eq]; simp [imod_of_lt hb k hblt]
    have hext : Conc.extract (t.w - 1) (t.w - k) v = hb := by
      have := mem_integer p.1.si _ hwf (by rw [hlb, hub, hnew.1, hnew.2]) hmem
      rw [this, hlb, hnew.1]
    have h1 : Conc.extract (t.w - 1) (t.w - k) v = v / 2 ^ (t.w - k) := by
      unfold Conc.extract; rw [hkw, Nat.shiftRight_eq_div_pow]
      apply Nat.mod_eq_of_lt; apply Nat.div_lt_of_lt_mul; rw [← Nat.pow_add]
      have : t.w - k + k = t.w := by omega
      rw [this]; exact hvlt
    have h2 : hb = t.r / 2 ^ (t.w - k) := by
      rw [hbdef]; unfold Conc.extract; rw [hkw, Nat.shiftRight_eq_div_pow]
      apply Nat.mod_eq_of_lt; apply Nat.div_lt_of_lt_mul; rw [← Nat.pow_add]
      have : t.w - k + k = t.w := by omega
      rw [this]; exact hok.r_lt
    exact ⟨by rw [← h1, hext, h2], hvlt⟩
  · rw [if_neg hid] at hres
    exact (hne hres).elim

/-- **`_balance_signext` on a signed ordering** (`k ≥ 1` extension bits): unchanged, or the UNSIGNED reading of the new
truism holds — whether the old truism held in its signed or in its unsigned reading -/
theorem balSext_s (t t' : Tru) (k : Nat) (e : BV) (hl : t.lhs = .sext k e) (hk : 0 < k) (hok : TruOK anno env t)
    (hop : sOrd t.op) (hh : t.holds env ∨ t.holdsU env) (h : balSext anno t k e = .ok t') (hs : symBV t'.lhs = true) :
    t' = t ∨ (TruOK anno env t' ∧ t'.op = t.op ∧ t'.holdsU env) := by
  by_cases hne : t' = t
  · exact Or.inl hne
  · right
    have hw : t.w = k + wd e := by rw [← hok.wd_eq, hl]; rfl
    have hwpos : 0 < t.w := by omega
    have hU : t.holdsU env := by
      rcases hh with ⟨v, hv, hc⟩ | hu
      · refine ⟨v, hv, ?_⟩
        obtain ⟨hdiv, hvlt⟩ := balSext_high anno env hctx hnrm t t' k e hl hk hok h hne v hv
        rw [← scmp_eq_ucmp t.op t.w v t.r hwpos hop hvlt hok.r_lt (same_high_sign t.w k v t.r hk (by omega) hdiv)]
        exact hc
      · exact hu
    have hokU : TruOK anno env { t with op := uOf t.op } := ⟨hok.ok, hok.sym, hok.wd_eq, hok.r_lt⟩
    obtain ⟨e1, e2⟩ := balSext_op anno t t' k e (uOf t.op) h
    obtain ⟨h1, h2⟩ := balSext_pt anno env hctx hnrm { t with op := uOf t.op } _ k e hl hokU (uOf_uns _ hop) hU e1 hs
    refine ⟨⟨h1.ok, h1.sym, h1.wd_eq, h1.r_lt⟩, e2, ?_⟩
    obtain ⟨v, hv, hc⟩ := h2
    exact ⟨v, hv, by rw [e2]; exact hc⟩

/-- **`_balance_and` on any operator**: each reading of the truism survives (the arm keeps the value of the left side) -/
theorem balAnd_s (t : Tru) (a b : BV) (hl : t.lhs = .bin .and a b) (hok : TruOK anno env t)
    (hconv : ∃ p, convBV anno t.lhs [] = .ok p) (hs : symBV (balAnd t a b).lhs = true) :
    TruOK anno env (balAnd t a b) ∧ (balAnd t a b).op = t.op ∧ (t.holds env → (balAnd t a b).holds env) ∧
      (t.holdsU env → (balAnd t a b).holdsU env) := by
  have hopk := balAnd_keeps_op t a b
  have hokU : TruOK anno env { t with op := uOf t.op } := ⟨hok.ok, hok.sym, hok.wd_eq, hok.r_lt⟩
  have eU := balAnd_op t a b (uOf t.op)
  -- `TruOK` does not depend on the reading: get it from the `==` reading of the value itself
  obtain ⟨p, hp⟩ := hconv
  obtain ⟨v, hv⟩ := exprOK_val anno env t.lhs hok.ok
  have hvlt : v < 2 ^ t.w := by
    have := (conv_val anno env hctx hnrm t.lhs hok.ok [] p hp v hv).2.2.2.1
    rwa [hok.wd_eq] at this
  have hokE : TruOK anno env { t with op := .eq, r := v } := ⟨hok.ok, hok.sym, hok.wd_eq, hvlt⟩
  have hT : TruOK anno env (balAnd t a b) := by
    by_cases hh : t.holds env
    · exact (balAnd_pt anno env hctx hnrm t a b hl hok ⟨p, hp⟩ hh hs).1
    · -- the typing facts of the result do not depend on whether the truism holds: use the three outcomes
      rcases balAnd_cases t a b with h3 | h3 | ⟨cv, wv, n, k, e', hb, hlo, ha, hkn, h3⟩
      · rw [h3]; exact hok
      · rw [h3] at hs; cases hs
      · rw [h3] at hs ⊢
        obtain ⟨hoa, _, _⟩ := ok_bin (hl ▸ hok.ok)
        exact ⟨hoa, hs, by simp only; rw [← hok.wd_eq, hl]; rfl, hok.r_lt⟩
  refine ⟨hT, hopk, fun hh => (balAnd_pt anno env hctx hnrm t a b hl hok ⟨p, hp⟩ hh hs).2, ?_⟩
  intro hu
  have hsU : symBV (balAnd { t with op := uOf t.op } a b).lhs = true := by rw [eU]; exact hs
  obtain ⟨_, v', hv', hc'⟩ := balAnd_pt anno env hctx hnrm { t with op := uOf t.op } a b hl hokU ⟨p, hp⟩ hu hsU
  rw [eU] at hv' hc'
  exact ⟨v', hv', by rw [hopk]; exact hc'⟩

/-- **`_balance_extract` on a signed ordering**: unchanged, or the scaling branch (`e[size-1:lo] OPs c` → `e OPs c·2^lo`,
low bits of `e` known zero) — each reading of the truism survives -/
theorem balExtract_s (t t' : Tru) (hi lo : Nat) (e : BV) (hl : t.lhs = .extract hi lo e) (hok : TruOK anno env t)
    (hop : sOrd t.op) (hconv : ∃ p, convBV anno t.lhs [] = .ok p)
    (h : balExtract anno t hi lo e = .ok t') (hs : symBV t'.lhs = true) :
    t' = t ∨ (TruOK anno env t' ∧ t'.op = t.op ∧ (t.holds env → t'.holds env) ∧ (t.holdsU env → t'.holdsU env)) := by
  obtain ⟨hoe, hlohi, hhi⟩ := ok_extract (hl ▸ hok.ok)
  have hse : symBV e = true := by have := hok.sym; rw [hl] at this; simpa [symBV] using this
  obtain ⟨p, hp⟩ := hconv
  rw [hl] at hp
  obtain ⟨q, hq⟩ := conv_extract_inner anno hi lo e [] p hp
  obtain ⟨ve, hve⟩ := exprOK_val anno env e hoe
  obtain ⟨_, _, _, hvelt, _⟩ := conv_val anno env hctx hnrm e hoe [] q hq ve hve
  have hw : t.w = hi + 1 - lo := by rw [← hok.wd_eq, hl]; rfl
  have hvv : evalBV env t.lhs = some (Conc.extract hi lo ve) := by
    rw [hl]; simp only [evalBV, hve, Option.bind_eq_bind, Option.bind_some]
  have hrlt : t.r < 2 ^ (hi + 1 - lo) := by rw [← hw]; exact hok.r_lt
  have hsg : isSigned t.op = true := by rcases hop with h | h | h | h <;> rw [h] <;> rfl
  have hnu : ¬ (t.op = .uge ∨ t.op = .ugt ∨ t.op = .ne) := by
    rcases hop with h | h | h | h <;> rw [h] <;> decide
  unfold balExtract at h
  obtain ⟨msbZ, hm, h⟩ := bindM_ok h
  obtain ⟨lsbZ, hls, h⟩ := bindM_ok h
  have fl : foldBV (.extract (lo - 1) 0 e) = .extract (lo - 1) 0 e := foldBV_sym _ (by simpa [symBV] using hse)
  rw [fl] at hls
  have lsb_fact : lsbZ = some true → ve = ve / 2 ^ lo * 2 ^ lo := by
    intro hlz
    obtain ⟨hcnd, hz⟩ := optZero_true anno env hctx hnrm _ _ _ hls hlz
    have hcnd : 0 < lo := by simpa using hcnd
    have hok' : ExprOK anno env (.extract (lo - 1) 0 e) := ok_mk_extract hoe (by omega) (by omega)
    have := isZero_sound anno env hctx hnrm _ hok' hz (Conc.extract (lo - 1) 0 ve) (by simp [evalBV, hve])
    exact ext_low_zero lo ve hcnd this
  dsimp only at h
  rw [hsg] at h
  have c1 : ¬ (msbZ = some true ∧ lsbZ = some true ∧ true = false) := by intro hc; cases hc.2.2
  have c2 : ¬ (msbZ = some true ∧ lo = 0 ∧ true = false) := by intro hc; cases hc.2.2
  rw [if_neg c1, if_neg c2] at h
  by_cases c3 : lsbZ = some true ∧ hi = wd e - 1
  · rw [if_pos c3] at h
    have := pureM_ok h; subst this
    right
    have hiw : hi + 1 = wd e := by omega
    have hve' : ve < 2 ^ (hi + 1) := by rw [hiw]; exact hvelt
    have hz := lsb_fact c3.1
    have hex : Conc.extract hi lo ve = ve / 2 ^ lo := ext_val hi lo ve hlohi hve'
    have hwpos : 0 < t.w := by omega
    have hwe : wd e = t.w + lo := by omega
    refine ⟨⟨hoe, hse, rfl, scale_lt hi lo t.r (wd e) hlohi hhi hrlt⟩, rfl, ?_, ?_⟩
    · rintro ⟨v, hv, hc⟩
      rw [hvv] at hv; cases hv
      refine ⟨ve, hve, ?_⟩
      simp only
      rw [hex] at hc
      have := scmp_scale t.op t.w lo (ve / 2 ^ lo) t.r hwpos hop
      rw [← hz, ← hwe] at this
      rw [this]; exact hc
    · rintro ⟨v, hv, hc⟩
      rw [hvv] at hv; cases hv
      refine ⟨ve, hve, ?_⟩
      simp only
      rw [← extract_scale (uOf t.op) t.w (wd e) hi lo ve t.r (uOf_uns _ hop) hlohi hve' hz]; exact hc
  · rw [if_neg c3] at h
    have c4 : ¬ (lo = 0 ∧ (t.op = .uge ∨ t.op = .ugt ∨ t.op = .ne)) := fun hc => hnu hc.2
    rw [if_neg c4] at h
    exact Or.inl (pureM_ok h)

/-- **`_balance_lshift` on a signed ordering**: unchanged, or a shift by 0 removed — each reading of the truism survives -/
theorem balShl_s (t t' : Tru) (e amt : BV) (hl : t.lhs = .bin .shl e amt) (hok : TruOK anno env t)
    (hop : sOrd t.op) (hconv : ∃ p, convBV anno t.lhs [] = .ok p)
    (h : balShl anno t e amt = .ok t') (hs : symBV t'.lhs = true) :
    t' = t ∨ (TruOK anno env t' ∧ t'.op = t.op ∧ (t.holds env → t'.holds env) ∧ (t.holdsU env → t'.holdsU env)) := by
  obtain ⟨hoe, hoa, hwea⟩ := ok_bin (hl ▸ hok.ok)
  obtain ⟨p, hp⟩ := hconv
  rw [hl] at hp
  obtain ⟨q, hq⟩ := conv_bin_left anno _ _ _ [] p hp
  obtain ⟨ve, hve⟩ := exprOK_val anno env e hoe
  obtain ⟨va, hva⟩ := exprOK_val anno env amt hoa
  obtain ⟨_, _, _, hvelt, hwpos⟩ := conv_val anno env hctx hnrm e hoe [] q hq ve hve
  have hw : t.w = wd e := by rw [← hok.wd_eq, hl]; rfl
  have hvv : evalBV env t.lhs = some (Conc.shl (wd e) ve va) := by
    rw [hl, evalBV_bin env .shl e amt ve va hve hva]; rfl
  have hsg : isSigned t.op = true := by rcases hop with h | h | h | h <;> rw [h] <;> rfl
  unfold balShl at h
  obtain ⟨vals, hvals, h⟩ := bindM_ok h
  have hvals := liftR_ok hvals
  obtain ⟨pa, hpa, hev⟩ := bind_ok _ _ _ hvals
  obtain ⟨hawf, _, hamem, _, _⟩ := conv_val anno env hctx hnrm amt hoa [] pa hpa va hva
  rcases vals with _ | ⟨n0, _ | ⟨n1, rest⟩⟩
  · exact Or.inl (pureM_ok h)
  · dsimp only at h
    have hva' : (va : Int) = n0 := eval_single pa.1.si n0 hawf hev va hamem
    have hn : n0.toNat = va := by omega
    rw [hn] at h
    by_cases h0 : va = 0
    · rw [if_pos h0] at h
      have := pureM_ok h; subst this
      simp only at hs
      subst h0
      have hsh : Conc.shl (wd e) ve 0 = ve := by
        rw [shl_val _ _ _ hwpos]; simp [Nat.mod_eq_of_lt hvelt]
      rw [hsh] at hvv
      right
      refine ⟨⟨hoe, hs, hw.symm, hok.r_lt⟩, rfl, ?_, ?_⟩
      · rintro ⟨v, hv, hc⟩
        rw [hvv] at hv; cases hv
        exact ⟨ve, hve, hc⟩
      · rintro ⟨v, hv, hc⟩
        rw [hvv] at hv; cases hv
        exact ⟨ve, hve, hc⟩
    · rw [if_neg h0] at h
      have h1 : va ≥ wd e ∨ isSigned t.op = true := Or.inr hsg
      rw [if_pos h1] at h
      exact Or.inl (pureM_ok h)
  · exact Or.inl (pureM_ok h)

end

/-- `_balance_signext` is NOT meaning-preserving on a signed operator: with `x` annotated `[0, 7]` (4 bits),
`SignExt(4, x) <s 9` (8 bits) becomes `x <s 9` at 4 bits, where 9 is -7; `x = 0` satisfies the first and not the second;
the unsigned reading `x <u 9` holds.  And with `y` annotated `[8, 15]`, `SignExt(4, y) >s 0xF3` becomes `y >s 3`;
`y = 8` (that is -8) satisfies the first and not the second; `y >u 3` holds. -/
theorem sext_signed_not_meaning_preserving :
    balStep (fun _ => SI.new 4 1 0 7) ⟨.slt, .sext 4 (.var 0 4), 9, 8⟩ = .ok ⟨.slt, .var 0 4, 9, 4⟩ ∧
    concCmp .slt 8 (Conc.sext 4 8 0) 9 = true ∧ concCmp .slt 4 0 9 = false ∧ concCmp (uOf .slt) 4 0 9 = true ∧
    balStep (fun _ => SI.new 4 1 8 15) ⟨.sgt, .sext 4 (.var 0 4), 0xF3, 8⟩ = .ok ⟨.sgt, .var 0 4, 3, 4⟩ ∧
    concCmp .sgt 8 (Conc.sext 4 8 8) 0xF3 = true ∧ concCmp .sgt 4 8 3 = false ∧ concCmp (uOf .sgt) 4 8 3 = true := by
  decide

end Claripy.VSA.Bal
