import ClaripyProofs.Lemmas.VSA.BalancerSound
import ClaripyProofs.Lemmas.VSA.MinMax
/-!
`_handle`, `_handle_eq`, `_handle_ne`, `_handle_comparison` (model `handle`, `handleCmp`), `_add_lower_bound` /
`_add_upper_bound`: a truism that holds yields bounds that hold (plain, non-wrapping bounds of the unsigned value);
what a recorded pair means in the end (`InB`: the wrapped interval `_replacements_iter` builds from it).
-/
set_option linter.unusedSectionVars false
namespace Claripy.VSA.Bal
open Claripy.VSA

/-- the meaning of a recorded (lower, upper) pair for an expression of width `w`: `SI(1, mn, mx)` of `_replacements_iter`
with the defaults 0 and `2^w - 1`, i.e. the wrapped interval from `mn mod 2^w` to `mx mod 2^w` -/
def InB (w : Nat) (lo hi : Option Int) (v : Nat) : Prop :=
  Win (2 ^ w) (imod (lo.getD 0) w) (imod (hi.getD ((2 : Int) ^ w - 1)) w) v

/-- every recorded pair contains the value of its expression -/
def Sound (env : Nat → Nat) (bs : Bounds) : Prop :=
  ∀ e lo hi, (e, lo, hi) ∈ bs → ∃ v, evalBV env e = some v ∧ v < 2 ^ wd e ∧ InB (wd e) lo hi v

/-- plain bounds: each recorded lower / upper bound is a bound of the (unsigned) value, inside `[0, 2^w - 1]` -/
def PSound (env : Nat → Nat) (bs : Bounds) : Prop :=
  ∀ e lo hi, (e, lo, hi) ∈ bs → ∃ v, evalBV env e = some v ∧ v < 2 ^ wd e ∧
    (∀ l, lo = some l → 0 ≤ l ∧ l ≤ (v : Int)) ∧ (∀ u, hi = some u → (v : Int) ≤ u ∧ u < (2 : Int) ^ wd e)

theorem psound_nil (env : Nat → Nat) : PSound env [] := by intro e lo hi h; cases h

theorem imod_int_of_lt (x : Int) (w : Nat) (h0 : 0 ≤ x) (h1 : x < (2 : Int) ^ w) : (imod x w : Int) = x := by
  unfold imod
  have hp : ((2 ^ w : Nat) : Int) = (2 : Int) ^ w := by push_cast; rfl
  rw [hp, Int.emod_eq_of_lt h0 h1, Int.toNat_of_nonneg h0]

theorem psound_sound (env : Nat → Nat) (bs : Bounds) (h : PSound env bs) : Sound env bs := by
  intro e lo hi hm
  obtain ⟨v, hv, hlt, hl, hu⟩ := h e lo hi hm
  refine ⟨v, hv, hlt, ?_⟩
  unfold InB Win
  have hp : ((2 ^ wd e : Nat) : Int) = (2 : Int) ^ wd e := by push_cast; rfl
  have hl' : 0 ≤ lo.getD 0 ∧ lo.getD 0 ≤ (v : Int) := by
    cases lo with
    | none => simp
    | some l => simpa using hl l rfl
  have hu' : (v : Int) ≤ hi.getD ((2 : Int) ^ wd e - 1) ∧ hi.getD ((2 : Int) ^ wd e - 1) < (2 : Int) ^ wd e := by
    cases hi with
    | none => simp only [Option.getD_none]; constructor <;> omega
    | some u => simpa using hu u rfl
  have e1 := imod_int_of_lt (lo.getD 0) (wd e) hl'.1 (by omega)
  have e2 := imod_int_of_lt (hi.getD ((2 : Int) ^ wd e - 1)) (wd e) (by omega) hu'.2
  generalize imod (lo.getD 0) (wd e) = L at *
  generalize imod (hi.getD ((2 : Int) ^ wd e - 1)) (wd e) = U at *
  unfold cd
  split_ifs <;> omega

theorem addLower_psound (env : Nat → Nat) (e : BV) (v : Nat) (b : Int) (hv : evalBV env e = some v) (hlt : v < 2 ^ wd e)
    (h0 : 0 ≤ b) (hb : b ≤ (v : Int)) : ∀ bs : Bounds, PSound env bs → PSound env (addLower bs e b)
  | [], _ => by
    intro e' lo hi hm
    simp only [addLower, List.mem_singleton, Prod.mk.injEq] at hm
    obtain ⟨rfl, rfl, rfl⟩ := hm
    exact ⟨v, hv, hlt, fun l hl => (by cases hl; exact ⟨h0, hb⟩), fun u hu => (by cases hu)⟩
  | (e', lo', hi') :: rest, hps => by
    have hhead := hps e' lo' hi' (List.mem_cons_self ..)
    have htail : PSound env rest := fun x y z hm => hps x y z (List.mem_cons_of_mem _ hm)
    unfold addLower
    by_cases he : e' = e
    · rw [if_pos he]
      intro x lo hi hm
      rcases List.mem_cons.1 hm with hm | hm
      · simp only [Prod.mk.injEq] at hm
        obtain ⟨rfl, rfl, rfl⟩ := hm
        obtain ⟨v', hv', hlt', hl', hu'⟩ := hhead
        subst he
        rw [hv] at hv'; cases hv'
        refine ⟨v, hv, hlt, ?_, hu'⟩
        intro l hl
        cases lo' with
        | none => simp only [Option.some.injEq] at hl; subst hl; exact ⟨h0, hb⟩
        | some o =>
          simp only [Option.some.injEq] at hl; subst hl
          obtain ⟨o0, ov⟩ := hl' o rfl
          constructor <;> omega
      · exact htail x lo hi hm
    · rw [if_neg he]
      intro x lo hi hm
      rcases List.mem_cons.1 hm with hm | hm
      · simp only [Prod.mk.injEq] at hm
        obtain ⟨rfl, rfl, rfl⟩ := hm
        exact hhead
      · exact addLower_psound env e v b hv hlt h0 hb rest htail x lo hi hm

theorem addUpper_psound (env : Nat → Nat) (e : BV) (v : Nat) (b : Int) (hv : evalBV env e = some v) (hlt : v < 2 ^ wd e)
    (hb : (v : Int) ≤ b) (h1 : b < (2 : Int) ^ wd e) : ∀ bs : Bounds, PSound env bs → PSound env (addUpper bs e b)
  | [], _ => by
    intro e' lo hi hm
    simp only [addUpper, List.mem_singleton, Prod.mk.injEq] at hm
    obtain ⟨rfl, rfl, rfl⟩ := hm
    exact ⟨v, hv, hlt, fun l hl => (by cases hl), fun u hu => (by cases hu; exact ⟨hb, h1⟩)⟩
  | (e', lo', hi') :: rest, hps => by
    have hhead := hps e' lo' hi' (List.mem_cons_self ..)
    have htail : PSound env rest := fun x y z hm => hps x y z (List.mem_cons_of_mem _ hm)
    unfold addUpper
    by_cases he : e' = e
    · rw [if_pos he]
      intro x lo hi hm
      rcases List.mem_cons.1 hm with hm | hm
      · simp only [Prod.mk.injEq] at hm
        obtain ⟨rfl, rfl, rfl⟩ := hm
        obtain ⟨v', hv', hlt', hl', hu'⟩ := hhead
        subst he
        rw [hv] at hv'; cases hv'
        refine ⟨v, hv, hlt, hl', ?_⟩
        intro u hu
        cases hi' with
        | none => simp only [Option.some.injEq] at hu; subst hu; exact ⟨hb, h1⟩
        | some o =>
          simp only [Option.some.injEq] at hu; subst hu
          obtain ⟨o0, ov⟩ := hu' o rfl
          constructor <;> omega
      · exact htail x lo hi hm
    · rw [if_neg he]
      intro x lo hi hm
      rcases List.mem_cons.1 hm with hm | hm
      · simp only [Prod.mk.injEq] at hm
        obtain ⟨rfl, rfl, rfl⟩ := hm
        exact hhead
      · exact addUpper_psound env e v b hv hlt hb h1 rest htail x lo hi hm

/-! ### `_min` / `_max` -/

theorem siMin_spec (s : SI) (m : Int) (h : siMin s false = .ok m) : s.renorm.min false = .ok (some m) := by
  unfold siMin at h
  obtain ⟨o, ho, h⟩ := bindM_ok h
  have ho := liftR_ok ho
  cases o with
  | none => cases h
  | some v => have := pureM_ok h; subst this; exact ho

theorem siMax_spec (s : SI) (m : Int) (h : siMax s false = .ok m) : s.renorm.max false = .ok (some m) := by
  unfold siMax at h
  obtain ⟨o, ho, h⟩ := bindM_ok h
  have ho := liftR_ok ho
  cases o with
  | none => cases h
  | some v => have := pureM_ok h; subst this; exact ho

/-- unsigned `_min` / `_max` of a normal interval bound every member; the minimum is not negative -/
theorem siMin_le (s : SI) (m : Int) (x : Nat) (hs : s.WF) (hn : Nrm s) (hx : s.mem x) (h : siMin s false = .ok m) :
    0 ≤ m ∧ m ≤ x := by
  have h := siMin_spec s m h
  rw [hn] at h
  obtain ⟨y, _, hy⟩ := min_attained s m hs hx.1 h
  exact ⟨by omega, min_le s m x hs hx h⟩

theorem le_siMax (s : SI) (m : Int) (x : Nat) (hs : s.WF) (hn : Nrm s) (hx : s.mem x) (h : siMax s false = .ok m) :
    (x : Int) ≤ m := by
  have h := siMax_spec s m h
  rw [hn] at h
  exact le_max s m x hs hx h

section
variable (anno : Nat → SI) (env : Nat → Nat) (hctx : ∀ i, (anno i).WF ∧ (anno i).mem (env i)) (hnrm : ∀ i, Nrm (anno i))
include hctx hnrm

/-- `_handle_comparison` on an unsigned ordering that holds -/
theorem handleCmp_pt (t : Tru) (bs bs' : Bounds) (hok : TruOK anno env t)
    (hop : t.op = .ult ∨ t.op = .ule ∨ t.op = .ugt ∨ t.op = .uge) (hh : t.holds env) (hps : PSound env bs)
    (h : handleCmp anno t bs = .ok bs') : PSound env bs' := by
  obtain ⟨v, hv, hc⟩ := hh
  have hwpos : 0 < t.w := by rw [← hok.wd_eq]; exact wd_pos anno env (fun i => (hctx i).1) _ hok.ok.1
  unfold handleCmp at h
  dsimp only at h
  obtain ⟨pl, hpl, h⟩ := bindM_ok h
  have hpl := liftR_ok hpl
  obtain ⟨⟨⟨hwf, hbits⟩, hm⟩, hnr⟩ := conv_good anno env hctx hnrm t.lhs hok.ok [] pl.2 pl.1 hpl
  have hmem := (hm v hv).1
  have hvlt : v < 2 ^ wd t.lhs := by have := hmem.2.1; rwa [hbits] at this
  have huns : (cmpInfo t.op).2.2 = true := by rcases hop with h | h | h | h <;> rw [h] <;> rfl
  rw [huns] at h
  simp only [Bool.not_true, if_true] at h
  obtain ⟨leftMin, hlmin, h⟩ := bindM_ok h
  obtain ⟨leftMax, hlmax, h⟩ := bindM_ok h
  obtain ⟨rightMin, hrmin, h⟩ := bindM_ok h
  obtain ⟨rightMax, hrmax, h⟩ := bindM_ok h
  obtain ⟨hl0, hl1⟩ := siMin_le pl.1.si leftMin v hwf hnr hmem hlmin
  have hl2 := le_siMax pl.1.si leftMax v hwf hnr hmem hlmax
  have hcw := const_WF t.r t.w hwpos
  have hcm := const_mem t.r t.w hok.r_lt
  have hcn : Nrm (SI.new t.w 0 (t.r : Int) (t.r : Int)) := nrm_new _ _ _ _ hwpos
  obtain ⟨_, hr1⟩ := siMin_le _ rightMin t.r hcw hcn hcm hrmin
  have hr2 := le_siMax _ rightMax t.r hcw hcn hcm hrmax
  have hpw : ((2 ^ wd t.lhs : Nat) : Int) = (2 : Int) ^ wd t.lhs := by push_cast; rfl
  have hvi : (v : Int) < (2 : Int) ^ wd t.lhs := by rw [← hpw]; exact_mod_cast hvlt
  have h2pos : (0 : Int) < (2 : Int) ^ (wd t.lhs - 1) := by positivity
  rcases hop with ho | ho | ho | ho <;> rw [ho] at h hc <;>
    simp only [cmpInfo, concCmp, decide_eq_true_eq, if_true, if_false, Bool.false_eq_true] at h hc <;>
    (have := pureM_ok h; subst this)
  · exact addUpper_psound env t.lhs v _ hv hvlt (by omega) (by omega) bs hps
  · exact addUpper_psound env t.lhs v _ hv hvlt (by omega) (by omega) bs hps
  · exact addLower_psound env t.lhs v _ hv hvlt (by omega) (by omega) bs hps
  · exact addLower_psound env t.lhs v _ hv hvlt (by omega) (by omega) bs hps

/-- `_handle` on a truism that holds (unsigned orderings, `==`, `!=`) -/
theorem handle_pt (t : Tru) (bs bs' : Bounds) (hok : TruOK anno env t) (hop : unsOp t.op = true) (hh : t.holds env)
    (hps : PSound env bs) (h : handle anno t bs = .ok bs') : PSound env bs' := by
  unfold handle at h
  obtain ⟨c, hc, h⟩ := bindM_ok h
  by_cases hc1 : c = 1
  · rw [if_pos hc1] at h; have := pureM_ok h; subst this; exact hps
  · rw [if_neg hc1] at h
    obtain ⟨p, hp, _⟩ := card_conv t.lhs hok.sym c hc
    obtain ⟨v, hv, hcmp⟩ := hh
    obtain ⟨_, _, _, hvlt, hwpos⟩ := conv_val anno env hctx hnrm t.lhs hok.ok [] p hp v hv
    have hpw : ((2 ^ wd t.lhs : Nat) : Int) = (2 : Int) ^ wd t.lhs := by push_cast; rfl
    have hvi : (v : Int) < (2 : Int) ^ wd t.lhs := by rw [← hpw]; exact_mod_cast hvlt
    have hrw : t.r < 2 ^ wd t.lhs := by rw [hok.wd_eq]; exact hok.r_lt
    cases hop' : t.op <;> rw [hop'] at h hop hcmp <;> simp only [unsOp, Bool.false_eq_true] at hop <;>
      simp only [concCmp, decide_eq_true_eq] at hcmp
    · exact handleCmp_pt anno env hctx hnrm t bs bs' hok (Or.inl hop') ⟨v, hv, by rw [hop']; simpa [concCmp] using hcmp⟩ hps h
    · exact handleCmp_pt anno env hctx hnrm t bs bs' hok (Or.inr (Or.inl hop')) ⟨v, hv, by rw [hop']; simpa [concCmp] using hcmp⟩ hps h
    · exact handleCmp_pt anno env hctx hnrm t bs bs' hok (Or.inr (Or.inr (Or.inl hop'))) ⟨v, hv, by rw [hop']; simpa [concCmp] using hcmp⟩ hps h
    · exact handleCmp_pt anno env hctx hnrm t bs bs' hok (Or.inr (Or.inr (Or.inr hop'))) ⟨v, hv, by rw [hop']; simpa [concCmp] using hcmp⟩ hps h
    · -- ==
      have := pureM_ok h; subst this
      have hvr : (v : Int) = (t.r : Int) := by rw [hcmp]
      exact addLower_psound env t.lhs v _ hv hvlt (by omega) (by omega) _
        (addUpper_psound env t.lhs v _ hv hvlt (by omega) (by omega) bs hps)
    · -- !=
      by_cases h0 : t.r = 0
      · rw [if_pos h0] at h; have := pureM_ok h; subst this
        exact addLower_psound env t.lhs v 1 hv hvlt (by omega) (by omega) bs hps
      · rw [if_neg h0] at h
        by_cases hmx : t.r = 2 ^ t.w - 1
        · rw [if_pos hmx] at h; have := pureM_ok h; subst this
          have hw2 : (2 : Int) ^ t.w = (2 : Int) ^ wd t.lhs := by rw [hok.wd_eq]
          have hvne : v ≠ 2 ^ wd t.lhs - 1 := by rw [hok.wd_eq, ← hmx]; exact hcmp
          have hvn : (v : Int) ≤ (2 : Int) ^ wd t.lhs - 1 - 1 := by
            have : v + 1 < 2 ^ wd t.lhs := by omega
            have : ((v + 1 : Nat) : Int) < ((2 ^ wd t.lhs : Nat) : Int) := by exact_mod_cast this
            rw [hpw] at this; push_cast at this; omega
          rw [hw2]
          exact addUpper_psound env t.lhs v _ hv hvlt hvn (by omega) bs hps
        · rw [if_neg hmx] at h; have := pureM_ok h; subst this; exact hps

end

end Claripy.VSA.Bal
