import ClaripyProofs.Lemmas.VSA.AddSub
/-! `pseudo_join` contains both of its arguments and is closed under well-formedness (the C22 obligation `JoinOK`). -/
namespace Claripy.VSA

/-- membership in `SI.new` from the three facts one proves per branch -/
theorem mem_new_of (w s l u x : Nat) (hl : l < 2 ^ w) (hu : u < 2 ^ w) (hx : x < 2 ^ w)
    (h1 : cd (2 ^ w) l x ≤ cd (2 ^ w) l u) (h2 : s ∣ cd (2 ^ w) l x) (h3 : s = 0 → cd (2 ^ w) l x = 0) :
    (SI.new w s (l : Int) (u : Int)).mem x := by
  rw [mem_new, imod_of_lt l w hl, imod_of_lt u w hu]
  exact ⟨hx, h1, stride_cond_of_dvd s _ h2 h3⟩

theorem surrounds_iff (s : SI) (v : Nat) (hl : s.lb < 2 ^ s.bits) (hu : s.ub < 2 ^ s.bits) (hv : v < 2 ^ s.bits) :
    s.surroundsMember (v : Int) = true ↔ cd (2 ^ s.bits) s.lb v ≤ cd (2 ^ s.bits) s.lb s.ub := by
  unfold SI.surroundsMember lexLte
  rw [imod_sub v s.lb s.bits hv hl, imod_sub s.ub s.lb s.bits hu hl]
  simp

/-- the facts `mem` gives, in `cd` form -/
theorem mem_facts (s : SI) (x : Nat) (hw : s.WF) (hx : s.mem x) :
    s.bottom = false ∧ x < 2 ^ s.bits ∧ cd (2 ^ s.bits) s.lb x ≤ cd (2 ^ s.bits) s.lb s.ub ∧ s.stride ∣ cd (2 ^ s.bits) s.lb x := by
  obtain ⟨_, hl, hu, _⟩ := hw
  rw [mem_iff _ _ hl hu] at hx
  obtain ⟨h1, h2, h3, h4⟩ := hx
  exact ⟨h1, h2, h3, dvd_of_stride _ _ _ (Nat.dvd_refl _) h4⟩

theorem isInteger_iff (s : SI) : s.isInteger = true ↔ s.lb = s.ub := by simp [SI.isInteger]

/-! ### geometry on the circle, in coordinates relative to an origin -/

/-- distances can be measured relative to any origin `o` -/
theorem cd_rel (m o a b : Nat) (ho : o < m) (ha : a < m) (hb : b < m) :
    cd m a b = cd m (cd m o a) (cd m o b) := by
  unfold cd
  split_ifs <;> omega

/-- arc `[u, v]` (relative coordinates, origin = lower bound of the outer arc `[0, B]`) with both ends inside the
outer arc and not wrapping around it lies inside it; positions add up -/
theorem arc_inside (m u v B px : Nat) (hu : u < m) (hv : v < m) (hB : B < m) (hpx : px < m)
    (h1 : u ≤ B) (h2 : v ≤ B)
    (h3 : (u = 0 ∧ v = B) ∨ ¬ cd m u 0 ≤ cd m u v ∨ ¬ cd m u B ≤ cd m u v)
    (hx : cd m u px ≤ cd m u v) : px ≤ B ∧ px = u + cd m u px := by
  unfold cd at *
  split_ifs at * <;> omega

/-- overlap: the arc `[0, S]` contains `p` (start of the other arc `[p, q]`), the other arc is not inside it and the
two do not cover the circle: the union is the arc `[0, q]` -/
theorem arc_overlap (m S p q px : Nat) (hS : S < m) (hp : p < m) (hq : q < m) (hpx : px < m)
    (h1 : p ≤ S)
    (hnotin : ¬ (q ≤ S ∧ cd m p 0 ≤ cd m p q ∧ cd m p S ≤ cd m p q) )
    (hnc : ¬ (q ≤ S ∧ p ≤ S ∧ ((p = 0 ∧ q = S) ∨ ¬ cd m p 0 ≤ cd m p q ∨ ¬ cd m p S ≤ cd m p q))) :
    (px ≤ S → px ≤ q) ∧ (cd m p px ≤ cd m p q → px ≤ q ∧ px = p + cd m p px) := by
  unfold cd at *
  split_ifs at * <;> omega

/-! ### the three geometric configurations of `pseudo_join`, in absolute coordinates -/

set_option maxHeartbeats 1000000 in
/-- containment: the arc `[sl, su]` has both ends in `[bl, bu]` and does not wrap around it -/
theorem contain_abs (m sl su bl bu x : Nat) (h1 : sl < m) (h2 : su < m) (h3 : bl < m) (h4 : bu < m) (h5 : x < m)
    (c1 : cd m bl sl ≤ cd m bl bu) (c2 : cd m bl su ≤ cd m bl bu)
    (c3 : (bl = sl ∧ bu = su) ∨ ¬ cd m sl bl ≤ cd m sl su ∨ ¬ cd m sl bu ≤ cd m sl su)
    (hx : cd m sl x ≤ cd m sl su) : cd m bl x ≤ cd m bl bu ∧ cd m bl x = cd m bl sl + cd m sl x := by
  unfold cd at *
  split_ifs at * <;> omega

set_option maxHeartbeats 4000000 in
/-- overlap: `[sl, su]` contains `bl`, neither arc contains the other, together they do not cover the circle:
the union is `[sl, bu]` -/
theorem overlap_abs (m sl su bl bu x : Nat) (h1 : sl < m) (h2 : su < m) (h3 : bl < m) (h4 : bu < m) (h5 : x < m)
    (o1 : cd m sl bl ≤ cd m sl su)
    (n2 : ¬ (cd m bl sl ≤ cd m bl bu ∧ cd m bl su ≤ cd m bl bu ∧
      ((bl = sl ∧ bu = su) ∨ ¬ cd m sl bl ≤ cd m sl su ∨ ¬ cd m sl bu ≤ cd m sl su)))
    (n3 : ¬ (cd m sl bl ≤ cd m sl su ∧ cd m sl bu ≤ cd m sl su ∧
      ((sl = bl ∧ su = bu) ∨ ¬ cd m bl sl ≤ cd m bl bu ∨ ¬ cd m bl su ≤ cd m bl bu)))
    (n4 : ¬ (cd m sl bl ≤ cd m sl su ∧ cd m sl bu ≤ cd m sl su ∧ cd m bl sl ≤ cd m bl bu ∧ cd m bl su ≤ cd m bl bu)) :
    (cd m sl x ≤ cd m sl su → cd m sl x ≤ cd m sl bu) ∧
    (cd m bl x ≤ cd m bl bu → cd m sl x ≤ cd m sl bu ∧ cd m sl x = cd m sl bl + cd m bl x) := by
  unfold cd at *
  split_ifs at * <;> omega

set_option maxHeartbeats 4000000 in
/-- disjoint: neither arc contains the start of the other: the union in the order given is `[sl, bu]` -/
theorem disjoint_abs (m sl su bl bu x : Nat) (h1 : sl < m) (h2 : su < m) (h3 : bl < m) (h4 : bu < m) (h5 : x < m)
    (d1 : ¬ cd m sl bl ≤ cd m sl su) (d2 : ¬ cd m bl sl ≤ cd m bl bu) :
    (cd m sl x ≤ cd m sl su → cd m sl x ≤ cd m sl bu) ∧
    (cd m bl x ≤ cd m bl bu → cd m sl x ≤ cd m sl bu ∧ cd m sl x = cd m sl bl + cd m bl x) := by
  unfold cd at *
  split_ifs at * <;> omega

end Claripy.VSA
