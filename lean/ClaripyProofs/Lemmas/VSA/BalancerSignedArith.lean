import ClaripyProofs.Lemmas.VSA.BalancerPair
import ClaripyProofs.Lemmas.VSA.Signed
/-!
Signed orderings in the balancer: the arithmetic.  `H = 2^(w-1)`, `m = 2 H`; the signed value of `v` is `ti H v`
(`Conc.toInt w v`, `toInt_ti`).  A signed ordering against a literal is a wrapped interval that starts / ends at the
north pole (`H - 1 | H`); the bounds `_handle_comparison` records for it are SIGNED integers, reduced modulo `2^w` only
when `_replacements_iter` builds `SI(1, mn, mx)` — `InB_signed` is the signed counterpart of `InB_of_Win`.
-/
set_option linter.unusedSectionVars false
namespace Claripy.VSA.Bal
open Claripy.VSA

/-- `x % 2^w` of a Python integer in `[-2^w, 2^w)` -/
theorem imod_range (z : Int) (w : Nat) (h1 : -((2 : Int) ^ w) ≤ z) (h2 : z < (2 : Int) ^ w) :
    (0 ≤ z ∧ (imod z w : Int) = z) ∨ (z < 0 ∧ (imod z w : Int) = z + (2 : Int) ^ w) := by
  have hp : ((2 ^ w : Nat) : Int) = (2 : Int) ^ w := by push_cast; rfl
  by_cases h0 : 0 ≤ z
  · exact Or.inl ⟨h0, imod_int_of_lt z w h0 h2⟩
  · right
    refine ⟨by omega, ?_⟩
    unfold imod
    rw [hp]
    have e : z % (2 : Int) ^ w = z + (2 : Int) ^ w := by
      rw [← Int.add_emod_right z ((2 : Int) ^ w)]
      exact Int.emod_eq_of_lt (by omega) (by omega)
    rw [e, Int.toNat_of_nonneg (by omega)]

/-! ### signed orderings against a literal as wrapped intervals (circle of size `2 H`) -/

theorem sle_Win (H x r : Nat) (hx : x < 2 * H) (hr : r < 2 * H) (h : ti H x ≤ ti H r) : Win (2 * H) H r x := by
  unfold ti at h; unfold Win cd
  split_ifs at h ⊢ <;> omega

theorem slt_Win (H x r : Nat) (hx : x < 2 * H) (hr : r < 2 * H) (h : ti H x < ti H r) :
    r ≠ H ∧ Win (2 * H) H ((r + 2 * H - 1) % (2 * H)) x := by
  have e : (r + 2 * H - 1) % (2 * H) = if r = 0 then 2 * H - 1 else r - 1 := by
    split_ifs with h0
    · subst h0; rw [Nat.zero_add]; exact Nat.mod_eq_of_lt (by omega)
    · have : r + 2 * H - 1 = (r - 1) + 2 * H := by omega
      rw [this, Nat.add_mod_right, Nat.mod_eq_of_lt (by omega)]
  rw [e]
  unfold ti at h; unfold Win cd
  split_ifs at h ⊢ <;> omega

theorem sge_Win (H x r : Nat) (hH : 0 < H) (hx : x < 2 * H) (hr : r < 2 * H) (h : ti H r ≤ ti H x) : Win (2 * H) r (H - 1) x := by
  unfold ti at h; unfold Win cd
  split_ifs at h ⊢ <;> omega

theorem sgt_Win (H x r : Nat) (hH : 0 < H) (hx : x < 2 * H) (hr : r < 2 * H) (h : ti H r < ti H x) :
    r ≠ H - 1 ∧ Win (2 * H) ((r + 1) % (2 * H)) (H - 1) x := by
  have e : (r + 1) % (2 * H) = if r + 1 = 2 * H then 0 else r + 1 := by
    split_ifs with h0
    · rw [h0, Nat.mod_self]
    · exact Nat.mod_eq_of_lt (by omega)
  rw [e]
  unfold ti at h; unfold Win cd
  split_ifs at h ⊢ <;> omega

/-- the signed value of the predecessor / successor on the circle -/
theorem ti_pred (H z : Nat) (hz : z < 2 * H) (hne : z ≠ H) : ti H ((z + 2 * H - 1) % (2 * H)) = ti H z - 1 := by
  have e : (z + 2 * H - 1) % (2 * H) = if z = 0 then 2 * H - 1 else z - 1 := by
    split_ifs with h0
    · subst h0; rw [Nat.zero_add]; exact Nat.mod_eq_of_lt (by omega)
    · have : z + 2 * H - 1 = (z - 1) + 2 * H := by omega
      rw [this, Nat.add_mod_right, Nat.mod_eq_of_lt (by omega)]
  rw [e]; unfold ti
  split_ifs <;> omega

theorem ti_succ (H z : Nat) (hH : 0 < H) (hz : z < 2 * H) (hne : z ≠ H - 1) : ti H ((z + 1) % (2 * H)) = ti H z + 1 := by
  have e : (z + 1) % (2 * H) = if z + 1 = 2 * H then 0 else z + 1 := by
    split_ifs with h0
    · rw [h0, Nat.mod_self]
    · exact Nat.mod_eq_of_lt (by omega)
  rw [e]; unfold ti
  split_ifs <;> omega

/-- shrinking a wrapped interval from below: a new lower end between the old one and `x` -/
theorem Win_shrink_lo (m l0 u0 x l : Nat) (hl0 : l0 < m) (hu0 : u0 < m) (hx : x < m) (hl : l < m)
    (hW : Win m l0 u0 x) (h : cd m l0 l ≤ cd m l0 x) : Win m l u0 x := by
  unfold Win cd at *
  split_ifs at * <;> omega

/-- shrinking a wrapped interval from above: a new upper end between `x` and the old one -/
theorem Win_shrink_hi (m l0 u0 x u : Nat) (hl0 : l0 < m) (hu0 : u0 < m) (hx : x < m) (hu : u < m)
    (hW : Win m l0 u0 x) (h : cd m x u ≤ cd m x u0) : Win m l0 u x := by
  unfold Win cd at *
  split_ifs at * <;> omega

/-- the lower end `_handle_comparison` records for a signed ordering: `max(int_min, a, L)` read modulo `2 H` lies between
`l0` and `x` -/
theorem signed_lo_between (H l0 x lf : Nat) (a L : Int) (hH : 0 < H) (hl0 : l0 < 2 * H) (hx : x < 2 * H)
    (hax : a ≤ ti H x) (hL : L = ti H l0 ∨ (L = (H : Int) ∧ l0 = H))
    (hlf : (0 ≤ max (-(H : Int)) (max a L) ∧ (lf : Int) = max (-(H : Int)) (max a L)) ∨
      (max (-(H : Int)) (max a L) < 0 ∧ (lf : Int) = max (-(H : Int)) (max a L) + 2 * H)) :
    lf < 2 * H ∧ cd (2 * H) l0 lf ≤ cd (2 * H) l0 x := by
  unfold cd
  unfold ti at hax hL
  rcases hL with hL | ⟨hL, hl⟩ <;> rcases hlf with ⟨_, hlf⟩ | ⟨_, hlf⟩ <;> split_ifs at * <;> omega

theorem signed_hi_between (H u0 x uf : Nat) (b U : Int) (hH : 0 < H) (hu0 : u0 < 2 * H) (hx : x < 2 * H)
    (hxb : ti H x ≤ b) (hU : U = ti H u0 ∨ (U = -(H : Int) - 1 ∧ u0 = H - 1))
    (huf : (0 ≤ min ((H : Int) - 1) (min b U) ∧ (uf : Int) = min ((H : Int) - 1) (min b U)) ∨
      (min ((H : Int) - 1) (min b U) < 0 ∧ (uf : Int) = min ((H : Int) - 1) (min b U) + 2 * H)) :
    uf < 2 * H ∧ cd (2 * H) x uf ≤ cd (2 * H) x u0 := by
  unfold cd
  unfold ti at hxb hU
  rcases hU with hU | ⟨hU, hu⟩ <;> rcases huf with ⟨_, huf⟩ | ⟨_, huf⟩ <;> split_ifs at * <;> omega

theorem ti_range (H v : Nat) (hv : v < 2 * H) : -(H : Int) ≤ ti H v ∧ ti H v < H := by
  unfold ti; split_ifs <;> omega

/-- **the signed counterpart of `InB_of_Win`**: the pair `_handle_comparison` records for a signed ordering and its implicit
assumption, read as `_replacements_iter` reads it, contains `x` when the exact wrapped pre-image `W[l0, u0]` does and the
signed hull `[a, b]` of the operand does -/
theorem InB_signed (w l0 u0 x : Nat) (a b L U : Int) (hw : 0 < w)
    (hl0 : l0 < 2 ^ w) (hu0 : u0 < 2 ^ w) (hx : x < 2 ^ w)
    (hax : a ≤ Conc.toInt w x) (hxb : Conc.toInt w x ≤ b)
    (hL : L = Conc.toInt w l0 ∨ (L = (2 : Int) ^ (w - 1) ∧ l0 = 2 ^ (w - 1)))
    (hU : U = Conc.toInt w u0 ∨ (U = -(2 : Int) ^ (w - 1) - 1 ∧ u0 = 2 ^ (w - 1) - 1))
    (hW : Win (2 ^ w) l0 u0 x) :
    InB w (some (max (-((2 : Int) ^ (w - 1))) (max a L))) (some (min ((2 : Int) ^ (w - 1) - 1) (min b U))) x := by
  unfold InB
  simp only [Option.getD_some]
  have hm := two_pow_half w hw
  have hH := two_pow_pos' (w - 1)
  rw [toInt_ti w _ hw] at hax hxb hL hU
  have hHc : (2 : Int) ^ (w - 1) = ((2 ^ (w - 1) : Nat) : Int) := by push_cast; rfl
  have hmc : (2 : Int) ^ w = 2 * ((2 ^ (w - 1) : Nat) : Int) := by
    have : ((2 ^ w : Nat) : Int) = ((2 * 2 ^ (w - 1) : Nat) : Int) := by rw [hm]
    push_cast at this; rw [← hHc]; exact this
  rw [hHc] at hL hU ⊢
  rw [hm] at hl0 hu0 hx hW ⊢
  generalize 2 ^ (w - 1) = H at *
  obtain ⟨tx1, tx2⟩ := ti_range H x hx
  obtain ⟨tl1, tl2⟩ := ti_range H l0 hl0
  obtain ⟨tu1, tu2⟩ := ti_range H u0 hu0
  have hlf := imod_range (max (-(H : Int)) (max a L)) w (by rw [hmc]; rcases hL with h | ⟨h, _⟩ <;> omega)
    (by rw [hmc]; rcases hL with h | ⟨h, _⟩ <;> omega)
  have huf := imod_range (min ((H : Int) - 1) (min b U)) w (by rw [hmc]; rcases hU with h | ⟨h, _⟩ <;> omega)
    (by rw [hmc]; rcases hU with h | ⟨h, _⟩ <;> omega)
  rw [hmc] at hlf huf
  obtain ⟨h1, h2⟩ := signed_lo_between H l0 x _ a L hH hl0 hx hax hL hlf
  have hW1 := Win_shrink_lo (2 * H) l0 u0 x _ hl0 hu0 hx h1 hW h2
  obtain ⟨h3, h4⟩ := signed_hi_between H u0 x _ b U hH hu0 hx hxb hU huf
  exact Win_shrink_hi (2 * H) _ u0 x _ h1 hu0 hx h3 hW1 h4

end Claripy.VSA.Bal
