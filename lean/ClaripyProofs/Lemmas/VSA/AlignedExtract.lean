import ClaripyProofs.Lemmas.VSA.AlignedShift
import ClaripyProofs.Lemmas.VSA.Extract
/-! `cast_low` and `extract` keep alignment. -/
namespace Claripy.VSA

theorem new_singleton_aligned (w : Nat) (st : Nat) (l : Int) : (SI.new w st l l).Aligned := by
  left; rw [new_eq, if_pos rfl]

/-- **`cast_low(tok)` of an aligned interval is aligned** (all six branches) -/
theorem castLow_aligned (s r : SI) (tok : Nat) (hs : s.WF) (hnb : s.bottom = false) (ht0 : 0 < tok) (al : s.Aligned)
    (h : s.castLow tok = .ok r) : r.Aligned := by
  have hsnd := (castLow_sound s r tok hs ht0 h).2 s.ub (mem_ub_of_aligned s hs hnb al)
  have hT := two_pow_pos' tok
  unfold SI.castLow at h
  by_cases hgt : tok > s.bits
  · rw [if_pos hgt] at h; cases h
  rw [if_neg hgt] at h
  simp only [and_mask] at h
  by_cases h1 : tok = s.bits
  · rw [if_pos h1] at h
    have : r = s.renorm := by cases h; rfl
    subst this
    exact renorm_aligned s hs al
  rw [if_neg h1] at h
  by_cases h2 : s.lb ≤ s.ub ∧ s.lb % 2 ^ tok = s.lb ∧ s.ub % 2 ^ tok = s.ub
  · rw [if_pos h2] at h
    have : r = SI.new tok s.stride s.lb s.ub := by cases h; rfl
    subst this
    apply new_aligned_of_mem
    rw [imod_nat]; exact hsnd
  rw [if_neg h2] at h
  by_cases h3 : s.lb ≤ s.ub ∧ s.ub - s.lb ≤ 2 ^ tok - 1
  · rw [if_pos h3] at h
    have : r = SI.new tok s.stride ((s.lb % 2 ^ tok : Nat) : Int) ((s.ub % 2 ^ tok : Nat) : Int) := by cases h; rfl
    subst this
    apply new_aligned_of_mem
    rw [imod_nat, Nat.mod_mod]; exact hsnd
  rw [if_neg h3] at h
  by_cases h4 : s.ub % 2 ^ tok = s.lb % 2 ^ tok ∧ imod ((s.ub : Int) - s.lb) tok = 0 ∧ s.stride % 2 ^ tok = 0
  · rw [if_pos h4] at h
    have : r = SI.new tok 0 ((s.lb % 2 ^ tok : Nat) : Int) ((s.lb % 2 ^ tok : Nat) : Int) := by cases h; rfl
    subst this
    exact new_singleton_aligned _ _ _
  rw [if_neg h4] at h
  generalize ntz s.stride = n at h
  by_cases h5 : tok > n
  · rw [if_pos h5] at h
    have hr : r = { bits := tok, stride := 2 ^ n, lb := s.lb % 2 ^ n,
                    ub := 2 ^ n * ((maxInt tok - s.lb % 2 ^ n) / 2 ^ n) + s.lb % 2 ^ n } := by cases h; rfl
    subst hr
    apply aligned_of_mem_ub
    have hN := two_pow_pos' n
    have hlow : s.lb % 2 ^ n < 2 ^ n := Nat.mod_lt _ hN
    have hT2 : 2 * 2 ^ n ≤ 2 ^ tok := by
      have : 2 ^ (n + 1) ≤ 2 ^ tok := Nat.pow_le_pow_right (by omega) (by omega)
      rw [Nat.pow_succ] at this; omega
    generalize hlg : s.lb % 2 ^ n = lower at hlow
    unfold maxInt
    generalize hkg : (2 ^ tok - 1 - lower) / 2 ^ n = k
    have hk1 : 2 ^ n * k ≤ 2 ^ tok - 1 - lower := by rw [← hkg]; exact Nat.mul_div_le _ _
    rw [mem_iff _ _ (by show lower < 2 ^ tok; omega) (by show 2 ^ n * k + lower < 2 ^ tok; omega)]
    show false = false ∧ 2 ^ n * k + lower < 2 ^ tok ∧
      cd (2 ^ tok) lower (2 ^ n * k + lower) ≤ cd (2 ^ tok) lower (2 ^ n * k + lower) ∧
      (if 2 ^ n = 0 then cd (2 ^ tok) lower (2 ^ n * k + lower) = 0 else cd (2 ^ tok) lower (2 ^ n * k + lower) % 2 ^ n = 0)
    have e2 : cd (2 ^ tok) lower (2 ^ n * k + lower) = 2 ^ n * k := by unfold cd; split_ifs <;> omega
    rw [e2, if_neg (by omega)]
    exact ⟨rfl, by omega, Nat.le_refl _, Nat.mul_mod_right _ _⟩
  · rw [if_neg h5] at h
    have : r = SI.new tok 0 ((s.lb % 2 ^ tok : Nat) : Int) ((s.lb % 2 ^ tok : Nat) : Int) := by cases h; rfl
    subst this
    exact new_singleton_aligned _ _ _

theorem renorm_nb (s : SI) (h : s.bottom = false) : s.renorm.bottom = false := by
  unfold SI.renorm; rw [h]; simp

/-- **`extract(high, low)` of an aligned interval is aligned** -/
theorem extract_aligned (s r : SI) (hi lo : Nat) (hs : s.WF) (hnb : s.bottom = false) (hlo : lo ≤ hi) (hhi : hi < s.bits)
    (al : s.Aligned) (h : s.extract hi lo = .ok r) : r.Aligned := by
  unfold SI.extract at h
  simp only [bind, Except.bind, pure, Except.pure] at h
  by_cases hl0 : lo = 0
  · subst hl0
    rw [if_neg (by simp)] at h
    have hrw := renorm_WFw s.bits s ⟨hs, rfl⟩
    have hra := renorm_aligned s hs al
    by_cases hb : hi + 1 - 0 ≠ s.bits
    · rw [if_pos hb] at h
      cases hc : s.renorm.castLow (hi + 1 - 0) with
      | error e => rw [hc] at h; cases h
      | ok r2 =>
        rw [hc] at h
        have hr : r = r2.renorm := by cases h; rfl
        subst hr
        obtain ⟨c1, _⟩ := castLow_sound s.renorm r2 (hi + 1 - 0) hrw.1 (by omega) hc
        exact renorm_aligned r2 c1.1 (castLow_aligned s.renorm r2 _ hrw.1 (renorm_nb s hnb) (by omega) hra hc)
    · rw [if_neg hb] at h
      have hr : r = s.renorm.renorm := by cases h; rfl
      subst hr
      exact renorm_aligned _ hrw.1 hra
  · rw [if_pos hl0] at h
    cases hA : s.rshiftLogicalRange lo lo with
    | error e => rw [hA] at h; cases h
    | ok r1 =>
      rw [hA] at h
      simp only [] at h
      unfold SI.rshiftLogicalRange at hA
      have hf : ∀ k si, rshiftLogicalK recFuel s k = .ok si → WFw s.bits si :=
        fun k si hk => (rshiftLogicalK_sound 62 k s si hs hnb hk).1
      obtain ⟨g1, g2⟩ := overRange_sup s.bits s rfl hs.1 lo lo _ hf r1 hA
      have a1 : r1.Aligned := overRange_aligned s.bits s lo lo _
        (fun k si hk => ⟨hf k si hk, rshiftLogicalK_aligned 62 k s si hs hnb al hk⟩) r1 hA
      -- r1 is not empty: it contains the shifted lower bound
      obtain ⟨si, hsi, hsub⟩ := g2 lo (Nat.le_refl _) (Nat.le_refl _)
      have hmem := hsub _ ((rshiftLogicalK_sound 62 lo s si hs hnb hsi).2 s.lb (lb_mem s hs hnb))
      have hb : hi + 1 - lo ≠ s.bits := by omega
      rw [if_pos hb] at h
      cases hc : r1.castLow (hi + 1 - lo) with
      | error e => rw [hc] at h; cases h
      | ok r2 =>
        rw [hc] at h
        have hr : r = r2.renorm := by cases h; rfl
        subst hr
        obtain ⟨c1, _⟩ := castLow_sound r1 r2 (hi + 1 - lo) g1.1 (by omega) hc
        exact renorm_aligned r2 c1.1 (castLow_aligned r1 r2 _ g1.1 hmem.1 (by omega) a1 hc)

end Claripy.VSA
