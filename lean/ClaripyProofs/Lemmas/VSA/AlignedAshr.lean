import ClaripyProofs.Lemmas.VSA.AlignedBits
import ClaripyProofs.Lemmas.VSA.AshrSound
/-! `rshift_arithmetic` keeps alignment. -/
namespace Claripy.VSA

/-- the accumulating loop over shift amounts keeps alignment (hypothesis only on the amounts visited) -/
theorem overRangeAux_aligned_on (w : Nat) (f : Nat → R SI) :
    ∀ (ks : List Nat) (acc res : Option SI), (∀ k, k ∈ ks → ∀ si, f k = .ok si → WFw w si ∧ si.Aligned) →
      (∀ a, acc = some a → WFw w a ∧ a.Aligned) →
      overRangeAux f ks acc = .ok res → (∀ r, res = some r → WFw w r ∧ r.Aligned) := by
  intro ks
  induction ks with
  | nil =>
    intro acc res _ hacc h
    unfold overRangeAux at h
    have : res = acc := by cases h; rfl
    subst this
    exact hacc
  | cons k ks ih =>
    intro acc res hf hacc h
    unfold overRangeAux at h
    cases hfk : f k with
    | error e => rw [hfk] at h; cases h
    | ok si =>
      rw [hfk] at h
      simp only [] at h
      have hsi := hf k List.mem_cons_self si hfk
      have hf' : ∀ k', k' ∈ ks → ∀ si, f k' = .ok si → WFw w si ∧ si.Aligned :=
        fun k' hk' => hf k' (List.mem_cons_of_mem _ hk')
      cases acc with
      | none =>
        simp only [] at h
        exact ih (some si) res hf' (fun a ha => by cases ha; exact hsi) h
      | some a =>
        simp only [] at h
        have ha := hacc a rfl
        cases hu : a.union si with
        | error e => rw [hu] at h; cases h
        | ok u =>
          rw [hu] at h
          simp only [] at h
          have hu1 := (union_sup w a si u ha.1 hsi.1 hu).1
          have hu2 := union_aligned w a si u ha.1 hsi.1 ha.2 hsi.2 hu
          exact ih (some u) res hf' (fun b hb => by cases hb; exact ⟨hu1, hu2⟩) h

theorem overRange_aligned_on (w : Nat) (self : SI) (lower upper : Nat) (f : Nat → R SI)
    (hf : ∀ k, lower ≤ k → k ≤ upper → ∀ si, f k = .ok si → WFw w si ∧ si.Aligned) (r : SI)
    (h : overRange self lower upper f = .ok r) : r.Aligned := by
  unfold overRange at h
  cases haux : overRangeAux f ((List.range (upper + 1 - lower)).map (lower + ·)) none with
  | error e => rw [haux] at h; cases h
  | ok res =>
    rw [haux] at h
    have h1 := overRangeAux_aligned_on w f _ none res (by
      intro k hk
      obtain ⟨i, hi, hik⟩ := List.mem_map.1 hk
      have := List.mem_range.1 hi
      exact hf k (by omega) (by omega)) (fun a ha => by cases ha) haux
    cases res with
    | none =>
      simp only [] at h
      have hr : r = SI.top self.bits := by cases h; rfl
      subst hr
      exact top_aligned _
    | some u =>
      simp only [] at h
      have hr : r = u.renorm := by cases h; rfl
      subst hr
      have hu := h1 u rfl
      exact renorm_aligned u hu.1.1 hu.2

/-- the loop `for q in rest: acc = acc.union(f(q))` keeps alignment -/
theorem unionLoop_aligned (w : Nat) (f : SI → R SI) : ∀ (l : List SI) (acc r : SI),
    (∀ q, q ∈ l → ∀ t, f q = .ok t → WFw w t ∧ t.Aligned) → WFw w acc → acc.Aligned → unionLoop f l acc = .ok r →
      r.Aligned := by
  intro l
  induction l with
  | nil =>
    intro acc r _ _ hal h
    have : r = acc := by cases h; rfl
    subst this
    exact hal
  | cons q qs ih =>
    intro acc r hf hacc hal h
    unfold unionLoop at h
    cases hq : f q with
    | error e => rw [hq] at h; cases h
    | ok t =>
      rw [hq] at h
      simp only [] at h
      cases hu : acc.union t with
      | error e => rw [hu] at h; cases h
      | ok u =>
        rw [hu] at h
        simp only [] at h
        have ht := hf q List.mem_cons_self t hq
        have u1 := (union_sup w acc t u hacc ht.1 hu).1
        have u2 := union_aligned w acc t u hacc ht.1 hal ht.2 hu
        exact ih u r (fun q' hq' => hf q' (List.mem_cons_of_mem _ hq')) u1 u2 h

/-- one aligned piece (non-wrapping, inside one half of the circle) shifted arithmetically is aligned -/
theorem ashrPiece_aligned (s p : SI) (k : Nat) (hs0 : 0 < s.bits) (hp : WFw s.bits p) (hpb : p.bottom = false)
    (hle : p.lb ≤ p.ub) (hhalf : p.ub < 2 ^ (s.bits - 1) ∨ 2 ^ (s.bits - 1) ≤ p.lb)
    (hst : p.stride = 0 ∨ p.stride = s.stride) (hk : k ≤ s.bits) (al : p.Aligned) : (ashrPiece s p k).Aligned := by
  have hH := two_pow_pos' (s.bits - 1)
  have hm2 := two_pow_half s.bits hs0
  have hpl : p.lb < 2 ^ s.bits := by have := hp.1.2.1; rwa [hp.2] at this
  have hpu : p.ub < 2 ^ s.bits := by have := hp.1.2.2.1; rwa [hp.2] at this
  have hrs := rshiftStride_ne_zero s.stride k
  obtain ⟨_, hloq⟩ := ashr_high s.bits p.lb k hk hpl
  obtain ⟨_, hhiq⟩ := ashr_high s.bits p.ub k hk hpu
  have hQ : 2 ^ (s.bits - k) ≤ 2 ^ s.bits := Nat.pow_le_pow_right (by omega) (by omega)
  have hmono : p.lb >>> k ≤ p.ub >>> k := by
    simp only [Nat.shiftRight_eq_div_pow]; exact Nat.div_le_div_right hle
  have h3 : rshiftStride s.stride k ∣ p.ub >>> k - p.lb >>> k := by
    have hm := rshift_piece_mem s.bits k s.stride p hp hle hst p.ub (mem_ub_of_aligned p hp.1 hpb al)
    rw [mem_new, imod_of_lt _ _ (by omega), imod_of_lt _ _ (by omega), if_neg hrs] at hm
    have e1 : cd (2 ^ s.bits) (p.lb >>> k) (p.ub >>> k) = p.ub >>> k - p.lb >>> k := by unfold cd; split_ifs <;> omega
    rw [e1] at hm
    exact Nat.dvd_of_mod_eq_zero hm.2.2
  unfold ashrPiece
  simp only [hp.2, mask_val s.bits k hk]
  rcases hhalf with hlow | hhigh
  · have hnh : decide (p.lb > 2 ^ (s.bits - 1) - 1) = false := by simp; omega
    simp only [hnh, Bool.false_eq_true, if_false]
    apply new_aligned_of_mem
    rw [imod_of_lt _ _ (by omega)]
    exact mem_new_lin s.bits _ _ _ _ (by omega) hmono (Nat.le_refl _) h3
  · have hnh : decide (p.lb > 2 ^ (s.bits - 1) - 1) = true := by simp; omega
    simp only [hnh, if_true]
    have hor : ∀ q, q < 2 ^ (s.bits - k) → q ||| (2 ^ s.bits - 2 ^ (s.bits - k)) = q + (2 ^ s.bits - 2 ^ (s.bits - k)) := by
      intro q hq
      have hw : 2 ^ s.bits = 2 ^ k * 2 ^ (s.bits - k) := by rw [← Nat.pow_add]; congr 1; omega
      have : 2 ^ s.bits - 2 ^ (s.bits - k) = (2 ^ k - 1) * 2 ^ (s.bits - k) := by rw [Nat.sub_mul, Nat.one_mul, ← hw]
      rw [this, Nat.or_comm, mul_or_low _ _ _ hq, Nat.add_comm]
    rw [hor _ hloq, hor _ hhiq]
    apply new_aligned_of_mem
    rw [imod_of_lt _ _ (by omega)]
    apply mem_new_lin s.bits _ _ _ _ (by omega) (by omega) (Nat.le_refl _)
    rw [Nat.add_sub_add_right]
    exact h3

/-- `_rshift_arithmetic(k)` of an aligned interval (constructor-normal form) is aligned -/
theorem rshiftArithK_aligned (k : Nat) : ∀ (fuel : Nat) (s r : SI), s.WF → s.bottom = false → Nrm s → k ≤ s.bits →
    s.Aligned → rshiftArithK fuel s k = .ok r → r.Aligned := by
  intro fuel
  induction fuel with
  | zero => intro s r _ _ _ _ _ h; unfold rshiftArithK at h; cases h
  | succ fuel ih =>
    intro s r hs hnb hn hk hal h
    rw [rshiftArithK_succ, hnb] at h
    simp only [Bool.false_eq_true, if_false] at h
    obtain ⟨ps, hps, hprop, _⟩ := psplit_spec s hs hnb hn
    have hpa := psplit_aligned s hs hnb hn hal ps hps
    rw [hps] at h
    simp only [bind, Except.bind] at h
    have hpiece : ∀ q, q ∈ ps → ∀ t, rshiftArithK fuel q k = .ok t → WFw s.bits t ∧ t.Aligned := by
      intro q hq t ht
      obtain ⟨qw, qb, _, _, _, qn⟩ := hprop q hq
      have h1 := (rshiftArithK_sound k fuel q t qw.1 qb qn (by rw [qw.2]; exact hk) ht).1
      rw [qw.2] at h1
      exact ⟨h1, ih q t qw.1 qb qn (by rw [qw.2]; exact hk) (hpa q hq) ht⟩
    match ps, hprop, hpa, hpiece, h with
    | [], _, _, _, h => cases h
    | [p], hprop, hpa, _, h =>
      have hr : r = ashrPiece s p k := by cases h; rfl
      subst hr
      obtain ⟨pw, pb, ple, ph, pst, _⟩ := hprop p List.mem_cons_self
      exact ashrPiece_aligned s p k hs.1 pw pb ple ph pst hk (hpa p List.mem_cons_self)
    | p :: q :: rest, _, _, hpiece, h =>
      simp only [] at h
      cases ha : rshiftArithK fuel p k with
      | error e => rw [ha] at h; cases h
      | ok acc =>
        rw [ha] at h
        simp only [] at h
        obtain ⟨a1, a2⟩ := hpiece p List.mem_cons_self acc ha
        exact unionLoop_aligned s.bits (fun q => rshiftArithK fuel q k) (q :: rest) acc r
          (fun q' hq' t ht => hpiece q' (List.mem_cons_of_mem _ hq') t ht) a1 a2 h

/-- **`rshift_arithmetic` (interval shift amount) of an aligned interval is aligned** -/
theorem ashr_aligned (s amt r : SI) (hs : s.WF) (hnb : s.bottom = false) (hn : Nrm s) (al : s.Aligned)
    (h : s.rshiftArith amt = .ok r) : r.Aligned := by
  unfold SI.rshiftArith SI.rshiftArithRange at h
  simp only [] at h
  have hrange : (getShiftRange s amt).2 ≤ s.bits := by
    unfold getShiftRange roundTo
    split_ifs <;> simp only [] <;> omega
  refine overRange_aligned_on s.bits s _ _ _ ?_ r h
  intro k _ hk2 si hsi
  have hk : k ≤ s.bits := by omega
  exact ⟨(rshiftArithK_sound k recFuel s si hs hnb hn hk hsi).1, rshiftArithK_aligned k recFuel s si hs hnb hn hk al hsi⟩

end Claripy.VSA
