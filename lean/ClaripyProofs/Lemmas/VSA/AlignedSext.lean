import ClaripyProofs.Lemmas.VSA.AlignedAshr
import ClaripyProofs.Lemmas.VSA.SextSound
/-! `sign_extend` keeps alignment (all three routes). -/
namespace Claripy.VSA

/-- **`sign_extend` of an aligned interval (constructor-normal form) is aligned** -/
theorem sext_aligned (s r : SI) (nl : Nat) (hs : s.WF) (hnb : s.bottom = false) (hn : Nrm s) (hnl : s.bits ≤ nl)
    (al : s.Aligned) (h : s.signExtend nl = .ok r) : r.Aligned := by
  have hwf := hs
  have hsd := aligned_dvd s hs al
  obtain ⟨h0, hl, hu, hst⟩ := hs
  have hm2 := two_pow_half s.bits h0
  have hH := two_pow_pos' (s.bits - 1)
  have hpow : 2 ^ s.bits ≤ 2 ^ nl := Nat.pow_le_pow_right (by omega) hnl
  unfold SI.signExtend at h
  simp only [bind, Except.bind] at h
  cases hE : s.extract (s.bits - 1) (s.bits - 1) with
  | error e => rw [hE] at h; cases h
  | ok E =>
    rw [hE] at h
    simp only [] at h
    cases hl2 : E.eval 2 false with
    | error e => rw [hl2] at h; cases h
    | ok msb =>
      rw [hl2] at h
      simp only [] at h
      by_cases h1 : msb = [0]
      · rw [if_pos h1] at h
        exact zext_aligned s r nl hwf hnb hnl al h
      · rw [if_neg h1] at h
        by_cases h2 : msb = [1] ∧ s.lb ≤ s.ub
        · rw [if_pos h2] at h
          obtain ⟨_, hle⟩ := h2
          have hmask : (2 ^ nl - 1) - (2 ^ s.bits - 1) = 2 ^ nl - 2 ^ s.bits := by
            have := two_pow_pos' s.bits; omega
          have hrn : s.renorm = s := hn
          have hr : r = { s with bits := nl, lb := s.lb + (2 ^ nl - 2 ^ s.bits), ub := s.ub + (2 ^ nl - 2 ^ s.bits) } := by
            simp only [pure, Except.pure, hrn, hmask, or_mask s.lb s.bits nl hl hnl, or_mask s.ub s.bits nl hu hnl] at h
            cases h; rfl
          subst hr
          have hlN : s.lb + (2 ^ nl - 2 ^ s.bits) < 2 ^ nl := by omega
          have huN : s.ub + (2 ^ nl - 2 ^ s.bits) < 2 ^ nl := by omega
          apply aligned_of_mem_ub
          rw [mem_iff _ _ hlN huN]
          have e2 : cd (2 ^ nl) (s.lb + (2 ^ nl - 2 ^ s.bits)) (s.ub + (2 ^ nl - 2 ^ s.bits)) = cd (2 ^ s.bits) s.lb s.ub := by
            unfold cd; split_ifs <;> omega
          show s.bottom = false ∧ s.ub + (2 ^ nl - 2 ^ s.bits) < 2 ^ nl ∧
            cd (2 ^ nl) (s.lb + (2 ^ nl - 2 ^ s.bits)) (s.ub + (2 ^ nl - 2 ^ s.bits)) ≤
              cd (2 ^ nl) (s.lb + (2 ^ nl - 2 ^ s.bits)) (s.ub + (2 ^ nl - 2 ^ s.bits)) ∧
            (if s.stride = 0 then cd (2 ^ nl) (s.lb + (2 ^ nl - 2 ^ s.bits)) (s.ub + (2 ^ nl - 2 ^ s.bits)) = 0
             else cd (2 ^ nl) (s.lb + (2 ^ nl - 2 ^ s.bits)) (s.ub + (2 ^ nl - 2 ^ s.bits)) % s.stride = 0)
          rw [e2]
          refine ⟨hnb, huN, Nat.le_refl _, ?_⟩
          by_cases hz : s.stride = 0
          · rw [if_pos hz]; rw [hz] at hsd; exact Nat.eq_zero_of_zero_dvd hsd
          · rw [if_neg hz]; exact Nat.mod_eq_zero_of_dvd hsd
        · rw [if_neg h2] at h
          obtain ⟨ps, hps, hprop, _⟩ := nsplit_cover s hwf hnb hn
          have hpa := nsplit_aligned s hwf al ps hps
          rw [hps] at h
          simp only [] at h
          generalize hrs : (ps.map fun n =>
            SI.new nl n.stride
              ((n.lb ||| (if getMsb (n.lb : Int) n.bits = 1 then (2 ^ (nl - n.bits) - 1) <<< n.bits else 0) : Nat) : Int)
              ((n.ub ||| (if getMsb (n.ub : Int) n.bits = 1 then (2 ^ (nl - n.bits) - 1) <<< n.bits else 0) : Nat) : Int)) = rs at h
          cases hlub : leastUpperBound rs with
          | error e => rw [hlub] at h; cases h
          | ok u =>
            rw [hlub] at h
            have hr : r = u.renorm := by cases h; rfl
            subst hr
            have hP : ∀ q, q ∈ rs → WFw nl q ∧ q.Aligned := by
              intro q hq
              rw [← hrs] at hq
              obtain ⟨p, hp, he⟩ := List.mem_map.1 hq
              subst he
              obtain ⟨hpw, hpb, hpn⟩ := hprop p hp
              have hpnl : p.bits ≤ nl := by rw [hpw.2]; exact hnl
              have sp := sext_piece p nl hpw.1 hpb hpnl (by rw [hpw.2]; exact hpn)
              simp only [] at sp
              refine ⟨sp.1, ?_⟩
              have hmem := sp.2 p.ub (mem_ub_of_aligned p hpw.1 hpb (hpa p hp))
              apply new_aligned_of_mem
              have hpu := hpw.1.2.2.1
              have hm := two_pow_half p.bits hpw.1.1
              have e : (p.ub ||| (if getMsb (p.ub : Int) p.bits = 1 then (2 ^ (nl - p.bits) - 1) <<< p.bits else 0)) =
                  Conc.sext p.bits nl p.ub := by
                rw [or_signmask p.ub p.bits nl hpw.1.1 hpu hpnl, sext_val p.bits nl p.ub hpw.1.1 hpu hpnl]
                unfold sx; rw [← hm]
              have hlt : Conc.sext p.bits nl p.ub < 2 ^ nl := by
                have := hmem.2.1; rwa [new_bits] at this
              rw [imod_nat, e, Nat.mod_eq_of_lt hlt]
              rw [e] at hmem
              exact hmem
            have u1 := (lub_sup nl rs u (fun q hq => (hP q hq).1) hlub).1
            exact renorm_aligned u u1.1 (lub_aligned nl rs u hP hlub)

end Claripy.VSA
