import ClaripyProofs.Lemmas.VSA.MeetMin
import ClaripyProofs.Lemmas.VSA.MeetGeo
import ClaripyProofs.Lemmas.VSA.NormalForm
import ClaripyProofs.Lemmas.VSA.ConcatSound
/-! The meet (`_multi_valued_intersection`, `intersection`) contains every common member of two ALIGNED operands in
constructor-normal form.  Per configuration: the first common member `n` found by `_minimal_common_integer` precedes every
common member `x` on the overlap arc, the distances from both lower bounds grow in lockstep along it (`MeetGeo`), hence the
least common multiple of the strides divides the distance from `n` to `x`. -/
namespace Claripy.VSA

/-! ### the interval built from the first common member -/

theorem meetFrom_WF (w ns : Nat) (n : Int) (upTo : Nat) (hw : 0 < w) (hns : ns ≠ 0) :
    WFw w (meetFrom w ns (some n) upTo) := by
  unfold meetFrom
  exact new_WF_nz _ _ _ _ hw hns

theorem meetFrom_mem (w ns n upTo x : Nat) (hn : n < 2 ^ w) (hu : upTo < 2 ^ w) (hx : x < 2 ^ w) (hns : ns ≠ 0)
    (h1 : ns ∣ cd (2 ^ w) n x) (h2 : cd (2 ^ w) n x ≤ cd (2 ^ w) n upTo) :
    (meetFrom w ns (some (n : Int)) upTo).mem x := by
  have hM := two_pow_pos' w
  unfold meetFrom
  simp only []
  rw [modSub_nat _ _ _ hu hn, modAdd_nat]
  generalize hD : cd (2 ^ w) n upTo = D at *
  have hDlt : D < 2 ^ w := by rw [← hD]; exact cd_lt _ _ _ hn hu
  have hfl : D / ns * ns ≤ D := Nat.div_mul_le_self _ _
  -- the upper bound is the last multiple of the stride before `upTo`
  have hub : cd (2 ^ w) n ((D / ns * ns + n) % 2 ^ w) = D / ns * ns := by
    rw [Nat.add_comm]; exact cd_add_right _ _ _ hn (by omega)
  rw [mem_new, imod_of_lt _ _ hn, imod_nat, Nat.mod_mod, hub]
  obtain ⟨k, hk⟩ := h1
  refine ⟨hx, ?_, ?_⟩
  · rw [hk, Nat.mul_comm]
    apply Nat.mul_le_mul_right
    rw [Nat.le_div_iff_mul_le (Nat.pos_of_ne_zero hns), Nat.mul_comm, ← hk]
    exact h2
  · rw [if_neg hns, hk, Nat.mul_mod_right]

/-! ### a wrapping aligned interval splits into two pieces -/

theorem aligned_two (X : SI) (hX : X.WF) (hal : X.Aligned) (hwrap : X.ub < X.lb) : TwoPieces X := by
  have hsp := ssplit_wrap X hX hwrap
  simp only [] at hsp
  obtain ⟨h0, hl, hu, hst⟩ := hX
  have hsne : X.stride ≠ 0 := by intro h; have := hst.1 h; omega
  have hspos := Nat.pos_of_ne_zero hsne
  generalize hK : (2 ^ X.bits - 1 - X.lb) - (2 ^ X.bits - 1 - X.lb) % X.stride = K at hsp
  have hK1 : X.stride ∣ K := by rw [← hK]; exact Nat.dvd_sub_mod _
  have hK3 : K ≤ 2 ^ X.bits - 1 - X.lb := by rw [← hK]; exact Nat.sub_le _ _
  have hsd : X.stride ∣ cd (2 ^ X.bits) X.lb X.ub := by
    unfold SI.Aligned SI.span at hal
    rw [modSub_nat _ _ _ hu hl] at hal
    rcases hal with h | h
    · exact absurd h hsne
    · exact Nat.dvd_of_mod_eq_zero h
  have hcd : cd (2 ^ X.bits) X.lb X.ub = X.ub + 2 ^ X.bits - X.lb := by unfold cd; split_ifs <;> omega
  have hgap := dvd_gap _ _ _ hK1 hsd (by omega)
  rw [if_neg (by omega)] at hsp
  exact ⟨_, _, hsp⟩

/-! ### the first common member precedes every common member, in the order of one of the operands -/

theorem num_flags (N Xl Xu Yl Yu x n : Nat) (_h1 : Xl < N) (_h2 : Xu < N) (_h3 : Yl < N) (_h4 : Yu < N) (_h5 : x < N)
    (_h6 : n < N) (hxs : cd N Xl x ≤ cd N Xl Xu) (hxb : cd N Yl x ≤ cd N Yl Yu) (hns : cd N Xl n ≤ cd N Xl Xu)
    (hnb : cd N Yl n ≤ cd N Yl Yu)
    (hnc : ¬ (Xu < Xl ∧ Yu < Yl ∧ (Xl ≤ Yu ∨ Yl ≤ Xu)))
    (hUL : ((Xu < Xl → Xl ≤ n) ∧ (Yu < Yl → Yl ≤ n)) ∨ ((Xu < Xl → n ≤ Xu) ∧ (Yu < Yl → n ≤ Yu)))
    (hord : (((Xu < Xl → Xl ≤ x) ∧ (Yu < Yl → Yl ≤ x)) → ((Xu < Xl → Xl ≤ n) ∧ (Yu < Yl → Yl ≤ n)) ∧ n ≤ x) ∧
      (((Xu < Xl → x ≤ Xu) ∧ (Yu < Yl → x ≤ Yu)) → ((Xu < Xl → Xl ≤ n) ∧ (Yu < Yl → Yl ≤ n)) ∨ n ≤ x)) :
    ((Xu < Xl ∨ ¬ Yu < Yl) → cd N Xl n ≤ cd N Xl x) ∧ ((Yu < Yl ∨ ¬ Xu < Xl) → cd N Yl n ≤ cd N Yl x) := by
  have c1 := cd_cases N Xl Xu
  have c2 := cd_cases N Xl x
  have c3 := cd_cases N Xl n
  have c4 := cd_cases N Yl Yu
  have c5 := cd_cases N Yl x
  have c6 := cd_cases N Yl n
  generalize cd N Xl Xu = d1 at *
  generalize cd N Xl x = d2 at *
  generalize cd N Xl n = d3 at *
  generalize cd N Yl Yu = d4 at *
  generalize cd N Yl x = d5 at *
  generalize cd N Yl n = d6 at *
  omega

theorem num_cross (N Xl Xu Yl Yu x : Nat) (_h1 : Xl < N) (_h2 : Xu < N) (_h3 : Yl < N) (_h4 : Yu < N) (_h5 : x < N)
    (hxs : cd N Xl x ≤ cd N Xl Xu) (hxb : cd N Yl x ≤ cd N Yl Yu)
    (hnc : ¬ (Xu < Xl ∧ Yu < Yl ∧ (Xl ≤ Yu ∨ Yl ≤ Xu))) :
    ((Xu < Xl → Xl ≤ x) ∧ (Yu < Yl → Yl ≤ x)) ∨ ((Xu < Xl → x ≤ Xu) ∧ (Yu < Yl → x ≤ Yu)) := by
  have c1 := cd_cases N Xl Xu
  have c2 := cd_cases N Xl x
  have c4 := cd_cases N Yl Yu
  have c5 := cd_cases N Yl x
  generalize cd N Xl Xu = d1 at *
  generalize cd N Xl x = d2 at *
  generalize cd N Yl Yu = d4 at *
  generalize cd N Yl x = d5 at *
  omega

/-- two wrapping arcs with a point before the pole of one and after the pole of the other overlap at both ends -/
def NoCross (X Y : SI) : Prop := ¬ (X.ub < X.lb ∧ Y.ub < Y.lb ∧ (X.lb ≤ Y.ub ∨ Y.lb ≤ X.ub))

/-- **the first common member**: with no point of mixed kind, `_minimal_common_integer` returns a common member that
precedes every common member in the circular order of one of the operands -/
theorem mci_order (w : Nat) (X Y : SI) (hX : WFw w X) (hY : WFw w Y) (hXb : X.bottom = false) (hYb : Y.bottom = false)
    (HX : X.ub < X.lb → TwoPieces X ∨ (TwoPieces Y ∧ Y.ub < X.lb))
    (HY : Y.ub < Y.lb → TwoPieces Y ∨ (TwoPieces X ∧ X.ub < Y.lb))
    (hnc : NoCross X Y) (o : Option Int) (h : minimalCommonInteger X Y = .ok o) (x : Nat) (hx : X.mem x) (hy : Y.mem x) :
    ∃ n : Nat, o = some (n : Int) ∧ X.mem n ∧ Y.mem n ∧
      ((X.ub < X.lb ∨ ¬ Y.ub < Y.lb) → cd (2 ^ w) X.lb n ≤ cd (2 ^ w) X.lb x) ∧
      ((Y.ub < Y.lb ∨ ¬ X.ub < X.lb) → cd (2 ^ w) Y.lb n ≤ cd (2 ^ w) Y.lb x) := by
  obtain ⟨sp1, sp2⟩ := minimalCommonInteger_spec w X Y hX hY hXb hYb HX HY o h
  obtain ⟨_, hxl, hx1, _⟩ := mem_facts X x hX.1 hx
  obtain ⟨_, _, hy1, _⟩ := mem_facts Y x hY.1 hy
  have hXl := hX.1.2.1
  have hXu := hX.1.2.2.1
  have hYl := hY.1.2.1
  have hYu := hY.1.2.2.1
  rw [hX.2] at hxl hx1 hXl hXu
  rw [hY.2] at hy1 hYl hYu
  have hcr := num_cross (2 ^ w) X.lb X.ub Y.lb Y.ub x hXl hXu hYl hYu hxl hx1 hy1 hnc
  cases o with
  | none =>
    exfalso
    obtain ⟨n1, n2⟩ := sp2 rfl x hx hy
    unfold Up at n1; unfold Lo at n2
    rcases hcr with h | h
    · exact n1 h
    · exact n2 h
  | some m =>
    obtain ⟨n, e, mx, my, hUL, hord⟩ := sp1 m rfl
    obtain ⟨_, hnl, hn1, _⟩ := mem_facts X n hX.1 mx
    obtain ⟨_, _, hn2, _⟩ := mem_facts Y n hY.1 my
    rw [hX.2] at hnl hn1
    rw [hY.2] at hn2
    have ho := hord x hx hy
    unfold Up Lo at hUL ho
    obtain ⟨f1, f2⟩ := num_flags (2 ^ w) X.lb X.ub Y.lb Y.ub x n hXl hXu hYl hYu hxl hnl hx1 hy1 hn1 hn2 hnc hUL ho
    exact ⟨n, by rw [e], mx, my, f1, f2⟩

end Claripy.VSA
