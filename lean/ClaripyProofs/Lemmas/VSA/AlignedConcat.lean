import ClaripyProofs.Lemmas.VSA.AlignedSext
import ClaripyProofs.Lemmas.VSA.ConcatSound
/-! `concat` keeps alignment. -/
namespace Claripy.VSA

/-- `_lshift(k)`: aligned as soon as the operand is aligned in the branch that keeps its shape (the two other branches
return `{0}` or all multiples of `2^k`) -/
theorem lshiftK_aligned_of (s : SI) (k : Nat) (hs : s.WF) (hnb : s.bottom = false)
    (al : cd (2 ^ s.bits) s.lb s.ub * 2 ^ k < 2 ^ s.bits → s.Aligned) : (lshiftK s k).Aligned := by
  by_cases h1 : cd (2 ^ s.bits) s.lb s.ub * 2 ^ k < 2 ^ s.bits
  · exact lshiftK_aligned s k hs hnb (al h1)
  · obtain ⟨hw, hl, hu, hst⟩ := hs
    have hM := two_pow_pos' s.bits
    have hspan : modSub (s.ub : Int) (s.lb : Int) s.bits = cd (2 ^ s.bits) s.lb s.ub := modSub_nat _ _ _ hu hl
    unfold lshiftK
    rw [hnb]
    simp only [Bool.false_eq_true, if_false, hspan, Nat.shiftLeft_eq]
    rw [if_neg h1]
    by_cases h2 : k ≥ s.bits
    · rw [if_pos h2]; left; rw [new_eq]; simp
    · rw [if_neg h2]
      have hPM : 2 ^ k ∣ 2 ^ s.bits := Nat.pow_dvd_pow 2 (by omega)
      have hP := two_pow_pos' k
      have hlt : 2 ^ k ≤ 2 ^ s.bits := Nat.le_of_dvd hM hPM
      have := aligned_new s.bits (2 ^ k) 0 (2 ^ s.bits - 2 ^ k) hM (by omega)
        (by rw [cd_zero]; exact Nat.dvd_sub hPM (Nat.dvd_refl _))
      simpa using this

/-- **`concat` of aligned operands is aligned** -/
theorem concat_aligned (s b r : SI) (hs : s.WF) (hb : b.WF) (hsb : s.bottom = false) (hbb : b.bottom = false)
    (als : s.Aligned) (alb : b.Aligned) (h : s.concat b = .ok r) : r.Aligned := by
  have hrWF := (concat_sound s b r hs hb hsb hbb h).1.1
  have hws := hs.1
  have hwb := hb.1
  have hW0 : 0 < s.bits + b.bits := by omega
  have hcW := renorm_WFw s.bits s ⟨hs, rfl⟩
  have hcb : s.renorm.bottom = false := by unfold SI.renorm; rw [hsb]; simp
  have hca := renorm_aligned s hs als
  unfold SI.concat at h
  simp only [] at h
  generalize ha : (SI.mk (s.bits + b.bits) s.renorm.stride s.renorm.lb s.renorm.ub s.renorm.bottom) = a at h
  have haW : WFw (s.bits + b.bits) a := by
    rw [← ha]; exact widen_bits_WF s.renorm s.bits (s.bits + b.bits) hcW (by omega)
  have hab : a.bottom = false := by rw [← ha]; exact hcb
  have habits : a.bits = s.bits + b.bits := haW.2
  have hal : a.lb = s.renorm.lb := by rw [← ha]
  have hau : a.ub = s.renorm.ub := by rw [← ha]
  obtain ⟨newSi, hns, h⟩ := bind_ok _ _ _ h
  obtain ⟨newB, hnb, h⟩ := bind_ok _ _ _ h
  unfold SI.lshiftRange at hns
  -- the shifted high part is aligned: a wrapping widened copy falls into the "all multiples of 2^k" branch
  have hshift : (lshiftK a b.bits).Aligned := by
    apply lshiftK_aligned_of a b.bits haW.1 hab
    intro hfit
    have hle : s.renorm.lb ≤ s.renorm.ub := by
      apply Classical.byContradiction
      intro hnle
      rw [habits, hal, hau] at hfit
      have hl := hcW.1.2.1
      have hu := hcW.1.2.2.1
      rw [hcW.2] at hl hu
      have : 2 ^ s.bits ≤ cd (2 ^ (s.bits + b.bits)) s.renorm.lb s.renorm.ub := by
        have h2 : 2 * 2 ^ s.bits ≤ 2 ^ (s.bits + b.bits) := by
          rw [← Nat.pow_succ']
          exact Nat.pow_le_pow_right (by omega) (by omega)
        unfold cd; split_ifs <;> omega
      have := Nat.mul_le_mul_right (2 ^ b.bits) this
      rw [← Nat.pow_add] at this
      omega
    rw [← ha]
    exact widen_bits_aligned s.renorm s.bits (s.bits + b.bits) hcW hcb hle (by omega) hca
  have hf : ∀ k si, (fun k => (pure (lshiftK a k) : R SI)) k = .ok si → WFw (s.bits + b.bits) si := by
    intro k si hk
    have : si = lshiftK a k := by cases hk; rfl
    subst this
    have := (lshiftK_sound a k haW.1 hab).1
    rwa [habits] at this
  obtain ⟨hnsW, hns2⟩ := overRange_sup (s.bits + b.bits) a habits hW0 _ _ _ hf newSi hns
  have hnsA : newSi.Aligned := by
    refine overRange_aligned_on (s.bits + b.bits) a b.bits b.bits _ ?_ newSi hns
    intro k hk1 hk2 si hsi
    have hk : k = b.bits := by omega
    subst hk
    have : si = lshiftK a b.bits := by cases hsi; rfl
    subst this
    exact ⟨hf _ _ hsi, hshift⟩
  obtain ⟨si, hsi, hsub⟩ := hns2 b.bits (Nat.le_refl _) (Nat.le_refl _)
  have hsie : si = lshiftK a b.bits := by cases hsi; rfl
  subst hsie
  have hnsb : newSi.bottom = false :=
    (hsub _ ((lshiftK_sound a b.bits haW.1 hab).2 a.lb (lb_mem a haW.1 hab))).1
  -- the zero-extended low part
  rw [hnsW.2] at hnb
  obtain ⟨hnbW, hnb2⟩ := zext_sound b newB (s.bits + b.bits) hb hbb (by omega) hnb
  have hnbA := zext_aligned b newB (s.bits + b.bits) hb hbb (by omega) alb hnb
  have hnbb : newB.bottom = false := (hnb2 _ (mem_lb b hb hbb)).1
  by_cases hint : newSi.isInteger = true
  · rw [if_pos hint] at h
    have hr := pure_ok _ _ h
    have hi : newSi.lb = newSi.ub := (isInteger_iff newSi).1 hint
    have hrl : r.lb = newSi.lb + newB.lb := by rw [hr]
    have hru : r.ub = newSi.lb + newB.ub := by rw [hr, hi]
    have hrs : r.stride = newB.stride := by rw [hr]
    have hrb : r.bits = s.bits + b.bits := hrWF.2
    have hrbot : r.bottom = false := by rw [hr]; exact hnsb
    have hd := aligned_dvd newB hnbW.1 hnbA
    rw [hnbW.2] at hd
    have h1 := hrWF.1.2.1
    have h2 := hrWF.1.2.2.1
    rw [hrb, hrl] at h1
    rw [hrb, hru] at h2
    apply aligned_of_mem_ub
    rw [mem_iff _ _ hrWF.1.2.1 hrWF.1.2.2.1, hrb, hrl, hru, hrs]
    have e2 : cd (2 ^ (s.bits + b.bits)) (newSi.lb + newB.lb) (newSi.lb + newB.ub) =
        cd (2 ^ (s.bits + b.bits)) newB.lb newB.ub := by
      unfold cd; split_ifs <;> omega
    rw [e2]
    exact ⟨hrbot, h2, Nat.le_refl _,
      stride_cond_of_dvd _ _ hd (fun h0 => by rw [h0] at hd; exact Nat.eq_zero_of_zero_dvd hd)⟩
  · rw [if_neg hint] at h
    exact or_aligned newSi newB r hnsW.1 hnbW.1 (by rw [hnsW.2, hnbW.2]) hnsb hnbb hnsA hnbA h

end Claripy.VSA
