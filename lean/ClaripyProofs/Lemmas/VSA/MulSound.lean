import ClaripyProofs.Lemmas.VSA.AlignedPieces
/-! `mul` is sound and closed on aligned operands: per pair of pieces of `_psplit` the unsigned and the signed partial product
both contain the product of any two members (as intervals given by integer bounds, `finInterval`), both are aligned, so
their meet contains it (`multiMeet_sound`); the results are joined. -/
namespace Claripy.VSA

/-! ### the nested loops in structural form -/

/-- `for x in l: acc += f(x)` -/
def accLoop {α : Type} (f : α → R (List SI)) : List α → List SI → R (List SI)
  | [], acc => pure acc
  | x :: xs, acc => match f x with
    | .error e => .error e
    | .ok l => accLoop f xs (acc ++ l)

theorem accLoop_eq {α : Type} (f : α → R (List SI)) (l : List α) : ∀ acc : List SI,
    (forIn l acc (fun x r => (do let lx ← f x; pure (ForInStep.yield (r ++ lx)) : R _))) = accLoop f l acc := by
  induction l with
  | nil => intro acc; rfl
  | cons x xs ih =>
    intro acc
    rw [List.forIn_cons]
    unfold accLoop
    cases h : f x with
    | error e => rfl
    | ok lx => simp only [bind, Except.bind, pure, Except.pure]; exact ih _

theorem accLoop_mem {α : Type} (f : α → R (List SI)) : ∀ (l : List α) (acc out : List SI), accLoop f l acc = .ok out →
    ∀ q, q ∈ out ↔ (q ∈ acc ∨ ∃ x lx, x ∈ l ∧ f x = .ok lx ∧ q ∈ lx) := by
  intro l
  induction l with
  | nil =>
    intro acc out h q
    have : out = acc := by cases h; rfl
    subst this
    constructor
    · exact fun h => Or.inl h
    · rintro (h | ⟨x, lx, hx, _⟩)
      · exact h
      · cases hx
  | cons x xs ih =>
    intro acc out h q
    unfold accLoop at h
    cases hf : f x with
    | error e => rw [hf] at h; cases h
    | ok lx =>
      rw [hf] at h
      simp only [] at h
      rw [ih _ _ h q]
      constructor
      · rintro (h1 | ⟨x', lx', hx', hl', hq⟩)
        · rcases List.mem_append.1 h1 with h2 | h2
          · exact Or.inl h2
          · exact Or.inr ⟨x, lx, List.mem_cons_self, hf, h2⟩
        · exact Or.inr ⟨x', lx', List.mem_cons_of_mem _ hx', hl', hq⟩
      · rintro (h1 | ⟨x', lx', hx', hl', hq⟩)
        · exact Or.inl (List.mem_append.2 (Or.inl h1))
        · rcases List.mem_cons.1 hx' with he | he
          · subst he
            rw [hf] at hl'; cases hl'
            exact Or.inl (List.mem_append.2 (Or.inr hq))
          · exact Or.inr ⟨x', lx', he, hl', hq⟩

/-- the partial results of one pair of pieces -/
def mulPair (a b : SI) : R (List SI) :=
  wrappedSignedMul a b >>= fun sm => (wrappedUnsignedMul a b).multiMeet sm

/-- the outer loop of `mul` -/
def mulOuter (p2 : List SI) : List SI → List SI → R (List SI)
  | [], acc => pure acc
  | x :: xs, acc => match accLoop (mulPair x) p2 acc with
    | .error e => .error e
    | .ok a' => mulOuter p2 xs a'

theorem mulOuter_eq (p2 : List SI) (l : List SI) : ∀ acc : List SI,
    (forIn l acc (fun si1 r => (do
      let r' ← forIn p2 r (fun si2 r2 => (do
        let sm ← wrappedSignedMul si1 si2
        let lx ← (wrappedUnsignedMul si1 si2).multiMeet sm
        pure (ForInStep.yield (r2 ++ lx)) : R _))
      pure (ForInStep.yield r') : R _))) = mulOuter p2 l acc := by
  induction l with
  | nil => intro acc; rfl
  | cons x xs ih =>
    intro acc
    rw [List.forIn_cons]
    unfold mulOuter
    have e : (forIn p2 acc (fun si2 r2 => (do
        let sm ← wrappedSignedMul x si2
        let lx ← (wrappedUnsignedMul x si2).multiMeet sm
        pure (ForInStep.yield (r2 ++ lx)) : R _))) = accLoop (mulPair x) p2 acc := by
      rw [← accLoop_eq]
      congr
      funext si2 r2
      unfold mulPair
      simp
    rw [e]
    cases h : accLoop (mulPair x) p2 acc with
    | error e => rfl
    | ok a' => simp only [bind, Except.bind, pure, Except.pure]; exact ih _

theorem mulOuter_mem (p2 : List SI) : ∀ (l : List SI) (acc out : List SI), mulOuter p2 l acc = .ok out →
    ∀ q, q ∈ out ↔ (q ∈ acc ∨ ∃ x y lxy, x ∈ l ∧ y ∈ p2 ∧ mulPair x y = .ok lxy ∧ q ∈ lxy) := by
  intro l
  induction l with
  | nil =>
    intro acc out h q
    have : out = acc := by cases h; rfl
    subst this
    constructor
    · exact fun h => Or.inl h
    · rintro (h | ⟨x, _, _, hx, _⟩)
      · exact h
      · cases hx
  | cons x xs ih =>
    intro acc out h q
    unfold mulOuter at h
    cases hf : accLoop (mulPair x) p2 acc with
    | error e => rw [hf] at h; cases h
    | ok a' =>
      rw [hf] at h
      simp only [] at h
      rw [ih _ _ h q, accLoop_mem _ _ _ _ hf q]
      constructor
      · rintro ((h1 | ⟨y, lxy, hy, hl, hq⟩) | ⟨x', y, lxy, hx', hy, hl, hq⟩)
        · exact Or.inl h1
        · exact Or.inr ⟨x, y, lxy, List.mem_cons_self, hy, hl, hq⟩
        · exact Or.inr ⟨x', y, lxy, List.mem_cons_of_mem _ hx', hy, hl, hq⟩
      · rintro (h1 | ⟨x', y, lxy, hx', hy, hl, hq⟩)
        · exact Or.inl (Or.inl h1)
        · rcases List.mem_cons.1 hx' with he | he
          · subst he; exact Or.inl (Or.inr ⟨y, lxy, hy, hl, hq⟩)
          · exact Or.inr ⟨x', y, lxy, he, hy, hl, hq⟩

theorem mul_eq (s o : SI) :
    s.mul o =
      if s.isInteger && o.isInteger then pure (SI.new s.bits 0 ((s.lb * o.lb : Nat) : Int) ((s.lb * o.lb : Nat) : Int))
      else s.psplit >>= fun p1 => o.psplit >>= fun p2 => mulOuter p2 p1 [] >>= fun all =>
        leastUpperBound all >>= fun u => pure u.renorm := by
  unfold SI.mul
  split
  · rfl
  · congr
    funext p1
    congr
    funext p2
    rw [← mulOuter_eq]

end Claripy.VSA
