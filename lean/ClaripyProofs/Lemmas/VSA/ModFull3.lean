import ClaripyProofs.Lemmas.VSA.ModFull2
/-! Towards `__mod__` with an unaligned divisor, part 3: for a single value `k` without the sign bit and a proper piece `b`
whose multiples `k·b` do not overflow, the signed partial product is the same interval as the unsigned one. -/
namespace Claripy.VSA

theorem isMsbZero_false (v w : Nat) (hw : 0 < w) (hv : v < 2 ^ w) (h : 2 ^ (w - 1) ≤ v) : isMsbZero (v : Int) w = false := by
  cases hh : isMsbZero (v : Int) w with
  | false => rfl
  | true => have := (isMsbZero_iff v w hw hv).1 hh; omega

theorem smul_single_eq (w k : Nat) (a b : SI) (ha : Single w k a) (hb : WFw w b) (hbi : b.lb ≠ b.ub) (hle : b.lb ≤ b.ub)
    (hhalf : b.ub < 2 ^ (w - 1) ∨ 2 ^ (w - 1) ≤ b.lb) (hk : k < 2 ^ (w - 1)) (hno : k * b.ub < 2 ^ w)
    (hhi : 2 ^ (w - 1) ≤ b.lb → k ≤ 1) :
    wrappedSignedMul a b = .ok (SI.new w (k * b.stride) ((k * b.lb : Nat) : Int) ((k * b.ub : Nat) : Int)) := by
  have hw0 : 0 < w := by rw [← hb.2]; exact hb.1.1
  have hm2 := two_pow_half w hw0
  have hbl : b.lb < 2 ^ w := by have := hb.1.2.1; rwa [hb.2] at this
  have hbu : b.ub < 2 ^ w := by have := hb.1.2.2.1; rwa [hb.2] at this
  have hbI : b.isInteger = false := by simp [SI.isInteger, hbi]
  have fk : isMsbZero (k : Int) w = true := (isMsbZero_iff k w hw0 ha.lt).2 hk
  have hlu : k * b.lb ≤ k * b.ub := Nat.mul_le_mul_left _ hle
  have hpow : ((2 : Int) ^ w) = ((2 ^ w : Nat) : Int) := by push_cast; rfl
  unfold wrappedSignedMul
  simp only [ha.wf.2, hb.2, Nat.max_self, ha.lb, ha.ub, ha.isInt, hbI, fk, Bool.false_eq_true, if_false, if_true, Bool.true_and,
    Bool.not_true, Bool.false_and]
  rcases hhalf with hlow | hhigh
  · have f3 : isMsbZero (b.lb : Int) w = true := (isMsbZero_iff b.lb w hw0 hbl).2 (by omega)
    have f4 : isMsbZero (b.ub : Int) w = true := (isMsbZero_iff b.ub w hw0 hbu).2 hlow
    simp only [f3, f4, Bool.and_self, if_true]
    rw [if_pos (by rw [hpow]; omega), Nat.mul_comm b.stride k]
    rfl
  · have f3 : isMsbZero (b.lb : Int) w = false := isMsbZero_false b.lb w hw0 hbl hhigh
    have f4 : isMsbZero (b.ub : Int) w = false := isMsbZero_false b.ub w hw0 hbu (by omega)
    have s3 : toSigned (b.lb : Int) w = (b.lb : Int) - ((2 ^ w : Nat) : Int) := by
      rw [toSigned_nat _ _ hw0 hbl]; unfold Conc.toInt; rw [if_neg (by omega)]
    have s4 : toSigned (b.ub : Int) w = (b.ub : Int) - ((2 ^ w : Nat) : Int) := by
      rw [toSigned_nat _ _ hw0 hbu]; unfold Conc.toInt; rw [if_neg (by omega)]
    simp only [f3, f4, Bool.and_false, Bool.false_eq_true, if_false, Bool.not_false, Bool.and_self, if_true, s3, s4]
    have hk1 := hhi hhigh
    have hk01 : k = 0 ∨ k = 1 := by omega
    rcases hk01 with h0 | h1
    · subst h0
      simp only [Nat.cast_zero, Int.zero_mul, Nat.zero_mul, Nat.mul_zero, Int.sub_self]
      rw [if_pos (by rw [hpow]; have := two_pow_pos' w; omega)]
      rfl
    · subst h1
      simp only [Nat.cast_one, Int.one_mul, Nat.one_mul, Nat.mul_one]
      rw [if_pos (by rw [hpow]; omega)]
      congr 1
      apply new_congr
      · rw [imod_nat]
        apply imod_shift _ (-1); omega
      · rw [imod_nat]
        apply imod_shift _ (-1); omega

end Claripy.VSA
