import ClaripyProofs.Lemmas.VSA.Lub
import ClaripyProofs.Lemmas.VSA.AlignedPieces
/-!
Alignment (`SI.Aligned`: the upper bound is a member) is preserved by the joins.

The working characterisation: a non-empty interval is aligned iff its upper bound is one of its members
(`aligned_of_mem_ub`).  So whenever the upper bound of a result is the image of members of the operands, alignment of
the result is an instance of the SOUNDNESS theorem of the operation — no arithmetic has to be redone.
-/
namespace Claripy.VSA

/-- stride 1 is always aligned -/
theorem aligned_of_stride_one (r : SI) (h : r.stride = 1) : r.Aligned := by
  right; rw [h]; exact Nat.mod_one _

/-- an interval whose upper bound is a member is aligned -/
theorem aligned_of_mem_ub (r : SI) (h : r.mem r.ub) : r.Aligned := by
  obtain ⟨_, _, _, h4⟩ := h
  unfold SI.Aligned SI.span
  by_cases h0 : r.stride = 0
  · left; exact h0
  · right; rw [if_neg h0] at h4; exact h4

/-- … and conversely, for a non-empty well-formed interval -/
theorem mem_ub_of_aligned (r : SI) (hw : r.WF) (hnb : r.bottom = false) (h : r.Aligned) : r.mem r.ub := by
  obtain ⟨_, hl, hu, hst⟩ := hw
  refine ⟨hnb, hu, Nat.le_refl _, ?_⟩
  unfold SI.Aligned SI.span at h
  by_cases h0 : r.stride = 0
  · rw [if_pos h0]
    have := hst.1 h0
    rw [this, modSub_nat _ _ _ hu hu, cd_self]
  · rw [if_neg h0]
    rcases h with h | h
    · exact absurd h h0
    · exact h

/-- the constructor either normalises to the full circle (stride 1) or keeps the upper bound -/
theorem new_ub_or (w st : Nat) (l u : Int) :
    (SI.new w st l u).stride = 1 ∨ (SI.new w st l u).ub = imod u w := by
  rw [new_eq]
  split
  · right; rfl
  · split
    · rename_i h; left; exact h.2
    · right; rfl

/-- a constructed interval that contains (the reduction of) its upper-bound argument is aligned -/
theorem new_aligned_of_mem (w st : Nat) (l u : Int) (h : (SI.new w st l u).mem (imod u w)) :
    (SI.new w st l u).Aligned := by
  rcases new_ub_or w st l u with h1 | h1
  · exact aligned_of_stride_one _ h1
  · apply aligned_of_mem_ub; rw [h1]; exact h

theorem top_aligned (w : Nat) : (SI.top w).Aligned := by
  unfold SI.top
  rcases new_ub_or w 1 0 (maxInt w) with h | h
  · exact aligned_of_stride_one _ h
  · unfold SI.Aligned
    rw [new_eq]
    split
    · left; rfl
    · split <;> (right; exact Nat.mod_one _)

theorem empty_aligned (w : Nat) : (SI.empty w).Aligned := by
  right; show _ % 1 = 0; exact Nat.mod_one _

theorem ite_prop {c : Prop} [Decidable c] (P : SI → Prop) (x y : SI) (hx : P x) (hy : P y) :
    P (if c then x else y) := by split <;> assumption

/-- shape of the result of `pseudo_join`: an operand, a full circle, or an interval ending at an operand's upper bound -/
theorem pseudoJoin_ub (s b : SI) (smart : Bool) (hs : s.WF) (hb : b.WF) (hbits : s.bits = b.bits) :
    pseudoJoin s b smart = b ∨ pseudoJoin s b smart = s ∨ (pseudoJoin s b smart).stride = 1 ∨
      (pseudoJoin s b smart).ub = s.ub ∨ (pseudoJoin s b smart).ub = b.ub := by
  have hsu : imod (s.ub : Int) s.bits = s.ub := imod_of_lt _ _ hs.2.2.1
  have hbu : imod (b.ub : Int) s.bits = b.ub := by rw [hbits]; exact imod_of_lt _ _ hb.2.2.1
  have key : ∀ (st : Nat) (l : Int) (u : Nat), (u = s.ub ∨ u = b.ub) →
      (SI.new s.bits st l (u : Int)).stride = 1 ∨ (SI.new s.bits st l (u : Int)).ub = s.ub ∨
        (SI.new s.bits st l (u : Int)).ub = b.ub := by
    intro st l u hu
    rcases new_ub_or s.bits st l (u : Int) with h | h
    · exact Or.inl h
    · right
      rcases hu with hu | hu
      · left; rw [h, hu, hsu]
      · right; rw [h, hu, hbu]
  unfold pseudoJoin
  by_cases hsb : s.bottom = true
  · rw [if_pos hsb]; exact Or.inl rfl
  rw [if_neg hsb]
  by_cases hbb : b.bottom = true
  · rw [if_pos hbb]; exact Or.inr (Or.inl rfl)
  rw [if_neg hbb]
  right; right
  split
  · -- two integers
    cases smart with
    | true =>
      simp only [if_true]
      apply key
      by_cases h : s.ub ≤ b.ub
      · right; exact Nat.max_eq_right h
      · left; exact Nat.max_eq_left (by omega)
    | false =>
      simp only [Bool.false_eq_true, if_false]
      exact key _ _ _ (Or.inr rfl)
  · split
    · exact key _ _ _ (Or.inr rfl)
    · split
      · exact key _ _ _ (Or.inl rfl)
      · split
        · left
          unfold SI.top
          rcases new_ub_or s.bits 1 0 (maxInt s.bits) with h | h
          · exact h
          · rw [new_eq]; split
            · rename_i he
              rw [new_eq, if_pos he] at h
              -- a one-point "top" cannot happen for positive width; still stride is what `new` says
              exfalso
              have h0 : imod (0 : Int) s.bits = 0 := imod_zero _
              have h1 : imod ((maxInt s.bits : Nat) : Int) s.bits = 2 ^ s.bits - 1 := by
                unfold maxInt; rw [imod_nat]; exact Nat.mod_eq_of_lt (by have := two_pow_pos' s.bits; omega)
              rw [h0, h1] at he
              have : 2 ≤ 2 ^ s.bits := by
                have := hs.1
                calc 2 = 2 ^ 1 := rfl
                  _ ≤ 2 ^ s.bits := Nat.pow_le_pow_right (by omega) this
              omega
            · split <;> rfl
        · split
          · exact key _ _ _ (Or.inr rfl)
          · split
            · exact key _ _ _ (Or.inl rfl)
            · split
              · exact key _ _ _ (Or.inr rfl)
              · exact ite_prop (fun r => r.stride = 1 ∨ r.ub = s.ub ∨ r.ub = b.ub) _ _ (key _ _ _ (Or.inl rfl))
                  (key _ _ _ (Or.inr rfl))

/-- **`pseudo_join` of aligned operands is aligned** (both `smart_join` settings, all widths) -/
theorem pseudoJoin_aligned (s b : SI) (smart : Bool) (hs : s.WF) (hb : b.WF) (hbits : s.bits = b.bits)
    (als : s.Aligned) (alb : b.Aligned) : (pseudoJoin s b smart).Aligned := by
  rcases pseudoJoin_ub s b smart hs hb hbits with h | h | h | h | h
  · rw [h]; exact alb
  · rw [h]; exact als
  · exact aligned_of_stride_one _ h
  · by_cases hsb : s.bottom = true
    · have : pseudoJoin s b smart = b := by unfold pseudoJoin; rw [if_pos hsb]
      rw [this]; exact alb
    · apply aligned_of_mem_ub
      rw [h]
      exact pseudoJoin_sup s b smart hs hb hbits s.ub (Or.inl (mem_ub_of_aligned s hs (by simpa using hsb) als))
  · by_cases hbb : b.bottom = true
    · by_cases hsb : s.bottom = true
      · have : pseudoJoin s b smart = b := by unfold pseudoJoin; rw [if_pos hsb]
        rw [this]; exact alb
      · have : pseudoJoin s b smart = s := by unfold pseudoJoin; rw [if_neg hsb, if_pos hbb]
        rw [this]; exact als
    · apply aligned_of_mem_ub
      rw [h]
      exact pseudoJoin_sup s b smart hs hb hbits b.ub (Or.inr (mem_ub_of_aligned b hb (by simpa using hbb) alb))

/-- a fold of joins over aligned intervals is aligned -/
theorem foldl_join_aligned (w : Nat) (smart : Bool) : ∀ (t : List SI) (a : SI), WFw w a → a.Aligned →
    (∀ s, s ∈ t → WFw w s ∧ s.Aligned) →
    WFw w (t.foldl (fun acc y => pseudoJoin acc y smart) a) ∧ (t.foldl (fun acc y => pseudoJoin acc y smart) a).Aligned
  | [], a, ha, al, _ => ⟨ha, al⟩
  | y :: t, a, ha, al, hP => by
    rw [List.foldl_cons]
    have hy := hP y List.mem_cons_self
    have hbits : a.bits = y.bits := by rw [ha.2, hy.1.2]
    exact foldl_join_aligned w smart t _ (pseudoJoin_ok w a y ha hy.1 smart).1
      (pseudoJoin_aligned a y smart ha.1 hy.1.1 hbits al hy.2) (fun s hs => hP s (List.mem_cons_of_mem _ hs))

/-- **`least_upper_bound` of aligned intervals is aligned** -/
theorem lub_aligned (w : Nat) (l : List SI) (r : SI) (hP : ∀ s, s ∈ l → WFw w s ∧ s.Aligned)
    (h : leastUpperBound l = .ok r) : r.Aligned := by
  unfold leastUpperBound at h
  match l, hP, h with
  | [], _, h => cases h
  | [a], hP, h =>
    have hr : r = a.renorm := by injection h with h'; exact h'.symm
    subst hr
    have ha := hP a List.mem_cons_self
    exact renorm_aligned a ha.1.1 ha.2
  | [a, b], hP, h =>
    have hr : r = pseudoJoin a b true := by injection h with h'; exact h'.symm
    subst hr
    have ha := hP a List.mem_cons_self
    have hb := hP b (List.mem_cons_of_mem _ List.mem_cons_self)
    exact pseudoJoin_aligned a b true ha.1.1 hb.1.1 (by rw [ha.1.2, hb.1.2]) ha.2 hb.2
  | a :: b :: c :: t, hP, h =>
    simp only [] at h
    generalize hl : (a :: b :: c :: t) = l at *
    have hcand : ∀ cand, cand ∈ (List.range (sortByLb l).length).filterMap
        (fun i => reduceJoin ((sortByLb l).drop i ++ (sortByLb l).take i)) → cand.Aligned := by
      intro cand hc
      obtain ⟨i, _, hi⟩ := List.mem_filterMap.1 hc
      have hP' : ∀ s, s ∈ (sortByLb l).drop i ++ (sortByLb l).take i → WFw w s ∧ s.Aligned := by
        intro s hs
        exact hP s ((mem_sortByLb l s).1 ((mem_rotate _ i s).1 hs))
      generalize (sortByLb l).drop i ++ (sortByLb l).take i = rot at hi hP'
      cases rot with
      | nil => cases hi
      | cons x xs =>
        unfold reduceJoin at hi
        have hr : cand = xs.foldl (fun acc y => pseudoJoin acc y false) x := by injection hi with h'; exact h'.symm
        subst hr
        have hx := hP' x List.mem_cons_self
        exact (foldl_join_aligned w false xs x hx.1 hx.2 (fun s hs => hP' s (List.mem_cons_of_mem _ hs))).2
    split at h
    · cases h
    · rename_i c0 cs hcs
      have hr : r = cs.foldl (fun ret si => if ret.nValues > si.nValues then si else ret) c0 := by
        injection h with h'; exact h'.symm
      subst hr
      have := pick_mem c0 cs
      rw [← hcs] at this
      exact hcand _ this

/-- **`union` of aligned intervals is aligned** -/
theorem union_aligned (w : Nat) (a b r : SI) (ha : WFw w a) (hb : WFw w b) (ala : a.Aligned) (alb : b.Aligned)
    (h : a.union b = .ok r) : r.Aligned := by
  unfold SI.union at h
  refine lub_aligned w [a, b] r ?_ h
  intro s hs
  cases hs with
  | head => exact ⟨ha, ala⟩
  | tail _ h' =>
    cases h' with
    | head => exact ⟨hb, alb⟩
    | tail _ h'' => cases h''

end Claripy.VSA
