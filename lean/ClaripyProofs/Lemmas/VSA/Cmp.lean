import ClaripyProofs.Lemmas.VSA.Split
import Claripy.VSA.BackendSpec
/-! The unsigned orderings `ULT`, `ULE`, `UGT`, `UGE` admit every truth value that occurs. -/
namespace Claripy.VSA

/-- a member of a non-wrapping piece lies between its bounds -/
theorem mem_between (p : SI) (w : Nat) (hp : WFw w p) (hle : p.lb ≤ p.ub) (x : Nat) (hx : p.mem x) :
    p.lb ≤ x ∧ x ≤ p.ub := by
  obtain ⟨hw, hb⟩ := hp
  obtain ⟨_, hxl, h1, _⟩ := mem_facts p x hw hx
  have hl := hw.2.1
  have hu := hw.2.2.1
  unfold cd at h1
  split_ifs at h1 <;> omega

theorem combine_not_f (l : List BoolRes) (v : BoolRes) (hv : v ∈ l) (hne : v ≠ .f) : combine l ≠ .f := by
  unfold combine
  split
  · intro h; cases h
  · rename_i h1
    split
    · rename_i h2
      have := List.all_eq_true.1 h2 v hv
      simp at this
      exact absurd this hne
    · intro h; cases h

theorem combine_not_t (l : List BoolRes) (v : BoolRes) (hv : v ∈ l) (hne : v ≠ .t) : combine l ≠ .t := by
  unfold combine
  split
  · rename_i h1
    have := List.all_eq_true.1 h1 v hv
    simp at this
    exact absurd this hne
  · split <;> (intro h; cases h)

theorem mem_cmp_list (b1 b2 : List (Int × Int)) (isT isF : Int → Int → Int → Int → Bool) (p q : Int × Int)
    (hp : p ∈ b1) (hq : q ∈ b2) :
    (if isT p.1 p.2 q.1 q.2 then BoolRes.t else if isF p.1 p.2 q.1 q.2 then BoolRes.f else BoolRes.m) ∈
      (b1.map fun p => b2.map fun q =>
        if isT p.1 p.2 q.1 q.2 then BoolRes.t else if isF p.1 p.2 q.1 q.2 then BoolRes.f else BoolRes.m).flatten := by
  rw [List.mem_flatten]
  exact ⟨_, List.mem_map.2 ⟨p, hp, rfl⟩, List.mem_map.2 ⟨q, hq, rfl⟩⟩

/-- generic soundness of the piecewise comparison: if on every pair of enclosing boxes a `True` verdict forces the
concrete truth and a `False` verdict forces its negation, the combined verdict admits the concrete truth -/
theorem cmpWith_sound (b1 b2 : List (Int × Int)) (isT isF : Int → Int → Int → Int → Bool) (p q : Int × Int)
    (hp : p ∈ b1) (hq : q ∈ b2) (truth : Bool)
    (hT : isT p.1 p.2 q.1 q.2 = true → truth = true) (hF : isF p.1 p.2 q.1 q.2 = true → truth = false) :
    (cmpWith b1 b2 isT isF).has truth = true := by
  unfold cmpWith
  have hm := mem_cmp_list b1 b2 isT isF p q hp hq
  cases truth with
  | true =>
    have hne : (if isT p.1 p.2 q.1 q.2 then BoolRes.t else if isF p.1 p.2 q.1 q.2 then BoolRes.f else BoolRes.m) ≠ .f := by
      split
      · intro h; cases h
      · split
        · rename_i h2; have := hF h2; cases this
        · intro h; cases h
    have := combine_not_f _ _ hm hne
    generalize combine _ = c at this
    cases c <;> simp_all [BoolRes.has, BoolRes.hasTrue]
  | false =>
    have hne : (if isT p.1 p.2 q.1 q.2 then BoolRes.t else if isF p.1 p.2 q.1 q.2 then BoolRes.f else BoolRes.m) ≠ .t := by
      split
      · rename_i h1; have := hT h1; cases this
      · split <;> (intro h; cases h)
    have := combine_not_t _ _ hm hne
    generalize combine _ = c at this
    cases c <;> simp_all [BoolRes.has, BoolRes.hasFalse]

/-- the unsigned bounds of a well-formed interval enclose every member -/
theorem unsignedBounds_spec (s : SI) (hw : s.WF) (hnb : s.bottom = false) :
    ∃ bs, s.unsignedBounds = .ok bs ∧ ∀ x, s.mem x → ∃ p, p ∈ bs ∧ p.1 ≤ (x : Int) ∧ (x : Int) ≤ p.2 := by
  obtain ⟨ps, hps, hprop, hcov, _⟩ := ssplit_spec s hw hnb
  refine ⟨ps.map fun p => ((p.lb : Int), (p.ub : Int)), ?_, ?_⟩
  · unfold SI.unsignedBounds; rw [hps]; rfl
  · intro x hx
    obtain ⟨p, hp, hpx⟩ := hcov x hx
    obtain ⟨hwf, _, hle, _⟩ := hprop p hp
    obtain ⟨h1, h2⟩ := mem_between p s.bits hwf hle x hpx
    exact ⟨((p.lb : Int), (p.ub : Int)), List.mem_map.2 ⟨p, hp, rfl⟩, by simpa using h1, by simpa using h2⟩

/-- **`ULT`, `ULE`, `UGT`, `UGE` are sound** (all widths, wrapping or not, aligned or not) -/
theorem ucmp_sound (op : CmpOp) (hop : op = .ult ∨ op = .ule ∨ op = .ugt ∨ op = .uge) (a b : AV) (br : BoolRes)
    (ha : a.si.WF) (hb : b.si.WF) (h : applyCmp op a b = .ok br) (x y : Nat) (hx : a.si.mem x) (hy : b.si.mem y) :
    br.has (concCmp op a.si.bits x y) = true := by
  obtain ⟨ba, hba, hca⟩ := unsignedBounds_spec a.si ha hx.1
  obtain ⟨bb, hbb, hcb⟩ := unsignedBounds_spec b.si hb hy.1
  obtain ⟨p, hp, hp1, hp2⟩ := hca x hx
  obtain ⟨q, hq, hq1, hq2⟩ := hcb y hy
  rcases hop with h1 | h1 | h1 | h1 <;> subst h1
  · simp only [applyCmp, SI.ULT, hba, hbb] at h
    have : br = cmpWith ba bb ltT ltF := by cases h; rfl
    subst this
    apply cmpWith_sound ba bb ltT ltF p q hp hq
    · intro ht; simp only [ltT, decide_eq_true_eq] at ht; simp only [concCmp, decide_eq_true_eq]; omega
    · intro hf; simp only [ltF, ge_iff_le, decide_eq_true_eq] at hf; simp only [concCmp, decide_eq_false_iff_not]; omega
  · simp only [applyCmp, SI.ULE, hba, hbb] at h
    have : br = cmpWith ba bb leT leF := by cases h; rfl
    subst this
    apply cmpWith_sound ba bb leT leF p q hp hq
    · intro ht; simp only [leT, decide_eq_true_eq] at ht; simp only [concCmp, decide_eq_true_eq]; omega
    · intro hf; simp only [leF, gt_iff_lt, decide_eq_true_eq] at hf; simp only [concCmp, decide_eq_false_iff_not]; omega
  · simp only [applyCmp, SI.UGT, hba, hbb] at h
    have : br = cmpWith ba bb gtT gtF := by cases h; rfl
    subst this
    apply cmpWith_sound ba bb gtT gtF p q hp hq
    · intro ht; simp only [gtT, gt_iff_lt, decide_eq_true_eq] at ht; simp only [concCmp, gt_iff_lt, decide_eq_true_eq]; omega
    · intro hf; simp only [gtF, decide_eq_true_eq] at hf; simp only [concCmp, gt_iff_lt, decide_eq_false_iff_not]; omega
  · simp only [applyCmp, SI.UGE, hba, hbb] at h
    have : br = cmpWith ba bb geT geF := by cases h; rfl
    subst this
    apply cmpWith_sound ba bb geT geF p q hp hq
    · intro ht; simp only [geT, ge_iff_le, decide_eq_true_eq] at ht; simp only [concCmp, ge_iff_le, decide_eq_true_eq]; omega
    · intro hf; simp only [geF, decide_eq_true_eq] at hf; simp only [concCmp, ge_iff_le, decide_eq_false_iff_not]; omega

end Claripy.VSA
