import ClaripyProofs.Lemmas.VSA.Signed
import ClaripyProofs.Lemmas.VSA.Extract
import ClaripyProofs.Lemmas.VSA.NotExt
/-! Constructor-normal form (`renorm` is the identity) is preserved by the proved operations.  It is what the signed
orderings need (`scmp_sound`): Python normalises in the constructor, so every interval it holds has this form. -/
namespace Claripy.VSA

/-- constructor-normal form -/
def Nrm (s : SI) : Prop := s.renorm = s

theorem nrm_new (b s : Nat) (l u : Int) (hb : 0 < b) : Nrm (SI.new b s l u) := new_renorm b s l u hb

theorem nrm_top (w : Nat) (hw : 0 < w) : Nrm (SI.top w) := by unfold SI.top; exact nrm_new _ _ _ _ hw

/-- a well-formed result of the shape `u.renorm` is normal -/
theorem nrm_of_renorm (u r : SI) (h : r = u.renorm) (hw : r.WF) : Nrm r := by
  subst h
  unfold Nrm
  by_cases hb : u.bottom = true
  · have e : u.renorm = u := by unfold SI.renorm; rw [if_pos hb]
    rw [e, e]
  · have hbf : u.bottom = false := by simpa using hb
    have e : u.renorm = SI.new u.bits u.stride u.lb u.ub := by unfold SI.renorm; rw [hbf]; rfl
    rw [e] at hw ⊢
    have hb0 : 0 < u.bits := by have := hw.1; rwa [new_bits] at this
    exact new_renorm _ _ _ _ hb0

theorem add_nrm (a b : SI) (ha : a.WF) : Nrm (a.add b) := by
  unfold SI.add
  have : 0 < Nat.max a.bits b.bits := Nat.lt_of_lt_of_le ha.1 (Nat.le_max_left _ _)
  simp only []
  split_ifs
  · exact nrm_top _ ha.1
  · exact nrm_new _ _ _ _ this

theorem sub_nrm (a b : SI) (ha : a.WF) : Nrm (a.sub b) := by
  unfold SI.sub
  have : 0 < Nat.max a.bits b.bits := Nat.lt_of_lt_of_le ha.1 (Nat.le_max_left _ _)
  simp only []
  split_ifs
  · exact nrm_top _ ha.1
  · exact nrm_new _ _ _ _ this

theorem neg_nrm (a : SI) (ha : a.WF) : Nrm a.neg := by
  unfold SI.neg
  exact sub_nrm _ _ (new_WF _ _ _ _ ha.1 (fun _ => rfl))

/-- the join returns an operand only when the other is empty; otherwise it constructs -/
theorem pseudoJoin_nrm (s b : SI) (smart : Bool) (hs : s.WF) (ns : Nrm s) (nb : Nrm b) : Nrm (pseudoJoin s b smart) := by
  have hw := hs.1
  unfold pseudoJoin
  simp only []
  split_ifs <;> first | exact nb | exact ns | exact nrm_top _ hw | exact nrm_new _ _ _ _ hw

end Claripy.VSA
