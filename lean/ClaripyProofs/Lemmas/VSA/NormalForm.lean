import ClaripyProofs.Lemmas.VSA.Signed
import ClaripyProofs.Lemmas.VSA.Extract
import ClaripyProofs.Lemmas.VSA.NotExt
/-! Constructor-normal form (`renorm` is the identity) is preserved by the proved operations.  It is what the signed
orderings need (`scmp_sound`): Python normalises in the constructor, so every interval it holds has this form. -/
namespace Claripy.VSA

/-- constructor-normal form -/
def Nrm (s : SI) : Prop := s.renorm = s

theorem nrm_new (b s : Nat) (l u : Int) (hb : 0 < b) : Nrm (SI.new b s l u) := new_renorm b s l u hb

theorem nrm_top (w : Nat) (hw : 0 < w) : Nrm (SI.top w) := by unfold SI.top; exact nrm_new _ _ _ _ hw

/-- a well-formed result of the shape `u.renorm` is normal -/
theorem nrm_of_renorm (u r : SI) (h : r = u.renorm) (hw : r.WF) : Nrm r := by
  subst h
  unfold Nrm
  by_cases hb : u.bottom = true
  · have e : u.renorm = u := by unfold SI.renorm; rw [if_pos hb]
    rw [e, e]
  · have hbf : u.bottom = false := by simpa using hb
    have e : u.renorm = SI.new u.bits u.stride u.lb u.ub := by unfold SI.renorm; rw [hbf]; rfl
    rw [e] at hw ⊢
    have hb0 : 0 < u.bits := by have := hw.1; rwa [new_bits] at this
    exact new_renorm _ _ _ _ hb0

theorem add_nrm (a b : SI) (ha : a.WF) : Nrm (a.add b) := by
  unfold SI.add
  have : 0 < Nat.max a.bits b.bits := Nat.lt_of_lt_of_le ha.1 (Nat.le_max_left _ _)
  simp only []
  split_ifs
  · exact nrm_top _ ha.1
  · exact nrm_new _ _ _ _ this

theorem sub_nrm (a b : SI) (ha : a.WF) : Nrm (a.sub b) := by
  unfold SI.sub
  have : 0 < Nat.max a.bits b.bits := Nat.lt_of_lt_of_le ha.1 (Nat.le_max_left _ _)
  simp only []
  split_ifs
  · exact nrm_top _ ha.1
  · exact nrm_new _ _ _ _ this

theorem neg_nrm (a : SI) (ha : a.WF) : Nrm a.neg := by
  unfold SI.neg
  exact sub_nrm _ _ (new_WF _ _ _ _ ha.1 (fun _ => rfl))

/-- the join returns an operand only when the other is empty; otherwise it constructs -/
theorem pseudoJoin_nrm (s b : SI) (smart : Bool) (hs : s.WF) (ns : Nrm s) (nb : Nrm b) : Nrm (pseudoJoin s b smart) := by
  have hw := hs.1
  unfold pseudoJoin
  by_cases hsb : s.bottom = true
  · rw [if_pos hsb]; exact nb
  rw [if_neg hsb]
  by_cases hbb : b.bottom = true
  · rw [if_pos hbb]; exact ns
  rw [if_neg hbb]
  repeat' split
  all_goals first | exact nrm_top _ hw | exact nrm_new _ _ _ _ hw | (simp only []; split <;> exact nrm_new _ _ _ _ hw)

theorem pseudoJoin_nrm_nb (s b : SI) (smart : Bool) (hw : 0 < s.bits) (hsb : s.bottom = false) (hbb : b.bottom = false) :
    Nrm (pseudoJoin s b smart) := by
  unfold pseudoJoin
  rw [hsb, hbb]
  simp only [Bool.false_eq_true, if_false]
  repeat' split
  all_goals first | exact nrm_top _ hw | exact nrm_new _ _ _ _ hw | (simp only []; split <;> exact nrm_new _ _ _ _ hw)

/-- a normal interval stays normal when it is re-read at a larger width (the non-wrapping branch of `zero_extend`) -/
theorem widen_bits_nrm (a : SI) (nl : Nat) (ha : a.WF) (hnb : a.bottom = false) (na : Nrm a) (hnl : a.bits ≤ nl) :
    Nrm { a with bits := nl } := by
  obtain ⟨h0, hl, hu, hst⟩ := ha
  have hpow : 2 ^ a.bits ≤ 2 ^ nl := Nat.pow_le_pow_right (by omega) hnl
  have hl2 : a.lb < 2 ^ nl := by omega
  have hu2 : a.ub < 2 ^ nl := by omega
  have hm := two_pow_pos' a.bits
  unfold Nrm SI.renorm at na ⊢
  rw [hnb] at na
  simp only [Bool.false_eq_true, if_false] at na
  have hb' : ({ a with bits := nl } : SI).bottom = false := hnb
  rw [hb']
  simp only [Bool.false_eq_true, if_false]
  rw [new_eq, imod_of_lt _ _ hl, imod_of_lt _ _ hu] at na
  rw [new_eq, imod_of_lt _ _ hl2, imod_of_lt _ _ hu2]
  by_cases h1 : a.lb = a.ub
  · rw [if_pos h1] at na ⊢
    have hs0 : a.stride = 0 := hst.2 h1
    rw [hs0]
  · rw [if_neg h1] at na ⊢
    by_cases h2 : a.lb = (a.ub + 1) % 2 ^ a.bits ∧ a.stride = 1
    · rw [if_pos h2] at na
      have e1 : a.lb = 0 := by rw [← na]
      have e2 : a.ub = 2 ^ a.bits - 1 := by rw [← na]
      by_cases h3 : a.lb = (a.ub + 1) % 2 ^ nl ∧ a.stride = 1
      · rw [if_pos h3]
        have h4 := h3.1
        rw [e1, e2] at h4
        have : 2 ^ a.bits - 1 + 1 = 2 ^ a.bits := by omega
        rw [this] at h4
        have hnlw : nl = a.bits := by
          by_cases hlt : 2 ^ a.bits < 2 ^ nl
          · rw [Nat.mod_eq_of_lt hlt] at h4; omega
          · have h6 : 2 ^ nl ≤ 2 ^ a.bits := by omega
            have h5 : nl ≤ a.bits := (Nat.pow_le_pow_iff_right (by omega : 1 < 2)).1 h6
            omega
        rw [e1, e2, hnlw]
      · rw [if_neg h3]
    · rw [if_neg h2] at na
      by_cases h3 : a.lb = (a.ub + 1) % 2 ^ nl ∧ a.stride = 1
      · exfalso
        apply h2
        refine ⟨?_, h3.2⟩
        have h4 := h3.1
        by_cases hlt : a.ub + 1 < 2 ^ nl
        · rw [Nat.mod_eq_of_lt hlt] at h4
          rw [← h4, Nat.mod_eq_of_lt hl]
        · have : a.ub + 1 = 2 ^ nl := by omega
          rw [this, Nat.mod_self] at h4
          have : 2 ^ nl = 2 ^ a.bits := by omega
          rw [‹a.ub + 1 = 2 ^ nl›, this, Nat.mod_self]; exact h4
      · rw [if_neg h3]

end Claripy.VSA
