import Claripy.VSA.Shift
import Mathlib.Tactic.SplitIfs
/-! Modular-arithmetic basics for the strided-interval lemmas: `imod`, `modAdd`, `modSub` on naturals below
`2^w` in closed form (`cd` = clockwise distance), membership in `SI.new`, `top`. -/
namespace Claripy.VSA

/-- clockwise distance from `a` to `b` on the circle of size `m` (for `a, b < m`) -/
def cd (m a b : Nat) : Nat := if a ≤ b then b - a else b + m - a

theorem two_pow_pos' (w : Nat) : 0 < 2 ^ w := Nat.pos_of_ne_zero (by simp)

theorem imod_nat (x w : Nat) : imod (x : Int) w = x % 2 ^ w := by
  unfold imod
  rw [← Int.natCast_emod]
  exact Int.toNat_natCast _

theorem imod_lt (x : Int) (w : Nat) : imod x w < 2 ^ w := by
  unfold imod
  have h : (0 : Int) < ((2 ^ w : Nat) : Int) := by exact_mod_cast two_pow_pos' w
  have h1 := Int.emod_nonneg x (Int.ne_of_gt h)
  have h2 := Int.emod_lt_of_pos x h
  omega

theorem imod_of_lt (x w : Nat) (h : x < 2 ^ w) : imod (x : Int) w = x := by
  rw [imod_nat, Nat.mod_eq_of_lt h]

theorem imod_sub (a b w : Nat) (ha : a < 2 ^ w) (hb : b < 2 ^ w) : imod ((a : Int) - b) w = cd (2 ^ w) b a := by
  unfold imod cd
  have hm : (0 : Int) < ((2 ^ w : Nat) : Int) := by exact_mod_cast two_pow_pos' w
  split
  · rename_i h
    have : ((a : Int) - b) % ((2 ^ w : Nat) : Int) = (a : Int) - b := by
      apply Int.emod_eq_of_lt <;> omega
    rw [this]; omega
  · rename_i h
    have : ((a : Int) - b) % ((2 ^ w : Nat) : Int) = (a : Int) - b + ((2 ^ w : Nat) : Int) := by
      rw [← Int.add_emod_right]
      apply Int.emod_eq_of_lt <;> omega
    rw [this]; omega

theorem modSub_nat (a b w : Nat) (ha : a < 2 ^ w) (hb : b < 2 ^ w) : modSub (a : Int) (b : Int) w = cd (2 ^ w) b a :=
  imod_sub a b w ha hb

theorem modAdd_nat (a b w : Nat) : modAdd (a : Int) (b : Int) w = (a + b) % 2 ^ w := by
  unfold modAdd
  have : (a : Int) + b = ((a + b : Nat) : Int) := by push_cast; rfl
  rw [this, imod_nat]

theorem add_mod_cases (a b m : Nat) (ha : a < m) (hb : b < m) :
    (a + b) % m = if a + b < m then a + b else a + b - m := by
  split
  · exact Nat.mod_eq_of_lt ‹_›
  · rename_i h
    have h1 : a + b = (a + b - m) + m := by omega
    rw [h1, Nat.add_mod_right, Nat.mod_eq_of_lt (by omega)]
    omega

end Claripy.VSA
