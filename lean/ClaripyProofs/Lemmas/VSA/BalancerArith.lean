import ClaripyProofs.Lemmas.VSA.Balancer
import Claripy.VSA.BalancerModel
/-!
Arithmetic behind the arms of the balancer (`Claripy/VSA/BalancerModel.lean`), on concrete values: what each
`_balance_<op>` does to `value(lhs) OP r`, at every width.  `m = 2^w` throughout.
-/
namespace Claripy.VSA.Bal
open Claripy.VSA

/-- the comparisons whose meaning does not depend on the width (unsigned orderings, `==`, `!=`) -/
def unsOp : CmpOp → Bool
  | .ult | .ule | .ugt | .uge | .eq | .ne => true
  | _ => false

theorem concCmp_uns (op : CmpOp) (w w' x y : Nat) (h : unsOp op = true) : concCmp op w x y = concCmp op w' x y := by
  cases op <;> simp_all [concCmp, unsOp]

/-- scaling both sides by `2^n` does not change an unsigned comparison -/
theorem concCmp_scale (op : CmpOp) (w w' x y n : Nat) (h : unsOp op = true) :
    concCmp op w (x * 2 ^ n) (y * 2 ^ n) = concCmp op w' x y := by
  have hp : 0 < 2 ^ n := two_pow_pos' n
  have hinj : x * 2 ^ n = y * 2 ^ n ↔ x = y := ⟨fun h => Nat.eq_of_mul_eq_mul_right hp h, fun h => by rw [h]⟩
  cases op <;> simp_all [concCmp, unsOp, Nat.mul_lt_mul_right hp, Nat.mul_le_mul_right_iff hp]

/-- `opposites`: swapping the operands -/
theorem concCmp_opposite (op : CmpOp) (w x y : Nat) : concCmp (opposite op) w y x = concCmp op w x y := by
  cases op <;> simp [concCmp, opposite, eq_comm]

/-! ### high bits of the other side are zero (`ZeroExt`, `Concat(0, ·)`, `Extract` with known-zero high bits) -/

/-- `rhs[w-1 : w-k] == 0` for `r < 2^w` means `r < 2^(w-k)` -/
theorem high_zero (w k r : Nat) (hk : k ≤ w) (hk0 : 0 < k) (hr : r < 2 ^ w) (h : Conc.extract (w - 1) (w - k) r = 0) :
    r < 2 ^ (w - k) := by
  unfold Conc.extract at h
  rw [Nat.shiftRight_eq_div_pow] at h
  have e : w - 1 + 1 - (w - k) = k := by omega
  rw [e] at h
  have hlt : r / 2 ^ (w - k) < 2 ^ k := by
    apply Nat.div_lt_of_lt_mul
    rw [← Nat.pow_add]
    have : w - k + k = w := by omega
    rw [this]; exact hr
  rw [Nat.mod_eq_of_lt hlt] at h
  have := Nat.lt_of_div_eq_zero (two_pow_pos' (w - k)) h
  exact this

/-- `rhs[n-1 : 0]` of a value below `2^n` is the value -/
theorem low_id (n r : Nat) (hn : 0 < n) (hr : r < 2 ^ n) : Conc.extract (n - 1) 0 r = r := by
  unfold Conc.extract
  have e : n - 1 + 1 - 0 = n := by omega
  rw [e, Nat.shiftRight_zero, Nat.mod_eq_of_lt hr]

theorem low_lt (n r : Nat) (hn : 0 < n) : Conc.extract (n - 1) 0 r < 2 ^ n := by
  unfold Conc.extract
  have e : n - 1 + 1 - 0 = n := by omega
  rw [e]
  exact Nat.mod_lt _ (two_pow_pos' n)

/-! ### `_balance_add` / `_balance_sub`: the lhs is the new lhs rotated by a constant -/

theorem conc_sub_lt (w r c : Nat) : Conc.sub w r c < 2 ^ w := Nat.mod_lt _ (two_pow_pos' w)
theorem conc_add_lt (w r c : Nat) : Conc.add w r c < 2 ^ w := Nat.mod_lt _ (two_pow_pos' w)

/-- `(x + c == r) ↔ (x == r - c)` modulo `2^w` -/
theorem add_eq_move (w x c r : Nat) (hx : x < 2 ^ w) (hc : c < 2 ^ w) (hr : r < 2 ^ w) :
    Conc.add w x c = r ↔ x = Conc.sub w r c := by
  unfold Conc.add Conc.sub
  rw [Nat.mod_eq_of_lt hc]
  have hm := two_pow_pos' w
  generalize 2 ^ w = m at *
  rw [add_mod_cases x c m hx hc]
  by_cases hc0 : c = 0
  · subst hc0
    simp only [Nat.add_zero, Nat.sub_zero, Nat.add_mod_right, Nat.mod_eq_of_lt hr, hx, if_true]
  · rw [add_mod_cases r (m - c) m hr (by omega)]
    split_ifs <;> omega

/-- `(x - c == r) ↔ (x == r + c)` modulo `2^w` -/
theorem sub_eq_move (w x c r : Nat) (hx : x < 2 ^ w) (hc : c < 2 ^ w) (hr : r < 2 ^ w) :
    Conc.sub w x c = r ↔ x = Conc.add w r c := by
  unfold Conc.add Conc.sub
  rw [Nat.mod_eq_of_lt hc]
  have hm := two_pow_pos' w
  generalize 2 ^ w = m at *
  rw [add_mod_cases r c m hr hc]
  by_cases hc0 : c = 0
  · subst hc0
    simp only [Nat.add_zero, Nat.sub_zero, Nat.add_mod_right, Nat.mod_eq_of_lt hx, hr, if_true]
  · rw [add_mod_cases x (m - c) m hx (by omega)]
    split_ifs <;> omega

/-- subtraction as an addition: `x - c = x + (2^w - c)` -/
theorem sub_as_add (w x c : Nat) (hc : c < 2 ^ w) : Conc.sub w x c = Conc.add w x ((2 ^ w - c) % 2 ^ w) := by
  unfold Conc.add Conc.sub
  rw [Nat.mod_eq_of_lt hc, Nat.add_mod_mod]

/-- `c - x = (-x) + c` (what `_align_sub` relies on) -/
theorem sub_as_neg_add (w c x : Nat) : Conc.sub w c x = Conc.add w (Conc.neg w x) c := by
  unfold Conc.add Conc.sub Conc.neg
  rw [Nat.mod_add_mod, Nat.add_comm]

theorem add_comm' (w x y : Nat) : Conc.add w x y = Conc.add w y x := by unfold Conc.add; rw [Nat.add_comm]

/-! ### `Extract` -/

/-- the bits above `hi` are zero -/
theorem ext_high_zero (isz hi v : Nat) (hhi : hi < isz - 1) (hv : v < 2 ^ isz)
    (h : Conc.extract (isz - 1) (hi + 1) v = 0) : v < 2 ^ (hi + 1) := by
  have := high_zero isz (isz - (hi + 1)) v (by omega) (by omega) hv
  have e : isz - (isz - (hi + 1)) = hi + 1 := by omega
  rw [e] at this
  exact this h

/-- the bits below `lo` are zero -/
theorem ext_low_zero (lo v : Nat) (hlo : 0 < lo) (h : Conc.extract (lo - 1) 0 v = 0) : v = v / 2 ^ lo * 2 ^ lo := by
  unfold Conc.extract at h
  have e : lo - 1 + 1 - 0 = lo := by omega
  rw [e, Nat.shiftRight_zero] at h
  have := Nat.div_add_mod v (2 ^ lo)
  rw [h] at this
  rw [Nat.mul_comm]; omega

/-- value of `v[hi:lo]` when `v < 2^(hi+1)` -/
theorem ext_val (hi lo v : Nat) (hlo : lo ≤ hi) (hv : v < 2 ^ (hi + 1)) : Conc.extract hi lo v = v / 2 ^ lo := by
  unfold Conc.extract
  rw [Nat.shiftRight_eq_div_pow]
  apply Nat.mod_eq_of_lt
  apply Nat.div_lt_of_lt_mul
  rw [← Nat.pow_add]
  have : lo + (hi + 1 - lo) = hi + 1 := by omega
  rw [this]; exact hv

/-- `Extract` with known-zero bits on both sides that are dropped: the comparison scales by `2^lo` -/
theorem extract_scale (op : CmpOp) (w w' hi lo v r : Nat) (hop : unsOp op = true) (hlo : lo ≤ hi) (hv : v < 2 ^ (hi + 1))
    (hz : v = v / 2 ^ lo * 2 ^ lo) : concCmp op w (Conc.extract hi lo v) r = concCmp op w' v (r * 2 ^ lo) := by
  rw [ext_val hi lo v hlo hv]
  conv => rhs; rw [hz]
  exact (concCmp_scale op w' w (v / 2 ^ lo) r lo hop).symm

theorem scale_lt (hi lo r isz : Nat) (hlo : lo ≤ hi) (hhi : hi < isz) (hr : r < 2 ^ (hi + 1 - lo)) : r * 2 ^ lo < 2 ^ isz := by
  have h1 : r * 2 ^ lo < 2 ^ (hi + 1 - lo) * 2 ^ lo := Nat.mul_lt_mul_of_pos_right hr (two_pow_pos' lo)
  rw [← Nat.pow_add] at h1
  have e : hi + 1 - lo + lo = hi + 1 := by omega
  rw [e] at h1
  exact Nat.lt_of_lt_of_le h1 (Nat.pow_le_pow_right (by omega) (by omega))

/-- `Extract(hi, 0, ·)` with unknown high bits: only `>=`, `>`, `!=` survive (one direction) -/
theorem extract_low_pre (op : CmpOp) (w w' hi v r : Nat) (hop : op = .uge ∨ op = .ugt ∨ op = .ne) (hr : r < 2 ^ (hi + 1))
    (h : concCmp op w (Conc.extract hi 0 v) r = true) : concCmp op w' v r = true := by
  unfold Conc.extract at h
  rw [Nat.shiftRight_zero, Nat.sub_zero] at h
  have hle : v % 2 ^ (hi + 1) ≤ v := Nat.mod_le _ _
  rcases hop with rfl | rfl | rfl
  · simp only [concCmp, decide_eq_true_eq] at h ⊢; omega
  · simp only [concCmp, decide_eq_true_eq] at h ⊢; omega
  · simp only [concCmp, decide_eq_true_eq] at h ⊢
    intro he; apply h; rw [he]; exact Nat.mod_eq_of_lt hr

/-! ### `__lshift__` -/

theorem shl_val (w v n : Nat) (hn : n < w) : Conc.shl w v n = (v * 2 ^ n) % 2 ^ w := by
  unfold Conc.shl
  rw [if_pos hn, Nat.shiftLeft_eq]

theorem lshr_val (w r n : Nat) (hn : n < w) : Conc.lshr w r n = r / 2 ^ n := by
  unfold Conc.lshr
  rw [if_pos hn, Nat.shiftRight_eq_div_pow]

/-- `rhs[n-1:0] == 0`: the other side is a multiple of `2^n` -/
theorem low_zero_mul (n r : Nat) (hn : 0 < n) (h : Conc.extract (n - 1) 0 r = 0) : r = r / 2 ^ n * 2 ^ n :=
  ext_low_zero n r hn h

/-- left shift, unknown shifted-out bits: `>=`, `>`, `!=` survive (one direction) -/
theorem shl_pre (op : CmpOp) (w w' v n r : Nat) (hop : op = .uge ∨ op = .ugt ∨ op = .ne) (hn : n < w)
    (hr : r = r / 2 ^ n * 2 ^ n) (hrw : r < 2 ^ w)
    (h : concCmp op w (Conc.shl w v n) r = true) : concCmp op w' v (r / 2 ^ n) = true := by
  rw [shl_val w v n hn] at h
  have hp := two_pow_pos' n
  have hle : (v * 2 ^ n) % 2 ^ w ≤ v * 2 ^ n := Nat.mod_le _ _
  generalize r / 2 ^ n = q at *
  subst hr
  rcases hop with rfl | rfl | rfl
  · simp only [concCmp, decide_eq_true_eq] at h ⊢
    exact Nat.le_of_mul_le_mul_right (Nat.le_trans h hle) hp
  · simp only [concCmp, decide_eq_true_eq] at h ⊢
    exact Nat.lt_of_mul_lt_mul_right (Nat.lt_of_lt_of_le h hle)
  · simp only [concCmp, decide_eq_true_eq] at h ⊢
    intro he; apply h; rw [he]; exact Nat.mod_eq_of_lt hrw

/-- left shift with known-zero shifted-out bits: an equivalence for every unsigned comparison -/
theorem shl_exact (op : CmpOp) (w w' v n r : Nat) (hop : unsOp op = true) (hn : n < w) (hv : v < 2 ^ (w - n))
    (hr : r = r / 2 ^ n * 2 ^ n) : concCmp op w (Conc.shl w v n) r = concCmp op w' v (r / 2 ^ n) := by
  rw [shl_val w v n hn]
  have hlt : v * 2 ^ n < 2 ^ w := by
    have h1 : v * 2 ^ n < 2 ^ (w - n) * 2 ^ n := Nat.mul_lt_mul_of_pos_right hv (two_pow_pos' n)
    rw [← Nat.pow_add] at h1
    have e : w - n + n = w := by omega
    rwa [e] at h1
  rw [Nat.mod_eq_of_lt hlt]
  conv => lhs; rw [hr]
  exact concCmp_scale op w w' v (r / 2 ^ n) n hop

/-! ### `__and__` with a low mask -/

theorem lowOnes_spec : ∀ (fuel v acc n : Nat), v < fuel → lowOnes fuel v acc = some n → acc ≤ n ∧ v = 2 ^ (n - acc) - 1
  | 0, _, _, _, h, _ => by omega
  | fuel + 1, v, acc, n, h, hl => by
    unfold lowOnes at hl
    by_cases h0 : v = 0
    · rw [if_pos h0] at hl
      cases hl
      subst h0
      simp
    · rw [if_neg h0] at hl
      by_cases h2 : v % 2 = 0
      · rw [if_pos h2] at hl; cases hl
      · rw [if_neg h2] at hl
        obtain ⟨h1, h3⟩ := lowOnes_spec fuel (v / 2) (acc + 1) n (by omega) hl
        refine ⟨by omega, ?_⟩
        have e : n - acc = (n - (acc + 1)) + 1 := by omega
        rw [e, Nat.pow_succ]
        have hp := two_pow_pos' (n - (acc + 1))
        omega

theorem and_low_mask (x n : Nat) (hx : x < 2 ^ n) : Conc.and 0 x (2 ^ n - 1) = x := by
  unfold Conc.and
  rw [Nat.and_two_pow_sub_one_eq_mod, Nat.mod_eq_of_lt hx]

/-! ### `SignExt` -/

/-- two `w`-bit values with the same `k` high bits compare like their low `w - k` bits (unsigned) -/
theorem same_high (op : CmpOp) (w w' k s r : Nat) (hop : unsOp op = true)
    (h : s / 2 ^ (w - k) = r / 2 ^ (w - k)) :
    concCmp op w s r = concCmp op w' (s % 2 ^ (w - k)) (r % 2 ^ (w - k)) := by
  have hs := Nat.div_add_mod s (2 ^ (w - k))
  have hr := Nat.div_add_mod r (2 ^ (w - k))
  rw [h] at hs
  generalize 2 ^ (w - k) * (r / 2 ^ (w - k)) = q at *
  generalize s % 2 ^ (w - k) = a at *
  generalize r % 2 ^ (w - k) = b at *
  subst hs; subst hr
  cases op <;> simp_all [concCmp, unsOp]

/-! ### the pair of bounds of a truism and its implicit assumption across `+ c` (wrapped interval) -/

/-- restricting a wrapped interval by the hull `[a, b]` of the operand: `x ∈ W[l0, u0]`, `a ≤ x ≤ b` ⟹
`x ∈ W[max a l0, min b u0]` -/
theorem Win_hull (m l0 u0 a b x : Nat) (hl : l0 < m) (hu : u0 < m) (hx : x < m)
    (hW : Win m l0 u0 x) (ha : a ≤ x) (hxb : x ≤ b) : Win m (max a l0) (min b u0) x := by
  unfold Win cd at *
  rw [Nat.max_def, Nat.min_def]
  split_ifs at * <;> omega

end Claripy.VSA.Bal
