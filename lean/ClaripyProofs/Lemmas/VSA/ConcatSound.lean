import ClaripyProofs.Lemmas.VSA.AndXor
import ClaripyProofs.Lemmas.VSA.ZextBounds
import ClaripyProofs.Lemmas.VSA.ShiftSound
/-! `concat` is sound and closed: the high operand is widened and shifted (`_lshift`; a wrapping operand becomes "all
multiples of `2^k`"), the low operand zero-extended, and the two are or-ed (or added, when the high part is a single
value). -/
namespace Claripy.VSA

/-- the third branch of `_lshift`: the span does not fit after the shift, `k` is smaller than the width — every multiple
of `2^k` is a member -/
theorem lshiftK_multiples (s : SI) (k : Nat) (hs : s.WF) (hnb : s.bottom = false)
    (h1 : ¬ cd (2 ^ s.bits) s.lb s.ub * 2 ^ k < 2 ^ s.bits) (h2 : k < s.bits) (z : Nat) (hzl : z < 2 ^ s.bits)
    (hzd : 2 ^ k ∣ z) : (lshiftK s k).mem z := by
  obtain ⟨hw, hl, hu, hst⟩ := hs
  have hspan : modSub (s.ub : Int) (s.lb : Int) s.bits = cd (2 ^ s.bits) s.lb s.ub := modSub_nat _ _ _ hu hl
  unfold lshiftK
  rw [hnb]
  simp only [Bool.false_eq_true, if_false, hspan, Nat.shiftLeft_eq]
  rw [if_neg h1, if_neg (by omega)]
  have hP := two_pow_pos' k
  have hPM : 2 ^ k ∣ 2 ^ s.bits := Nat.pow_dvd_pow 2 (by omega)
  obtain ⟨a, ha⟩ := hzd
  obtain ⟨b, hb⟩ := hPM
  have hab : a < b := by
    rw [ha, hb] at hzl
    exact Nat.lt_of_mul_lt_mul_left hzl
  have hzle : z ≤ 2 ^ s.bits - 2 ^ k := by
    rw [ha, hb]
    have : 2 ^ k * a + 2 ^ k ≤ 2 ^ k * b := by
      have := Nat.mul_le_mul_left (2 ^ k) (Nat.succ_le_of_lt hab)
      rw [Nat.mul_succ] at this; exact this
    omega
  have hlt : 2 ^ s.bits - 2 ^ k < 2 ^ s.bits := by have := two_pow_pos' s.bits; omega
  rw [mem_new, imod_zero, imod_nat, Nat.mod_eq_of_lt hlt, cd_zero, cd_zero]
  refine ⟨hzl, hzle, ?_⟩
  rw [if_neg (by omega), ha, Nat.mul_mod_right]

theorem shl_lt (x ws wb : Nat) (hx : x < 2 ^ ws) : x <<< wb < 2 ^ (ws + wb) ∧ x <<< wb ≤ 2 ^ (ws + wb) - 2 ^ wb := by
  rw [Nat.shiftLeft_eq, Nat.pow_add]
  have hp := two_pow_pos' wb
  have h1 : (x + 1) * 2 ^ wb ≤ 2 ^ ws * 2 ^ wb := Nat.mul_le_mul_right _ hx
  rw [Nat.add_mul, Nat.one_mul] at h1
  omega

/-- a normal interval with stride 1 whose lower bound follows its upper bound is written `[0, 2^w - 1]` -/
theorem nrm_full (t : SI) (ht : Nrm t) (hw : t.WF) (hb : t.bottom = false) (hs : t.stride = 1)
    (h : t.lb = (t.ub + 1) % 2 ^ t.bits) : t.ub = 2 ^ t.bits - 1 := by
  unfold Nrm SI.renorm at ht
  rw [hb] at ht
  simp only [Bool.false_eq_true, if_false] at ht
  obtain ⟨_, hl, hu, hst⟩ := hw
  rw [new_eq, imod_of_lt _ _ hl, imod_of_lt _ _ hu] at ht
  have hne : t.lb ≠ t.ub := by intro he; have := hst.2 he; omega
  rw [if_neg hne, if_pos ⟨h, hs⟩] at ht
  have := congrArg SI.ub ht
  exact this.symm

/-- **`concat` is sound and closed** -/
theorem concat_sound (s b r : SI) (hs : s.WF) (hb : b.WF) (hsb : s.bottom = false) (hbb : b.bottom = false)
    (h : s.concat b = .ok r) :
    (WFw (s.bits + b.bits) r ∧ (Nrm b → Nrm r)) ∧ ∀ x y, s.mem x → b.mem y → r.mem (x <<< b.bits ||| y) := by
  have hws := hs.1
  have hwb := hb.1
  have hW0 : 0 < s.bits + b.bits := by omega
  have hcW := renorm_WFw s.bits s ⟨hs, rfl⟩
  have hcb : s.renorm.bottom = false := by unfold SI.renorm; rw [hsb]; simp
  unfold SI.concat at h
  simp only [] at h
  generalize ha : (SI.mk (s.bits + b.bits) s.renorm.stride s.renorm.lb s.renorm.ub s.renorm.bottom) = a at h
  have haW : WFw (s.bits + b.bits) a := by
    rw [← ha]; exact widen_bits_WF s.renorm s.bits (s.bits + b.bits) hcW (by omega)
  have hab : a.bottom = false := by rw [← ha]; exact hcb
  have habits : a.bits = s.bits + b.bits := haW.2
  have hal : a.lb = s.renorm.lb := by rw [← ha]
  have hau : a.ub = s.renorm.ub := by rw [← ha]
  obtain ⟨newSi, hns, h⟩ := bind_ok _ _ _ h
  obtain ⟨newB, hnb, h⟩ := bind_ok _ _ _ h
  -- the shifted high part
  unfold SI.lshiftRange at hns
  have hf : ∀ k si, (fun k => (pure (lshiftK a k) : R SI)) k = .ok si → WFw (s.bits + b.bits) si := by
    intro k si hk
    have : si = lshiftK a k := by cases hk; rfl
    subst this
    have := (lshiftK_sound a k haW.1 hab).1
    rwa [habits] at this
  obtain ⟨hnsW, hns2⟩ := overRange_sup (s.bits + b.bits) a habits hW0 _ _ _ hf newSi hns
  obtain ⟨si, hsi, hsub⟩ := hns2 b.bits (Nat.le_refl _) (Nat.le_refl _)
  have hsie : si = lshiftK a b.bits := by cases hsi; rfl
  subst hsie
  have hhigh : ∀ x, s.mem x → newSi.mem (x <<< b.bits) := by
    intro x hx
    have hxl : x < 2 ^ s.bits := hx.2.1
    obtain ⟨hlt, _⟩ := shl_lt x s.bits b.bits hxl
    apply hsub
    by_cases hle : s.renorm.lb ≤ s.renorm.ub
    · have hax : a.mem x := by
        rw [← ha]
        exact widen_bits_mem s.renorm s.bits (s.bits + b.bits) hcW hle (by omega) x ((renorm_mem s hs x).2 hx)
      have := (lshiftK_sound a b.bits haW.1 hab).2 x hax
      rw [habits, Nat.mod_eq_of_lt hlt] at this
      exact this
    · apply lshiftK_multiples a b.bits haW.1 hab _ (by rw [habits]; omega) _ (by rw [habits]; exact hlt)
        (by rw [Nat.shiftLeft_eq]; exact Nat.dvd_mul_left _ _)
      rw [habits, hal, hau]
      have hl := hcW.1.2.1
      have hu := hcW.1.2.2.1
      rw [hcW.2] at hl hu
      have hpw : 2 ^ s.bits ≤ 2 ^ (s.bits + b.bits) := Nat.pow_le_pow_right (by omega) (by omega)
      have : 2 ^ s.bits ≤ cd (2 ^ (s.bits + b.bits)) s.renorm.lb s.renorm.ub := by
        have h2 : 2 * 2 ^ s.bits ≤ 2 ^ (s.bits + b.bits) := by
          rw [← Nat.pow_succ']
          exact Nat.pow_le_pow_right (by omega) (by omega)
        unfold cd; split_ifs <;> omega
      have := Nat.mul_le_mul_right (2 ^ b.bits) this
      rw [← Nat.pow_add] at this
      omega
  have hnsb : newSi.bottom = false := (hhigh _ (mem_lb s hs hsb)).1
  -- the zero-extended low part
  rw [hnsW.2] at hnb
  obtain ⟨hnbW, hnb2⟩ := zext_sound b newB (s.bits + b.bits) hb hbb (by omega) hnb
  obtain ⟨hBl, hBu⟩ := zeroExtend_bounds b newB (s.bits + b.bits) hb hbb (by omega) hnb
  have hnbb : newB.bottom = false := (hnb2 _ (mem_lb b hb hbb)).1
  by_cases hint : newSi.isInteger = true
  · rw [if_pos hint] at h
    have hr := pure_ok _ _ h
    have hi : newSi.lb = newSi.ub := (isInteger_iff newSi).1 hint
    -- the single value of the high part
    have hv : ∀ x, s.mem x → x <<< b.bits = newSi.lb := fun x hx => mem_integer newSi _ hnsW.1 hi (hhigh x hx)
    have hvle : newSi.lb ≤ 2 ^ (s.bits + b.bits) - 2 ^ b.bits := by
      rw [← hv _ (mem_lb s hs hsb)]
      exact (shl_lt _ s.bits b.bits hs.2.1).2
    have hvd : 2 ^ b.bits ∣ newSi.lb := by
      rw [← hv _ (mem_lb s hs hsb), Nat.shiftLeft_eq]; exact Nat.dvd_mul_left _ _
    have hpw : 2 ^ b.bits ≤ 2 ^ (s.bits + b.bits) := Nat.pow_le_pow_right (by omega) (by omega)
    have hrl : r.lb = newSi.lb + newB.lb := by rw [hr]
    have hru : r.ub = newSi.lb + newB.ub := by rw [hr, hi]
    have hrs : r.stride = newB.stride := by rw [hr]
    have hrb : r.bits = s.bits + b.bits := by rw [hr]; exact hnbW.2
    have hrbot : r.bottom = false := by rw [hr]; exact hnsb
    have hrW : r.WF := by
      refine ⟨by rw [hrb]; exact hW0, by rw [hrb, hrl]; omega, by rw [hrb, hru]; omega, ?_⟩
      rw [hrs, hrl, hru]
      have := hnbW.1.2.2.2
      constructor
      · intro h0; rw [this.1 h0]
      · intro he; exact this.2 (by omega)
    refine ⟨⟨⟨hrW, hrb⟩, ?_⟩, ?_⟩
    · intro nb
      have nB : Nrm newB := zeroExtend_nrm b newB (s.bits + b.bits) hb hbb nb (by omega) hnbW.1 hnb
      unfold Nrm SI.renorm
      rw [hrbot]
      simp only [Bool.false_eq_true, if_false]
      rw [new_eq, imod_of_lt _ _ hrW.2.1, imod_of_lt _ _ hrW.2.2.1]
      by_cases he : r.lb = r.ub
      · rw [if_pos he]
        have : r.stride = 0 := hrW.2.2.2.2 he
        cases r; simp_all
      · rw [if_neg he]
        have hnt : ¬ (r.lb = (r.ub + 1) % 2 ^ r.bits ∧ r.stride = 1) := by
          rintro ⟨e1, e2⟩
          rw [hrb, hrl, hru] at e1
          rw [hrs] at e2
          have hfull := nrm_full newB nB hnbW.1 hnbb e2
          rw [hnbW.2] at hfull
          have hm := two_pow_pos' (s.bits + b.bits)
          by_cases hc : newSi.lb + newB.ub + 1 < 2 ^ (s.bits + b.bits)
          · rw [Nat.mod_eq_of_lt hc] at e1
            have := hfull (by rw [Nat.mod_eq_of_lt (by omega)]; omega)
            omega
          · have : newSi.lb + newB.ub + 1 = 2 ^ (s.bits + b.bits) := by omega
            rw [this, Nat.mod_self] at e1
            have h2 : 2 * 2 ^ b.bits ≤ 2 ^ (s.bits + b.bits) := by
              rw [← Nat.pow_succ']
              exact Nat.pow_le_pow_right (by omega) (by omega)
            omega
        rw [if_neg hnt]
        cases r; simp_all
    · intro x y hx hy
      have hyl : y < 2 ^ b.bits := hy.2.1
      have hyB := hnb2 y hy
      obtain ⟨_, _, c1, c2⟩ := mem_facts newB y hnbW.1 hyB
      rw [hnbW.2] at c1 c2
      obtain ⟨q, hq⟩ := hvd
      rw [hv x hx, hq, Nat.mul_comm, mul_or_low _ _ _ hyl]
      rw [hq, Nat.mul_comm] at hvle hrl hru
      generalize q * 2 ^ b.bits = v at *
      rw [mem_iff _ _ hrW.2.1 hrW.2.2.1, hrb, hrl, hru, hrs]
      have e1 : cd (2 ^ (s.bits + b.bits)) (v + newB.lb) (v + y) = cd (2 ^ (s.bits + b.bits)) newB.lb y := by
        unfold cd; split_ifs <;> omega
      have e2 : cd (2 ^ (s.bits + b.bits)) (v + newB.lb) (v + newB.ub) = cd (2 ^ (s.bits + b.bits)) newB.lb newB.ub := by
        unfold cd; split_ifs <;> omega
      rw [e1, e2]
      exact ⟨hrbot, by omega, c1, stride_cond_of_dvd _ _ c2 (fun h0 => by rw [h0] at c2; exact Nat.eq_zero_of_zero_dvd c2)⟩
  · rw [if_neg hint] at h
    obtain ⟨g1, _, g3, g4⟩ := or_full newSi newB r hnsW.1 hnbW.1 (by rw [hnsW.2, hnbW.2]) hnsb hnbb h
    rw [hnsW.2] at g1
    exact ⟨⟨g1, fun _ => g3⟩, fun x y hx hy => g4 _ _ (hhigh x hx) (hnb2 y hy)⟩

end Claripy.VSA
