import ClaripyProofs.Lemmas.VSA.Udiv
import Claripy.VSA.Conc
/-! Right logical shift and left shift, by concrete amounts and by interval amounts. -/
namespace Claripy.VSA

/-- the accumulating loop over shift amounts contains what every iteration produced -/
theorem overRangeAux_sup (w : Nat) (f : Nat → R SI) (hf : ∀ k si, f k = .ok si → WFw w si) :
    ∀ (ks : List Nat) (acc res : Option SI), (∀ a, acc = some a → WFw w a) →
      overRangeAux f ks acc = .ok res →
      (∀ r, res = some r → WFw w r) ∧
      (∀ a, acc = some a → ∃ r, res = some r ∧ ∀ x, a.mem x → r.mem x) ∧
      (∀ k, k ∈ ks → ∃ si r, f k = .ok si ∧ res = some r ∧ ∀ x, si.mem x → r.mem x) := by
  intro ks
  induction ks with
  | nil =>
    intro acc res hacc h
    unfold overRangeAux at h
    have : res = acc := by cases h; rfl
    subst this
    exact ⟨hacc, fun a ha => ⟨a, ha, fun _ hx => hx⟩, fun k hk => by cases hk⟩
  | cons k ks ih =>
    intro acc res hacc h
    unfold overRangeAux at h
    cases hfk : f k with
    | error e => rw [hfk] at h; cases h
    | ok si =>
      rw [hfk] at h
      simp only [] at h
      have hsi := hf k si hfk
      cases acc with
      | none =>
        simp only [] at h
        obtain ⟨h1, h2, h3⟩ := ih (some si) res (fun a ha => by cases ha; exact hsi) h
        refine ⟨h1, ?_, ?_⟩
        · intro a ha; cases ha
        intro k' hk'
        rcases List.mem_cons.1 hk' with he | hin
        · subst he
          obtain ⟨r, hr, hsub⟩ := h2 si rfl
          exact ⟨si, r, hfk, hr, hsub⟩
        · exact h3 k' hin
      | some a =>
        simp only [] at h
        have ha := hacc a rfl
        cases hu : a.union si with
        | error e => rw [hu] at h; cases h
        | ok u =>
          rw [hu] at h
          simp only [] at h
          obtain ⟨hu1, hu2⟩ := union_sup w a si u ha hsi hu
          obtain ⟨h1, h2, h3⟩ := ih (some u) res (fun b hb => by cases hb; exact hu1) h
          obtain ⟨r, hr, hsub⟩ := h2 u rfl
          refine ⟨h1, ?_, ?_⟩
          · intro a' ha'
            cases ha'
            exact ⟨r, hr, fun x hx => hsub x (hu2 x (Or.inl hx))⟩
          · intro k' hk'
            rcases List.mem_cons.1 hk' with he | hin
            · subst he
              exact ⟨si, r, hfk, hr, fun x hx => hsub x (hu2 x (Or.inr hx))⟩
            · exact h3 k' hin

/-- `overRange`: the result contains the result of every amount in the range -/
theorem overRange_sup (w : Nat) (self : SI) (hself : self.bits = w) (hw : 0 < w) (lower upper : Nat) (f : Nat → R SI)
    (hf : ∀ k si, f k = .ok si → WFw w si) (r : SI) (h : overRange self lower upper f = .ok r) :
    WFw w r ∧ ∀ k, lower ≤ k → k ≤ upper → ∃ si, f k = .ok si ∧ ∀ x, si.mem x → r.mem x := by
  unfold overRange at h
  cases haux : overRangeAux f ((List.range (upper + 1 - lower)).map (lower + ·)) none with
  | error e => rw [haux] at h; cases h
  | ok res =>
    rw [haux] at h
    obtain ⟨h1, _, h3⟩ := overRangeAux_sup w f hf _ none res (fun a ha => by cases ha) haux
    cases res with
    | none =>
      simp only [] at h
      have hr : r = SI.top self.bits := by cases h; rfl
      subst hr
      rw [hself]
      refine ⟨⟨top_WF w hw, top_bits w⟩, ?_⟩
      intro k hk1 hk2
      have hmem : k ∈ (List.range (upper + 1 - lower)).map (lower + ·) := by
        rw [List.mem_map]; exact ⟨k - lower, List.mem_range.2 (by omega), by omega⟩
      obtain ⟨si, r', _, hr', _⟩ := h3 k hmem
      cases hr'
    | some u =>
      simp only [] at h
      have hr : r = u.renorm := by cases h; rfl
      subst hr
      have hu := h1 u rfl
      refine ⟨renorm_WFw w u hu, ?_⟩
      intro k hk1 hk2
      have hmem : k ∈ (List.range (upper + 1 - lower)).map (lower + ·) := by
        rw [List.mem_map]; exact ⟨k - lower, List.mem_range.2 (by omega), by omega⟩
      obtain ⟨si, r', hfk, hr', hsub⟩ := h3 k hmem
      cases hr'
      exact ⟨si, hfk, fun x hx => (renorm_mem u hu.1 x).2 (hsub x hx)⟩

/-! ### logical right shift -/

theorem rshiftStride_ne_zero (st k : Nat) : rshiftStride st k ≠ 0 := by
  unfold rshiftStride
  split
  · have : 1 ≤ Nat.max (st >>> k) 1 := Nat.le_max_right _ _
    omega
  · omega

/-- shifting a non-wrapping piece right: bounds are monotone, the stride survives when it is a multiple of `2^k` -/
theorem rshift_piece_mem (w k st : Nat) (p : SI) (hp : WFw w p) (hle : p.lb ≤ p.ub) (hst : p.stride = 0 ∨ p.stride = st)
    (x : Nat) (hx : p.mem x) :
    (SI.new w (rshiftStride st k) ((p.lb >>> k : Nat) : Int) ((p.ub >>> k : Nat) : Int)).mem (x >>> k) := by
  obtain ⟨hbt, hxl, h1, h2⟩ := mem_facts p x hp.1 hx
  obtain ⟨hb1, hb2⟩ := mem_between p w hp hle x hx
  have hpu : p.ub < 2 ^ w := by have := hp.1.2.2.1; rw [hp.2] at this; exact this
  rw [hp.2] at h1 h2 hxl
  simp only [Nat.shiftRight_eq_div_pow]
  have hpos : 0 < 2 ^ k := two_pow_pos' k
  have hlo : p.lb / 2 ^ k ≤ x / 2 ^ k := Nat.div_le_div_right hb1
  have hhi : x / 2 ^ k ≤ p.ub / 2 ^ k := Nat.div_le_div_right hb2
  have hhilt : p.ub / 2 ^ k < 2 ^ w := Nat.lt_of_le_of_lt (Nat.div_le_self _ _) hpu
  have hcdx : cd (2 ^ w) p.lb x = x - p.lb := by unfold cd; split_ifs <;> omega
  have hcdz : cd (2 ^ w) (p.lb / 2 ^ k) (x / 2 ^ k) = x / 2 ^ k - p.lb / 2 ^ k := by unfold cd; split_ifs <;> omega
  apply mem_new_of w _ _ _ _ (by omega) hhilt (by omega)
  · unfold cd; split_ifs <;> omega
  · -- divisibility of the offset
    rw [hcdz]
    unfold rshiftStride
    simp only [Nat.shiftRight_eq_div_pow]
    by_cases hdiv : st % 2 ^ k = 0
    · rw [if_pos hdiv]
      rcases hst with h0 | h0
      · -- singleton piece: offset 0
        rw [h0] at h2
        have : x = p.lb := by have := Nat.eq_zero_of_zero_dvd h2; omega
        subst this; simp
      · rw [h0, hcdx] at h2
        obtain ⟨j, hj⟩ := h2
        obtain ⟨t, ht⟩ := Nat.dvd_of_mod_eq_zero hdiv
        have hx' : x = p.lb + j * t * 2 ^ k := by rw [ht] at hj; rw [Nat.mul_comm j t, Nat.mul_assoc, Nat.mul_comm j, ← Nat.mul_assoc]; rw [Nat.mul_comm (2 ^ k) t] at hj; omega
        have hq : x / 2 ^ k = p.lb / 2 ^ k + j * t := by rw [hx', Nat.add_mul_div_right _ _ hpos]
        have hst' : st / 2 ^ k = t := by rw [ht, Nat.mul_div_cancel_left _ hpos]
        rw [hq, hst', Nat.add_sub_cancel_left]
        by_cases ht0 : t = 0
        · subst ht0; simp
        · have : Nat.max t 1 = t := Nat.max_eq_left (by omega)
          rw [this]; exact Nat.dvd_mul_left _ _
    · rw [if_neg hdiv]; exact Nat.one_dvd _
  · intro h; exact absurd h (rshiftStride_ne_zero st k)

theorem rshift_piece_WF (w k st : Nat) (lo hi : Int) (hw : 0 < w) : WFw w (SI.new w (rshiftStride st k) lo hi) :=
  ⟨new_WF _ _ _ _ hw (fun h => absurd h (rshiftStride_ne_zero st k)), new_bits _ _ _ _⟩

/-- `_rshift_logical(k)` on a non-wrapping interval (one piece) -/
theorem rshiftLogicalK_nowrap (fuel k : Nat) (s r : SI) (hs : s.WF) (hnb : s.bottom = false) (hle : s.lb ≤ s.ub)
    (h : rshiftLogicalK (fuel + 1) s k = .ok r) :
    WFw s.bits r ∧ ∀ x, s.mem x → r.mem (x >>> k) := by
  unfold rshiftLogicalK at h
  rw [hnb] at h
  simp only [Bool.false_eq_true, if_false] at h
  have hsp : s.ssplit = .ok [s.renorm] := by unfold SI.ssplit; rw [if_neg (by omega)]; rfl
  rw [hsp] at h
  simp only [bind, Except.bind, pure, Except.pure] at h
  have hr : r = SI.new s.bits (rshiftStride s.stride k) ((s.renorm.lb >>> k : Nat) : Int) ((s.renorm.ub >>> k : Nat) : Int) := by
    cases h; rfl
  subst hr
  have hrw := renorm_WFw s.bits s ⟨hs, rfl⟩
  have hrle : s.renorm.lb ≤ s.renorm.ub := by
    unfold SI.renorm; rw [hnb]; simp only [Bool.false_eq_true, if_false]
    exact new_nowrap _ _ _ _ hs.2.1 hs.2.2.1 hle
  have hrst : s.renorm.stride = 0 ∨ s.renorm.stride = s.stride := by
    unfold SI.renorm; rw [hnb]; simp only [Bool.false_eq_true, if_false]
    exact new_stride_dvd _ _ _ _
  refine ⟨rshift_piece_WF _ _ _ _ _ hs.1, ?_⟩
  intro x hx
  exact rshift_piece_mem s.bits k s.stride s.renorm hrw hrle hrst x ((renorm_mem s hs x).2 hx)

/-- **`_rshift_logical(k)` is sound and closed** -/
theorem rshiftLogicalK_sound (fuel k : Nat) (s r : SI) (hs : s.WF) (hnb : s.bottom = false)
    (h : rshiftLogicalK (fuel + 2) s k = .ok r) :
    WFw s.bits r ∧ ∀ x, s.mem x → r.mem (x >>> k) := by
  obtain ⟨ps, hps, hprop, hcov, _⟩ := ssplit_spec s hs hnb
  unfold rshiftLogicalK at h
  rw [hnb] at h
  simp only [Bool.false_eq_true, if_false] at h
  rw [hps] at h
  simp only [bind, Except.bind] at h
  match ps, hprop, hcov, h with
  | [], _, _, h => cases h
  | [p], hprop, hcov, h =>
    simp only [pure, Except.pure] at h
    have hr : r = SI.new s.bits (rshiftStride s.stride k) ((p.lb >>> k : Nat) : Int) ((p.ub >>> k : Nat) : Int) := by
      cases h; rfl
    subst hr
    obtain ⟨hpw, _, hple, hpst⟩ := hprop p List.mem_cons_self
    refine ⟨rshift_piece_WF _ _ _ _ _ hs.1, ?_⟩
    intro x hx
    obtain ⟨p', hp', hpx⟩ := hcov x hx
    have : p' = p := by simpa using hp'
    subst this
    exact rshift_piece_mem s.bits k s.stride p' hpw hple hpst x hpx
  | [p, q], hprop, hcov, h =>
    obtain ⟨hpw, hpb, hple, _⟩ := hprop p List.mem_cons_self
    obtain ⟨hqw, hqb, hqle, _⟩ := hprop q (List.mem_cons_of_mem _ List.mem_cons_self)
    dsimp only at h
    cases ha : rshiftLogicalK (fuel + 1) p k with
    | error e => rw [ha] at h; cases h
    | ok a =>
      rw [ha] at h
      simp only [] at h
      cases hb : rshiftLogicalK (fuel + 1) q k with
      | error e => rw [hb] at h; cases h
      | ok b =>
        rw [hb] at h
        simp only [] at h
        obtain ⟨ha1, ha2⟩ := rshiftLogicalK_nowrap fuel k p a hpw.1 hpb hple ha
        obtain ⟨hb1, hb2⟩ := rshiftLogicalK_nowrap fuel k q b hqw.1 hqb hqle hb
        rw [hpw.2] at ha1
        rw [hqw.2] at hb1
        obtain ⟨hu1, hu2⟩ := union_sup s.bits a b r ha1 hb1 h
        refine ⟨hu1, ?_⟩
        intro x hx
        obtain ⟨p', hp', hpx⟩ := hcov x hx
        rcases List.mem_cons.1 hp' with he | he
        · subst he; exact hu2 _ (Or.inl (ha2 x hpx))
        · have : p' = q := by simpa using he
          subst this; exact hu2 _ (Or.inr (hb2 x hpx))
  | _ :: _ :: _ :: _, _, _, h => cases h

/-- every value of the shift amount lands (after rounding to the width) inside the range `_get_shift_range` returns -/
theorem getShiftRange_covers (self amt : SI) (hamt : amt.WF) (y : Nat) (hy : amt.mem y) :
    (getShiftRange self amt).1 ≤ roundTo self.bits y ∧ roundTo self.bits y ≤ (getShiftRange self amt).2 := by
  unfold getShiftRange
  by_cases hint : amt.isInteger = true
  · rw [if_pos hint]
    have hlu := (isInteger_iff amt).1 hint
    have hyl : y = amt.lb := by
      obtain ⟨_, hl, hu, _⟩ := hamt
      rw [mem_iff _ _ hl hu] at hy
      obtain ⟨_, hxl, hle, _⟩ := hy
      rw [← hlu, cd_self] at hle
      exact ((cd_eq_zero _ _ _ hl hxl).1 (by omega)).symm
    subst hyl
    exact ⟨Nat.le_refl _, Nat.le_refl _⟩
  · rw [if_neg hint]
    by_cases hwrap : amt.lb > amt.ub
    · rw [if_pos hwrap]
      refine ⟨Nat.zero_le _, ?_⟩
      unfold roundTo; split_ifs <;> omega
    · rw [if_neg hwrap]
      obtain ⟨h1, h2⟩ := mem_between amt amt.bits ⟨hamt, rfl⟩ (by omega) y hy
      simp only []
      unfold roundTo
      constructor <;> split_ifs <;> omega

theorem lshr_roundTo (w x y : Nat) (hx : x < 2 ^ w) : Conc.lshr w x y = x >>> roundTo w y := by
  unfold Conc.lshr roundTo
  by_cases h : y < w
  · rw [if_pos h, if_neg (by omega)]
  · rw [if_neg h]
    by_cases h2 : y > w
    · rw [if_pos h2, Nat.shiftRight_eq_div_pow, Nat.div_eq_of_lt hx]
    · rw [if_neg h2]
      have : y = w := by omega
      subst this
      rw [Nat.shiftRight_eq_div_pow, Nat.div_eq_of_lt hx]

/-- **`rshift_logical` (interval shift amount) is sound and closed** -/
theorem lshr_sound (s amt r : SI) (hs : s.WF) (hnb : s.bottom = false) (hamt : amt.WF)
    (h : s.rshiftLogical amt = .ok r) :
    WFw s.bits r ∧ ∀ x y, s.mem x → amt.mem y → r.mem (Conc.lshr s.bits x y) := by
  unfold SI.rshiftLogical SI.rshiftLogicalRange at h
  simp only [] at h
  have hf : ∀ k si, rshiftLogicalK recFuel s k = .ok si → WFw s.bits si :=
    fun k si hk => (rshiftLogicalK_sound 62 k s si hs hnb hk).1
  obtain ⟨h1, h2⟩ := overRange_sup s.bits s rfl hs.1 _ _ _ hf r h
  refine ⟨h1, ?_⟩
  intro x y hx hy
  obtain ⟨hc1, hc2⟩ := getShiftRange_covers s amt hamt y hy
  obtain ⟨si, hsi, hsub⟩ := h2 _ hc1 hc2
  have hxlt : x < 2 ^ s.bits := (mem_facts s x hs hx).2.1
  rw [lshr_roundTo _ _ _ hxlt]
  exact hsub _ ((rshiftLogicalK_sound 62 _ s si hs hnb hsi).2 x hx)

/-! ### left shift -/

theorem cd_mod_add (M a d : Nat) (hM : 0 < M) (hd : d < M) : cd M (a % M) ((a + d) % M) = d := by
  have := cd_add_right M (a % M) d (Nat.mod_lt _ hM) hd
  rwa [Nat.mod_add_mod] at this

theorem eq_add_cd (M lb x : Nat) (hl : lb < M) (hx : x < M) : x = (lb + cd M lb x) % M := by
  have : lb + cd M lb x = x ∨ lb + cd M lb x = x + M := by unfold cd; split_ifs <;> omega
  rcases this with h | h
  · rw [h, Nat.mod_eq_of_lt hx]
  · rw [h, Nat.add_mod_right, Nat.mod_eq_of_lt hx]

theorem shl_val (M lb d x P : Nat) (hx : x = (lb + d) % M) : (x * P) % M = (lb * P + d * P) % M := by
  subst hx
  rw [Nat.mod_mul_mod, Nat.add_mul]

theorem shl_roundTo (w x y : Nat) : Conc.shl w x y = (x <<< roundTo w y) % 2 ^ w := by
  unfold Conc.shl roundTo
  by_cases h : y < w
  · rw [if_pos h, if_neg (by omega)]
  · rw [if_neg h]
    have hz : (x <<< w) % 2 ^ w = 0 := by rw [Nat.shiftLeft_eq, Nat.mul_mod_left]
    by_cases h2 : y > w
    · rw [if_pos h2, hz]
    · rw [if_neg h2]
      have : y = w := by omega
      subst this
      rw [hz]

/-- **`_lshift(k)` is sound and closed**: the `w`-bit value of `x << k` is a member -/
theorem lshiftK_sound (s : SI) (k : Nat) (hs : s.WF) (hnb : s.bottom = false) :
    WFw s.bits (lshiftK s k) ∧ ∀ x, s.mem x → (lshiftK s k).mem ((x <<< k) % 2 ^ s.bits) := by
  obtain ⟨hw, hl, hu, hst⟩ := hs
  have hM := two_pow_pos' s.bits
  have hP := two_pow_pos' k
  have hspan : modSub (s.ub : Int) (s.lb : Int) s.bits = cd (2 ^ s.bits) s.lb s.ub := modSub_nat _ _ _ hu hl
  unfold lshiftK
  rw [hnb]
  simp only [Bool.false_eq_true, if_false, hspan, Nat.shiftLeft_eq]
  generalize hS : cd (2 ^ s.bits) s.lb s.ub = span
  by_cases h1 : span * 2 ^ k < 2 ^ s.bits
  · rw [if_pos h1]
    refine ⟨⟨new_WF _ _ _ _ hw ?_, new_bits _ _ _ _⟩, ?_⟩
    · intro h0
      have hs0 : s.stride = 0 := by
        rcases Nat.mul_eq_zero.1 h0 with h | h
        · exact h
        · omega
      have hlu : s.lb = s.ub := hst.1 hs0
      have : span = 0 := by rw [← hS, hlu, cd_self]
      rw [this, Nat.add_zero]
    · intro x hx
      obtain ⟨_, hxl, hd1, hd2⟩ := mem_facts s x ⟨hw, hl, hu, hst⟩ hx
      rw [hS] at hd1
      generalize hD : cd (2 ^ s.bits) s.lb x = d at hd1 hd2
      have hxe : x = (s.lb + d) % 2 ^ s.bits := by rw [← hD]; exact eq_add_cd _ _ _ hl hxl
      rw [mem_new, imod_nat, imod_nat, shl_val _ _ _ _ _ hxe, Nat.add_mul]
      have hdP : d * 2 ^ k ≤ span * 2 ^ k := Nat.mul_le_mul_right _ hd1
      rw [cd_mod_add _ _ _ hM (by omega), cd_mod_add _ _ _ hM h1]
      refine ⟨Nat.mod_lt _ hM, hdP, ?_⟩
      by_cases h0 : s.stride * 2 ^ k = 0
      · rw [if_pos h0]
        have hs0 : s.stride = 0 := by
          rcases Nat.mul_eq_zero.1 h0 with h | h
          · exact h
          · omega
        rw [hs0] at hd2
        have := Nat.eq_zero_of_zero_dvd hd2
        rw [this, Nat.zero_mul]
      · rw [if_neg h0]
        exact Nat.mod_eq_zero_of_dvd (Nat.mul_dvd_mul_right hd2 _)
  · rw [if_neg h1]
    by_cases h2 : k ≥ s.bits
    · rw [if_pos h2]
      refine ⟨⟨new_WF _ _ _ _ hw (fun _ => rfl), new_bits _ _ _ _⟩, ?_⟩
      intro x _
      have hz : (x * 2 ^ k) % 2 ^ s.bits = 0 :=
        Nat.mod_eq_zero_of_dvd (Nat.dvd_trans (Nat.pow_dvd_pow 2 h2) (Nat.dvd_mul_left _ _))
      rw [hz, mem_new]
      simp [imod_zero, cd_self, hM]
    · rw [if_neg h2]
      refine ⟨⟨new_WF _ _ _ _ hw (fun h => absurd h (by omega)), new_bits _ _ _ _⟩, ?_⟩
      intro x _
      have hPM : 2 ^ k ∣ 2 ^ s.bits := Nat.pow_dvd_pow 2 (by omega)
      have hzd : 2 ^ k ∣ (x * 2 ^ k) % 2 ^ s.bits := (Nat.dvd_mod_iff hPM).2 (Nat.dvd_mul_left _ _)
      have hzl : (x * 2 ^ k) % 2 ^ s.bits < 2 ^ s.bits := Nat.mod_lt _ hM
      generalize (x * 2 ^ k) % 2 ^ s.bits = z at hzd hzl
      obtain ⟨a, ha⟩ := hzd
      obtain ⟨b, hb⟩ := hPM
      have hab : a < b := by
        rw [ha, hb] at hzl
        exact Nat.lt_of_mul_lt_mul_left hzl
      have hzle : z ≤ 2 ^ s.bits - 2 ^ k := by
        rw [ha, hb]
        have : 2 ^ k * a + 2 ^ k ≤ 2 ^ k * b := by
          have := Nat.mul_le_mul_left (2 ^ k) (Nat.succ_le_of_lt hab)
          rw [Nat.mul_succ] at this; exact this
        omega
      have hlt : 2 ^ s.bits - 2 ^ k < 2 ^ s.bits := by omega
      rw [mem_new, imod_zero, imod_nat, Nat.mod_eq_of_lt hlt, cd_zero, cd_zero]
      refine ⟨hzl, hzle, ?_⟩
      rw [if_neg (by omega), ha, Nat.mul_mod_right]

/-- **`lshift` (interval shift amount) is sound and closed** -/
theorem shl_sound (s amt r : SI) (hs : s.WF) (hnb : s.bottom = false) (hamt : amt.WF)
    (h : s.lshift amt = .ok r) :
    WFw s.bits r ∧ ∀ x y, s.mem x → amt.mem y → r.mem (Conc.shl s.bits x y) := by
  unfold SI.lshift SI.lshiftRange at h
  simp only [] at h
  have hf : ∀ k si, (fun k => (pure (lshiftK s k) : R SI)) k = .ok si → WFw s.bits si := by
    intro k si hk
    have : si = lshiftK s k := by cases hk; rfl
    subst this
    exact (lshiftK_sound s k hs hnb).1
  obtain ⟨h1, h2⟩ := overRange_sup s.bits s rfl hs.1 _ _ _ hf r h
  refine ⟨h1, ?_⟩
  intro x y hx hy
  obtain ⟨hc1, hc2⟩ := getShiftRange_covers s amt hamt y hy
  obtain ⟨si, hsi, hsub⟩ := h2 _ hc1 hc2
  have : si = lshiftK s (roundTo s.bits y) := by cases hsi; rfl
  subst this
  rw [shl_roundTo]
  exact hsub _ ((lshiftK_sound s _ hs hnb).2 x hx)

end Claripy.VSA
