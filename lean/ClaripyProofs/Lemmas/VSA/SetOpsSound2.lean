import ClaripyProofs.Lemmas.VSA.SetOpsSound
import ClaripyProofs.Lemmas.VSA.Convert
import ClaripyProofs.Lemmas.VSA.Signed
import ClaripyProofs.Lemmas.VSA.Members
/-! Comparisons, the reflected operations and `eval` of `DiscreteStridedIntervalSet`: compositions of `collapse()`, the
liftings and the interval operations. -/
namespace Claripy.VSA

/-- what is asked of a (collapsible) operand: an interval with `Q`, or a set of width `w` whose members have `Q` -/
def Vok (w : Nat) (Q : SI → Prop) : Val → Prop
  | .si s => Q s
  | .ds d => d.bits = w ∧ ∀ t, t ∈ d.sis → Q t

theorem vcollapse_facts (w : Nat) (hw : 0 < w) (Q : SI → Prop) (hQ : ∀ s, Q s → WFw w s) (b : Val) (cb : SI)
    (hb : Vok w Q b) (h : b.collapse = .ok cb) : WFw w cb ∧ ∀ y, b.mem y → cb.mem y := by
  cases b with
  | si s => have := pure_ok' h; subst this; exact ⟨hQ _ hb, fun y hy => hy⟩
  | ds d =>
    have hP : ∀ t, t ∈ d.sis → WFw w t := fun t ht => hQ t (hb.2 t ht)
    exact ⟨collapse_WFw w hw d cb hb.1 hP h, fun y hy => collapse_sound (WFw w) (joinOK w) d cb hP h y hy⟩

theorem vcollapse_nrm (w : Nat) (b : Val) (cb : SI) (hb : Vok w (fun s => WFw w s ∧ Nrm s) b) (h : b.collapse = .ok cb) :
    Nrm cb := by
  cases b with
  | si s => have := pure_ok' h; subst this; exact hb.2
  | ds d => exact collapse_nrm w d cb hb.2 h

theorem vcollapse_aligned (w : Nat) (b : Val) (cb : SI) (hb : Vok w (fun s => WFw w s ∧ s.Aligned) b)
    (h : b.collapse = .ok cb) : cb.Aligned := by
  cases b with
  | si s => have := pure_ok' h; subst this; exact hb.2
  | ds d => exact collapse_aligned w d cb hb.2 h

/-- **unsigned orderings of a set** against a set or an interval -/
theorem dsis_ucmp (w : Nat) (hw : 0 < w) (op : CmpOp) (hop : op = .ult ∨ op = .ule ∨ op = .ugt ∨ op = .uge)
    (a : DSIS) (b : Val) (br : BoolRes) (ha : Vok w (WFw w) (.ds a)) (hb : Vok w (WFw w) b)
    (h : a.cmp (fun ca cb => applyCmp op { si := ca } { si := cb }) b = .ok br)
    (x y : Nat) (hx : a.mem x) (hy : b.mem y) : br.has (concCmp op w x y) = true := by
  unfold DSIS.cmp at h
  obtain ⟨cb, hcb, h⟩ := bind_ok' h
  obtain ⟨ca, hca, h⟩ := bind_ok' h
  obtain ⟨wa, ma⟩ := vcollapse_facts w hw (WFw w) (fun _ hs => hs) (.ds a) ca ha hca
  obtain ⟨wb, mb⟩ := vcollapse_facts w hw (WFw w) (fun _ hs => hs) b cb hb hcb
  have := ucmp_sound op hop { si := ca } { si := cb } br wa.1 wb.1 h x y (ma x hx) (mb y hy)
  rwa [show ({ si := ca } : AV).si.bits = w from wa.2] at this

/-- **signed orderings of a set** (members in constructor-normal form) -/
theorem dsis_scmp (w : Nat) (hw : 0 < w) (op : CmpOp) (hop : op = .slt ∨ op = .sle ∨ op = .sgt ∨ op = .sge)
    (a : DSIS) (b : Val) (br : BoolRes) (ha : Vok w (fun s => WFw w s ∧ Nrm s) (.ds a))
    (hb : Vok w (fun s => WFw w s ∧ Nrm s) b)
    (h : a.cmp (fun ca cb => applyCmp op { si := ca } { si := cb }) b = .ok br)
    (x y : Nat) (hx : a.mem x) (hy : b.mem y) : br.has (concCmp op w x y) = true := by
  unfold DSIS.cmp at h
  obtain ⟨cb, hcb, h⟩ := bind_ok' h
  obtain ⟨ca, hca, h⟩ := bind_ok' h
  obtain ⟨wa, ma⟩ := vcollapse_facts w hw _ (fun _ hs => hs.1) (.ds a) ca ha hca
  obtain ⟨wb, mb⟩ := vcollapse_facts w hw _ (fun _ hs => hs.1) b cb hb hcb
  have na := vcollapse_nrm w (.ds a) ca ha hca
  have nb := vcollapse_nrm w b cb hb hcb
  have := scmp_sound op hop { si := ca } { si := cb } br wa.1 wb.1 (by show ca.bits = cb.bits; rw [wa.2, wb.2]) na nb h x y
    (ma x hx) (mb y hy)
  rwa [show ({ si := ca } : AV).si.bits = w from wa.2] at this

/-- `eq` on aligned, normal intervals (the lemma-level form of `C21_eq_sound`) -/
theorem eq_sound (w : Nat) (a b : SI) (br : BoolRes) (x y : Nat) (ha : WFw w a) (hb : WFw w b)
    (ala : a.Aligned) (alb : b.Aligned) (na : Nrm a) (nb : Nrm b) (hx : a.mem x) (hy : b.mem y)
    (h : a.eq b = .ok br) : br.has (decide (x = y)) = true := by
  unfold SI.eq at h
  by_cases hint : (a.isInteger && b.isInteger) = true
  · rw [if_pos hint] at h
    have hi : a.lb = a.ub ∧ b.lb = b.ub := by simpa [SI.isInteger] using hint
    have ex := mem_integer a x ha.1 hi.1 hx
    have ey := mem_integer b y hb.1 hi.2 hy
    have := pure_ok' h
    subst this
    by_cases hl : a.lb = b.lb
    · have : x = y := by omega
      simp [hl, this, BoolRes.has, BoolRes.hasTrue]
    · have : x ≠ y := by omega
      simp [hl, this, BoolRes.has, BoolRes.hasFalse]
  · rw [if_neg hint] at h
    obtain ⟨m, hm, h⟩ := bind_ok' h
    have := pure_ok' h
    subst this
    by_cases hbot : m.bottom = true
    · rw [if_pos hbot]
      have : x ≠ y := by
        intro hxy
        subst hxy
        have := (meet_sound w a b m ha hb hx.1 hy.1 ala alb na nb hm).2 x hx hy
        rw [this.1] at hbot; cases hbot
      simp [this, BoolRes.has, BoolRes.hasFalse]
    · rw [if_neg hbot]; exact has_of_m _

/-- **`==` / `!=` of a set** — members aligned and normal (the guard of the interval meet; the collapsed intervals inherit it) -/
theorem dsis_eq (w : Nat) (hw : 0 < w) (a : DSIS) (b : Val) (br : BoolRes)
    (ha : Vok w (fun s => WFw w s ∧ Nrm s ∧ s.Aligned) (.ds a)) (hb : Vok w (fun s => WFw w s ∧ Nrm s ∧ s.Aligned) b)
    (h : a.cmp SI.eq b = .ok br) (x y : Nat) (hx : a.mem x) (hy : b.mem y) :
    br.has (decide (x = y)) = true ∧ br.not.has (decide (x ≠ y)) = true := by
  unfold DSIS.cmp at h
  obtain ⟨cb, hcb, h⟩ := bind_ok' h
  obtain ⟨ca, hca, h⟩ := bind_ok' h
  have weak : ∀ v, Vok w (fun s => WFw w s ∧ Nrm s ∧ s.Aligned) v →
      Vok w (fun s => WFw w s ∧ Nrm s) v ∧ Vok w (fun s => WFw w s ∧ s.Aligned) v := by
    intro v hv
    cases v with
    | si s => exact ⟨⟨hv.1, hv.2.1⟩, ⟨hv.1, hv.2.2⟩⟩
    | ds d => exact ⟨⟨hv.1, fun t ht => ⟨(hv.2 t ht).1, (hv.2 t ht).2.1⟩⟩, ⟨hv.1, fun t ht => ⟨(hv.2 t ht).1, (hv.2 t ht).2.2⟩⟩⟩
  obtain ⟨wa, ma⟩ := vcollapse_facts w hw _ (fun _ hs => hs.1) (.ds a) ca ha hca
  obtain ⟨wb, mb⟩ := vcollapse_facts w hw _ (fun _ hs => hs.1) b cb hb hcb
  have key := eq_sound w ca cb br x y wa wb (vcollapse_aligned w _ ca (weak _ ha).2 hca) (vcollapse_aligned w _ cb (weak _ hb).2 hcb)
    (vcollapse_nrm w _ ca (weak _ ha).1 hca) (vcollapse_nrm w _ cb (weak _ hb).1 hcb) (ma x hx) (mb y hy) h
  refine ⟨key, ?_⟩
  have := brNot_has br _ key
  simpa using this

/-! ### reflected operations -/

/-- the value a lifted operation returns is well formed when every per-member result is -/
theorem finishSet_WF (wr : Nat) (hw : 0 < wr) (results : List SI) (order : List Nat) (v : Val)
    (hP : ∀ s, s ∈ results → WFw wr s) (h : finishSet wr results order = .ok v) : Vok wr (WFw wr) v := by
  unfold finishSet at h
  cases hp : permute (dedupe results) order with
  | none => rw [hp] at h; cases h
  | some l =>
    rw [hp] at h
    have hPl : ∀ s, s ∈ l → WFw wr s := by
      intro s hs
      unfold permute at hp
      split at hp
      · cases hp
      · have hl : l = order.filterMap fun i => (dedupe results)[i]? := by cases hp; rfl
        subst hl
        obtain ⟨i, _, hi⟩ := List.mem_filterMap.1 hs
        exact hP s (dedupe_subset _ s (List.mem_of_getElem? hi))
    have hbits : setBits wr l = wr := by
      cases l with
      | nil => rfl
      | cons q qs => exact (hPl q List.mem_cons_self).2
    simp only [] at h
    generalize hd : ({ bits := setBits wr l, sis := l } : DSIS) = d at h
    have hdb : d.bits = wr := by rw [← hd]; exact hbits
    have hds : d.sis = l := by rw [← hd]
    unfold DSIS.normalize at h
    cases hc : d.cardinality with
    | error e => rw [hc] at h; cases h
    | ok c =>
      rw [hc] at h
      simp only [] at h
      by_cases hbig : c > maxCardinality
      · rw [if_pos hbig] at h
        cases hcol : d.collapse with
        | error e => rw [hcol] at h; cases h
        | ok r =>
          rw [hcol] at h
          have hv : v = Val.si r := by injection h with h3; exact h3.symm
          subst hv
          exact collapse_WFw wr hw d r hdb (by rw [hds]; exact hPl) hcol
      · rw [if_neg hbig] at h
        split at h
        · rename_i s hs
          have hv : v = Val.si s := by injection h with h3; exact h3.symm
          subst hv
          exact hPl s (by rw [← hds, hs]; exact List.mem_cons_self)
        · have hv : v = Val.ds d := by injection h with h3; exact h3.symm
          subst hv
          exact ⟨hdb, by rw [hds]; exact hPl⟩

/-- **`o - set`** (`__rsub__` = lifted negation, then `+ o`) contains `y - x` -/
theorem dsis_rsub (w : Nat) (hw : 0 < w) (a : DSIS) (o : SI) (order1 order2 : List Nat) (v : Val) (hab : a.bits = w)
    (ha : ∀ s, s ∈ a.sis → NE w s) (ho : NE w o) (h : a.rsub o order1 order2 = .ok v)
    (x y : Nat) (hx : a.mem x) (hy : o.mem y) : v.mem ((y + 2 ^ w - x) % 2 ^ w) := by
  have hM := two_pow_pos' w
  unfold DSIS.rsub at h
  obtain ⟨n, hn, h⟩ := bind_ok' h
  have hnm := dsis_neg w a order1 n ha hn x hx
  have hxl : x < 2 ^ w := by
    obtain ⟨s, hs, hsx⟩ := hx
    have := hsx.2.1; rwa [(ha s hs).bits] at this
  have hyl : y < 2 ^ w := by have := hy.2.1; rwa [ho.bits] at this
  -- well-formedness of the negated value
  have hnW : Vok w (WFw w) n := by
    unfold DSIS.lift1 at hn
    obtain ⟨L, hL, hn⟩ := bind_ok' hn
    rw [hab] at hn
    refine finishSet_WF w hw L order1 n ?_ hn
    intro r hr
    obtain ⟨s', hs', hsr⟩ := mapM_ok_mem_rev _ _ _ hL r hr
    have : r = s'.neg := by cases hsr; rfl
    subst this
    obtain ⟨c1, c2⟩ := neg_WF s' (ha s' hs').wf
    exact ⟨c1, by rw [c2, (ha s' hs').bits]⟩
  have hval : ((2 ^ w - x) % 2 ^ w + y) % 2 ^ w = (y + 2 ^ w - x) % 2 ^ w := by
    by_cases hx0 : x = 0
    · subst hx0
      rw [Nat.sub_zero, Nat.mod_self, Nat.zero_add, Nat.sub_zero, Nat.add_mod_right]
    · have e : 2 ^ w - x + y = y + 2 ^ w - x := by omega
      rw [Nat.mod_eq_of_lt (by omega : 2 ^ w - x < 2 ^ w), e]
  cases n with
  | si s =>
    have hv := pure_ok' h
    subst hv
    have hs : WFw w s := hnW
    have := add_sound s o _ y (by rw [hs.2, ho.bits]) hs.1 ho.wf hnm hy
    rw [hs.2, hval] at this
    exact this
  | ds d =>
    simp only [] at h
    have hdW : ∀ t, t ∈ d.sis → WFw w t := hnW.2
    have key := lift2_spec w (fun s t => pure (s.add t)) (fun p q => (p + q) % 2 ^ w) (fun _ _ => True) (WFw w) (NE w) d [o] order2 v
      ?_ hdW (fun t ht => by rw [List.mem_singleton] at ht; rw [ht]; exact ho) h _ y hnm ⟨o, List.mem_cons_self, hy⟩ trivial
    · rw [hval] at key; exact key
    · intro s t r hs ht hr
      have : r = s.add t := by cases hr; rfl
      subst this
      have hbits : s.bits = t.bits := by rw [hs.2, ht.bits]
      obtain ⟨c1, c2⟩ := add_WF s t hs.1 ht.wf hbits
      refine ⟨⟨c1, by rw [c2, hs.2]⟩, ?_⟩
      intro p q hp hq _
      have := add_sound s t p q hbits hs.1 ht.wf hp hq
      rwa [hs.2] at this

/-- **`o // set`** (`__rfloordiv__` = `o // set.collapse()`), division by zero exempt -/
theorem dsis_rudiv (w : Nat) (hw : 0 < w) (a : DSIS) (o : SI) (order : List Nat) (r : SI) (hab : a.bits = w)
    (ha : ∀ s, s ∈ a.sis → WFw w s) (ho : NE w o) (h : a.rudiv o order = .ok r)
    (x y : Nat) (hx : a.mem x) (hy : o.mem y) (hx0 : x ≠ 0) : r.mem (y / x) := by
  unfold DSIS.rudiv at h
  obtain ⟨c, hc, h⟩ := bind_ok' h
  have wc := collapse_WFw w hw a c hab ha hc
  have mc := collapse_sound (WFw w) (joinOK w) a c ha hc x hx
  exact (udiv_sound o c r order ho.wf wc.1 (by rw [ho.bits, wc.2]) ho.nb mc.1 h).2 y x hy mc hx0

/-- **`o % set`** (`__rmod__` = `o % set.collapse()`), division by zero exempt -/
theorem dsis_rmod (w : Nat) (hw : 0 < w) (a : DSIS) (o : SI) (r : SI) (hab : a.bits = w)
    (ha : ∀ s, s ∈ a.sis → WFw w s) (ho : NE w o) (h : a.rmod o = .ok r)
    (x y : Nat) (hx : a.mem x) (hy : o.mem y) (hx0 : x ≠ 0) : r.mem (y % x) := by
  unfold DSIS.rmod at h
  obtain ⟨c, hc, h⟩ := bind_ok' h
  have wc := collapse_WFw w hw a c hab ha hc
  have mc := collapse_sound (WFw w) (joinOK w) a c ha hc x hx
  exact (mod_sound_full w o c r ⟨ho.wf, ho.bits⟩ wc ho.nb mc.1 h).2 y x hy mc hx0

/-! ### eval -/

/-- **`eval(n)` of a set** draws members only, and all of them once `n` covers every member interval -/
theorem dsis_eval (d : DSIS) (n : Nat) (l : List Int) (hd : ∀ s, s ∈ d.sis → s.WF ∧ s.bottom = false)
    (h : d.evalCandidates n = .ok l) :
    (∀ v, v ∈ l → ∃ x : Nat, v = (x : Int) ∧ d.mem x) ∧
    ((∀ s, s ∈ d.sis → s.members.length ≤ n) → ∀ x, d.mem x → (x : Int) ∈ l) := by
  unfold DSIS.evalCandidates at h
  obtain ⟨ls, hls, h⟩ := bind_ok' h
  have hl := pure_ok' h
  subst hl
  constructor
  · intro v hv
    obtain ⟨li, hli, hvi⟩ := List.mem_flatten.1 hv
    obtain ⟨s, hs, hsl⟩ := mapM_ok_mem_rev _ _ _ hls li hli
    have he := eval_exact s n li (hd s hs).1 (hd s hs).2 hsl
    rw [he] at hvi
    obtain ⟨x, hx, hxv⟩ := List.mem_map.1 hvi
    exact ⟨x, hxv.symm, s, hs, (mem_members s (hd s hs).1 x).1 (List.mem_of_mem_take hx)⟩
  · intro hn x ⟨s, hs, hsx⟩
    obtain ⟨li, hli, hsl⟩ := mapM_ok_mem _ _ _ hls s hs
    have he := eval_exact s n li (hd s hs).1 (hd s hs).2 hsl
    apply List.mem_flatten.2
    refine ⟨li, hli, ?_⟩
    rw [he, List.take_of_length_le (hn s hs)]
    exact List.mem_map.2 ⟨x, (mem_members s (hd s hs).1 x).2 hsx, rfl⟩

end Claripy.VSA
